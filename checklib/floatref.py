"""Float references for the affine operators (C04, C05) on inputs carried bit for bit: the exact value is
computed in float64 from the very float32 / float64 operands; the implementation's answer must lie within the
forward error bound of a fixed-order dot product proved in lean/Gonnx/Theorems/C04b.lean
(|computed - exact| <= ((1+u)^(n+1) - 1) * sum |x_k y_k|, here with the extra roundings of alpha, beta, bias),
and special values must come out as IEEE prescribes for the DEFINING formula (an infinite or NaN term makes the
sum infinite or NaN; an intermediate of another evaluation order must not)."""
import math

U = {"f32": 2.0 ** -24, "f64": 2.0 ** -53}
TINY = {"f32": 1.5e-45, "f64": 5e-324}
HUGE = {"f32": 3.4028234663852886e38, "f64": 1.7976931348623157e308}


def attr(attrs, name, default=None):
    for a in attrs or []:
        if a.get("name") == name:
            t = a.get("type")
            return {"i": a.get("i", 0), "f": a.get("f", 0.0), "s": a.get("s", ""), "ints": a.get("ints") or [], "floats": a.get("floats") or []}.get(t, default)
    return default


def f32(x):
    import struct
    try:
        return struct.unpack("<f", struct.pack("<f", x))[0]
    except OverflowError:
        return math.copysign(math.inf, x)


def dot_terms(terms):
    """exact sum of the products and the sum of their magnitudes, with IEEE special values: returns (value, mag)"""
    if any(math.isnan(t) for t in terms):
        return math.nan, math.inf
    pos, neg = any(t == math.inf for t in terms), any(t == -math.inf for t in terms)
    if pos and neg:
        return math.nan, math.inf
    if pos or neg:
        return (math.inf if pos else -math.inf), math.inf
    return math.fsum(terms), math.fsum(abs(t) for t in terms)


def mul(a, b):
    if (a == 0 and math.isinf(b)) or (b == 0 and math.isinf(a)):
        return math.nan
    return a * b


def close(y, exact, mag, n, dt, extra=0.0):
    """y is the implementation's value, exact the defining value, mag the sum of |terms|, n the number of roundings"""
    u = U[dt]
    if math.isnan(exact):
        return math.isnan(y)
    if math.isinf(exact):
        return y == exact
    if abs(exact) > HUGE[dt] * (1 + 4 * u):
        return math.isinf(y) and (y > 0) == (exact > 0)        # the defining value itself overflows
    if math.isnan(y) or math.isinf(y):
        # finite defining value: an overflow is excused only when the terms themselves leave the range
        return mag > HUGE[dt]          # (an overflow of both signs gives Inf - Inf = NaN)
    bound = math.expm1((n + 2) * math.log1p(u)) * mag * 2 + extra + 4 * TINY[dt] * (n + 1)    # (1+u)^(n+2) - 1, without cancellation
    return abs(y - exact) <= bound


def shape_index(shape, idx):
    k = 0
    for d, i in zip(shape, idx):
        k = k * d + i
    return k


def gemm_check(c, floats_of):
    ins = c["inputs"]
    A, B = ins[0], ins[1]
    C = ins[2] if len(ins) > 2 else None
    dt = A["dt"]
    if dt not in U or len(A["shape"]) != 2 or len(B["shape"]) != 2:
        return None
    a, b = floats_of(A), floats_of(B)
    alpha = attr(c.get("attrs"), "alpha", 1.0) if any(x.get("name") == "alpha" for x in c.get("attrs") or []) else 1.0
    beta = attr(c.get("attrs"), "beta", 1.0) if any(x.get("name") == "beta" for x in c.get("attrs") or []) else 1.0
    alpha, beta = f32(alpha), f32(beta)
    tA, tB = bool(attr(c.get("attrs"), "transA", 0)), bool(attr(c.get("attrs"), "transB", 0))
    (m, k) = (A["shape"][1], A["shape"][0]) if tA else tuple(A["shape"])
    (k2, n) = (B["shape"][1], B["shape"][0]) if tB else tuple(B["shape"])
    if k != k2:
        return None
    out = c["impl"]["outs"][0]
    if list(out["shape"]) != [m, n] or out["dt"] != dt:
        return "violates", f"Gemm result has shape {out['shape']} / type {out['dt']}, expected {[m, n]} / {dt}"
    ys = floats_of(out)
    cs = floats_of(C) if C else None
    for i in range(m):
        for j in range(n):
            terms = []
            for l in range(k):
                av = a[l * m + i] if tA else a[i * k + l]
                bv = b[j * k + l] if tB else b[l * n + j]
                terms.append(mul(av, bv))
            s, mag = dot_terms(terms)
            exact = mul(alpha, s) if not (alpha == 1.0) else s
            mg = abs(alpha) * mag if math.isfinite(mag) else math.inf
            if cs is not None:
                cs_shape = C["shape"]
                if len(cs_shape) == 0:
                    cv = cs[0]
                elif len(cs_shape) == 1:
                    cv = cs[j if cs_shape[0] == n else 0]
                else:
                    cv = cs[(i if cs_shape[0] == m else 0) * cs_shape[1] + (j if cs_shape[1] == n else 0)]
                bc = mul(beta, cv) if beta != 1.0 else cv
                exact, mg2 = dot_terms([exact, bc])
                mg = mg + abs(bc) if math.isfinite(mg) and math.isfinite(bc) else math.inf
            if not close(ys[i * n + j], exact, mg, k + 3, dt):
                return "violates", f"Gemm[{i},{j}] = {ys[i * n + j]!r}, alpha*(A*B)+beta*C = {exact!r} (sum of |terms| {mg!r}: beyond the dot-product rounding bound / special-value rules)"
    return "holds", ""


def scaler_check(c, floats_of):
    X = c["inputs"][0]
    dt = X["dt"]
    if dt != "f32":
        return None
    off, sc = attr(c.get("attrs"), "offset"), attr(c.get("attrs"), "scale")
    if not off or not sc or not X["shape"]:
        return None
    last = X["shape"][-1]
    if len(off) not in (1, last) or len(sc) not in (1, last):
        return None
    out = c["impl"]["outs"][0]
    if list(out["shape"]) != list(X["shape"]) or out["dt"] != dt:
        return "violates", "Scaler changed the shape or element type"
    xs, ys = floats_of(X), floats_of(out)
    for i, (x, y) in enumerate(zip(xs, ys)):
        o = f32(off[i % last] if len(off) > 1 else off[0])
        s = f32(sc[i % last] if len(sc) > 1 else sc[0])
        d = x - o
        if math.isnan(d):
            exact = math.nan
        else:
            exact = mul(f32(d), s)
        # (x - offset) is rounded once, the product once: relative error about 2u of the result
        if not close(y, exact, abs(exact) if math.isfinite(exact) else math.inf, 2, dt, extra=abs(s) * abs(d) * U[dt] * 2 if math.isfinite(d) and math.isfinite(s) else 0.0):
            return "violates", f"Scaler element {i}: ({x!r} - {o!r}) * {s!r} = {exact!r}, got {y!r}"
    return "holds", ""


def conv_check(c, floats_of):
    ins = c["inputs"]
    X, W = ins[0], ins[1]
    Bv = ins[2] if len(ins) > 2 and ins[2] else None
    dt = X["dt"]
    if dt not in U:
        return None
    sx, sw = X["shape"], W["shape"]
    nd = len(sx) - 2
    if nd not in (1, 2) or len(sw) != len(sx) or sx[1] != sw[1]:
        return None
    at = c.get("attrs")
    if attr(at, "auto_pad", "NOTSET") not in ("NOTSET", "", None) or (attr(at, "group", 1) or 1) != 1:
        return None
    strides = attr(at, "strides") or [1] * nd
    dil = attr(at, "dilations") or [1] * nd
    pads = attr(at, "pads") or [0] * (2 * nd)
    if any(k == 1 for k in sw[2:]):
        return None          # recorded finding of the pinned tree (kernel extent 1)
    xs0, ws0 = floats_of(X), floats_of(W)
    if any(d > 1 for d in dil) and not all(math.isfinite(v) for v in xs0):
        # the library dilates the kernel by inserting zeros: a non-finite sample at a SKIPPED position meets an
        # inserted zero (Inf * 0 = NaN) although the defining sum does not contain it. Non-finite samples are not
        # in the quantifier of C05; with dilation they are left unjudged (observation recorded in DESIGN.md)
        return None
    if any(p > 0 for p in pads) and not all(math.isfinite(v) for v in ws0):
        return None          # a non-finite weight over the zero padding: 0 * Inf, likewise outside the quantifier
    outsp = []
    for d in range(nd):
        eff = (sw[2 + d] - 1) * dil[d] + 1
        span = sx[2 + d] + pads[d] + pads[nd + d] - eff
        if span < 0:
            return None
        outsp.append(span // strides[d] + 1)
    out = c["impl"]["outs"][0]
    want = [sx[0], sw[0]] + outsp
    if list(out["shape"]) != want or out["dt"] != dt:
        return "violates", f"Conv result has shape {out['shape']}, expected {want}"
    xs, ws, ys = floats_of(X), floats_of(W), floats_of(out)
    bs = floats_of(Bv) if Bv else None
    import itertools
    for n in range(sx[0]):
        for m in range(sw[0]):
            for pos in itertools.product(*[range(o) for o in outsp]):
                terms = []
                for ch in range(sx[1]):
                    for kp in itertools.product(*[range(k) for k in sw[2:]]):
                        src = [pos[d] * strides[d] - pads[d] + kp[d] * dil[d] for d in range(nd)]
                        if any(s < 0 or s >= sx[2 + d] for d, s in enumerate(src)):
                            continue      # padding: a zero, whatever the weight
                        xv = xs[shape_index(sx, [n, ch] + src)]
                        wv = ws[shape_index(sw, [m, ch] + list(kp))]
                        terms.append(mul(xv, wv))
                s, mag = dot_terms(terms)
                if bs is not None:
                    s, _ = dot_terms([s, bs[m]])
                    mag = mag + abs(bs[m]) if math.isfinite(mag) and math.isfinite(bs[m]) else math.inf
                y = ys[shape_index(want, [n, m] + list(pos))]
                if not close(y, s, mag, len(terms) + 2, dt):
                    return "violates", f"Conv[{n},{m},{list(pos)}] = {y!r}, the direct convolution gives {s!r} (sum of |terms| {mag!r})"
    return "holds", ""


CHECKS = {"Gemm": gemm_check, "Scaler": scaler_check, "Conv": conv_check}
