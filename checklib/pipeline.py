"""Shared pipeline of bin/check: build harness against /repo, regenerate tables, build and audit the
Lean project, run the correspondence streams, decide the verdict, write evidence."""
import json
import fcntl, hashlib, json, os, re, subprocess, sys, time
from pathlib import Path

VERIF = Path(__file__).resolve().parent.parent
LEAN = VERIF / "lean"
HARNESS_SRC = VERIF / "harness"
BUILD = VERIF / ".build"
REPO = Path(os.environ.get("VERIF_REPO", "/repo"))
ALLOWED_AXIOMS = {"propext", "Classical.choice", "Quot.sound"}

GOENV = dict(os.environ, GOFLAGS="-mod=mod", GOPROXY="off", GOSUMDB="off", GOTOOLCHAIN="local",
             CGO_ENABLED=os.environ.get("CGO_ENABLED", "1"))


class Lock:
    def __init__(self, name):
        BUILD.mkdir(exist_ok=True)
        self.path = BUILD / (name + ".lock")
    def __enter__(self):
        self.f = open(self.path, "w")
        fcntl.flock(self.f, fcntl.LOCK_EX)
    def __exit__(self, *a):
        fcntl.flock(self.f, fcntl.LOCK_UN)
        self.f.close()


def run(cmd, cwd=None, env=None, timeout=None, stdin=None, stdout=subprocess.PIPE):
    return subprocess.run(cmd, cwd=cwd, env=env, timeout=timeout, stdin=stdin, stdout=stdout,
                          stderr=subprocess.STDOUT, text=True)


def build_harness(race=False):
    """go build -tags verif against /repo's working tree. Returns (path, error_text)."""
    out = BUILD / ("harness_race" if race else "harness")
    with Lock("go"):
        (HARNESS_SRC / "go.sum").write_text((REPO / "go.sum").read_text())
        cmd = ["go", "build", "-tags", "verif", "-o", str(out)]
        if race:
            cmd.insert(2, "-race")
        cmd.append(".")
        r = run(cmd, cwd=HARNESS_SRC, env=GOENV, timeout=600)
    if r.returncode != 0:
        return None, r.stdout
    return out, ""


def source_facts(harness):
    """{relative path: fingerprint} of /repo's non-test Go files (harness facts), or None"""
    r = run([str(harness), "facts", str(REPO)], timeout=120)
    if r.returncode != 0:
        return None
    try:
        return json.loads(r.stdout[r.stdout.index("{"):])
    except (ValueError, json.JSONDecodeError):
        return None


# files every property depends on (shared helpers, Run, the decoder)
SHARED_FILES = ["model.go", "opset.go", "errors.go", "onnx/graph_proto.go", "ops/validate_inputs.go", "ops/utils.go", "ops/types.go",
                "ops/errors.go", "ops/slicer.go", "ops/convert.go", "ops/unidir_broadcast.go", "ops/multidir_broadcast.go",
                "ops/binary_op.go", "ops/activation.go", "ops/recurrent_utils.go", "ops/opset13/opset13.go"]


def changed_sources(prop, facts):
    """the files the property is anchored in (properties.jsonl) plus the shared helpers whose fingerprint differs
    from source_pins.json - including files that were added or removed there"""
    pins = json.loads((VERIF / "source_pins.json").read_text())["files"]
    anchors = []
    for line in (VERIF / "properties.jsonl").read_text().splitlines():
        if line.strip():
            pr = json.loads(line)
            if pr["id"] == prop:
                anchors = list((pr.get("anchors") or {}).get("files") or [])
    watch = set(anchors) | set(SHARED_FILES)
    out = []
    if facts is None:
        return ["<fingerprints unavailable>"]
    for f in sorted(watch | {k for k in set(pins) ^ set(facts)}):
        if pins.get(f) != facts.get(f):
            if f in watch or f not in pins or f not in facts:
                out.append(f)
    return out


def reflect(harness):
    with Lock("lake"):
        r = run([str(harness), "reflect", str(LEAN / "Gonnx" / "Generated")], timeout=120)
    return r.returncode == 0, r.stdout


def lake_build(targets, timeout=3000):
    with Lock("lake"):
        r = run(["lake", "build"] + targets, cwd=LEAN, timeout=timeout)
    return r.returncode == 0, r.stdout


FORBIDDEN = re.compile(r"\b(sorry|admit|native_decide|bv_decide|implemented_by)\b|^\s*axiom\s|unsafe\s|maxHeartbeats\s+0")


def strip_comments(src):
    src = re.sub(r"/-.*?-/", "", src, flags=re.S)
    src = re.sub(r"--[^\n]*", "", src)
    return src


def grep_forbidden():
    hits = []
    for p in list((LEAN / "Gonnx").rglob("*.lean")) + [LEAN / "Driver.lean"] + list((LEAN / "DriverLib").rglob("*.lean")):
        for i, line in enumerate(strip_comments(p.read_text()).splitlines()):
            if FORBIDDEN.search(line):
                hits.append(f"{p.relative_to(LEAN)}:{i+1}: {line.strip()}")
    return hits


def audit(prop, theorems):
    """#print axioms for every property theorem. Returns (n_ok, details, failures)."""
    info = theorems.get(prop)
    if not info or not info.get("theorems"):
        return 0, [], []
    BUILD.mkdir(exist_ok=True)
    f = BUILD / f"Audit_{prop}.lean"
    lines = [f"import {m}" for m in info["modules"]]
    for t in info["theorems"]:
        lines.append(f"#print axioms {t}")
    f.write_text("\n".join(lines) + "\n")
    r = run(["lake", "env", "lean", str(f)], cwd=LEAN, timeout=1200)
    out = r.stdout
    details, failures, ok = [], [], 0
    # parse: "'name' depends on axioms: [a, b]" or "'name' does not depend on any axioms"
    found = {}
    for m in re.finditer(r"'(\S+)' depends on axioms: \[([^\]]*)\]", out, flags=re.S):
        found[m.group(1)] = {a.strip() for a in m.group(2).replace("\n", " ").split(",") if a.strip()}
    for m in re.finditer(r"'(\S+)' does not depend on any axioms", out):
        found[m.group(1)] = set()
    for t in info["theorems"]:
        if t not in found:
            failures.append(f"{t}: not checked ({'build error' if r.returncode else 'missing'})")
            continue
        bad = found[t] - ALLOWED_AXIOMS
        if bad:
            failures.append(f"{t}: forbidden axioms {sorted(bad)}")
        else:
            ok += 1
            details.append({"theorem": t, "axioms": sorted(found[t])})
    if r.returncode != 0 and not failures:
        failures.append("audit file failed: " + out[-2000:])
    return ok, details, failures, out


LAST_HARNESS_STDERR = ""


def run_stream(harness, prop, tier, seed, extra_args=()):
    """harness gen -> cases (with impl results); driver -> model answers. Returns joined list.
    The harness' stderr (race detector reports of a -race build) is kept in LAST_HARNESS_STDERR."""
    global LAST_HARNESS_STDERR
    BUILD.mkdir(exist_ok=True)
    tag = f"{prop}_{tier}_{seed}_{os.getpid()}"
    cases = BUILD / f"cases_{tag}.jsonl"
    model = BUILD / f"model_{tag}.jsonl"
    r = subprocess.run([str(harness), "gen", "-prop", prop, "-tier", tier, "-seed", str(seed), "-out", str(cases)] + list(extra_args),
                       stdout=subprocess.PIPE, stderr=subprocess.PIPE, text=True, timeout=(1800 if tier != 'thorough' else 7200),
                       env=dict(os.environ, GORACE="halt_on_error=0"))
    LAST_HARNESS_STDERR = r.stderr or ""
    if r.returncode != 0 and "DATA RACE" not in LAST_HARNESS_STDERR:
        raise RuntimeError("harness gen failed: " + (r.stdout + r.stderr)[-4000:])
    driver = LEAN / ".lake" / "build" / "bin" / "gonnx_driver"
    with open(cases) as fi, open(model, "w") as fo:
        rd = subprocess.run([str(driver)], stdin=fi, stdout=fo, stderr=subprocess.PIPE, text=True, timeout=7200)
    if rd.returncode != 0:
        raise RuntimeError("driver failed: " + rd.stderr[-4000:])
    out = []
    with open(cases) as fc, open(model) as fm:
        for lc, lm in zip(fc, fm):
            c = json.loads(lc)
            m = json.loads(lm)
            if m.get("id") != c.get("id"):
                raise RuntimeError(f"driver/harness id mismatch {m.get('id')} vs {c.get('id')}")
            c["model"] = m.get("model")
            c["spec"] = m.get("spec")
            c["guard"] = m.get("guard", [])
            c["tags"] = m.get("tags", [])
            if "arity" in m:
                c["arity"] = m["arity"]
            if "types" in m:
                c["types"] = m["types"]
            out.append(c)
    cases.unlink()
    model.unlink()
    return out
