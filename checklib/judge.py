"""Per-kind judgement of one case: implementation vs model (correspondence) and implementation vs
property (spec + domain). Pure functions of the joined case record."""
import math


def num_eq(a, b):
    """exact-regime comparison: integers compared exactly; the sign of zero is not visible to the
    integer carrier of the driver (it is compared by bit pattern in the special-value streams)"""
    if isinstance(a, str) or isinstance(b, str):
        sa, sb = str(a), str(b)
        if sa == sb:
            return True
        try:
            return int(sa) == int(sb)
        except ValueError:
            pass
        try:
            return float(sa) == float(sb)
        except ValueError:
            return False
    return a == b


import struct
from checklib import floatref


def bits_to_float(b):
    return struct.unpack("<d", struct.pack("<Q", int(b)))[0]


def to_float(x):
    if isinstance(x, str):
        return {"nan": math.nan, "inf": math.inf, "-inf": -math.inf, "-0": -0.0}.get(x, None) if x in ("nan", "inf", "-inf", "-0") else float(x)
    return float(x)


def floats_of(t):
    if t.get("bits") is not None and len(t.get("bits")) > 0:
        return [bits_to_float(b) for b in t["bits"]]
    return [to_float(x) for x in (t.get("data") or [])]


def float_close(x, y, dt):
    """tolerance comparison of the transcendental streams (TESTING, not proof): NaN matches NaN,
    infinities and zeros must agree exactly (zero up to sign handled by callers), else relative"""
    if math.isnan(x) or math.isnan(y):
        return math.isnan(x) and math.isnan(y)
    if math.isinf(x) or math.isinf(y):
        return x == y
    rel = 2e-5 if dt == "f32" else 1e-11
    return abs(x - y) <= rel * max(abs(x), abs(y)) + (1e-30 if dt == "f32" else 1e-300) or abs(x - y) <= (1e-37 if dt == "f32" else 1e-307)


# largest finite magnitude among the float inputs of the case being judged (cancellation error of a
# float32 / float64 kernel is proportional to it); set by judge_op
SCALE_HINT = [0.0]
# IEEE-exact streams (+ - * / on float32 / float64 are correctly rounded in Go and in the driver):
# compared bit for bit, any NaN matching any NaN; set by judge_op from the driver's tag "ieee-exact"
EXACT_BITS = [False]


def float_same(x, y):
    if math.isnan(x) or math.isnan(y):
        return math.isnan(x) and math.isnan(y)
    return x == y and math.copysign(1.0, x) == math.copysign(1.0, y)


def tensor_eq(a, b):
    if a is None or b is None:
        return a is None and b is None
    if a.get("dt") != b.get("dt"):
        return False
    if list(a.get("shape") or []) != list(b.get("shape") or []):
        return False
    if a.get("bits") or b.get("bits"):
        fa, fb = floats_of(a), floats_of(b)
        if len(fa) != len(fb):
            return False
        if EXACT_BITS[0]:
            return all(float_same(x, y) for x, y in zip(fa, fb))
        # absolute slack proportional to the largest finite magnitude in the tensor (cancellation)
        scale = max([1.0, SCALE_HINT[0]] + [abs(v) for v in fa + fb if math.isfinite(v)])
        atol = (3e-6 if a.get("dt") == "f32" else 1e-13) * scale
        return all(float_close(x, y, a.get("dt")) or (math.isfinite(x) and math.isfinite(y) and abs(x - y) <= atol) for x, y in zip(fa, fb))
    da, db = a.get("data") or [], b.get("data") or []
    if a.get("dt") in ("f32", "f64"):
        # float tensors in the exact regime: the implementation's values arrive as shortest decimal
        # representations (4611686018427388000 for 2^62), the model's as exact integers - compare the doubles
        def feq(x, y):
            try:
                fx, fy = to_float(x), to_float(y)
            except (ValueError, OverflowError):
                return num_eq(x, y)
            if fx is None or fy is None:
                return num_eq(x, y)
            return fx == fy or (math.isnan(fx) and math.isnan(fy))
        return len(da) == len(db) and all(feq(x, y) for x, y in zip(da, db))
    return len(da) == len(db) and all(num_eq(x, y) for x, y in zip(da, db))


def outs_eq(a, b):
    a, b = a or [], b or []
    return len(a) == len(b) and all(tensor_eq(x, y) for x, y in zip(a, b))


def status_eq(impl, model, errkinds=True):
    if impl["status"] != model["status"]:
        return False
    if impl["status"] == "error" and errkinds and model.get("errkind"):
        return impl.get("errkind") == model.get("errkind")
    return True


class J:
    """result of judging one case"""
    def __init__(self, corr="agree", verdict="holds", tag=None, what="", key=None, trivial=False):
        self.corr, self.verdict, self.tag, self.what, self.key, self.trivial = corr, verdict, tag, what, key, trivial


def mut_norm(m):
    return sorted((x.get("input"), x.get("what"), tuple(x.get("shape") or [])) for x in (m or []))


def _safe(f):
    def g(x):
        try:
            return f(x)
        except ValueError:
            return math.nan
        except OverflowError:
            return math.inf
    return g


def _sigmoid(x):
    if math.isnan(x):
        return math.nan
    if x >= 0:
        return 1.0 / (1.0 + math.exp(-x))
    e = math.exp(x)
    return e / (1.0 + e)


def _cosh(x):
    try:
        return math.cosh(x)
    except OverflowError:
        return math.inf


def _sinh(x):
    try:
        return math.sinh(x)
    except OverflowError:
        return math.copysign(math.inf, x)


def _atanh(x):
    if x == 1.0:
        return math.inf
    if x == -1.0:
        return -math.inf
    try:
        return math.atanh(x)
    except ValueError:
        return math.nan


UNARY_REF = {
    "Abs": abs, "Relu": lambda x: x if math.isnan(x) else max(x, 0.0), "Sigmoid": _sigmoid, "Tanh": math.tanh,
    "Sin": _safe(math.sin), "Cos": _safe(math.cos), "Tan": _safe(math.tan),
    "Asin": _safe(math.asin), "Acos": _safe(math.acos), "Atan": math.atan,
    "Sinh": _sinh, "Cosh": _cosh, "Asinh": math.asinh, "Acosh": _safe(math.acosh), "Atanh": _atanh,
}


def _f32(x):
    try:
        return struct.unpack("<f", struct.pack("<f", x))[0]
    except OverflowError:
        return math.copysign(math.inf, x)


def unary_ref_check(c):
    """C10 on the implementation's output alone (TESTING with tolerance): each element equals the named
    function of the input element, shape and element type preserved, IEEE special values propagated"""
    x = c["inputs"][0]
    out = c["impl"]["outs"][0]
    if list(out["shape"]) != list(x["shape"]) or out["dt"] != x["dt"]:
        return "violates", "shape or element type not preserved"
    f = UNARY_REF[c["op"]]
    xs, ys = floats_of(x), floats_of(out)
    if len(xs) != len(ys):
        return "violates", "element count changed"
    dt = x["dt"]
    for a, y in zip(xs, ys):
        ref = f(a)
        if dt == "f32":
            ref = _f32(ref)
        # absolute slack: proportional to |argument| only for the periodic functions (argument reduction)
        scale = max(1.0, abs(a)) if c["op"] in ("Sin", "Cos", "Tan") and math.isfinite(a) and abs(a) < 1e6 else 1.0
        # absolute slack only where the function has zeros with ill-conditioned neighbourhoods (periodic functions);
        # results of the other functions are relative-accurate however small they are (Sigmoid(-100) = 3.7e-44, not
        # "about 0"; float32 Acos(0.9999) = 1.4e-2 to a few ulp, not to 1e-6 absolute) - float32 results below the
        # normal range may flush (handled below)
        abs_ok = c["op"] in ("Sin", "Cos", "Tan")
        ok = float_close(ref, y, dt) or (abs_ok and math.isfinite(ref) and math.isfinite(y) and abs(ref - y) <= (1e-6 if dt == "f32" else 1e-14) * scale)
        if dt == "f32" and not ok and math.isfinite(ref) and math.isfinite(y):
            # results that are tiny or huge in float32 may legitimately flush / saturate by one ulp
            ok = abs(ref - y) <= 2e-5 * max(abs(ref), abs(y)) + 1e-37
        if dt == "f32" and ok and c["op"] not in ("Sigmoid", "Tanh", "Sin", "Cos", "Tan", "Relu", "Abs") and math.isfinite(ref) and math.isfinite(y):
            # these are computed in float64 and rounded once: within a few units in the last place of float32
            # (measured on the pinned tree: 0 ulp against this reference) - a float32-only formula that cancels
            # near a domain boundary (acos(x) = pi/2 - asin(x) at x -> 1) is tens to thousands of ulp off
            ok = abs(ref - y) <= 5e-7 * abs(ref) + 3e-45
        if c["op"] == "Abs":
            ok = float_same(ref, y)      # exact, including Abs(-0) = +0
        if not ok:
            return "violates", f"{c['op']}({a!r}) = {y!r}, expected {ref!r}"
    return "holds", ""


SOFTMAX_FAR = [False]


def softmax_props(c):
    """C09 softmax clause, checked on the implementation's output alone: along the requested axis every
    Softmax slice is non-negative and sums to 1, LogSoftmax is its logarithm, finite inputs give finite
    results, the order of the lane is preserved; off the axis nothing is mixed (lanes are independent:
    checked by the model comparison). Theorems/C09b proves these of the real-valued Softmax / LogSoftmax."""
    x = c["inputs"][0]
    out = c["impl"]["outs"][0]
    shape = x["shape"]
    if list(out["shape"]) != list(shape) or out["dt"] != x["dt"]:
        return "violates", "shape or element type not preserved"
    axis = c["p"]["axis"]
    r = len(shape)
    ax = axis + r if axis < 0 else axis
    xs, ys = floats_of(x), floats_of(out)
    finite_in = all(math.isfinite(v) for v in xs)
    n = shape[ax]
    inner = 1
    for d in shape[ax + 1:]:
        inner *= d
    outer = 1
    for d in shape[:ax]:
        outer *= d
    tol = 1e-4 if x["dt"] == "f32" else 1e-10
    for o in range(outer):
        for i in range(inner):
            lane_x = [xs[(o * n + k) * inner + i] for k in range(n)]
            lane = [ys[(o * n + k) * inner + i] for k in range(n)]
            if not all(math.isfinite(v) for v in lane_x):
                continue
            # gorgonia anchors every lane on the first element of the whole tensor: far from the lane's own
            # maximum the exponentials over- or underflow (recorded finding); near it nothing may go wrong
            far = math.isfinite(xs[0]) and abs(xs[0] - max(lane_x)) > 60
            SOFTMAX_FAR[0] = far
            if c["op"] == "Softmax":
                if any((not math.isfinite(v)) or v < 0 for v in lane):
                    return "violates", f"Softmax slice not finite/non-negative for finite input {lane_x[:4]} -> {lane[:4]}"
                if abs(sum(lane) - 1) > tol:
                    return "violates", f"Softmax slice sums to {sum(lane)}"
            else:
                # rounding of log(sum exp(x - anchor)): relative to the magnitudes involved
                pos = (1e-6 if x["dt"] == "f32" else 1e-14) * max(1.0, abs(xs[0]) if math.isfinite(xs[0]) else 1.0, max(abs(v) for v in lane_x))
                if any(math.isnan(v) or v == math.inf or v > pos for v in lane):
                    return "violates", f"LogSoftmax not finite / positive for finite input {lane_x[:4]} -> {lane[:4]}"
                if abs(sum(math.exp(min(v, 0.0)) for v in lane) - 1) > tol:
                    return "violates", f"exp(LogSoftmax) slice sums to {sum(math.exp(v) for v in lane)}"
            # order preserved along the lane (Theorems/C09b softmaxSpec_mono): a larger input never gets a
            # smaller result, up to rounding
            if all(math.isfinite(v) for v in lane):
                order = sorted(range(n), key=lambda k: lane_x[k])
                for a, b in zip(order, order[1:]):
                    slack = tol * max(1.0, abs(lane[a]), abs(lane[b]))
                    if lane_x[a] < lane_x[b] and lane[a] > lane[b] + slack:
                        return "violates", f"{c['op']} does not preserve the order of the lane: x {lane_x[a]} < {lane_x[b]} but y {lane[a]} > {lane[b]}"
    return "holds", ""


def judge_op(c):
    """operator-level case: impl/model/spec all of the form {status, outs, mut}; spec has a domain."""
    impl, model, spec = c["impl"], c.get("model"), c.get("spec")
    guard = c.get("guard") or []
    EXACT_BITS[0] = "ieee-exact" in (c.get("tags") or [])
    SCALE_HINT[0] = 0.0
    for t in c.get("inputs") or []:
        if t and t.get("bits"):
            SCALE_HINT[0] = max([SCALE_HINT[0]] + [abs(v) for v in floats_of(t) if math.isfinite(v)])
    key = (c.get("op"), c.get("stream"), tuple(c.get("tags") or []), impl["status"])
    if model is None or model.get("status") == "unmodelled":
        corr = "skip"
    elif model.get("status") == "inexact":
        return J(corr="skip", verdict="unjudged", what="outside exact regime", key=key, trivial=True)
    else:
        corr = "agree"
        if not status_eq(impl, model, errkinds=False):
            corr = "disagree"
        elif impl["status"] == "ok" and not outs_eq(impl.get("outs"), model.get("outs")):
            corr = "disagree"
        elif "mut" in model and mut_norm(impl.get("mut")) != mut_norm(model.get("mut")):
            corr = "disagree"
    verdict, what = "unjudged", ""
    if spec and spec.get("domain"):
        dom = spec["domain"]
        st = impl["status"]
        if dom == "must":
            if st != "ok":
                verdict, what = "violates", f"must compute, but {st}: {impl.get('msg','')[:120]}"
            elif not outs_eq(impl.get("outs"), spec.get("outs")):
                verdict, what = "violates", "result differs from the ONNX value"
            else:
                verdict = "holds"
        elif dom == "mustRefuse":
            if st == "error":
                verdict = "holds"
            else:
                verdict, what = "violates", f"must be refused with an error, but {st}"
        elif dom == "mayRefuse":
            if st == "error":
                verdict = "holds"
            elif st == "panic":
                verdict, what = "violates", "panic instead of an error"
            elif spec.get("not_outs") is not None and outs_eq(impl.get("outs"), spec.get("not_outs")) and \
                    any(any(v != 0 for v in floats_of(t)) for t in impl.get("outs") or [] if t):
                verdict, what = "violates", "computed as if an attribute that changes the result were absent, instead of refusing"
            elif spec.get("outs") is None or outs_eq(impl.get("outs"), spec.get("outs")):
                verdict = "holds"
            else:
                verdict, what = "violates", "computed something else than the ONNX value instead of refusing"
        if verdict != "violates" and spec.get("pure") and impl.get("mut"):
            verdict, what = "violates", f"input modified: {impl.get('mut')}"
    if verdict == "unjudged" and c.get("op") in UNARY_REF and impl["status"] == "ok" and c.get("inputs") and (c["inputs"][0] or {}).get("bits"):
        verdict, what = unary_ref_check(c)
    # affine operators on float operands carried bit for bit: the defining formula in float64 and the forward
    # error bound of Theorems/C04b decide (also where the driver's own float evaluation was satisfied)
    if verdict in ("unjudged", "holds") and not guard and impl["status"] == "ok" and c.get("op") in floatref.CHECKS and c.get("inputs") \
            and all((t is None) or t.get("bits") for t in c["inputs"]) and any(t for t in c["inputs"]):
        try:
            r = floatref.CHECKS[c["op"]](c, floats_of)
        except (IndexError, KeyError, TypeError, ValueError, ZeroDivisionError):
            r = None
        if r is not None:
            verdict, what = r
    if verdict == "unjudged" and c.get("op") in UNARY_REF and impl["status"] != "ok" and not guard and c.get("inputs") and len(c["inputs"]) == 1 \
            and (c["inputs"][0] or {}).get("bits") and (c["inputs"][0] or {}).get("dt") in ("f32", "f64") and not (c.get("attrs") or []):
        # a float tensor of any rank (0 included) and any values: the function is applied, "rather than failing"
        verdict, what = "violates", f"must compute {c['op']} of a {c['inputs'][0]['dt']} tensor of shape {c['inputs'][0].get('shape')}, but {impl['status']}: {impl.get('msg','')[:100]}"
    if verdict == "unjudged" and c.get("op") in ("Softmax", "LogSoftmax") and impl["status"] == "ok" and c.get("p", {}).get("props"):
        verdict, what = softmax_props(c)
    elif verdict == "unjudged" and c.get("op") in ("Softmax", "LogSoftmax") and impl["status"] != "ok" and (c.get("p") or {}).get("props") \
            and c.get("inputs") and (c["inputs"][0] or {}).get("dt") in ("f32", "f64"):
        # the axis is within [-rank, rank) and the element type is a float: the operator has to compute
        verdict, what = "violates", f"must compute (axis {c['p'].get('axis')} is valid), but {impl['status']}: {impl.get('msg','')[:100]}"
    # a result that is not a plain contiguous tensor, and a follower that answers differently for it than for an
    # equal contiguous tensor: a two-node model on which Run does not compute the dataflow value
    if verdict != "violates" and impl.get("chain"):
        verdict = "violates"
        what = f"the result of {c.get('op')} is {impl.get('out_layout')}; handed on as Run does, the next operator answers differently than for an equal contiguous tensor - " + "; ".join(impl["chain"])[:300]
        return J(corr=corr, verdict=verdict, tag="result_layout." + str(c.get("op")), what=what, key=key)
    # an operator instance that was applied before must answer like a fresh one
    if verdict != "violates" and impl.get("reuse"):
        verdict, what = "violates", "a re-used operator instance answers differently after " + "; ".join(impl["reuse"])[:200]
        return J(corr=corr, verdict=verdict, tag="instance_reuse." + str(c.get("op")), what=what, key=key)
    if verdict == "violates" and c.get("op") in ("Softmax", "LogSoftmax") and impl["status"] == "ok" and not guard:
        # finer tags: the recorded first-element-anchor finding only ever shows as a non-finite result
        sub = "not_finite_for_finite_input" if ("not finite" in what) else ("slice_sum" if "sums to" in what else
              ("order" if "preserve the order" in what else None))
        if sub and SOFTMAX_FAR[0]:
            sub = "first_element_far_from_lane_maximum"
        if sub:
            return J(corr=corr, verdict=verdict, tag=f"{c['op'].lower()}.{sub}.wrong", what=what, key=key)
    tag = None
    if verdict == "violates":
        cls = "panic" if impl["status"] == "panic" else ("error" if impl["status"] == "error" else
              ("mutates-input" if what.startswith("input modified") else "wrong"))
        tag = (guard[0] if guard else "untagged." + str(c.get("op"))) + "." + cls
        if (c.get("stream") or "").startswith("lazyT:"):
            # same request, but the inputs of rank >= 2 were handed over lazily transposed (non-contiguous)
            tag = "lazy_transposed_input." + str(c.get("op")) + "." + cls
            what = "with lazily transposed (non-contiguous) inputs: " + what
    if (c.get("stream") or "").startswith("lazyT:") and verdict != "violates" and corr == "disagree":
        corr = "skip"   # judged against the specification only
    return J(corr=corr, verdict=verdict, tag=tag, what=what, key=key)


def gate_spec(c):
    """C15 decision rule, computed from the operator's own live min/max/constraints (p.desc)."""
    d = c["p"]["desc"]
    dts = c.get("dts") or []
    n = len(dts)
    mn, mx, cons = d["min"], d["max"], d["constraints"]
    if c.get("arity"):
        mn, mx = c["arity"]     # the ONNX arity (driver, Spec/Arity.lean), not what the code declares
    if c.get("types") is not None:
        cons = c["types"]       # the pinned element types (driver, Spec/Types.lean)
    if n < mn or n > mx:
        return {"status": "error", "errkind": "input.count"}
    pad = mx
    for i, t in enumerate(dts):
        if t is None:
            continue
        if i >= len(cons) or t not in cons[i]:
            return {"status": "error", "errkind": "input.type"}
    if c["op"] == "PRelu" and dts[0] != dts[1]:
        return {"status": "error", "errkind": "invalidTensor"}
    return {"status": "ok", "pattern": dts + [None] * (pad - n)}


def judge_gate(c):
    impl, model = c["impl"], c["model"]
    key = (c["op"], len(c.get("dts") or []), impl["status"], impl.get("errkind"))
    corr = "agree"
    ipat = (impl.get("extra") or {}).get("pattern")
    if not status_eq(impl, model) or (impl["status"] == "ok" and ipat != model.get("pattern")):
        corr = "disagree"
    spec = gate_spec(c)
    verdict, what = "holds", ""
    if impl["status"] == "panic":
        verdict, what = "violates", "gate panics: " + impl.get("msg", "")[:100]
    elif spec["status"] == "error":
        if impl["status"] != "error":
            verdict, what = "violates", f"gate accepts a list it must reject ({spec['errkind']})"
        elif spec["errkind"].startswith("input.") and not (impl.get("errkind") or "").startswith("input."):
            verdict, what = "violates", f"rejected with {impl.get('errkind')} instead of an input error"
    else:
        if impl["status"] != "ok":
            verdict, what = "violates", f"gate rejects an acceptable list: {impl.get('msg','')[:100]}"
        elif ipat != spec["pattern"]:
            verdict, what = "violates", f"accepted list presented as {ipat}, expected {spec['pattern']}"
        elif not (impl.get("extra") or {}).get("passthrough"):
            verdict, what = "violates", "supplied tensors not passed through unchanged and in order"
    return J(corr=corr, verdict=verdict, tag=("gate." + c["op"]) if verdict == "violates" else None, what=what, key=key)


def judge_gate_run(c):
    """C15: a Model that has already executed the node gates the inputs of every later Run (the decision is the
    model's gate on the element types of the later Run)"""
    impl, model = c["impl"], c["model"]
    key = ("gate-run", c["op"], impl["status"], (impl.get("errkind") or "")[:6])
    if impl["status"] == "skip":
        return J(corr="skip", verdict="unjudged", what=impl.get("msg", "")[:80], key=key, trivial=True)
    spec = gate_spec(c)
    if spec["status"] != "error":
        # an acceptable element type at this position: what the operator makes of it is another property's matter
        return J(corr="skip", verdict="holds", key=key)
    corr = "agree" if impl["status"] == model.get("status") else "disagree"
    verdict, what = "holds", ""
    if impl["status"] == "panic":
        verdict, what = "violates", "a later Run panics on a disallowed element type: " + impl.get("msg", "")[:80]
    elif impl["status"] != "error":
        verdict, what = "violates", f"a Run after a completed Run accepts {c['p']['dt']} at position {c['p']['pos']} ({spec['errkind']} expected)"
    elif spec["errkind"].startswith("input.") and not (impl.get("errkind") or "").startswith("input."):
        verdict, what = "violates", f"a Run after a completed Run rejects {c['p']['dt']} at position {c['p']['pos']} with {impl.get('errkind')} instead of an input error"
    return J(corr=corr, verdict=verdict, tag=("gate-run." + c["op"]) if verdict == "violates" else None, what=what, key=key)


def judge_lookup(c):
    impl, model = c["impl"], c["model"]
    registered = c["p"]["registered"]
    corr = "agree" if status_eq(impl, model) else "disagree"
    verdict, what = "holds", ""
    if registered and impl["status"] != "ok":
        verdict, what = "violates", "registered name does not resolve"
    if not registered and not (impl["status"] == "error" and impl.get("errkind") == "unsupportedOp"):
        verdict, what = "violates", f"unknown name gives {impl['status']}/{impl.get('errkind')} instead of the unsupported-operator error"
    return J(corr=corr, verdict=verdict, tag="lookup" if verdict == "violates" else None, what=what,
             key=("lookup", c.get("op"), impl["status"]))


def judge_lookup_sweep(c):
    """C15 / C18: none of the generated unregistered operator-type strings resolves to an operator"""
    impl = c["impl"]
    key = ("lookup-sweep", impl["status"])
    if impl["status"] != "ok":
        return J(corr="skip", verdict="violates", tag="lookup-sweep." + impl["status"], what=f"the lookup sweep failed: {impl.get('msg','')[:120]}", key=key)
    ex = impl.get("extra") or {}
    if ex.get("resolved"):
        return J(corr="skip", verdict="violates", tag="lookup", key=key,
                 what=f"unregistered operator type(s) {ex['resolved'][:4]} resolve to an operator instead of the unsupported-operator error")
    if ex.get("other_error"):
        return J(corr="skip", verdict="violates", tag="lookup", key=key,
                 what=f"unregistered operator type(s) {ex['other_error'][:4]} give another error / a panic instead of the unsupported-operator error")
    return J(corr="skip", verdict="holds", key=key)


def judge_fresh(c):
    ex = (c["impl"].get("extra") or {})
    verdict, what = "holds", ""
    if c["impl"]["status"] != "ok":
        verdict, what = "violates", "lookup failed"
    elif not ex.get("distinct"):
        verdict, what = "violates", "two lookups return the same stateful object"
    elif not ex.get("other_unchanged") or not ex.get("later_default"):
        verdict, what = "violates", "using one instance changes the state of another / of later lookups"
    return J(corr="skip", verdict=verdict, tag="fresh" if verdict == "violates" else None, what=what,
             key=("fresh", c.get("op"), ex.get("used"), ex.get("state_changed_by_use")))


JUDGES = {"op": judge_op, "bcast": judge_op, "gate": judge_gate, "lookup": judge_lookup, "fresh": judge_fresh,
          "lookup-sweep": judge_lookup_sweep, "gate-run": judge_gate_run}


def judge(c):
    f = JUDGES.get(c.get("kind"))
    if f is None:
        return J(corr="skip", verdict="unjudged", what="no judge for kind " + str(c.get("kind")), trivial=True)
    return f(c)


def judge_validate(c):
    """C13: acceptance rule computed here from the declared signature (independent of the model)."""
    impl, model = c["impl"], c["model"]
    g = c["graph"]
    sup = {s["name"]: s["shape"] for s in (c["p"].get("supplied") or [])}
    inits = {i["name"] for i in (g.get("inits") or [])}
    reject, why = False, ""
    expected_shapes = {}
    for v in g.get("inputs") or []:
        if v.get("noshape") or not v.get("dims"):
            continue
        expected_shapes[v["name"]] = [d if isinstance(d, int) and d != 0 else None for d in v["dims"]]
        if v["name"] in inits:
            continue
        if v["name"] not in sup:
            reject, why = True, "missing " + v["name"]
            continue
        sh = sup[v["name"]]
        if len(sh) != len(v["dims"]):
            reject, why = True, "rank"
            continue
        for d, n in zip(v["dims"], sh):
            if isinstance(d, int) and d != 0 and d != n:
                reject, why = True, "dim"
    corr = "agree" if impl["status"] == model["status"] else "disagree"
    verdict, what = "holds", ""
    ex = impl.get("extra") if isinstance(impl.get("extra"), dict) else {}
    if impl["status"] == "panic":
        verdict, what = "violates", "panic: " + impl.get("msg", "")[:100]
    elif reject and impl["status"] != "error":
        verdict, what = "violates", f"Run accepts an input set that violates the signature ({why})"
    elif not reject and impl["status"] != "ok":
        verdict, what = "violates", f"Run rejects an input set that satisfies the signature: {impl.get('msg','')[:100]}"
    elif impl.get("mut"):
        verdict, what = "violates", "a supplied tensor was modified"
    elif reject and ex.get("n_outs", 0) != 0:
        verdict, what = "violates", "outputs produced together with the error"
    elif ex and ex.get("shapes") != expected_shapes:
        verdict, what = "violates", f"introspection reports {ex.get('shapes')} but the declaration is {expected_shapes}"
    elif ex and "shapes_again" in ex and ex.get("shapes_again") != expected_shapes:
        verdict, what = "violates", f"after the caller wrote into the reported shapes, introspection reports {ex.get('shapes_again')} for the declaration {expected_shapes}"
    elif ex and "names" in ex and ex.get("names") != [v["name"] for v in g.get("inputs") or []]:
        verdict, what = "violates", f"input names reported as {ex.get('names')}"
    key = ("validate", c.get("stream"), len(g.get("inputs") or []), why, impl["status"],
           tuple(len(v.get("dims") or []) for v in g.get("inputs") or []))
    return J(corr=corr, verdict=verdict, tag="validate" if verdict == "violates" else None, what=what, key=key)


JUDGES["validate"] = judge_validate


_W = {1: ("f32", 4), 2: ("u8", 1), 3: ("i8", 1), 4: ("u16", 2), 5: ("i16", 2), 6: ("i32", 4), 7: ("i64", 8),
      9: ("bool", 1), 11: ("f64", 8), 12: ("u32", 4), 13: ("u64", 8)}
_FIELD = {1: "float_data", 11: "double_data", 7: "int64_data", 12: "uint64_data", 13: "uint64_data",
          2: "int32_data", 3: "int32_data", 4: "int32_data", 5: "int32_data", 6: "int32_data", 9: "int32_data"}


def decode_spec(tp):
    """what the TensorProto declares, from onnx.proto: (domain, dt, shape, bits)"""
    code = tp["data_type"]
    dims = tp.get("dims") or []
    if code not in _W:
        return ("mustRefuse", None, None, None, "unsupported element type")
    dt, w = _W[code]
    if any(d < 0 for d in dims):
        return ("mustRefuse", None, None, None, "negative dim")
    n = 1
    for d in dims:
        n *= d
    typed = tp.get(_FIELD[code]) or []
    raw = tp.get("raw") or []
    if typed and raw:
        return ("unspecified", None, None, None, "both encodings")
    if typed:
        if len(typed) != n:
            return ("mustRefuse", None, None, None, "typed count mismatch")
        if code == 9 and any(v not in (0, 1) for v in typed):
            return ("unspecified", None, None, None, "non-binary bool")
        bits = [v % (1 << (8 * w)) for v in typed]
        return ("must", dt, dims, bits, "typed")
    if len(raw) != n * w:
        return ("mustRefuse", None, None, None, "raw length mismatch")
    if code == 9:
        bits = [1 if b > 0 else 0 for b in raw]
    else:
        bits = [sum(raw[i * w + k] << (8 * k) for k in range(w)) for i in range(n)]
    return ("must", dt, dims, bits, "raw")


def judge_decode(c):
    impl, model = c["impl"], c["model"]
    tp = c["p"]["tp"]
    ex = impl.get("extra") if isinstance(impl.get("extra"), dict) else {}
    ibits = ex.get("bits") or []
    corr = "agree"
    if impl["status"] != model["status"]:
        corr = "disagree"
    elif impl["status"] == "ok" and (ex.get("dt") != model.get("dt") or list(ex.get("shape") or []) != list(model.get("shape") or []) or list(ibits) != list(model.get("bits") or [])):
        corr = "disagree"
    dom, dt, shape, bits, why = decode_spec(tp)
    verdict, what = "holds", ""
    if impl["status"] == "panic":
        verdict, what = "violates", "decoder panics: " + impl.get("msg", "")[:80]
    elif dom == "mustRefuse" and impl["status"] != "error":
        verdict, what = "violates", f"{why}: loaded as {ex.get('dt')}{ex.get('shape')} instead of being refused"
    elif dom == "must":
        if impl["status"] != "ok":
            verdict, what = "violates", f"valid tensor refused: {impl.get('msg','')[:80]}"
        elif ex.get("dt") != dt or list(ex.get("shape") or []) != list(shape) or list(ibits) != list(bits):
            verdict, what = "violates", f"decoded as {ex.get('dt')}{ex.get('shape')} bits {str(ibits)[:60]}, declared {dt}{shape} bits {str(bits)[:60]}"
    tag = None
    if verdict == "violates":
        tag = "decode." + why.replace(" ", "_") + "." + ("panic" if impl["status"] == "panic" else "wrong")
    return J(corr=corr, verdict=verdict, tag=tag, what=what,
             key=("decode", c.get("stream"), tp["data_type"], len(tp.get("dims") or []), impl["status"]))


JUDGES["decode"] = judge_decode


def judge_recsplit(c):
    """C06 split clause on the implementation alone: processing the sequence in two pieces, feeding the
    final state of the first piece into the second, gives the same result as processing it whole."""
    impl = c["impl"]
    key = ("recsplit", c.get("op"), impl["status"])
    if impl["status"] != "ok":
        return J(corr="skip", verdict="violates", tag="rec.split." + impl["status"], what="split run failed: " + impl.get("msg", "")[:100], key=key)
    ex = impl["extra"]
    whole, first, second = ex["whole"], ex["first"], ex["second"]
    y = whole[0]
    ycat = (first[0]["data"] or []) + (second[0]["data"] or [])
    ok = len(ycat) == len(y["data"]) and all(num_eq(a, b) for a, b in zip(ycat, y["data"]))
    ok = ok and all(tensor_eq(a, b) for a, b in zip(whole[1:], second[1:]))
    if not ok:
        return J(corr="skip", verdict="violates", tag="rec.split.wrong", what="whole-sequence result differs from the two-piece result", key=key)
    return J(corr="skip", verdict="holds", key=key)


JUDGES["recsplit"] = judge_recsplit


def judge_graph(c):
    """C01: impl vs the Run model (correspondence) and vs the demand-driven value of every declared
    output (spec), both evaluated by the driver over the operator models."""
    impl, model, spec = c["impl"], c.get("model") or {}, c.get("spec") or {}
    g = c["graph"]
    key = ("graph", c.get("stream"), len(g.get("nodes") or []), tuple(sorted({n["op"] for n in g.get("nodes") or []})), impl["status"])
    ms = model.get("status")
    if ms in (None, "unmodelled", "inexact"):
        corr = "skip"
    elif impl["status"] != ms:
        corr = "disagree"
    elif ms == "ok" and not outs_eq(impl.get("outs"), model.get("outs")):
        corr = "disagree"
    else:
        corr = "agree"
    verdict, what = "unjudged", ""
    ss = spec.get("status")
    if impl["status"] == "panic":
        verdict, what = "violates", "Run panics: " + impl.get("msg", "")[:100]
    elif c.get("stream") == "unknown-op":
        # C18: an operator type outside the opset makes Run fail with the unsupported-operator error,
        # even when no declared output depends on that node (it is neither skipped nor substituted)
        if impl["status"] == "error" and impl.get("errkind") == "unsupportedOp":
            verdict = "holds"
        else:
            verdict, what = "violates", f"graph with an unknown operator type: Run gives {impl['status']}/{impl.get('errkind')}"
    elif impl["status"] == "ok" and any(o is None for o in impl.get("outs") or []):
        verdict, what = "violates", "a declared output is missing / nil in the result without an error"
    elif impl["status"] == "ok" and isinstance(impl.get("extra"), str):
        verdict, what = "violates", impl["extra"]
    elif ss == "ok":
        if impl["status"] != "ok" and c.get("stream") == "malformed":
            verdict = "holds"          # not a well-formed graph (node order / output count): an error is what is required
        elif impl["status"] != "ok":
            verdict, what = "violates", f"well-formed graph refused: {impl.get('msg','')[:100]}"
        elif not outs_eq(impl.get("outs"), spec.get("outs")):
            verdict, what = "violates", "an output differs from the dataflow value"
        else:
            verdict = "holds"
    elif ss == "error":
        # malformed graph / failing node / unknown operator: Run must report an error
        if impl["status"] == "ok":
            verdict, what = "violates", "Run returns outputs although a node fails / an output has no tensor"
        elif spec.get("errkind") == "unsupportedOp" and impl.get("errkind") != "unsupportedOp":
            verdict, what = "violates", "unknown operator not reported as the unsupported-operator error"
        else:
            verdict = "holds"
    elif ss == "panic":
        verdict = "unjudged"
    tag = None
    if verdict == "violates":
        tag = "run." + (c.get("stream") or "graph") + "." + ("panic" if impl["status"] == "panic" else "error" if impl["status"] == "error" else "wrong")
    return J(corr=corr, verdict=verdict, tag=tag, what=what, key=key, trivial=(corr == "skip" and verdict == "unjudged"))


JUDGES["graph"] = judge_graph


def judge_history(c):
    """C02 on the implementation: every Run of the history returns what a freshly loaded model returns
    for the same inputs (bit for bit), leaves the caller's tensors, the weights and the protobuf as they were"""
    impl = c["impl"]
    key = ("history", c.get("stream"), impl["status"])
    if impl["status"] != "ok" or not isinstance(impl.get("extra"), dict):
        return J(corr="skip", verdict="violates", tag="history.harness." + impl["status"], what="history could not be run: " + impl.get("msg", "")[:120], key=key)
    for i, s in enumerate(impl["extra"]["steps"]):
        if s["status"] == "panic":
            return J(corr="skip", verdict="violates", tag="history.panic", what=f"Run {i} panics: {s.get('detail','')[:100]}", key=key)
        if not s["equal_fresh"]:
            return J(corr="skip", verdict="violates", tag="history.depends_on_history", what=f"Run {i} differs from a freshly loaded model: {s.get('detail','')[:140]}", key=key)
        if s.get("equal_repeat") is False:
            return J(corr="skip", verdict="violates", tag="history.depends_on_history", what=f"Run {i}{s.get('detail','')[:160]}", key=key)
        if not s["inputs_unchanged"]:
            return J(corr="skip", verdict="violates", tag="history.caller_tensor_modified", what=f"Run {i}: {s.get('detail','')[:140]}", key=key)
        if not s["weights_unchanged"]:
            return J(corr="skip", verdict="violates", tag="history.weights_modified", what=f"Run {i} altered the model's weights", key=key)
        if not s["proto_unchanged"]:
            return J(corr="skip", verdict="violates", tag="history.proto_modified", what=f"Run {i} altered the protobuf-backed data of the model", key=key)
    key = ("history", c.get("stream"), tuple(s["status"] for s in impl["extra"]["steps"]))
    return J(corr="skip", verdict="holds", key=key)


JUDGES["history"] = judge_history


def judge_purity(c):
    """C02 at operator level: whatever the operator returns, its inputs are exactly as they were
    (shape, strides, element type, contents); model and implementation agree on that"""
    j = judge_op(c)
    impl = c["impl"]
    if (c.get("stream") or "").startswith("lazyT:"):
        j.corr = "skip"   # values on non-contiguous inputs are not compared, only purity is
    if impl.get("mut"):
        return J(corr=j.corr, verdict="violates", tag="purity." + str(c.get("op")) + ".mutates-input",
                 what=f"{c.get('op')} modified an input: {impl.get('mut')}", key=j.key)
    return J(corr=j.corr, verdict="holds", key=(c.get("op"), c.get("stream"), impl["status"], bool(impl.get("alias"))))


_judge_plain = judge


def judge(c):
    if c.get("prop") == "C02" and c.get("kind") in ("op", "bcast"):
        return judge_purity(c)
    return _judge_plain(c)


IMPLEMENTED_OPSET = 13


def judge_load(c):
    """C18: NewModelFromBytes returns a model or an error, never panics; opset rule via the model"""
    impl, model = c["impl"], c.get("model") or {}
    ms = model.get("status")
    corr = "skip"
    if ms in ("ok", "error"):
        corr = "agree" if impl["status"] == ms and (ms != "error" or model.get("errkind") != "unsupportedOpset" or impl.get("errkind") == "unsupportedOpset") else "disagree"
        if ms == "ok" and impl["status"] == "ok" and (impl.get("extra") or {}).get("n_params") != model.get("n_params"):
            # duplicate initializer names collapse in the Go map; only count mismatches beyond that are a disagreement
            if (impl.get("extra") or {}).get("n_params", 0) > model.get("n_params", 0):
                corr = "disagree"
    verdict, what = "holds", ""
    if impl["status"] == "panic":
        verdict, what = "violates", "loading panics: " + impl.get("msg", "")[:100]
    elif c["p"].get("unmarshal") == "error" and impl["status"] != "error":
        verdict, what = "violates", "bytes that are not a protobuf message were loaded"
    elif ms == "error" and model.get("errkind") == "unsupportedOpset" and not (impl["status"] == "error" and impl.get("errkind") == "unsupportedOpset"):
        verdict, what = "violates", f"highest imported opset is not implemented but loading gives {impl['status']}/{impl.get('errkind')}"
    elif impl["status"] == "ok" and isinstance(c["p"].get("parsed"), dict) and max([0] + [int(v) for v in (c["p"]["parsed"].get("opsets") or [])]) != IMPLEMENTED_OPSET:
        # the opset the library implements is PINNED here (13), not taken from the regenerated table: a model
        # whose highest imported version is anything else (none at all, 0, negative, 12, 14) must be refused
        verdict, what = "violates", f"highest imported opset is {max([0] + [int(v) for v in (c['p']['parsed'].get('opsets') or [])])} (imports {c['p']['parsed'].get('opsets')}), not the implemented {IMPLEMENTED_OPSET}, but the model loads"
    elif ms == "ok" and impl["status"] != "ok":
        verdict, what = "violates", f"loadable model refused: {impl.get('msg','')[:100]}"
    elif c.get("prop") == "C12" and ms == "error" and model.get("errkind") != "unsupportedOpset" and impl["status"] == "ok":
        # C12: an initializer that cannot be decoded is reported as an error, wherever it stands in the list
        verdict, what = "violates", f"a model with an initializer that cannot be decoded ({c['p'].get('note')}) loads without error"
    tag = None
    if verdict == "violates":
        tag = "load." + (c.get("stream") or "").split(":")[0] + "." + impl["status"]
    key = ("load", (c.get("stream") or "").split(":")[0], c["p"].get("unmarshal"), impl["status"], impl.get("errkind"))
    return J(corr=corr, verdict=verdict, tag=tag, what=what, key=key)


JUDGES["load"] = judge_load


def judge_batch(c):
    """C16 on the implementation: every sample of a batch gets the result it gets alone, also under
    permutation and sub-selection; exact for the integer-valued generated graphs, up to rounding
    (relative 1e-4, TESTING) for the float sample models"""
    impl = c["impl"]
    stream = (c.get("stream") or "").split(":")[0]
    key = ("batch", c.get("stream"), impl["status"])
    if impl["status"] != "ok":
        n = (c["p"]["inputs"][0]["shape"][c["p"]["inputs"][0]["axis"]])
        return J(corr="skip", verdict="violates", tag=f"batch.{c.get('stream')}.{impl['status']}", what=f"batch of {n} could not be evaluated: {impl.get('msg','')[:120]}", key=key)
    r = impl["extra"]
    key = ("batch", c.get("stream"), r["n"])
    if r.get("problem"):
        return J(corr="skip", verdict="violates", tag=f"batch.{c.get('stream')}.shape", what=r["problem"][:160], key=key)
    if c["p"].get("integer"):
        if not r["all_bit_equal"]:
            return J(corr="skip", verdict="violates", tag=f"batch.{c.get('stream')}.wrong", what=f"a sample's result depends on the rest of the batch (max rel diff {r['max_rel_diff']})", key=key)
    elif r["max_rel_diff"] > 1e-4:
        # the recorded finding (gorgonia's last-axis Softmax anchors every row on the first element of the whole
        # batch) only ever shows as NaN / Inf in a row far from that element; a FINITE difference is something else
        has_softmax = any((n.get("op") in ("Softmax", "LogSoftmax")) for n in ((c.get("p") or {}).get("model") or {}).get("nodes") or []) \
            if isinstance((c.get("p") or {}).get("model"), dict) else False
        if has_softmax and r.get("nonfinite_mismatches") and r.get("max_rel_diff_finite", 0) <= 1e-4:
            return J(corr="skip", verdict="violates", tag="batch.softmax-row-far-from-first-element-of-batch.nonfinite",
                     what=f"a Softmax / LogSoftmax row is NaN / Inf in one batch composition and finite in another ({r['nonfinite_mismatches']} values)", key=key)
        return J(corr="skip", verdict="violates", tag=f"batch.{c.get('stream')}.wrong", what=f"a sample's result depends on the rest of the batch beyond rounding (max rel diff {r.get('max_rel_diff_finite') or r['max_rel_diff']})", key=key)
    return J(corr="skip", verdict="holds", key=key, trivial=(r["checks"] == 0))


JUDGES["batch"] = judge_batch


def judge_scale(c):
    """an operator applied to a large operand gives, bit for bit, what it gives on the operand's pieces
    (metamorphic; the pieces lie in the region covered by the model correspondence)"""
    impl = c["impl"]
    key = ("scale", c.get("stream"), c.get("op"), (c.get("p") or {}).get("n"), impl["status"])
    if impl["status"] != "ok":
        return J(corr="skip", verdict="violates", tag=f"scale.{c.get('op')}.{impl['status']}",
                 what=f"large operand ({(c.get('p') or {}).get('whole_shapes')}): {impl.get('msg','')[:140]}", key=key)
    r = impl["extra"]
    if r["mismatches"]:
        return J(corr="skip", verdict="violates", tag=f"scale.{c.get('op')}.wrong",
                 what=f"{c.get('op')} on {(c.get('p') or {}).get('whole_shapes')} differs from its {r['pieces']} pieces in {r['mismatches']} elements: {r.get('first','')[:140]}", key=key)
    return J(corr="skip", verdict="holds", key=key)


JUDGES["scale"] = judge_scale


def judge_bits(c):
    """every Constant node delivers the bits it holds (payloads that are equal as numbers only)"""
    impl = c["impl"]
    key = ("bits", c.get("stream"), json_key(c.get("p")), impl["status"])
    if impl["status"] != "ok":
        return J(corr="skip", verdict="violates", tag=f"bits.{impl['status']}", what=f"model with Constant nodes: {impl.get('msg','')[:140]}", key=key)
    bad = (impl.get("extra") or {}).get("mismatches") or []
    if bad:
        return J(corr="skip", verdict="violates", tag="bits.wrong", what="a Constant node delivers another node's bits: " + "; ".join(bad)[:300], key=key)
    return J(corr="skip", verdict="holds", key=key)


def json_key(x):
    import json as _j
    return _j.dumps(x, sort_keys=True, default=str)


JUDGES["bits"] = judge_bits


def judge_concurrent(c):
    """C17 on the implementation: each goroutine's results equal the sequential baseline"""
    impl = c["impl"]
    key = ("concurrent", (c.get("stream") or "").split(":")[0], c["p"].get("goroutines"), impl["status"])
    if impl["status"] != "ok":
        return J(corr="skip", verdict="violates", tag="concurrent." + impl["status"], what="concurrent run failed: " + impl.get("msg", "")[:120], key=key)
    r = impl["extra"]
    if r["mismatches"]:
        return J(corr="skip", verdict="violates", tag="concurrent.result_differs", what=f"{r['mismatches']} result(s) differ from the sequential baseline: {r.get('detail','')[:160]}", key=key)
    return J(corr="skip", verdict="holds", key=("concurrent", c.get("stream"), c["p"].get("goroutines")))


JUDGES["concurrent"] = judge_concurrent
