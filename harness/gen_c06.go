package main

import (
	"github.com/advancedclimatesystems/gonnx/ops/opset13"
	"gorgonia.org/tensor"
)

func init() {
	gens["C06"] = genC06
	exampleCases["RNN"] = recExample("RNN", 1)
	exampleCases["GRU"] = recExample("GRU", 3)
	exampleCases["LSTM"] = recExample("LSTM", 4)
}

func recExample(op string, G int) *Case {
	h, in, b, s := 2, 2, 1, 2
	acts := map[string][]string{"RNN": {"relu"}, "GRU": {"relu", "relu"}, "LSTM": {"relu", "relu", "relu"}}[op]
	return &Case{Op: op, Attrs: []Attr{{Name: "hidden_size", Type: "i", I: int64(h)}, {Name: "activations", Type: "strings", Ss: acts}},
		Inputs:  []*TJ{smallT("f32", []int{s, b, in}, 1), smallT("f32", []int{1, G * h, in}, 2), smallT("f32", []int{1, G * h, h}, 3)},
		Outputs: []string{"Y", "Y_h", "Y_c"}[:map[string]int{"RNN": 2, "GRU": 2, "LSTM": 3}[op]]}
}

// tiny weights in {-1,0,1} so that relu recurrences stay exactly representable
func tinyT(dt string, s []int, seed int) *TJ {
	return seqT(dt, s, func(i int) float64 { return float64((i*5+seed*7)%3 - 1) })
}

func realT(e *emitter, dt string, s []int, scale float64) *TJ {
	v := make([]float64, nelem(s))
	for i := range v {
		v[i] = (e.rng.Float64()*2 - 1) * scale
	}
	return fT(dt, s, v)
}

type recCfg struct {
	op                   string
	G                    int
	seq, batch, in, hid  int
	useB, useH, useC, useP bool
	skipExplicit         bool
	lbr                  bool
}

func (c recCfg) inputs(mk func(s []int, seed int) *TJ) []*TJ {
	ins := []*TJ{mk([]int{c.seq, c.batch, c.in}, 1), mk([]int{1, c.G * c.hid, c.in}, 2), mk([]int{1, c.G * c.hid, c.hid}, 3)}
	opt := []*TJ{nil, nil, nil, nil, nil}
	if c.useB {
		opt[0] = mk([]int{1, 2 * c.G * c.hid}, 4)
	}
	if c.useH {
		opt[2] = mk([]int{1, c.batch, c.hid}, 5)
	}
	if c.op == "LSTM" {
		if c.useC {
			opt[3] = mk([]int{1, c.batch, c.hid}, 6)
		}
		if c.useP {
			opt[4] = mk([]int{1, 3 * c.hid}, 7)
		}
	} else {
		opt = opt[:3]
	}
	// trailing absent inputs are either omitted or passed explicitly as nil
	last := -1
	for i, o := range opt {
		if o != nil {
			last = i
		}
	}
	if !c.skipExplicit {
		opt = opt[:last+1]
	}
	return append(ins, opt...)
}

func genC06(e *emitter, tier string) {
	n := 300
	if tier == "thorough" {
		n = 8000
	}
	ops3 := []struct {
		op string
		G  int
		no int
	}{{"RNN", 1, 2}, {"GRU", 3, 2}, {"LSTM", 4, 3}}
	for i := 0; i < n; i++ {
		o := ops3[i%3]
		c := recCfg{op: o.op, G: o.G, seq: 1 + e.rng.Intn(3), batch: 1 + e.rng.Intn(3), in: 1 + e.rng.Intn(3), hid: 1 + e.rng.Intn(3),
			useB: e.rng.Intn(3) != 0, useH: e.rng.Intn(2) == 0, useC: e.rng.Intn(2) == 0, useP: e.rng.Intn(2) == 0,
			skipExplicit: e.rng.Intn(3) == 0, lbr: e.rng.Intn(2) == 0}
		// most cases avoid the sizes gorgonia's slicing breaks (hidden = 1 or input = 1)
		if e.rng.Intn(5) != 0 {
			if c.hid == 1 {
				c.hid = 2
			}
			if c.in == 1 {
				c.in = 3
			}
		}
		acts := make([]string, o.no+0)
		acts = acts[:map[string]int{"RNN": 1, "GRU": 2, "LSTM": 3}[o.op]]
		for j := range acts {
			acts[j] = "relu"
		}
		attrs := []Attr{{Name: "hidden_size", Type: "i", I: int64(c.hid)}, {Name: "activations", Type: "strings", Ss: acts}}
		if o.op == "GRU" {
			attrs = append(attrs, Attr{Name: "linear_before_reset", Type: "i", I: map[bool]int64{false: 0, true: 1}[c.lbr]})
		}
		if e.rng.Intn(6) == 0 {
			attrs = append(attrs, Attr{Name: "direction", Type: "s", S: "forward"})
		}
		outs := []string{"Y", "Y_h", "Y_c"}[:o.no]
		if o.op == "LSTM" {
			switch e.rng.Intn(4) {
			case 0:
				outs = []string{"a", "b", "c"}
			case 1:
				outs = []string{"out", "Y_h"}
			case 2:
				outs = []string{"Y_c"}
			}
		}
		seed := i
		ins := c.inputs(func(s []int, sd int) *TJ { return tinyT("f32", s, seed+sd) })
		e.emit(opCase("exact", o.op, attrs, ins, outs))
		// split stream: the sequence processed in two pieces, final state of the first fed to the second
		if c.seq >= 2 && c.hid > 1 && c.in > 1 {
			e.emit(splitCase(o.op, attrs, c, ins, 1+e.rng.Intn(c.seq-1)))
		}
		// default / mixed activations on real data (tolerance: testing); every operator type
		if (i/3)%2 == 0 {
			var attrsF []Attr
			for _, a := range attrs {
				if a.Name != "activations" {
					attrsF = append(attrsF, a)
				}
			}
			// two of three float cases carry explicit activations: every function at every role
			if k := e.rng.Intn(3); k != 0 {
				combos := map[string][][]string{
					"RNN":  {{"sigmoid"}, {"relu"}, {"tanh"}},
					"GRU":  {{"tanh", "sigmoid"}, {"sigmoid", "relu"}, {"relu", "tanh"}},
					"LSTM": {{"tanh", "relu", "sigmoid"}, {"sigmoid", "tanh", "relu"}, {"relu", "sigmoid", "tanh"}, {"sigmoid", "relu", "relu"}},
				}[o.op]
				attrsF = append(attrsF, Attr{Name: "activations", Type: "strings", Ss: combos[e.rng.Intn(len(combos))]})
			}
			insF := c.inputs(func(s []int, sd int) *TJ { return realT(e, "f32", s, 1.0) })
			e.emit(opCase("float", o.op, attrsF, insF, []string{"Y", "Y_h", "Y_c"}[:o.no]))
		}
	}
	// refusals and attribute handling
	for _, o := range ops3 {
		base := recCfg{op: o.op, G: o.G, seq: 2, batch: 2, in: 2, hid: 2, useB: true}
		relu := make([]string, map[string]int{"RNN": 1, "GRU": 2, "LSTM": 3}[o.op])
		for j := range relu {
			relu[j] = "relu"
		}
		hs := Attr{Name: "hidden_size", Type: "i", I: 2}
		ins := base.inputs(func(s []int, sd int) *TJ { return tinyT("f32", s, sd) })
		outs := []string{"Y", "Y_h", "Y_c"}[:o.no]
		e.emit(opCase("attrs", o.op, []Attr{hs, {Name: "activations", Type: "strings", Ss: relu}, {Name: "clip", Type: "f", F: 1}}, ins, outs))
		e.emit(opCase("attrs", o.op, []Attr{hs, {Name: "activations", Type: "strings", Ss: relu}, {Name: "direction", Type: "s", S: "reverse"}}, ins, outs))
		e.emit(opCase("attrs", o.op, []Attr{hs, {Name: "activations", Type: "strings", Ss: relu}, {Name: "direction", Type: "s", S: "bidirectional"}}, ins, outs))
		e.emit(opCase("attrs", o.op, []Attr{hs, {Name: "activations", Type: "strings", Ss: relu}, {Name: "bogus", Type: "i", I: 1}}, ins, outs))
		bad := append([]string{}, relu...)
		bad[0] = "elu"
		e.emit(opCase("attrs", o.op, []Attr{hs, {Name: "activations", Type: "strings", Ss: bad}}, ins, outs))
		e.emit(opCase("attrs", o.op, []Attr{hs, {Name: "activations", Type: "strings", Ss: relu[:len(relu)-1]}}, ins, outs))
		e.emit(opCase("attrs", o.op, []Attr{hs, {Name: "activations", Type: "strings", Ss: append(append([]string{}, relu...), "relu")}}, ins, outs))
		// sequence_lens supplied
		withLens := append(append([]*TJ{}, ins[:4]...), vals("i32", []int{2}, 2, 2))
		e.emit(opCase("attrs", o.op, []Attr{hs, {Name: "activations", Type: "strings", Ss: relu}}, withLens, outs))
		// float64
		ins64 := base.inputs(func(s []int, sd int) *TJ { return tinyT("f64", s, sd) })
		e.emit(opCase("dtypes", o.op, []Attr{hs, {Name: "activations", Type: "strings", Ss: relu}}, ins64, outs))
	}
	lb := recCfg{op: "LSTM", G: 4, seq: 2, batch: 1, in: 2, hid: 2, useB: true}
	insL := lb.inputs(func(s []int, sd int) *TJ { return tinyT("f32", s, sd) })
	for _, v := range []int64{0, 1} {
		e.emit(opCase("attrs", "LSTM", []Attr{{Name: "hidden_size", Type: "i", I: 2}, {Name: "activations", Type: "strings", Ss: []string{"relu", "relu", "relu"}}, {Name: "input_forget", Type: "i", I: v}}, insL, []string{"Y", "Y_h", "Y_c"}))
	}
	e.emit(opCase("attrs", "LSTM", []Attr{{Name: "hidden_size", Type: "i", I: 2}, {Name: "activations", Type: "strings", Ss: []string{"relu", "relu", "relu"}}}, insL, []string{"Y", "Y_h", "Y_c", "extra"}))
}

// splitCase runs the operator on the whole sequence and on two pieces (the final state of the first
// piece is the initial state of the second) and records both results.
func splitCase(op string, attrs []Attr, c recCfg, ins []*TJ, at int) *Case {
	cs := &Case{Kind: "recsplit", Stream: "split", Op: op, Attrs: attrs, Inputs: ins, P: map[string]any{"at": at}}
	cs.Impl = guard(func() *Result {
		run := func(in []*TJ) ([]tensor.Tensor, error) {
			o, err := opset13.GetOperator(op)
			if err != nil {
				return nil, err
			}
			names := make([]string, len(in))
			if err := o.Init(mkNode(op, attrs, names, []string{"Y", "Y_h", "Y_c"}[:map[string]int{"RNN": 2, "GRU": 2, "LSTM": 3}[op]])); err != nil {
				return nil, err
			}
			ts := make([]tensor.Tensor, len(in))
			for i, t := range in {
				ts[i] = mkTensor(t)
			}
			ts, err = o.ValidateInputs(ts)
			if err != nil {
				return nil, err
			}
			return o.Apply(ts)
		}
		whole, err := run(ins)
		if err != nil {
			return errResult(err)
		}
		x := ins[0]
		per := c.batch * c.in
		part := func(from, to int) *TJ {
			return &TJ{Dt: x.Dt, Shape: []int{to - from, c.batch, c.in}, Data: x.Data[from*per : to*per]}
		}
		pad := func(in []*TJ, n int) []*TJ {
			for len(in) < n {
				in = append(in, nil)
			}
			return in
		}
		first := append([]*TJ{part(0, at)}, ins[1:]...)
		o1, err := run(first)
		if err != nil {
			return errResult(err)
		}
		nIn := 6
		if op == "LSTM" {
			nIn = 8
		}
		second := pad(append([]*TJ{part(at, c.seq)}, ins[1:]...), nIn)
		second[5] = toTJ(o1[1])
		if op == "LSTM" {
			second[6] = toTJ(o1[2])
		}
		o2, err := run(second)
		if err != nil {
			return errResult(err)
		}
		r := &Result{Status: "ok"}
		w := []*TJ{}
		for _, t := range whole {
			w = append(w, toTJ(t))
		}
		p1, p2 := []*TJ{}, []*TJ{}
		for _, t := range o1 {
			p1 = append(p1, toTJ(t))
		}
		for _, t := range o2 {
			p2 = append(p2, toTJ(t))
		}
		r.Extra = map[string]any{"whole": w, "first": p1, "second": p2}
		return r
	})
	return cs
}
