package main

func init() {
	gens["C08"] = genC08
	exampleCases["Transpose"] = &Case{Op: "Transpose", Attrs: []Attr{{Name: "perm", Type: "ints", Ints: []int64{1, 0}}}, Inputs: []*TJ{iota1("f32", 2, 3)}}
	exampleCases["Concat"] = &Case{Op: "Concat", Attrs: []Attr{{Name: "axis", Type: "i", I: 1}}, Inputs: []*TJ{iota1("f32", 2, 3), iota1("f32", 2, 2)}}
	exampleCases["Gather"] = &Case{Op: "Gather", Attrs: []Attr{{Name: "axis", Type: "i", I: 1}}, Inputs: []*TJ{iota1("f32", 2, 3), vals("i64", []int{2}, 2, 0)}}
}

func perms(n int) [][]int {
	if n == 0 {
		return [][]int{{}}
	}
	var out [][]int
	for _, p := range perms(n - 1) {
		for pos := 0; pos <= len(p); pos++ {
			q := append(append(append([]int{}, p[:pos]...), n-1), p[pos:]...)
			out = append(out, q)
		}
	}
	return out
}

func ints64(v []int) []int64 {
	o := make([]int64, len(v))
	for i := range v {
		o[i] = int64(v[i])
	}
	return o
}

func idxT(dt string, shape []int, v []int) *TJ {
	d := make([]any, len(v))
	for i := range v {
		d[i] = int64(v[i]) // exact: INT64 extremes must survive the JSON round trip
	}
	return &TJ{Dt: dt, Shape: shape, Data: d}
}

func genC08(e *emitter, tier string) {
	// strided slices of LONGER vectors and matrices whose extent along the sliced axis is a multiple of the step
	// (outside the regions of the recorded Slice findings: results of extent 1, a remainder on axis 0): results of
	// 2-4 elements taken from a span that is longer than the result
	for _, cfg := range []struct {
		shape           []int
		st, en, ax, stp int
	}{{[]int{6}, 0, 6, 0, 2}, {[]int{6}, 0, 6, 0, 3}, {[]int{8}, 2, 8, 0, 2}, {[]int{9}, 0, 9, 0, 3}, {[]int{8}, 0, 8, 0, 4}, {[]int{6}, -6, 6, 0, 2},
		{[]int{2, 6}, 0, 6, 1, 2}, {[]int{2, 6}, 0, 6, -1, 3}, {[]int{3, 8}, 2, 8, 1, 3}, {[]int{2, 2, 6}, 0, 6, 2, 2}, {[]int{2, 2, 6}, 0, 6, -1, 2}, {[]int{4, 3}, 0, 4, 0, 2}} {
		for _, dt := range []string{"f32", "i64"} {
			x := seqT(dt, cfg.shape, func(i int) float64 { return float64(10 + i) })
			e.emit(opCase("slice-strided-long", "Slice", nil, []*TJ{x, idxT("i64", []int{1}, []int{cfg.st}), idxT("i64", []int{1}, []int{cfg.en}), idxT("i64", []int{1}, []int{cfg.ax}), idxT("i64", []int{1}, []int{cfg.stp})}, nil))
		}
	}
	// Shape -> Slice chains as exporters write them (the shape vector of a rank-4 tensor, every second entry)
	e.emit(opCase("slice-strided-long", "Slice", nil, []*TJ{idxT("i64", []int{4}, []int{2, 3, 4, 5}), idxT("i64", []int{1}, []int{0}), idxT("i64", []int{1}, []int{4}), idxT("i64", []int{1}, []int{0}), idxT("i64", []int{1}, []int{2})}, nil))
	R, E := 3, 3
	if tier == "thorough" {
		R, E = 4, 3
	}
	shapes := allShapes(R, E)
	if tier != "thorough" {
		shapes = append(shapes, []int{2, 1, 3, 2}, []int{1, 2, 2, 1}, []int{2, 3, 1, 1})
	}
	dts := []string{"f32", "i64", "f64", "i32", "bool", "u8", "i8", "u32", "str"}
	k := 0
	data := func(s []int) *TJ {
		dt := dts[k%len(dts)]
		k++
		if dt == "bool" {
			return seqT(dt, s, func(i int) float64 { return float64((i/2 + i) % 2) })
		}
		return seqT(dt, s, func(i int) float64 { return float64(i + 1) })
	}
	const big = 9223372036854775807
	for _, s := range shapes {
		r := len(s)
		// --- Transpose: every permutation, and non-permutations
		if r >= 1 {
			for _, p := range perms(r) {
				e.emit(opCase("transpose", "Transpose", []Attr{{Name: "perm", Type: "ints", Ints: ints64(p)}}, []*TJ{data(s)}, nil))
			}
			bad := make([]int, r)
			e.emit(opCase("transpose-bad", "Transpose", []Attr{{Name: "perm", Type: "ints", Ints: ints64(bad)}}, []*TJ{data(s)}, nil))
			bad2 := append(rangeInts(0, r-1), r)
			e.emit(opCase("transpose-bad", "Transpose", []Attr{{Name: "perm", Type: "ints", Ints: ints64(bad2)}}, []*TJ{data(s)}, nil))
			bad3 := rangeInts(1, r)
			e.emit(opCase("transpose-bad", "Transpose", []Attr{{Name: "perm", Type: "ints", Ints: ints64(bad3)}}, []*TJ{data(s)}, nil))
			neg := rangeInts(-r, -1)
			e.emit(opCase("transpose-bad", "Transpose", []Attr{{Name: "perm", Type: "ints", Ints: ints64(neg)}}, []*TJ{data(s)}, nil))
		}
		e.emit(opCase("transpose-bad", "Transpose", nil, []*TJ{data(s)}, nil))
		// --- Slice: single-axis (start,end,step) over [-dim-2, dim+2] plus extremes, on every axis
		for ax := 0; ax < r; ax++ {
			d := s[ax]
			rng := rangeInts(-d-2, d+2)
			rng = append(rng, big, -big)
			for _, st := range rng {
				for _, en := range rng {
					for _, sp := range []int{1, 2, 3, -1, -2, 0} {
						if tier != "thorough" && r == 3 && (st+en+sp+ax+k)%3 != 0 {
							continue
						}
						if (st == big || st == -big || en == -big) && sp != 1 && sp != -1 {
							continue
						}
						axv := ax
						if (st+en)%2 != 0 {
							axv = ax - r
						}
						ins := []*TJ{data(s), idxT("i64", []int{1}, []int{st}), idxT("i64", []int{1}, []int{en}), idxT("i64", []int{1}, []int{axv}), idxT("i64", []int{1}, []int{sp})}
						e.emit(opCase("slice-1axis", "Slice", nil, ins, nil))
					}
				}
			}
		}
		// multi-axis slices (default axes/steps, int32 tensors, scalar starts)
		if r >= 2 {
			n := 40
			if tier == "thorough" {
				n = 200
			}
			for i := 0; i < n; i++ {
				m := 1 + e.rng.Intn(r)
				var st, en, ax, sp []int
				pa := e.rng.Perm(r)[:m]
				for _, a := range pa {
					d := s[a]
					x := e.rng.Intn(d)
					y := x + 1 + e.rng.Intn(d-x+1)
					st, en, ax, sp = append(st, x), append(en, y), append(ax, a), append(sp, 1+e.rng.Intn(2))
				}
				switch e.rng.Intn(4) {
				case 0: // defaults: axes = 0..m-1, steps = 1
					ins := []*TJ{data(s), idxT("i64", []int{m}, st), idxT("i64", []int{m}, en)}
					e.emit(opCase("slice-multi", "Slice", nil, ins, nil))
				case 1:
					ins := []*TJ{data(s), idxT("i32", []int{m}, st), idxT("i32", []int{m}, en), idxT("i32", []int{m}, ax), idxT("i32", []int{m}, sp)}
					e.emit(opCase("slice-multi", "Slice", nil, ins, nil))
				case 2: // steps skipped explicitly
					ins := []*TJ{data(s), idxT("i64", []int{m}, st), idxT("i64", []int{m}, en), idxT("i64", []int{m}, ax)}
					e.emit(opCase("slice-multi", "Slice", nil, ins, nil))
				default:
					ins := []*TJ{data(s), idxT("i64", []int{m}, st), idxT("i64", []int{m}, en), idxT("i64", []int{m}, ax), idxT("i64", []int{m}, sp)}
					e.emit(opCase("slice-multi", "Slice", nil, ins, nil))
				}
			}
		}
		if r >= 1 {
			// axis out of range, duplicate axes, length mismatches
			e.emit(opCase("slice-bad", "Slice", nil, []*TJ{data(s), idxT("i64", []int{1}, []int{0}), idxT("i64", []int{1}, []int{1}), idxT("i64", []int{1}, []int{r})}, nil))
			e.emit(opCase("slice-bad", "Slice", nil, []*TJ{data(s), idxT("i64", []int{1}, []int{0}), idxT("i64", []int{1}, []int{1}), idxT("i64", []int{1}, []int{-r - 1})}, nil))
			e.emit(opCase("slice-bad", "Slice", nil, []*TJ{data(s), idxT("i64", []int{2}, []int{0, 0}), idxT("i64", []int{2}, []int{1, 1}), idxT("i64", []int{2}, []int{0, 0})}, nil))
			e.emit(opCase("slice-bad", "Slice", nil, []*TJ{data(s), idxT("i64", []int{2}, []int{0, 0}), idxT("i64", []int{1}, []int{1})}, nil))
			e.emit(opCase("slice-scalar-args", "Slice", nil, []*TJ{data(s), idxT("i64", []int{}, []int{0}), idxT("i64", []int{}, []int{s[0]})}, nil))
		}
		// --- Gather: every axis, index tensors of rank 0..2 with in-range (also negative) values
		for ax := -r - 1; ax <= r; ax++ {
			var d int
			if ax >= -r && ax < r && r > 0 {
				d = s[(ax+r)%r]
			} else {
				d = 2
			}
			idxs := []*TJ{
				idxT("i64", []int{}, []int{d - 1}),
				idxT("i64", []int{}, []int{-1}),
				idxT("i32", []int{1}, []int{0}),
				idxT("i64", []int{3}, []int{d - 1, -d, 0}),
				idxT("i64", []int{2, 2}, []int{0, -1, d - 1, -d}),
				idxT("i64", []int{1, 2}, []int{-1, 0}),
				idxT("i64", []int{2, 1}, []int{0, d - 1}),
			}
			for _, ix := range idxs {
				e.emit(opCase("gather", "Gather", []Attr{{Name: "axis", Type: "i", I: int64(ax)}}, []*TJ{data(s), ix}, nil))
			}
			e.emit(opCase("gather-bad", "Gather", []Attr{{Name: "axis", Type: "i", I: int64(ax)}}, []*TJ{data(s), idxT("i64", []int{2}, []int{0, d})}, nil))
			e.emit(opCase("gather-bad", "Gather", []Attr{{Name: "axis", Type: "i", I: int64(ax)}}, []*TJ{data(s), idxT("i64", []int{1}, []int{-d - 1})}, nil))
		}
		if r > 0 {
			e.emit(opCase("gather", "Gather", nil, []*TJ{data(s), idxT("i64", []int{2}, []int{0, s[0] - 1})}, nil))
		}
		// --- Expand: every target shape of rank 0..3 with extents 1..3 (shorter, equal, longer)
		for _, t := range allShapes(3, 3) {
			if len(t) == 0 {
				continue
			}
			if tier != "thorough" && r == 3 && len(t) == 3 && (t[0]+t[1]*2+t[2]+k)%3 != 0 {
				continue
			}
			e.emit(opCase("expand", "Expand", nil, []*TJ{data(s), idxT("i64", []int{len(t)}, t)}, nil))
		}
		e.emit(opCase("expand-special", "Expand", nil, []*TJ{data(s), idxT("i64", []int{}, []int{2})}, nil))
	}
	// --- Gather: every index list of length 1..3 (repeats, gaps, any order, negative spellings) on an axis of
	// extent 4, and all 2x2 index tensors over a sample
	for _, ds := range []struct {
		s  []int
		ax int
	}{{[]int{4}, 0}, {[]int{4, 2}, 0}, {[]int{2, 4}, 1}, {[]int{2, 4}, -1}} {
		x := seqT("f32", ds.s, func(i int) float64 { return float64(i + 1) })
		vals4 := rangeInts(-4, 3)
		for _, l := range intLists(vals4, 3) {
			if len(l) == 0 {
				continue
			}
			if tier != "thorough" && len(l) == 3 && len(ds.s) == 2 && (l[0]+2*l[1]+3*l[2]+ds.ax)%4 != 0 {
				continue
			}
			e.emit(opCase("gather-index-lists", "Gather", []Attr{{Name: "axis", Type: "i", I: int64(ds.ax)}}, []*TJ{x, idxT([]string{"i64", "i32"}[(len(l)+l[0]+8)%2], []int{len(l)}, l)}, nil))
		}
		for a := -4; a <= 3; a++ {
			for b := -4; b <= 3; b += 3 {
				e.emit(opCase("gather-index-lists", "Gather", []Attr{{Name: "axis", Type: "i", I: int64(ds.ax)}}, []*TJ{x, idxT("i64", []int{2, 2}, []int{a, b, b, a + (3-a)%2})}, nil))
			}
		}
	}
	// --- Concat: 1..4 inputs, every axis, equal and unequal off-axis shapes, negative axis, mixed dtypes
	base := allShapes(3, 2)
	for _, s := range base {
		r := len(s)
		if r == 0 {
			continue
		}
		for ax := -r - 1; ax <= r; ax++ {
			for n := 1; n <= 4; n++ {
				var ins []*TJ
				off := 0
				for j := 0; j < n; j++ {
					sj := append([]int{}, s...)
					if ax >= -r && ax < r {
						sj[(ax+r)%r] = 1 + (j+len(s))%3
					}
					o := off
					ins = append(ins, seqT("f32", sj, func(i int) float64 { return float64(o + i) }))
					off += 100
				}
				e.emit(opCase("concat", "Concat", []Attr{{Name: "axis", Type: "i", I: int64(ax)}}, ins, nil))
			}
		}
		// off-axis mismatch
		if r >= 2 {
			s2 := append([]int{}, s...)
			s2[1]++
			e.emit(opCase("concat-bad", "Concat", []Attr{{Name: "axis", Type: "i", I: 0}}, []*TJ{iota1("f32", s...), iota1("f32", s2...)}, nil))
		}
		// rank mismatch
		e.emit(opCase("concat-bad", "Concat", []Attr{{Name: "axis", Type: "i", I: 0}}, []*TJ{iota1("f32", s...), iota1("f32", append([]int{1}, s...)...)}, nil))
		for _, dt := range []string{"i64", "bool", "f64", "u8"} {
			e.emit(opCase("concat-dtypes", "Concat", []Attr{{Name: "axis", Type: "i", I: 0}}, []*TJ{seqT(dt, s, func(i int) float64 { return float64(i % 2) }), seqT(dt, s, func(i int) float64 { return float64((i + 1) % 2) })}, nil))
		}
		e.emit(opCase("concat-mixed", "Concat", []Attr{{Name: "axis", Type: "i", I: 0}}, []*TJ{iota1("f32", s...), iota1("f64", s...)}, nil))
	}
	e.emit(opCase("concat-bad", "Concat", nil, []*TJ{iota1("f32", 2), iota1("f32", 2)}, nil))
}
