package main

import (
	"fmt"
	"math"

	"github.com/advancedclimatesystems/gonnx"
	"gorgonia.org/tensor"
)

func init() { gens["C16"] = genC16 }

// BatchIn describes one model input: its shape with the batch extent at axis Axis.
type BatchIn struct {
	Name  string `json:"name"`
	Shape []int  `json:"shape"` // Shape[Axis] is the batch size
	Axis  int    `json:"axis"`
}

// takeRows selects the given batch positions along axis of a row-major float slice.
func takeRows(data []float64, shape []int, axis int, rows []int) ([]float64, []int) {
	outer, inner := 1, 1
	for i := 0; i < axis; i++ {
		outer *= shape[i]
	}
	for i := axis + 1; i < len(shape); i++ {
		inner *= shape[i]
	}
	n := shape[axis]
	var out []float64
	for o := 0; o < outer; o++ {
		for _, r := range rows {
			out = append(out, data[(o*n+r)*inner:(o*n+r+1)*inner]...)
		}
	}
	ns := append([]int{}, shape...)
	ns[axis] = len(rows)
	return out, ns
}

func floatsOfTensor(t tensor.Tensor) []float64 {
	d, err := dataList(t)
	if err != nil {
		return nil
	}
	out := make([]float64, len(d))
	for i, v := range d {
		out[i] = toF(v)
	}
	return out
}

type batchReport struct {
	N        int     `json:"n"`
	Checks   int     `json:"checks"`
	MaxRel   float64 `json:"max_rel_diff"`
	MaxRelFinite float64 `json:"max_rel_diff_finite"` // over the pairs in which both values are finite
	NonFinite    int     `json:"nonfinite_mismatches"` // pairs that differ and in which a value is NaN / Inf
	Exact    bool    `json:"all_bit_equal"`
	Problem  string  `json:"problem,omitempty"`
	OutAxes  map[string]int `json:"out_axes,omitempty"`
}

// batchCase: evaluating a batch gives for each sample what evaluating that sample alone gives;
// also under permutation and sub-selection of the batch.
func batchCase(stream string, load func() (*gonnx.Model, error), desc any, ins []BatchIn, data map[string][]float64, integer bool) *Case {
	c := &Case{Kind: "batch", Stream: stream, P: map[string]any{"model": desc, "inputs": ins, "integer": integer}}
	c.Impl = guard(func() *Result {
		m, err := load()
		if err != nil {
			r := errResult(err)
			r.Extra = "load"
			return r
		}
		N := ins[0].Shape[ins[0].Axis]
		runRows := func(rows []int) (gonnx.Tensors, error) {
			in := gonnx.Tensors{}
			for _, bi := range ins {
				d, s := takeRows(data[bi.Name], bi.Shape, bi.Axis, rows)
				in[bi.Name] = mkTensor(fT("f32", s, d))
			}
			return m.Run(in)
		}
		all := make([]int, N)
		for i := range all {
			all[i] = i
		}
		full, err := runRows(all)
		if err != nil {
			r := errResult(err)
			r.Extra = "full batch"
			return r
		}
		rep := batchReport{N: N, Exact: true, OutAxes: map[string]int{}}
		// which axis of every output is the batch axis: probe with a batch size (7) no other extent has
		{
			const P = 7
			in := gonnx.Tensors{}
			for _, bi := range ins {
				sh := append([]int{}, bi.Shape...)
				sh[bi.Axis] = P
				in[bi.Name] = mkTensor(seqT("f32", sh, func(i int) float64 { return float64(i%3 - 1) }))
			}
			probe, perr := m.Run(in)
			if perr != nil {
				r := errResult(perr)
				r.Extra = "probe batch of 7"
				return r
			}
			for name, t := range probe {
				for i, d := range t.Shape() {
					if d == P {
						rep.OutAxes[name] = i
					}
				}
			}
		}
		// compare the run on `rows` with the corresponding rows of the full-batch result
		check := func(rows []int, what string) {
			part, err := runRows(rows)
			if err != nil {
				if rep.Problem == "" {
					rep.Problem = fmt.Sprintf("%s %v: %v", what, rows, err)
				}
				return
			}
			for name, fo := range full {
				po := part[name]
				if po == nil || fo == nil {
					continue
				}
				fs, ps := fo.Shape(), po.Shape()
				ax, okAx := rep.OutAxes[name]
				if !okAx || len(fs) != len(ps) || ax >= len(fs) || fs[ax] != N || ps[ax] != len(rows) {
					if rep.Problem == "" {
						rep.Problem = fmt.Sprintf("%s: output %s has shape %v for the batch and %v for rows %v (batch axis %d)", what, name, fs, ps, rows, ax)
					}
					continue
				}
				want, _ := takeRows(floatsOfTensor(fo), fs, ax, rows)
				got := floatsOfTensor(po)
				if len(want) != len(got) {
					if rep.Problem == "" {
						rep.Problem = fmt.Sprintf("%s: output %s sizes differ", what, name)
					}
					continue
				}
				for i := range want {
					rep.Checks++
					if math.Float64bits(want[i]) != math.Float64bits(got[i]) && !(want[i] == 0 && got[i] == 0) {
						rep.Exact = false
						d := math.Abs(want[i]-got[i]) / math.Max(1e-6, math.Max(math.Abs(want[i]), math.Abs(got[i])))
						if math.IsNaN(d) || math.IsInf(d, 0) {
							d = 1e300
							rep.NonFinite++
						} else if d > rep.MaxRelFinite {
							rep.MaxRelFinite = d
						}
						if d > rep.MaxRel {
							rep.MaxRel = d
						}
					}
				}
			}
		}
		// straight after the Run on the whole batch, a batch of the same size that differs from it only in the
		// MIDDLE (two neighbouring samples swapped): whatever a Model remembers about its last call, it must not
		// mistake this one for it
		if N >= 4 {
			mid := append([]int{}, all...)
			mid[N/2], mid[N/2-1] = mid[N/2-1], mid[N/2]
			check(all, "whole batch again") // (the last call before the swapped batch is the whole batch)
			check(mid, "two middle samples swapped")
		}
		for i := 0; i < N; i++ {
			check([]int{i}, "sample alone")
		}
		if N >= 2 {
			perm := make([]int, N)
			for i := range perm {
				perm[i] = (i*3 + 1) % N
			}
			if N%3 == 0 {
				for i := range perm {
					perm[i] = N - 1 - i
				}
			}
			check(perm, "permutation")
			check(all[1:], "sub-selection")
			check([]int{N - 1, 0}, "sub-selection")
		}
		return &Result{Status: "ok", Extra: rep}
	})
	return c
}

func genC16(e *emitter, tier string) {
	reps := 3
	if tier == "thorough" {
		reps = 40
	}
	rnd := func(n int, scale float64) []float64 {
		v := make([]float64, n)
		for i := range v {
			v[i] = float64(float32((e.rng.Float64()*2 - 1) * scale))
		}
		return v
	}
	ints := func(n int) []float64 {
		v := make([]float64, n)
		for i := range v {
			v[i] = float64(e.rng.Intn(5) - 2)
		}
		return v
	}
	for r := 0; r < reps; r++ {
		Ns := []int{1, 2, 3, 4, 5}
		if r == 0 {
			Ns = append(Ns, 9, 17) // more samples than cores, odd counts
		}
		for _, N := range Ns {
			// sample models (floats: compared with a tolerance - testing)
			s := 1 + e.rng.Intn(3)
			e.emit(batchCase("sample:mlp", sampleModelLoader("mlp.onnx"), "mlp.onnx", []BatchIn{{"data_input", []int{N, 3}, 0}}, map[string][]float64{"data_input": rnd(N*3, 2)}, false))
			e.emit(batchCase("sample:scaler", sampleModelLoader("scaler.onnx"), "scaler.onnx", []BatchIn{{"X", []int{N, 3}, 0}}, map[string][]float64{"X": rnd(N*3, 5)}, false))
			e.emit(batchCase("sample:gru", sampleModelLoader("gru.onnx"), "gru.onnx", []BatchIn{{"data_input", []int{N, s, 3}, 0}, {"init_hidden", []int{1, N, 5}, 1}},
				map[string][]float64{"data_input": rnd(N*s*3, 1), "init_hidden": rnd(N*5, 1)}, false))
			e.emit(batchCase("sample:ndm", sampleModelLoader("ndm.onnx"), "ndm.onnx", []BatchIn{{"sensor_input", []int{N, s, 4}, 0}, {"setpoint_input", []int{N, 1}, 0}},
				map[string][]float64{"sensor_input": rnd(N*s*4, 1), "setpoint_input": rnd(N, 1)}, false))
			// lane-wise normalisations and transcendental chains (floats, tolerance)
			gsm := &GraphJ{Inputs: []VInfoJ{{Name: "x", Dt: "f32", Dims: []any{"N", 4}}},
				Nodes: []NodeJ{{Op: "Softmax", Ins: []string{"x"}, Outs: []string{"sm"}}, {Op: "LogSoftmax", Ins: []string{"x"}, Outs: []string{"ls"}},
					{Op: "Tanh", Ins: []string{"x"}, Outs: []string{"th"}}, {Op: "Sigmoid", Ins: []string{"th"}, Outs: []string{"sg"}}},
				Outputs: []string{"sm", "ls", "sg"}}
			e.emit(batchCase("float:softmax-moderate", func() (*gonnx.Model, error) { return loadModel(gsm) }, gsm, []BatchIn{{"x", []int{N, 4}, 0}}, map[string][]float64{"x": rnd(N*4, 3)}, false))
			if r == 0 && N >= 2 {
				// samples of very different magnitude with FRACTIONAL logits, the small one first: a shift by anything
				// computed over the whole batch rounds the small sample's logits away
				for _, gap := range []float64{1e3, 3e6, 1e8} {
					d := make([]float64, N*4)
					for i := range d {
						row := i / 4
						d[i] = 0.1 * float64(i%4+1)
						if row%2 == 1 {
							d[i] = gap*float64(row) + float64(i%4)*0.75
						}
					}
					e.emit(batchCase("float:softmax-mixed-magnitudes", func() (*gonnx.Model, error) { return loadModel(gsm) }, gsm, []BatchIn{{"x", []int{N, 4}, 0}}, map[string][]float64{"x": d}, false))
					g3 := &GraphJ{Inputs: []VInfoJ{{Name: "x", Dt: "f32", Dims: []any{"N", 4, 2}}},
						Nodes:   []NodeJ{{Op: "Softmax", Attrs: []Attr{{Name: "axis", Type: "i", I: 1}}, Ins: []string{"x"}, Outs: []string{"sm"}}, {Op: "LogSoftmax", Attrs: []Attr{{Name: "axis", Type: "i", I: 1}}, Ins: []string{"x"}, Outs: []string{"ls"}}},
						Outputs: []string{"sm", "ls"}}
					d3 := make([]float64, N*8)
					for i := range d3 {
						row := i / 8
						d3[i] = 0.1 * float64(i%8+1)
						if row%2 == 1 {
							d3[i] = gap*float64(row) + float64(i%8)*0.75
						}
					}
					e.emit(batchCase("float:softmax-mixed-magnitudes", func() (*gonnx.Model, error) { return loadModel(g3) }, g3, []BatchIn{{"x", []int{N, 4, 2}, 0}}, map[string][]float64{"x": d3}, false))
				}
				// the first element of the whole tensor is far above the other rows' values
				d := make([]float64, N*4)
				d[0] = 1000
				e.emit(batchCase("float:softmax-first-element-far-above-other-rows", func() (*gonnx.Model, error) { return loadModel(gsm) }, gsm, []BatchIn{{"x", []int{N, 4}, 0}}, map[string][]float64{"x": d}, false))
			}
			// exact zeros in a sample lined up with non-finite weights (0 x Inf): whatever the kernels make of it,
			// a sample alone gets what it gets inside a batch
			if r == 0 {
				inf := math.Inf(1)
				gz := &GraphJ{Inputs: []VInfoJ{{Name: "x", Dt: "f32", Dims: []any{"N", 3}}},
					Inits: []InitJ{{Name: "wt", T: fT("f32", []int{2, 3}, []float64{inf, 1, 2, 0.5, math.NaN(), -1})}, {Name: "w", T: fT("f32", []int{3, 2}, []float64{-inf, 1, 2, 3, 0.25, inf})},
						{Name: "b", T: fT("f32", []int{2}, []float64{0.5, -0.5})}},
					Nodes: []NodeJ{{Op: "Gemm", Attrs: []Attr{{Name: "transB", Type: "i", I: 1}}, Ins: []string{"x", "wt", "b"}, Outs: []string{"g"}},
						{Op: "MatMul", Ins: []string{"x", "w"}, Outs: []string{"m"}}, {Op: "Relu", Ins: []string{"x"}, Outs: []string{"rx"}},
						{Op: "Gemm", Ins: []string{"rx", "w"}, Outs: []string{"g2"}}},
					Outputs: []string{"g", "m", "g2"}}
				d := make([]float64, N*3)
				for i := range d {
					d[i] = float64((i*2+i/3)%3) - 1 // -1, 0, 1 patterns: exact zeros at different positions per sample
				}
				e.emit(batchCase("float:zero-times-nonfinite-weight", func() (*gonnx.Model, error) { return loadModel(gz) }, gz, []BatchIn{{"x", []int{N, 3}, 0}}, map[string][]float64{"x": d}, false))
			}
			// generated per-sample graphs in the exact regime (bit for bit)
			for _, pg := range perSampleGraphs(e) {
				g := pg.g
				ins := make([]BatchIn, len(pg.ins))
				data := map[string][]float64{}
				for i, bi := range pg.ins {
					sh := append([]int{}, bi.Shape...)
					sh[bi.Axis] = N
					ins[i] = BatchIn{bi.Name, sh, bi.Axis}
					data[bi.Name] = ints(nelem(sh))
				}
				// graphs with transcendental nodes (Softmax, Tanh) are compared up to rounding, the others bit for bit
				transcendental := pg.name == "batch-axis-inside" || pg.name == "negative-axes"
				e.emit(batchCase("generated:"+pg.name, func() (*gonnx.Model, error) { return loadModel(g) }, g, ins, data, !transcendental))
			}
		}
	}
}

type perSample struct {
	name string
	g    *GraphJ
	ins  []BatchIn
}

// models built from per-sample operators: Gemm/MatMul against weights, Conv, RNN/GRU/LSTM,
// elementwise and activation operators, batch-preserving reshapes
func perSampleGraphs(e *emitter) []perSample {
	var out []perSample
	sh := func(name string, v []int) InitJ { return InitJ{Name: name, T: idxT("i64", []int{len(v)}, v)} }
	// dense: Gemm(transB) + Relu + MatMul + Add + Reshape(0,2,2) + Flatten
	out = append(out, perSample{"dense", &GraphJ{
		Inputs: []VInfoJ{{Name: "x", Dt: "f32", Dims: []any{"N", 3}}},
		Inits:  []InitJ{{Name: "w1", T: tinyT("f32", []int{4, 3}, 1)}, {Name: "b1", T: tinyT("f32", []int{4}, 2)}, {Name: "w2", T: tinyT("f32", []int{4, 4}, 3)}, {Name: "b2", T: tinyT("f32", []int{1, 4}, 4)}, sh("s", []int{0, 2, 2})},
		Nodes: []NodeJ{
			{Op: "Gemm", Attrs: []Attr{{Name: "transB", Type: "i", I: 1}}, Ins: []string{"x", "w1", "b1"}, Outs: []string{"h1"}},
			{Op: "Relu", Ins: []string{"h1"}, Outs: []string{"a1"}},
			{Op: "MatMul", Ins: []string{"a1", "w2"}, Outs: []string{"h2"}},
			{Op: "Add", Ins: []string{"h2", "b2"}, Outs: []string{"h3"}},
			{Op: "Reshape", Ins: []string{"h3", "s"}, Outs: []string{"r"}},
			{Op: "Flatten", Ins: []string{"r"}, Outs: []string{"y"}},
			{Op: "Mul", Ins: []string{"y", "y"}, Outs: []string{"sq"}},
		}, Outputs: []string{"y", "sq", "r"}},
		[]BatchIn{{"x", []int{0, 3}, 0}}})
	// dense with biases that already have the per-sample output shape ([1, M]): for a single sample nothing
	// needs broadcasting, so helpers may hand the weight itself back; the same bias feeds two nodes
	out = append(out, perSample{"dense-bias-2d", &GraphJ{
		Inputs: []VInfoJ{{Name: "x", Dt: "f32", Dims: []any{"N", 3}}},
		Inits:  []InitJ{{Name: "w1", T: tinyT("f32", []int{4, 3}, 1)}, {Name: "c", T: tinyT("f32", []int{1, 4}, 2)}, {Name: "w2", T: tinyT("f32", []int{4, 4}, 3)}},
		Nodes: []NodeJ{
			{Op: "Gemm", Attrs: []Attr{{Name: "transB", Type: "i", I: 1}}, Ins: []string{"x", "w1", "c"}, Outs: []string{"h1"}},
			{Op: "Gemm", Ins: []string{"h1", "w2", "c"}, Outs: []string{"h2"}},
			{Op: "Add", Ins: []string{"h2", "c"}, Outs: []string{"h3"}},
			{Op: "Sub", Ins: []string{"c", "h3"}, Outs: []string{"h4"}},
		}, Outputs: []string{"h1", "h2", "h3", "h4"}},
		[]BatchIn{{"x", []int{0, 3}, 0}}})
	// wide samples: batches of 2 to 5 samples cross the sizes at which kernels switch strategy
	// (block-wise / parallel loops start in the thousands of elements)
	out = append(out, perSample{"wide-elementwise", &GraphJ{
		Inputs: []VInfoJ{{Name: "x", Dt: "f32", Dims: []any{"N", 2500}}},
		Inits:  []InitJ{{Name: "slope", T: tinyT("f32", []int{2500}, 1)}, {Name: "b", T: tinyT("f32", []int{2500}, 2)}},
		Nodes: []NodeJ{
			{Op: "PRelu", Ins: []string{"x", "slope"}, Outs: []string{"p"}},
			{Op: "Relu", Ins: []string{"x"}, Outs: []string{"r"}},
			{Op: "Abs", Ins: []string{"x"}, Outs: []string{"a"}},
			{Op: "Add", Ins: []string{"p", "b"}, Outs: []string{"s"}},
			{Op: "Mul", Ins: []string{"s", "r"}, Outs: []string{"m"}},
			{Op: "ReduceMax", Attrs: []Attr{{Name: "axes", Type: "ints", Ints: []int64{1}}, {Name: "keepdims", Type: "i", I: 1}}, Ins: []string{"m"}, Outs: []string{"mx"}},
		}, Outputs: []string{"p", "s", "m", "mx", "a"}},
		[]BatchIn{{"x", []int{0, 2500}, 0}}})
	// conv: Conv with bias + Relu + ReduceMax over the spatial axes
	out = append(out, perSample{"conv", &GraphJ{
		Inputs: []VInfoJ{{Name: "x", Dt: "f32", Dims: []any{"N", 2, 4, 3}}},
		Inits:  []InitJ{{Name: "w", T: tinyT("f32", []int{2, 2, 2, 2}, 5)}, {Name: "b", T: tinyT("f32", []int{2}, 6)}},
		Nodes: []NodeJ{
			{Op: "Conv", Attrs: []Attr{{Name: "pads", Type: "ints", Ints: []int64{1, 0, 0, 1}}}, Ins: []string{"x", "w", "b"}, Outs: []string{"c"}},
			{Op: "Relu", Ins: []string{"c"}, Outs: []string{"a"}},
			{Op: "ReduceMax", Attrs: []Attr{{Name: "axes", Type: "ints", Ints: []int64{2, 3}}, {Name: "keepdims", Type: "i", I: 0}}, Ins: []string{"a"}, Outs: []string{"y"}},
		}, Outputs: []string{"y", "c"}},
		[]BatchIn{{"x", []int{0, 2, 4, 3}, 0}}})
	// 1-D convolution, more filters than samples and fewer (batch and filter indices must not be confused)
	out = append(out, perSample{"conv1d", &GraphJ{
		Inputs: []VInfoJ{{Name: "x", Dt: "f32", Dims: []any{"N", 2, 5}}},
		Inits:  []InitJ{{Name: "w", T: tinyT("f32", []int{3, 2, 2}, 5)}, {Name: "b", T: tinyT("f32", []int{3}, 6)}, {Name: "w1", T: tinyT("f32", []int{1, 2, 3}, 7)}},
		Nodes: []NodeJ{
			{Op: "Conv", Attrs: []Attr{{Name: "pads", Type: "ints", Ints: []int64{1, 0}}}, Ins: []string{"x", "w", "b"}, Outs: []string{"c"}},
			{Op: "Conv", Attrs: []Attr{{Name: "strides", Type: "ints", Ints: []int64{2}}}, Ins: []string{"x", "w1"}, Outs: []string{"c1"}},
		}, Outputs: []string{"c", "c1"}},
		[]BatchIn{{"x", []int{0, 2, 5}, 0}}})
	// conv with automatic padding and strides: the padding depends on the spatial extents only
	out = append(out, perSample{"conv-autopad", &GraphJ{
		Inputs: []VInfoJ{{Name: "x", Dt: "f32", Dims: []any{"N", 1, 5, 6}}},
		Inits:  []InitJ{{Name: "w", T: tinyT("f32", []int{2, 1, 3, 3}, 5)}, {Name: "b", T: tinyT("f32", []int{2}, 6)}, {Name: "w2", T: tinyT("f32", []int{1, 1, 2, 3}, 7)}},
		Nodes: []NodeJ{
			{Op: "Conv", Attrs: []Attr{{Name: "auto_pad", Type: "s", S: "SAME_UPPER"}, {Name: "strides", Type: "ints", Ints: []int64{2, 2}}}, Ins: []string{"x", "w", "b"}, Outs: []string{"c1"}},
			{Op: "Conv", Attrs: []Attr{{Name: "auto_pad", Type: "s", S: "SAME_LOWER"}, {Name: "strides", Type: "ints", Ints: []int64{2, 3}}}, Ins: []string{"x", "w"}, Outs: []string{"c2"}},
			{Op: "Conv", Attrs: []Attr{{Name: "auto_pad", Type: "s", S: "SAME_UPPER"}, {Name: "strides", Type: "ints", Ints: []int64{3, 2}}, {Name: "dilations", Type: "ints", Ints: []int64{2, 1}}}, Ins: []string{"x", "w2"}, Outs: []string{"c3"}},
		}, Outputs: []string{"c1", "c2", "c3"}},
		[]BatchIn{{"x", []int{0, 1, 5, 6}, 0}}})
	// index and shape operators that keep the batch axis
	out = append(out, perSample{"shape-ops", &GraphJ{
		Inputs: []VInfoJ{{Name: "x", Dt: "f32", Dims: []any{"N", 2, 3}}},
		Inits: []InitJ{sh("st", []int{1}), sh("en", []int{3}), sh("ax", []int{2}), sh("ix", []int{2, 0, 0}), sh("us", []int{1}), sh("tgt", []int{1, 2, 2, 3}),
			{Name: "k", T: tinyT("f32", []int{2, 3}, 3)}},
		Nodes: []NodeJ{
			{Op: "Transpose", Attrs: []Attr{{Name: "perm", Type: "ints", Ints: []int64{0, 2, 1}}}, Ins: []string{"x"}, Outs: []string{"t"}},
			{Op: "Slice", Ins: []string{"x", "st", "en", "ax"}, Outs: []string{"sl"}},
			{Op: "Gather", Attrs: []Attr{{Name: "axis", Type: "i", I: 2}}, Ins: []string{"x", "ix"}, Outs: []string{"ga"}},
			{Op: "Concat", Attrs: []Attr{{Name: "axis", Type: "i", I: 2}}, Ins: []string{"x", "ga", "sl"}, Outs: []string{"cc"}},
			{Op: "Unsqueeze", Ins: []string{"x", "us"}, Outs: []string{"u"}},
			{Op: "Expand", Ins: []string{"u", "tgt"}, Outs: []string{"ex"}},
			{Op: "ReduceMin", Attrs: []Attr{{Name: "axes", Type: "ints", Ints: []int64{1}}, {Name: "keepdims", Type: "i", I: 0}}, Ins: []string{"x"}, Outs: []string{"rm"}},
			{Op: "ArgMax", Attrs: []Attr{{Name: "axis", Type: "i", I: 2}, {Name: "keepdims", Type: "i", I: 1}}, Ins: []string{"x"}, Outs: []string{"am"}},
			{Op: "Sub", Ins: []string{"x", "k"}, Outs: []string{"d"}},
			{Op: "Abs", Ins: []string{"d"}, Outs: []string{"ab"}},
			{Op: "Less", Ins: []string{"x", "k"}, Outs: []string{"lt"}},
			{Op: "MatMul", Ins: []string{"t", "x"}, Outs: []string{"mm"}},
		}, Outputs: []string{"t", "sl", "ga", "cc", "ex", "rm", "am", "ab", "lt", "mm"}},
		[]BatchIn{{"x", []int{0, 2, 3}, 0}}})
	// matrix products with the weight on the LEFT of a stack of per-sample matrices, and a vector times the stack
	out = append(out, perSample{"matmul-left-weight", &GraphJ{
		Inputs: []VInfoJ{{Name: "x", Dt: "f32", Dims: []any{"N", 3, 2}}},
		Inits:  []InitJ{{Name: "wl", T: tinyT("f32", []int{2, 3}, 3)}, {Name: "v", T: tinyT("f32", []int{3}, 4)}, {Name: "wr", T: tinyT("f32", []int{2, 4}, 5)}, {Name: "w4", T: tinyT("f32", []int{1, 4, 3}, 6)}},
		Nodes: []NodeJ{
			{Op: "MatMul", Ins: []string{"wl", "x"}, Outs: []string{"lx"}},
			{Op: "MatMul", Ins: []string{"v", "x"}, Outs: []string{"vx"}},
			{Op: "MatMul", Ins: []string{"x", "wr"}, Outs: []string{"xr"}},
			{Op: "MatMul", Ins: []string{"w4", "x"}, Outs: []string{"w4x"}},
			{Op: "MatMul", Ins: []string{"lx", "wr"}, Outs: []string{"chain"}},
		}, Outputs: []string{"lx", "vx", "xr", "w4x", "chain"}},
		[]BatchIn{{"x", []int{0, 3, 2}, 0}}})
	// convolutions whose kernel is as large as the (padded) input - one output position per filter, the
	// "dense layer written as a Conv" - with more and with fewer filters than samples
	out = append(out, perSample{"conv-full-size", &GraphJ{
		Inputs: []VInfoJ{{Name: "x", Dt: "f32", Dims: []any{"N", 2, 3, 3}}},
		Inits: []InitJ{{Name: "w", T: tinyT("f32", []int{3, 2, 3, 3}, 5)}, {Name: "b", T: tinyT("f32", []int{3}, 6)}, {Name: "w5", T: tinyT("f32", []int{5, 2, 3, 3}, 7)},
			{Name: "wd", T: tinyT("f32", []int{2, 2, 2, 2}, 8)}, sh("fl", []int{0, 18})},
		Nodes: []NodeJ{
			{Op: "Conv", Ins: []string{"x", "w", "b"}, Outs: []string{"c"}},
			{Op: "Conv", Ins: []string{"x", "w5"}, Outs: []string{"c5"}},
			{Op: "Conv", Attrs: []Attr{{Name: "dilations", Type: "ints", Ints: []int64{2, 2}}}, Ins: []string{"x", "wd"}, Outs: []string{"cd"}},
			{Op: "Reshape", Ins: []string{"x", "fl"}, Outs: []string{"xf"}},
		}, Outputs: []string{"c", "c5", "cd", "xf"}},
		[]BatchIn{{"x", []int{0, 2, 3, 3}, 0}}})
	out = append(out, perSample{"conv1d-full-size", &GraphJ{
		Inputs: []VInfoJ{{Name: "x", Dt: "f32", Dims: []any{"N", 2, 4}}},
		Inits:  []InitJ{{Name: "w", T: tinyT("f32", []int{3, 2, 4}, 5)}, {Name: "b", T: tinyT("f32", []int{3}, 6)}},
		Nodes:  []NodeJ{{Op: "Conv", Ins: []string{"x", "w", "b"}, Outs: []string{"c"}}},
		Outputs: []string{"c"}},
		[]BatchIn{{"x", []int{0, 2, 4}, 0}}})
	// the batch axis is NOT axis 0: Softmax / LogSoftmax (with and without an axis attribute), reductions and
	// element-wise operators applied directly to the [seq, 1, batch, hidden] output of a recurrent node and
	// to sequence-major data
	out = append(out, perSample{"batch-axis-inside", &GraphJ{
		Inputs: []VInfoJ{{Name: "x", Dt: "f32", Dims: []any{3, "N", 2}}},
		Inits:  []InitJ{{Name: "W", T: tinyT("f32", []int{1, 2, 2}, 7)}, {Name: "R", T: tinyT("f32", []int{1, 2, 2}, 8)}},
		Nodes: []NodeJ{
			{Op: "RNN", Attrs: []Attr{{Name: "hidden_size", Type: "i", I: 2}, {Name: "activations", Type: "strings", Ss: []string{"relu"}}}, Ins: []string{"x", "W", "R"}, Outs: []string{"Y", "Yh"}},
			{Op: "Softmax", Ins: []string{"Y"}, Outs: []string{"s"}},
			{Op: "Softmax", Attrs: []Attr{{Name: "axis", Type: "i", I: 0}}, Ins: []string{"Y"}, Outs: []string{"s0"}},
			{Op: "LogSoftmax", Attrs: []Attr{{Name: "axis", Type: "i", I: -1}}, Ins: []string{"Y"}, Outs: []string{"ls"}},
			{Op: "Softmax", Ins: []string{"x"}, Outs: []string{"sx"}},
			{Op: "Softmax", Attrs: []Attr{{Name: "axis", Type: "i", I: 0}}, Ins: []string{"x"}, Outs: []string{"sx0"}},
			{Op: "ReduceMax", Attrs: []Attr{{Name: "axes", Type: "ints", Ints: []int64{0}}, {Name: "keepdims", Type: "i", I: 0}}, Ins: []string{"Y"}, Outs: []string{"rm"}},
			{Op: "ArgMax", Attrs: []Attr{{Name: "axis", Type: "i", I: 3}}, Ins: []string{"Y"}, Outs: []string{"am"}},
			{Op: "Tanh", Ins: []string{"Yh"}, Outs: []string{"th"}},
		}, Outputs: []string{"Y", "s", "s0", "ls", "sx", "sx0", "rm", "am", "th"}},
		[]BatchIn{{"x", []int{3, 0, 2}, 1}}})
	// reductions and index operators addressed with NEGATIVE axes on inputs of rank 3 and 5 (ranks that are
	// not a power of two), batch first
	out = append(out, perSample{"negative-axes", &GraphJ{
		Inputs: []VInfoJ{{Name: "x", Dt: "f32", Dims: []any{"N", 2, 3}}},
		Inits:  []InitJ{sh("s5", []int{0, 1, 2, 1, 3}), sh("ix", []int{2, 0}), sh("st", []int{1}), sh("en", []int{3}), sh("axm1", []int{-1})},
		Nodes: []NodeJ{
			{Op: "ReduceMax", Attrs: []Attr{{Name: "axes", Type: "ints", Ints: []int64{-1}}}, Ins: []string{"x"}, Outs: []string{"rm"}},
			{Op: "ReduceMin", Attrs: []Attr{{Name: "axes", Type: "ints", Ints: []int64{-2}}, {Name: "keepdims", Type: "i", I: 0}}, Ins: []string{"x"}, Outs: []string{"rn"}},
			{Op: "ReduceMax", Attrs: []Attr{{Name: "axes", Type: "ints", Ints: []int64{-1, -2}}, {Name: "keepdims", Type: "i", I: 0}}, Ins: []string{"x"}, Outs: []string{"r2"}},
			{Op: "ArgMax", Attrs: []Attr{{Name: "axis", Type: "i", I: -1}}, Ins: []string{"x"}, Outs: []string{"am"}},
			{Op: "ArgMax", Attrs: []Attr{{Name: "axis", Type: "i", I: -2}, {Name: "keepdims", Type: "i", I: 0}}, Ins: []string{"x"}, Outs: []string{"am2"}},
			{Op: "Reshape", Ins: []string{"x", "s5"}, Outs: []string{"x5"}},
			{Op: "ReduceMax", Attrs: []Attr{{Name: "axes", Type: "ints", Ints: []int64{-1}}}, Ins: []string{"x5"}, Outs: []string{"rm5"}},
			{Op: "ReduceMin", Attrs: []Attr{{Name: "axes", Type: "ints", Ints: []int64{-3, -1}}, {Name: "keepdims", Type: "i", I: 0}}, Ins: []string{"x5"}, Outs: []string{"rn5"}},
			{Op: "ArgMax", Attrs: []Attr{{Name: "axis", Type: "i", I: -3}}, Ins: []string{"x5"}, Outs: []string{"am5"}},
			{Op: "Gather", Attrs: []Attr{{Name: "axis", Type: "i", I: -1}}, Ins: []string{"x", "ix"}, Outs: []string{"ga"}},
			{Op: "Concat", Attrs: []Attr{{Name: "axis", Type: "i", I: -1}}, Ins: []string{"x", "x"}, Outs: []string{"cc"}},
			{Op: "Slice", Ins: []string{"x", "st", "en", "axm1"}, Outs: []string{"sl"}},
			{Op: "Softmax", Attrs: []Attr{{Name: "axis", Type: "i", I: -2}}, Ins: []string{"x"}, Outs: []string{"sm"}},
			{Op: "Flatten", Attrs: []Attr{{Name: "axis", Type: "i", I: -2}}, Ins: []string{"x5"}, Outs: []string{"fl"}},
		}, Outputs: []string{"rm", "rn", "r2", "am", "am2", "rm5", "rn5", "am5", "ga", "cc", "sl", "sm"}},
		[]BatchIn{{"x", []int{0, 2, 3}, 0}}})
	// TWO batched inputs combined element-wise, one of them with an extent of 1 BETWEEN the batch axis and another
	// non-unit axis ((N,1,C) against (N,T,C), (N,1,H,W) against (N,C,H,W), and a per-sample context (N,1,1) against
	// (N,T,C)): the stretched axis lies inside the sample, each sample is combined with its OWN context row
	out = append(out, perSample{"context-broadcast-inside-sample", &GraphJ{
		Inputs: []VInfoJ{{Name: "x", Dt: "f32", Dims: []any{"N", 2, 4}}, {Name: "z", Dt: "f32", Dims: []any{"N", 1, 4}}, {Name: "q", Dt: "f32", Dims: []any{"N", 1, 1}},
			{Name: "im", Dt: "f32", Dims: []any{"N", 2, 2, 3}}, {Name: "m", Dt: "f32", Dims: []any{"N", 1, 2, 3}}},
		Nodes: []NodeJ{
			{Op: "Add", Ins: []string{"x", "z"}, Outs: []string{"a"}}, {Op: "Mul", Ins: []string{"z", "x"}, Outs: []string{"b"}},
			{Op: "Sub", Ins: []string{"x", "q"}, Outs: []string{"c"}}, {Op: "Mul", Ins: []string{"im", "m"}, Outs: []string{"d"}},
			{Op: "Add", Ins: []string{"m", "im"}, Outs: []string{"f"}}, {Op: "Greater", Ins: []string{"x", "z"}, Outs: []string{"gt"}},
			{Op: "PRelu", Ins: []string{"x", "z"}, Outs: []string{"pr"}},
		}, Outputs: []string{"a", "b", "c", "d", "f", "pr"}},
		[]BatchIn{{"x", []int{0, 2, 4}, 0}, {"z", []int{0, 1, 4}, 0}, {"q", []int{0, 1, 1}, 0}, {"im", []int{0, 2, 2, 3}, 0}, {"m", []int{0, 1, 2, 3}, 0}}})
	// recurrent operators: batch is axis 1 of X and of the states
	for _, op := range []string{"RNN", "GRU", "LSTM", "GRU-lbr", "LSTM-peep"} {
		G := map[string]int{"LSTM": 4, "GRU": 3, "RNN": 1, "GRU-lbr": 3, "LSTM-peep": 4}[op]
		acts := make([]string, map[string]int{"LSTM": 3, "GRU": 2, "RNN": 1, "GRU-lbr": 2, "LSTM-peep": 3}[op])
		for i := range acts {
			acts[i] = "relu"
		}
		ins := []string{"x", "W", "R", "B", "", "h0"}
		outs := []string{"Y", "Yh"}
		vin := []VInfoJ{{Name: "x", Dt: "f32", Dims: []any{3, "N", 2}}, {Name: "h0", Dt: "f32", Dims: []any{1, "N", 2}}}
		bins := []BatchIn{{"x", []int{3, 0, 2}, 1}, {"h0", []int{1, 0, 2}, 1}}
		if op == "LSTM" || op == "LSTM-peep" {
			ins = append(ins, "c0")
			outs = append(outs, "Yc")
			vin = append(vin, VInfoJ{Name: "c0", Dt: "f32", Dims: []any{1, "N", 2}})
			bins = append(bins, BatchIn{"c0", []int{1, 0, 2}, 1})
		}
		if op == "LSTM-peep" {
			ins = append(ins, "P")
		}
		attrs := []Attr{{Name: "hidden_size", Type: "i", I: 2}, {Name: "activations", Type: "strings", Ss: acts}}
		name := op
		if op == "GRU-lbr" {
			op = "GRU"
			attrs = append(attrs, Attr{Name: "linear_before_reset", Type: "i", I: 1})
		}
		if op == "LSTM-peep" {
			op = "LSTM"
		}
		out = append(out, perSample{"rec-" + name, &GraphJ{Inputs: vin,
			Inits: []InitJ{{Name: "W", T: tinyT("f32", []int{1, G * 2, 2}, 7)}, {Name: "R", T: tinyT("f32", []int{1, G * 2, 2}, 8)}, {Name: "B", T: tinyT("f32", []int{1, 2 * G * 2}, 9)}, {Name: "P", T: vals("f32", []int{1, 6}, 1, -1, 2, 0, -2, 1)}},
			Nodes: []NodeJ{{Op: op, Attrs: attrs, Ins: ins, Outs: outs}},
			Outputs: outs}, bins})
	}
	return out
}
