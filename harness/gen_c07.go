package main

func init() {
	gens["C07"] = genC07
	exampleCases["Flatten"] = &Case{Op: "Flatten", Attrs: []Attr{{Name: "axis", Type: "i", I: 2}}, Inputs: []*TJ{iota1("f32", 2, 3, 2)}}
	exampleCases["Reshape"] = &Case{Op: "Reshape", Inputs: []*TJ{iota1("f32", 2, 3), vals("i64", []int{2}, 3, 2)}}
	exampleCases["Squeeze"] = &Case{Op: "Squeeze", Inputs: []*TJ{iota1("f32", 1, 3), vals("i64", []int{1}, 0)}}
	exampleCases["Unsqueeze"] = &Case{Op: "Unsqueeze", Inputs: []*TJ{iota1("f32", 3), vals("i64", []int{1}, 0)}}
}

func i64T(v []int) *TJ {
	d := make([]any, len(v))
	for i := range v {
		d[i] = float64(v[i])
	}
	return &TJ{Dt: "i64", Shape: []int{len(v)}, Data: d}
}

// intLists enumerates all lists over alphabet of length 0..maxLen.
func intLists(alphabet []int, maxLen int) [][]int {
	out := [][]int{{}}
	prev := [][]int{{}}
	for l := 1; l <= maxLen; l++ {
		var cur [][]int
		for _, p := range prev {
			for _, a := range alphabet {
				cur = append(cur, append(append([]int{}, p...), a))
			}
		}
		out = append(out, cur...)
		prev = cur
	}
	return out
}

func rangeInts(lo, hi int) []int {
	var r []int
	for i := lo; i <= hi; i++ {
		r = append(r, i)
	}
	return r
}

func genC07(e *emitter, tier string) {
	// the shape operators as a MODEL delivers them (load + Run): results of rank 0 (Squeeze of every axis) stay
	// rank 0 as graph outputs, a Reshape whose target is a weight with 0 (copy the extent) and -1 loads and runs,
	// Flatten / Unsqueeze / Shape next to them
	{
		ini := func(name string, v ...int) InitJ { return InitJ{Name: name, T: idxT("i64", []int{len(v)}, v)} }
		g := &GraphJ{Inputs: []VInfoJ{{Name: "a", Dt: "f32", Dims: []any{1, 1}}, {Name: "b", Dt: "f32", Dims: []any{1, 1, 1}}, {Name: "c", Dt: "f32", Dims: []any{1}}, {Name: "m", Dt: "f32", Dims: []any{2, 3, 4}}},
			Inits: []InitJ{ini("ax3", -1, 0, 1), ini("ax0", 0), ini("t0m1", 0, -1), ini("t00m1", 0, 0, -1), ini("tm10", -1, 0), ini("u0", 0)},
			Nodes: []NodeJ{
				{Op: "Squeeze", Ins: []string{"a"}, Outs: []string{"s0"}}, {Op: "Squeeze", Ins: []string{"b", "ax3"}, Outs: []string{"s1"}},
				{Op: "Squeeze", Ins: []string{"c", "ax0"}, Outs: []string{"s2"}},
				{Op: "Reshape", Ins: []string{"m", "t0m1"}, Outs: []string{"r1"}}, {Op: "Reshape", Ins: []string{"m", "t00m1"}, Outs: []string{"r2"}},
				{Op: "Reshape", Ins: []string{"m", "tm10"}, Outs: []string{"r3"}},
				{Op: "Unsqueeze", Ins: []string{"s0", "u0"}, Outs: []string{"u"}}, {Op: "Shape", Ins: []string{"r1"}, Outs: []string{"sh"}},
				{Op: "Flatten", Attrs: []Attr{{Name: "axis", Type: "i", I: 2}}, Ins: []string{"m"}, Outs: []string{"f"}},
			}, Outputs: []string{"s0", "s1", "s2", "r1", "r2", "r3", "u", "sh", "f"}}
		e.emit(graphCase("shape-ops-through-run", g, []NamedT{{"a", vals("f32", []int{1, 1}, 5)}, {"b", vals("f32", []int{1, 1, 1}, 6)}, {"c", vals("f32", []int{1}, 7)}, {"m", seqT("f32", []int{2, 3, 4}, func(i int) float64 { return float64(i) })}}))
	}
	R, E := 3, 3
	tlen := 3
	if tier == "thorough" {
		R, E, tlen = 4, 3, 4
	}
	shapes := allShapes(R, E)
	shapes = append(shapes, []int{2, 1, 3, 1, 2}, []int{1, 1, 1, 1, 1}, []int{1, 2, 1, 2, 1})
	dts := []string{"f32", "i64", "bool", "f64", "i32", "u8", "u16", "u32", "u64", "i8", "i16", "str", "c64", "c128"}
	k := 0
	data := func(s []int) *TJ {
		dt := dts[k%len(dts)]
		k++
		if dt == "bool" {
			return seqT(dt, s, func(i int) float64 { return float64(i % 2) })
		}
		return seqT(dt, s, func(i int) float64 { return float64(i + 1) })
	}
	targets := intLists([]int{-1, 0, 1, 2, 3, 4, 6}, tlen)
	for _, s := range shapes {
		// Shape
		e.emit(opCase("shape", "Shape", nil, []*TJ{data(s)}, nil))
		// Reshape: all targets (sub-sampled for the larger inputs in quick)
		for ti, t := range targets {
			if tier != "thorough" && len(s) == 3 && ti%4 != k%4 {
				continue
			}
			e.emit(opCase("reshape", "Reshape", nil, []*TJ{data(s), i64T(t)}, nil))
		}
		e.emit(opCase("reshape-special", "Reshape", nil, []*TJ{data(s), i64T([]int{-2, 1})}, nil))
		e.emit(opCase("reshape-special", "Reshape", nil, []*TJ{data(s), i64T([]int{nelem(s), -2})}, nil))
		e.emit(opCase("reshape-special", "Reshape", nil, []*TJ{data(s), i64T([]int{-1, -2})}, nil))
		e.emit(opCase("reshape-special", "Reshape", nil, []*TJ{data(s), i64T([]int{-2, -nelem(s)})}, nil))
		e.emit(opCase("reshape-special", "Reshape", nil, []*TJ{data(s), i64T([]int{-1, -1})}, nil))
		e.emit(opCase("reshape-special", "Reshape", nil, []*TJ{data(s), vals("i64", []int{}, float64(nelem(s)))}, nil))
		e.emit(opCase("reshape-special", "Reshape", nil, []*TJ{data(s), {Dt: "i64", Shape: []int{1, 1}, Data: []any{float64(nelem(s))}}}, nil))
		// Flatten: every axis in [-r-2, r+2] and the default
		r := len(s)
		e.emit(opCase("flatten", "Flatten", nil, []*TJ{data(s)}, nil))
		for a := -r - 2; a <= r+2; a++ {
			e.emit(opCase("flatten", "Flatten", []Attr{{Name: "axis", Type: "i", I: int64(a)}}, []*TJ{data(s)}, nil))
		}
		// Squeeze: no axes, every axes list over [-r-1, r] of length <= 2 (3 in thorough)
		e.emit(opCase("squeeze", "Squeeze", nil, []*TJ{data(s)}, nil))
		e.emit(opCase("squeeze", "Squeeze", nil, []*TJ{data(s), nil}, nil))
		al := 2
		if tier == "thorough" {
			al = 3
		}
		for _, ax := range intLists(rangeInts(-r-1, r), al) {
			e.emit(opCase("squeeze", "Squeeze", nil, []*TJ{data(s), i64T(ax)}, nil))
		}
		e.emit(opCase("squeeze-special", "Squeeze", nil, []*TJ{data(s), vals("i64", []int{}, 0)}, nil))
		// Unsqueeze: every axes list of length 1..2 over [-R-1, R]
		for l := 1; l <= 3; l++ {
			RR := r + l
			for _, ax := range intLists(rangeInts(-RR-1, RR), l) {
				if len(ax) != l {
					continue
				}
				if l == 3 {
					norm := func(a int) int {
						if a < 0 {
							return a + RR
						}
						return a
					}
					// always: duplicates that are not neighbours in the caller's order; otherwise a sample
					sepDup := norm(ax[0]) == norm(ax[2]) && norm(ax[1]) != norm(ax[0])
					if tier == "thorough" {
						if !sepDup && (ax[0]+ax[1]+ax[2]+k)%3 != 0 {
							continue
						}
					} else if r > 2 || (!sepDup && (ax[0]*7+ax[1]*3+ax[2]+k)%11 != 0) {
						continue
					}
				}
				e.emit(opCase("unsqueeze", "Unsqueeze", nil, []*TJ{data(s), i64T(ax)}, nil))
			}
		}
		e.emit(opCase("unsqueeze-special", "Unsqueeze", nil, []*TJ{data(s), vals("i64", []int{}, 0)}, nil))
		e.emit(opCase("unsqueeze-special", "Unsqueeze", nil, []*TJ{data(s), i64T(nil)}, nil))
	}
	// attribute errors
	e.emit(opCase("attrs", "Flatten", []Attr{{Name: "axes", Type: "i", I: 1}}, []*TJ{iota1("f32", 2, 3)}, nil))
	// wrong dtype for the shape / axes tensor (gate)
	e.emit(opCase("gate", "Reshape", nil, []*TJ{iota1("f32", 2, 3), vals("i32", []int{2}, 3, 2)}, nil))
	e.emit(opCase("gate", "Squeeze", nil, []*TJ{iota1("f32", 1, 3), vals("i32", []int{1}, 0)}, nil))
}
