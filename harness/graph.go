package main

import (
	"fmt"

	"github.com/advancedclimatesystems/gonnx"
	"github.com/advancedclimatesystems/gonnx/onnx"
	"google.golang.org/protobuf/proto"
)

// GraphJ is the JSON form of a generated model.
type GraphJ struct {
	Nodes   []NodeJ  `json:"nodes"`
	Inputs  []VInfoJ `json:"inputs"`
	Outputs []string `json:"outputs"`
	Inits   []InitJ  `json:"inits"`
	Opsets  []OpsetJ `json:"opsets,omitempty"` // nil => [{"", 13}]
	NoGraph bool     `json:"nograph,omitempty"`
}

type OpsetJ struct {
	Domain  string `json:"domain"`
	Version int64  `json:"version"`
}

type NodeJ struct {
	Op    string   `json:"op"`
	Attrs []Attr   `json:"attrs,omitempty"`
	Ins   []string `json:"ins"`
	Outs  []string `json:"outs"`
	Name  string   `json:"name,omitempty"`
}

// VInfoJ declares a graph input. Dims entries: number = fixed size (0 = unspecified), string = symbolic.
// NoShape: the value info carries no tensor type / shape at all.
type VInfoJ struct {
	Name    string `json:"name"`
	Dt      string `json:"dt"`
	Dims    []any  `json:"dims"`
	NoShape bool   `json:"noshape,omitempty"`
	// how the shape is missing (NoShape): "" = no type at all, "tensor" = a non-tensor type,
	// "shape" = tensor type without shape, "dims" = a shape with no dimensions
	How string `json:"how,omitempty"`
}

type InitJ struct {
	Name string `json:"name"`
	T    *TJ    `json:"t"`
	Raw  bool   `json:"raw,omitempty"`
}

func mkValueInfo(v VInfoJ) *onnx.ValueInfoProto {
	vi := &onnx.ValueInfoProto{Name: v.Name}
	if v.NoShape {
		switch v.How {
		case "tensor":
			vi.Type = &onnx.TypeProto{Value: &onnx.TypeProto_SequenceType{SequenceType: &onnx.TypeProto_Sequence{}}}
		case "shape":
			vi.Type = &onnx.TypeProto{Value: &onnx.TypeProto_TensorType{TensorType: &onnx.TypeProto_Tensor{ElemType: 1}}}
		case "dims":
			vi.Type = &onnx.TypeProto{Value: &onnx.TypeProto_TensorType{TensorType: &onnx.TypeProto_Tensor{ElemType: 1, Shape: &onnx.TensorShapeProto{}}}}
		}
		return vi
	}
	sh := &onnx.TensorShapeProto{}
	for _, d := range v.Dims {
		switch x := d.(type) {
		case string:
			sh.Dim = append(sh.Dim, &onnx.TensorShapeProto_Dimension{Value: &onnx.TensorShapeProto_Dimension_DimParam{DimParam: x}})
		case nil:
			sh.Dim = append(sh.Dim, &onnx.TensorShapeProto_Dimension{})
		default:
			sh.Dim = append(sh.Dim, &onnx.TensorShapeProto_Dimension{Value: &onnx.TensorShapeProto_Dimension_DimValue{DimValue: toI(x)}})
		}
	}
	et := onnxCode[v.Dt]
	if et == 0 {
		et = 1
	}
	vi.Type = &onnx.TypeProto{Value: &onnx.TypeProto_TensorType{TensorType: &onnx.TypeProto_Tensor{ElemType: et, Shape: sh}}}
	return vi
}

func buildModelProto(g *GraphJ) *onnx.ModelProto {
	mp := &onnx.ModelProto{IrVersion: 7}
	if g.Opsets == nil {
		mp.OpsetImport = []*onnx.OperatorSetIdProto{{Domain: "", Version: 13}}
	} else {
		for _, o := range g.Opsets {
			mp.OpsetImport = append(mp.OpsetImport, &onnx.OperatorSetIdProto{Domain: o.Domain, Version: o.Version})
		}
	}
	if g.NoGraph {
		return mp
	}
	gp := &onnx.GraphProto{Name: "g"}
	for _, n := range g.Nodes {
		np := mkNode(n.Op, n.Attrs, n.Ins, n.Outs)
		// node names are optional in ONNX and need not be unique: unnamed nodes, nodes that share one name
		// (also across operator types) and uniquely named nodes occur in every generated graph
		switch {
		case n.Name != "":
			np.Name = n.Name
		case len(gp.Node)%4 == 1 || len(gp.Node)%4 == 3:
			np.Name = "node"
		case len(gp.Node)%4 == 2:
			np.Name = fmt.Sprintf("%s_%d", n.Op, len(gp.Node))
		}
		gp.Node = append(gp.Node, np)
	}
	for _, v := range g.Inputs {
		gp.Input = append(gp.Input, mkValueInfo(v))
	}
	for _, o := range g.Outputs {
		gp.Output = append(gp.Output, &onnx.ValueInfoProto{Name: o})
	}
	for _, i := range g.Inits {
		gp.Initializer = append(gp.Initializer, mkTensorProto(i.Name, i.T, i.Raw))
	}
	mp.Graph = gp
	return mp
}

// loadModel goes through the same path a user does: bytes -> NewModelFromBytes.
func loadModel(g *GraphJ) (*gonnx.Model, error) {
	b, err := proto.Marshal(buildModelProto(g))
	if err != nil {
		return nil, fmt.Errorf("marshal: %w", err)
	}
	return gonnx.NewModelFromBytes(b)
}
