package main

// GraphJ is the JSON form of a generated model (filled in by the graph streams).
type GraphJ struct {
	Nodes   []NodeJ         `json:"nodes"`
	Inputs  []VInfoJ        `json:"inputs"`
	Outputs []string        `json:"outputs"`
	Inits   []InitJ         `json:"inits"`
	Opsets  [][2]any        `json:"opsets,omitempty"`
}

type NodeJ struct {
	Op    string   `json:"op"`
	Attrs []Attr   `json:"attrs,omitempty"`
	Ins   []string `json:"ins"`
	Outs  []string `json:"outs"`
}

type VInfoJ struct {
	Name string `json:"name"`
	Dt   string `json:"dt"`
	Dims []any  `json:"dims"` // int = fixed, string = symbolic, nil = unspecified; whole list nil = no shape info
	NoShape bool `json:"noshape,omitempty"`
}

type InitJ struct {
	Name string `json:"name"`
	T    *TJ    `json:"t"`
	Raw  bool   `json:"raw,omitempty"`
}
