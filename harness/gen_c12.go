package main

import (
	"fmt"
	"github.com/advancedclimatesystems/gonnx"
	"math"
	"reflect"

	"github.com/advancedclimatesystems/gonnx/onnx"
	"google.golang.org/protobuf/proto"
	"gorgonia.org/tensor"
)

func init() { gens["C12"] = genC12 }

// TPJ is the JSON form of a TensorProto for the decoder cases: floats are given as bit patterns.
type TPJ struct {
	DataType int32    `json:"data_type"`
	Dims     []int64  `json:"dims"`
	Float    []uint32 `json:"float_data,omitempty"`
	Int32    []int32  `json:"int32_data,omitempty"`
	Int64    []int64  `json:"int64_data,omitempty"`
	Double   []uint64 `json:"double_data,omitempty"`
	Uint64   []uint64 `json:"uint64_data,omitempty"`
	Raw      []int    `json:"raw,omitempty"`
	HasRaw   bool     `json:"has_raw,omitempty"`
	// the fields that carry nothing are EMPTY, non-nil slices (a TensorProto built in Go, proto.Equal to the
	// one with nil fields): not part of the JSON - the model sees the same tensor
	EmptyFields bool `json:"-"`
}

func (t *TPJ) proto() *onnx.TensorProto {
	tp := &onnx.TensorProto{DataType: t.DataType, Dims: t.Dims, Int32Data: t.Int32, Int64Data: t.Int64, Uint64Data: t.Uint64}
	for _, b := range t.Float {
		tp.FloatData = append(tp.FloatData, math.Float32frombits(b))
	}
	for _, b := range t.Double {
		tp.DoubleData = append(tp.DoubleData, math.Float64frombits(b))
	}
	if t.HasRaw || len(t.Raw) > 0 {
		tp.RawData = make([]byte, len(t.Raw))
		for i, b := range t.Raw {
			tp.RawData[i] = byte(b)
		}
	}
	if t.EmptyFields {
		if tp.FloatData == nil {
			tp.FloatData = []float32{}
		}
		if tp.Int32Data == nil {
			tp.Int32Data = []int32{}
		}
		if tp.Int64Data == nil {
			tp.Int64Data = []int64{}
		}
		if tp.DoubleData == nil {
			tp.DoubleData = []float64{}
		}
		if tp.Uint64Data == nil {
			tp.Uint64Data = []uint64{}
		}
		if tp.StringData == nil {
			tp.StringData = [][]byte{}
		}
		if tp.RawData == nil {
			tp.RawData = []byte{}
		}
	}
	return tp
}

// bitsOf returns the elements of a decoded tensor as unsigned bit patterns of the element width.
func bitsOf(t tensor.Tensor) (dt string, bits []uint64, ok bool) {
	defer func() {
		if r := recover(); r != nil {
			ok = false
		}
	}()
	dt = dtName(t.Dtype())
	data := t.Data()
	rv := reflect.ValueOf(data)
	if rv.Kind() != reflect.Slice {
		rv = reflect.ValueOf([]any{data})
	}
	for i := 0; i < rv.Len(); i++ {
		switch x := rv.Index(i).Interface().(type) {
		case float32:
			bits = append(bits, uint64(math.Float32bits(x)))
		case float64:
			bits = append(bits, math.Float64bits(x))
		case int8:
			bits = append(bits, uint64(uint8(x)))
		case int16:
			bits = append(bits, uint64(uint16(x)))
		case int32:
			bits = append(bits, uint64(uint32(x)))
		case int64:
			bits = append(bits, uint64(x))
		case uint8:
			bits = append(bits, uint64(x))
		case uint16:
			bits = append(bits, uint64(x))
		case uint32:
			bits = append(bits, uint64(x))
		case uint64:
			bits = append(bits, x)
		case bool:
			if x {
				bits = append(bits, 1)
			} else {
				bits = append(bits, 0)
			}
		default:
			return dt, nil, false
		}
	}
	return dt, bits, true
}

func decodeCase(stream string, t *TPJ) *Case {
	c := &Case{Kind: "decode", Stream: stream, P: map[string]any{"tp": t}}
	c.Impl = guard(func() *Result {
		out, err := onnx.TensorFromProto(t.proto())
		if err != nil {
			return errResult(err)
		}
		dt, bits, ok := bitsOf(out)
		if !ok {
			return &Result{Status: "ok", Extra: map[string]any{"dt": dt, "shape": []int(out.Shape()), "bits": nil}}
		}
		return &Result{Status: "ok", Extra: map[string]any{"dt": dt, "shape": append([]int{}, out.Shape()...), "bits": bits}}
	})
	return c
}

var codeWidth = map[int32]int{1: 4, 2: 1, 3: 1, 4: 2, 5: 2, 6: 4, 7: 8, 9: 1, 11: 8, 12: 4, 13: 8}

// patterns returns n interesting bit patterns of the given byte width.
func patterns(w, n int, seedv uint64) []uint64 {
	var mask uint64 = math.MaxUint64
	if w < 8 {
		mask = (uint64(1) << (8 * w)) - 1
	}
	// incl. quiet and SIGNALLING NaN payloads of both float widths (a float32 -> float64 -> float32 round trip sets the quiet bit)
	base := []uint64{1, 0, mask, mask >> 1, (mask >> 1) + 1, 0x0102030405060708 & mask, 2, 0x7fc00001 & mask, 0x7ff8000000000001 & mask, 0xff, 0x80,
		0x7f800001 & mask, 0x7fa00000 & mask, 0xffbfffff & mask, 0x7ff0000000000001 & mask, 0xfff7ffffffffffff & mask, 0x7ff4000000000000 & mask}
	out := make([]uint64, n)
	for i := range out {
		out[i] = base[(i+int(seedv))%len(base)]
	}
	return out
}

func leBytes(vals []uint64, w int) []int {
	var b []int
	for _, v := range vals {
		for i := 0; i < w; i++ {
			b = append(b, int(byte(v>>(8*i))))
		}
	}
	return b
}

// typedField fills the typed repeated field ONNX prescribes for the code with the given patterns.
func typedField(t *TPJ, code int32, vals []uint64) bool {
	switch code {
	case 1:
		for _, v := range vals {
			t.Float = append(t.Float, uint32(v))
		}
	case 11:
		t.Double = append(t.Double, vals...)
	case 7:
		for _, v := range vals {
			t.Int64 = append(t.Int64, int64(v))
		}
	case 12, 13:
		t.Uint64 = append(t.Uint64, vals...)
	case 2, 3, 4, 5, 6, 9:
		for _, v := range vals {
			w := codeWidth[code]
			var x int32
			switch {
			case code == 9:
				x = int32(v & 3) // 0,1,2,3: exercises the "== 1" conversion
			case code == 3:
				x = int32(int8(v))
			case code == 5:
				x = int32(int16(v))
			case w == 4:
				x = int32(uint32(v))
			default:
				x = int32(v)
			}
			t.Int32 = append(t.Int32, x)
		}
	default:
		return false
	}
	return true
}

func genC12(e *emitter, tier string) {
	for _, typed := range []bool{true, false} {
		for _, dt := range []string{"f32", "f64"} {
			e.emit(constantBitsCase(typed, dt))
		}
	}
	shapes := [][]int64{{}, {1}, {3}, {2, 2}, {1, 3}, {2, 1, 2}, {1, 2, 1, 2}, {2, 3}}
	if tier == "thorough" {
		for _, s := range allShapes(4, 3) {
			var d []int64
			for _, x := range s {
				d = append(d, int64(x))
			}
			shapes = append(shapes, d)
		}
	}
	k := uint64(0)
	for code := int32(0); code <= 17; code++ {
		for _, dims := range shapes {
			n := 1
			for _, d := range dims {
				n *= int(d)
			}
			w, known := codeWidth[code]
			if !known {
				w = 4
			}
			k++
			vals := patterns(w, n, k)
			// raw encoding, exact and perturbed lengths
			exact := leBytes(vals, w)
			e.emit(decodeCase("raw-exact", &TPJ{DataType: code, Dims: dims, Raw: exact, HasRaw: true}))
			e.emit(decodeCase("raw-exact:empty-slices", &TPJ{DataType: code, Dims: dims, Raw: exact, HasRaw: true, EmptyFields: true}))
			if len(exact) > 0 {
				e.emit(decodeCase("raw-short-byte", &TPJ{DataType: code, Dims: dims, Raw: exact[:len(exact)-1], HasRaw: true}))
				e.emit(decodeCase("raw-short-elem", &TPJ{DataType: code, Dims: dims, Raw: exact[:len(exact)-w], HasRaw: true}))
			}
			e.emit(decodeCase("raw-long-elem", &TPJ{DataType: code, Dims: dims, Raw: append(append([]int{}, exact...), leBytes([]uint64{7}, w)...), HasRaw: true}))
			e.emit(decodeCase("raw-long-byte", &TPJ{DataType: code, Dims: dims, Raw: append(append([]int{}, exact...), 9), HasRaw: true}))
			e.emit(decodeCase("empty", &TPJ{DataType: code, Dims: dims}))
			// typed encoding
			t := &TPJ{DataType: code, Dims: dims}
			if typedField(t, code, vals) {
				e.emit(decodeCase("typed-exact", t))
				te := *t
				te.EmptyFields = true
				e.emit(decodeCase("typed-exact:empty-slices", &te))
				if n > 0 {
					t2 := &TPJ{DataType: code, Dims: dims}
					typedField(t2, code, vals[:n-1])
					e.emit(decodeCase("typed-short", t2))
				}
				t3 := &TPJ{DataType: code, Dims: dims}
				typedField(t3, code, append(append([]uint64{}, vals...), 5))
				e.emit(decodeCase("typed-long", t3))
			}
			// BOTH encodings populated: consistent; the raw bytes fit the dims and the typed field does not; the
			// reverse; both fit but hold different values
			if n > 0 {
				other := patterns(w, n, k+77)
				for bi, pr := range [][2][]uint64{{vals, vals}, {vals, append(append([]uint64{}, vals...), 5)}, {vals[:n-1], vals}, {vals, other}, {append(append([]uint64{}, vals...), 5), vals[:n-1]}} {
					tb := &TPJ{DataType: code, Dims: dims, Raw: leBytes(pr[0], w), HasRaw: true}
					if typedField(tb, code, pr[1]) {
						e.emit(decodeCase([]string{"both-consistent", "both-typed-long", "both-raw-short", "both-differ", "both-wrong"}[bi], tb))
					}
				}
			}
			// every typed field populated under every code (incl. codes the library cannot represent)
			for f := 0; f < 5; f++ {
				t := &TPJ{DataType: code, Dims: dims}
				switch f {
				case 0:
					for _, v := range vals {
						t.Float = append(t.Float, uint32(v))
					}
				case 1:
					for _, v := range vals {
						t.Int32 = append(t.Int32, int32(uint32(v)))
					}
				case 2:
					for _, v := range vals {
						t.Int64 = append(t.Int64, int64(v))
					}
				case 3:
					t.Double = append(t.Double, vals...)
				case 4:
					t.Uint64 = append(t.Uint64, vals...)
				}
				e.emit(decodeCase("field-x-code", t))
			}
		}
	}
	// negative and huge dims
	e.emit(decodeCase("bad-dims", &TPJ{DataType: 1, Dims: []int64{-1}, Float: []uint32{1}}))
	e.emit(decodeCase("bad-dims", &TPJ{DataType: 1, Dims: []int64{2, -2}, Float: []uint32{1, 2, 3, 4}}))
	e.emit(decodeCase("bad-dims", &TPJ{DataType: 7, Dims: []int64{0}, Int64: []int64{}}))
	e.emit(decodeCase("bad-dims", &TPJ{DataType: 7, Dims: []int64{0, 3}, HasRaw: true}))
	// several initializers of one graph with byte-identical payloads but different declared shapes (and one
	// whose payload does not fit its dims): every initializer is decoded by its OWN declaration
	{
		f4 := seqT("f32", []int{2, 2}, func(i int) float64 { return float64(i + 1) })
		z := func(sh []int) *TJ { return idxT("i64", sh, make([]int, nelem(sh))) }
		inits := []InitJ{{Name: "w22", T: f4, Raw: true}, {Name: "w14", T: &TJ{Dt: "f32", Shape: []int{1, 4}, Data: f4.Data}, Raw: true},
			{Name: "w4", T: &TJ{Dt: "f32", Shape: []int{4}, Data: f4.Data}, Raw: true}, {Name: "w41", T: &TJ{Dt: "f32", Shape: []int{4, 1}, Data: f4.Data}, Raw: true},
			{Name: "i0", T: z([]int{}), Raw: true}, {Name: "i1", T: z([]int{1}), Raw: true}, {Name: "i11", T: z([]int{1, 1}), Raw: true}}
		outs := []string{"w22", "w14", "w4", "w41", "i0", "i1", "i11"}
		for _, order := range [][]int{{0, 1, 2, 3, 4, 5, 6}, {6, 5, 4, 3, 2, 1, 0}, {2, 0, 3, 1, 5, 6, 4}} {
			var is []InitJ
			for _, k := range order {
				is = append(is, inits[k])
			}
			g := &GraphJ{Inputs: []VInfoJ{{Name: "x", Dt: "f32", Dims: []any{2}}}, Inits: is,
				Nodes: []NodeJ{{Op: "Relu", Ins: []string{"x"}, Outs: []string{"y"}}}, Outputs: append([]string{"y"}, outs...)}
			e.emit(graphCase("identical-payloads", g, []NamedT{{"x", vals("f32", []int{2}, 1, -1)}}))
		}
	}
	// an initializer that is ALSO listed among the graph inputs, with a declaration of the same element count and
	// other extents / another rank (or the same): the weight keeps the shape ITS TensorProto declares
	for _, decl := range [][]any{{3, 2}, {1, 6}, {6}, {2, 3}, {6, 1}, {1, 2, 3}, {2, "N"}} {
		for _, raw := range []bool{false, true} {
			w := InitJ{Name: "w", T: seqT("f32", []int{2, 3}, func(i int) float64 { return float64(i) - 2 }), Raw: raw}
			g := &GraphJ{Inputs: []VInfoJ{{Name: "x", Dt: "f32", Dims: []any{2}}, {Name: "w", Dt: "f32", Dims: decl}}, Inits: []InitJ{w},
				Nodes: []NodeJ{{Op: "Relu", Ins: []string{"x"}, Outs: []string{"y"}}, {Op: "Abs", Ins: []string{"w"}, Outs: []string{"a"}}, {Op: "Shape", Ins: []string{"w"}, Outs: []string{"s"}},
					{Op: "Transpose", Attrs: []Attr{{Name: "perm", Type: "ints", Ints: []int64{1, 0}}}, Ins: []string{"w"}, Outs: []string{"t"}}},
				Outputs: []string{"y", "a", "s", "t"}}
			e.emit(graphCase("initializer-declared-as-input", g, []NamedT{{"x", vals("f32", []int{2}, 1, -1)}}))
		}
	}
	// whole models: one initializer among several that cannot be decoded (count mismatch, unsupported element
	// type, negative extent, no payload), at EVERY position of the list, next to well-formed ones: loading reports
	// the error whichever initializer it is and whatever follows it
	{
		mk := func(n int, bad int, how int) []byte {
			g := &GraphJ{Inputs: []VInfoJ{{Name: "x", Dt: "f32", Dims: []any{2}}},
				Nodes: []NodeJ{{Op: "Relu", Ins: []string{"x"}, Outs: []string{"y"}}}, Outputs: []string{"y"}}
			for i := 0; i < n; i++ {
				dt := []string{"f32", "i64", "f64", "i32"}[i%4]
				g.Inits = append(g.Inits, InitJ{Name: fmt.Sprintf("w%d", i), T: seqT(dt, []int{2, 1 + i%3}, func(k int) float64 { return float64(k + i) }), Raw: i%2 == 1})
			}
			mp := buildModelProto(g)
			if bad >= 0 {
				tp := mp.Graph.Initializer[bad]
				switch how {
				case 0:
					tp.Dims = []int64{3, 5}
				case 1:
					tp.DataType = 8 // string
				case 2:
					tp.Dims = []int64{-2, -1}
				case 3:
					tp.FloatData, tp.Int64Data, tp.DoubleData, tp.Int32Data, tp.RawData = nil, nil, nil, nil, nil
					tp.Dims = []int64{2, 2}
				case 4:
					tp.DataType = 10 // float16
				}
			}
			b, _ := proto.Marshal(mp)
			return b
		}
		for _, n := range []int{1, 2, 3, 5} {
			e.emit(loadCase("initializer-list", mk(n, -1, 0), fmt.Sprint(n, "all well-formed")))
			for bad := 0; bad < n; bad++ {
				for how := 0; how < 5; how++ {
					e.emit(loadCase("initializer-list", mk(n, bad, how), fmt.Sprint(n, bad, how)))
				}
			}
		}
	}
	// signed dims sweep: every tuple of rank 1..3 over small signed extents, with a payload of |product|
	// elements (a product of two negative dims is positive), typed and raw, two element types
	ext := []int64{-3, -2, -1, 0, 1, 2, 3}
	var tuples [][]int64
	for _, a := range ext {
		tuples = append(tuples, []int64{a})
		for _, b := range ext {
			tuples = append(tuples, []int64{a, b})
			for _, c := range ext {
				if tier == "thorough" || (a < 0 || b < 0 || c < 0) && (a+2*b+3*c)%3 == 0 {
					tuples = append(tuples, []int64{a, b, c})
				}
			}
		}
	}
	for _, d := range tuples {
		n := int64(1)
		for _, x := range d {
			n *= x
		}
		if n < 0 {
			n = -n
		}
		fl := make([]uint32, n)
		i6 := make([]int64, n)
		rawF := make([]int, 4*n)
		rawI := make([]int, 8*n)
		for i := range fl {
			fl[i] = f32bits(float32(i + 1))
			i6[i] = int64(i + 1)
			rawF[4*i+3] = 0x40
			rawI[8*i] = i + 1
		}
		e.emit(decodeCase("signed-dims", &TPJ{DataType: 1, Dims: d, Float: fl}))
		e.emit(decodeCase("signed-dims", &TPJ{DataType: 7, Dims: d, Int64: i6}))
		e.emit(decodeCase("signed-dims", &TPJ{DataType: 1, Dims: d, Raw: rawF, HasRaw: true}))
		e.emit(decodeCase("signed-dims", &TPJ{DataType: 7, Dims: d, Raw: rawI, HasRaw: true}))
	}
}

func f32bits(f float32) uint32 { return math.Float32bits(f) }
func f64bits(f float64) uint64 { return math.Float64bits(f) }

// constantBitsCase: a model with several Constant nodes whose payloads are equal as NUMBERS but not as bits
// (+0 / -0, NaNs of different sign and payload) and otherwise identical; every node must deliver ITS bits, on
// every Run. Judged on the implementation alone (kind "bits").
func constantBitsCase(typed bool, dt string) *Case {
	c := &Case{Kind: "bits", Stream: "constants-equal-as-numbers", P: map[string]any{"typed": typed, "dt": dt}}
	c.Impl = guard(func() *Result {
		var pats [][]uint64
		if dt == "f32" {
			pats = [][]uint64{{0x00000000, 0x7fc00001, 0x3f800000}, {0x80000000, 0xffc00002, 0x3f800000}, {0x00000000, 0x7fc00000, 0x3f800000}, {0x80000000, 0x7fc00001, 0x3f800000}}
		} else {
			pats = [][]uint64{{0, 0x7ff8000000000001, 0x3ff0000000000000}, {0x8000000000000000, 0xfff8000000000002, 0x3ff0000000000000}, {0, 0x7ff8000000000000, 0x3ff0000000000000}}
		}
		code, w := int32(1), 4
		if dt == "f64" {
			code, w = 11, 8
		}
		gp := &onnx.GraphProto{}
		var names []string
		for i, p := range pats {
			t := &TPJ{DataType: code, Dims: []int64{3}}
			if typed {
				typedField(t, code, p)
			} else {
				t.Raw, t.HasRaw = leBytes(p, w), true
			}
			nm := fmt.Sprintf("c%d", i)
			names = append(names, nm)
			gp.Node = append(gp.Node, &onnx.NodeProto{OpType: "Constant", Output: []string{nm}, Attribute: []*onnx.AttributeProto{{Name: "value", Type: onnx.AttributeProto_TENSOR, T: t.proto()}}})
			gp.Output = append(gp.Output, &onnx.ValueInfoProto{Name: nm})
		}
		mp := &onnx.ModelProto{Graph: gp, OpsetImport: []*onnx.OperatorSetIdProto{{Version: 13}}}
		m, err := gonnx.NewModel(mp)
		if err != nil {
			return errResult(err)
		}
		var bad []string
		for run := 0; run < 2; run++ {
			outs, err := m.Run(gonnx.Tensors{})
			if err != nil {
				return errResult(err)
			}
			for i, nm := range names {
				_, bits, ok := bitsOf(outs[nm])
				if !ok || fmt.Sprint(bits) != fmt.Sprint(pats[i]) {
					bad = append(bad, fmt.Sprintf("run %d, %s: bits %x, the node holds %x", run, nm, bits, pats[i]))
				}
			}
		}
		return &Result{Status: "ok", Extra: map[string]any{"mismatches": bad}}
	})
	return c
}
