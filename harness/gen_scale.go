package main

// SCALE probes (kind "scale"): an operator applied to a LARGE operand must give exactly what it gives on
// the operand's pieces (which are small enough to lie in the region the model correspondence covers).
// Implementations switch strategy with size (block-wise loops, worker pools above a threshold, one
// worker per core): sizes here cross 2^13, 2^15, 2^16 and 2^20, are not multiples of 4 / 8 / 16 / the core
// count, and the piece counts (17, 33) exceed the core count of the sandbox and are coprime to it.

import (
	"fmt"
	"math"

	"github.com/advancedclimatesystems/gonnx/onnx"
	"github.com/advancedclimatesystems/gonnx/ops/opset13"
	"gorgonia.org/tensor"
)

type scaleReport struct {
	What       string `json:"what"`
	N          int    `json:"n"`
	Pieces     int    `json:"pieces"`
	Mismatches int    `json:"mismatches"`
	First      string `json:"first,omitempty"`
}

func flat64(t tensor.Tensor) []float64 {
	d, err := dataList(t)
	if err != nil {
		return nil
	}
	o := make([]float64, len(d))
	for i, v := range d {
		o[i] = toF(v)
	}
	return o
}

func applyFresh(op string, attrs []Attr, ins []*TJ) (tensor.Tensor, error) {
	r := runOpRaw(op, attrs, ins)
	return r.t, r.err
}

type rawRes struct {
	t   tensor.Tensor
	err error
}

// runOpRaw: GetOperator + Init + ValidateInputs + Apply, first output as a tensor
func runOpRaw(name string, attrs []Attr, inputs []*TJ) (res rawRes) {
	defer func() {
		if p := recover(); p != nil {
			res = rawRes{nil, fmt.Errorf("panic: %v", p)}
		}
	}()
	ts := make([]tensor.Tensor, len(inputs))
	for i, t := range inputs {
		ts[i] = mkTensor(t)
	}
	out, err := applyOpTensors(name, attrs, ts)
	if err != nil {
		return rawRes{nil, err}
	}
	return rawRes{out[0], nil}
}

// scaleCase compares whole vs pieces. whole/pieces are built by the caller; join says how piece outputs
// are laid out in the whole output: pieces are concatenated along the OUTERMOST axis of the output unless
// chanAxis (axis 1) is requested.
func scaleCase(stream, op string, attrs []Attr, whole []*TJ, pieces [][]*TJ, chanAxis bool, n int) *Case {
	k := 0
	if chanAxis {
		k = 1
	}
	return scaleCaseAxis(stream, op, attrs, whole, pieces, k, n)
}

// scaleCaseAttrs: the pieces differ in their ATTRIBUTES (Constant: the value tensor); outputs joined along axis 0
func scaleCaseAttrs(stream, op string, attrs []Attr, pattrs [][]Attr, whole []*TJ, pieces [][]*TJ, n int) *Case {
	c := &Case{Kind: "scale", Stream: stream, Op: op, P: map[string]any{"n": n, "pieces": len(pieces), "whole_shapes": [][]int{{n}}}}
	c.Impl = guard(func() *Result {
		rep := scaleReport{What: op, N: n, Pieces: len(pieces)}
		w, err := applyFresh(op, attrs, whole)
		if err != nil {
			return &Result{Status: "error", Msg: "whole operand: " + err.Error(), ErrKind: "other"}
		}
		wf := flat64(w)
		var joined []float64
		for i, p := range pieces {
			o, err := applyFresh(op, pattrs[i], p)
			if err != nil {
				return &Result{Status: "error", Msg: "piece: " + err.Error(), ErrKind: "other"}
			}
			joined = append(joined, flat64(o)...)
		}
		if len(wf) != len(joined) {
			rep.Mismatches = 1
			rep.First = fmt.Sprintf("%d elements, the pieces give %d", len(wf), len(joined))
		} else {
			for i := range wf {
				if math.Float64bits(wf[i]) != math.Float64bits(joined[i]) {
					if rep.Mismatches == 0 {
						rep.First = fmt.Sprintf("element %d of %d: whole %v, from its piece %v", i, len(wf), wf[i], joined[i])
					}
					rep.Mismatches++
				}
			}
		}
		return &Result{Status: "ok", Extra: rep}
	})
	return c
}

// scaleCaseAxis: the piece outputs are joined along axis joinAxis of the output
func scaleCaseAxis(stream, op string, attrs []Attr, whole []*TJ, pieces [][]*TJ, joinAxis int, n int) *Case {
	chanAxis := joinAxis != 0
	c := &Case{Kind: "scale", Stream: stream, Op: op, Attrs: attrs, P: map[string]any{"n": n, "pieces": len(pieces), "whole_shapes": shapesOf(whole)}}
	c.Impl = guard(func() *Result {
		rep := scaleReport{What: op, N: n, Pieces: len(pieces)}
		w, err := applyFresh(op, attrs, whole)
		if err != nil {
			return &Result{Status: "error", Msg: "whole operand: " + err.Error(), ErrKind: "other"}
		}
		wf := flat64(w)
		var joined []float64
		if !chanAxis {
			for _, p := range pieces {
				o, err := applyFresh(op, attrs, p)
				if err != nil {
					return &Result{Status: "error", Msg: "piece: " + err.Error(), ErrKind: "other"}
				}
				joined = append(joined, flat64(o)...)
			}
		} else {
			// outputs joined along axis joinAxis: [outer..., m_i, inner...]
			var outs [][]float64
			var ms []int
			var inner, batch int
			for _, p := range pieces {
				o, err := applyFresh(op, attrs, p)
				if err != nil {
					return &Result{Status: "error", Msg: "piece: " + err.Error(), ErrKind: "other"}
				}
				s := o.Shape()
				if joinAxis >= len(s) {
					return &Result{Status: "error", Msg: fmt.Sprintf("piece output has shape %v", s), ErrKind: "other"}
				}
				batch = 1
				for _, d := range s[:joinAxis] {
					batch *= d
				}
				ms = append(ms, s[joinAxis])
				inner = 1
				for _, d := range s[joinAxis+1:] {
					inner *= d
				}
				outs = append(outs, flat64(o))
			}
			for b := 0; b < batch; b++ {
				for i, o := range outs {
					joined = append(joined, o[b*ms[i]*inner:(b+1)*ms[i]*inner]...)
				}
			}
		}
		if len(joined) != len(wf) {
			rep.Mismatches = 1
			rep.First = fmt.Sprintf("sizes differ: whole %d, pieces %d", len(wf), len(joined))
			return &Result{Status: "ok", Extra: rep}
		}
		for i := range wf {
			if math.Float64bits(wf[i]) != math.Float64bits(joined[i]) && !(math.IsNaN(wf[i]) && math.IsNaN(joined[i])) {
				rep.Mismatches++
				if rep.First == "" {
					rep.First = fmt.Sprintf("element %d of %d: whole %v, from its piece %v", i, len(wf), wf[i], joined[i])
				}
			}
		}
		return &Result{Status: "ok", Extra: rep}
	})
	return c
}

func shapesOf(ts []*TJ) [][]int {
	var o [][]int
	for _, t := range ts {
		if t == nil {
			o = append(o, nil)
		} else {
			o = append(o, t.Shape)
		}
	}
	return o
}

// splitRows cuts a tensor along axis 0 into k nearly equal pieces
func splitRows(t *TJ, k int) []*TJ {
	rows := t.Shape[0]
	inner := nelem(t.Shape[1:])
	var out []*TJ
	for p := 0; p < k; p++ {
		lo, hi := rows*p/k, rows*(p+1)/k
		if hi == lo {
			continue
		}
		q := &TJ{Dt: t.Dt, Shape: append([]int{hi - lo}, t.Shape[1:]...)}
		if len(t.Bits) > 0 {
			q.Bits = append(q.Bits, t.Bits[lo*inner:hi*inner]...)
		}
		if len(t.Data) > 0 {
			q.Data = append(q.Data, t.Data[lo*inner:hi*inner]...)
		}
		out = append(out, q)
	}
	return out
}

// splitAxis cuts a tensor along axis k into parts nearly equal pieces
func splitAxis(t *TJ, k, parts int) []*TJ {
	if k == 0 {
		return splitRows(t, parts)
	}
	outer := nelem(t.Shape[:k])
	ext := t.Shape[k]
	inner := nelem(t.Shape[k+1:])
	var out []*TJ
	for p := 0; p < parts; p++ {
		lo, hi := ext*p/parts, ext*(p+1)/parts
		if hi == lo {
			continue
		}
		sh := append([]int{}, t.Shape...)
		sh[k] = hi - lo
		q := &TJ{Dt: t.Dt, Shape: sh}
		for o := 0; o < outer; o++ {
			a, b := (o*ext+lo)*inner, (o*ext+hi)*inner
			if len(t.Bits) > 0 {
				q.Bits = append(q.Bits, t.Bits[a:b]...)
			}
			if len(t.Data) > 0 {
				q.Data = append(q.Data, t.Data[a:b]...)
			}
		}
		out = append(out, q)
	}
	return out
}

// scaleDecodeCase: decoding a large tensor gives, element for element, what decoding its chunks gives
func scaleDecodeCase(code int32, raw bool, n int) *Case {
	c := &Case{Kind: "scale", Stream: "scale-decode", Op: "decode", P: map[string]any{"n": n, "pieces": 17, "data_type": code, "raw": raw, "whole_shapes": [][]int{{n}}}}
	c.Impl = guard(func() *Result {
		w := codeWidth[code]
		vals := make([]uint64, n)
		for i := range vals {
			vals[i] = uint64(i*2654435761+12345) & ((uint64(1) << (8*uint(w) - 2)) - 1)
			if code == 9 {
				vals[i] &= 1
			}
			if code == 1 && vals[i]&0x7f800000 == 0x7f800000 || code == 11 && vals[i]&0x7ff0000000000000 == 0x7ff0000000000000 {
				vals[i] = 1 // keep NaN / Inf payloads out of this stream (covered elsewhere)
			}
		}
		mk := func(v []uint64) *TPJ {
			t := &TPJ{DataType: code, Dims: []int64{int64(len(v))}}
			if raw {
				t.Raw, t.HasRaw = leBytes(v, w), true
			} else {
				typedField(t, code, v)
			}
			return t
		}
		rep := scaleReport{What: "decode", N: n, Pieces: 17}
		whole, err := onnx.TensorFromProto(mk(vals).proto())
		if err != nil {
			return &Result{Status: "error", Msg: "whole tensor: " + err.Error(), ErrKind: "other"}
		}
		_, wb, ok := bitsOf(whole)
		if !ok {
			return &Result{Status: "error", Msg: "whole tensor: element type not representable", ErrKind: "other"}
		}
		var joined []uint64
		for p := 0; p < 17; p++ {
			lo, hi := n*p/17, n*(p+1)/17
			t, err := onnx.TensorFromProto(mk(vals[lo:hi]).proto())
			if err != nil {
				return &Result{Status: "error", Msg: "chunk: " + err.Error(), ErrKind: "other"}
			}
			_, b, _ := bitsOf(t)
			joined = append(joined, b...)
		}
		if len(joined) != len(wb) {
			rep.Mismatches = 1
			rep.First = fmt.Sprintf("sizes differ: %d vs %d", len(wb), len(joined))
		}
		for i := 0; i < len(wb) && i < len(joined); i++ {
			if wb[i] != joined[i] {
				rep.Mismatches++
				if rep.First == "" {
					rep.First = fmt.Sprintf("element %d of %d: whole %#x, from its chunk %#x", i, n, wb[i], joined[i])
				}
			}
		}
		return &Result{Status: "ok", Extra: rep}
	})
	return c
}

func genScale(e *emitter, prop string, tier string) {
	sizes := []int{8195, 32771, 65539}
	if tier == "thorough" {
		sizes = append(sizes, 1<<20+3)
	}
	pat := func(dt string, n, m, o int) *TJ {
		return seqT(dt, []int{n}, func(i int) float64 { return float64((i*7+o)%m - m/2) })
	}
	switch prop {
	case "C12":
		// payloads beyond a mebibyte, raw (what exporters write for weights)
		for _, cn := range [][2]int{{1, 300007}, {11, 150001}, {7, 140003}, {6, 270001}} {
			e.emit(scaleDecodeCase(int32(cn[0]), true, cn[1]))
		}
		for _, n := range append(append([]int{}, sizes...), 257*257, 300*219+5) {
			for _, code := range []int32{1, 11, 6, 7, 3, 5, 2, 4, 12, 13, 9} {
				e.emit(scaleDecodeCase(code, true, n))
				if n <= 65539 {
					e.emit(scaleDecodeCase(code, false, n))
				}
			}
		}
	case "C03":
		for _, n := range sizes {
			for _, op := range []string{"Add", "Sub", "Mul", "Less", "Equal", "GreaterOrEqual", "And", "Or", "Xor"} {
				dt := "f32"
				if op == "And" || op == "Or" || op == "Xor" {
					dt = "bool"
				}
				a, b := pat(dt, n, 41, 1), pat(dt, n, 17, 3)
				if dt == "bool" {
					a = seqT("bool", []int{n}, func(i int) float64 { return float64((i / 3) % 2) })
					b = seqT("bool", []int{n}, func(i int) float64 { return float64(1 - (i/5)%2) })
				}
				pa, pb := splitRows(a, 17), splitRows(b, 17)
				var pieces [][]*TJ
				for i := range pa {
					pieces = append(pieces, []*TJ{pa[i], pb[i]})
				}
				e.emit(scaleCase("scale-elementwise", op, nil, []*TJ{a, b}, pieces, false, n))
				// a row operand broadcast over a matrix with n elements in all
				if n%3 != 0 {
					continue
				}
			}
			// matrix (r, 257) op row (257): pieces are row blocks
			r := n/257 + 1
			for _, op := range []string{"Add", "Mul", "Or"} {
				dt := "f32"
				if op == "Or" {
					dt = "bool"
				}
				a := seqT(dt, []int{r, 257}, func(i int) float64 { return float64((i / 7) % 2) })
				row := seqT(dt, []int{257}, func(i int) float64 { return float64((i / 3) % 2) })
				var pieces [][]*TJ
				for _, p := range splitRows(a, 17) {
					pieces = append(pieces, []*TJ{p, row})
				}
				e.emit(scaleCase("scale-broadcast-row", op, nil, []*TJ{a, row}, pieces, false, r*257))
			}
		}
	case "C10":
		for _, n := range sizes {
			for _, op := range append([]string{"Relu", "Abs", "Not"}, "Sigmoid", "Tanh", "Sin", "Asinh") {
				dt := "f32"
				x := seqT(dt, []int{n}, func(i int) float64 { return float64((i*7)%41-20) / 4 })
				if op == "Not" {
					x = seqT("bool", []int{n}, func(i int) float64 { return float64((i / 3) % 2) })
				}
				if op == "Sigmoid" || op == "Tanh" || op == "Sin" || op == "Asinh" {
					v := make([]float64, n)
					for i := range v {
						v[i] = float64((i*7)%41-20) / 4
					}
					x = fT("f32", []int{n}, v)
				}
				var pieces [][]*TJ
				for _, p := range splitRows(x, 17) {
					pieces = append(pieces, []*TJ{p})
				}
				e.emit(scaleCase("scale-elementwise", op, nil, []*TJ{x}, pieces, false, n))
			}
			x := pat("f32", n, 23, 0)
			sl := pat("f32", n, 5, 1)
			px, ps := splitRows(x, 17), splitRows(sl, 17)
			var pieces [][]*TJ
			for i := range px {
				pieces = append(pieces, []*TJ{px[i], ps[i]})
			}
			e.emit(scaleCase("scale-elementwise", "PRelu", nil, []*TJ{x, sl}, pieces, false, n))
		}
	case "C11":
		// a Constant holding more than a mebibyte (raw and typed), against the Constants of its 17 pieces
		for _, dn := range []struct {
			dt string
			n  int
		}{{"f32", 300007}, {"f64", 150001}, {"i64", 70001}} {
			x := seqT(dn.dt, []int{dn.n}, func(i int) float64 { return float64((i*7+3)%1013 - 500) })
			for _, raw := range []bool{true, false} {
				var pieces [][]*TJ
				var pattrs [][]Attr
				for _, p := range splitRows(x, 17) {
					pieces = append(pieces, []*TJ{})
					pattrs = append(pattrs, []Attr{{Name: "value", Type: "t", T: p, Raw: raw}})
				}
				e.emit(scaleCaseAttrs("scale-constant", "Constant", []Attr{{Name: "value", Type: "t", T: x, Raw: raw}}, pattrs, []*TJ{}, pieces, dn.n))
			}
		}
		for _, n := range sizes {
			for _, pr := range [][2]string{{"f32", "i32"}, {"i64", "f32"}, {"f64", "u16"}, {"i32", "i64"}, {"u16", "f64"}} {
				x := seqT(pr[0], []int{n}, func(i int) float64 { return float64(i%97 + 1) })
				var pieces [][]*TJ
				for _, p := range splitRows(x, 17) {
					pieces = append(pieces, []*TJ{p})
				}
				e.emit(scaleCase("scale-elementwise", "Cast", []Attr{{Name: "to", Type: "i", I: int64(onnxCode[pr[1]])}}, []*TJ{x}, pieces, false, n))
			}
		}
	case "C04":
		// batched MatMul: more matrices than cores, not a multiple of the core count, >= 2^20 multiply-adds
		for _, cfg := range [][4]int{{17, 40, 40, 40}, {33, 32, 33, 31}, {19, 8, 8, 8}} {
			nb, m, k, nn := cfg[0], cfg[1], cfg[2], cfg[3]
			a := seqT("f32", []int{nb, m, k}, func(i int) float64 { return float64((i*3+i/7+1)%7 - 3) })
			b := seqT("f32", []int{nb, k, nn}, func(i int) float64 { return float64((i*2+i/5+2)%5 - 2) })
			pa, pb := splitRows(a, nb), splitRows(b, nb)
			var pieces [][]*TJ
			for i := range pa {
				pieces = append(pieces, []*TJ{pa[i], pb[i]})
			}
			e.emit(scaleCase("scale-batched-matmul", "MatMul", nil, []*TJ{a, b}, pieces, false, nb*m*k*nn))
			// shared right-hand matrix
			w := seqT("f32", []int{k, nn}, func(i int) float64 { return float64((i*3+1)%5 - 2) })
			var p2 [][]*TJ
			for i := range pa {
				p2 = append(p2, []*TJ{pa[i], w})
			}
			e.emit(scaleCase("scale-batched-matmul", "MatMul", nil, []*TJ{a, w}, p2, false, nb*m*k*nn))
		}
		// a tall Gemm / MatMul: row blocks
		for _, rows := range []int{1027, 4099} {
			a := seqT("f32", []int{rows, 33}, func(i int) float64 { return float64((i*3+i/7+1)%7 - 3) })
			w := seqT("f32", []int{33, 17}, func(i int) float64 { return float64((i*2+i/5+2)%5 - 2) })
			cb := seqT("f32", []int{17}, func(i int) float64 { return float64(i%3 - 1) })
			var pm, pg [][]*TJ
			for _, p := range splitRows(a, 17) {
				pm = append(pm, []*TJ{p, w})
				pg = append(pg, []*TJ{p, w, cb})
			}
			e.emit(scaleCase("scale-rows", "MatMul", nil, []*TJ{a, w}, pm, false, rows*33*17))
			e.emit(scaleCase("scale-rows", "Gemm", []Attr{{Name: "alpha", Type: "f", F: 2}}, []*TJ{a, w, cb}, pg, false, rows*33*17))
		}
	case "C05":
		// more filters than cores (17, 33): each filter alone vs all filters at once; and many images
		for _, M := range []int{17, 33} {
			x := seqT("f32", []int{2, 2, 6, 7}, func(i int) float64 { return float64((i*3+i/7+1)%7 - 3) })
			w := seqT("f32", []int{M, 2, 3, 2}, func(i int) float64 { return float64((i*2+i/5+2)%5 - 2) })
			b := seqT("f32", []int{M}, func(i int) float64 { return float64(i%4 - 1) })
			pw, pb := splitRows(w, M), splitRows(b, M)
			var pieces [][]*TJ
			for i := range pw {
				pieces = append(pieces, []*TJ{x, pw[i], pb[i]})
			}
			e.emit(scaleCase("scale-filters", "Conv", []Attr{{Name: "strides", Type: "ints", Ints: []int64{1, 2}}}, []*TJ{x, w, b}, pieces, true, M))
			x1 := seqT("f32", []int{1, 2, 9}, func(i int) float64 { return float64((i*3+i/7+1)%7 - 3) })
			w1 := seqT("f32", []int{M, 2, 3}, func(i int) float64 { return float64((i*2+i/5+2)%5 - 2) })
			var p1 [][]*TJ
			for _, p := range splitRows(w1, M) {
				p1 = append(p1, []*TJ{x1, p})
			}
			e.emit(scaleCase("scale-filters", "Conv", nil, []*TJ{x1, w1}, p1, true, M))
		}
		for _, N := range []int{17, 33} {
			x := seqT("f32", []int{N, 1, 5, 5}, func(i int) float64 { return float64((i*3+i/7+1)%7 - 3) })
			w := seqT("f32", []int{2, 1, 2, 2}, func(i int) float64 { return float64((i*2+i/5+2)%5 - 2) })
			var pieces [][]*TJ
			for _, p := range splitRows(x, N) {
				pieces = append(pieces, []*TJ{p, w})
			}
			e.emit(scaleCase("scale-images", "Conv", nil, []*TJ{x, w}, pieces, false, N))
		}
	case "C08":
		// Gather: long index lists (pieces = chunks of the index list, joined along the gathered axis)
		for _, cfg := range []struct {
			s  []int
			ax int
			n  int
		}{{[]int{2, 5, 3}, 1, 40}, {[]int{3, 4, 2, 2}, 2, 100}, {[]int{7, 3}, 0, 70}, {[]int{2, 3, 6}, 2, 35}, {[]int{2, 5, 3}, -2, 33}} {
			x := seqT("f32", cfg.s, func(i int) float64 { return float64(i + 1) })
			ax := cfg.ax
			if ax < 0 {
				ax += len(cfg.s)
			}
			iv := make([]int, cfg.n)
			for j := range iv {
				iv[j] = (j*3 + j/4) % cfg.s[ax]
				if j%5 == 0 {
					iv[j] -= cfg.s[ax]
				}
			}
			whole := []*TJ{x, idxT("i64", []int{cfg.n}, iv)}
			var pieces [][]*TJ
			for lo := 0; lo < cfg.n; lo += 7 {
				hi := lo + 7
				if hi > cfg.n {
					hi = cfg.n
				}
				pieces = append(pieces, []*TJ{x, idxT("i64", []int{hi - lo}, iv[lo:hi])})
			}
			e.emit(scaleCaseAxis("scale-gather-indices", "Gather", []Attr{{Name: "axis", Type: "i", I: int64(cfg.ax)}}, whole, pieces, ax, cfg.n))
		}
		// wide blocks: pieces = column blocks of the data, joined along the last axis
		for _, w := range []int{4099, 8209} {
			x := seqT("f32", []int{3, w}, func(i int) float64 { return float64(i%1000 + 1) })
			ix := idxT("i64", []int{4}, []int{2, 0, 1, 1})
			var pg, ps, pt, pc, pe [][]*TJ
			// the second Concat operand differs from the first (joining x with itself would hide a mix-up)
			x2 := seqT("f32", []int{3, w}, func(i int) float64 { return float64(-(i%777 + 2)) })
			p2s := splitAxis(x2, 1, 17)
			for pi, p := range splitAxis(x, 1, 17) {
				pg = append(pg, []*TJ{p, ix})
				ps = append(ps, []*TJ{p, idxT("i64", []int{1}, []int{1}), idxT("i64", []int{1}, []int{3}), idxT("i64", []int{1}, []int{0})})
				pt = append(pt, []*TJ{p})
				pc = append(pc, []*TJ{p, p2s[pi]})
				pe = append(pe, []*TJ{p, idxT("i64", []int{3}, []int{2, 3, p.Shape[1]})})
			}
			e.emit(scaleCaseAxis("scale-wide-blocks", "Gather", []Attr{{Name: "axis", Type: "i", I: 0}}, []*TJ{x, ix}, pg, 1, 3*w))
			e.emit(scaleCaseAxis("scale-wide-blocks", "Slice", nil, []*TJ{x, idxT("i64", []int{1}, []int{1}), idxT("i64", []int{1}, []int{3}), idxT("i64", []int{1}, []int{0})}, ps, 1, 3*w))
			e.emit(scaleCaseAxis("scale-wide-blocks", "Transpose", []Attr{{Name: "perm", Type: "ints", Ints: []int64{1, 0}}}, []*TJ{x}, pt, 0, 3*w))
			e.emit(scaleCaseAxis("scale-wide-blocks", "Concat", []Attr{{Name: "axis", Type: "i", I: 0}}, []*TJ{x, x2}, pc, 1, 3*w))
			e.emit(scaleCaseAxis("scale-wide-blocks", "Expand", nil, []*TJ{x, idxT("i64", []int{3}, []int{2, 3, w})}, pe, 2, 3*w))
		}
	case "C09":
		// many lanes: reduce / argmax / softmax over axis 1 of (rows, 67): row blocks
		for _, rows := range []int{1027, 4099} {
			x := seqT("f32", []int{rows, 67}, func(i int) float64 { return float64((i*37+11)%1009 - 500) })
			for _, oc := range []struct {
				op    string
				attrs []Attr
			}{{"ReduceMax", []Attr{{Name: "axes", Type: "ints", Ints: []int64{1}}, {Name: "keepdims", Type: "i", I: 1}}},
				{"ReduceMin", []Attr{{Name: "axes", Type: "ints", Ints: []int64{-1}}, {Name: "keepdims", Type: "i", I: 1}}},
				{"ArgMax", []Attr{{Name: "axis", Type: "i", I: 1}, {Name: "keepdims", Type: "i", I: 1}}}} {
				var pieces [][]*TJ
				for _, p := range splitRows(x, 17) {
					pieces = append(pieces, []*TJ{p})
				}
				e.emit(scaleCase("scale-lanes", oc.op, oc.attrs, []*TJ{x}, pieces, false, rows*67))
			}
		}
	}
}

func applyOpTensors(name string, attrs []Attr, ts []tensor.Tensor) ([]tensor.Tensor, error) {
	op, err := opset13.GetOperator(name)
	if err != nil {
		return nil, err
	}
	inNames := make([]string, len(ts))
	for i := range ts {
		inNames[i] = fmt.Sprintf("in%d", i)
	}
	if err := op.Init(mkNode(name, attrs, inNames, []string{"out0"})); err != nil {
		return nil, err
	}
	vts, err := op.ValidateInputs(ts)
	if err != nil {
		return nil, err
	}
	return op.Apply(vts)
}
