package main

import (
	"fmt"
	"sync"

	"github.com/advancedclimatesystems/gonnx"
)

func init() { gens["C17"] = genC17 }

type concReport struct {
	Goroutines int    `json:"goroutines"`
	RunsEach   int    `json:"runs_each"`
	Loaders    int    `json:"loaders"`
	Mismatches int    `json:"mismatches"`
	Errors     int    `json:"errors"`
	Detail     string `json:"detail,omitempty"`
}

// concCase: G goroutines share ONE model, each performs K Runs with its own input tensors while L
// further goroutines keep loading models; every result is compared with the sequential baseline
// obtained from a fresh model. Built with -race, a data race is reported by the runtime on stderr.
func concCase(stream string, load func() (*gonnx.Model, error), desc any, inputsFor func(g, k int) []NamedT, G, K, L int) *Case {
	c := &Case{Kind: "concurrent", Stream: stream, P: map[string]any{"model": desc, "goroutines": G, "runs_each": K, "loaders": L}}
	c.Impl = guard(func() *Result {
		shared, err := load()
		if err != nil {
			r := errResult(err)
			r.Extra = "load"
			return r
		}
		got := make([][]string, G)
		var wg sync.WaitGroup
		start := make(chan struct{})
		for g := 0; g < G; g++ {
			got[g] = make([]string, K)
			wg.Add(1)
			go func(g int) {
				defer wg.Done()
				<-start
				for k := 0; k < K; k++ {
					r, _ := runModel(shared, shared.OutputNames(), inputsFor(g, k))
					got[g][k] = fmt.Sprintf("%s|%v", r.Status, flatten(r.Outs))
				}
			}(g)
		}
		loadErrs := make([]error, L)
		for l := 0; l < L; l++ {
			wg.Add(1)
			go func(l int) {
				defer wg.Done()
				<-start
				for k := 0; k < K; k++ {
					if _, err := load(); err != nil {
						loadErrs[l] = err
					}
				}
			}(l)
		}
		close(start)
		wg.Wait()
		// sequential baseline on a fresh model - computed AFTER the concurrent phase, so that the very first
		// use of any lazily initialised package-level state in this process happens under concurrency
		base, err := load()
		if err != nil {
			r := errResult(err)
			r.Extra = "load"
			return r
		}
		want := make([][]string, G)
		for g := 0; g < G; g++ {
			want[g] = make([]string, K)
			for k := 0; k < K; k++ {
				r, _ := runModel(base, base.OutputNames(), inputsFor(g, k))
				want[g][k] = fmt.Sprintf("%s|%v", r.Status, flatten(r.Outs))
			}
		}
		rep := concReport{Goroutines: G, RunsEach: K, Loaders: L}
		for g := 0; g < G; g++ {
			for k := 0; k < K; k++ {
				if got[g][k] != want[g][k] {
					rep.Mismatches++
					if rep.Detail == "" {
						rep.Detail = fmt.Sprintf("goroutine %d run %d: concurrent %.120s vs alone %.120s", g, k, got[g][k], want[g][k])
					}
				}
				if len(got[g][k]) >= 2 && got[g][k][:2] != "ok" {
					rep.Errors++
				}
			}
		}
		for _, e := range loadErrs {
			if e != nil {
				rep.Mismatches++
				rep.Detail += " concurrent load failed: " + e.Error()
			}
		}
		return &Result{Status: "ok", Extra: rep}
	})
	return c
}

func flatten(ts []*TJ) string {
	s := ""
	for _, t := range ts {
		if t == nil {
			s += "nil;"
			continue
		}
		s += fmt.Sprintf("%s%v%v;", t.Dt, t.Shape, t.Data)
	}
	return s
}

func genC17(e *emitter, tier string) {
	gs := []int{2, 8}
	K := 3
	if tier == "thorough" {
		gs = []int{2, 3, 4, 8, 16}
		K = 6
	}
	val := func(shape []int, g, k int) *TJ {
		return seqT("f32", shape, func(i int) float64 { return float64((i*3+g*5+k*7)%9-4) / 4 })
	}
	for _, G := range gs {
		e.emit(concCase("sample:gru", sampleModelLoader("gru.onnx"), "gru.onnx", func(g, k int) []NamedT {
			b := 1 + (g+k)%3
			return []NamedT{{"data_input", val([]int{b, 2, 3}, g, k)}, {"init_hidden", val([]int{1, b, 5}, g, k+1)}}
		}, G, K, 1))
		e.emit(concCase("sample:mlp", sampleModelLoader("mlp.onnx"), "mlp.onnx", func(g, k int) []NamedT {
			return []NamedT{{"data_input", val([]int{1 + (g+k)%4, 3}, g, k)}}
		}, G, K, 1))
		e.emit(concCase("sample:ndm", sampleModelLoader("ndm.onnx"), "ndm.onnx", func(g, k int) []NamedT {
			b := 1 + (g+k)%2
			return []NamedT{{"sensor_input", val([]int{b, 2, 4}, g, k)}, {"setpoint_input", val([]int{b, 1}, g, k+2)}}
		}, G, K, 1))
		e.emit(concCase("sample:scaler", sampleModelLoader("scaler.onnx"), "scaler.onnx", func(g, k int) []NamedT {
			return []NamedT{{"X", val([]int{2, 3}, g, k)}}
		}, G, K, 1))
		// every operator family that reads weights (Conv bias, recurrent state, reductions, pass-through, Constant)
		for _, hg := range weightRoutingGraphs() {
			g0 := hg.g
			ins := hg.ins
			e.emit(concCase("routing:"+hg.name, func() (*gonnx.Model, error) { return loadModel(g0) }, g0, func(g, k int) []NamedT {
				out := make([]NamedT, len(ins))
				for i, nt := range ins {
					out[i] = NamedT{nt.Name, seqT(nt.T.Dt, nt.T.Shape, func(j int) float64 { return float64((j+g+2*k)%5 - 2) })}
				}
				return out
			}, G, K, 1))
		}
		// LinearRegressor / Scaler attribute tensors share storage with the protobuf
		gml := &GraphJ{Inputs: []VInfoJ{{Name: "x", Dt: "f32", Dims: []any{"N", 3}}},
			Nodes: []NodeJ{
				{Op: "Scaler", Attrs: []Attr{{Name: "offset", Type: "floats", Fs: []float64{1, 2, 3}}, {Name: "scale", Type: "floats", Fs: []float64{2, 2, 2}}}, Ins: []string{"x"}, Outs: []string{"s"}},
				{Op: "LinearRegressor", Attrs: []Attr{{Name: "coefficients", Type: "floats", Fs: []float64{1, 0, -1, 2, 1, 0}}, {Name: "intercepts", Type: "floats", Fs: []float64{1, 2}}, {Name: "targets", Type: "i", I: 2}}, Ins: []string{"s"}, Outs: []string{"y"}},
			}, Outputs: []string{"y", "s"}}
		e.emit(concCase("ml-attrs", func() (*gonnx.Model, error) { return loadModel(gml) }, gml, func(g, k int) []NamedT {
			return []NamedT{{"x", val([]int{1 + (g+k)%3, 3}, g, k)}}
		}, G, K, 1))
	}
	// Scaler on an input that already has the shape of its attribute lists (no broadcast needed: the
	// helper hands the attribute tensor itself back)
	for _, G := range gs {
		gsc := &GraphJ{Inputs: []VInfoJ{{Name: "x", Dt: "f32", Dims: []any{3}}},
			Nodes:   []NodeJ{{Op: "Scaler", Attrs: []Attr{{Name: "offset", Type: "floats", Fs: []float64{1, 2, 3}}, {Name: "scale", Type: "floats", Fs: []float64{2, 3, 4}}}, Ins: []string{"x"}, Outs: []string{"s"}}},
			Outputs: []string{"s"}}
		e.emit(concCase("ml-attrs-same-shape", func() (*gonnx.Model, error) { return loadModel(gsc) }, gsc, func(g, k int) []NamedT {
			return []NamedT{{"x", val([]int{3}, g, k)}}
		}, G, K, 1))
	}
	// weights that already have the shape of the input they are combined with (no stretching needed: the
	// broadcast helpers hand the weight itself to the operator - whatever it does in place, it does to the model)
	for _, G := range gs {
		w := func(name string, seed int) InitJ { return InitJ{Name: name, T: smallT("f32", []int{2, 3}, seed)} }
		gsame := &GraphJ{Inputs: []VInfoJ{{Name: "x", Dt: "f32", Dims: []any{2, 3}}},
			Inits: []InitJ{w("slope", 3), w("wa", 4), w("wm", 5), w("ws", 6), w("wd", 7), {Name: "wg", T: smallT("f32", []int{3, 3}, 8)}, {Name: "cg", T: smallT("f32", []int{2, 3}, 9)}},
			Nodes: []NodeJ{{Op: "PRelu", Ins: []string{"x", "slope"}, Outs: []string{"p"}}, {Op: "PRelu", Ins: []string{"slope", "x"}, Outs: []string{"p2"}},
				{Op: "Add", Ins: []string{"x", "wa"}, Outs: []string{"a"}}, {Op: "Mul", Ins: []string{"wm", "x"}, Outs: []string{"m"}},
				{Op: "Sub", Ins: []string{"ws", "x"}, Outs: []string{"s"}}, {Op: "Div", Ins: []string{"x", "wd"}, Outs: []string{"d"}},
				{Op: "Gemm", Ins: []string{"x", "wg", "cg"}, Outs: []string{"g"}}, {Op: "Greater", Ins: []string{"x", "wa"}, Outs: []string{"gt"}},
				{Op: "PRelu", Ins: []string{"a", "slope"}, Outs: []string{"p3"}}},
			Outputs: []string{"p", "p2", "a", "m", "s", "d", "g", "gt", "p3"}}
		e.emit(concCase("weights-of-the-input-shape", func() (*gonnx.Model, error) { return loadModel(gsame) }, gsame, func(g, k int) []NamedT {
			return []NamedT{{"x", val([]int{2, 3}, g, k)}}
		}, G, K, 1))
	}
	// a graph whose nodes are NOT listed in topological order (not a valid ONNX graph: whatever Run does
	// with it alone - today an error - it does concurrently too, without writing shared state), and a vector
	// input multiplied with a shared weight matrix
	for _, G := range gs {
		gu := &GraphJ{Inputs: []VInfoJ{{Name: "x", Dt: "f32", Dims: []any{2, 2}}},
			Nodes: []NodeJ{{Op: "Relu", Ins: []string{"later"}, Outs: []string{"y"}}, {Op: "Abs", Ins: []string{"x"}, Outs: []string{"mid"}},
				{Op: "Add", Ins: []string{"mid", "x"}, Outs: []string{"later"}}, {Op: "Mul", Ins: []string{"y", "mid"}, Outs: []string{"z"}}},
			Outputs: []string{"z"}}
		e.emit(concCase("unsorted-nodes", func() (*gonnx.Model, error) { return loadModel(gu) }, gu, func(g, k int) []NamedT {
			return []NamedT{{"x", val([]int{2, 2}, g, k)}}
		}, G, K, 1))
		gv := &GraphJ{Inputs: []VInfoJ{{Name: "v", Dt: "f32", Dims: []any{3}}},
			Inits: []InitJ{{Name: "ws", T: smallT("f32", []int{3, 3}, 4)}, {Name: "wr", T: smallT("f32", []int{3, 2}, 5)}},
			Nodes: []NodeJ{{Op: "MatMul", Ins: []string{"v", "ws"}, Outs: []string{"a"}}, {Op: "MatMul", Ins: []string{"v", "wr"}, Outs: []string{"b"}},
				{Op: "MatMul", Ins: []string{"ws", "v"}, Outs: []string{"c"}}, {Op: "MatMul", Ins: []string{"a", "ws"}, Outs: []string{"d"}}},
			Outputs: []string{"a", "b", "c", "d"}}
		e.emit(concCase("vector-times-weight", func() (*gonnx.Model, error) { return loadModel(gv) }, gv, func(g, k int) []NamedT {
			return []NamedT{{"v", val([]int{3}, g, k)}}
		}, G, K, 1))
	}
	// operators that derive per-call values from the current input (Conv auto_pad from the spatial size,
	// Concat/Reshape/Slice from their operands): concurrent Runs with different dynamic extents
	for _, G := range gs {
		gap := &GraphJ{Inputs: []VInfoJ{{Name: "x", Dt: "f32", Dims: []any{"N", 1, "H", "W"}}},
			Inits: []InitJ{{Name: "w", T: tinyT("f32", []int{2, 1, 3, 3}, 3)}, {Name: "b", T: vals("f32", []int{2}, 1, -1)}, {Name: "sh", T: idxT("i64", []int{2}, []int{0, -1})}},
			Nodes: []NodeJ{
				{Op: "Conv", Attrs: []Attr{{Name: "auto_pad", Type: "s", S: "SAME_UPPER"}, {Name: "strides", Type: "ints", Ints: []int64{2, 2}}}, Ins: []string{"x", "w", "b"}, Outs: []string{"c"}},
				{Op: "Conv", Attrs: []Attr{{Name: "auto_pad", Type: "s", S: "SAME_LOWER"}, {Name: "strides", Type: "ints", Ints: []int64{2, 1}}}, Ins: []string{"x", "w"}, Outs: []string{"c2"}},
				{Op: "Concat", Attrs: []Attr{{Name: "axis", Type: "i", I: 1}}, Ins: []string{"x", "x"}, Outs: []string{"cc"}},
				{Op: "Reshape", Ins: []string{"c", "sh"}, Outs: []string{"r"}},
				{Op: "Flatten", Attrs: []Attr{{Name: "axis", Type: "i", I: 2}}, Ins: []string{"cc"}, Outs: []string{"f"}},
			}, Outputs: []string{"c", "c2", "cc", "r", "f"}}
		e.emit(concCase("per-call-state", func() (*gonnx.Model, error) { return loadModel(gap) }, gap, func(g, k int) []NamedT {
			return []NamedT{{"x", val([]int{1 + k%2, 1, 4 + (g+k)%4, 3 + (2*g+k)%5}, g, k)}}
		}, G, K, 1))
	}
	nd := 6
	if tier == "thorough" {
		nd = 120
	}
	for i := 0; i < nd; i++ {
		g0, ins := genDAG(e, 8)
		e.emit(concCase("dag", func() (*gonnx.Model, error) { return loadModel(g0) }, g0, func(g, k int) []NamedT {
			out := make([]NamedT, len(ins))
			for i, nt := range ins {
				out[i] = NamedT{nt.Name, seqT(nt.T.Dt, nt.T.Shape, func(j int) float64 { return float64((j+g+2*k)%5 - 2) })}
			}
			return out
		}, 4, 2, 1))
	}
}
