package main

// Randomised WIDE streams: the bounded-exhaustive streams of every property stop at extents 2-4; these
// add, per operator family, requests with extents up to 7 (5, 6 and 7 included: coprime pairs, primes),
// more attribute combinations and value patterns (ties, repeats, sign changes), all drawn from the one
// PRNG of the emitter (--seed). The model / specification side is the same driver as for the other streams.

import "math/rand"

var wideExts = []int{1, 2, 3, 5, 6, 7, 4, 5, 7}

func wShape(r *rand.Rand, rank int) []int {
	s := make([]int, rank)
	for i := range s {
		s[i] = wideExts[r.Intn(len(wideExts))]
	}
	return s
}

func wData(r *rand.Rand, dt string, s []int) *TJ {
	// small integers with many ties and sign changes
	pat := r.Intn(4)
	return seqT(dt, s, func(i int) float64 {
		switch pat {
		case 0:
			return float64(r.Intn(7) - 3)
		case 1:
			return float64((i*3)%5 - 2)
		case 2:
			return float64(r.Intn(3)) // many ties
		default:
			if dt == "bool" {
				return float64(r.Intn(2))
			}
			return float64(r.Intn(41) - 20)
		}
	})
}

// a shape broadcast-compatible with s (or, rarely, not)
func wPartner(r *rand.Rand, s []int) []int {
	drop := 0
	if len(s) > 0 {
		drop = r.Intn(len(s) + 1)
	}
	p := append([]int{}, s[drop:]...)
	for i := range p {
		switch r.Intn(5) {
		case 0:
			p[i] = 1
		case 1:
			if r.Intn(6) == 0 {
				p[i] = p[i] + 1 // incompatible
			}
		}
	}
	if r.Intn(5) == 0 {
		p = append(wShape(r, 1+r.Intn(2)), p...) // partner of higher rank
		if len(p) > 4 {
			p = p[len(p)-4:]
		}
	}
	return p
}

func genWide(e *emitter, prop string, tier string) {
	r := e.rng
	n := 150
	if tier == "thorough" {
		n = 4000
	}
	save := reuseEvery
	reuseEvery = 7
	defer func() { reuseEvery = save }()
	switch prop {
	case "C03":
		ops := append(append(append([]string{}, arithOps...), cmpOps...), logicOps...)
		for i := 0; i < n; i++ {
			op := ops[r.Intn(len(ops))]
			dt := []string{"f32", "f64", "i32", "i64"}[r.Intn(4)]
			if op == "And" || op == "Or" || op == "Xor" {
				dt = "bool"
			}
			a := wShape(r, r.Intn(5))
			b := wPartner(r, a)
			if r.Intn(2) == 0 {
				a, b = b, a
			}
			A, B := wData(r, dt, a), wData(r, dt, b)
			if op == "Div" {
				B = seqT(dt, b, func(i int) float64 { return float64(1 + r.Intn(4)) })
			}
			e.emit(opCase("wide", op, nil, []*TJ{A, B}, nil))
		}
	case "C04":
		for i := 0; i < n; i++ {
			m, k, nn := 1+r.Intn(7), 1+r.Intn(7), 1+r.Intn(7)
			switch r.Intn(3) {
			case 0: // batched MatMul with broadcastable batch dims
				ba := wShape(r, r.Intn(3))
				bb := wPartner(r, ba)
				if len(bb) > 2 {
					bb = bb[len(bb)-2:]
				}
				e.emit(opCase("wide", "MatMul", nil, []*TJ{wData(r, "f32", append(append([]int{}, ba...), m, k)), wData(r, "f32", append(append([]int{}, bb...), k, nn))}, nil))
			case 1: // Gemm
				tA, tB := int64(r.Intn(2)), int64(r.Intn(2))
				sa, sb := []int{m, k}, []int{k, nn}
				if tA == 1 {
					sa = []int{k, m}
				}
				if tB == 1 {
					sb = []int{nn, k}
				}
				attrs := []Attr{{Name: "transA", Type: "i", I: tA}, {Name: "transB", Type: "i", I: tB}}
				if r.Intn(2) == 0 {
					attrs = append(attrs, Attr{Name: "alpha", Type: "f", F: float64(r.Intn(5) - 2)})
				}
				if r.Intn(2) == 0 {
					attrs = append(attrs, Attr{Name: "beta", Type: "f", F: float64(r.Intn(5) - 2)})
				}
				ins := []*TJ{wData(r, "f32", sa), wData(r, "f32", sb)}
				if cs := [][]int{nil, {}, {nn}, {1, nn}, {m, 1}, {m, nn}, {1}}[r.Intn(7)]; cs != nil {
					ins = append(ins, wData(r, "f32", cs))
				}
				e.emit(opCase("wide", "Gemm", attrs, ins, nil))
			default: // vector cases
				if r.Intn(2) == 0 {
					e.emit(opCase("wide", "MatMul", nil, []*TJ{wData(r, "f32", []int{k}), wData(r, "f32", append(wShape(r, r.Intn(3)), k, nn))}, nil))
				} else {
					e.emit(opCase("wide", "MatMul", nil, []*TJ{wData(r, "f32", append(wShape(r, r.Intn(3)), m, k)), wData(r, "f32", []int{k})}, nil))
				}
			}
		}
	case "C05":
		for i := 0; i < n; i++ {
			nd := 1 + r.Intn(2)
			N, C, M := 1+r.Intn(3), 1+r.Intn(3), 1+r.Intn(4)
			xs, ws := []int{N, C}, []int{M, C}
			var strides, dil, pads []int64
			for d := 0; d < nd; d++ {
				xs = append(xs, 3+r.Intn(7))
				ws = append(ws, 2+r.Intn(3))
				strides = append(strides, int64(1+r.Intn(3)))
				dil = append(dil, int64(1+r.Intn(2)))
			}
			for d := 0; d < 2*nd; d++ {
				pads = append(pads, int64(r.Intn(3)))
			}
			var attrs []Attr
			if r.Intn(4) != 0 {
				attrs = append(attrs, Attr{Name: "strides", Type: "ints", Ints: strides})
			}
			if r.Intn(2) == 0 {
				attrs = append(attrs, Attr{Name: "dilations", Type: "ints", Ints: dil})
			}
			switch r.Intn(4) {
			case 0:
				attrs = append(attrs, Attr{Name: "pads", Type: "ints", Ints: pads})
			case 1:
				attrs = append(attrs, Attr{Name: "auto_pad", Type: "s", S: []string{"SAME_UPPER", "SAME_LOWER"}[r.Intn(2)]})
			}
			if r.Intn(3) == 0 {
				attrs = append(attrs, Attr{Name: "kernel_shape", Type: "ints", Ints: ints64(ws[2:])})
			}
			dt := []string{"f32", "f32", "f64"}[r.Intn(3)]
			ins := []*TJ{wData(r, dt, xs), wData(r, dt, ws)}
			if r.Intn(2) == 0 {
				ins = append(ins, wData(r, dt, []int{M}))
			}
			e.emit(opCase("wide", "Conv", attrs, ins, nil))
		}
	case "C07":
		for i := 0; i < n; i++ {
			s := wShape(r, r.Intn(5))
			x := wData(r, []string{"f32", "i64", "bool", "u8"}[r.Intn(4)], s)
			switch r.Intn(4) {
			case 0: // Reshape: a random re-factorisation, with 0 and -1 entries
				tot := nelem(s)
				var tgt []int
				rem := tot
				for rem > 1 && len(tgt) < 4 {
					f := []int{2, 3, 5, 7, 6, 4, 1}[r.Intn(7)]
					if rem%f == 0 {
						tgt = append(tgt, f)
						rem /= f
					} else if r.Intn(3) == 0 {
						break
					}
				}
				tgt = append(tgt, rem)
				r.Shuffle(len(tgt), func(a, b int) { tgt[a], tgt[b] = tgt[b], tgt[a] })
				if r.Intn(2) == 0 && len(tgt) > 0 {
					tgt[r.Intn(len(tgt))] = -1
				}
				if r.Intn(3) == 0 && len(s) > 0 {
					j := r.Intn(len(s))
					if j < len(tgt) && tgt[j] == s[j] {
						tgt[j] = 0
					}
				}
				e.emit(opCase("wide", "Reshape", nil, []*TJ{x, idxT("i64", []int{len(tgt)}, tgt)}, nil))
			case 1:
				e.emit(opCase("wide", "Flatten", []Attr{{Name: "axis", Type: "i", I: int64(r.Intn(2*len(s)+3) - len(s) - 1)}}, []*TJ{x}, nil))
			case 2: // Squeeze: shape with ones, axes among them (sometimes a wrong one)
				for j := range s {
					if r.Intn(2) == 0 {
						s[j] = 1
					}
				}
				x = wData(r, "f32", s)
				var ax []int
				for j := range s {
					if (s[j] == 1 && r.Intn(2) == 0) || r.Intn(9) == 0 {
						a := j
						if r.Intn(2) == 0 {
							a = j - len(s)
						}
						ax = append(ax, a)
					}
				}
				r.Shuffle(len(ax), func(a, b int) { ax[a], ax[b] = ax[b], ax[a] })
				if len(ax) == 0 {
					e.emit(opCase("wide", "Squeeze", nil, []*TJ{x}, nil))
				} else {
					e.emit(opCase("wide", "Squeeze", nil, []*TJ{x, idxT("i64", []int{len(ax)}, ax)}, nil))
				}
			default: // Unsqueeze
				k := 1 + r.Intn(3)
				R := len(s) + k
				var ax []int
				for len(ax) < k {
					a := r.Intn(R)
					if r.Intn(2) == 0 {
						a -= R
					}
					ax = append(ax, a)
				}
				e.emit(opCase("wide", "Unsqueeze", nil, []*TJ{x, idxT("i64", []int{len(ax)}, ax)}, nil))
			}
		}
	case "C08":
		for i := 0; i < n; i++ {
			s := wShape(r, 1+r.Intn(4))
			x := seqT([]string{"f32", "i64", "u8"}[r.Intn(3)], s, func(i int) float64 { return float64(i % 251) })
			switch r.Intn(5) {
			case 0: // Slice on a random subset of axes
				var st, en, ax, sp []int
				perm := r.Perm(len(s))
				for _, a := range perm[:1+r.Intn(len(s))] {
					d := s[a]
					lo := r.Intn(d)
					hi := lo + 1 + r.Intn(d-lo)
					if r.Intn(6) == 0 {
						hi = d + 3
					}
					st = append(st, lo)
					en = append(en, hi)
					if r.Intn(2) == 0 {
						ax = append(ax, a)
					} else {
						ax = append(ax, a-len(s))
					}
					sp = append(sp, 1+r.Intn(3))
				}
				ins := []*TJ{x, idxT("i64", []int{len(st)}, st), idxT("i64", []int{len(en)}, en), idxT("i64", []int{len(ax)}, ax)}
				if r.Intn(2) == 0 {
					ins = append(ins, idxT("i64", []int{len(sp)}, sp))
				}
				e.emit(opCase("wide", "Slice", nil, ins, nil))
			case 1: // Gather with repeats, gaps, negative indices, index tensors of rank 0..2
				a := r.Intn(len(s))
				is := wShape(r, r.Intn(3))
				iv := make([]int, nelem(is))
				for j := range iv {
					iv[j] = r.Intn(2*s[a]) - s[a]
					if r.Intn(3) == 0 && j > 0 {
						iv[j] = iv[j-1]
					}
				}
				axis := a
				if r.Intn(2) == 0 {
					axis = a - len(s)
				}
				e.emit(opCase("wide", "Gather", []Attr{{Name: "axis", Type: "i", I: int64(axis)}}, []*TJ{x, idxT([]string{"i64", "i32"}[r.Intn(2)], is, iv)}, nil))
			case 2: // Transpose with a random permutation (cycles of every length)
				e.emit(opCase("wide", "Transpose", []Attr{{Name: "perm", Type: "ints", Ints: ints64(r.Perm(len(s)))}}, []*TJ{x}, nil))
			case 3: // Concat of 2..4 tensors along a random axis
				a := r.Intn(len(s))
				var ins []*TJ
				for k := 0; k < 2+r.Intn(3); k++ {
					t := append([]int{}, s...)
					t[a] = 1 + r.Intn(5)
					ins = append(ins, wData(r, "f32", t))
				}
				axis := a
				if r.Intn(2) == 0 {
					axis = a - len(s)
				}
				e.emit(opCase("wide", "Concat", []Attr{{Name: "axis", Type: "i", I: int64(axis)}}, ins, nil))
			default: // Expand: two-way broadcast targets
				t := wPartner(r, s)
				for j := range t {
					if j < len(s) && len(t) == len(s) && s[j] == 1 && r.Intn(2) == 0 {
						t[j] = wideExts[r.Intn(len(wideExts))]
					}
				}
				if len(t) == 0 {
					t = []int{1}
				}
				e.emit(opCase("wide", "Expand", nil, []*TJ{x, idxT("i64", []int{len(t)}, t)}, nil))
			}
		}
	case "C12":
		codes := []int32{1, 2, 3, 4, 5, 6, 7, 9, 11, 12, 13}
		for i := 0; i < 3*n; i++ {
			code := codes[r.Intn(len(codes))]
			rank := r.Intn(5)
			dims := make([]int64, rank)
			cnt := 1
			for j := range dims {
				dims[j] = int64([]int{1, 2, 3, 5, 7, 4, 6}[r.Intn(7)])
				cnt *= int(dims[j])
			}
			have := cnt
			switch r.Intn(8) {
			case 0:
				have = cnt + 1
			case 1:
				if cnt > 0 {
					have = cnt - 1
				}
			}
			w := codeWidth[code]
			vals := patterns(w, have, uint64(r.Intn(17)))
			t := &TPJ{DataType: code, Dims: dims}
			if r.Intn(2) == 0 {
				t.Raw, t.HasRaw = leBytes(vals, w), true
				if r.Intn(10) == 0 && len(t.Raw) > 0 {
					t.Raw = t.Raw[:len(t.Raw)-1]
				}
			} else if !typedField(t, code, vals) {
				continue
			}
			e.emit(decodeCase("wide", t))
		}
	case "C14":
		for i := 0; i < 2*n; i++ {
			dt := []string{"f32", "f64", "i32", "i64", "bool", "u8", "str"}[r.Intn(6)]
			a := wShape(r, r.Intn(5))
			b := wPartner(r, a)
			if r.Intn(2) == 0 {
				a, b = b, a
			}
			dtb := dt
			if r.Intn(5) == 0 { // whether two tensors broadcast depends on their shapes only
				dtb = []string{"f32", "i64", "bool", "u8"}[r.Intn(4)]
			}
			e.emit(bcastCase([]string{"multidir", "unidir"}[r.Intn(2)], wData(r, dt, a), wData(r, dtb, b)))
		}
		// high ranks (rank differences up to 10): mostly unit extents so that the operands stay small
		for i := 0; i < 40; i++ {
			ra := 5 + r.Intn(7)
			a := make([]int, ra)
			for j := range a {
				a[j] = 1
				if r.Intn(4) == 0 {
					a[j] = 2 + r.Intn(2)
				}
			}
			b := wShape(r, r.Intn(3))
			if len(b) > 0 {
				b[len(b)-1] = a[ra-1]
			}
			if len(b) > 1 {
				b[len(b)-2] = 1
			}
			if r.Intn(2) == 0 {
				a, b = b, a
			}
			e.emit(bcastCase([]string{"multidir", "unidir"}[r.Intn(2)], wData(r, "f32", a), wData(r, "f32", b)))
		}
	case "C09":
		for i := 0; i < n; i++ {
			s := wShape(r, 1+r.Intn(4))
			x := wData(r, []string{"f32", "f64", "i32", "i64"}[r.Intn(4)], s)
			kd := int64(r.Intn(2))
			switch r.Intn(3) {
			case 0:
				a := r.Intn(2*len(s)) - len(s)
				attrs := []Attr{{Name: "axis", Type: "i", I: int64(a)}}
				if r.Intn(3) != 0 {
					attrs = append(attrs, Attr{Name: "keepdims", Type: "i", I: kd})
				}
				e.emit(opCase("wide", "ArgMax", attrs, []*TJ{x}, nil))
			default:
				perm := r.Perm(len(s))
				var ax []int64
				for _, a := range perm[:1+r.Intn(len(s))] {
					if r.Intn(2) == 0 {
						ax = append(ax, int64(a))
					} else {
						ax = append(ax, int64(a-len(s)))
					}
				}
				attrs := []Attr{{Name: "axes", Type: "ints", Ints: ax}}
				if r.Intn(3) != 0 {
					attrs = append(attrs, Attr{Name: "keepdims", Type: "i", I: kd})
				}
				e.emit(opCase("wide", []string{"ReduceMax", "ReduceMin"}[r.Intn(2)], attrs, []*TJ{x}, nil))
			}
		}
	}
}
