package main

import (
	"strings"
	"bufio"
	"reflect"
	"encoding/json"
	"fmt"
	"math/rand"
	"os"

	"sort"

	"google.golang.org/protobuf/proto"

	"github.com/advancedclimatesystems/gonnx/onnx"
	"github.com/advancedclimatesystems/gonnx/ops"
	"github.com/advancedclimatesystems/gonnx/ops/opset13"
	"gorgonia.org/tensor"
)

// Case is one line of the case file. The harness fills Impl; the driver reads the
// rest and answers with model/spec/guard.
type Case struct {
	ID      string         `json:"id"`
	Prop    string         `json:"prop"`
	Kind    string         `json:"kind"`
	Stream  string         `json:"stream,omitempty"`
	Op      string         `json:"op,omitempty"`
	Attrs   []Attr         `json:"attrs,omitempty"`
	Inputs  []*TJ          `json:"inputs,omitempty"`
	Outputs []string       `json:"outputs,omitempty"`
	Dts     []*string      `json:"dts,omitempty"`
	Share   [][2]int       `json:"share,omitempty"` // (i, j): input i is the very tensor object of input j
	P       map[string]any `json:"p,omitempty"`
	Graph   *GraphJ        `json:"graph,omitempty"`
	Impl    *Result        `json:"impl"`
}

type emitter struct {
	seed int64
	w    *bufio.Writer
	n    int
	prop string
	rng  *rand.Rand
	// sampling of borrowed streams (C02 re-uses the operator streams of the other properties)
	every, seen int
	onlyKinds   map[string]bool
	streamPrefix string
	inDrop       bool
	dropSeen     int
}

func newEmitter(path, prop string, seed int64) *emitter {
	f, err := os.Create(path)
	if err != nil {
		panic(err)
	}
	return &emitter{w: bufio.NewWriterSize(f, 1<<20), prop: prop, seed: seed, rng: rand.New(rand.NewSource(seed))}
}

func (e *emitter) emit(c *Case) {
	if e.onlyKinds != nil && !e.onlyKinds[c.Kind] {
		return
	}
	if e.every > 1 {
		e.seen++
		if e.seen%e.every != 0 {
			return
		}
	}
	c.Prop = e.prop
	if e.streamPrefix != "" {
		c.Stream = e.streamPrefix + c.Stream
	}
	for _, t := range c.Inputs {
		normTJ(t)
	}
	if c.ID == "" {
		c.ID = fmt.Sprintf("%s-%06d", e.prop, e.n)
	}
	e.n++
	b, err := json.Marshal(c)
	if err != nil {
		panic(err)
	}
	e.w.Write(b)
	e.w.WriteByte('\n')
	if timeoutCount >= 3 {
		// three cases did not terminate: what has been written is judged, the rest of the stream is given up
		e.w.Flush()
		fmt.Fprintln(os.Stderr, "stream aborted after 3 cases that did not terminate")
		os.Exit(0)
	}
	// attribute defaults: every few operator cases are repeated with ONE attribute left out (the
	// operator must then behave as ONNX's default for it prescribes, or refuse a required attribute)
	if c.Kind == "op" && len(c.Attrs) >= 1 && c.Share == nil && inputLayout == "" && !e.inDrop && e.every <= 1 {
		e.dropSeen++
		if e.dropSeen%attrDropEvery == 0 {
			e.inDrop = true
			for i := range c.Attrs {
				attrs := append(append([]Attr{}, c.Attrs[:i]...), c.Attrs[i+1:]...)
				v := &Case{Kind: "op", Stream: c.Stream + "~attr-dropped", Op: c.Op, Attrs: attrs, Inputs: c.Inputs, Outputs: c.Outputs}
				if (c.Op == "Softmax" || c.Op == "LogSoftmax") && c.P != nil {
					v.P = map[string]any{"props": true, "axis": -1} // the default axis
				}
				v.Impl = runOp(c.Op, attrs, c.Inputs, c.Outputs)
				e.emit(v)
			}
			e.inDrop = false
		}
	}
}

var attrDropEvery = 5

func (e *emitter) close() { e.w.Flush() }

// runOp runs one operator the way Model.applyOp does: GetOperator, Init, ValidateInputs, Apply.
func runOp(name string, attrs []Attr, inputs []*TJ, outNames []string) *Result {
	return runOpShared(name, attrs, inputs, outNames, nil)
}

// runOpShared additionally passes one tensor object at several input positions (as Run does when a
// node lists the same name twice).
func runOpShared(name string, attrs []Attr, inputs []*TJ, outNames []string, share [][2]int) *Result {
	return guard(func() *Result {
		op, err := opset13.GetOperator(name)
		if err != nil {
			return errResult(err)
		}
		inNames := make([]string, len(inputs))
		for i := range inputs {
			inNames[i] = fmt.Sprintf("in%d", i)
		}
		if outNames == nil {
			outNames = []string{"out0"}
		}
		node := mkNode(name, attrs, inNames, outNames)
		edited := false
		if len(attrs) > 0 && share == nil && inputLayout == "" {
			edited = priorDecodingOfEditedNode(name, node, inputs)
		}
		if err := op.Init(node); err != nil {
			r := errResult(err)
			r.Extra = "init"
			return r
		}
		ts := make([]tensor.Tensor, len(inputs))
		snaps := make([]snap, len(inputs))
		pooled := false
		poolKeys := make([]string, len(inputs))
		for i, t := range inputs {
			ts[i] = mkTensor(t)
			if inputLayout == "lazy-transposed" {
				ts[i] = lazyTransposed(ts[i])
			}
			snaps[i] = snapshot(ts[i])
			// operand objects live on: an operand with the contents of an earlier case's operand (at the same
			// position of the same operator) IS that earlier tensor object, as when one weight feeds several
			// nodes with different attributes - whatever an operator remembers about a tensor by its identity
			// (a cache keyed by the pointer) meets the same object again with other attributes
			if operandPoolOn && share == nil && inputLayout == "" && t != nil && ts[i] != nil && nelem(t.Shape) <= 4096 {
				b, _ := json.Marshal(t)
				poolKeys[i] = fmt.Sprintf("%s|%d|%s", name, i, b)
				if old, ok := operandPool[poolKeys[i]]; ok && len(diffSnap(0, snapshot(old), snaps[i])) == 0 {
					ts[i] = old
					pooled = true
				}
			}
		}
		for _, p := range share {
			ts[p[0]] = ts[p[1]]
		}
		orig := append([]tensor.Tensor{}, ts...)
		// the list handed to the gate is a prefix of a longer, fully populated backing array (a caller that
		// builds {data, axes, ...} once and passes a shorter prefix): what lies behind len() is none of the
		// operator's business - padding for omitted optional inputs is nil, not whatever is stored there
		{
			backing := make([]tensor.Tensor, len(ts), len(ts)+4)
			copy(backing, ts)
			extras := backing[len(ts) : len(ts)+4]
			extras[0] = tensor.New(tensor.WithShape(1), tensor.WithBacking([]int64{0}))
			extras[1] = tensor.New(tensor.WithShape(1), tensor.WithBacking([]int64{1}))
			extras[2] = tensor.New(tensor.WithShape(1), tensor.WithBacking([]float32{7}))
			extras[3] = tensor.New(tensor.WithShape(2), tensor.WithBacking([]int64{1, 1}))
			ts = backing
		}
		vts, err := op.ValidateInputs(ts)
		if err != nil {
			r := errResult(err)
			r.Extra = "validate"
			return r
		}
		var res *Result
		func() {
			defer func() {
				if r := recover(); r != nil {
					res = &Result{Status: "panic", Msg: fmt.Sprint(r)}
				}
			}()
			outs, err := op.Apply(vts)
			if err != nil {
				res = errResult(err)
				return
			}
			res = &Result{Status: "ok"}
			for k, o := range outs {
				res.Outs = append(res.Outs, toTJ(o))
				if lay := oddLayout(o); lay != "" && res.Layout == "" {
					res.Layout = fmt.Sprintf("output %d: %s", k, lay)
					res.Chain = followerProbe(o)
				}
				for i, in := range orig {
					if in != nil && o != nil && sameObj(in, o) {
						res.Alias = append(res.Alias, [2]int{k, i})
					}
				}
			}
		}()
		for i := range orig {
			res.Mut = append(res.Mut, diffSnap(i, snaps[i], snapshot(orig[i]))...)
		}
		res.Edited = edited
		res.Pooled = pooled
		for i, k := range poolKeys {
			if k == "" || orig[i] == nil {
				continue
			}
			if len(diffSnap(0, snaps[i], snapshot(orig[i]))) == 0 { // untouched by the operator: keep the object for later cases
				if len(operandPool) > 4000 {
					operandPool = map[string]tensor.Tensor{}
				}
				operandPool[k] = orig[i]
			} else {
				delete(operandPool, k)
			}
		}
		if res.Status == "ok" && share == nil && inputLayout == "" {
			reuseCounter++
			if reuseEvery > 0 && reuseCounter%reuseEvery == 0 {
				res.Reuse = reuseProbe(name, node, inputs, res)
				res.Probed = true
			}
		}
		return res
	})
}

// operandPool: see runOpShared
var operandPool = map[string]tensor.Tensor{}
var operandPoolOn = true

// inputLayout "lazy-transposed": every input of rank >= 2 is handed over as a Dense whose backing array
// is stored transposed and whose transposition back is still pending (what a caller gets from x.T()):
// logically the same tensor, physically not contiguous. Used by the C02 purity stream.
var inputLayout = ""

func lazyTransposed(t tensor.Tensor) tensor.Tensor {
	d, ok := t.(*tensor.Dense)
	if !ok || d.Dims() < 2 {
		return t
	}
	c, ok := d.Clone().(*tensor.Dense)
	if !ok {
		return t
	}
	if err := c.T(); err != nil {
		return t
	}
	if err := c.Transpose(); err != nil {
		return t
	}
	if err := c.T(); err != nil {
		return t
	}
	return c
}

// reuseEvery: probe every n-th successful operator case for state kept on the operator instance
// (0 = never); set by the generators of the very large streams.
var reuseEvery = 1
var reuseCounter = 0

// warmups are valid-looking variations of the first input: the same tensor, one more leading axis,
// the last axis one longer / one shorter.
func warmups(t *TJ) map[string]*TJ {
	out := map[string]*TJ{"same-input": t}
	if t == nil {
		return out
	}
	cp := func(shape []int, pick func(i int) int, n int) *TJ {
		r := &TJ{Dt: t.Dt, Shape: shape}
		for i := 0; i < n; i++ {
			j := pick(i)
			if len(t.Bits) > 0 {
				r.Bits = append(r.Bits, t.Bits[j])
			}
			if len(t.Data) > 0 {
				r.Data = append(r.Data, t.Data[j])
			}
		}
		return r
	}
	n := nelem(t.Shape)
	if len(t.Bits) != n && len(t.Data) != n {
		return out
	}
	out["leading-axis-added"] = cp(append([]int{1}, t.Shape...), func(i int) int { return i }, n)
	if r := len(t.Shape); r >= 1 && n > 0 {
		L := t.Shape[r-1]
		longer := append([]int{}, t.Shape...)
		longer[r-1] = L + 1
		out["last-axis-longer"] = cp(longer, func(i int) int {
			row, c := i/(L+1), i%(L+1)
			if c >= L {
				c = L - 1
			}
			return row*L + c
		}, n/L*(L+1))
		if L >= 2 {
			shorter := append([]int{}, t.Shape...)
			shorter[r-1] = L - 1
			out["last-axis-shorter"] = cp(shorter, func(i int) int { return (i/(L-1))*L + i%(L-1) }, n/L*(L-1))
		}
	}
	return out
}

// reuseProbe: an operator instance that has already been applied to other inputs must give, for this
// case's inputs, what a fresh instance gives. Returns the warm-ups after which it does not.
func reuseProbe(name string, node *onnx.NodeProto, inputs []*TJ, fresh *Result) []string {
	if len(inputs) == 0 {
		return nil
	}
	if name == "ConstantOfShape" && inputs[0] != nil {
		// input 0 is the requested SHAPE: a warm-up that repeats an extent squares the allocation
		for _, v := range inputs[0].Data {
			if toF(v) > 64 {
				return nil
			}
		}
	}
	want, _ := json.Marshal(fresh.Outs)
	var bad []string
	apply := func(op ops.Operator, ins []*TJ) (r *Result) {
		defer func() {
			if p := recover(); p != nil {
				r = &Result{Status: "panic", Msg: fmt.Sprint(p)}
			}
		}()
		ts := make([]tensor.Tensor, len(ins))
		for i, t := range ins {
			ts[i] = mkTensor(t)
		}
		vts, err := op.ValidateInputs(ts)
		if err != nil {
			return errResult(err)
		}
		outs, err := op.Apply(vts)
		if err != nil {
			return errResult(err)
		}
		r = &Result{Status: "ok"}
		for _, o := range outs {
			r.Outs = append(r.Outs, toTJ(o))
		}
		return r
	}
	ws := warmups(inputs[0])
	keys := make([]string, 0, len(ws))
	for k := range ws {
		keys = append(keys, k)
	}
	sort.Strings(keys)
	for _, k := range keys {
		op, err := opset13.GetOperator(name)
		if err != nil {
			continue
		}
		if ierr := op.Init(node); ierr != nil {
			// the very NodeProto initialised an operator a moment ago (Model.Run initialises every node anew on
			// every Run): a later Init must succeed as well
			bad = append(bad, fmt.Sprintf("%s: a second Init of the same NodeProto fails: %v", k, ierr))
			continue
		}
		// Conv stores the per-rank defaults of its first call on the instance (by design: Run makes a
		// fresh operator per node and call), so a warm-up of another rank is outside what it supports
		if name == "Conv" && k == "leading-axis-added" {
			continue
		}
		if w := apply(op, append([]*TJ{ws[k]}, inputs[1:]...)); w.Status != "ok" {
			continue // only a successful earlier call counts
		}
		got := apply(op, inputs)
		g, _ := json.Marshal(got.Outs)
		if got.Status != "ok" || string(g) != string(want) {
			bad = append(bad, fmt.Sprintf("%s: then %s %s", k, got.Status, got.Msg))
		}
	}
	// an Init that was REFUSED leaves nothing behind: the same instance, initialised again with this case's node,
	// answers like a fresh one (defaults included). The nodes that are refused: an unknown attribute in front of
	// the real ones, every attribute twice, select_last_index=1 in front, no attributes at all.
	for _, bn := range refusedNodes(node) {
		op, err := opset13.GetOperator(name)
		if err != nil {
			break
		}
		var ierr error
		panicked := false
		func() {
			defer func() {
				if p := recover(); p != nil {
					panicked = true
				}
			}()
			ierr = op.Init(bn.node)
		}()
		if ierr == nil || panicked {
			continue
		}
		got := func() (r *Result) {
			defer func() {
				if p := recover(); p != nil {
					r = &Result{Status: "panic", Msg: fmt.Sprint(p)}
				}
			}()
			if err := op.Init(node); err != nil {
				return &Result{Status: "error", Msg: "Init: " + err.Error()}
			}
			return apply(op, inputs)
		}()
		g, _ := json.Marshal(got.Outs)
		if got.Status != "ok" || string(g) != string(want) {
			bad = append(bad, fmt.Sprintf("refused-init(%s): then %s %s", bn.how, got.Status, got.Msg))
		}
	}
	return bad
}

type refusedNode struct {
	how  string
	node *onnx.NodeProto
}

func refusedNodes(node *onnx.NodeProto) []refusedNode {
	cp := func() *onnx.NodeProto { return proto.Clone(node).(*onnx.NodeProto) }
	var out []refusedNode
	a := cp()
	a.Attribute = append([]*onnx.AttributeProto{{Name: "no_such_attribute", Type: onnx.AttributeProto_INT, I: 1}}, a.Attribute...)
	out = append(out, refusedNode{"unknown-attribute", a})
	b := cp()
	b.Attribute = append(b.Attribute, cp().Attribute...)
	b.Attribute = append(b.Attribute, cp().Attribute...)
	if len(node.Attribute) == 0 {
		b.Attribute = []*onnx.AttributeProto{{Name: "x1", Type: onnx.AttributeProto_INT}, {Name: "x2", Type: onnx.AttributeProto_INT}, {Name: "x3", Type: onnx.AttributeProto_INT}, {Name: "x4", Type: onnx.AttributeProto_INT}}
	}
	out = append(out, refusedNode{"too-many-attributes", b})
	c := cp()
	c.Attribute = append([]*onnx.AttributeProto{{Name: "select_last_index", Type: onnx.AttributeProto_INT, I: 1}}, c.Attribute...)
	out = append(out, refusedNode{"select-last-index", c})
	if len(node.Attribute) > 0 {
		d := cp()
		d.Attribute = nil
		out = append(out, refusedNode{"no-attributes", d})
	}
	return out
}

// priorDecodingOfEditedNode: a caller may keep a NodeProto around, edit its attributes in place and
// build an operator from it again. Before the real Init the very same NodeProto / AttributeProto /
// TensorProto OBJECTS are decoded once by a throw-away operator while they hold other contents, then
// the contents of this case are put back in place: what the operator answers must depend on what the
// node holds now, not on what the object held when it was first seen.
func priorDecodingOfEditedNode(name string, node *onnx.NodeProto, inputs []*TJ) bool {
	total := 0
	for _, t := range inputs {
		if t != nil {
			total += nelem(t.Shape)
		}
	}
	if total > 4096 {
		return false
	}
	type saved struct {
		i      int64
		f      float32
		s      []byte
		ints   []int64
		floats []float32
		tp     *onnx.TensorProto
	}
	sv := make([]saved, len(node.Attribute))
	changed := false
	for k, a := range node.Attribute {
		sv[k] = saved{i: a.I, f: a.F, s: a.S, ints: a.Ints, floats: a.Floats}
		switch a.Type {
		case onnx.AttributeProto_INT:
			a.I++
			changed = true
		case onnx.AttributeProto_FLOAT:
			a.F += 1
			changed = true
		case onnx.AttributeProto_STRING:
			a.S = append(append([]byte{}, a.S...), 'x')
			changed = true
		case onnx.AttributeProto_INTS:
			alt := make([]int64, len(a.Ints))
			for i, v := range a.Ints {
				alt[i] = v + 1
			}
			a.Ints = alt
			changed = true
		case onnx.AttributeProto_FLOATS:
			alt := make([]float32, len(a.Floats))
			for i, v := range a.Floats {
				alt[i] = v + 1
			}
			a.Floats = alt
			changed = true
		case onnx.AttributeProto_TENSOR:
			if a.T == nil {
				continue
			}
			sv[k].tp = &onnx.TensorProto{}
			copyTP(sv[k].tp, a.T)
			alt := &onnx.TensorProto{}
			copyTP(alt, a.T)
			alt.FloatData = bump(a.T.FloatData)
			alt.Int32Data = bump(a.T.Int32Data)
			alt.Int64Data = bump(a.T.Int64Data)
			alt.DoubleData = bump(a.T.DoubleData)
			alt.Uint64Data = bump(a.T.Uint64Data)
			if len(a.T.RawData) > 0 {
				alt.RawData = make([]byte, len(a.T.RawData))
				for i, b := range a.T.RawData {
					alt.RawData[i] = b ^ 1
				}
			}
			copyTP(a.T, alt)
			changed = true
		}
	}
	if !changed {
		return false
	}
	func() {
		defer func() { _ = recover() }()
		op, err := opset13.GetOperator(name)
		if err != nil || op.Init(node) != nil {
			return
		}
		ts := make([]tensor.Tensor, len(inputs))
		for i, t := range inputs {
			ts[i] = mkTensor(t)
		}
		vts, err := op.ValidateInputs(ts)
		if err != nil {
			return
		}
		_, _ = op.Apply(vts)
	}()
	for k, a := range node.Attribute {
		a.I, a.F, a.S, a.Ints, a.Floats = sv[k].i, sv[k].f, sv[k].s, sv[k].ints, sv[k].floats
		if sv[k].tp != nil {
			copyTP(a.T, sv[k].tp)
		}
	}
	return true
}

func bump[T int32 | int64 | uint64 | float32 | float64](xs []T) []T {
	if xs == nil {
		return nil
	}
	out := make([]T, len(xs))
	for i, v := range xs {
		out[i] = v + 1
	}
	return out
}

// copyTP copies the contents of src INTO the object dst (dst keeps its identity).
func copyTP(dst, src *onnx.TensorProto) {
	dst.Dims, dst.DataType, dst.Name = src.Dims, src.DataType, src.Name
	dst.FloatData, dst.Int32Data, dst.Int64Data = src.FloatData, src.Int32Data, src.Int64Data
	dst.DoubleData, dst.Uint64Data, dst.StringData, dst.RawData = src.DoubleData, src.Uint64Data, src.StringData, src.RawData
}

// oddLayout says in what way a result is NOT the plain tensor every operator of the pinned tree returns: a
// view into other memory, a pending (lazy) transpose, a backing array that is longer or shorter than the shape.
func oddLayout(t tensor.Tensor) (what string) {
	d, ok := t.(*tensor.Dense)
	if !ok || d == nil {
		return ""
	}
	defer func() {
		if recover() != nil {
			what = ""
		}
	}()
	var w []string
	if d.IsMaterializable() {
		w = append(w, "a view (materializable)")
	}
	if d.RequiresIterator() {
		w = append(w, "not contiguous (requires an iterator)")
	}
	// a lazily pending transpose (gorgonia keeps the previous access pattern in the unexported field `old`)
	if f := reflect.ValueOf(d).Elem().FieldByName("old"); f.IsValid() && f.Kind() == reflect.Ptr && !f.IsNil() {
		w = append(w, "a pending (lazy) transpose")
	}
	if !d.IsScalar() {
		if n := reflect.ValueOf(d.Data()); n.Kind() == reflect.Slice && n.Len() != d.Shape().TotalSize() {
			w = append(w, fmt.Sprintf("Data() holds %d elements for shape %v", n.Len(), d.Shape()))
		}
	}
	return strings.Join(w, ", ")
}

// followerProbe hands such a result - the very object, as Run does - to operators that typically come next in
// a model and compares each answer with the answer for an equal, freshly built contiguous tensor. What is
// returned names the followers that disagree (a two-node model on which Run computes something else than the
// dataflow value).
func followerProbe(o tensor.Tensor) []string {
	ref := toTJ(o)
	if ref == nil || strings.HasPrefix(ref.Dt, "bad:") || nelem(ref.Shape) > 4096 {
		return nil
	}
	r := len(ref.Shape)
	last := 1
	if r > 0 {
		last = ref.Shape[r-1]
	}
	isFloat := ref.Dt == "f32" || ref.Dt == "f64"
	type fol struct {
		op    string
		attrs []Attr
		rest  []*TJ
	}
	var fs []fol
	if r >= 2 {
		perm := make([]int64, r)
		for i := range perm {
			perm[i] = int64(r - 1 - i)
		}
		fs = append(fs, fol{"Transpose", []Attr{{Name: "perm", Type: "ints", Ints: perm}}, nil})
	}
	fs = append(fs, fol{"Reshape", nil, []*TJ{idxT("i64", []int{1}, []int{-1})}})
	fs = append(fs, fol{"Cast", []Attr{{Name: "to", Type: "i", I: 11}}, nil})
	if r >= 1 {
		fs = append(fs, fol{"Concat", []Attr{{Name: "axis", Type: "i", I: 0}}, []*TJ{ref}})
		fs = append(fs, fol{"Squeeze", nil, nil}, fol{"Flatten", []Attr{{Name: "axis", Type: "i", I: 1}}, nil})
	}
	if isFloat || ref.Dt == "i32" || ref.Dt == "i64" {
		fs = append(fs, fol{"Add", nil, []*TJ{seqT(ref.Dt, []int{last}, func(i int) float64 { return float64(i + 1) })}})
		// a partner of the same rank that stretches every unit axis of the result (the result is not rank-padded)
		if r >= 2 {
			ps := append([]int{}, ref.Shape...)
			stretch := false
			for i := range ps {
				if ps[i] == 1 {
					ps[i] = 3
					stretch = true
				}
			}
			if stretch && nelem(ps) <= 4096 {
				fs = append(fs, fol{"Mul", nil, []*TJ{seqT(ref.Dt, ps, func(i int) float64 { return float64(i%5 + 1) })}})
				fs = append(fs, fol{"Add", nil, []*TJ{seqT(ref.Dt, ps[1:], func(i int) float64 { return float64(i%7 - 3) })}})
			}
		}
		if r >= 1 {
			fs = append(fs, fol{"ReduceMax", []Attr{{Name: "axes", Type: "ints", Ints: []int64{-1}}}, nil})
		}
	}
	if isFloat && r >= 2 {
		w := seqT(ref.Dt, []int{last, 2}, func(i int) float64 { return float64(i%3 - 1) })
		fs = append(fs, fol{"MatMul", nil, []*TJ{w}})
		if r == 2 {
			fs = append(fs, fol{"Gemm", nil, []*TJ{w}})
		}
		fs = append(fs, fol{"Relu", nil, nil})
	}
	if ref.Dt == "i64" && r == 1 && nelem(ref.Shape) <= 4 {
		ok := true
		for _, v := range ref.Data {
			if toF(v) < 1 || toF(v) > 6 {
				ok = false
			}
		}
		if ok {
			fs = append(fs, fol{"ConstantOfShape", nil, nil})
		}
	}
	var bad []string
	for _, f := range fs {
		run := func(first tensor.Tensor) (out string) {
			defer func() {
				if p := recover(); p != nil {
					out = fmt.Sprint("panic: ", p)
				}
			}()
			ts := []tensor.Tensor{first}
			for _, t := range f.rest {
				ts = append(ts, mkTensor(t))
			}
			res, err := applyOpTensors(f.op, f.attrs, ts)
			if err != nil {
				return "error: " + err.Error()
			}
			b, _ := json.Marshal(toTJ(res[0]))
			return string(b)
		}
		want := run(mkTensor(ref))
		got := run(o)
		if want != got {
			if len(got) > 120 {
				got = got[:120]
			}
			bad = append(bad, fmt.Sprintf("%s: %s", f.op, got))
		}
	}
	return bad
}

func sameObj(a, b tensor.Tensor) bool {
	da, ok1 := a.(*tensor.Dense)
	db, ok2 := b.(*tensor.Dense)
	return ok1 && ok2 && da == db
}

func sp(s string) *string { return &s }

// normTJ rewrites the readable data of an integer tensor to the values actually stored after Go's
// conversion to the element type (e.g. 130 in an int8 tensor is -126), so that the driver sees what the
// implementation saw.
func normTJ(t *TJ) {
	if t == nil || len(t.Bits) > 0 {
		return
	}
	switch t.Dt {
	case "i8", "i16", "i32", "i64", "u8", "u16", "u32", "u64", "bool":
		b := mkBacking(t.Dt, t.Data)
		rv := reflect.ValueOf(b)
		for i := 0; i < rv.Len() && i < len(t.Data); i++ {
			t.Data[i] = canonScalar(rv.Index(i).Interface())
		}
	}
}
