package main

import (
	"bufio"
	"reflect"
	"encoding/json"
	"fmt"
	"math/rand"
	"os"

	"github.com/advancedclimatesystems/gonnx/ops/opset13"
	"gorgonia.org/tensor"
)

// Case is one line of the case file. The harness fills Impl; the driver reads the
// rest and answers with model/spec/guard.
type Case struct {
	ID      string         `json:"id"`
	Prop    string         `json:"prop"`
	Kind    string         `json:"kind"`
	Stream  string         `json:"stream,omitempty"`
	Op      string         `json:"op,omitempty"`
	Attrs   []Attr         `json:"attrs,omitempty"`
	Inputs  []*TJ          `json:"inputs,omitempty"`
	Outputs []string       `json:"outputs,omitempty"`
	Dts     []*string      `json:"dts,omitempty"`
	Share   [][2]int       `json:"share,omitempty"` // (i, j): input i is the very tensor object of input j
	P       map[string]any `json:"p,omitempty"`
	Graph   *GraphJ        `json:"graph,omitempty"`
	Impl    *Result        `json:"impl"`
}

type emitter struct {
	w    *bufio.Writer
	n    int
	prop string
	rng  *rand.Rand
	// sampling of borrowed streams (C02 re-uses the operator streams of the other properties)
	every, seen int
	onlyKinds   map[string]bool
}

func newEmitter(path, prop string, seed int64) *emitter {
	f, err := os.Create(path)
	if err != nil {
		panic(err)
	}
	return &emitter{w: bufio.NewWriterSize(f, 1<<20), prop: prop, rng: rand.New(rand.NewSource(seed))}
}

func (e *emitter) emit(c *Case) {
	if e.onlyKinds != nil && !e.onlyKinds[c.Kind] {
		return
	}
	if e.every > 1 {
		e.seen++
		if e.seen%e.every != 0 {
			return
		}
	}
	c.Prop = e.prop
	for _, t := range c.Inputs {
		normTJ(t)
	}
	if c.ID == "" {
		c.ID = fmt.Sprintf("%s-%06d", e.prop, e.n)
	}
	e.n++
	b, err := json.Marshal(c)
	if err != nil {
		panic(err)
	}
	e.w.Write(b)
	e.w.WriteByte('\n')
}

func (e *emitter) close() { e.w.Flush() }

// runOp runs one operator the way Model.applyOp does: GetOperator, Init, ValidateInputs, Apply.
func runOp(name string, attrs []Attr, inputs []*TJ, outNames []string) *Result {
	return runOpShared(name, attrs, inputs, outNames, nil)
}

// runOpShared additionally passes one tensor object at several input positions (as Run does when a
// node lists the same name twice).
func runOpShared(name string, attrs []Attr, inputs []*TJ, outNames []string, share [][2]int) *Result {
	return guard(func() *Result {
		op, err := opset13.GetOperator(name)
		if err != nil {
			return errResult(err)
		}
		inNames := make([]string, len(inputs))
		for i := range inputs {
			inNames[i] = fmt.Sprintf("in%d", i)
		}
		if outNames == nil {
			outNames = []string{"out0"}
		}
		node := mkNode(name, attrs, inNames, outNames)
		if err := op.Init(node); err != nil {
			r := errResult(err)
			r.Extra = "init"
			return r
		}
		ts := make([]tensor.Tensor, len(inputs))
		snaps := make([]snap, len(inputs))
		for i, t := range inputs {
			ts[i] = mkTensor(t)
			snaps[i] = snapshot(ts[i])
		}
		for _, p := range share {
			ts[p[0]] = ts[p[1]]
		}
		orig := append([]tensor.Tensor{}, ts...)
		vts, err := op.ValidateInputs(ts)
		if err != nil {
			r := errResult(err)
			r.Extra = "validate"
			return r
		}
		var res *Result
		func() {
			defer func() {
				if r := recover(); r != nil {
					res = &Result{Status: "panic", Msg: fmt.Sprint(r)}
				}
			}()
			outs, err := op.Apply(vts)
			if err != nil {
				res = errResult(err)
				return
			}
			res = &Result{Status: "ok"}
			for k, o := range outs {
				res.Outs = append(res.Outs, toTJ(o))
				for i, in := range orig {
					if in != nil && o != nil && sameObj(in, o) {
						res.Alias = append(res.Alias, [2]int{k, i})
					}
				}
			}
		}()
		for i := range orig {
			res.Mut = append(res.Mut, diffSnap(i, snaps[i], snapshot(orig[i]))...)
		}
		return res
	})
}

func sameObj(a, b tensor.Tensor) bool {
	da, ok1 := a.(*tensor.Dense)
	db, ok2 := b.(*tensor.Dense)
	return ok1 && ok2 && da == db
}

func sp(s string) *string { return &s }

// normTJ rewrites the readable data of an integer tensor to the values actually stored after Go's
// conversion to the element type (e.g. 130 in an int8 tensor is -126), so that the driver sees what the
// implementation saw.
func normTJ(t *TJ) {
	if t == nil || len(t.Bits) > 0 {
		return
	}
	switch t.Dt {
	case "i8", "i16", "i32", "i64", "u8", "u16", "u32", "u64", "bool":
		b := mkBacking(t.Dt, t.Data)
		rv := reflect.ValueOf(b)
		for i := 0; i < rv.Len() && i < len(t.Data); i++ {
			t.Data[i] = canonScalar(rv.Index(i).Interface())
		}
	}
}
