package main

import (
	"bytes"
	"fmt"
	"os"
	"sort"

	"github.com/advancedclimatesystems/gonnx"
	"google.golang.org/protobuf/proto"
	"gorgonia.org/tensor"
)

func init() { gens["C02"] = genC02 }

// HistStep is one Run of a history.
type HistStep struct {
	Inputs   []NamedT       `json:"inputs,omitempty"`
	Reuse    bool           `json:"reuse,omitempty"`     // pass the very tensor objects of the previous step again
	FeedFrom map[string]string `json:"feed,omitempty"`   // input name <- output name of the previous step
	Note     string         `json:"note,omitempty"`
	// Rewrite: before the Run, the caller overwrites the CONTENTS of the tensor objects of the previous step
	// (same objects, new values: element i becomes -old - i%3) and passes them again
	Rewrite bool `json:"rewrite,omitempty"`
}

type stepReport struct {
	Status          string `json:"status"`
	EqualFresh      bool   `json:"equal_fresh"`
	EqualRepeat     bool   `json:"equal_repeat"` // equal to the previous Run when that had the very same inputs
	InputsUnchanged bool   `json:"inputs_unchanged"`
	WeightsSame     bool   `json:"weights_unchanged"`
	ProtoSame       bool   `json:"proto_unchanged"`
	Detail          string `json:"detail,omitempty"`
	Err             string `json:"err,omitempty"`
}

func weightsFingerprint(m *gonnx.Model) string {
	ps := m.VerifParameters()
	names := make([]string, 0, len(ps))
	for n := range ps {
		names = append(names, n)
	}
	sort.Strings(names)
	var b bytes.Buffer
	for _, n := range names {
		s := snapshot(ps[n])
		fmt.Fprintf(&b, "%s|%v|%v|%s|%s;", n, s.shape, s.strides, s.dt, s.data)
	}
	return b.String()
}

func protoFingerprint(m *gonnx.Model) string {
	b, err := proto.MarshalOptions{Deterministic: true}.Marshal(m.VerifModelProto())
	if err != nil {
		return "err:" + err.Error()
	}
	return string(b)
}

func sameOuts(a, b gonnx.Tensors) (bool, string) {
	if len(a) != len(b) {
		return false, fmt.Sprintf("%d vs %d outputs", len(a), len(b))
	}
	for n, ta := range a {
		tb, ok := b[n]
		if !ok {
			return false, "missing " + n
		}
		if (ta == nil) != (tb == nil) {
			return false, "nil-ness of " + n
		}
		if ta == nil {
			continue
		}
		sa, sb := snapshot(ta), snapshot(tb)
		if fmt.Sprint(sa.shape) != fmt.Sprint(sb.shape) || sa.dt != sb.dt {
			return false, fmt.Sprintf("%s: %v %s vs %v %s", n, sa.shape, sa.dt, sb.shape, sb.dt)
		}
		da, _ := dataList(ta)
		db, _ := dataList(tb)
		if fmt.Sprint(da) != fmt.Sprint(db) {
			return false, n + ": values differ"
		}
	}
	return true, ""
}

// rewriteInPlace gives the tensor object new contents (float32 / float64 only).
func rewriteInPlace(t tensor.Tensor) {
	switch d := t.Data().(type) {
	case []float32:
		for i := range d {
			d[i] = -d[i] - float32(i%3)
		}
	case []float64:
		for i := range d {
			d[i] = -d[i] - float64(i%3)
		}
	}
}

// historyCase runs a sequence of Runs on ONE model and compares every call with a freshly loaded
// model, snapshotting caller tensors, weights and the protobuf around every call.
func historyCase(stream string, load func() (*gonnx.Model, error), desc any, steps []HistStep) *Case {
	c := &Case{Kind: "history", Stream: stream, P: map[string]any{"model": desc, "steps": steps}}
	c.Impl = guard(func() *Result {
		m, err := load()
		if err != nil {
			r := errResult(err)
			r.Extra = "load"
			return r
		}
		w0, p0 := weightsFingerprint(m), protoFingerprint(m)
		var prevIn gonnx.Tensors
		var prevOut gonnx.Tensors
		var reports []stepReport
		prevOK := false
		for _, st := range steps {
			in := gonnx.Tensors{}
			if st.Reuse && prevIn != nil {
				for k, v := range prevIn {
					in[k] = v
				}
			}
			if st.Rewrite {
				for _, v := range in {
					rewriteInPlace(v)
				}
			}
			for _, nt := range st.Inputs {
				in[nt.Name] = mkTensor(nt.T)
			}
			for inName, outName := range st.FeedFrom {
				if prevOut != nil && prevOut[outName] != nil {
					in[inName] = prevOut[outName]
				}
			}
			snaps := map[string]snap{}
			for k, v := range in {
				snaps[k] = snapshot(v)
			}
			// what a freshly loaded model returns for equal (cloned) inputs
			fresh, ferr := load()
			var fout gonnx.Tensors
			var frErr error
			if ferr == nil {
				fin := gonnx.Tensors{}
				for k, v := range in {
					if cl, ok := v.Clone().(tensor.Tensor); ok {
						fin[k] = cl
					}
				}
				func() {
					defer func() {
						if r := recover(); r != nil {
							frErr = fmt.Errorf("panic: %v", r)
						}
					}()
					fout, frErr = fresh.Run(fin)
				}()
			}
			rep := stepReport{}
			var out gonnx.Tensors
			var rerr error
			func() {
				defer func() {
					if r := recover(); r != nil {
						rerr = fmt.Errorf("panic: %v", r)
						rep.Status = "panic"
					}
				}()
				out, rerr = m.Run(in)
			}()
			switch {
			case rep.Status == "panic":
			case rerr != nil:
				rep.Status = "error"
				rep.Err = rerr.Error()
				if len(rep.Err) > 160 {
					rep.Err = rep.Err[:160]
				}
			default:
				rep.Status = "ok"
			}
			if (rerr == nil) != (frErr == nil) {
				rep.EqualFresh = false
				rep.Detail = fmt.Sprintf("this model: %v; fresh model: %v", rerr, frErr)
			} else if rerr == nil {
				rep.EqualFresh, rep.Detail = sameOuts(out, fout)
			} else {
				rep.EqualFresh = true
			}
			// the same tensors once more: the previous result again, bit for bit (a fresh model in the same
			// process cannot reveal state kept outside the Model)
			rep.EqualRepeat = true
			if st.Reuse && !st.Rewrite && len(st.Inputs) == 0 && len(st.FeedFrom) == 0 && rerr == nil && prevOut != nil && prevOK {
				if ok, d := sameOuts(out, prevOut); !ok {
					rep.EqualRepeat = false
					rep.Detail += " differs from the previous Run on the same inputs: " + d
				}
			}
			prevOK = rerr == nil
			rep.InputsUnchanged = true
			for k, v := range in {
				if d := diffSnap(0, snaps[k], snapshot(v)); len(d) > 0 {
					rep.InputsUnchanged = false
					rep.Detail += fmt.Sprintf(" input %s modified: %s", k, d[0].What)
				}
			}
			rep.WeightsSame = weightsFingerprint(m) == w0
			rep.ProtoSame = protoFingerprint(m) == p0
			reports = append(reports, rep)
			prevIn = in
			if rerr == nil {
				prevOut = out
			}
		}
		return &Result{Status: "ok", Extra: map[string]any{"steps": reports}}
	})
	return c
}

func sampleModelLoader(name string) func() (*gonnx.Model, error) {
	return func() (*gonnx.Model, error) {
		b, err := os.ReadFile("/repo/sample_models/onnx_models/" + name)
		if err != nil {
			return nil, err
		}
		return gonnx.NewModelFromBytes(b)
	}
}

func genC02(e *emitter, tier string) {
	// (0) before anything else has run in this process: graphs in which a node relying on attribute
	// defaults precedes a node of the same type with explicit attributes; any state kept outside the
	// Model (package level) shows as a second Run that differs from the first
	for _, op := range []string{"RNN", "GRU", "LSTM"} {
		G := map[string]int{"LSTM": 4, "GRU": 3, "RNN": 1}[op]
		nact := map[string]int{"LSTM": 3, "GRU": 2, "RNN": 1}[op]
		inits := []InitJ{{Name: "W", T: tinyT("f32", []int{1, G * 2, 3}, 1)}, {Name: "R", T: tinyT("f32", []int{1, G * 2, 2}, 2)}}
		df := NodeJ{Op: op, Attrs: []Attr{{Name: "hidden_size", Type: "i", I: 2}}, Ins: []string{"x", "W", "R"}, Outs: []string{"Yd", "Yhd"}}
		ex := NodeJ{Op: op, Attrs: []Attr{{Name: "hidden_size", Type: "i", I: 2}, {Name: "activations", Type: "strings", Ss: []string{"relu", "relu", "relu"}[:nact]}}, Ins: []string{"x", "W", "R"}, Outs: []string{"Ye", "Yhe"}}
		g := &GraphJ{Inputs: []VInfoJ{{Name: "x", Dt: "f32", Dims: []any{"S", 2, 3}}}, Inits: inits, Nodes: []NodeJ{df, ex}, Outputs: []string{"Yd", "Yhd", "Ye", "Yhe"}}
		x := NamedT{"x", fT("f32", []int{2, 2, 3}, []float64{0.5, -1, 0.25, 1, -0.5, 0.75, -0.25, 0.5, 1, -1, 0.5, 0.25})}
		e.emit(historyCase("defaults-then-explicit:"+op, func() (*gonnx.Model, error) { return loadModel(g) }, g,
			[]HistStep{{Inputs: []NamedT{x}}, {Reuse: true}, {Reuse: true}}))
	}
	// (a) operator-level purity: the operator streams of the other properties, sampled
	type borrow struct {
		prop  string
		every int
	}
	bs := []borrow{{"C03", 25}, {"C04", 2}, {"C05", 1}, {"C06", 1}, {"C07", 40}, {"C08", 80}, {"C09", 8}, {"C10", 3}, {"C11", 2}, {"C14", 6}}
	if tier == "thorough" {
		bs = []borrow{{"C03", 3}, {"C04", 1}, {"C05", 1}, {"C06", 1}, {"C07", 4}, {"C08", 8}, {"C09", 1}, {"C10", 1}, {"C11", 1}, {"C14", 1}}
	}
	for _, b := range bs {
		e.every, e.seen = b.every, 0
		e.onlyKinds = map[string]bool{"op": true, "bcast": true}
		gens[b.prop](e, "quick")
	}
	// (a') the same streams, sampled, with every input of rank >= 2 handed over lazily transposed
	// (a legal tensor.Tensor a caller may pass): only "the caller's tensors are left as they were" is judged
	inputLayout = "lazy-transposed"
	e.streamPrefix = "lazyT:"
	for _, b := range bs {
		e.every, e.seen = b.every*2, 0
		gens[b.prop](e, "quick")
	}
	inputLayout, e.streamPrefix = "", ""
	e.every, e.onlyKinds = 0, nil

	// (b) histories on the sample models
	rnd := func(shape []int, scale float64) *TJ { return realT(e, "f32", shape, scale) }
	nh := 6
	if tier == "thorough" {
		nh = 60
	}
	for i := 0; i < nh; i++ {
		b1, b2, s1 := 1+e.rng.Intn(3), 1+e.rng.Intn(4), 1+e.rng.Intn(4)
		// gru.onnx: data_input [seq,batch,3], init_hidden [1,batch,5]; outputs preds, hidden_out
		e.emit(historyCase("sample", sampleModelLoader("gru.onnx"), "gru.onnx", []HistStep{
			{Inputs: []NamedT{{"data_input", rnd([]int{b1, s1, 3}, 1)}, {"init_hidden", rnd([]int{1, b1, 5}, 1)}}},
			{Reuse: true, Note: "same tensor objects again"},
			{Reuse: true, FeedFrom: map[string]string{"init_hidden": "hidden_out"}, Note: "state fed back"},
			{Inputs: []NamedT{{"data_input", rnd([]int{b2, 2, 3}, 1)}, {"init_hidden", rnd([]int{1, b2, 5}, 1)}}, Note: "other batch size"},
			{Inputs: []NamedT{{"data_input", rnd([]int{b2, 2, 4}, 1)}, {"init_hidden", rnd([]int{1, b2, 5}, 1)}}, Note: "failing call"},
			{Inputs: []NamedT{{"data_input", rnd([]int{b1, s1, 3}, 1)}, {"init_hidden", rnd([]int{1, b1, 5}, 1)}}},
		}))
		e.emit(historyCase("sample", sampleModelLoader("mlp.onnx"), "mlp.onnx", []HistStep{
			{Inputs: []NamedT{{"data_input", rnd([]int{b1, 3}, 2)}}},
			{Reuse: true},
			{Inputs: []NamedT{{"data_input", rnd([]int{b2, 3}, 2)}}},
			{Inputs: []NamedT{{"data_input", rnd([]int{b2, 2}, 2)}}, Note: "failing call"},
			{Inputs: []NamedT{{"data_input", rnd([]int{b1, 3}, 2)}}},
		}))
		e.emit(historyCase("sample", sampleModelLoader("ndm.onnx"), "ndm.onnx", []HistStep{
			{Inputs: []NamedT{{"sensor_input", rnd([]int{b1, s1, 4}, 1)}, {"setpoint_input", rnd([]int{b1, 1}, 1)}}},
			{Reuse: true},
			{Inputs: []NamedT{{"sensor_input", rnd([]int{b2, 2, 4}, 1)}, {"setpoint_input", rnd([]int{b2, 1}, 1)}}},
			{Inputs: []NamedT{{"sensor_input", rnd([]int{b2, 2, 4}, 1)}}, Note: "failing call: missing input"},
			{Inputs: []NamedT{{"sensor_input", rnd([]int{b1, s1, 4}, 1)}, {"setpoint_input", rnd([]int{b1, 1}, 1)}}},
		}))
		e.emit(historyCase("sample", sampleModelLoader("scaler.onnx"), "scaler.onnx", []HistStep{
			{Inputs: []NamedT{{"X", rnd([]int{b1, 3}, 5)}}}, {Reuse: true}, {Inputs: []NamedT{{"X", rnd([]int{b2, 3}, 5)}}},
		}))
	}
	// (c) histories on generated graphs that route weights / caller tensors into the sites named by the property
	for _, hg := range weightRoutingGraphs() {
		g := hg.g
		loader := func() (*gonnx.Model, error) { return loadModel(g) }
		steps := []HistStep{{Inputs: hg.ins}, {Reuse: true}, {Reuse: true, Rewrite: true, Note: "same tensor objects, new contents"}, {Inputs: hg.ins}, {Inputs: hg.bad, Note: "failing call"}, {Inputs: hg.ins}}
		if hg.feed != nil {
			steps = append(steps, HistStep{Reuse: true, FeedFrom: hg.feed, Note: "output fed back"})
		}
		e.emit(historyCase("routing:"+hg.name, loader, g, steps))
	}
	// a dynamic flatten driven by Shape of an input that declares no shape, run with alternating batch sizes
	for _, how := range []string{"", "dims"} {
		i64 := func(v ...int) *TJ { return idxT("i64", []int{len(v)}, v) }
		gs := &GraphJ{Inputs: []VInfoJ{{Name: "x", Dt: "f32", NoShape: true, How: how}},
			Inits: []InitJ{{Name: "zero", T: i64(0)}, {Name: "minus1", T: i64(-1)}, {Name: "w", T: smallT("f32", []int{6, 2}, 3)}},
			Nodes: []NodeJ{{Op: "Shape", Ins: []string{"x"}, Outs: []string{"s"}}, {Op: "Gather", Ins: []string{"s", "zero"}, Outs: []string{"n"}},
				{Op: "Concat", Attrs: []Attr{{Name: "axis", Type: "i", I: 0}}, Ins: []string{"n", "minus1"}, Outs: []string{"tgt"}},
				{Op: "Reshape", Ins: []string{"x", "tgt"}, Outs: []string{"flat"}}, {Op: "MatMul", Ins: []string{"flat", "w"}, Outs: []string{"y"}},
				{Op: "Softmax", Ins: []string{"flat"}, Outs: []string{"sm"}}},
			Outputs: []string{"y", "s", "tgt", "sm"}}
		x := func(n int) []NamedT { return []NamedT{{"x", smallT("f32", []int{n, 2, 3}, n)}} }
		e.emit(historyCase("shape-of-undeclared-input", func() (*gonnx.Model, error) { return loadModel(gs) }, gs,
			[]HistStep{{Inputs: x(1)}, {Inputs: x(3)}, {Inputs: x(1)}, {Inputs: x(2)}, {Reuse: true}}))
		e.emit(historyCase("shape-of-undeclared-input", func() (*gonnx.Model, error) { return loadModel(gs) }, gs,
			[]HistStep{{Inputs: x(3)}, {Inputs: x(1)}, {Inputs: x(3)}}))
	}
	// inputs of the same shape that differ only in the MIDDLE of a large tensor (rows 5-7 of 13, columns 5-7
	// of 13), one call after the other: a Model that recognises "the same inputs as last time" by a summary of
	// the tensor (a printed form, the first and last elements, a sampled hash) answers with the previous result
	{
		gw := &GraphJ{Inputs: []VInfoJ{{Name: "x", Dt: "f32", Dims: []any{"N", 13}}},
			Inits: []InitJ{{Name: "w", T: smallT("f32", []int{13, 2}, 3)}},
			Nodes: []NodeJ{{Op: "MatMul", Ins: []string{"x", "w"}, Outs: []string{"h"}}, {Op: "Relu", Ins: []string{"h"}, Outs: []string{"y"}}, {Op: "Abs", Ins: []string{"x"}, Outs: []string{"a"}}},
			Outputs: []string{"y", "a"}}
		base := func(delta float64) *TJ {
			return seqT("f32", []int{13, 13}, func(i int) float64 {
				r, c := i/13, i%13
				v := float64((i*7)%11 - 5)
				if r >= 5 && r <= 7 && c >= 5 && c <= 7 {
					v += delta
				}
				return v
			})
		}
		steps := []HistStep{{Inputs: []NamedT{{"x", base(0)}}}, {Inputs: []NamedT{{"x", base(3)}}, Note: "differs from the previous call only in the middle"},
			{Inputs: []NamedT{{"x", base(0)}}}, {Inputs: []NamedT{{"x", base(-2)}}}, {Reuse: true}}
		e.emit(historyCase("middle-of-large-input", func() (*gonnx.Model, error) { return loadModel(gw) }, gw, steps))
	}
	// a caller tensor that overrides an initializer, with the initializer's element count but another rank
	// (inputs shadowed by initializers are not shape-checked): the caller's tensor stays as it was
	for _, cs := range [][]int{{}, {1}, {1, 1}, {1, 1, 1}} {
		for _, is := range [][]int{{}, {1}, {1, 1}} {
			g := &GraphJ{Inputs: []VInfoJ{{Name: "x", Dt: "f32", Dims: []any{2}}, {Name: "w", Dt: "f32", Dims: toAny(is)}},
				Inits:   []InitJ{{Name: "w", T: vals("f32", is, 10)}},
				Nodes:   []NodeJ{{Op: "Add", Ins: []string{"x", "w"}, Outs: []string{"y"}}, {Op: "Mul", Ins: []string{"w", "w"}, Outs: []string{"z"}}},
				Outputs: []string{"y", "z"}}
			x := NamedT{"x", vals("f32", []int{2}, 1, 2)}
			w := NamedT{"w", vals("f32", cs, 5)}
			e.emit(historyCase("override-single-element", func() (*gonnx.Model, error) { return loadModel(g) }, g,
				[]HistStep{{Inputs: []NamedT{x, w}}, {Reuse: true}, {Inputs: []NamedT{x}}, {Inputs: []NamedT{x, w}}}))
		}
	}
	// random DAGs, run three times each
	nd := 40
	if tier == "thorough" {
		nd = 1500
	}
	for i := 0; i < nd; i++ {
		g, ins := genDAG(e, 8)
		loader := func() (*gonnx.Model, error) { return loadModel(g) }
		e.emit(historyCase("dag", loader, g, []HistStep{{Inputs: ins}, {Reuse: true}, {Reuse: true, Rewrite: true}, {Inputs: ins}}))
	}
}

type histGraph struct {
	name string
	g    *GraphJ
	ins  []NamedT
	bad  []NamedT
	feed map[string]string
}

// graphs whose weights (initializers) or caller tensors reach Conv bias, recurrent initial state,
// reduction operands, Expand / Concat pass-through, Constant values, typed and raw encodings.
func weightRoutingGraphs() []histGraph {
	var out []histGraph
	x4 := NamedT{"x", smallT("f32", []int{1, 1, 4, 3}, 1)}
	// Conv with bias as initializer (typed and raw) and as caller tensor
	for _, raw := range []bool{false, true} {
		g := &GraphJ{Inputs: []VInfoJ{{Name: "x", Dt: "f32", Dims: []any{"N", 1, 4, 3}}},
			Inits:   []InitJ{{Name: "w", T: tinyT("f32", []int{2, 1, 2, 2}, 3), Raw: raw}, {Name: "b", T: vals("f32", []int{2}, 5, 7), Raw: raw}},
			Nodes:   []NodeJ{{Op: "Conv", Ins: []string{"x", "w", "b"}, Outs: []string{"y"}}},
			Outputs: []string{"y"}}
		out = append(out, histGraph{fmt.Sprintf("conv-bias-weight-raw=%v", raw), g, []NamedT{x4}, []NamedT{{"x", smallT("f32", []int{1, 2, 4, 3}, 1)}}, nil})
	}
	gcb := &GraphJ{Inputs: []VInfoJ{{Name: "x", Dt: "f32", Dims: []any{"N", 1, 4, 3}}, {Name: "b", Dt: "f32", Dims: []any{2}}},
		Inits: []InitJ{{Name: "w", T: tinyT("f32", []int{2, 1, 2, 2}, 3)}}, Nodes: []NodeJ{{Op: "Conv", Ins: []string{"x", "w", "b"}, Outs: []string{"y"}}}, Outputs: []string{"y"}}
	out = append(out, histGraph{"conv-bias-caller", gcb, []NamedT{x4, {"b", vals("f32", []int{2}, 5, 7)}}, []NamedT{x4}, nil})
	// recurrent operators with the initial state as a weight, and as a caller tensor fed back
	for _, op := range []string{"RNN", "GRU", "LSTM"} {
		G := map[string]int{"LSTM": 4, "GRU": 3, "RNN": 1}[op]
		acts := make([]string, map[string]int{"LSTM": 3, "GRU": 2, "RNN": 1}[op])
		for i := range acts {
			acts[i] = "relu"
		}
		attrs := []Attr{{Name: "hidden_size", Type: "i", I: 2}, {Name: "activations", Type: "strings", Ss: acts}}
		inits := []InitJ{{Name: "W", T: tinyT("f32", []int{1, G * 2, 3}, 1)}, {Name: "R", T: tinyT("f32", []int{1, G * 2, 2}, 2)}, {Name: "h0", T: tinyT("f32", []int{1, 2, 2}, 3)}, {Name: "c0", T: tinyT("f32", []int{1, 2, 2}, 4)}}
		ins := []string{"x", "W", "R", "", "", "h0"}
		outs := []string{"Y", "Yh"}
		if op == "LSTM" {
			ins = append(ins, "c0")
			outs = append(outs, "Yc")
		}
		g := &GraphJ{Inputs: []VInfoJ{{Name: "x", Dt: "f32", Dims: []any{"S", 2, 3}}}, Inits: inits,
			Nodes: []NodeJ{{Op: op, Attrs: attrs, Ins: ins, Outs: outs}}, Outputs: outs}
		x := NamedT{"x", smallT("f32", []int{2, 2, 3}, 2)}
		out = append(out, histGraph{"state-weight-" + op, g, []NamedT{x}, []NamedT{{"x", smallT("f32", []int{2, 2, 4}, 2)}}, nil})
		// caller-supplied state, fed back from the previous Run
		g2 := &GraphJ{Inputs: []VInfoJ{{Name: "x", Dt: "f32", Dims: []any{"S", 2, 3}}, {Name: "h0", Dt: "f32", Dims: []any{1, 2, 2}}, {Name: "c0", Dt: "f32", Dims: []any{1, 2, 2}}},
			Inits: inits[:2], Nodes: g.Nodes, Outputs: outs}
		in2 := []NamedT{x, {"h0", tinyT("f32", []int{1, 2, 2}, 5)}, {"c0", tinyT("f32", []int{1, 2, 2}, 6)}}
		feed := map[string]string{"h0": "Yh"}
		if op == "LSTM" {
			feed["c0"] = "Yc"
		}
		out = append(out, histGraph{"state-caller-" + op, g2, in2, []NamedT{x}, feed})
	}
	// reduction operands and pass-through operators on weights
	gw := &GraphJ{Inputs: []VInfoJ{{Name: "x", Dt: "f32", Dims: []any{2, 3}}},
		Inits: []InitJ{{Name: "w", T: smallT("f32", []int{2, 3}, 4)}, {Name: "tgt", T: idxT("i64", []int{2}, []int{2, 3})}, {Name: "sh", T: idxT("i64", []int{1}, []int{6})}, {Name: "ax", T: idxT("i64", []int{1}, []int{0})}},
		Nodes: []NodeJ{
			{Op: "ArgMax", Attrs: []Attr{{Name: "axis", Type: "i", I: 1}, {Name: "keepdims", Type: "i", I: 1}}, Ins: []string{"w"}, Outs: []string{"am"}},
			{Op: "ArgMax", Attrs: []Attr{{Name: "axis", Type: "i", I: 0}, {Name: "keepdims", Type: "i", I: 1}}, Ins: []string{"x"}, Outs: []string{"amx"}},
			{Op: "ReduceMax", Attrs: []Attr{{Name: "axes", Type: "ints", Ints: []int64{1}}, {Name: "keepdims", Type: "i", I: 1}}, Ins: []string{"w"}, Outs: []string{"rm"}},
			{Op: "ReduceMin", Attrs: []Attr{{Name: "axes", Type: "ints", Ints: []int64{0}}, {Name: "keepdims", Type: "i", I: 1}}, Ins: []string{"x"}, Outs: []string{"rn"}},
			{Op: "Expand", Ins: []string{"w", "tgt"}, Outs: []string{"ex"}},
			{Op: "Concat", Attrs: []Attr{{Name: "axis", Type: "i", I: 0}}, Ins: []string{"w"}, Outs: []string{"cc"}},
			{Op: "Reshape", Ins: []string{"w", "sh"}, Outs: []string{"rs"}},
			{Op: "Unsqueeze", Ins: []string{"x", "ax"}, Outs: []string{"us"}},
			{Op: "Add", Ins: []string{"x", "w"}, Outs: []string{"sum"}},
			{Op: "Constant", Attrs: []Attr{{Name: "value", Type: "t", T: smallT("f32", []int{2}, 9)}}, Ins: []string{}, Outs: []string{"k"}},
			{Op: "Squeeze", Ins: []string{"us"}, Outs: []string{"sq"}},
		}, Outputs: []string{"am", "amx", "rm", "rn", "ex", "cc", "rs", "us", "sum", "k", "sq", "w"}}
	// matrix products whose operands are weights at every position, transposed and not, one weight used twice
	gm := &GraphJ{Inputs: []VInfoJ{{Name: "x", Dt: "f32", Dims: []any{"N", 3}}},
		Inits: []InitJ{{Name: "wa", T: smallT("f32", []int{3, 3}, 4)}, {Name: "wb", T: smallT("f32", []int{2, 3}, 5)}, {Name: "wc", T: smallT("f32", []int{3}, 6)}},
		Nodes: []NodeJ{
			{Op: "Gemm", Attrs: []Attr{{Name: "transA", Type: "i", I: 1}}, Ins: []string{"wa", "wa", "wc"}, Outs: []string{"gram"}},
			{Op: "Gemm", Attrs: []Attr{{Name: "transA", Type: "i", I: 1}, {Name: "transB", Type: "i", I: 1}}, Ins: []string{"wa", "x", "wc"}, Outs: []string{"g1"}},
			{Op: "Gemm", Attrs: []Attr{{Name: "transB", Type: "i", I: 1}, {Name: "alpha", Type: "f", F: 2}, {Name: "beta", Type: "f", F: 0.5}}, Ins: []string{"x", "wb"}, Outs: []string{"g2"}},
			{Op: "MatMul", Ins: []string{"x", "wa"}, Outs: []string{"m1"}},
			{Op: "MatMul", Ins: []string{"wa", "wa"}, Outs: []string{"m2"}},
			{Op: "MatMul", Ins: []string{"wb", "wc"}, Outs: []string{"m3"}},
		}, Outputs: []string{"gram", "g1", "g2", "m1", "m2", "m3", "wa"}}
	out = append(out, histGraph{"matrix-products", gm, []NamedT{{"x", smallT("f32", []int{3, 3}, 7)}}, []NamedT{{"x", smallT("f32", []int{3, 2}, 7)}}, nil})
	// pass-through operators (Expand with nothing to expand, one-input Concat, Reshape to the same shape,
	// Squeeze/Unsqueeze pairs) whose results are INTERMEDIATE values, applied to a caller tensor and to a weight
	gpi := &GraphJ{Inputs: []VInfoJ{{Name: "x", Dt: "f32", Dims: []any{2, 3}}},
		Inits: []InitJ{{Name: "w", T: smallT("f32", []int{2, 3}, 4)}, {Name: "tgt", T: idxT("i64", []int{2}, []int{2, 3})}, {Name: "sh", T: idxT("i64", []int{2}, []int{2, 3})}},
		Nodes: []NodeJ{
			{Op: "Expand", Ins: []string{"x", "tgt"}, Outs: []string{"ex"}},
			{Op: "Expand", Ins: []string{"w", "tgt"}, Outs: []string{"ew"}},
			{Op: "Concat", Attrs: []Attr{{Name: "axis", Type: "i", I: 0}}, Ins: []string{"x"}, Outs: []string{"cx"}},
			{Op: "Concat", Attrs: []Attr{{Name: "axis", Type: "i", I: 1}}, Ins: []string{"w"}, Outs: []string{"cw"}},
			{Op: "Reshape", Ins: []string{"x", "sh"}, Outs: []string{"rx"}},
			{Op: "Add", Ins: []string{"ex", "ew"}, Outs: []string{"y1"}},
			{Op: "Mul", Ins: []string{"cx", "cw"}, Outs: []string{"y2"}},
			{Op: "Sub", Ins: []string{"rx", "w"}, Outs: []string{"y3"}},
			{Op: "Relu", Ins: []string{"x"}, Outs: []string{"y4"}},
		}, Outputs: []string{"y1", "y2", "y3", "y4"}}
	out = append(out, histGraph{"passthrough-intermediate", gpi, []NamedT{{"x", smallT("f32", []int{2, 3}, 7)}}, []NamedT{{"x", smallT("f32", []int{3, 3}, 7)}}, nil})
	// attribute-backed tensors (Scaler / LinearRegressor share storage with the protobuf) with inputs that
	// already have the attribute's shape
	gsc := &GraphJ{Inputs: []VInfoJ{{Name: "x", Dt: "f32", Dims: []any{3}}, {Name: "x2", Dt: "f32", Dims: []any{1, 3}}},
		Nodes: []NodeJ{
			{Op: "Scaler", Attrs: []Attr{{Name: "offset", Type: "floats", Fs: []float64{1, 2, 3}}, {Name: "scale", Type: "floats", Fs: []float64{2, 3, 4}}}, Ins: []string{"x"}, Outs: []string{"s"}},
			{Op: "Scaler", Attrs: []Attr{{Name: "offset", Type: "floats", Fs: []float64{1, 2, 3}}, {Name: "scale", Type: "floats", Fs: []float64{2, 3, 4}}}, Ins: []string{"x2"}, Outs: []string{"s2"}},
			{Op: "LinearRegressor", Attrs: []Attr{{Name: "coefficients", Type: "floats", Fs: []float64{1, 0, -1}}, {Name: "intercepts", Type: "floats", Fs: []float64{1}}, {Name: "targets", Type: "i", I: 1}}, Ins: []string{"x2"}, Outs: []string{"y"}},
		}, Outputs: []string{"s", "s2", "y"}}
	out = append(out, histGraph{"ml-attrs-same-shape", gsc, []NamedT{{"x", smallT("f32", []int{3}, 2)}, {"x2", smallT("f32", []int{1, 3}, 3)}}, []NamedT{{"x", smallT("f32", []int{4}, 2)}, {"x2", smallT("f32", []int{1, 3}, 3)}}, nil})
	// ONE weight handed DIRECTLY to every operator that takes a tensor (not only to the products and
	// convolutions): whatever an operator does to its operand in place or lazily (transpose, reshape, slice
	// views, casts) happens to the shared weight
	{
		i64 := func(v ...int) *TJ { return idxT("i64", []int{len(v)}, v) }
		gwe := &GraphJ{Inputs: []VInfoJ{{Name: "x", Dt: "f32", Dims: []any{3, 3}}},
			Inits: []InitJ{{Name: "W", T: smallT("f32", []int{3, 3}, 5)}, {Name: "W3", T: smallT("f32", []int{2, 3, 2}, 6)}, {Name: "Wrow", T: smallT("f32", []int{1, 3}, 2)},
				{Name: "sh", T: i64(1, 9)}, {Name: "ax0", T: i64(0)}, {Name: "st", T: i64(1)}, {Name: "en", T: i64(3)}, {Name: "idx", T: i64(2, 0)}, {Name: "tgt", T: i64(3, 3)}},
			Nodes: []NodeJ{
				{Op: "Transpose", Attrs: []Attr{{Name: "perm", Type: "ints", Ints: []int64{1, 0}}}, Ins: []string{"W"}, Outs: []string{"t1"}},
				{Op: "Transpose", Attrs: []Attr{{Name: "perm", Type: "ints", Ints: []int64{2, 0, 1}}}, Ins: []string{"W3"}, Outs: []string{"t2"}},
				{Op: "Transpose", Attrs: []Attr{{Name: "perm", Type: "ints", Ints: []int64{1, 0}}}, Ins: []string{"Wrow"}, Outs: []string{"t3"}},
				{Op: "MatMul", Ins: []string{"x", "t1"}, Outs: []string{"m"}},
				{Op: "Reshape", Ins: []string{"W", "sh"}, Outs: []string{"r"}},
				{Op: "Flatten", Attrs: []Attr{{Name: "axis", Type: "i", I: 2}}, Ins: []string{"W3"}, Outs: []string{"f"}},
				{Op: "Squeeze", Ins: []string{"Wrow"}, Outs: []string{"sq"}},
				{Op: "Unsqueeze", Ins: []string{"W", "ax0"}, Outs: []string{"u"}},
				{Op: "Slice", Ins: []string{"W", "st", "en"}, Outs: []string{"sl"}},
				{Op: "Gather", Attrs: []Attr{{Name: "axis", Type: "i", I: 1}}, Ins: []string{"W", "idx"}, Outs: []string{"ga"}},
				{Op: "Expand", Ins: []string{"Wrow", "tgt"}, Outs: []string{"ex"}},
				{Op: "Concat", Attrs: []Attr{{Name: "axis", Type: "i", I: 0}}, Ins: []string{"W", "x"}, Outs: []string{"cc"}},
				{Op: "Cast", Attrs: []Attr{{Name: "to", Type: "i", I: 6}}, Ins: []string{"W"}, Outs: []string{"ca"}},
				{Op: "ReduceMax", Attrs: []Attr{{Name: "axes", Type: "ints", Ints: []int64{1}}}, Ins: []string{"W"}, Outs: []string{"rmx"}},
				{Op: "ReduceMin", Attrs: []Attr{{Name: "axes", Type: "ints", Ints: []int64{0}}, {Name: "keepdims", Type: "i", I: 0}}, Ins: []string{"W3"}, Outs: []string{"rmn"}},
				{Op: "ArgMax", Attrs: []Attr{{Name: "axis", Type: "i", I: 1}}, Ins: []string{"W"}, Outs: []string{"am"}},
				{Op: "Abs", Ins: []string{"W"}, Outs: []string{"ab"}},
				{Op: "Relu", Ins: []string{"W"}, Outs: []string{"re"}},
				{Op: "PRelu", Ins: []string{"x", "Wrow"}, Outs: []string{"pr"}},
				{Op: "Add", Ins: []string{"W", "x"}, Outs: []string{"ad"}},
				{Op: "Mul", Ins: []string{"x", "Wrow"}, Outs: []string{"mu"}},
				{Op: "Less", Ins: []string{"W", "x"}, Outs: []string{"le"}},
				{Op: "Equal", Ins: []string{"W", "x"}, Outs: []string{"eq"}},
				{Op: "GreaterOrEqual", Ins: []string{"x", "W"}, Outs: []string{"geq"}},
				{Op: "Greater", Ins: []string{"x", "Wrow"}, Outs: []string{"gt"}},
				{Op: "LessOrEqual", Ins: []string{"Wrow", "x"}, Outs: []string{"leq"}},
				{Op: "And", Ins: []string{"eq", "le"}, Outs: []string{"an"}},
				{Op: "Or", Ins: []string{"eq", "gt"}, Outs: []string{"orr"}},
				{Op: "Xor", Ins: []string{"geq", "leq"}, Outs: []string{"xo"}},
				{Op: "Not", Ins: []string{"eq"}, Outs: []string{"no"}},
				{Op: "Sub", Ins: []string{"W", "x"}, Outs: []string{"su"}},
				{Op: "Div", Ins: []string{"x", "Wrow"}, Outs: []string{"dv"}},
				{Op: "Sigmoid", Ins: []string{"W"}, Outs: []string{"sg"}},
				{Op: "Tanh", Ins: []string{"W"}, Outs: []string{"th"}},
				{Op: "Softmax", Attrs: []Attr{{Name: "axis", Type: "i", I: 0}}, Ins: []string{"W"}, Outs: []string{"sm"}},
				{Op: "LogSoftmax", Ins: []string{"W"}, Outs: []string{"lsm"}},
				{Op: "Scaler", Attrs: []Attr{{Name: "offset", Type: "floats", Fs: []float64{1, 2, 3}}, {Name: "scale", Type: "floats", Fs: []float64{2, 2, 2}}}, Ins: []string{"W"}, Outs: []string{"sc"}},
				{Op: "ConstantOfShape", Ins: []string{"tgt"}, Outs: []string{"cos"}},
				{Op: "Shape", Ins: []string{"W3"}, Outs: []string{"shp"}},
				{Op: "Gemm", Attrs: []Attr{{Name: "transB", Type: "i", I: 1}}, Ins: []string{"x", "W", "Wrow"}, Outs: []string{"ge"}},
			}, Outputs: []string{"t1", "t2", "t3", "m", "r", "f", "sq", "u", "sl", "ga", "ex", "cc", "ca", "rmx", "rmn", "am", "ab", "re", "pr", "ad", "mu", "le", "shp", "ge", "W", "eq", "geq", "gt", "leq", "an", "orr", "xo", "no", "su", "dv", "sg", "th", "sm", "lsm", "sc", "cos"}}
		out = append(out, histGraph{"weight-into-every-operator", gwe, []NamedT{{"x", smallT("f32", []int{3, 3}, 7)}}, []NamedT{{"x", smallT("f32", []int{3, 2}, 7)}}, nil})
	}
	out = append(out, histGraph{"reductions-passthrough", gw, []NamedT{{"x", smallT("f32", []int{2, 3}, 7)}}, []NamedT{{"x", smallT("f32", []int{3, 3}, 7)}}, nil})
	return out
}

func toAny(s []int) []any {
	o := make([]any, len(s))
	for i, v := range s {
		o[i] = v
	}
	return o
}
