package main

import (
	"encoding/json"
	"fmt"
	"os"
	"strings"

	"github.com/advancedclimatesystems/gonnx"
)

// replay re-runs ONE recorded case (the "case" object of a replay file) against the implementation in
// /repo's current working tree and prints the case with a fresh "impl" field as one JSON line - the same
// line the generator would have written, so that the driver and the judge can be run on it again.
// Kinds whose inputs are closures of the generator (concurrent, batch on sample models with random
// data, load of raw bytes) are re-run from what the case records where that is possible.
func replay(path string) {
	b, err := os.ReadFile(path)
	if err != nil {
		fmt.Fprintln(os.Stderr, err)
		os.Exit(2)
	}
	var c Case
	dec := json.NewDecoder(strings.NewReader(string(b)))
	dec.UseNumber()
	if err := dec.Decode(&c); err != nil {
		fmt.Fprintln(os.Stderr, "cannot parse case:", err)
		os.Exit(2)
	}
	remarshal := func(v any, into any) bool {
		bb, err := json.Marshal(v)
		if err != nil {
			return false
		}
		d := json.NewDecoder(strings.NewReader(string(bb)))
		d.UseNumber()
		return d.Decode(into) == nil
	}
	var fresh *Case
	switch c.Kind {
	case "op":
		if strings.HasPrefix(c.Stream, "lazyT:") {
			inputLayout = "lazy-transposed"
		}
		fresh = &Case{Kind: "op", Stream: c.Stream, Op: c.Op, Attrs: c.Attrs, Inputs: c.Inputs, Outputs: c.Outputs, Share: c.Share, P: c.P}
		fresh.Impl = runOpShared(c.Op, c.Attrs, c.Inputs, c.Outputs, c.Share)
	case "bcast":
		if len(c.Inputs) == 2 {
			fresh = bcastCase(c.Op, c.Inputs[0], c.Inputs[1])
		}
	case "gate":
		// the probes that ride on gate cases alternate with a counter: run both parities
		gateCounter = 0
		a := gateCase(c.Op, c.Dts)
		bq := gateCase(c.Op, c.Dts)
		fresh = a
		if ja, _ := json.Marshal(a.Impl); c.Impl != nil {
			if jc, _ := json.Marshal(c.Impl); string(ja) != string(jc) {
				fresh = bq
			}
		}
	case "decode":
		var tp TPJ
		if remarshal(c.P["tp"], &tp) {
			fresh = decodeCase(c.Stream, &tp)
		}
	case "validate":
		var sup []SupJ
		if c.Graph != nil && remarshal(c.P["supplied"], &sup) {
			validateCounter = 0
			a := validateCase(c.Stream, c.Graph, sup)
			bq := validateCase(c.Stream, c.Graph, sup) // with the warm-up Run
			fresh = a
			if a.Impl.Status == "ok" && bq.Impl.Status != "ok" || (c.Impl != nil && bq.Impl.Status == c.Impl.Status && a.Impl.Status != c.Impl.Status) {
				fresh = bq
			}
		}
	case "graph":
		var ins []NamedT
		if c.Graph != nil && remarshal(c.P["inputs"], &ins) {
			fresh = graphCase(c.Stream, c.Graph, ins)
		}
	case "history":
		var steps []HistStep
		if !remarshal(c.P["steps"], &steps) {
			break
		}
		if name, ok := c.P["model"].(string); ok {
			fresh = historyCase(c.Stream, sampleModelLoader(name), name, steps)
		} else {
			var g GraphJ
			if remarshal(c.P["model"], &g) {
				fresh = historyCase(c.Stream, func() (*gonnx.Model, error) { return loadModel(&g) }, &g, steps)
			}
		}
	}
	if fresh == nil {
		fmt.Fprintf(os.Stderr, "cases of kind %q (stream %q) are not replayable from the record alone; re-run the check with the same --seed\n", c.Kind, c.Stream)
		os.Exit(3)
	}
	fresh.ID, fresh.Prop = c.ID, c.Prop
	for _, t := range fresh.Inputs {
		normTJ(t)
	}
	out, _ := json.Marshal(fresh)
	fmt.Println(string(out))
}
