package main

import "fmt"

func replay(path string) { fmt.Println("replay not implemented yet:", path) }
