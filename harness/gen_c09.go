package main

import "math"

func init() {
	gens["C09"] = genC09
	exampleCases["ArgMax"] = &Case{Op: "ArgMax", Attrs: []Attr{{Name: "axis", Type: "i", I: 1}, {Name: "keepdims", Type: "i", I: 0}}, Inputs: []*TJ{iota1("f32", 2, 3)}}
	exampleCases["ReduceMax"] = &Case{Op: "ReduceMax", Attrs: []Attr{{Name: "axes", Type: "ints", Ints: []int64{1}}, {Name: "keepdims", Type: "i", I: 0}}, Inputs: []*TJ{iota1("f32", 2, 3)}}
	exampleCases["ReduceMin"] = &Case{Op: "ReduceMin", Attrs: []Attr{{Name: "axes", Type: "ints", Ints: []int64{0}}, {Name: "keepdims", Type: "i", I: 0}}, Inputs: []*TJ{iota1("f32", 2, 3)}}
	exampleCases["Softmax"] = &Case{Op: "Softmax", Attrs: []Attr{{Name: "axis", Type: "i", I: 0}}, Inputs: []*TJ{iota1("f32", 2, 3)}}
	exampleCases["LogSoftmax"] = &Case{Op: "LogSoftmax", Attrs: []Attr{{Name: "axis", Type: "i", I: 0}}, Inputs: []*TJ{iota1("f32", 2, 3)}}
}

// subsets of {lo..hi} (as lists, in increasing order), plus a few unsorted / negative spellings
func axisSubsets(r int) [][]int {
	var out [][]int
	for m := 0; m < 1<<r; m++ {
		var s []int
		for a := 0; a < r; a++ {
			if m&(1<<a) != 0 {
				s = append(s, a)
			}
		}
		out = append(out, s)
	}
	return out
}

func permsOf(s []int) [][]int {
	if len(s) <= 1 {
		return [][]int{append([]int{}, s...)}
	}
	var out [][]int
	for i := range s {
		rest := append(append([]int{}, s[:i]...), s[i+1:]...)
		for _, p := range permsOf(rest) {
			out = append(out, append([]int{s[i]}, p...))
		}
	}
	return out
}

func genC09(e *emitter, tier string) {
	R, E := 3, 3
	if tier == "thorough" {
		R, E = 4, 3
	}
	shapes := allShapes(R, E)
	if tier != "thorough" {
		shapes = append(shapes, []int{2, 1, 3, 2}, []int{1, 2, 2, 3})
	}
	dts := []string{"f32", "f64", "i32", "i64", "u32", "u64"}
	k := 0
	// values with ties so that first-occurrence matters; distinct enough that placement is visible
	tie := func(s []int) *TJ {
		dt := dts[k%len(dts)]
		k++
		return seqT(dt, s, func(i int) float64 { return float64((i*7 + k) % 5) })
	}
	for _, s := range shapes {
		r := len(s)
		if r == 0 {
			e.emit(opCase("argmax-scalar", "ArgMax", nil, []*TJ{tie(s)}, nil))
			continue
		}
		for ax := -r - 1; ax <= r; ax++ {
			for _, keep := range []int64{0, 1} {
				e.emit(opCase("argmax", "ArgMax", []Attr{{Name: "axis", Type: "i", I: int64(ax)}, {Name: "keepdims", Type: "i", I: keep}}, []*TJ{tie(s)}, nil))
			}
			e.emit(opCase("argmax", "ArgMax", []Attr{{Name: "axis", Type: "i", I: int64(ax)}}, []*TJ{tie(s)}, nil))
		}
		e.emit(opCase("argmax", "ArgMax", nil, []*TJ{tie(s)}, nil))
		e.emit(opCase("argmax-attrs", "ArgMax", []Attr{{Name: "select_last_index", Type: "i", I: 1}}, []*TJ{tie(s)}, nil))
		e.emit(opCase("argmax-attrs", "ArgMax", []Attr{{Name: "select_last_index", Type: "i", I: 0}, {Name: "keepdims", Type: "i", I: 2}}, []*TJ{tie(s)}, nil))
		for _, op := range []string{"ReduceMax", "ReduceMin"} {
			for _, sub := range axisSubsets(r) {
				for _, keep := range []int64{0, 1} {
					// positive spelling, negative spelling, reversed order
					neg := make([]int, len(sub))
					rev := make([]int, len(sub))
					for i, a := range sub {
						neg[i] = a - r
						rev[len(sub)-1-i] = a
					}
					e.emit(opCase("reduce", op, []Attr{{Name: "axes", Type: "ints", Ints: ints64(sub)}, {Name: "keepdims", Type: "i", I: keep}}, []*TJ{tie(s)}, nil))
					if len(sub) > 0 {
						e.emit(opCase("reduce", op, []Attr{{Name: "axes", Type: "ints", Ints: ints64(neg)}, {Name: "keepdims", Type: "i", I: keep}}, []*TJ{tie(s)}, nil))
						e.emit(opCase("reduce", op, []Attr{{Name: "keepdims", Type: "i", I: keep}, {Name: "axes", Type: "ints", Ints: ints64(rev)}}, []*TJ{tie(s)}, nil))
					}
				}
				e.emit(opCase("reduce", op, []Attr{{Name: "axes", Type: "ints", Ints: ints64(sub)}}, []*TJ{tie(s)}, nil))
				// every ORDER of the listed axes (not only ascending / descending), spellings mixed within one list
				if len(sub) >= 2 && (r == 4 || len(sub) >= 3) {
					for pi, p := range permsOf(sub) {
						mixed := make([]int, len(p))
						for i, a := range p {
							mixed[i] = a
							if (i+pi)%2 == 1 {
								mixed[i] = a - r
							}
						}
						e.emit(opCase("reduce-orders", op, []Attr{{Name: "axes", Type: "ints", Ints: ints64(mixed)}, {Name: "keepdims", Type: "i", I: int64(pi % 2)}}, []*TJ{tie(s)}, nil))
					}
				} else if len(sub) == 2 {
					e.emit(opCase("reduce-orders", op, []Attr{{Name: "axes", Type: "ints", Ints: []int64{int64(sub[1]), int64(sub[0] - r)}}, {Name: "keepdims", Type: "i", I: 0}}, []*TJ{tie(s)}, nil))
					e.emit(opCase("reduce-orders", op, []Attr{{Name: "axes", Type: "ints", Ints: []int64{int64(sub[0]), int64(sub[1] - r)}}, {Name: "keepdims", Type: "i", I: 1}}, []*TJ{tie(s)}, nil))
				}
			}
			e.emit(opCase("reduce", op, []Attr{{Name: "keepdims", Type: "i", I: 0}}, []*TJ{tie(s)}, nil))
			e.emit(opCase("reduce", op, []Attr{{Name: "keepdims", Type: "i", I: 1}}, []*TJ{tie(s)}, nil))
			e.emit(opCase("reduce-attrs", op, nil, []*TJ{tie(s)}, nil))
			e.emit(opCase("reduce-bad", op, []Attr{{Name: "axes", Type: "ints", Ints: []int64{int64(r)}}}, []*TJ{tie(s)}, nil))
			e.emit(opCase("reduce-bad", op, []Attr{{Name: "axes", Type: "ints", Ints: []int64{int64(-r - 1)}}}, []*TJ{tie(s)}, nil))
		}
		// softmax family: every axis spelling, values across the float range (testing stream: tolerance)
		for _, op := range []string{"Softmax", "LogSoftmax"} {
			for ax := -r - 1; ax <= r; ax++ {
				for _, dt := range []string{"f32", "f64"} {
					mags := []float64{1, 30, 1e4, 1e30, 1e-30}
					if dt == "f64" {
						mags = append(mags, 1e300, 1e-300)
					}
					m := mags[k%len(mags)]
					k++
					v := make([]float64, nelem(s))
					for i := range v {
						v[i] = m * float64((i*5+k)%7-3) / 3
					}
					if dt == "f32" && m >= 1e30 {
						for i := range v {
							v[i] = math.Max(-3e38, math.Min(3e38, v[i]))
						}
					}
					c := opCase("softmax", op, []Attr{{Name: "axis", Type: "i", I: int64(ax)}}, []*TJ{fT(dt, s, v)}, nil)
					c.P = map[string]any{"props": ax >= -r && ax < r, "axis": ax}
					e.emit(c)
				}
			}
			c := opCase("softmax", op, nil, []*TJ{fT("f32", s, make([]float64, nelem(s)))}, nil)
			c.P = map[string]any{"props": true, "axis": -1}
			e.emit(c)
		}
	}
	// large operands: long lanes and many lanes (kernels switch strategy with size)
	largeShapes := [][]int{{2049}, {3, 1025}, {1025, 3}}
	if tier == "thorough" {
		largeShapes = [][]int{{2049}, {3, 1025}, {1025, 3}, {9001}, {3, 3001}, {3001, 3}}
	}
	for _, sh := range largeShapes {
		x := seqT("f32", sh, func(i int) float64 { return float64((i*37+11)%1009 - 500) })
		for ax := 0; ax < len(sh); ax++ {
			for _, kd := range []int64{0, 1} {
				e.emit(opCase("large", "ArgMax", []Attr{{Name: "axis", Type: "i", I: int64(ax)}, {Name: "keepdims", Type: "i", I: kd}}, []*TJ{x}, nil))
				e.emit(opCase("large", "ReduceMax", []Attr{{Name: "axes", Type: "ints", Ints: []int64{int64(ax)}}, {Name: "keepdims", Type: "i", I: kd}}, []*TJ{x}, nil))
				e.emit(opCase("large", "ReduceMin", []Attr{{Name: "axes", Type: "ints", Ints: []int64{int64(ax)}}, {Name: "keepdims", Type: "i", I: kd}}, []*TJ{x}, nil))
			}
		}
	}
	// ArgMax on float special values: every lane of length 3 (and a sample of length 4) over {NaN, +Inf, -Inf,
	// +0, -0, 1, 2}, as the rows (axis 1 / -1) or the columns (axis 0) of one tensor. Lanes on which gorgonia's
	// scan (it returns at the first NaN / +Inf behind position 0) agrees with numpy.argmax and lanes on which it
	// does not go into separate tensors, so that the recorded finding covers only the latter.
	{
		nan, inf := math.NaN(), math.Inf(1)
		pool := []float64{nan, inf, -inf, 0, math.Copysign(0, -1), 1, 2}
		gorg := func(l []float64) int {
			best, bi := l[0], 0
			for i := 1; i < len(l); i++ {
				if math.IsNaN(l[i]) || math.IsInf(l[i], 1) {
					return i
				}
				if l[i] > best {
					best, bi = l[i], i
				}
			}
			return bi
		}
		numpy := func(l []float64) int {
			for i, v := range l {
				if math.IsNaN(v) {
					return i
				}
			}
			bi := 0
			for i, v := range l {
				if v > l[bi] {
					bi = i
				}
			}
			return bi
		}
		for _, L := range []int{3, 4, 2} {
			var same, diff [][]float64
			n := 1
			for i := 0; i < L; i++ {
				n *= len(pool)
			}
			for c := 0; c < n; c++ {
				if L == 4 && c%5 != 0 {
					continue
				}
				l := make([]float64, L)
				x := c
				for i := range l {
					l[i] = pool[x%len(pool)]
					x /= len(pool)
				}
				if gorg(l) == numpy(l) {
					same = append(same, l)
				} else {
					diff = append(diff, l)
				}
			}
			for gi, lanes := range [][][]float64{same, diff} {
				if len(lanes) == 0 {
					continue
				}
				stream := []string{"argmax-float", "argmax-float-early-exit"}[gi]
				rows := make([]float64, 0, len(lanes)*L)
				cols := make([]float64, len(lanes)*L)
				for r, l := range lanes {
					rows = append(rows, l...)
					for k, v := range l {
						cols[k*len(lanes)+r] = v
					}
				}
				for _, dt := range []string{"f32", "f64"} {
					for _, keep := range []int64{0, 1} {
						e.emit(opCase(stream, "ArgMax", []Attr{{Name: "axis", Type: "i", I: 1}, {Name: "keepdims", Type: "i", I: keep}}, []*TJ{fT(dt, []int{len(lanes), L}, rows)}, nil))
						e.emit(opCase(stream, "ArgMax", []Attr{{Name: "axis", Type: "i", I: -1}, {Name: "keepdims", Type: "i", I: keep}}, []*TJ{fT(dt, []int{1, len(lanes), L}, rows)}, nil))
						e.emit(opCase(stream, "ArgMax", []Attr{{Name: "axis", Type: "i", I: 0}, {Name: "keepdims", Type: "i", I: keep}}, []*TJ{fT(dt, []int{L, len(lanes)}, cols)}, nil))
					}
				}
			}
		}
	}
	// 64-bit integers that differ only below the 53-bit mantissa of a float64 (carried as decimal strings): a
	// kernel that compares through float64 sees ties where there are none
	for _, dt := range []string{"i64", "u64"} {
		rows := map[string][]any{
			"i64": {"1152921504606846976", "1152921504606846977", "1152921504606846978", "-1152921504606846978", "-1152921504606846977", "-1152921504606846976",
				"9223372036854775806", "9223372036854775807", "9223372036854775805"},
			"u64": {"1152921504606846976", "1152921504606846977", "1152921504606846978", "18446744073709551613", "18446744073709551615", "18446744073709551614",
				"9223372036854775809", "9223372036854775808", "9223372036854775807"},
		}[dt]
		x := &TJ{Dt: dt, Shape: []int{3, 3}, Data: append([]any{}, rows...)}
		for _, ax := range []int64{0, 1, -1} {
			e.emit(opCase("wide-int", "ArgMax", []Attr{{Name: "axis", Type: "i", I: ax}}, []*TJ{x}, nil))
			e.emit(opCase("wide-int", "ReduceMax", []Attr{{Name: "axes", Type: "ints", Ints: []int64{ax}}, {Name: "keepdims", Type: "i", I: 0}}, []*TJ{x}, nil))
			e.emit(opCase("wide-int", "ReduceMin", []Attr{{Name: "axes", Type: "ints", Ints: []int64{ax}}}, []*TJ{x}, nil))
		}
	}
	// reductions over NaN and infinities (the caller's tensor must come back untouched whatever the result is)
	{
		nan, inf := math.NaN(), math.Inf(1)
		for _, dt := range []string{"f32", "f64"} {
			x := fT(dt, []int{2, 3}, []float64{1, nan, 3, -inf, inf, nan})
			x3 := fT(dt, []int{2, 2, 2}, []float64{nan, 1, 2, nan, inf, -inf, 0, math.Copysign(0, -1)})
			for _, op := range []string{"ReduceMax", "ReduceMin"} {
				for _, ax := range []int64{0, 1, -1} {
					e.emit(opCase("reduce-special", op, []Attr{{Name: "axes", Type: "ints", Ints: []int64{ax}}}, []*TJ{x}, nil))
					e.emit(opCase("reduce-special", op, []Attr{{Name: "axes", Type: "ints", Ints: []int64{ax}}, {Name: "keepdims", Type: "i", I: 0}}, []*TJ{x3}, nil))
				}
			}
		}
	}
	// every element type at the gate of every operator of the family: the admitted ones compute, the others
	// are refused (the pinned table of Spec/Types.lean decides which are which)
	for _, dt := range allDts {
		x := seqT(dt, []int{2, 3}, func(i int) float64 { return float64((i * 3) % 4) })
		e.emit(opCase("dtypes", "ArgMax", []Attr{{Name: "axis", Type: "i", I: 1}}, []*TJ{x}, nil))
		for _, op := range []string{"ReduceMax", "ReduceMin"} {
			e.emit(opCase("dtypes", op, []Attr{{Name: "axes", Type: "ints", Ints: []int64{1}}, {Name: "keepdims", Type: "i", I: 0}}, []*TJ{x}, nil))
			e.emit(opCase("dtypes", op, []Attr{{Name: "axes", Type: "ints", Ints: []int64{0}}}, []*TJ{x}, nil))
		}
		for _, op := range []string{"Softmax", "LogSoftmax"} {
			e.emit(opCase("dtypes", op, []Attr{{Name: "axis", Type: "i", I: 1}}, []*TJ{x}, nil))
		}
	}
	// NaN ties in ArgMax are outside the exact regime; integer dtypes the gate refuses
	e.emit(opCase("gate", "ArgMax", nil, []*TJ{iota1("i8", 2, 2)}, nil))
	e.emit(opCase("gate", "Softmax", nil, []*TJ{iota1("i32", 2, 2)}, nil))
}
