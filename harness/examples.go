package main

// exampleCases holds, per operator, a valid node with non-default attributes and inputs.
// Filled by the per-property generators (init functions) and used by the freshness probe.
var exampleCases = map[string]*Case{}

func iota1(dt string, shape ...int) *TJ {
	n := 1
	for _, s := range shape {
		n *= s
	}
	d := make([]any, n)
	for i := range d {
		d[i] = float64(i)
	}
	return &TJ{Dt: dt, Shape: shape, Data: d}
}

func vals(dt string, shape []int, v ...float64) *TJ {
	d := make([]any, len(v))
	for i := range v {
		d[i] = v[i]
	}
	return &TJ{Dt: dt, Shape: shape, Data: d}
}
