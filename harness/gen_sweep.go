package main

import (
	"bytes"
	"crypto/sha256"
	"encoding/json"
	"errors"
	"fmt"
	"go/ast"
	"go/parser"
	"go/printer"
	"go/token"
	"os"
	"path/filepath"
	"sort"
	"strings"
	"runtime"
	"sync"

	"github.com/advancedclimatesystems/gonnx/ops"
	"github.com/advancedclimatesystems/gonnx/ops/opset13"
)

// lookupSweep: "any other name yields the unsupported-operator error" over n generated operator-type
// strings that are not registered (several prefixes, a base-62 counter, so lengths 1..16 and many hash
// values occur), on all cores. A lookup structure that matches something weaker than the name itself (a
// hash, a prefix, a case-folded or trimmed form) resolves some of them.
func lookupSweep(n int, seed int64) *Case {
	c := &Case{Kind: "lookup-sweep", P: map[string]any{"tried": n, "seed": seed}}
	c.Impl = guard(func() *Result {
		registered := map[string]bool{}
		for _, nm := range opset13.GetOpNames() {
			registered[nm] = true
		}
		prefixes := []string{"Custom", "", "Op", "Relu", "ai.onnx.", "Conv_", "x"}
		const digits = "0123456789ABCDEFGHIJKLMNOPQRSTUVWXYZabcdefghijklmnopqrstuvwxyz"
		workers := runtime.GOMAXPROCS(0)
		per := n / workers
		var mu sync.Mutex
		var resolved []string
		var wrongKind []string
		var wg sync.WaitGroup
		for w := 0; w < workers; w++ {
			wg.Add(1)
			go func(w int) {
				defer wg.Done()
				defer func() {
					if p := recover(); p != nil {
						mu.Lock()
						wrongKind = append(wrongKind, "panic")
						mu.Unlock()
					}
				}()
				buf := make([]byte, 0, 32)
				base := uint64(seed)*0x9E3779B97F4A7C15 + uint64(w)*uint64(per)
				for i := 0; i < per; i++ {
					buf = buf[:0]
					buf = append(buf, prefixes[(w+i)%len(prefixes)]...)
					x := base + uint64(i)
					for k := 0; k < 6 || x > 0; k++ {
						buf = append(buf, digits[x%62])
						x /= 62
						if k > 12 {
							break
						}
					}
					name := string(buf)
					if registered[name] {
						continue
					}
					_, err := opset13.GetOperator(name)
					if err == nil {
						mu.Lock()
						if len(resolved) < 8 {
							resolved = append(resolved, name)
						}
						mu.Unlock()
					} else if i%4096 == 0 && !errors.Is(err, ops.ErrUnsupportedOperator) {
						mu.Lock()
						if len(wrongKind) < 8 {
							wrongKind = append(wrongKind, name)
						}
						mu.Unlock()
					}
				}
			}(w)
		}
		wg.Wait()
		return &Result{Status: "ok", Extra: map[string]any{"tried": per * workers, "resolved": resolved, "other_error": wrongKind}}
	})
	return c
}

// pinnedGetOperator: SHA-256 of the printed source of opset13.GetOperator at the pinned commit (a plain map
// lookup by name). While the lookup code is that text, a short sweep is run; when it has changed, the
// hand-written model of the lookup ("resolves exactly the registered names") is no longer known to describe
// it and the sweep is made deep enough to find, e.g., a 32-bit hash collision.
const pinnedGetOperator = "f5764f54946075f14966dfd499d9ac1e6e164fb498fa60acb761069cf396027d"

func getOperatorSourceSHA() string {
	repo := os.Getenv("VERIF_REPO")
	if repo == "" {
		repo = "/repo"
	}
	fset := token.NewFileSet()
	f, err := parser.ParseFile(fset, filepath.Join(repo, "ops", "opset13", "opset13.go"), nil, 0)
	if err != nil {
		return "unreadable: " + err.Error()
	}
	for _, d := range f.Decls {
		if fd, ok := d.(*ast.FuncDecl); ok && fd.Name.Name == "GetOperator" && fd.Recv == nil {
			var b bytes.Buffer
			if err := printer.Fprint(&b, fset, fd); err != nil {
				return "unprintable"
			}
			return fmt.Sprintf("%x", sha256.Sum256(b.Bytes()))
		}
	}
	return "GetOperator not found"
}

func genSweep(e *emitter, prop string, tier string) {
	if prop != "C15" && prop != "C18" {
		return
	}
	sha := getOperatorSourceSHA()
	changed := sha != pinnedGetOperator
	n := 16_000_000
	if tier == "thorough" {
		n = 400_000_000
	}
	if changed {
		n = 1_200_000_000
		if tier == "thorough" {
			n = 6_000_000_000
		}
	}
	// in chunks that stay far below the per-case watchdog
	const chunk = 250_000_000
	for k := 0; n > 0; k++ {
		m := n
		if m > chunk {
			m = chunk
		}
		n -= m
		c := lookupSweep(m, e.seed+int64(k)*1000003)
		c.P["lookup_source_sha256"] = sha
		c.P["lookup_source_changed"] = changed
		e.emit(c)
	}
}

// sourceFacts prints {relative path: SHA-256 of the printed AST (comments dropped)} for every non-test,
// non-generated Go file of the repository: the fingerprints bin/check compares with source_pins.json to
// know which hand-modelled files differ from the tree the model was written against.
func sourceFacts(repo string) {
	out := map[string]string{}
	_ = filepath.Walk(repo, func(path string, info os.FileInfo, err error) error {
		if err != nil {
			return nil
		}
		if info.IsDir() {
			if n := info.Name(); n == ".git" || n == "sample_models" || n == "testdata" || n == "test_data" {
				return filepath.SkipDir
			}
			return nil
		}
		if !strings.HasSuffix(path, ".go") || strings.HasSuffix(path, "_test.go") || strings.HasSuffix(path, ".pb.go") {
			return nil
		}
		rel, _ := filepath.Rel(repo, path)
		fset := token.NewFileSet()
		f, perr := parser.ParseFile(fset, path, nil, 0)
		if perr != nil {
			out[rel] = "unparsable"
			return nil
		}
		var b bytes.Buffer
		if printer.Fprint(&b, fset, f) != nil {
			out[rel] = "unprintable"
			return nil
		}
		out[rel] = fmt.Sprintf("%x", sha256.Sum256(b.Bytes()))
		return nil
	})
	keys := make([]string, 0, len(out))
	for k := range out {
		keys = append(keys, k)
	}
	sort.Strings(keys)
	ordered := make(map[string]string, len(out))
	for _, k := range keys {
		ordered[k] = out[k]
	}
	b, _ := json.MarshalIndent(ordered, "", " ")
	fmt.Println(string(b))
}
