package main

import (
	"flag"
	"fmt"
	"os"
)

type genFn func(e *emitter, tier string)

var gens = map[string]genFn{}

func main() {
	if len(os.Args) < 2 {
		fmt.Fprintln(os.Stderr, "usage: harness reflect <outdir> | gen -prop Cxx -tier quick -seed N -out file")
		os.Exit(2)
	}
	switch os.Args[1] {
	case "reflect":
		reflectTables(os.Args[2])
	case "gen":
		fs := flag.NewFlagSet("gen", flag.ExitOnError)
		prop := fs.String("prop", "", "property id")
		tier := fs.String("tier", "quick", "quick|thorough")
		seed := fs.Int64("seed", 1, "seed")
		out := fs.String("out", "", "output jsonl")
		fs.Parse(os.Args[2:])
		g, ok := gens[*prop]
		if !ok {
			fmt.Fprintln(os.Stderr, "no generator for", *prop)
			os.Exit(2)
		}
		e := newEmitter(*out, *prop, *seed)
		g(e, *tier)
		genWide(e, *prop, *tier)
		genScale(e, *prop, *tier)
		genKeys(e, *prop, *tier)
		genDtypeSweep(e, *prop)
		genSweep(e, *prop, *tier)
		e.close()
		fmt.Printf("cases=%d\n", e.n)
	case "facts":
		repo := "/repo"
		if len(os.Args) > 2 {
			repo = os.Args[2]
		}
		sourceFacts(repo)
	case "replay":
		replay(os.Args[2])
	default:
		fmt.Fprintln(os.Stderr, "unknown subcommand")
		os.Exit(2)
	}
}
