package main

import (
	"math"
	"sort"
	"fmt"
	"os"

	"github.com/advancedclimatesystems/gonnx"
	"github.com/advancedclimatesystems/gonnx/onnx"
	"google.golang.org/protobuf/proto"
)

func init() { gens["C18"] = genC18 }

// tpjOf converts a parsed TensorProto into the JSON form the decoder model reads.
func tpjOf(tp *onnx.TensorProto) *TPJ {
	t := &TPJ{DataType: tp.GetDataType(), Dims: tp.GetDims(), Int32: tp.GetInt32Data(), Int64: tp.GetInt64Data(), Uint64: tp.GetUint64Data()}
	if t.Dims == nil {
		t.Dims = []int64{}
	}
	for _, f := range tp.GetFloatData() {
		t.Float = append(t.Float, f32bits(f))
	}
	for _, f := range tp.GetDoubleData() {
		t.Double = append(t.Double, f64bits(f))
	}
	for _, b := range tp.GetRawData() {
		t.Raw = append(t.Raw, int(b))
	}
	t.HasRaw = len(t.Raw) > 0
	return t
}

// loadCase: NewModelFromBytes on the byte string, under recover. The harness also unmarshals the
// bytes itself; when that succeeds the parsed structure is handed to the model of NewModel.
func loadCase(stream string, b []byte, note string) *Case {
	c := &Case{Kind: "load", Stream: stream, P: map[string]any{"len": len(b), "note": note}}
	mp := &onnx.ModelProto{}
	if err := proto.Unmarshal(b, mp); err == nil {
		var inits []*TPJ
		bigOrNil := false
		for _, tp := range mp.GetGraph().GetInitializer() {
			if tp == nil {
				bigOrNil = true
				continue
			}
			n := 1
			for _, d := range tp.GetDims() {
				if d > 0 && n < 1<<30 {
					n *= int(d)
				}
			}
			if n > 1<<22 {
				bigOrNil = true
			}
			inits = append(inits, tpjOf(tp))
		}
		var opsets []int64
		for _, o := range mp.GetOpsetImport() {
			opsets = append(opsets, o.GetVersion())
		}
		if !bigOrNil && len(b) < 1<<16 {
			c.P["parsed"] = map[string]any{"has_graph": mp.Graph != nil, "initializers": inits, "opsets": opsets}
		}
		c.P["unmarshal"] = "ok"
	} else {
		c.P["unmarshal"] = "error"
	}
	if len(b) <= 4096 {
		c.P["bytes_hex"] = fmt.Sprintf("%x", b)
	}
	c.Impl = guard(func() *Result {
		m, err := gonnx.NewModelFromBytes(b)
		if err != nil {
			return errResult(err)
		}
		return &Result{Status: "ok", Extra: map[string]any{"n_params": len(m.ParamNames())}}
	})
	return c
}

func marshalGraph(g *GraphJ) []byte {
	b, err := proto.Marshal(buildModelProto(g))
	if err != nil {
		panic(err)
	}
	return b
}

func genC18(e *emitter, tier string) {
	rng := e.rng
	// (1) arbitrary bytes
	na := 300
	if tier == "thorough" {
		na = 20000
	}
	for i := 0; i < na; i++ {
		n := rng.Intn(64)
		b := make([]byte, n)
		rng.Read(b)
		if i%3 == 0 && n > 2 { // bias towards plausible protobuf tags
			b[0] = []byte{0x08, 0x3a, 0x42, 0x12, 0x0a}[rng.Intn(5)]
		}
		e.emit(loadCase("random-bytes", b, ""))
	}
	e.emit(loadCase("random-bytes", nil, "empty"))
	// (2) truncations and byte flips of the sample models and of a generated model
	base := map[string][]byte{}
	for _, f := range []string{"gru.onnx", "mlp.onnx", "ndm.onnx", "scaler.onnx", "mnist-8-opset13.onnx"} {
		if b, err := os.ReadFile("/repo/sample_models/onnx_models/" + f); err == nil {
			base[f] = b
		}
	}
	gsmall := &GraphJ{Inputs: []VInfoJ{{Name: "x", Dt: "f32", Dims: []any{2, 2}}},
		Inits: []InitJ{{Name: "w", T: smallT("f32", []int{2, 2}, 1), Raw: true}, {Name: "v", T: idxT("i64", []int{3}, []int{1, 2, 3})}, {Name: "u", T: smallT("f64", []int{1, 2}, 2)}},
		Nodes: []NodeJ{{Op: "Add", Ins: []string{"x", "w"}, Outs: []string{"y"}}}, Outputs: []string{"y"}}
	base["generated"] = marshalGraph(gsmall)
	baseNames := make([]string, 0, len(base))
	for name := range base {
		baseNames = append(baseNames, name)
	}
	sort.Strings(baseNames) // one PRNG, one order: a stream replays exactly
	for _, name := range baseNames {
		b := base[name]
		offs := 60
		if tier == "thorough" {
			offs = 2000
		}
		for i := 0; i < offs; i++ {
			cut := rng.Intn(len(b) + 1)
			if name == "generated" && tier == "thorough" && i < len(b) {
				cut = i
			}
			e.emit(loadCase("truncate:"+name, b[:cut], fmt.Sprint(cut)))
			if len(b) > 0 {
				m := append([]byte{}, b...)
				for k := 0; k < 1+rng.Intn(3); k++ {
					m[rng.Intn(len(m))] = byte(rng.Intn(256))
				}
				if len(m) < 1<<16 {
					e.emit(loadCase("flip:"+name, m, ""))
				}
			}
		}
		e.emit(loadCase("whole:"+name, b, ""))
	}
	// (3) structured mutations of every initializer / value-info field
	mut := func(f func(mp *onnx.ModelProto)) []byte {
		mp := buildModelProto(gsmall)
		f(mp)
		b, _ := proto.Marshal(mp)
		return b
	}
	dimsSet := [][]int64{{}, {0}, {-1}, {-1, 0}, {0, -1}, {3, -1, 0}, {-1, 0, 2}, {0, 0}, {-1, 4}, {2, -1}, {-1, -1}, {0, 4}, {2, -2}, {-2, -2}, {-4, -1}, {-1, 2, -2}, {0, -3}, {-1, -1, -1, -4}, {4}, {2, 2}, {3, 3}, {1 << 40}, {1 << 62, 4}, {2, 2, 1}, {1, 1, 4}}
	for ti := 0; ti < 3; ti++ {
		for _, d := range dimsSet {
			d := d
			e.emit(loadCase("mutate:dims", mut(func(mp *onnx.ModelProto) { mp.Graph.Initializer[ti].Dims = d }), fmt.Sprint(ti, d)))
		}
		for code := int32(-1); code <= 20; code++ {
			code := code
			e.emit(loadCase("mutate:data_type", mut(func(mp *onnx.ModelProto) { mp.Graph.Initializer[ti].DataType = code }), fmt.Sprint(ti, code)))
		}
		for _, n := range []int{0, 1, 3, 7, 15, 16, 17, 31, 32, 33} {
			n := n
			e.emit(loadCase("mutate:raw_len", mut(func(mp *onnx.ModelProto) {
				tp := mp.Graph.Initializer[ti]
				tp.FloatData, tp.Int64Data, tp.DoubleData, tp.Int32Data = nil, nil, nil, nil
				tp.RawData = make([]byte, n)
			}), fmt.Sprint(ti, n)))
		}
		e.emit(loadCase("mutate:typed", mut(func(mp *onnx.ModelProto) { mp.Graph.Initializer[ti].FloatData = []float32{1, 2, 3, 4, 5} }), ""))
		e.emit(loadCase("mutate:typed", mut(func(mp *onnx.ModelProto) { mp.Graph.Initializer[ti].Int32Data = []int32{1, 2} }), ""))
		e.emit(loadCase("mutate:typed", mut(func(mp *onnx.ModelProto) { mp.Graph.Initializer[ti].Uint64Data = []uint64{1, 2, 3, 4} }), ""))
		// both encodings populated and neither fits the dims (whatever fallback there is between them ends in an
		// error, not in a tensor library panic)
		for _, nb := range []int{4, 12, 20, 40} {
			nb := nb
			e.emit(loadCase("mutate:both-encodings", mut(func(mp *onnx.ModelProto) {
				tp := mp.Graph.Initializer[ti]
				tp.FloatData, tp.Int64Data, tp.DoubleData, tp.Int32Data = []float32{1, 2, 3, 4, 5}, []int64{1, 2, 3, 4, 5}, []float64{1, 2, 3, 4, 5}, []int32{1, 2, 3, 4, 5}
				tp.RawData = make([]byte, nb)
			}), fmt.Sprint(ti, nb)))
		}
	}
	// an initializer that carries NO payload at all (every data field empty), with its own dims, without dims
	// (a scalar), with dims [0] / [1] / [2]; for every element type code
	for ti := 0; ti < 3; ti++ {
		for _, d := range [][]int64{nil, {}, {0}, {1}, {2}, {1, 1}, {0, -1}, {-1, 0}, {2, 0, -3}, {0, 4, -1}, {0, 0}, {0, 1 << 40}, {-1}, {-1, -1}} {
			for _, code := range []int32{-2, 1, 2, 3, 4, 5, 6, 7, 9, 10, 11, 12, 13, 16} {
				d, code := d, code
				e.emit(loadCase("mutate:no-payload", mut(func(mp *onnx.ModelProto) {
					tp := mp.Graph.Initializer[ti]
					tp.FloatData, tp.Int64Data, tp.DoubleData, tp.Int32Data, tp.Uint64Data, tp.RawData, tp.StringData = nil, nil, nil, nil, nil, nil, nil
					if d != nil {
						tp.Dims = d
					}
					if code != -2 {
						tp.DataType = code
					}
				}), fmt.Sprint(ti, d, code)))
			}
		}
	}
	// byte strings that are no protobuf at all: every single byte, white space, text formats
	for b := 0; b < 256; b++ {
		e.emit(loadCase("bytes:single", []byte{byte(b)}, fmt.Sprint(b)))
	}
	for _, t := range []string{" ", "\n", "\r\n", "\t\t", "  \n  ", "{}", "{", "[]", "null", "{\"graph\":{}}", " {}", "\n{\"irVersion\":\"7\"}", "ir_version: 7", "<onnx/>", "\x00", "\x00\x00\x00\x00", "\xff\xff\xff\xff", "\xef\xbb\xbf", "\xef\xbb\xbf{}", "PK\x03\x04", "\x08\x07 ", " \x08\x07"} {
		e.emit(loadCase("bytes:text", []byte(t), fmt.Sprintf("%q", t)))
	}
	// an initializer that is also listed as a graph input (IR < 4 exports), with a value-info that agrees,
	// disagrees in rank / extent, is symbolic, or carries no shape at all
	declSet := [][]any{{}, {1}, {2}, {3}, {2, 2}, {1, 2}, {2, 2, 1}, {1, 2, 2}, {3, 1}, {"N"}, {"N", 2}, {nil, nil, nil}, {0, 5}, {4, 4, 4, 4}}
	for ti := 0; ti < 3; ti++ {
		for _, dims := range declSet {
			dims := dims
			e.emit(loadCase("mutate:init-as-input", mut(func(mp *onnx.ModelProto) {
				mp.Graph.Input = append(mp.Graph.Input, mkValueInfo(VInfoJ{Name: mp.Graph.Initializer[ti].Name, Dt: "f32", Dims: dims}))
			}), fmt.Sprint(ti, dims)))
		}
		for _, how := range []string{"", "tensor", "shape", "dims"} {
			how := how
			e.emit(loadCase("mutate:init-as-input", mut(func(mp *onnx.ModelProto) {
				mp.Graph.Input = append(mp.Graph.Input, mkValueInfo(VInfoJ{Name: mp.Graph.Initializer[ti].Name, NoShape: true, How: how}))
			}), fmt.Sprint(ti, "no shape ", how)))
		}
	}
	// scalar initializers, alone and listed as inputs of rank 0 / 1
	for _, dims := range [][]any{nil, {}, {1}, {1, 1}} {
		dims := dims
		e.emit(loadCase("mutate:init-as-input", mut(func(mp *onnx.ModelProto) {
			mp.Graph.Initializer = append(mp.Graph.Initializer, mkTensorProto("s", vals("f32", []int{}, 3), false))
			if dims != nil {
				mp.Graph.Input = append(mp.Graph.Input, mkValueInfo(VInfoJ{Name: "s", Dt: "f32", Dims: dims}))
			}
		}), fmt.Sprint("scalar ", dims)))
	}
	// the element type of every declared input and output: every code from below zero to beyond the table,
	// and the extremes of the wire type
	for _, et := range []int32{math.MinInt32, -1000, -2, -1, 0, 1, 7, 16, 17, 18, 100, math.MaxInt32} {
		et := et
		e.emit(loadCase("mutate:elem_type", mut(func(mp *onnx.ModelProto) {
			if tt := mp.Graph.Input[0].GetType().GetTensorType(); tt != nil {
				tt.ElemType = et
			}
		}), fmt.Sprint("input ", et)))
		e.emit(loadCase("mutate:elem_type", mut(func(mp *onnx.ModelProto) {
			for _, o := range mp.Graph.Output {
				if o.Type == nil {
					o.Type = &onnx.TypeProto{Value: &onnx.TypeProto_TensorType{TensorType: &onnx.TypeProto_Tensor{}}}
				}
				if tt := o.GetType().GetTensorType(); tt != nil {
					tt.ElemType = et
				}
			}
		}), fmt.Sprint("output ", et)))
	}
	e.emit(loadCase("mutate:graph", mut(func(mp *onnx.ModelProto) { mp.Graph = nil }), "no graph"))
	e.emit(loadCase("mutate:graph", mut(func(mp *onnx.ModelProto) { mp.Graph.Initializer = append(mp.Graph.Initializer, &onnx.TensorProto{}) }), "empty initializer"))
	e.emit(loadCase("mutate:graph", mut(func(mp *onnx.ModelProto) { mp.Graph.Input[0].Type = nil }), "input without type"))
	e.emit(loadCase("mutate:graph", mut(func(mp *onnx.ModelProto) { mp.Graph.Input = append(mp.Graph.Input, &onnx.ValueInfoProto{}) }), "empty value info"))
	e.emit(loadCase("mutate:graph", mut(func(mp *onnx.ModelProto) { mp.Graph.Node = append(mp.Graph.Node, &onnx.NodeProto{}) }), "empty node"))
	// node attributes that declare a type and carry NO payload (TENSOR without t, GRAPH without g, ...), nil
	// entries in the repeated fields: whatever load looks at, it finds out without dereferencing
	for ty := int32(0); ty <= 14; ty++ {
		ty := ty
		e.emit(loadCase("mutate:attribute-without-payload", mut(func(mp *onnx.ModelProto) {
			mp.Graph.Node[0].Attribute = append(mp.Graph.Node[0].Attribute, &onnx.AttributeProto{Name: "value", Type: onnx.AttributeProto_AttributeType(ty)})
		}), fmt.Sprint(ty)))
	}
	e.emit(loadCase("mutate:attribute-without-payload", mut(func(mp *onnx.ModelProto) {
		mp.Graph.Node[0].Attribute = append(mp.Graph.Node[0].Attribute, &onnx.AttributeProto{Name: "value", Type: onnx.AttributeProto_TENSORS, Tensors: []*onnx.TensorProto{{}, {Dims: []int64{-1}}}})
	}), "tensors"))
	e.emit(loadCase("mutate:attribute-without-payload", mut(func(mp *onnx.ModelProto) {
		mp.Graph.Node = append(mp.Graph.Node, &onnx.NodeProto{OpType: "Constant", Output: []string{"c"}, Attribute: []*onnx.AttributeProto{{Name: "value", Type: onnx.AttributeProto_TENSOR}}})
	}), "constant node"))
	// (4) opset versions 0..64 in one and in two domains
	for v := int64(-1); v <= 64; v++ {
		v := v
		e.emit(loadCase("opset:single", mut(func(mp *onnx.ModelProto) { mp.OpsetImport = []*onnx.OperatorSetIdProto{{Version: v}} }), fmt.Sprint(v)))
		e.emit(loadCase("opset:two", mut(func(mp *onnx.ModelProto) {
			mp.OpsetImport = []*onnx.OperatorSetIdProto{{Version: v}, {Domain: "ai.onnx.ml", Version: 1 + (v*7)%20}}
		}), fmt.Sprint(v)))
	}
	e.emit(loadCase("opset:none", mut(func(mp *onnx.ModelProto) { mp.OpsetImport = nil }), "no imports"))
	e.emit(loadCase("opset:two", mut(func(mp *onnx.ModelProto) {
		mp.OpsetImport = []*onnx.OperatorSetIdProto{{Version: 13}, {Domain: "ai.onnx.ml", Version: 14}}
	}), "13 and ml 14"))
	// the same domain imported more than once (and under its alias "ai.onnx"), the unsupported version before or
	// behind the implemented one, three entries: the HIGHEST imported version decides, whichever entry is last
	for _, imp := range [][]struct {
		d string
		v int64
	}{
		{{"", 14}, {"", 13}}, {{"", 13}, {"", 14}}, {{"ai.onnx", 15}, {"", 13}}, {{"", 13}, {"ai.onnx", 15}}, {{"ai.onnx", 13}, {"ai.onnx", 12}},
		{{"", 12}, {"", 13}}, {{"", 13}, {"", 12}}, {{"", 13}, {"", 13}}, {{"", 21}, {"", 13}, {"", 13}}, {{"", 13}, {"", 21}, {"", 13}},
		{{"ai.onnx.ml", 14}, {"ai.onnx.ml", 13}, {"", 13}}, {{"", 13}, {"ai.onnx.ml", 13}, {"ai.onnx.ml", 14}}, {{"x", 99}, {"x", 1}, {"", 13}},
	} {
		imp := imp
		e.emit(loadCase("opset:repeated-domain", mut(func(mp *onnx.ModelProto) {
			mp.OpsetImport = nil
			for _, i := range imp {
				mp.OpsetImport = append(mp.OpsetImport, &onnx.OperatorSetIdProto{Domain: i.d, Version: i.v})
			}
		}), fmt.Sprint(imp)))
	}
	// (5) unknown operator types: the model loads, Run must fail with the unsupported-operator error
	x := NamedT{"x", smallT("f32", []int{2, 2}, 1)}
	vin := []VInfoJ{{Name: "x", Dt: "f32", Dims: []any{2, 2}}}
	for _, op := range []string{"Gelu", "", "relu", "Identity", "MaxPool", "Dropout", "Conv2D", "LayerNormalization", " Relu", "Relu ", "Relu\n", "\tAbs", "RELU", "Relu6", "Rel", "ai.onnx.Relu", "Relu:13"} {
		e.emit(graphCase("unknown-op", &GraphJ{Inputs: vin, Nodes: []NodeJ{{Op: "Relu", Ins: []string{"x"}, Outs: []string{"a"}}, {Op: op, Ins: []string{"a"}, Outs: []string{"y"}}, {Op: "Relu", Ins: []string{"y"}, Outs: []string{"z"}}}, Outputs: []string{"z"}}, []NamedT{x}))
		e.emit(graphCase("unknown-op", &GraphJ{Inputs: vin, Nodes: []NodeJ{{Op: op, Ins: []string{"x"}, Outs: []string{"unused"}}, {Op: "Relu", Ins: []string{"x"}, Outs: []string{"z"}}}, Outputs: []string{"z"}}, []NamedT{x}))
		// the unknown node waits for a tensor only it (or a node behind it) writes; the unknown node comes first
		e.emit(graphCase("unknown-op", &GraphJ{Inputs: vin, Nodes: []NodeJ{{Op: "Relu", Ins: []string{"x"}, Outs: []string{"y"}}, {Op: op, Ins: []string{"y", "s"}, Outs: []string{"s"}}}, Outputs: []string{"y"}}, []NamedT{x}))
		e.emit(graphCase("unknown-op", &GraphJ{Inputs: vin, Nodes: []NodeJ{{Op: "Relu", Ins: []string{"x"}, Outs: []string{"y"}}, {Op: op, Ins: []string{"y", "t"}, Outs: []string{"s"}}, {Op: "Relu", Ins: []string{"s"}, Outs: []string{"t"}}}, Outputs: []string{"y"}}, []NamedT{x}))
		e.emit(graphCase("unknown-op", &GraphJ{Inputs: vin, Nodes: []NodeJ{{Op: op, Ins: []string{"y"}, Outs: []string{"s"}}, {Op: "Relu", Ins: []string{"x"}, Outs: []string{"y"}}}, Outputs: []string{"y"}}, []NamedT{x}))
		// the same Model run three times: every Run fails the same way (a fresh model fails, so must this one)
		{
			gk := &GraphJ{Inputs: vin, Nodes: []NodeJ{{Op: "Abs", Ins: []string{"x"}, Outs: []string{"y"}}, {Op: op, Ins: []string{"y"}, Outs: []string{"z"}}}, Outputs: []string{"y"}}
			e.emit(historyCase("unknown-op-every-run", func() (*gonnx.Model, error) { return loadModel(gk) }, gk, []HistStep{{Inputs: []NamedT{x}}, {Inputs: []NamedT{x}}, {Reuse: true}}))
		}
		// the caller also hands in tensors named like the outputs of the unknown node (and of other nodes)
		e.emit(graphCase("unknown-op", &GraphJ{Inputs: vin, Nodes: []NodeJ{{Op: "Relu", Ins: []string{"x"}, Outs: []string{"a"}}, {Op: op, Ins: []string{"a"}, Outs: []string{"y"}}, {Op: "Relu", Ins: []string{"y"}, Outs: []string{"z"}}}, Outputs: []string{"z"}},
			[]NamedT{x, {"y", smallT("f32", []int{2, 2}, 2)}, {"a", smallT("f32", []int{2, 2}, 3)}}))
	}
}
