package main

import (
	"encoding/json"
	"sort"
	"fmt"

	"github.com/advancedclimatesystems/gonnx"
	"gorgonia.org/tensor"
)

func init() { gens["C01"] = genC01 }

// NamedT is a named input tensor of a Run call.
type NamedT struct {
	Name string `json:"name"`
	T    *TJ    `json:"t"`
}

// runModel runs a loaded model on the named inputs and reports the declared outputs in order.
func runModel(m *gonnx.Model, outNames []string, ins []NamedT) (*Result, map[string]tensor.Tensor) {
	in := gonnx.Tensors{}
	for _, n := range ins {
		in[n.Name] = mkTensor(n.T)
	}
	var res *Result
	func() {
		defer func() {
			if r := recover(); r != nil {
				res = &Result{Status: "panic", Msg: fmt.Sprint(r)}
			}
		}()
		outs, err := m.Run(in)
		if err != nil {
			res = errResult(err)
			return
		}
		res = &Result{Status: "ok"}
		for _, o := range outNames {
			t, ok := outs[o]
			if !ok || t == nil {
				res.Outs = append(res.Outs, nil)
			} else {
				res.Outs = append(res.Outs, toTJ(t))
			}
		}
		if len(outs) != len(uniq(outNames)) {
			res.Extra = fmt.Sprintf("result has %d entries, %d declared", len(outs), len(outNames))
		}
	}()
	return res, in
}

func uniq(s []string) map[string]bool {
	m := map[string]bool{}
	for _, x := range s {
		m[x] = true
	}
	return m
}

func graphCase(stream string, g *GraphJ, ins []NamedT) *Case {
	c := &Case{Kind: "graph", Stream: stream, Graph: g, P: map[string]any{"inputs": ins}}
	c.Impl = guard(func() *Result {
		m, err := loadModel(g)
		if err != nil {
			r := errResult(err)
			r.Extra = "load"
			return r
		}
		r, _ := runModel(m, g.Outputs, ins)
		return r
	})
	return c
}

// ---- random DAG generator (exact regime: small integers in float32) ----

type poolT struct {
	name  string
	shape []int
}

type dagGen struct {
	e     *emitter
	g     *GraphJ
	pool  []poolT
	nName int
	ins   []NamedT
}

func (d *dagGen) fresh(prefix string) string {
	d.nName++
	names := []string{"", "t", "Y", "out", "x", "h", "Y_h"}
	return fmt.Sprintf("%s%s%d", prefix, names[d.e.rng.Intn(len(names))], d.nName)
}

func (d *dagGen) addInit(shape []int, seed int) string {
	n := d.fresh("w")
	d.g.Inits = append(d.g.Inits, InitJ{Name: n, T: tinyT("f32", shape, seed), Raw: d.e.rng.Intn(2) == 0})
	return n
}

func (d *dagGen) pick() poolT { return d.pool[d.e.rng.Intn(len(d.pool))] }

func (d *dagGen) pickRank(r int) (poolT, bool) {
	var c []poolT
	for _, p := range d.pool {
		if len(p.shape) == r {
			c = append(c, p)
		}
	}
	if len(c) == 0 {
		return poolT{}, false
	}
	return c[d.e.rng.Intn(len(c))], true
}

func (d *dagGen) addNode(op string, attrs []Attr, ins []string, outs []poolT) {
	names := make([]string, len(outs))
	for i, o := range outs {
		names[i] = o.name
		if o.name != "" && o.shape != nil {
			d.pool = append(d.pool, o)
		}
	}
	d.g.Nodes = append(d.g.Nodes, NodeJ{Op: op, Attrs: attrs, Ins: ins, Outs: names})
}

func (d *dagGen) step() {
	rng := d.e.rng
	switch rng.Intn(20) {
	case 0, 1: // binary with an equal-shaped or broadcastable partner
		a := d.pick()
		op := []string{"Add", "Sub", "Mul", "Add"}[rng.Intn(4)]
		var b string
		switch rng.Intn(3) {
		case 0:
			b = d.addInit(a.shape, d.nName)
		case 1:
			if len(a.shape) > 0 {
				b = d.addInit(a.shape[len(a.shape)-1:], d.nName)
			} else {
				b = d.addInit([]int{}, d.nName)
			}
		default:
			b = a.name
		}
		d.addNode(op, nil, []string{a.name, b}, []poolT{{d.fresh(""), a.shape}})
	case 2: // Relu / Abs
		a := d.pick()
		d.addNode([]string{"Relu", "Abs"}[rng.Intn(2)], nil, []string{a.name}, []poolT{{d.fresh(""), a.shape}})
	case 3: // MatMul against a weight
		if a, ok := d.pickRank(2); ok {
			n := 2 + rng.Intn(2)
			w := d.addInit([]int{a.shape[1], n}, d.nName)
			d.addNode("MatMul", nil, []string{a.name, w}, []poolT{{d.fresh(""), []int{a.shape[0], n}}})
		}
	case 4: // Gemm with transB and optional bias (skipped explicitly or omitted)
		if a, ok := d.pickRank(2); ok {
			n := 2 + rng.Intn(2)
			w := d.addInit([]int{n, a.shape[1]}, d.nName)
			ins := []string{a.name, w}
			if rng.Intn(2) == 0 {
				ins = append(ins, d.addInit([]int{n}, d.nName))
			} else if rng.Intn(2) == 0 {
				ins = append(ins, "")
			}
			d.addNode("Gemm", []Attr{{Name: "transB", Type: "i", I: 1}, {Name: "alpha", Type: "f", F: float64(1 + rng.Intn(2))}}, ins, []poolT{{d.fresh(""), []int{a.shape[0], n}}})
		}
	case 5: // Transpose
		a := d.pick()
		if len(a.shape) >= 2 {
			p := rng.Perm(len(a.shape))
			ns := make([]int, len(p))
			for i, q := range p {
				ns[i] = a.shape[q]
			}
			d.addNode("Transpose", []Attr{{Name: "perm", Type: "ints", Ints: ints64(p)}}, []string{a.name}, []poolT{{d.fresh(""), ns}})
		}
	case 6: // Reshape to a flat or 2-D shape via an initializer
		a := d.pick()
		n := nelem(a.shape)
		tgt := []int{n}
		if n%2 == 0 && n >= 4 {
			tgt = []int{2, n / 2}
		}
		if n == 1 {
			tgt = []int{1, 1}
		}
		sh := d.fresh("s")
		d.g.Inits = append(d.g.Inits, InitJ{Name: sh, T: idxT("i64", []int{len(tgt)}, tgt)})
		d.addNode("Reshape", nil, []string{a.name, sh}, []poolT{{d.fresh(""), tgt}})
	case 7: // Concat of a tensor with itself / an equal-shaped partner
		a := d.pick()
		if len(a.shape) >= 1 && a.shape[0] >= 2 {
			b := d.addInit(a.shape, d.nName)
			ns := append([]int{2 * a.shape[0]}, a.shape[1:]...)
			d.addNode("Concat", []Attr{{Name: "axis", Type: "i", I: 0}}, []string{a.name, b}, []poolT{{d.fresh(""), ns}})
		}
	case 8: // Unsqueeze then the result lives on
		a := d.pick()
		if len(a.shape) <= 2 {
			ax := d.fresh("ax")
			d.g.Inits = append(d.g.Inits, InitJ{Name: ax, T: idxT("i64", []int{1}, []int{0})})
			d.addNode("Unsqueeze", nil, []string{a.name, ax}, []poolT{{d.fresh(""), append([]int{1}, a.shape...)}})
		}
	case 9: // ReduceMax over the last axis, keepdims=0
		a := d.pick()
		if len(a.shape) >= 2 {
			d.addNode("ReduceMax", []Attr{{Name: "axes", Type: "ints", Ints: []int64{-1}}, {Name: "keepdims", Type: "i", I: 0}}, []string{a.name}, []poolT{{d.fresh(""), a.shape[:len(a.shape)-1]}})
		}
	case 10: // Constant
		s := [][]int{{2}, {2, 2}, {3}}[rng.Intn(3)]
		d.addNode("Constant", []Attr{{Name: "value", Type: "t", T: tinyT("f32", s, d.nName)}}, []string{}, []poolT{{d.fresh("c"), s}})
	case 11: // multi-output recurrent node; outputs carry arbitrary names, some omitted
		if a, ok := d.pickRank(3); ok && a.shape[2] >= 2 {
			h := 2
			op := []string{"LSTM", "GRU", "RNN"}[rng.Intn(3)]
			G := map[string]int{"LSTM": 4, "GRU": 3, "RNN": 1}[op]
			nact := map[string]int{"LSTM": 3, "GRU": 2, "RNN": 1}[op]
			acts := make([]string, nact)
			for i := range acts {
				acts[i] = "relu"
			}
			w := d.addInit([]int{1, G * h, a.shape[2]}, d.nName)
			r := d.addInit([]int{1, G * h, h}, d.nName+1)
			ins := []string{a.name, w, r}
			if rng.Intn(2) == 0 {
				ins = append(ins, d.addInit([]int{1, 2 * G * h}, d.nName+2))
				if rng.Intn(2) == 0 {
					ins = append(ins, "", d.addInit([]int{1, a.shape[1], h}, d.nName+3))
				}
			}
			outs := []poolT{{d.fresh(""), []int{a.shape[0], 1, a.shape[1], h}}, {d.fresh(""), []int{1, a.shape[1], h}}}
			if op == "LSTM" {
				outs = append(outs, poolT{d.fresh(""), []int{1, a.shape[1], h}})
				outs = outs[:1+rng.Intn(3)]
			}
			// ONNX lets a node omit an output by giving it the empty name (also in the middle of the list)
			if len(outs) >= 2 && rng.Intn(2) == 0 {
				k := rng.Intn(len(outs))
				if k == len(outs)-1 && rng.Intn(2) == 0 {
					k = 0
				}
				outs[k] = poolT{"", nil}
			}
			d.addNode(op, []Attr{{Name: "hidden_size", Type: "i", I: int64(h)}, {Name: "activations", Type: "strings", Ss: acts}}, ins, outs)
		}
	case 12: // Flatten
		a := d.pick()
		if len(a.shape) >= 2 {
			d.addNode("Flatten", nil, []string{a.name}, []poolT{{d.fresh(""), []int{a.shape[0], nelem(a.shape[1:])}}})
		}
	case 13: // Conv on a rank-4 tensor with a 2x2 kernel
		if a, ok := d.pickRank(4); ok && a.shape[2] >= 2 && a.shape[3] >= 2 {
			m := 1 + rng.Intn(2)
			w := d.addInit([]int{m, a.shape[1], 2, 2}, d.nName)
			ins := []string{a.name, w}
			if rng.Intn(2) == 0 {
				ins = append(ins, d.addInit([]int{m}, d.nName+1))
			}
			d.addNode("Conv", nil, ins, []poolT{{d.fresh(""), []int{a.shape[0], m, a.shape[2] - 1, a.shape[3] - 1}}})
		}
	case 14: // Gemm with transA: against a weight, or the Gram matrix of one tensor (one name at two positions)
		if a, ok := d.pickRank(2); ok {
			if rng.Intn(2) == 0 {
				tB := int64(rng.Intn(2))
				os := []int{a.shape[1], a.shape[1]}
				if tB == 1 {
					if a.shape[0] != a.shape[1] {
						return
					}
				}
				d.addNode("Gemm", []Attr{{Name: "transA", Type: "i", I: 1}, {Name: "transB", Type: "i", I: tB}}, []string{a.name, a.name}, []poolT{{d.fresh(""), os}})
			} else {
				n := 2 + rng.Intn(2)
				w := d.addInit([]int{a.shape[0], n}, d.nName)
				d.addNode("Gemm", []Attr{{Name: "transA", Type: "i", I: 1}, {Name: "beta", Type: "f", F: 2}}, []string{a.name, w, d.addInit([]int{a.shape[1], 1}, d.nName)}, []poolT{{d.fresh(""), []int{a.shape[1], n}}})
			}
		}
	case 15: // MatMul of a tensor with itself (square) or a batched left operand with a matrix weight
		if a, ok := d.pickRank(2); ok && a.shape[0] == a.shape[1] {
			d.addNode("MatMul", nil, []string{a.name, a.name}, []poolT{{d.fresh(""), a.shape}})
		} else if a, ok := d.pickRank(3); ok && a.shape[1]*a.shape[2] >= 2 {
			// (a 1x1 matrix per batch entry is a recorded finding of C04: matmul.batched_1x1)
			w := d.addInit([]int{a.shape[2], 2}, d.nName)
			d.addNode("MatMul", nil, []string{a.name, w}, []poolT{{d.fresh(""), []int{a.shape[0], a.shape[1], 2}}})
		}
	case 16: // Slice along the last axis
		a := d.pick()
		if r := len(a.shape); r >= 1 && a.shape[r-1] >= 2 {
			st, en, ax := d.fresh("st"), d.fresh("en"), d.fresh("axs")
			d.g.Inits = append(d.g.Inits, InitJ{Name: st, T: idxT("i64", []int{1}, []int{1})}, InitJ{Name: en, T: idxT("i64", []int{1}, []int{a.shape[r-1]})}, InitJ{Name: ax, T: idxT("i64", []int{1}, []int{r - 1})})
			ns := append(append([]int{}, a.shape[:r-1]...), a.shape[r-1]-1)
			if ns[r-1] == 1 {
				return // extent-1 results of Slice are a recorded finding of C08 (the axis is dropped)
			}
			d.addNode("Slice", nil, []string{a.name, st, en, ax}, []poolT{{d.fresh(""), ns}})
		}
	case 17: // Gather rows by an index weight
		a := d.pick()
		if len(a.shape) >= 1 && a.shape[0] >= 2 {
			ix := d.fresh("ix")
			d.g.Inits = append(d.g.Inits, InitJ{Name: ix, T: idxT("i64", []int{3}, []int{a.shape[0] - 1, 0, -1})})
			d.addNode("Gather", []Attr{{Name: "axis", Type: "i", I: 0}}, []string{a.name, ix}, []poolT{{d.fresh(""), append([]int{3}, a.shape[1:]...)}})
		}
	case 18: // ArgMax then Cast back to float32
		a := d.pick()
		if len(a.shape) >= 2 {
			am := d.fresh("am")
			ns := append([]int{}, a.shape...)
			ns[len(ns)-1] = 1
			d.addNode("ArgMax", []Attr{{Name: "axis", Type: "i", I: -1}, {Name: "keepdims", Type: "i", I: 1}}, []string{a.name}, []poolT{{am, nil}})
			d.addNode("Cast", []Attr{{Name: "to", Type: "i", I: 1}}, []string{am}, []poolT{{d.fresh(""), ns}})
		}
	case 19: // comparison (bool result); ReduceMin over the first axis; Squeeze after Unsqueeze-like shapes
		a := d.pick()
		switch rng.Intn(3) {
		case 0:
			// the bool result only leaves the graph (Cast refuses a bool source)
			d.addNode([]string{"Less", "Greater", "Equal", "LessOrEqual", "GreaterOrEqual"}[rng.Intn(5)], nil, []string{a.name, d.addInit(a.shape, d.nName)}, []poolT{{d.fresh("cmp"), nil}})
		case 1:
			if len(a.shape) >= 2 && len(a.shape) <= 3 {
				d.addNode("ReduceMin", []Attr{{Name: "axes", Type: "ints", Ints: []int64{0}}, {Name: "keepdims", Type: "i", I: 1}}, []string{a.name}, []poolT{{d.fresh(""), append([]int{1}, a.shape[1:]...)}})
			}
		default:
			if len(a.shape) >= 2 && a.shape[0] == 1 {
				ax := d.fresh("ax")
				d.g.Inits = append(d.g.Inits, InitJ{Name: ax, T: idxT("i64", []int{1}, []int{0})})
				d.addNode("Squeeze", nil, []string{a.name, ax}, []poolT{{d.fresh(""), a.shape[1:]}})
			}
		}
	}
}

func genDAG(e *emitter, maxNodes int) (*GraphJ, []NamedT) {
	d := &dagGen{e: e, g: &GraphJ{}}
	rng := e.rng
	nIn := 1 + rng.Intn(3)
	inShapes := [][]int{{2, 3}, {3, 2}, {2, 2, 3}, {1, 2, 3, 3}, {3}, {2, 2}, {2, 1, 2}, {}}
	for i := 0; i < nIn; i++ {
		s := inShapes[rng.Intn(len(inShapes))]
		name := d.fresh("in")
		dims := make([]any, len(s))
		for j := range s {
			switch rng.Intn(3) {
			case 0:
				dims[j] = "N"
			default:
				dims[j] = s[j]
			}
		}
		vi := VInfoJ{Name: name, Dt: "f32", Dims: dims}
		if rng.Intn(8) == 0 { // a declared input that carries no usable shape: still the caller's tensor
			vi.NoShape = true
			vi.How = []string{"", "tensor", "shape", "dims"}[rng.Intn(4)]
		}
		d.g.Inputs = append(d.g.Inputs, vi)
		d.pool = append(d.pool, poolT{name, s})
		// an initializer that is also listed as graph input only supplies its default
		if rng.Intn(5) == 0 {
			d.g.Inits = append(d.g.Inits, InitJ{Name: name, T: tinyT("f32", s, 90+i)})
			if rng.Intn(2) == 0 {
				continue // caller does not supply it
			}
		}
		d.ins = append(d.ins, NamedT{name, smallT("f32", s, 40+i)})
	}
	nNodes := 1 + rng.Intn(maxNodes)
	for len(d.g.Nodes) < nNodes {
		d.step()
	}
	// outputs: the last node's outputs plus a random subset of all other produced names (fan-out visible)
	seen := map[string]bool{}
	for i, n := range d.g.Nodes {
		for _, o := range n.Outs {
			if o != "" && (i == len(d.g.Nodes)-1 || rng.Intn(3) == 0) && !seen[o] {
				seen[o] = true
				d.g.Outputs = append(d.g.Outputs, o)
			}
		}
	}
	if rng.Intn(6) == 0 { // a graph input or initializer passed straight through
		p := d.pool[0]
		if !seen[p.name] {
			d.g.Outputs = append(d.g.Outputs, p.name)
		}
	}
	return d.g, d.ins
}

func genC01(e *emitter, tier string) {
	siblingNodes(e)
	// a graph input that declares NO shape (unknown rank) given one-element tensors of rank 0..4 and larger
	// tensors: the tensor reaches the nodes as the caller made it (rank included)
	for _, how := range []string{"", "shape", "dims"} {
		g := &GraphJ{Inputs: []VInfoJ{{Name: "x", Dt: "f32", NoShape: true, How: how}},
			Inits: []InitJ{{Name: "w", T: smallT("f32", []int{2, 3}, 4)}, {Name: "v", T: smallT("f32", []int{3}, 2)}},
			Nodes: []NodeJ{{Op: "Add", Ins: []string{"x", "w"}, Outs: []string{"y"}}, {Op: "Mul", Ins: []string{"v", "x"}, Outs: []string{"z"}}, {Op: "Shape", Ins: []string{"x"}, Outs: []string{"s"}}},
			Outputs: []string{"y", "z", "s"}}
		for _, sh := range [][]int{{}, {1}, {1, 1}, {1, 1, 1}, {1, 1, 1, 1}, {3}, {1, 3}, {2, 1}, {1, 2, 3}} {
			e.emit(graphCase("unshaped-input", g, []NamedT{{"x", smallT("f32", sh, 3)}}))
		}
	}
	// ONE tensor read by several nodes that each interpret it against their OWN other operand: a negative index
	// shared by Gathers over axes of different length, a Reshape target with 0 / -1 shared by two inputs, one
	// axes tensor for two Unsqueeze / Squeeze nodes of different rank (weight or caller tensor, both node orders):
	// every node sees the value the producer / caller / model file gave it
	for _, asInit := range []bool{true, false} {
		for _, order := range [][]int{{0, 1, 2, 3, 4, 5}, {5, 4, 3, 2, 1, 0}} {
			idx := idxT("i64", []int{2}, []int{-1, -2})
			tgt := idxT("i64", []int{2}, []int{0, -1})
			ax := idxT("i64", []int{1}, []int{-1})
			nodes := []NodeJ{
				{Op: "Gather", Ins: []string{"d3", "idx"}, Outs: []string{"g3"}},
				{Op: "Gather", Ins: []string{"d5", "idx"}, Outs: []string{"g5"}},
				{Op: "Reshape", Ins: []string{"m23", "tgt"}, Outs: []string{"r23"}},
				{Op: "Reshape", Ins: []string{"m42", "tgt"}, Outs: []string{"r42"}},
				{Op: "Unsqueeze", Ins: []string{"d3", "ax"}, Outs: []string{"u1"}},
				{Op: "Unsqueeze", Ins: []string{"m23", "ax"}, Outs: []string{"u2"}},
			}
			g := &GraphJ{Inputs: []VInfoJ{{Name: "d3", Dt: "f32", Dims: []any{3}}, {Name: "d5", Dt: "f32", Dims: []any{5}}, {Name: "m23", Dt: "f32", Dims: []any{2, 3}}, {Name: "m42", Dt: "f32", Dims: []any{4, 2}}},
				Outputs: []string{"g3", "g5", "r23", "r42", "u1", "u2", "idx", "tgt", "ax"}}
			for _, k := range order {
				g.Nodes = append(g.Nodes, nodes[k])
			}
			ins := []NamedT{{"d3", smallT("f32", []int{3}, 1)}, {"d5", smallT("f32", []int{5}, 2)}, {"m23", smallT("f32", []int{2, 3}, 3)}, {"m42", smallT("f32", []int{4, 2}, 4)}}
			if asInit {
				g.Inits = []InitJ{{Name: "idx", T: idx}, {Name: "tgt", T: tgt}, {Name: "ax", T: ax}}
			} else {
				g.Inputs = append(g.Inputs, VInfoJ{Name: "idx", Dt: "i64", Dims: []any{2}}, VInfoJ{Name: "tgt", Dt: "i64", Dims: []any{2}}, VInfoJ{Name: "ax", Dt: "i64", Dims: []any{1}})
				ins = append(ins, NamedT{"idx", idx}, NamedT{"tgt", tgt}, NamedT{"ax", ax})
			}
			e.emit(graphCase("shared-index-tensor", g, ins))
		}
	}
	e.emit(graphCase("names-differ-in-case", namesDifferInCaseGraph(), []NamedT{{"x", vals("f32", []int{2}, 1, 2)}, {"X", vals("f32", []int{2}, 5, 6)}}))
	n := 300
	maxNodes := 8
	if tier == "thorough" {
		n, maxNodes = 6000, 12
	}
	for i := 0; i < n; i++ {
		g, ins := genDAG(e, maxNodes)
		e.emit(graphCase("dag", g, ins))
	}
	// malformed graphs: a declared output nobody produces; a node input naming nothing; an unknown operator;
	// a node whose output count differs from the operator's result count
	x := NamedT{"x", smallT("f32", []int{2, 2}, 1)}
	vin := []VInfoJ{{Name: "x", Dt: "f32", Dims: []any{2, 2}}}
	e.emit(graphCase("malformed", &GraphJ{Inputs: vin, Nodes: []NodeJ{{Op: "Relu", Ins: []string{"x"}, Outs: []string{"y"}}}, Outputs: []string{"y", "ghost"}}, []NamedT{x}))
	e.emit(graphCase("malformed", &GraphJ{Inputs: vin, Nodes: []NodeJ{{Op: "Relu", Ins: []string{"nothing"}, Outs: []string{"y"}}}, Outputs: []string{"y"}}, []NamedT{x}))
	e.emit(graphCase("malformed", &GraphJ{Inputs: vin, Nodes: []NodeJ{{Op: "Gelu", Ins: []string{"x"}, Outs: []string{"y"}}}, Outputs: []string{"y"}}, []NamedT{x}))
	e.emit(graphCase("malformed", &GraphJ{Inputs: vin, Nodes: []NodeJ{{Op: "Relu", Ins: []string{"x"}, Outs: []string{"y", "z"}}}, Outputs: []string{"y"}}, []NamedT{x}))
	e.emit(graphCase("malformed", &GraphJ{Inputs: vin, Nodes: []NodeJ{{Op: "Relu", Ins: []string{"x"}, Outs: []string{}}}, Outputs: []string{}}, []NamedT{x}))
	e.emit(graphCase("malformed", &GraphJ{Inputs: vin, Nodes: []NodeJ{{Op: "Relu", Ins: []string{"later"}, Outs: []string{"y"}}, {Op: "Relu", Ins: []string{"x"}, Outs: []string{"later"}}}, Outputs: []string{"y"}}, []NamedT{x}))
	// two nodes of the same operator type with different attributes do not influence each other
	e.emit(graphCase("same-type", &GraphJ{Inputs: []VInfoJ{{Name: "x", Dt: "f32", Dims: []any{2, 3}}},
		Nodes: []NodeJ{
			{Op: "Transpose", Attrs: []Attr{{Name: "perm", Type: "ints", Ints: []int64{1, 0}}}, Ins: []string{"x"}, Outs: []string{"a"}},
			{Op: "Transpose", Attrs: []Attr{{Name: "perm", Type: "ints", Ints: []int64{0, 1}}}, Ins: []string{"x"}, Outs: []string{"b"}},
			{Op: "Flatten", Attrs: []Attr{{Name: "axis", Type: "i", I: 0}}, Ins: []string{"x"}, Outs: []string{"c"}},
			{Op: "Flatten", Ins: []string{"x"}, Outs: []string{"d"}},
		}, Outputs: []string{"a", "b", "c", "d"}}, []NamedT{{"x", smallT("f32", []int{2, 3}, 1)}}))
	// one weight feeding two nodes of the same type with different attributes, either order
	{
		w := InitJ{Name: "w", T: tinyT("f32", []int{1, 1, 2, 2}, 3)}
		x := NamedT{"x", smallT("f32", []int{1, 1, 5, 5}, 2)}
		c1 := NodeJ{Op: "Conv", Ins: []string{"x", "w"}, Outs: []string{"y1"}}
		c2 := NodeJ{Op: "Conv", Attrs: []Attr{{Name: "dilations", Type: "ints", Ints: []int64{2, 2}}}, Ins: []string{"x", "w"}, Outs: []string{"y2"}}
		c3 := NodeJ{Op: "Conv", Attrs: []Attr{{Name: "dilations", Type: "ints", Ints: []int64{1, 2}}, {Name: "strides", Type: "ints", Ints: []int64{2, 1}}, {Name: "pads", Type: "ints", Ints: []int64{1, 0, 0, 1}}}, Ins: []string{"x", "w"}, Outs: []string{"y3"}}
		for _, nodes := range [][]NodeJ{{c1, c2, c3}, {c3, c2, c1}, {c2, c1, c3}} {
			e.emit(graphCase("shared-weight", &GraphJ{Inputs: []VInfoJ{{Name: "x", Dt: "f32", Dims: []any{1, 1, 5, 5}}}, Inits: []InitJ{w}, Nodes: nodes, Outputs: []string{"y1", "y2", "y3"}}, []NamedT{x}))
		}
		wm := InitJ{Name: "wm", T: smallT("f32", []int{3, 3}, 4)}
		sh := InitJ{Name: "sh", T: idxT("i64", []int{2}, []int{0, -1})}
		xm := NamedT{"xm", smallT("f32", []int{2, 3}, 5)}
		g1 := NodeJ{Op: "Gemm", Ins: []string{"xm", "wm"}, Outs: []string{"g1"}}
		g2 := NodeJ{Op: "Gemm", Attrs: []Attr{{Name: "transB", Type: "i", I: 1}, {Name: "alpha", Type: "f", F: 2}}, Ins: []string{"xm", "wm"}, Outs: []string{"g2"}}
		g3 := NodeJ{Op: "Gemm", Attrs: []Attr{{Name: "transA", Type: "i", I: 1}}, Ins: []string{"wm", "wm", "wm"}, Outs: []string{"g3"}}
		cb := InitJ{Name: "cb", T: smallT("f32", []int{2, 3}, 6)}
		g4 := NodeJ{Op: "Gemm", Attrs: []Attr{{Name: "beta", Type: "f", F: 2}}, Ins: []string{"xm", "wm", "cb"}, Outs: []string{"g4"}}
		g5 := NodeJ{Op: "Gemm", Attrs: []Attr{{Name: "beta", Type: "f", F: -1}, {Name: "alpha", Type: "f", F: 3}}, Ins: []string{"xm", "wm", "cb"}, Outs: []string{"g5"}}
		a6 := NodeJ{Op: "Add", Ins: []string{"cb", "cb"}, Outs: []string{"a6"}}
		for _, nodes := range [][]NodeJ{{g4, g5, a6}, {g5, a6, g4}, {a6, g4, g5}} {
			e.emit(graphCase("shared-weight", &GraphJ{Inputs: []VInfoJ{{Name: "xm", Dt: "f32", Dims: []any{2, 3}}}, Inits: []InitJ{wm, cb}, Nodes: nodes, Outputs: []string{"g4", "g5", "a6", "cb"}}, []NamedT{xm}))
		}
		r1 := NodeJ{Op: "Reshape", Ins: []string{"xm", "sh"}, Outs: []string{"r1"}}
		r2 := NodeJ{Op: "Reshape", Ins: []string{"wm", "sh"}, Outs: []string{"r2"}}
		for _, nodes := range [][]NodeJ{{g1, g2, g3, r1, r2}, {r2, g3, g2, r1, g1}} {
			e.emit(graphCase("shared-weight", &GraphJ{Inputs: []VInfoJ{{Name: "xm", Dt: "f32", Dims: []any{"N", 3}}}, Inits: []InitJ{wm, sh}, Nodes: nodes, Outputs: []string{"g1", "g2", "g3", "r1", "r2"}}, []NamedT{xm}))
		}
	}
	// recurrent nodes of one type with explicit and with default activations in one graph, either order
	// (defaults are transcendental: float carrier, compared up to rounding)
	for _, op := range []string{"RNN", "GRU", "LSTM"} {
		G := map[string]int{"LSTM": 4, "GRU": 3, "RNN": 1}[op]
		nact := map[string]int{"LSTM": 3, "GRU": 2, "RNN": 1}[op]
		for _, other := range [][]string{{"relu", "relu", "relu"}, {"tanh", "sigmoid", "sigmoid"}, {"sigmoid", "relu", "tanh"}} {
			for _, explicitFirst := range []bool{true, false} {
				inits := []InitJ{{Name: "W", T: tinyT("f32", []int{1, G * 2, 3}, 1)}, {Name: "R", T: tinyT("f32", []int{1, G * 2, 2}, 2)}}
				ex := NodeJ{Op: op, Attrs: []Attr{{Name: "hidden_size", Type: "i", I: 2}, {Name: "activations", Type: "strings", Ss: other[:nact]}}, Ins: []string{"x", "W", "R"}, Outs: []string{"Ye", "Yhe"}}
				df := NodeJ{Op: op, Attrs: []Attr{{Name: "hidden_size", Type: "i", I: 2}}, Ins: []string{"x", "W", "R"}, Outs: []string{"Yd", "Yhd"}}
				nodes := []NodeJ{ex, df}
				if !explicitFirst {
					nodes = []NodeJ{df, ex}
				}
				g := &GraphJ{Inputs: []VInfoJ{{Name: "x", Dt: "f32", Dims: []any{"S", 2, 3}}}, Inits: inits, Nodes: nodes, Outputs: []string{"Ye", "Yhe", "Yd", "Yhd"}}
				e.emit(graphCase("same-type-float", g, []NamedT{{"x", fT("f32", []int{2, 2, 3}, []float64{0.5, -1, 0.25, 1, -0.5, 0.75, -0.25, 0.5, 1, -1, 0.5, 0.25})}}))
			}
		}
	}
	// an initializer that is also a graph input: the caller's tensor wins, the initializer is the default
	gI := &GraphJ{Inputs: []VInfoJ{{Name: "x", Dt: "f32", Dims: []any{2}}, {Name: "w", Dt: "f32", Dims: []any{2}}},
		Inits: []InitJ{{Name: "w", T: vals("f32", []int{2}, 10, 20)}}, Nodes: []NodeJ{{Op: "Add", Ins: []string{"x", "w"}, Outs: []string{"y"}}}, Outputs: []string{"y"}}
	e.emit(graphCase("init-as-input", gI, []NamedT{{"x", vals("f32", []int{2}, 1, 2)}}))
	e.emit(graphCase("init-as-input", gI, []NamedT{{"x", vals("f32", []int{2}, 1, 2)}, {"w", vals("f32", []int{2}, 5, 6)}}))
}

// siblingNodes: for every operator with attributes, a graph in which TWO nodes of that operator read the same
// tensors and differ in exactly one attribute (each attribute in turn, whatever its type: int, float, string,
// int list, FLOAT LIST, tensor); only variations that the operator accepts and that change its answer are kept.
// Whatever Run shares between "equal" nodes must look at every attribute.
func siblingNodes(e *emitter) {
	names := make([]string, 0, len(exampleCases))
	for n := range exampleCases {
		names = append(names, n)
	}
	sort.Strings(names)
	bump := func(a Attr) (Attr, bool) {
		b := a
		switch a.Type {
		case "i":
			b.I = a.I + 1
		case "f":
			b.F = a.F + 1
		case "ints":
			b.Ints = append([]int64{}, a.Ints...)
			if len(b.Ints) == 0 {
				return b, false
			}
			b.Ints[len(b.Ints)-1]++
		case "floats":
			b.Fs = append([]float64{}, a.Fs...)
			if len(b.Fs) == 0 {
				return b, false
			}
			b.Fs[0] += 2
		case "strings":
			b.Ss = append([]string{}, a.Ss...)
			if len(b.Ss) == 0 {
				return b, false
			}
			if b.Ss[0] == "relu" {
				b.Ss[0] = "tanh"
			} else {
				b.Ss[0] = "relu"
			}
		case "t":
			if a.T == nil || len(a.T.Data) == 0 {
				return b, false
			}
			t := *a.T
			t.Data = append([]any{}, a.T.Data...)
			t.Data[0] = toF(t.Data[0]) + 1
			b.T = &t
		default:
			return b, false
		}
		return b, true
	}
	for _, op := range names {
		ex := exampleCases[op]
		if len(ex.Attrs) == 0 || len(ex.Inputs) == 0 {
			continue
		}
		base := runOp(op, ex.Attrs, ex.Inputs, ex.Outputs)
		if base.Status != "ok" {
			continue
		}
		for k := range ex.Attrs {
			alt, ok := bump(ex.Attrs[k])
			if !ok {
				continue
			}
			attrs2 := append([]Attr{}, ex.Attrs...)
			attrs2[k] = alt
			r2 := runOp(op, attrs2, ex.Inputs, ex.Outputs)
			b1, _ := json.Marshal(base.Outs)
			b2, _ := json.Marshal(r2.Outs)
			if r2.Status != "ok" || string(b1) == string(b2) {
				continue
			}
			g := &GraphJ{}
			var ins []string
			var feed []NamedT
			for i, t := range ex.Inputs {
				if t == nil {
					ins = append(ins, "")
					continue
				}
				nm := fmt.Sprintf("in%d", i)
				ins = append(ins, nm)
				g.Inputs = append(g.Inputs, VInfoJ{Name: nm, Dt: t.Dt, Dims: toAny(t.Shape)})
				feed = append(feed, NamedT{nm, t})
			}
			nOut := len(ex.Outputs)
			if nOut == 0 {
				nOut = 1
			}
			outsA, outsB := make([]string, nOut), make([]string, nOut)
			for i := range outsA {
				outsA[i], outsB[i] = fmt.Sprintf("a%d", i), fmt.Sprintf("b%d", i)
			}
			for _, order := range [][2]int{{0, 1}, {1, 0}} {
				pair := []NodeJ{{Op: op, Attrs: ex.Attrs, Ins: ins, Outs: outsA}, {Op: op, Attrs: attrs2, Ins: ins, Outs: outsB}}
				gg := *g
				gg.Nodes = []NodeJ{pair[order[0]], pair[order[1]]}
				gg.Outputs = append(append([]string{}, outsA...), outsB...)
				e.emit(graphCase("sibling-nodes:"+op+"."+ex.Attrs[k].Name, &gg, feed))
			}
		}
	}
}
