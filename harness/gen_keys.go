package main

// Shape families that collide under the usual hand-rolled map keys for "the shapes seen so far":
// polynomial hashes key = key*m + extent (an extent >= m carries into the neighbouring digit:
// (.., a, m+k) and (.., a+1, k) get one key) for the multipliers people pick, and keys printed without
// a separator ((1, 23) and (12, 3) both print "123"). A memo table keyed like that answers the second
// request of a family with the table of the first. Each family is two requests on fresh operators and
// fresh tensors; what each must return does not depend on the other.

var keyMultipliers = []int{10, 16, 31, 32, 33, 37, 64, 100, 101, 127, 128, 131, 255, 256, 257}

type shapeFamily struct{ first, second []int }

func keyFamilies() []shapeFamily {
	var fs []shapeFamily
	for i, m := range keyMultipliers {
		k := 1 + i%3
		a := 2 + i%2
		big, small := []int{3, a, m + k}, []int{3, a + 1, k}
		if i%2 == 0 {
			fs = append(fs, shapeFamily{big, small})
		} else {
			fs = append(fs, shapeFamily{small, big})
		}
		// the carry on the leading axes
		fs = append(fs, shapeFamily{[]int{1, m + 2, 3}, []int{2, 2, 3}})
	}
	// shapes that gorgonia's Shape.Eq calls equal (a vector, a column and a row of the same length), and shapes
	// that merely have the same number of elements: "same shape as last time" decided by either is wrong
	for _, n := range []int{2, 3, 6} {
		fs = append(fs, shapeFamily{[]int{n}, []int{n, 1}}, shapeFamily{[]int{n, 1}, []int{1, n}}, shapeFamily{[]int{1, n}, []int{n}},
			shapeFamily{[]int{n}, []int{1, 1, n}}, shapeFamily{[]int{n, 1, 1}, []int{n}})
	}
	fs = append(fs, shapeFamily{[]int{2, 3}, []int{3, 2}}, shapeFamily{[]int{6}, []int{2, 3}}, shapeFamily{[]int{2, 3, 2}, []int{3, 2, 2}},
		shapeFamily{[]int{2, 2, 3}, []int{2, 3, 2}}, shapeFamily{[]int{4, 3}, []int{2, 6}}, shapeFamily{[]int{1, 6}, []int{6, 1}})
	// digits printed without separator
	fs = append(fs, shapeFamily{[]int{1, 23}, []int{12, 3}}, shapeFamily{[]int{11, 1}, []int{1, 11}},
		shapeFamily{[]int{2, 34}, []int{23, 4}}, shapeFamily{[]int{1, 1, 12}, []int{1, 11, 2}}, shapeFamily{[]int{3, 1, 15}, []int{3, 11, 5}})
	return fs
}

// partner shapes valid for both members of a family: per-leading-axis, scalar-like, trailing axis
func keyPartners(f shapeFamily) [][]int {
	ps := [][]int{{1}}
	if len(f.first) == 3 && len(f.second) == 3 && f.first[0] == f.second[0] {
		ps = append(ps, []int{f.first[0], 1, 1})
	}
	if f.first[len(f.first)-1] == f.second[len(f.second)-1] {
		ps = append(ps, []int{f.first[len(f.first)-1]})
	}
	return ps
}

func genKeys(e *emitter, prop string, tier string) {
	save := reuseEvery
	reuseEvery = 0
	defer func() { reuseEvery = save }()
	neg := func(dt string, s []int) *TJ {
		return seqT(dt, s, func(i int) float64 { return float64(-(i%5 + 1)) })
	}
	slope := func(dt string, s []int) *TJ {
		return seqT(dt, s, func(i int) float64 { return float64(i%7 + 2) })
	}
	switch prop {
	case "C10":
		for _, f := range keyFamilies() {
			for _, p := range keyPartners(f) {
				for _, dt := range []string{"f32", "i64"} {
					e.emit(opCase("shape-key-family", "PRelu", nil, []*TJ{neg(dt, f.first), slope(dt, p)}, nil))
					e.emit(opCase("shape-key-family", "PRelu", nil, []*TJ{neg(dt, f.second), slope(dt, p)}, nil))
				}
			}
		}
	case "C11":
		// the same fill value asked for in shapes of one family, one request after the other
		for _, f := range keyFamilies() {
			if nelem(f.first) > 4096 || nelem(f.second) > 4096 {
				continue
			}
			for _, val := range []*TJ{nil, vals("i64", []int{1}, 5), vals("f32", []int{1}, -2)} {
				var attrs []Attr
				if val != nil {
					attrs = []Attr{{Name: "value", Type: "t", T: val}}
				}
				e.emit(opCase("shape-key-family", "ConstantOfShape", attrs, []*TJ{idxT("i64", []int{len(f.first)}, f.first)}, nil))
				e.emit(opCase("shape-key-family", "ConstantOfShape", attrs, []*TJ{idxT("i64", []int{len(f.second)}, f.second)}, nil))
			}
		}
	case "C07", "C08":
		// one operator, the same attributes, two operands of one family in a row
		for _, f := range keyFamilies() {
			if nelem(f.first) > 4096 || nelem(f.second) > 4096 {
				continue
			}
			for _, sh := range [][]int{f.first, f.second, f.first} {
				x := seqT("f32", sh, func(i int) float64 { return float64(i%11 - 5) })
				r := len(sh)
				if prop == "C08" {
					perm := make([]int64, r)
					for i := range perm {
						perm[i] = int64((i + 1) % r)
					}
					e.emit(opCase("shape-key-family", "Transpose", []Attr{{Name: "perm", Type: "ints", Ints: perm}}, []*TJ{x}, nil))
					e.emit(opCase("shape-key-family", "Concat", []Attr{{Name: "axis", Type: "i", I: int64(r - 1)}}, []*TJ{x, seqT("f32", sh, func(i int) float64 { return float64(20 + i%7) })}, nil))
					e.emit(opCase("shape-key-family", "Gather", []Attr{{Name: "axis", Type: "i", I: 0}}, []*TJ{x, idxT("i64", []int{2}, []int{sh[0] - 1, 0})}, nil))
					e.emit(opCase("shape-key-family", "Slice", nil, []*TJ{x, idxT("i64", []int{1}, []int{0}), idxT("i64", []int{1}, []int{1}), idxT("i64", []int{1}, []int{r - 1})}, nil))
				} else {
					e.emit(opCase("shape-key-family", "Flatten", []Attr{{Name: "axis", Type: "i", I: 1}}, []*TJ{x}, nil))
					e.emit(opCase("shape-key-family", "Reshape", nil, []*TJ{x, idxT("i64", []int{2}, []int{-1, 1})}, nil))
					e.emit(opCase("shape-key-family", "Reshape", nil, []*TJ{x, idxT("i64", []int{1}, []int{-1})}, nil))
					e.emit(opCase("shape-key-family", "Shape", nil, []*TJ{x}, nil))
					e.emit(opCase("shape-key-family", "Unsqueeze", nil, []*TJ{x, idxT("i64", []int{1}, []int{0})}, nil))
				}
			}
		}
	case "C03", "C14":
		ops := []string{"Add", "Mul", "Sub", "Less"}
		for i, f := range keyFamilies() {
			for _, p := range keyPartners(f) {
				op := ops[i%len(ops)]
				e.emit(opCase("shape-key-family", op, nil, []*TJ{neg("f32", f.first), slope("f32", p)}, nil))
				e.emit(opCase("shape-key-family", op, nil, []*TJ{neg("f32", f.second), slope("f32", p)}, nil))
				e.emit(opCase("shape-key-family", op, nil, []*TJ{slope("i64", p), neg("i64", f.first)}, nil))
				e.emit(opCase("shape-key-family", op, nil, []*TJ{slope("i64", p), neg("i64", f.second)}, nil))
			}
		}
	}
}

// propOps: the operators each operator-level property is about.
var propOps = map[string][]string{
	"C03": {"Add", "Sub", "Mul", "Div", "Equal", "Greater", "GreaterOrEqual", "Less", "LessOrEqual", "And", "Or", "Xor"},
	"C04": {"MatMul", "Gemm", "LinearRegressor", "Scaler"},
	"C05": {"Conv"},
	"C06": {"RNN", "GRU", "LSTM"},
	"C07": {"Reshape", "Flatten", "Squeeze", "Unsqueeze", "Shape"},
	"C08": {"Transpose", "Concat", "Slice", "Gather", "Expand"},
	"C09": {"ArgMax", "ReduceMax", "ReduceMin", "Softmax", "LogSoftmax"},
	"C10": {"Abs", "Relu", "PRelu", "Sigmoid", "Tanh", "Sin", "Cos", "Tan", "Asin", "Acos", "Atan", "Sinh", "Cosh", "Asinh", "Acosh", "Atanh", "Not"},
	"C11": {"ConstantOfShape", "Cast"},
}

// genDtypeSweep: the example request of every operator of the property, with the element type of ONE input
// position at a time (and of all positions that share the example's type at once) replaced by each of the
// 14 element types. What the gate must admit is pinned in Spec/Types.lean; an admitted type must compute.
func genDtypeSweep(e *emitter, prop string) {
	save := reuseEvery
	reuseEvery = 0
	defer func() { reuseEvery = save }()
	retype := func(t *TJ, dt string) *TJ {
		if t == nil {
			return nil
		}
		r := &TJ{Dt: dt, Shape: append([]int{}, t.Shape...)}
		for i := range t.Data {
			v := toF(t.Data[i])
			if dt == "bool" {
				v = float64(int(v) % 2)
			}
			r.Data = append(r.Data, v)
		}
		return r
	}
	for _, op := range propOps[prop] {
		ex, ok := exampleCases[op]
		if !ok || len(ex.Inputs) == 0 {
			continue
		}
		for _, dt := range allDts {
			for p := range ex.Inputs {
				if ex.Inputs[p] == nil || len(ex.Inputs[p].Bits) > 0 {
					continue
				}
				ins := append([]*TJ{}, ex.Inputs...)
				ins[p] = retype(ex.Inputs[p], dt)
				e.emit(opCase("dtype-sweep", op, ex.Attrs, ins, ex.Outputs))
			}
			// all positions that carry the type of input 0
			if ex.Inputs[0] != nil && len(ex.Inputs) > 1 {
				ins := append([]*TJ{}, ex.Inputs...)
				n := 0
				for p, t := range ex.Inputs {
					if t != nil && t.Dt == ex.Inputs[0].Dt && len(t.Bits) == 0 {
						ins[p] = retype(t, dt)
						n++
					}
				}
				if n > 1 {
					e.emit(opCase("dtype-sweep", op, ex.Attrs, ins, ex.Outputs))
				}
			}
		}
	}
}
