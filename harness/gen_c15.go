package main

import (
	"fmt"
	"reflect"
	"sort"

	"github.com/advancedclimatesystems/gonnx"
	"github.com/advancedclimatesystems/gonnx/ops/opset13"
	"gorgonia.org/tensor"
)

func init() { gens["C15"] = genC15 }

func dummyOf(dt string) *TJ {
	return &TJ{Dt: dt, Shape: []int{1}, Data: []any{0.0}}
}

// gateCase calls ValidateInputs of a fresh operator on tensors of the given dtypes (nil = absent).
var gateCounter = 0

func gateCase(name string, dts []*string) *Case {
	c := &Case{Kind: "gate", Op: name, Dts: dts, P: map[string]any{"desc": liveDesc(name, len(dts))}}
	c.Impl = guard(func() *Result {
		op, err := opset13.GetOperator(name)
		if err != nil {
			return errResult(err)
		}
		// the caller's slice has spare capacity holding unrelated tensors (a prefix of a longer list, a
		// re-used buffer): what lies behind len(ins) is not an input
		backing := make([]tensor.Tensor, len(dts)+10)
		for i := range backing {
			backing[i] = mkTensor(dummyOf("f32"))
		}
		ins := backing[:len(dts)]
		for i, d := range dts {
			ins[i] = nil
			if d != nil {
				// different shapes at different positions (a gate has no business reshaping or
				// broadcasting what it is handed); every third case: rank-0 tensors everywhere (gorgonia reports
				// DataSize 0 for them: a scalar is a tensor like any other, at optional positions too)
				t := dummyOf(*d)
				if gateCounter%3 == 2 && len(t.Data) > 0 {
					t = &TJ{Dt: t.Dt, Shape: []int{}, Data: t.Data[:1]}
				} else if sh := [][]int{nil, {3}, {1}, nil, {2}}[i%5]; sh != nil && len(t.Data) > 0 {
					t = &TJ{Dt: t.Dt, Shape: sh}
					for k := 0; k < nelem(sh); k++ {
						t.Data = append(t.Data, dummyOf(*d).Data[0])
					}
				} else if i == 0 && len(t.Data) > 0 {
					t = &TJ{Dt: t.Dt, Shape: []int{2, 3}}
					for k := 0; k < 6; k++ {
						t.Data = append(t.Data, dummyOf(*d).Data[0])
					}
				}
				ins[i] = mkTensor(t)
			}
		}
		orig := append([]tensor.Tensor{}, ins...)
		// every other case: the instance has already validated another (longer, acceptable) list
		gateCounter++
		if gateCounter%2 == 0 {
			n := op.GetMaxInputs()
			if name == "Concat" {
				n = len(dts) + 2
			}
			prior := make([]tensor.Tensor, n)
			cons := op.GetInputTypeConstraints()
			for i := range prior {
				dt := "f32"
				if name != "Concat" && i < len(cons) && len(cons[i]) > 0 {
					dt = dtName(cons[i][0])
				}
				prior[i] = mkTensor(dummyOf(dt))
			}
			func() {
				defer func() { recover() }()
				op.ValidateInputs(prior)
			}()
		}
		out, err := op.ValidateInputs(ins)
		if err != nil {
			return errResult(err)
		}
		r := &Result{Status: "ok"}
		pat := make([]any, len(out))
		pass := true
		for i, o := range out {
			if o == nil {
				pat[i] = nil
			} else {
				pat[i] = dtName(o.Dtype())
			}
			if i < len(orig) {
				if orig[i] == nil && o != nil {
					pass = false
				}
				if orig[i] != nil && (o == nil || !sameObj(orig[i], o)) {
					pass = false
				}
			} else if o != nil {
				pass = false
			}
		}
		if len(out) < len(orig) {
			pass = false
		}
		r.Extra = map[string]any{"pattern": pat, "passthrough": pass}
		return r
	})
	return c
}

// liveDesc reads min/max/constraints from a fresh operator of the running code (the judge's
// decision rule is evaluated on these, independently of the Lean model).
func liveDesc(name string, n int) map[string]any {
	op, err := opset13.GetOperator(name)
	if err != nil {
		return nil
	}
	if name == "Concat" {
		cons := make([][]string, n)
		for i := range cons {
			cons[i] = allDts
		}
		return map[string]any{"min": 1, "max": n, "constraints": cons}
	}
	var cons [][]string
	for _, c := range op.GetInputTypeConstraints() {
		row := []string{}
		for _, d := range c {
			row = append(row, dtName(d))
		}
		cons = append(cons, row)
	}
	return map[string]any{"min": op.GetMinInputs(), "max": op.GetMaxInputs(), "constraints": cons}
}

func genC15(e *emitter, tier string) {
	names := opset13.GetOpNames()
	sort.Strings(names)
	for _, name := range names {
		op, _ := opset13.GetOperator(name)
		min, max := op.GetMinInputs(), op.GetMaxInputs()
		cons := op.GetInputTypeConstraints()
		top := max + 2
		if name == "Concat" {
			top = 6
			if tier == "thorough" {
				top = 32
			}
		}
		okDt := func(p int) string {
			if name == "Concat" || p >= len(cons) || len(cons[p]) == 0 {
				return "f32"
			}
			return dtName(cons[p][0])
		}
		for n := 0; n <= top; n++ {
			base := make([]*string, n)
			for p := range base {
				base[p] = sp(okDt(p))
			}
			e.emit(gateCase(name, base))
			for p := 0; p < n; p++ {
				for _, d := range allDts {
					dts := append([]*string{}, base...)
					dts[p] = sp(d)
					e.emit(gateCase(name, dts))
				}
				// nil at this position; only optional positions are inside the property's quantifier
				// (a nil at a required position is a malformed call: PRelu panics on it, noted in DESIGN)
				if p >= min {
					dts := append([]*string{}, base...)
					dts[p] = nil
					e.emit(gateCase(name, dts))
				}
			}
			// an omitted optional input next to every dtype at every other position (before and behind it)
			for q := min; q < n; q++ {
				for p := 0; p < n; p++ {
					if p == q {
						continue
					}
					for _, d := range allDts {
						dts := append([]*string{}, base...)
						dts[q] = nil
						dts[p] = sp(d)
						e.emit(gateCase(name, dts))
					}
				}
			}
			// two-position dtype combinations on a sample: all equal to each dtype
			if n >= 2 {
				for _, d := range allDts {
					dts := make([]*string, n)
					for p := range dts {
						dts[p] = sp(d)
					}
					e.emit(gateCase(name, dts))
				}
			}
			// all optional positions nil
			if n > min {
				dts := append([]*string{}, base...)
				for p := min; p < n; p++ {
					dts[p] = nil
				}
				e.emit(gateCase(name, dts))
			}
		}
	}
	// the gate as Run applies it: nodes whose input lists are too long or too short once the empty names
	// (omitted OPTIONAL inputs) are counted in, through Model.Run (an empty name at a REQUIRED position is a
	// malformed node, outside the property: the unchanged code panics on it)
	{
		x := NamedT{"x", smallT("f32", []int{2, 2}, 1)}
		vin := []VInfoJ{{Name: "x", Dt: "f32", Dims: []any{2, 2}}}
		for _, n := range []NodeJ{
			{Op: "Relu", Ins: []string{"x", ""}, Outs: []string{"y"}},
			{Op: "Add", Ins: []string{"x", "x", ""}, Outs: []string{"y"}},
			{Op: "Squeeze", Ins: []string{"x", "", "", ""}, Outs: []string{"y"}},
			{Op: "Gemm", Ins: []string{"x", "x", "", ""}, Outs: []string{"y"}},
			{Op: "Gemm", Ins: []string{"x", "x", ""}, Outs: []string{"y"}},
			{Op: "MatMul", Ins: []string{"x", "x", ""}, Outs: []string{"y"}},
			{Op: "Flatten", Ins: []string{"x", "", ""}, Outs: []string{"y"}},
			{Op: "Relu", Ins: []string{}, Outs: []string{"y"}},
			{Op: "Transpose", Ins: []string{"x", ""}, Outs: []string{"y"}},
			{Op: "Conv", Ins: []string{"x", "x", "", ""}, Outs: []string{"y"}},
		} {
			e.emit(graphCase("arity-through-run", &GraphJ{Inputs: vin, Nodes: []NodeJ{n}, Outputs: []string{"y"}}, []NamedT{x}))
		}
	}
	// an omitted optional input is the EMPTY name; nothing bound to the empty name elsewhere may be handed to
	// the operator in its place: a multi-output node that leaves an output out (""), an extra caller entry
	// under "", an initializer without a name
	{
		W := InitJ{Name: "W", T: tinyT("f32", []int{1, 2, 3}, 1)}
		R := InitJ{Name: "R", T: tinyT("f32", []int{1, 2, 2}, 2)}
		wm := InitJ{Name: "wm", T: smallT("f32", []int{2, 2}, 4)}
		x := NamedT{"x", smallT("f32", []int{2, 2, 3}, 1)}
		vin := []VInfoJ{{Name: "x", Dt: "f32", Dims: []any{2, 2, 3}}}
		rnn := NodeJ{Op: "RNN", Attrs: []Attr{{Name: "hidden_size", Type: "i", I: 2}, {Name: "activations", Type: "strings", Ss: []string{"relu"}}}, Ins: []string{"x", "W", "R"}, Outs: []string{"", "Yh"}}
		sq := NodeJ{Op: "Squeeze", Ins: []string{"Yh", ""}, Outs: []string{"s"}}
		gm := NodeJ{Op: "Gemm", Ins: []string{"s", "wm", ""}, Outs: []string{"g"}}
		rnn2 := NodeJ{Op: "RNN", Attrs: []Attr{{Name: "hidden_size", Type: "i", I: 2}, {Name: "activations", Type: "strings", Ss: []string{"relu"}}}, Ins: []string{"x", "W", "R", "", "", ""}, Outs: []string{"Y2", ""}}
		e.emit(graphCase("empty-name-bound", &GraphJ{Inputs: vin, Inits: []InitJ{W, R, wm}, Nodes: []NodeJ{rnn, sq, gm}, Outputs: []string{"Yh", "s", "g"}}, []NamedT{x}))
		e.emit(graphCase("empty-name-bound", &GraphJ{Inputs: vin, Inits: []InitJ{W, R, wm}, Nodes: []NodeJ{rnn, rnn2, sq, gm}, Outputs: []string{"Yh", "Y2", "s", "g"}}, []NamedT{x}))
		// the caller's map has an entry under the empty name
		e.emit(graphCase("empty-name-bound", &GraphJ{Inputs: vin, Inits: []InitJ{W, R, wm}, Nodes: []NodeJ{rnn2, {Op: "Squeeze", Ins: []string{"Y2", ""}, Outs: []string{"s"}}}, Outputs: []string{"Y2", "s"}},
			[]NamedT{x, {"", idxT("i64", []int{1}, []int{0})}}))
		// an initializer without a name
		e.emit(graphCase("empty-name-bound", &GraphJ{Inputs: vin, Inits: []InitJ{W, R, wm, {Name: "", T: smallT("f32", []int{2, 2}, 7)}},
			Nodes: []NodeJ{rnn2, {Op: "Squeeze", Ins: []string{"Y2", ""}, Outs: []string{"s"}}, {Op: "Squeeze", Ins: []string{"x"}, Outs: []string{"x2"}}, {Op: "Gemm", Ins: []string{"wm", "wm", ""}, Outs: []string{"g"}}}, Outputs: []string{"Y2", "s", "g"}}, []NamedT{x}))
	}
	// the gate on a Model that has already executed the node (every Run gates anew): every element type at
	// every position of the example node of every operator, after one completed Run
	for _, name := range names {
		ex, ok := exampleCases[name]
		if !ok {
			continue
		}
		for p := range ex.Inputs {
			if ex.Inputs[p] == nil {
				continue
			}
			for _, d := range allDts {
				if d != ex.Inputs[p].Dt {
					e.emit(gateRunCase(name, p, d))
				}
			}
		}
	}
	// names outside the opset
	for _, bad := range []string{"", "abs", "ABS", "Abs ", " Abs", "Abs\n", "\tRelu", "Conv2D", "Foo", "Gelu", "MaxPool", "Relu6", "Rel", "lstm", "Lstm", "Identity", "Dropout", "ai.onnx.Relu", "Relu:13", "Add,Sub"} {
		c := &Case{Kind: "lookup", Op: bad, P: map[string]any{"registered": false}}
		c.Impl = guard(func() *Result {
			op, err := opset13.GetOperator(bad)
			if err != nil {
				return errResult(err)
			}
			return &Result{Status: "ok", Extra: op.String()}
		})
		e.emit(c)
	}
	for _, name := range names {
		c := &Case{Kind: "lookup", Op: name, P: map[string]any{"registered": true}}
		c.Impl = guard(func() *Result {
			op, err := opset13.GetOperator(name)
			if err != nil {
				return errResult(err)
			}
			return &Result{Status: "ok", Extra: op.String()}
		})
		e.emit(c)
		e.emit(freshCase(name))
	}
}

// freshCase probes that a lookup returns an operator whose state is independent of other lookups.
func freshCase(name string) *Case {
	c := &Case{Kind: "fresh", Op: name}
	c.Impl = guard(func() *Result {
		op0, err := opset13.GetOperator(name)
		if err != nil {
			return errResult(err)
		}
		s0 := fmt.Sprintf("%#v", op0)
		op1, _ := opset13.GetOperator(name)
		op2, _ := opset13.GetOperator(name)
		// zero-size operator structs have no state and legitimately share one address in Go
		stateless := reflect.TypeOf(op0).Kind() == reflect.Ptr && reflect.TypeOf(op0).Elem().Size() == 0
		distinct := stateless || (fmt.Sprintf("%p", op1) != fmt.Sprintf("%p", op2) && fmt.Sprintf("%p", op0) != fmt.Sprintf("%p", op1))
		// use op1: Init with the example node (non-default attributes) and Apply
		used := false
		if ex, ok := exampleCases[name]; ok {
			func() {
				defer func() { recover() }()
				node := mkNode(name, ex.Attrs, []string{"a", "b", "c", "d", "e", "f", "g", "h"}[:len(ex.Inputs)], ex.Outputs)
				if err := op1.Init(node); err != nil {
					return
				}
				ins := make([]tensor.Tensor, len(ex.Inputs))
				for i, t := range ex.Inputs {
					ins[i] = mkTensor(t)
				}
				ins, err := op1.ValidateInputs(ins)
				if err != nil {
					return
				}
				if _, err := op1.Apply(ins); err == nil {
					used = true
				}
			}()
		}
		s1 := fmt.Sprintf("%#v", op1)
		op3, _ := opset13.GetOperator(name)
		s2 := fmt.Sprintf("%#v", op2)
		s3 := fmt.Sprintf("%#v", op3)
		return &Result{Status: "ok", Extra: map[string]any{
			"distinct": distinct, "other_unchanged": s2 == s0, "later_default": s3 == s0,
			"used": used, "state_changed_by_use": s1 != s0,
		}}
	})
	return c
}

// gateRunCase: the gate as a long-lived Model applies it. One Model with a single node of the operator
// (the example node) first completes a Run with acceptable inputs; a later Run of the SAME Model then
// supplies element type dt at position p (same shape). Whatever Run remembers of a node it has already
// executed, every Run gates its inputs anew.
func gateRunCase(name string, p int, dt string) *Case {
	ex := exampleCases[name]
	c := &Case{Kind: "gate-run", Op: name, Stream: "gate-on-every-run", P: map[string]any{"desc": liveDesc(name, len(ex.Inputs)), "pos": p, "dt": dt}}
	for i, t := range ex.Inputs {
		switch {
		case t == nil:
			c.Dts = append(c.Dts, nil)
		case i == p:
			c.Dts = append(c.Dts, sp(dt))
		default:
			c.Dts = append(c.Dts, sp(t.Dt))
		}
	}
	c.Impl = guard(func() *Result {
		g := &GraphJ{}
		node := NodeJ{Op: name, Attrs: ex.Attrs}
		good := gonnx.Tensors{}
		for i, t := range ex.Inputs {
			if t == nil {
				node.Ins = append(node.Ins, "")
				continue
			}
			n := fmt.Sprintf("in%d", i)
			node.Ins = append(node.Ins, n)
			g.Inputs = append(g.Inputs, VInfoJ{Name: n, Dt: t.Dt, NoShape: true, How: "shape"})
			good[n] = mkTensor(t)
		}
		for i := range ex.Outputs {
			node.Outs = append(node.Outs, fmt.Sprintf("out%d", i))
		}
		if len(node.Outs) == 0 {
			node.Outs = []string{"out0"}
		}
		g.Nodes, g.Outputs = []NodeJ{node}, []string{node.Outs[0]}
		m, err := loadModel(g)
		if err != nil {
			return &Result{Status: "skip", Msg: "load: " + err.Error()}
		}
		if _, err := m.Run(good); err != nil {
			return &Result{Status: "skip", Msg: "first run: " + err.Error()}
		}
		if p >= len(ex.Inputs) || ex.Inputs[p] == nil {
			return &Result{Status: "skip", Msg: "no input at this position"}
		}
		bad := gonnx.Tensors{}
		for k, v := range good {
			bad[k] = v
		}
		src := ex.Inputs[p]
		alt := &TJ{Dt: dt, Shape: src.Shape}
		for range src.Data {
			alt.Data = append(alt.Data, dummyOf(dt).Data[0])
		}
		if len(alt.Data) != nelem(src.Shape) {
			return &Result{Status: "skip", Msg: "example input carried as bits"}
		}
		bad[fmt.Sprintf("in%d", p)] = mkTensor(alt)
		outs, err := m.Run(bad)
		if err != nil {
			return errResult(err)
		}
		return &Result{Status: "ok", Extra: map[string]any{"n_outs": len(outs)}}
	})
	return c
}
