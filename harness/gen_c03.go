package main

import (
	"math"
	"github.com/advancedclimatesystems/gonnx/ops"
	"gorgonia.org/tensor"
)

func init() {
	gens["C03"] = genC03
	gens["C14"] = genC14
	exampleCases["Add"] = &Case{Op: "Add", Inputs: []*TJ{iota1("f32", 2, 3), iota1("f32", 3)}}
}

var arithOps = []string{"Add", "Sub", "Mul", "Div"}
var cmpOps = []string{"Equal", "Greater", "GreaterOrEqual", "Less", "LessOrEqual"}
var logicOps = []string{"And", "Or", "Xor"}

func binData(op, dt string, sa, sb []int) (*TJ, *TJ) {
	switch {
	case dt == "bool":
		return seqT(dt, sa, func(i int) float64 { return float64(i % 2) }),
			seqT(dt, sb, func(i int) float64 {
				if i%3 == 0 {
					return 1
				}
				return 0
			})
	case op == "Div" && (dt == "f32" || dt == "f64"):
		ds := []float64{1, 2, 3, -4, 6, -1, -2, 12}
		return seqT(dt, sa, func(i int) float64 { return float64(12 * (i - 2)) }),
			seqT(dt, sb, func(i int) float64 { return ds[i%len(ds)] })
	case dt[0] == 'u':
		return seqT(dt, sa, func(i int) float64 { return float64(i + 1) }),
			seqT(dt, sb, func(i int) float64 { return float64(2*i + 1) })
	case op == "Div":
		return seqT(dt, sa, func(i int) float64 { return float64(7*i - 9) }),
			seqT(dt, sb, func(i int) float64 { return float64([]int{2, -3, 5, 1, -1, 4}[i%6]) })
	}
	return seqT(dt, sa, func(i int) float64 { return float64(i + 1) }),
		seqT(dt, sb, func(i int) float64 { return float64(2*i - 3) })
}

func opCase(stream, op string, attrs []Attr, ins []*TJ, outs []string) *Case {
	return &Case{Kind: "op", Stream: stream, Op: op, Attrs: attrs, Inputs: ins, Outputs: outs, Impl: runOp(op, attrs, ins, outs)}
}

func genC03(e *emitter, tier string) {
	R, E := 3, 3
	if tier == "thorough" {
		R, E = 4, 3
	}
	shapes := allShapes(R, E)
	numDts := []string{"f32", "f64", "i32", "i64", "u32", "u64"}
	k := 0
	for _, sa := range shapes {
		for _, sb := range shapes {
			for _, op := range arithOps {
				dt := numDts[k%len(numDts)]
				k++
				a, b := binData(op, dt, sa, sb)
				e.emit(opCase("pairs", op, nil, []*TJ{a, b}, nil))
			}
			for _, op := range cmpOps {
				dt := numDts[k%len(numDts)]
				k++
				a, b := binData(op, dt, sa, sb)
				// make ties visible
				if len(b.Data) > 0 && len(a.Data) > 0 {
					b.Data[0] = a.Data[0]
				}
				e.emit(opCase("pairs", op, nil, []*TJ{a, b}, nil))
			}
			for _, op := range logicOps {
				a, b := binData(op, "bool", sa, sb)
				e.emit(opCase("pairs", op, nil, []*TJ{a, b}, nil))
			}
		}
	}
	// every accepted dtype on a fixed set of shape pairs, and dtypes the gate refuses
	pairs := [][2][]int{{{2, 3}, {3}}, {{3}, {2, 3}}, {{2, 1}, {1, 3}}, {{}, {2, 2}}, {{2, 2}, {}}, {{}, {}}, {{2}, {3}}, {{1, 2, 3}, {2, 1, 1}}}
	for _, op := range append(append(append([]string{}, arithOps...), cmpOps...), logicOps...) {
		for _, dt := range allDts {
			for _, p := range pairs {
				a, b := binData(op, dt, p[0], p[1])
				e.emit(opCase("dtypes", op, nil, []*TJ{a, b}, nil))
			}
		}
		// mixed dtypes
		a, _ := binData(op, "f32", []int{2, 3}, []int{3})
		_, b := binData(op, "f64", []int{2, 3}, []int{3})
		e.emit(opCase("dtypes", op, nil, []*TJ{a, b}, nil))
		a, _ = binData(op, "i32", []int{2, 3}, []int{3})
		_, b = binData(op, "i64", []int{2, 3}, []int{3})
		e.emit(opCase("dtypes", op, nil, []*TJ{a, b}, nil))
	}
	// integer division by zero, integer extremes (wrap-around)
	for _, dt := range []string{"i32", "i64", "u32", "u64"} {
		e.emit(opCase("special", "Div", nil, []*TJ{vals(dt, []int{3}, 7, 8, 9), vals(dt, []int{3}, 1, 0, 2)}, nil))
	}
	e.emit(opCase("special", "Add", nil, []*TJ{vals("i32", []int{2}, 2147483647, -2147483648), vals("i32", []int{2}, 1, -1)}, nil))
	e.emit(opCase("special", "Mul", nil, []*TJ{vals("i32", []int{2}, 65536, -65536), vals("i32", []int{2}, 65536, 65537)}, nil))
	e.emit(opCase("special", "Sub", nil, []*TJ{vals("u32", []int{2}, 0, 5), vals("u32", []int{2}, 1, 7)}, nil))
	e.emit(opCase("special", "Div", nil, []*TJ{vals("i32", []int{4}, -7, 7, -7, 7), vals("i32", []int{4}, 2, -2, -2, 2)}, nil))
	e.emit(opCase("special", "Div", nil, []*TJ{vals("i32", []int{1}, -2147483648), vals("i32", []int{1}, -1)}, nil))
	// large operands (beyond the sizes at which kernels go block-wise / parallel; not multiples of block sizes)
	largeNs := []int{9001}
	if tier == "thorough" {
		largeNs = []int{9001, 12345}
	}
	for _, n := range largeNs {
		ia := func(dt string, sh []int, m, o int) *TJ { return seqT(dt, sh, func(i int) float64 { return float64((i*5+o)%m - m/2) }) }
		for _, op := range []string{"Add", "Sub", "Mul", "Less", "Equal", "GreaterOrEqual"} {
			e.emit(opCase("large", op, nil, []*TJ{ia("f32", []int{n}, 41, 1), ia("f32", []int{n}, 17, 3)}, nil))
			e.emit(opCase("large", op, nil, []*TJ{ia("i64", []int{3, n / 3}, 41, 1), ia("i64", []int{n / 3}, 17, 3)}, nil))
			e.emit(opCase("large", op, nil, []*TJ{ia("i32", []int{n / 3}, 41, 2), ia("i32", []int{3, n / 3}, 17, 5)}, nil))
		}
		e.emit(opCase("large", "Div", nil, []*TJ{ia("i32", []int{n}, 201, 1), seqT("i32", []int{n}, func(i int) float64 { return float64(i%7 + 1) })}, nil))
		for _, op := range logicOps {
			e.emit(opCase("large", op, nil, []*TJ{seqT("bool", []int{n}, func(i int) float64 { return float64((i / 3) % 2) }), seqT("bool", []int{n}, func(i int) float64 { return float64((i / 5) % 2) })}, nil))
		}
	}
	// IEEE stream: fractional, huge, tiny, signed-zero, infinite and NaN operands; + - * / must be the
	// correctly rounded result bit for bit, for every broadcast pattern incl. rank-0 operands on either side
	pool := []float64{3, 7, 0.1, -2.5, 1e-3, 3e38, 2e38, 1e-40, 5e-324, 1.7e308, -0.0, 0, math.Inf(1), math.Inf(-1), math.NaN(), 10, 1.0 / 3, 49, -7, 6e-8, 16777217, 0.3}
	pick := func(n, off, step int) []float64 {
		v := make([]float64, n)
		for i := range v {
			v[i] = pool[(off+i*step)%len(pool)]
		}
		return v
	}
	fpairs := [][2][]int{{{4}, {4}}, {{2, 3}, {}}, {{}, {2, 3}}, {{2, 3}, {1}}, {{2, 3}, {3}}, {{2, 1}, {1, 3}}, {{}, {}}, {{5}, {1, 1}}, {{2, 2, 2}, {2, 1, 2}}}
	reps := 3
	if tier == "thorough" {
		reps = 22
	}
	for _, dt := range []string{"f32", "f64"} {
		// one tensor object at both positions (a node listing the same name twice, e.g. Equal(x, x) as "is not NaN")
		for _, op := range append(append([]string{}, arithOps...), cmpOps...) {
			x := fT(dt, []int{2, 4}, []float64{1.5, math.NaN(), math.Inf(1), 0, math.Copysign(0, -1), -3, math.NaN(), math.Inf(-1)})
			c := &Case{Kind: "op", Stream: "ieee-shared", Op: op, Inputs: []*TJ{x, x}, Share: [][2]int{{1, 0}}}
			c.Impl = runOpShared(op, nil, c.Inputs, nil, c.Share)
			e.emit(c)
		}
		for _, op := range append(append([]string{}, arithOps...), cmpOps...) {
			for pi, p := range fpairs {
				for r := 0; r < reps; r++ {
					a := fT(dt, p[0], pick(nelem(p[0]), r*5+pi, 1+r%3))
					b := fT(dt, p[1], pick(nelem(p[1]), r*7+pi+1, 2+r%4))
					e.emit(opCase("ieee", op, nil, []*TJ{a, b}, nil))
				}
			}
		}
	}
}

// bcastCase calls the broadcast helpers directly (C14).
func bcastCase(which string, a, b *TJ) *Case {
	c := &Case{Kind: "bcast", Stream: which, Op: which, Inputs: []*TJ{a, b}}
	c.Impl = guard(func() *Result {
		A, B := mkTensor(a), mkTensor(b)
		s0, s1 := snapshot(A), snapshot(B)
		var nA, nB tensor.Tensor
		var err error
		if which == "multidir" {
			nA, nB, err = ops.MultidirectionalBroadcast(A, B)
		} else {
			nA, nB, err = ops.UnidirectionalBroadcast(A, B)
		}
		var r *Result
		if err != nil {
			r = errResult(err)
		} else {
			r = &Result{Status: "ok", Outs: []*TJ{toTJ(nA), toTJ(nB)}}
			if sameObj(nA, A) {
				r.Alias = append(r.Alias, [2]int{0, 0})
			}
			if sameObj(nB, B) {
				r.Alias = append(r.Alias, [2]int{1, 1})
			}
		}
		r.Mut = append(diffSnap(0, s0, snapshot(A)), diffSnap(1, s1, snapshot(B))...)
		return r
	})
	return c
}

func genC14(e *emitter, tier string) {
	R, E := 3, 3
	if tier == "thorough" {
		R, E = 4, 4
	}
	shapes := allShapes(R, E)
	dts := []string{"f32", "i64", "bool", "f64", "i32", "u8", "u16", "u32", "u64", "i8", "i16"}
	k := 0
	for _, sa := range shapes {
		for _, sb := range shapes {
			dt := dts[k%len(dts)]
			k++
			mk := func(s []int, off int) *TJ {
				if dt == "bool" {
					return seqT(dt, s, func(i int) float64 { return float64((i + off) % 2) })
				}
				return seqT(dt, s, func(i int) float64 { return float64(i + 1 + off) })
			}
			e.emit(bcastCase("multidir", mk(sa, 0), mk(sb, 100)))
			e.emit(bcastCase("unidir", mk(sa, 0), mk(sb, 100)))
		}
	}
	// random larger shapes
	n := 200
	if tier == "thorough" {
		n = 3000
	}
	for i := 0; i < n; i++ {
		r := 1 + e.rng.Intn(5)
		sa := make([]int, 0, r)
		sb := make([]int, 0, r)
		for j := 0; j < r; j++ {
			x := 1 + e.rng.Intn(6)
			switch e.rng.Intn(5) {
			case 0:
				sa, sb = append(sa, 1), append(sb, x)
			case 1:
				sa, sb = append(sa, x), append(sb, 1)
			case 2:
				if e.rng.Intn(6) == 0 {
					sa, sb = append(sa, x), append(sb, 1+e.rng.Intn(6))
				} else {
					sa, sb = append(sa, x), append(sb, x)
				}
			default:
				sa, sb = append(sa, x), append(sb, x)
			}
		}
		if e.rng.Intn(2) == 0 {
			sb = sb[e.rng.Intn(len(sb)+1):]
		} else if e.rng.Intn(3) == 0 {
			sa = sa[e.rng.Intn(len(sa)+1):]
		}
		a := seqT("f32", sa, func(i int) float64 { return float64(i + 1) })
		b := seqT("f32", sb, func(i int) float64 { return float64(-i - 1) })
		e.emit(bcastCase("multidir", a, b))
		e.emit(bcastCase("unidir", a, b))
	}
}
