package main

// allShapes enumerates every shape of rank 0..maxRank with extents 1..maxExt.
func allShapes(maxRank, maxExt int) [][]int {
	out := [][]int{{}}
	prev := [][]int{{}}
	for r := 1; r <= maxRank; r++ {
		var cur [][]int
		for _, p := range prev {
			for e := 1; e <= maxExt; e++ {
				s := append(append([]int{}, p...), e)
				cur = append(cur, s)
			}
		}
		out = append(out, cur...)
		prev = cur
	}
	return out
}

func nelem(s []int) int {
	n := 1
	for _, d := range s {
		n *= d
	}
	return n
}

// seqT builds a tensor whose i-th element is f(i).
func seqT(dt string, shape []int, f func(i int) float64) *TJ {
	n := nelem(shape)
	d := make([]any, n)
	for i := range d {
		d[i] = f(i)
	}
	return &TJ{Dt: dt, Shape: append([]int{}, shape...), Data: d}
}
