package main

import (
	"time"
	"encoding/json"
	"errors"
	"fmt"
	"math"
	"reflect"
	"strings"

	"github.com/advancedclimatesystems/gonnx/onnx"
	"github.com/advancedclimatesystems/gonnx/ops"
	"gorgonia.org/tensor"
)

// TJ is the JSON form of a dense tensor. Data are JSON numbers (integers in the
// exact regime) or the strings "nan", "inf", "-inf"; bools are 0/1.
type TJ struct {
	Dt    string   `json:"dt"`
	Shape []int    `json:"shape"`
	Data  []any    `json:"data"`
	Bits  []uint64 `json:"bits,omitempty"` // float streams: float64 bit pattern of every element (exact)
}

// fT builds a float tensor carrying exact bit patterns next to the readable data.
func fT(dt string, shape []int, v []float64) *TJ {
	t := &TJ{Dt: dt, Shape: append([]int{}, shape...)}
	for _, x := range v {
		if dt == "f32" {
			x = float64(float32(x))
		}
		t.Data = append(t.Data, fnum(x))
		t.Bits = append(t.Bits, math.Float64bits(x))
	}
	return t
}

// Attr is the JSON form of a node attribute.
type Attr struct {
	Name string    `json:"name"`
	Type string    `json:"type"` // i f s ints floats strings t
	I    int64     `json:"i,omitempty"`
	F    float64   `json:"f,omitempty"`
	S    string    `json:"s,omitempty"`
	Ints []int64   `json:"ints,omitempty"`
	Fs   []float64 `json:"floats,omitempty"`
	Ss   []string  `json:"strings,omitempty"`
	T    *TJ       `json:"t,omitempty"`
	Raw  bool      `json:"-"` // tensor attribute: raw_data encoding asked for explicitly
}

// Result is what the implementation did on a case.
type Result struct {
	Status  string   `json:"status"` // ok error panic
	ErrKind string   `json:"errkind,omitempty"`
	Msg     string   `json:"msg,omitempty"`
	Outs    []*TJ    `json:"outs,omitempty"`
	Mut     []MutJ   `json:"mut,omitempty"`   // header/data mutations of inputs
	Alias   [][2]int `json:"alias,omitempty"` // (output k, input i) same object
	Extra   any      `json:"extra,omitempty"`
	Probed  bool     `json:"reuse_probed,omitempty"`
	Pooled  bool     `json:"operand_object_reused,omitempty"` // an operand is the tensor OBJECT of an earlier case (equal contents)
	Edited  bool     `json:"node_edit_probed,omitempty"` // the NodeProto object had been decoded before with other attribute contents
	Reuse   []string `json:"reuse,omitempty"` // warm-ups after which a re-used operator instance answers differently
	Layout  string   `json:"out_layout,omitempty"` // a result that is not a plain contiguous tensor: what it is (view, pending transpose, ...)
	Chain   []string `json:"chain,omitempty"`      // follower operators that answer differently for that result than for an equal contiguous tensor
}

type MutJ struct {
	Input int    `json:"input"`
	What  string `json:"what"` // shape dtype data strides
	Shape []int  `json:"shape,omitempty"`
}

var dtNames = map[tensor.Dtype]string{
	tensor.Uint8: "u8", tensor.Uint16: "u16", tensor.Uint32: "u32", tensor.Uint64: "u64",
	tensor.Int8: "i8", tensor.Int16: "i16", tensor.Int32: "i32", tensor.Int64: "i64",
	tensor.Float32: "f32", tensor.Float64: "f64", tensor.Complex64: "c64", tensor.Complex128: "c128",
	tensor.String: "str", tensor.Bool: "bool", tensor.Int: "int",
}

var dtByName = func() map[string]tensor.Dtype {
	m := map[string]tensor.Dtype{}
	for k, v := range dtNames {
		m[v] = k
	}
	return m
}()

var allDts = []string{"u8", "u16", "u32", "u64", "i8", "i16", "i32", "i64", "f32", "f64", "c64", "c128", "str", "bool"}

func dtName(d tensor.Dtype) string {
	if n, ok := dtNames[d]; ok {
		return n
	}
	if d.Type == nil {
		// the zero Dtype (an entry of a constraint list that was cleared): d.String() would dereference nil
		return "invalid:zero-dtype"
	}
	return "other:" + d.String()
}

func toF(v any) float64 {
	switch x := v.(type) {
	case float64:
		return x
	case string:
		switch x {
		case "nan":
			return math.NaN()
		case "inf":
			return math.Inf(1)
		case "-inf":
			return math.Inf(-1)
		case "-0":
			return math.Copysign(0, -1)
		}
	case json.Number:
		f, _ := x.Float64()
		return f
	case int:
		return float64(x)
	case int64:
		return float64(x)
	case bool:
		if x {
			return 1
		}
		return 0
	case int8, int16, int32, uint8, uint16, uint32, uint64, uint, float32:
		rv := reflect.ValueOf(v)
		switch rv.Kind() {
		case reflect.Float32:
			return rv.Float()
		case reflect.Uint, reflect.Uint8, reflect.Uint16, reflect.Uint32, reflect.Uint64:
			return float64(rv.Uint())
		default:
			return float64(rv.Int())
		}
	}
	panic(fmt.Sprintf("toF: %T %v", v, v))
}

func toI(v any) int64 {
	switch x := v.(type) {
	case float64:
		return int64(x)
	case json.Number:
		i, err := x.Int64()
		if err != nil {
			f, _ := x.Float64()
			return int64(f)
		}
		return i
	case int:
		return int64(x)
	case int64:
		return x
	case uint64:
		return int64(x)
	case int8:
		return int64(x)
	case int16:
		return int64(x)
	case int32:
		return int64(x)
	case uint8:
		return int64(x)
	case uint16:
		return int64(x)
	case uint32:
		return int64(x)
	case bool:
		if x {
			return 1
		}
		return 0
	case string:
		var i int64
		fmt.Sscan(x, &i)
		return i
	}
	panic(fmt.Sprintf("toI: %T %v", v, v))
}

func toU(v any) uint64 {
	switch x := v.(type) {
	case json.Number:
		var u uint64
		fmt.Sscan(x.String(), &u)
		return u
	case string:
		var u uint64
		fmt.Sscan(x, &u)
		return u
	case uint64:
		return x
	}
	return uint64(toI(v))
}

// mkBacking builds a typed Go slice for dtype name dt from JSON-ish values.
func mkBacking(dt string, data []any) any {
	n := len(data)
	switch dt {
	case "f32":
		b := make([]float32, n)
		for i, v := range data {
			b[i] = float32(toF(v))
		}
		return b
	case "f64":
		b := make([]float64, n)
		for i, v := range data {
			b[i] = toF(v)
		}
		return b
	case "i8":
		b := make([]int8, n)
		for i, v := range data {
			b[i] = int8(toI(v))
		}
		return b
	case "i16":
		b := make([]int16, n)
		for i, v := range data {
			b[i] = int16(toI(v))
		}
		return b
	case "i32":
		b := make([]int32, n)
		for i, v := range data {
			b[i] = int32(toI(v))
		}
		return b
	case "i64":
		b := make([]int64, n)
		for i, v := range data {
			b[i] = toI(v)
		}
		return b
	case "int":
		b := make([]int, n)
		for i, v := range data {
			b[i] = int(toI(v))
		}
		return b
	case "u8":
		b := make([]uint8, n)
		for i, v := range data {
			b[i] = uint8(toU(v))
		}
		return b
	case "u16":
		b := make([]uint16, n)
		for i, v := range data {
			b[i] = uint16(toU(v))
		}
		return b
	case "u32":
		b := make([]uint32, n)
		for i, v := range data {
			b[i] = uint32(toU(v))
		}
		return b
	case "u64":
		b := make([]uint64, n)
		for i, v := range data {
			b[i] = toU(v)
		}
		return b
	case "bool":
		b := make([]bool, n)
		for i, v := range data {
			b[i] = toI(v) != 0
		}
		return b
	case "c64":
		b := make([]complex64, n)
		for i, v := range data {
			b[i] = complex(float32(toF(v)), 0)
		}
		return b
	case "c128":
		b := make([]complex128, n)
		for i, v := range data {
			b[i] = complex(toF(v), 0)
		}
		return b
	case "str":
		b := make([]string, n)
		for i, v := range data {
			b[i] = fmt.Sprint(v)
		}
		return b
	}
	panic("mkBacking: unknown dtype " + dt)
}

// mkTensor builds a fresh gorgonia tensor from the JSON form (nil for nil).
func mkTensor(t *TJ) tensor.Tensor {
	if t == nil {
		return nil
	}
	data := t.Data
	if len(t.Bits) > 0 {
		data = make([]any, len(t.Bits))
		for i, b := range t.Bits {
			data[i] = math.Float64frombits(b)
		}
	}
	b := mkBacking(t.Dt, data)
	if len(t.Shape) == 0 {
		// scalar
		return tensor.New(tensor.FromScalar(reflect.ValueOf(b).Index(0).Interface()))
	}
	return tensor.New(tensor.WithShape(t.Shape...), tensor.WithBacking(b))
}

func fnum(f float64) any {
	switch {
	case math.IsNaN(f):
		return "nan"
	case math.IsInf(f, 1):
		return "inf"
	case math.IsInf(f, -1):
		return "-inf"
	case f == 0 && math.Signbit(f):
		return "-0"
	}
	return f
}

// dataList returns the elements of t in row-major logical order (works for views).
func dataList(t tensor.Tensor) (out []any, err error) {
	defer func() {
		if r := recover(); r != nil {
			err = fmt.Errorf("dataList panic: %v", r)
		}
	}()
	var raw any
	if t.IsScalar() && len(t.Shape()) == 0 {
		raw = t.ScalarValue()
		return []any{canonScalar(raw)}, nil
	}
	n := t.Shape().TotalSize()
	if n == 0 {
		return []any{}, nil // gorgonia's Data() panics on an empty tensor
	}
	out = make([]any, 0, n)
	if d, ok := t.(*tensor.Dense); ok && !d.RequiresIterator() {
		raw = t.Data()
		rv := reflect.ValueOf(raw)
		if rv.Kind() == reflect.Slice {
			if rv.Len() != n {
				return nil, fmt.Errorf("data length %d != shape size %d", rv.Len(), n)
			}
			for i := 0; i < rv.Len(); i++ {
				out = append(out, canonScalar(rv.Index(i).Interface()))
			}
			return out, nil
		}
		return []any{canonScalar(raw)}, nil
	}
	it := t.Iterator()
	for it.Reset(); !it.Done(); it.Next() {
		v, e := t.At(it.Coord()...)
		if e != nil {
			return nil, e
		}
		out = append(out, canonScalar(v))
	}
	return out, nil
}

func canonScalar(v any) any {
	switch x := v.(type) {
	case float32:
		return fnum(float64(x))
	case float64:
		return fnum(x)
	case bool:
		if x {
			return 1
		}
		return 0
	case uint64:
		if x > 1<<53 {
			return fmt.Sprint(x)
		}
		return x
	case int64:
		if x > 1<<53 || x < -(1<<53) {
			return fmt.Sprint(x)
		}
		return x
	case complex64:
		return fnum(float64(real(x)))
	case complex128:
		return fnum(real(x))
	}
	return v
}

func toTJ(t tensor.Tensor) *TJ {
	if t == nil {
		return nil
	}
	d, err := dataList(t)
	if err != nil {
		return &TJ{Dt: "bad:" + err.Error(), Shape: append([]int{}, t.Shape()...)}
	}
	return &TJ{Dt: dtName(t.Dtype()), Shape: append([]int{}, t.Shape()...), Data: d}
}

// snap is a deep snapshot of a tensor used to detect mutation of inputs.
type snap struct {
	nilT    bool
	shape   []int
	strides []int
	dt      string
	data    string
}

func snapshot(t tensor.Tensor) snap {
	if t == nil {
		return snap{nilT: true}
	}
	s := snap{shape: append([]int{}, t.Shape()...), strides: append([]int{}, t.Strides()...), dt: dtName(t.Dtype())}
	func() {
		defer func() {
			if r := recover(); r != nil {
				s.data = fmt.Sprint("panic:", r)
			}
		}()
		s.data = fmt.Sprintf("%#v", t.Data())
	}()
	return s
}

func diffSnap(i int, a, b snap) []MutJ {
	var m []MutJ
	if a.nilT {
		return nil
	}
	if !reflect.DeepEqual(a.shape, b.shape) {
		m = append(m, MutJ{Input: i, What: "shape", Shape: b.shape})
	} else if !reflect.DeepEqual(a.strides, b.strides) {
		m = append(m, MutJ{Input: i, What: "strides", Shape: b.shape})
	}
	if a.dt != b.dt {
		m = append(m, MutJ{Input: i, What: "dtype"})
	}
	if a.data != b.data {
		m = append(m, MutJ{Input: i, What: "data"})
	}
	return m
}

func mkNode(opType string, attrs []Attr, ins, outs []string) *onnx.NodeProto {
	n := &onnx.NodeProto{OpType: opType, Input: ins, Output: outs, Attribute: []*onnx.AttributeProto{}}
	for _, a := range attrs {
		ap := &onnx.AttributeProto{Name: a.Name}
		switch a.Type {
		case "i":
			ap.Type = onnx.AttributeProto_INT
			ap.I = a.I
		case "f":
			ap.Type = onnx.AttributeProto_FLOAT
			ap.F = float32(a.F)
		case "s":
			ap.Type = onnx.AttributeProto_STRING
			ap.S = []byte(a.S)
		case "ints":
			ap.Type = onnx.AttributeProto_INTS
			ap.Ints = append([]int64{}, a.Ints...)
		case "floats":
			ap.Type = onnx.AttributeProto_FLOATS
			for _, f := range a.Fs {
				ap.Floats = append(ap.Floats, float32(f))
			}
		case "strings":
			ap.Type = onnx.AttributeProto_STRINGS
			for _, s := range a.Ss {
				ap.Strings = append(ap.Strings, []byte(s))
			}
		case "t":
			ap.Type = onnx.AttributeProto_TENSOR
			// attribute tensors alternate between the typed fields and raw_data (what exporters write)
			attrTensorCounter++
			ap.T = mkTensorProto("", a.T, (a.Raw || attrTensorCounter%2 == 0) && rawEncodable(a.T))
		}
		n.Attribute = append(n.Attribute, ap)
	}
	return n
}

var attrTensorCounter = 0

// rawEncodable: element types rawBytes knows how to lay out
func rawEncodable(t *TJ) bool {
	switch t.Dt {
	case "f32", "f64", "i8", "u8", "bool", "i16", "u16", "i32", "u32", "i64", "u64":
		return true
	}
	return false
}

var onnxCode = map[string]int32{"f32": 1, "u8": 2, "i8": 3, "u16": 4, "i16": 5, "i32": 6, "i64": 7, "str": 8, "bool": 9, "f16": 10, "f64": 11, "u32": 12, "u64": 13, "c64": 14, "c128": 15, "bf16": 16}

// mkTensorProto encodes t in the typed repeated fields (raw=false) or raw little-endian bytes.
func mkTensorProto(name string, t *TJ, raw bool) *onnx.TensorProto {
	tp := &onnx.TensorProto{Name: name, DataType: onnxCode[t.Dt]}
	for _, d := range t.Shape {
		tp.Dims = append(tp.Dims, int64(d))
	}
	if raw {
		tp.RawData = rawBytes(t.Dt, t.Data)
		return tp
	}
	switch t.Dt {
	case "f32":
		for _, v := range t.Data {
			tp.FloatData = append(tp.FloatData, float32(toF(v)))
		}
	case "f64":
		for _, v := range t.Data {
			tp.DoubleData = append(tp.DoubleData, toF(v))
		}
	case "i64":
		for _, v := range t.Data {
			tp.Int64Data = append(tp.Int64Data, toI(v))
		}
	case "u32", "u64":
		for _, v := range t.Data {
			tp.Uint64Data = append(tp.Uint64Data, toU(v))
		}
	default: // i8 i16 i32 u8 u16 bool
		for _, v := range t.Data {
			tp.Int32Data = append(tp.Int32Data, int32(toI(v)))
		}
	}
	return tp
}

func rawBytes(dt string, data []any) []byte {
	var b []byte
	put := func(v uint64, n int) {
		for i := 0; i < n; i++ {
			b = append(b, byte(v>>(8*i)))
		}
	}
	for _, v := range data {
		switch dt {
		case "f32":
			put(uint64(math.Float32bits(float32(toF(v)))), 4)
		case "f64":
			put(math.Float64bits(toF(v)), 8)
		case "i8", "u8", "bool":
			put(uint64(toI(v)), 1)
		case "i16", "u16":
			put(uint64(toI(v)), 2)
		case "i32", "u32":
			put(uint64(toI(v)), 4)
		case "i64":
			put(uint64(toI(v)), 8)
		case "u64":
			put(toU(v), 8)
		}
	}
	return b
}

// errKind maps an error of the implementation to the small enum compared with the model.
func errKind(err error) string {
	if err == nil {
		return ""
	}
	var ie *ops.InputError
	if errors.As(err, &ie) {
		msg := err.Error()
		switch {
		case strings.Contains(msg, "does not allow dtype"):
			return "input.type"
		case strings.Contains(msg, "input tensors, got"):
			return "input.count"
		case strings.HasPrefix(msg, "unsupported input"):
			return "input.unsupported"
		case strings.HasPrefix(msg, "invalid input tensor"):
			return "input.invalid"
		}
		return "input.other"
	}
	var ae *ops.AttributeError
	if errors.As(err, &ae) {
		return "attr"
	}
	var be *ops.BroadcastError
	if errors.As(err, &be) {
		return "broadcast"
	}
	var te *ops.InvalidTensorError
	if errors.As(err, &te) {
		return "invalidTensor"
	}
	switch {
	case errors.Is(err, ops.ErrUnsupportedOperator):
		return "unsupportedOp"
	case errors.Is(err, ops.ErrUnsupportedOpsetVersion):
		return "unsupportedOpset"
	case errors.Is(err, ops.ErrAxisNotInRange):
		return "axis"
	case errors.Is(err, onnx.ErrInvalidType):
		return "invalidType"
	case errors.Is(err, ops.ErrCast):
		return "cast"
	case errors.Is(err, ops.ErrConversion):
		return "conversion"
	case errors.Is(err, ops.ErrInvalidShape):
		return "shape"
	case errors.Is(err, ops.ErrActivationNotImplementedBase):
		return "activation"
	}
	return "other"
}

// guard runs f and converts a panic into a Result.
// caseTimeout bounds one case: code that no longer terminates is reported for the input that shows it
// (the stuck goroutine cannot be stopped and keeps a core busy; the stream goes on)
var caseTimeout = 90 * time.Second
var timeoutCount = 0

func guard(f func() *Result) *Result {
	done := make(chan *Result, 1)
	go func() {
		var res *Result
		defer func() {
			if r := recover(); r != nil {
				res = &Result{Status: "panic", Msg: fmt.Sprint(r)}
			}
			done <- res
		}()
		res = f()
	}()
	select {
	case r := <-done:
		return r
	case <-time.After(caseTimeout):
		timeoutCount++
		return &Result{Status: "panic", Msg: fmt.Sprintf("timeout: no answer within %v (does not terminate?)", caseTimeout)}
	}
}

func errResult(err error) *Result {
	return &Result{Status: "error", ErrKind: errKind(err), Msg: err.Error()}
}
