package main

func init() {
	gens["C04"] = genC04
	exampleCases["MatMul"] = &Case{Op: "MatMul", Inputs: []*TJ{iota1("f32", 2, 3), iota1("f32", 3, 2)}}
	exampleCases["Gemm"] = &Case{Op: "Gemm", Attrs: []Attr{{Name: "alpha", Type: "f", F: 2}, {Name: "transB", Type: "i", I: 1}}, Inputs: []*TJ{iota1("f32", 2, 3), iota1("f32", 2, 3)}}
	exampleCases["LinearRegressor"] = &Case{Op: "LinearRegressor", Attrs: []Attr{{Name: "coefficients", Type: "floats", Fs: []float64{1, 2, 3}}, {Name: "intercepts", Type: "floats", Fs: []float64{1}}}, Inputs: []*TJ{iota1("f32", 2, 3)}}
	exampleCases["Scaler"] = &Case{Op: "Scaler", Attrs: []Attr{{Name: "offset", Type: "floats", Fs: []float64{1, 2, 3}}, {Name: "scale", Type: "floats", Fs: []float64{2, 2, 2}}}, Inputs: []*TJ{iota1("f32", 2, 3)}}
}

// small signed integers so that every product / sum stays exact in float32
func smallT(dt string, s []int, seed int) *TJ {
	return seqT(dt, s, func(i int) float64 { return float64((i*5+seed*3+(i*i)%3)%7 - 3) })
}

func genC04(e *emitter, tier string) {
	exts := []int{1, 2, 3}
	k := 0
	// --- MatMul: every rank combination 1..4 (5 in thorough), batch shapes broadcastable or not
	maxR := 4
	if tier == "thorough" {
		maxR = 5
	}
	batchShapes := func(n int) [][]int {
		if n == 0 {
			return [][]int{{}}
		}
		return allShapes(n, 2)[1:]
	}
	var bsA, bsB [][]int
	for n := 0; n <= maxR-2; n++ {
		for _, s := range batchShapes(n) {
			if len(s) == n {
				bsA = append(bsA, s)
			}
		}
	}
	bsB = bsA
	for _, ba := range bsA {
		for _, bb := range bsB {
			if tier != "thorough" && len(ba)+len(bb) > 3 && (k%3) != 0 {
				k++
				continue
			}
			for _, m := range exts {
				for _, kk := range exts {
					n := exts[(k+m)%3]
					k++
					a := smallT("f32", append(append([]int{}, ba...), m, kk), k)
					b := smallT("f32", append(append([]int{}, bb...), kk, n), k+1)
					e.emit(opCase("matmul-batch", "MatMul", nil, []*TJ{a, b}, nil))
					if k%3 == 0 { // float64 takes its own kernels
						e.emit(opCase("matmul-batch-f64", "MatMul", nil, []*TJ{smallT("f64", a.Shape, k), smallT("f64", b.Shape, k+1)}, nil))
					}
				}
			}
			// inner mismatch
			a := smallT("f32", append(append([]int{}, ba...), 2, 3), k)
			b := smallT("f32", append(append([]int{}, bb...), 2, 2), k)
			e.emit(opCase("matmul-bad", "MatMul", nil, []*TJ{a, b}, nil))
		}
	}
	// fixed-width integer element types: products and sums beyond the range wrap around (Go keeps the low
	// bits after every operation; Theorems/C03b: the exact result reduced once is the same value)
	for _, dt := range []string{"i32", "i64", "u32", "u64"} {
		big := map[string]float64{"i32": 70001, "i64": 3037000507, "u32": 65543, "u64": 4294967311}[dt]
		for _, sh := range [][2][]int{{{2, 3}, {3, 2}}, {{2, 2, 3}, {3, 2}}, {{3}, {3, 2}}, {{1, 3}, {3, 1}}} {
			sgn := func(i int) float64 {
				if (dt == "i32" || dt == "i64") && i%3 == 1 {
					return -1
				}
				return 1
			}
			a := seqT(dt, sh[0], func(i int) float64 { return sgn(i) * (big + float64(i)) })
			b := seqT(dt, sh[1], func(i int) float64 { return big - float64(2*i) })
			e.emit(opCase("int-overflow", "MatMul", nil, []*TJ{a, b}, nil))
			if len(sh[0]) == 2 {
				c := seqT(dt, []int{sh[1][1]}, func(i int) float64 { return big })
				e.emit(opCase("int-overflow", "Gemm", []Attr{{Name: "alpha", Type: "f", F: 3}, {Name: "beta", Type: "f", F: 2}}, []*TJ{a, b, c}, nil))
				e.emit(opCase("int-overflow", "Gemm", nil, []*TJ{a, b}, nil))
			}
		}
	}
	// full-rank stacks whose batch axes need no stretching (the operand handed to the kernel IS the caller's)
	for _, pr := range [][2][]int{{{2, 3, 2, 4}, {2, 3, 4, 2}}, {{2, 3, 2, 4}, {4, 5}}, {{2, 2, 3}, {2, 3, 2}}, {{3, 2, 2, 2}, {1, 2, 2, 3}}, {{2, 3, 2, 4}, {3, 4, 2}}, {{2, 1, 2, 2, 3}, {2, 2, 2, 3, 2}}} {
		k++
		e.emit(opCase("matmul-full-rank", "MatMul", nil, []*TJ{smallT("f32", pr[0], k), smallT("f32", pr[1], k+1)}, nil))
		e.emit(opCase("matmul-full-rank", "MatMul", nil, []*TJ{smallT("f64", pr[0], k+2), smallT("f64", pr[1], k+3)}, nil))
	}
	// batch extents that are both > 1 and differ (not broadcastable), either operand the larger
	for _, pr := range [][2][]int{{{3}, {2}}, {{2}, {3}}, {{3, 1}, {2, 1}}, {{2, 3}, {2, 2}}, {{1, 3}, {2, 2}}, {{3}, {1, 2}}, {{4, 2}, {2, 2}}} {
		a := smallT("f32", append(append([]int{}, pr[0]...), 2, 3), k)
		b := smallT("f32", append(append([]int{}, pr[1]...), 3, 2), k+1)
		k++
		e.emit(opCase("matmul-bad", "MatMul", nil, []*TJ{a, b}, nil))
	}
	// a vector against a matrix / a stack whose contracted extent differs and ONE of the two is 1 (elementwise
	// broadcasting would stretch it; a matrix product refuses)
	for _, kk := range []int{2, 3} {
		for _, lead := range [][]int{{}, {2}, {1}, {2, 1}} {
			k++
			v1, vk := smallT("f32", []int{1}, k), smallT("f32", []int{kk}, k+1)
			e.emit(opCase("matmul-bad", "MatMul", nil, []*TJ{smallT("f32", append(append([]int{}, lead...), 2, kk), k), v1}, nil))
			e.emit(opCase("matmul-bad", "MatMul", nil, []*TJ{smallT("f32", append(append([]int{}, lead...), 2, 1), k), vk}, nil))
			e.emit(opCase("matmul-bad", "MatMul", nil, []*TJ{v1, smallT("f32", append(append([]int{}, lead...), kk, 2), k)}, nil))
			e.emit(opCase("matmul-bad", "MatMul", nil, []*TJ{vk, smallT("f32", append(append([]int{}, lead...), 1, 2), k)}, nil))
		}
	}
	// vectors: v.v, v.M, M.v, v.batch, batch.v
	for _, kk := range exts {
		for _, n := range exts {
			v := smallT("f32", []int{kk}, k)
			k++
			e.emit(opCase("matmul-vec", "MatMul", nil, []*TJ{v, smallT("f32", []int{kk}, k)}, nil))
			e.emit(opCase("matmul-vec", "MatMul", nil, []*TJ{v, smallT("f32", []int{kk, n}, k)}, nil))
			e.emit(opCase("matmul-vec", "MatMul", nil, []*TJ{smallT("f32", []int{n, kk}, k), v}, nil))
			for _, b := range [][]int{{2}, {1}, {2, 3}, {1, 2}} {
				e.emit(opCase("matmul-vec", "MatMul", nil, []*TJ{v, smallT("f32", append(append([]int{}, b...), kk, n), k)}, nil))
				e.emit(opCase("matmul-vec", "MatMul", nil, []*TJ{smallT("f32", append(append([]int{}, b...), n, kk), k), v}, nil))
			}
			e.emit(opCase("matmul-bad", "MatMul", nil, []*TJ{v, smallT("f32", []int{kk + 1}, k)}, nil))
			v64 := smallT("f64", []int{kk}, k)
			e.emit(opCase("matmul-vec-f64", "MatMul", nil, []*TJ{v64, smallT("f64", []int{kk}, k)}, nil))
			e.emit(opCase("matmul-vec-f64", "MatMul", nil, []*TJ{v64, smallT("f64", []int{kk, n}, k)}, nil))
			e.emit(opCase("matmul-vec-f64", "MatMul", nil, []*TJ{smallT("f64", []int{n, kk}, k), v64}, nil))
			e.emit(opCase("matmul-vec-f64", "MatMul", nil, []*TJ{v64, smallT("f64", []int{2, kk, n}, k)}, nil))
			e.emit(opCase("matmul-vec-f64", "MatMul", nil, []*TJ{smallT("f64", []int{1, 2, n, kk}, k), v64}, nil))
		}
	}
	// element types
	for _, dt := range []string{"f64", "i32", "i64", "u32", "u64"} {
		e.emit(opCase("matmul-dtypes", "MatMul", nil, []*TJ{smallT(dt, []int{2, 3}, 1), smallT(dt, []int{3, 2}, 2)}, nil))
		e.emit(opCase("matmul-dtypes", "MatMul", nil, []*TJ{smallT(dt, []int{2, 2, 3}, 1), smallT(dt, []int{3, 2}, 2)}, nil))
	}
	// --- Gemm: 4 transposes x alpha,beta in {0,1,2,-1} x bias shapes x sizes
	for _, tA := range []int64{0, 1} {
		for _, tB := range []int64{0, 1} {
			for _, al := range []float64{0, 1, 2, -1} {
				for _, be := range []float64{0, 1, 2, -1} {
					for _, dims := range [][3]int{{2, 3, 2}, {1, 2, 3}, {3, 1, 1}, {1, 1, 1}, {2, 2, 2}} {
						m, kk, n := dims[0], dims[1], dims[2]
						sa := []int{m, kk}
						if tA == 1 {
							sa = []int{kk, m}
						}
						sb := []int{kk, n}
						if tB == 1 {
							sb = []int{n, kk}
						}
						k++
						attrs := []Attr{{Name: "alpha", Type: "f", F: al}, {Name: "beta", Type: "f", F: be}, {Name: "transA", Type: "i", I: tA}, {Name: "transB", Type: "i", I: tB}}
						biases := [][]int{nil, {}, {n}, {1, n}, {m, 1}, {m, n}, {1, 1}, {1}}
						bs := biases[k%len(biases)]
						ins := []*TJ{smallT("f32", sa, k), smallT("f32", sb, k+1)}
						if bs != nil {
							ins = append(ins, smallT("f32", bs, k+2))
						}
						e.emit(opCase("gemm", "Gemm", attrs, ins, nil))
					}
				}
			}
		}
	}
	for _, bs := range [][]int{{3}, {2, 1, 2}, {3, 2}, {2, 3}} {
		e.emit(opCase("gemm-bad", "Gemm", nil, []*TJ{smallT("f32", []int{2, 3}, 1), smallT("f32", []int{3, 2}, 2), smallT("f32", bs, 3)}, nil))
	}
	e.emit(opCase("gemm-bad", "Gemm", nil, []*TJ{smallT("f32", []int{2, 3}, 1), smallT("f32", []int{2, 2}, 2)}, nil))
	e.emit(opCase("gemm-bad", "Gemm", nil, []*TJ{smallT("f32", []int{3}, 1), smallT("f32", []int{3, 2}, 2)}, nil))
	e.emit(opCase("gemm-bad", "Gemm", []Attr{{Name: "gamma", Type: "f", F: 1}}, []*TJ{smallT("f32", []int{2, 3}, 1), smallT("f32", []int{3, 2}, 2)}, nil))
	e.emit(opCase("gemm", "Gemm", nil, []*TJ{smallT("f32", []int{2, 3}, 1), smallT("f32", []int{3, 2}, 2), nil}, nil))
	for _, dt := range []string{"f64", "i32", "i64"} {
		e.emit(opCase("gemm-dtypes", "Gemm", nil, []*TJ{smallT(dt, []int{2, 3}, 1), smallT(dt, []int{3, 2}, 2), smallT(dt, []int{2}, 3)}, nil))
		e.emit(opCase("gemm-dtypes", "Gemm", []Attr{{Name: "alpha", Type: "f", F: 2}, {Name: "beta", Type: "f", F: -1}, {Name: "transB", Type: "i", I: 1}},
			[]*TJ{smallT(dt, []int{2, 3}, 1), smallT(dt, []int{2, 3}, 2), smallT(dt, []int{2, 2}, 3)}, nil))
		e.emit(opCase("matmul-dtypes", "MatMul", nil, []*TJ{smallT(dt, []int{3}, 1), smallT(dt, []int{2, 3, 2}, 2)}, nil))
	}
	// larger matrices (BLAS-style kernels block at 64 and switch strategy with size); small integers keep float32 exact
	for _, d := range [][3]int{{66, 65, 33}, {130, 3, 40}, {1, 200, 1}, {65, 1, 65}} {
		a := seqT("f32", []int{d[0], d[1]}, func(i int) float64 { return float64((i*3+i/7+1)%7 - 3) })
		b := seqT("f32", []int{d[1], d[2]}, func(i int) float64 { return float64((i*2+i/5+2)%5 - 2) })
		e.emit(opCase("large", "MatMul", nil, []*TJ{a, b}, nil))
		bt := seqT("f32", []int{d[2], d[1]}, func(i int) float64 { return float64((i*2+i/5+2)%5 - 2) })
		e.emit(opCase("large", "Gemm", []Attr{{Name: "transB", Type: "i", I: 1}}, []*TJ{a, bt, seqT("f32", []int{d[2]}, func(i int) float64 { return float64(i % 3) })}, nil))
		e.emit(opCase("large", "MatMul", nil, []*TJ{seqT("f32", []int{2, d[0], d[1]}, func(i int) float64 { return float64((i*3+1)%5 - 2) }), b}, nil))
	}
	// float carrier: fractional alpha / beta (equal and different), fractional data, and values whose product
	// or sum comes close to the float32 range while the ONNX result stays inside it
	for gi, g := range []struct {
		al, be float64
		a, b, c []float64
	}{
		{0.5, 0.5, []float64{3e38, 0, 1, 2}, []float64{1, 0, 0, 1}, []float64{3e38, 4}},
		{0.5, 0.5, []float64{1.5, -2.25, 0.125, 3}, []float64{0.5, 1, -1, 0.25}, []float64{1, -1}},
		{0.25, 2, []float64{1e19, 2, -3, 1e-3}, []float64{1e19, 1, 0.5, -2}, []float64{-1e38, 7}},
		{2, 2, []float64{-2e38, 1, 1, 1}, []float64{1, 0, 0, 1}, []float64{1.9e38, 1}},
		{1, 1, []float64{0.1, 0.2, 0.3, 0.4}, []float64{0.7, -0.6, 0.5, 0.9}, []float64{0.01, -0.02}},
		{-1.5, 0.75, []float64{2, 3, 5, 7}, []float64{0.5, 0.25, 0.125, 1}, []float64{100, -100}},
		{1e-3, 1e3, []float64{1e3, 1e4, 1e5, 1e6}, []float64{1, 2, 3, 4}, []float64{1e-3, 1e-4}},
	} {
		for _, tB := range []int64{0, 1} {
			attrs := []Attr{{Name: "alpha", Type: "f", F: g.al}, {Name: "beta", Type: "f", F: g.be}, {Name: "transB", Type: "i", I: tB}}
			ins := []*TJ{fT("f32", []int{2, 2}, g.a), fT("f32", []int{2, 2}, g.b), fT("f32", []int{2}, g.c)}
			e.emit(opCase("gemm-float", "Gemm", attrs, ins, nil))
			if gi%2 == 0 {
				e.emit(opCase("gemm-float", "Gemm", attrs, ins[:2], nil))
			}
		}
	}
	// operands next to the ends of the float32 range, non-square shapes (K < N, K > N, M = 1), alpha / beta far
	// from 1: the result alpha*(A*B) + beta*C is representable although alpha*A, A*B or (A*B)+C evaluated in
	// another order is not (judged by the float64 reference and the bound of Theorems/C04b)
	for _, g := range []struct {
		al, be  float64
		m, k, n int
		a, b, c []float64
	}{
		{2, 1, 2, 2, 3, []float64{2e38, 1e38, -1.5e38, 3e37}, []float64{0.1, 0.2, 0.3, 0.4, 0.05, 0.25}, []float64{1, 2, 3}},
		{0.5, 1, 1, 2, 3, []float64{3e38, -3e38}, []float64{1, 0.5, 0.25, 0.5, 1, 0.125}, []float64{1e37, 0, -1e37}},
		{1e-3, 1, 2, 2, 3, []float64{1e-36, 2e-36, 3e-36, 5e-37}, []float64{1e3, 2e3, 3e3, 4e3, 5e3, 6e3}, nil},
		{1e3, 1, 2, 2, 3, []float64{1e-40, 2e-41, 3e-39, 5e-42}, []float64{1e3, 2e3, 3e3, 4e3, 5e3, 6e3}, nil},
		{4, 0.25, 2, 3, 2, []float64{8e37, 1, 2, -8e37, 3, 4}, []float64{1, 0.5, 0.25, 2, 1, 0.125}, []float64{-3e38, 3e38}},
		{-2, 3, 3, 1, 2, []float64{1.6e38, -1e38, 5}, []float64{0.5, 1}, []float64{1e38, 1e38}},
		{0.1, 10, 2, 3, 4, []float64{1.5, -2.25, 3.125, 0.1, 0.2, 0.3}, []float64{0.7, -0.6, 0.5, 0.9, 1.1, -1.2, 1.3, 0.01, 100, 1000, 1e4, 1e5}, []float64{0.001, 0.002, 0.003, 0.004}},
	} {
		attrs := []Attr{{Name: "alpha", Type: "f", F: g.al}, {Name: "beta", Type: "f", F: g.be}}
		ins := []*TJ{fT("f32", []int{g.m, g.k}, g.a), fT("f32", []int{g.k, g.n}, g.b)}
		if g.c != nil {
			ins = append(ins, fT("f32", []int{g.n}, g.c))
		}
		e.emit(opCase("gemm-extreme", "Gemm", attrs, ins, nil))
		// transposed storage of the same operands
		at := make([]float64, len(g.a))
		for i := 0; i < g.m; i++ {
			for l := 0; l < g.k; l++ {
				at[l*g.m+i] = g.a[i*g.k+l]
			}
		}
		insT := append([]*TJ{fT("f32", []int{g.k, g.m}, at)}, ins[1:]...)
		e.emit(opCase("gemm-extreme", "Gemm", append([]Attr{{Name: "transA", Type: "i", I: 1}}, attrs...), insT, nil))
	}
	// Scaler on fractional float32 data: features next to their offset (the difference is exact, the product
	// rounds once), huge features and offsets whose difference is small, scales that are not powers of two
	for _, g := range []struct{ x, off, sc []float64 }{
		{[]float64{1e8, 99999992, 1.5, -2.75}, []float64{99999992, 1e8, 1.25, -2.5}, []float64{0.1, 0.3, 7, 1e-3}},
		{[]float64{3e38, -3e38, 1e-38, 0.1}, []float64{3e38, -2.9e38, 2e-38, 0.3}, []float64{2, 3, 1e10, 1e30}},
		{[]float64{16777216, 16777215, 0.3, 1e-20}, []float64{16777215, 16777216, 0.1, 3e-20}, []float64{0.7, 0.7, 1.1, 1e25}},
	} {
		attrs := []Attr{{Name: "offset", Type: "floats", Fs: g.off}, {Name: "scale", Type: "floats", Fs: g.sc}}
		e.emit(opCase("scaler-float", "Scaler", attrs, []*TJ{fT("f32", []int{4}, g.x)}, nil))
		e.emit(opCase("scaler-float", "Scaler", attrs, []*TJ{fT("f32", []int{2, 4}, append(append([]float64{}, g.x...), g.off...))}, nil))
		e.emit(opCase("scaler-float", "Scaler", []Attr{{Name: "offset", Type: "floats", Fs: g.off[:1]}, {Name: "scale", Type: "floats", Fs: g.sc[:1]}}, []*TJ{fT("f32", []int{4}, g.x)}, nil))
	}
	// the same tensor object at two input positions (a node listing one name twice: Gram matrices, X·X)
	for _, s := range [][]int{{2, 2}, {3, 3}, {2, 3}, {1, 2}} {
		x := smallT("f32", s, 5)
		for _, tA := range []int64{0, 1} {
			for _, tB := range []int64{0, 1} {
				c := &Case{Kind: "op", Stream: "gemm-shared", Op: "Gemm", Attrs: []Attr{{Name: "transA", Type: "i", I: tA}, {Name: "transB", Type: "i", I: tB}}, Inputs: []*TJ{x, x}, Share: [][2]int{{1, 0}}}
				c.Impl = runOpShared("Gemm", c.Attrs, c.Inputs, nil, c.Share)
				e.emit(c)
			}
		}
		c := &Case{Kind: "op", Stream: "matmul-shared", Op: "MatMul", Inputs: []*TJ{x, x}, Share: [][2]int{{1, 0}}}
		c.Impl = runOpShared("MatMul", nil, c.Inputs, nil, c.Share)
		e.emit(c)
	}
	// --- LinearRegressor: targets x features x batch; missing attributes
	for _, t := range []int{1, 2, 3} {
		for _, f := range []int{1, 2, 3} {
			for _, n := range []int{1, 2, 4} {
				k++
				coef := make([]float64, t*f)
				for i := range coef {
					coef[i] = float64((i*5+k)%5 - 2)
				}
				icpt := make([]float64, t)
				for i := range icpt {
					icpt[i] = float64(i + 1)
				}
				attrs := []Attr{{Name: "coefficients", Type: "floats", Fs: coef}, {Name: "intercepts", Type: "floats", Fs: icpt}, {Name: "targets", Type: "i", I: int64(t)}}
				if t == 1 && k%2 == 0 {
					attrs = attrs[:2] // default targets = 1
				}
				e.emit(opCase("linreg", "LinearRegressor", attrs, []*TJ{smallT("f32", []int{n, f}, k)}, nil))
			}
		}
	}
	e.emit(opCase("linreg-bad", "LinearRegressor", []Attr{{Name: "coefficients", Type: "floats", Fs: []float64{1, 2}}}, []*TJ{smallT("f32", []int{2, 2}, 1)}, nil))
	e.emit(opCase("linreg-bad", "LinearRegressor", []Attr{{Name: "intercepts", Type: "floats", Fs: []float64{1}}}, []*TJ{smallT("f32", []int{2, 2}, 1)}, nil))
	e.emit(opCase("linreg-bad", "LinearRegressor", []Attr{{Name: "coefficients", Type: "floats", Fs: []float64{1, 2}}, {Name: "intercepts", Type: "floats", Fs: []float64{1}}, {Name: "targets", Type: "i", I: 0}}, []*TJ{smallT("f32", []int{2, 2}, 1)}, nil))
	e.emit(opCase("linreg-bad", "LinearRegressor", []Attr{{Name: "coefficients", Type: "floats", Fs: []float64{1, 2, 3}}, {Name: "intercepts", Type: "floats", Fs: []float64{1}}}, []*TJ{smallT("f32", []int{2, 2}, 1)}, nil))
	e.emit(opCase("linreg-bad", "LinearRegressor", []Attr{{Name: "coefficients", Type: "floats", Fs: []float64{1, 2}}, {Name: "intercepts", Type: "floats", Fs: []float64{1}}, {Name: "post_transform", Type: "s", S: "NONE"}}, []*TJ{smallT("f32", []int{2, 2}, 1)}, nil))
	// inputs whose feature dimension does not fit the coefficients although the element count would (re-cut
	// into rows of F), inputs of other ranks, one and two targets
	for _, tg := range []int{1, 2} {
		for _, f := range []int{2, 3} {
			coef := make([]float64, tg*f)
			for i := range coef {
				coef[i] = float64(i + 1)
			}
			icpt := make([]float64, tg)
			attrs := []Attr{{Name: "coefficients", Type: "floats", Fs: coef}, {Name: "intercepts", Type: "floats", Fs: icpt}, {Name: "targets", Type: "i", I: int64(tg)}}
			for _, sh := range [][]int{{2, 2 * f}, {1, 2 * f}, {f, 1}, {2 * f, 1}, {f, f + 1}, {f + 1, f}, {f}, {2 * f}, {1, 1, f}, {2, 1, f}, {2, f, 1}, {}, {1}} {
				if len(sh) == 2 && sh[1] == f {
					continue
				}
				e.emit(opCase("linreg-shape", "LinearRegressor", attrs, []*TJ{smallT("f32", sh, f+tg)}, nil))
			}
		}
	}
	// --- Scaler
	for _, s := range [][]int{{3}, {2, 3}, {1, 3}, {2, 2, 3}, {4, 1}} {
		c := s[len(s)-1]
		off := make([]float64, c)
		sc := make([]float64, c)
		for i := range off {
			off[i] = float64(i - 1)
			sc[i] = float64(2 - i)
		}
		k++
		e.emit(opCase("scaler", "Scaler", []Attr{{Name: "offset", Type: "floats", Fs: off}, {Name: "scale", Type: "floats", Fs: sc}}, []*TJ{smallT("f32", s, k)}, nil))
		e.emit(opCase("scaler", "Scaler", []Attr{{Name: "scale", Type: "floats", Fs: []float64{2}}, {Name: "offset", Type: "floats", Fs: []float64{1}}}, []*TJ{smallT("f32", s, k)}, nil))
		e.emit(opCase("scaler-bad", "Scaler", []Attr{{Name: "offset", Type: "floats", Fs: append(off, 1)}, {Name: "scale", Type: "floats", Fs: sc}}, []*TJ{smallT("f32", s, k)}, nil))
		// every combination of list lengths (1 = one value for all features, C = per feature, C+1 = invalid)
		for _, lo := range []int{1, c, c + 1} {
			for _, ls := range []int{1, c, c + 1} {
				o2 := make([]float64, lo)
				s2 := make([]float64, ls)
				for i := range o2 {
					o2[i] = float64(i + 1)
				}
				for i := range s2 {
					s2[i] = float64(3 - 2*i)
				}
				e.emit(opCase("scaler-lengths", "Scaler", []Attr{{Name: "offset", Type: "floats", Fs: o2}, {Name: "scale", Type: "floats", Fs: s2}}, []*TJ{smallT("f32", s, k+1)}, nil))
			}
		}
	}
	// inputs of rank 3 and 4 whose axis 1 has the extent of the lists (NCHW "channels") while the last axis has
	// it too, or has not: the lists go with the LAST axis (unidirectional broadcast), never with axis 1
	for _, s := range [][]int{{2, 2, 2}, {1, 3, 3}, {2, 3, 2}, {2, 2, 3}, {3, 2, 1}, {2, 3, 2, 3}, {1, 2, 3, 2}, {2, 3, 1, 1}} {
		for _, n := range []int{s[1], s[len(s)-1]} {
			o2 := make([]float64, n)
			s2 := make([]float64, n)
			for i := range o2 {
				o2[i] = float64(10 * (i + 1))
				s2[i] = float64(i + 1)
			}
			k++
			e.emit(opCase("scaler-rank", "Scaler", []Attr{{Name: "offset", Type: "floats", Fs: o2}, {Name: "scale", Type: "floats", Fs: s2}}, []*TJ{smallT("f32", s, k)}, nil))
			e.emit(opCase("scaler-rank", "Scaler", []Attr{{Name: "offset", Type: "floats", Fs: o2}, {Name: "scale", Type: "floats", Fs: []float64{2}}}, []*TJ{smallT("f32", s, k)}, nil))
			e.emit(opCase("scaler-rank", "Scaler", []Attr{{Name: "offset", Type: "floats", Fs: []float64{1}}, {Name: "scale", Type: "floats", Fs: s2}}, []*TJ{smallT("f32", s, k)}, nil))
		}
	}
	e.emit(opCase("scaler-bad", "Scaler", []Attr{{Name: "offset", Type: "floats", Fs: []float64{1}}}, []*TJ{smallT("f32", []int{2}, 1)}, nil))
	e.emit(opCase("scaler-dtypes", "Scaler", []Attr{{Name: "offset", Type: "floats", Fs: []float64{1}}, {Name: "scale", Type: "floats", Fs: []float64{2}}}, []*TJ{smallT("f64", []int{2}, 1)}, nil))
	e.emit(opCase("scaler-dtypes", "Scaler", []Attr{{Name: "offset", Type: "floats", Fs: []float64{1}}, {Name: "scale", Type: "floats", Fs: []float64{2}}}, []*TJ{smallT("i32", []int{2}, 1)}, nil))
}
