package main

import "math"

func init() {
	gens["C10"] = genC10
	gens["C11"] = genC11
	exampleCases["PRelu"] = &Case{Op: "PRelu", Inputs: []*TJ{iota1("f32", 2, 3), iota1("f32", 3)}}
	exampleCases["Cast"] = &Case{Op: "Cast", Attrs: []Attr{{Name: "to", Type: "i", I: 7}}, Inputs: []*TJ{iota1("f32", 2, 3)}}
	exampleCases["ConstantOfShape"] = &Case{Op: "ConstantOfShape", Attrs: []Attr{{Name: "value", Type: "t", T: vals("i64", []int{1}, 7)}}, Inputs: []*TJ{vals("i64", []int{2}, 2, 3)}}
	exampleCases["Constant"] = &Case{Op: "Constant", Attrs: []Attr{{Name: "value_ints", Type: "ints", Ints: []int64{1, 2}}}, Inputs: []*TJ{}}
}

var unaryFloatOps = []string{"Abs", "Relu", "Sigmoid", "Tanh", "Sin", "Cos", "Tan", "Asin", "Acos", "Atan", "Sinh", "Cosh", "Asinh", "Acosh", "Atanh"}

func genC10(e *emitter, tier string) {
	shapes := allShapes(3, 2)
	if tier == "thorough" {
		shapes = allShapes(4, 3)
	}
	special := []float64{0, math.Copysign(0, -1), 1, -1, 0.5, -0.5, 2, -2, 1e-310, -1e-310, 1e-40, 5e-324, math.Inf(1), math.Inf(-1), math.NaN(),
		88, 89, -88, -104, 709, 710, -745, -746, 1e10, -1e10, 1e38, -1e38, 3.4e38, 1e300, -1e300, 0.999999, 1.000001, math.Pi, math.Pi / 2, -math.Pi / 2, 100, -100, 20, -20, 1e-8}
	k := 0
	for _, op := range unaryFloatOps {
		for _, dt := range []string{"f32", "f64"} {
			// special values, in chunks shaped like the enumerated shapes
			for _, s := range shapes {
				n := nelem(s)
				v := make([]float64, n)
				for i := range v {
					v[i] = special[(k+i)%len(special)]
				}
				k += n
				e.emit(opCase("special", op, nil, []*TJ{fT(dt, s, v)}, nil))
			}
			// arguments next to the boundaries of the domains and next to the zeros of the results, where a
			// formula that is fine elsewhere cancels (acos near 1, acosh near 1, atanh near +-1, results near 0)
			{
				near := []float64{1 - 1.0/(1<<24), 1 - 1.0/(1<<20), 0.9999, 0.999, 0.99, 0.9, 0.7072, -(1 - 1.0/(1<<24)), -0.9999, -0.999, -0.99,
					1 + 1.0/(1<<23), 1 + 1.0/(1<<20), 1.0001, 1.001, 1.01, 1e-4, -1e-4, 1e-3, 3e-3, 0.01, -0.01, 0.1, 1e-20, -1e-20, 0.25, 0.75, 1.5, 3, 10, -10}
				e.emit(opCase("boundary", op, nil, []*TJ{fT(dt, []int{len(near)}, near)}, nil))
			}
			// random values over several magnitudes
			nr := 20
			if tier == "thorough" {
				nr = 400
			}
			for i := 0; i < nr; i++ {
				s := shapes[e.rng.Intn(len(shapes))]
				v := make([]float64, nelem(s))
				mag := []float64{1, 1, 1, 10, 100, 1e-3, 1e5}[e.rng.Intn(7)]
				for j := range v {
					v[j] = (e.rng.Float64()*2 - 1) * mag
				}
				e.emit(opCase("random", op, nil, []*TJ{fT(dt, s, v)}, nil))
			}
		}
	}
	// integer element types of Abs (exact), incl. the most negative value; element types the gate refuses
	for _, dt := range []string{"i8", "i16", "i32", "i64", "u8", "u16", "u32", "u64"} {
		for _, s := range shapes {
			e.emit(opCase("abs-int", "Abs", nil, []*TJ{seqT(dt, s, func(i int) float64 {
				if dt[0] == 'u' {
					return float64(i)
				}
				return float64(3 - 2*i)
			})}, nil))
		}
	}
	e.emit(opCase("abs-int", "Abs", nil, []*TJ{vals("i32", []int{2}, -2147483648, 2147483647)}, nil))
	e.emit(opCase("abs-int", "Abs", nil, []*TJ{vals("i8", []int{2}, -128, 127)}, nil))
	for _, op := range append([]string{"Not"}, unaryFloatOps...) {
		for _, dt := range allDts {
			e.emit(opCase("gate", op, nil, []*TJ{seqT(dt, []int{2}, func(i int) float64 { return float64(i) })}, nil))
		}
	}
	// Not on every shape
	for _, s := range shapes {
		e.emit(opCase("not", "Not", nil, []*TJ{seqT("bool", s, func(i int) float64 { return float64((i / 2) % 2) })}, nil))
	}
	// PRelu: slope unidirectionally broadcast; float (incl. special values) and integer types
	for _, sa := range shapes {
		for _, sb := range shapes {
			if len(sb) > len(sa) {
				continue
			}
			for _, dt := range []string{"f32", "f64"} {
				va := make([]float64, nelem(sa))
				for i := range va {
					va[i] = special[(k+i)%len(special)]
				}
				k += 3
				vb := make([]float64, nelem(sb))
				for i := range vb {
					vb[i] = []float64{0.5, -2, 0, 3}[(k+i)%4]
				}
				e.emit(opCase("prelu-float", "PRelu", nil, []*TJ{fT(dt, sa, va), fT(dt, sb, vb)}, nil))
			}
			for _, dt := range []string{"i32", "i64", "u32", "u64"} {
				a := seqT(dt, sa, func(i int) float64 {
					if dt[0] == 'u' {
						return float64(i)
					}
					return float64(2 - i)
				})
				b := seqT(dt, sb, func(i int) float64 { return float64(i + 2) })
				e.emit(opCase("prelu-int", "PRelu", nil, []*TJ{a, b}, nil))
			}
		}
	}
	// PRelu at exactly zero (and -0) with slopes that would turn 0 into something else: infinite, NaN, negative
	for _, dt := range []string{"f32", "f64"} {
		x := fT(dt, []int{2, 4}, []float64{0, math.Copysign(0, -1), 0, 1, -1, 0, math.Copysign(0, -1), 2})
		sl := fT(dt, []int{2, 4}, []float64{math.Inf(1), math.Inf(-1), math.NaN(), math.NaN(), math.Inf(1), -2, -3, math.Inf(-1)})
		e.emit(opCase("prelu-zero", "PRelu", nil, []*TJ{x, sl}, nil))
		e.emit(opCase("prelu-zero", "PRelu", nil, []*TJ{x, fT(dt, []int{4}, []float64{math.Inf(1), math.NaN(), -2, math.Inf(-1)})}, nil))
	}
	// large tensors (sizes at which kernels switch to block-wise / parallel loops; not multiples of the
	// usual block sizes): every element of the result is still the function of its own input element
	for _, n := range []int{9001, 12345} {
		big := func(dt string) *TJ {
			v := make([]float64, n)
			for i := range v {
				v[i] = float64((i*7+3)%41-20) / 4
			}
			return fT(dt, []int{n}, v)
		}
		for _, op := range unaryFloatOps {
			e.emit(opCase("large", op, nil, []*TJ{big("f32")}, nil))
		}
		e.emit(opCase("large", "Abs", nil, []*TJ{seqT("i32", []int{n}, func(i int) float64 { return float64(i%37 - 18) })}, nil))
		e.emit(opCase("large", "Not", nil, []*TJ{seqT("bool", []int{n}, func(i int) float64 { return float64((i / 3) % 2) })}, nil))
		e.emit(opCase("large", "PRelu", nil, []*TJ{seqT("f32", []int{3, n / 3}, func(i int) float64 { return float64(i%23 - 11) }), seqT("f32", []int{n / 3}, func(i int) float64 { return float64(i%5 - 2) })}, nil))
		e.emit(opCase("large", "PRelu", nil, []*TJ{seqT("i32", []int{n}, func(i int) float64 { return float64(i%23 - 11) }), seqT("i32", []int{n}, func(i int) float64 { return float64(i%5 - 2) })}, nil))
		e.emit(opCase("large", "Relu", nil, []*TJ{seqT("f32", []int{n}, func(i int) float64 { return float64(i%23 - 11) })}, nil))
	}
}

func genC11(e *emitter, tier string) {
	nums := []string{"f32", "f64", "i8", "i16", "i32", "i64", "u8", "u16", "u32", "u64"}
	shapes := [][]int{{}, {1}, {3}, {2, 2}, {1, 2, 2}, {2, 1, 2, 1}}
	if tier == "thorough" {
		shapes = allShapes(4, 2)
	}
	// Cast: 10 x 10 grid, values representable in both types, all shapes incl. scalars
	rng := map[string][2]float64{"f32": {-1e6, 1e6}, "f64": {-1e9, 1e9}, "i8": {-128, 127}, "i16": {-32768, 32767}, "i32": {-2147483648, 2147483647},
		"i64": {-9007199254740992, 9007199254740992}, "u8": {0, 255}, "u16": {0, 65535}, "u32": {0, 4294967295}, "u64": {0, 9007199254740992}}
	for _, src := range nums {
		for _, tgt := range append(append([]string{}, nums...), "bool", "str", "f16", "c64", "bf16") {
			for _, s := range shapes {
				lo, hi := rng[src][0], rng[src][1]
				if t, ok := rng[tgt]; ok {
					lo, hi = math.Max(lo, t[0]), math.Min(hi, t[1])
				}
				cand := []float64{lo, hi, 0, 1, hi - 1, lo + 1, 7, 100, -3, -100, hi / 2, lo / 2}
				v := make([]float64, nelem(s))
				for i := range v {
					x := math.Trunc(cand[(i+len(s))%len(cand)])
					if x < lo || x > hi {
						x = 0
					}
					v[i] = x
				}
				e.emit(opCase("cast-grid", "Cast", []Attr{{Name: "to", Type: "i", I: int64(onnxCode[tgt])}}, []*TJ{vals(src, s, v...)}, nil))
			}
		}
	}
	// Cast from fractional floats (truncation toward zero) and float64 -> float32 rounding
	for _, src := range []string{"f32", "f64"} {
		for _, tgt := range nums {
			v := []float64{2.7, -2.7, 0.5, -0.5, 1.999, -1.999, 100.25, 0, 3, -0.0}
			if tgt[0] == 'u' {
				v = []float64{2.7, 0.5, 1.999, 100.25, 0, 3, 0.999, 7.5, 200.9, 1e-9}
			}
			e.emit(opCase("cast-fraction", "Cast", []Attr{{Name: "to", Type: "i", I: int64(onnxCode[tgt])}}, []*TJ{fT(src, []int{2, 5}, v)}, nil))
		}
	}
	// 64-bit integers beyond the 53-bit mantissa of a float64 (carried as decimal strings)
	wide := map[string][]any{
		"i64": {"9007199254740993", "-9007199254740993", "4611686018427387905", "9223372036854775807", "-9223372036854775808", "1152921504606846977", 5, -5},
		"u64": {"9007199254740993", "4611686018427387905", "9223372036854775807", "9223372036854775809", "18446744073709551615", "1152921504606846977", 5, 0},
	}
	for _, src := range []string{"i64", "u64"} {
		for _, tgt := range nums {
			for _, s := range [][]int{{8}, {2, 4}} {
				e.emit(opCase("cast-wide", "Cast", []Attr{{Name: "to", Type: "i", I: int64(onnxCode[tgt])}}, []*TJ{{Dt: src, Shape: s, Data: append([]any{}, wide[src]...)}}, nil))
			}
		}
		for i := range wide[src] {
			e.emit(opCase("cast-wide", "Cast", []Attr{{Name: "to", Type: "i", I: int64(onnxCode[src])}}, []*TJ{{Dt: src, Shape: []int{}, Data: []any{wide[src][i]}}}, nil))
		}
	}
	// values NEXT to the limits of the 64-bit types (not the limits themselves): in range, so kept exactly by
	// the 64-bit targets - a range test done in float64 cannot tell them from the limit
	near := map[string][]any{
		"i64": {"9223372036854775806", "9223372036854775295", "-9223372036854775807", "-9223372036854775508", "9223372036854774784", "-9223372036854774785", 1, -1},
		"u64": {"18446744073709551614", "18446744073709550915", "18446744073709550592", "9223372036854775806", "9223372036854775807", "9223372036854775808", 1, 0},
	}
	for _, src := range []string{"i64", "u64"} {
		for _, tgt := range []string{"i64", "u64", "f64", "f32"} {
			e.emit(opCase("cast-near-limit", "Cast", []Attr{{Name: "to", Type: "i", I: int64(onnxCode[tgt])}}, []*TJ{{Dt: src, Shape: []int{8}, Data: append([]any{}, near[src]...)}}, nil))
		}
	}
	// large float values that fit the 64-bit integer targets (beyond int64 for uint64)
	for _, src := range []string{"f32", "f64"} {
		e.emit(opCase("cast-fraction", "Cast", []Attr{{Name: "to", Type: "i", I: int64(onnxCode["u64"])}}, []*TJ{fT(src, []int{6}, []float64{1e19, 9223372036854775808, 1.8e19, 4294967296.5, 0.75, 9.3e18})}, nil))
		e.emit(opCase("cast-fraction", "Cast", []Attr{{Name: "to", Type: "i", I: int64(onnxCode["i64"])}}, []*TJ{fT(src, []int{4}, []float64{9e18, -9e18, 4294967296.5, -4294967296.5})}, nil))
		e.emit(opCase("cast-fraction", "Cast", []Attr{{Name: "to", Type: "i", I: int64(onnxCode["u32"])}}, []*TJ{fT(src, []int{3}, []float64{4294967040, 2147483648, 3e9})}, nil))
	}
	// large tensors (element counts that are not multiples of the usual block sizes)
	for _, sh := range [][]int{{33027}, {3, 109, 101}} {
		for _, pr := range [][2]string{{"f32", "i32"}, {"i64", "f32"}, {"f64", "u16"}, {"i32", "i64"}} {
			e.emit(opCase("large", "Cast", []Attr{{Name: "to", Type: "i", I: int64(onnxCode[pr[1]])}}, []*TJ{seqT(pr[0], sh, func(i int) float64 { return float64(i%97 + 1) })}, nil))
		}
		e.emit(opCase("large", "ConstantOfShape", []Attr{{Name: "value", Type: "t", T: vals("i32", []int{1}, 7)}}, []*TJ{idxT("i64", []int{len(sh)}, sh)}, nil))
	}
	e.emit(opCase("cast-attrs", "Cast", nil, []*TJ{iota1("f32", 2)}, nil))
	e.emit(opCase("cast-attrs", "Cast", []Attr{{Name: "too", Type: "i", I: 1}}, []*TJ{iota1("f32", 2)}, nil))
	// ConstantOfShape: every value type, shapes rank 1..4, default value, invalid extents / values
	valDts := []string{"f32", "f64", "i8", "i16", "i32", "i64", "u8", "u16", "u32", "u64", "bool"}
	cshapes := allShapes(3, 3)
	if tier == "thorough" {
		cshapes = allShapes(4, 3)
	}
	k := 0
	for _, s := range cshapes {
		if len(s) == 0 {
			continue
		}
		dt := valDts[k%len(valDts)]
		k++
		val := float64(3 + k%4)
		if dt == "bool" {
			val = 1
		}
		sh := idxT("i64", []int{len(s)}, s)
		e.emit(opCase("cos", "ConstantOfShape", []Attr{{Name: "value", Type: "t", T: vals(dt, []int{1}, val)}}, []*TJ{sh}, nil))
		e.emit(opCase("cos-default", "ConstantOfShape", nil, []*TJ{sh}, nil))
	}
	for _, dt := range valDts {
		e.emit(opCase("cos", "ConstantOfShape", []Attr{{Name: "value", Type: "t", T: vals(dt, []int{1}, 1)}}, []*TJ{idxT("i64", []int{2}, []int{2, 3})}, nil))
	}
	e.emit(opCase("cos-bad", "ConstantOfShape", []Attr{{Name: "value", Type: "t", T: vals("f32", []int{2}, 1, 2)}}, []*TJ{idxT("i64", []int{1}, []int{2})}, nil))
	e.emit(opCase("cos-bad", "ConstantOfShape", []Attr{{Name: "value", Type: "t", T: vals("f32", []int{}, 1)}}, []*TJ{idxT("i64", []int{1}, []int{2})}, nil))
	e.emit(opCase("cos-bad", "ConstantOfShape", []Attr{{Name: "valu", Type: "t", T: vals("f32", []int{1}, 1)}}, []*TJ{idxT("i64", []int{1}, []int{2})}, nil))
	// a value tensor that cannot be decoded (element count against its dims; element types the library cannot
	// represent are the matter of C12 and its recorded finding): the node is refused, the default value never
	// takes its place
	for _, bad := range []*TJ{vals("f32", []int{2}, 1), vals("f32", []int{1}, 1, 2), vals("i64", []int{3}, 1, 2), vals("i32", []int{1, 1}, 1, 2, 3),
		vals("f64", []int{1}), vals("u8", []int{2, 2}, 1, 2, 3)} {
		for _, raw := range []bool{false, true} {
			e.emit(opCase("cos-undecodable", "ConstantOfShape", []Attr{{Name: "value", Type: "t", T: bad, Raw: raw}}, []*TJ{idxT("i64", []int{2}, []int{2, 3})}, nil))
		}
	}
	e.emit(opCase("cos-bad", "ConstantOfShape", nil, []*TJ{idxT("i64", []int{2}, []int{2, 0})}, nil))
	e.emit(opCase("cos-bad", "ConstantOfShape", nil, []*TJ{idxT("i64", []int{2}, []int{-1, 2})}, nil))
	e.emit(opCase("cos-bad", "ConstantOfShape", nil, []*TJ{idxT("i64", []int{}, []int{3})}, nil))
	e.emit(opCase("cos-bad", "ConstantOfShape", nil, []*TJ{idxT("i64", []int{0}, nil)}, nil))
	// Constant: every attribute form
	e.emit(opCase("constant", "Constant", []Attr{{Name: "value_float", Type: "f", F: 2.5}}, []*TJ{}, nil))
	e.emit(opCase("constant", "Constant", []Attr{{Name: "value_float", Type: "f", F: -3}}, []*TJ{}, nil))
	e.emit(opCase("constant", "Constant", []Attr{{Name: "value_int", Type: "i", I: -7}}, []*TJ{}, nil))
	e.emit(opCase("constant", "Constant", []Attr{{Name: "value_int", Type: "i", I: 0}}, []*TJ{}, nil))
	e.emit(opCase("constant", "Constant", []Attr{{Name: "value_floats", Type: "floats", Fs: []float64{1, -2, 4}}}, []*TJ{}, nil))
	e.emit(opCase("constant", "Constant", []Attr{{Name: "value_ints", Type: "ints", Ints: []int64{5, -6}}}, []*TJ{}, nil))
	e.emit(opCase("constant", "Constant", []Attr{{Name: "value_floats", Type: "floats", Fs: []float64{1.5}}}, []*TJ{}, nil))
	e.emit(opCase("constant", "Constant", []Attr{{Name: "value_floats", Type: "floats", Fs: []float64{0}}}, []*TJ{}, nil))
	e.emit(opCase("constant", "Constant", []Attr{{Name: "value_floats", Type: "floats", Fs: []float64{3, 4}}}, []*TJ{}, nil))
	e.emit(opCase("constant", "Constant", []Attr{{Name: "value_ints", Type: "ints", Ints: []int64{0}}}, []*TJ{}, nil))
	e.emit(opCase("constant", "Constant", []Attr{{Name: "value_ints", Type: "ints", Ints: []int64{9223372036854775807}}}, []*TJ{}, nil))
	for _, dt := range valDts {
		for _, s := range [][]int{{}, {1}, {2, 3}, {1, 2, 2}} {
			e.emit(opCase("constant", "Constant", []Attr{{Name: "value", Type: "t", T: seqT(dt, s, func(i int) float64 { return float64(i % 2) })}}, []*TJ{}, nil))
		}
	}
	// the extremes of the narrow integer types (stored in the wider int32_data / uint64_data fields or as raw
	// bytes): every value of the element type's range is a value, up to the last one
	for _, ex := range []struct {
		dt string
		v  []float64
	}{{"u16", []float64{65535, 32768, 32767, 40000}}, {"i16", []float64{-32768, 32767}}, {"u8", []float64{255, 128, 127}}, {"i8", []float64{-128, 127}},
		{"u32", []float64{4294967295, 2147483648}}, {"i32", []float64{-2147483648, 2147483647}}, {"bool", []float64{1, 0, 1}}} {
		for _, raw := range []bool{false, true} {
			t := vals(ex.dt, []int{len(ex.v)}, ex.v...)
			e.emit(opCase("constant-extremes", "Constant", []Attr{{Name: "value", Type: "t", T: t, Raw: raw}}, []*TJ{}, nil))
			if ex.dt != "bool" {
				e.emit(opCase("constant-extremes", "ConstantOfShape", []Attr{{Name: "value", Type: "t", T: vals(ex.dt, []int{1}, ex.v[0]), Raw: raw}}, []*TJ{idxT("i64", []int{2}, []int{2, 2})}, nil))
			}
		}
	}
	// tensor names that differ only in case or in surrounding white space are DIFFERENT tensors
	e.emit(graphCase("names-differ-in-case", namesDifferInCaseGraph(), []NamedT{{"x", vals("f32", []int{2}, 1, 2)}, {"X", vals("f32", []int{2}, 5, 6)}}))
	// several Constant nodes in ONE graph (node names are optional and need not be unique), every attribute
	// form, each read by another node; then ConstantOfShape and Cast on them
	{
		g := &GraphJ{Inputs: []VInfoJ{{Name: "x", Dt: "f32", Dims: []any{2}}},
			Nodes: []NodeJ{
				{Op: "Constant", Attrs: []Attr{{Name: "value_floats", Type: "floats", Fs: []float64{3, -2}}}, Ins: []string{}, Outs: []string{"cf"}},
				{Op: "Constant", Attrs: []Attr{{Name: "value_ints", Type: "ints", Ints: []int64{3, 1}}}, Ins: []string{}, Outs: []string{"ci"}},
				{Op: "Constant", Attrs: []Attr{{Name: "value", Type: "t", T: vals("i64", []int{2}, 2, 2)}}, Ins: []string{}, Outs: []string{"ct"}},
				{Op: "Constant", Attrs: []Attr{{Name: "value_float", Type: "f", F: 5}}, Ins: []string{}, Outs: []string{"c1"}},
				{Op: "Constant", Attrs: []Attr{{Name: "value_int", Type: "i", I: 7}}, Ins: []string{}, Outs: []string{"c2"}},
				{Op: "Constant", Attrs: []Attr{{Name: "value", Type: "t", T: vals("f32", []int{2}, 10, 20)}}, Ins: []string{}, Outs: []string{"ct2"}},
				{Op: "Add", Ins: []string{"x", "cf"}, Outs: []string{"y"}},
				{Op: "ConstantOfShape", Attrs: []Attr{{Name: "value", Type: "t", T: vals("i32", []int{1}, 4)}}, Ins: []string{"ci"}, Outs: []string{"cs"}},
				{Op: "ConstantOfShape", Ins: []string{"ct"}, Outs: []string{"cs0"}},
				{Op: "Cast", Attrs: []Attr{{Name: "to", Type: "i", I: 1}}, Ins: []string{"ci"}, Outs: []string{"cif"}},
				{Op: "Mul", Ins: []string{"ct2", "cf"}, Outs: []string{"m"}},
			}, Outputs: []string{"cf", "ci", "ct", "c1", "c2", "ct2", "y", "cs", "cs0", "cif", "m"}}
		e.emit(graphCase("constants-in-one-graph", g, []NamedT{{"x", vals("f32", []int{2}, 1, 2)}}))
		g2 := *g
		g2.Nodes = append([]NodeJ{g.Nodes[5], g.Nodes[1], g.Nodes[0], g.Nodes[4], g.Nodes[3], g.Nodes[2]}, g.Nodes[6:]...)
		e.emit(graphCase("constants-in-one-graph", &g2, []NamedT{{"x", vals("f32", []int{2}, 1, 2)}}))
	}
	e.emit(opCase("constant-bad", "Constant", []Attr{{Name: "value_string", Type: "s", S: "x"}}, []*TJ{}, nil))
	e.emit(opCase("constant-bad", "Constant", []Attr{{Name: "value_strings", Type: "strings", Ss: []string{"x"}}}, []*TJ{}, nil))
	e.emit(opCase("constant-bad", "Constant", []Attr{{Name: "sparse_value", Type: "i", I: 1}}, []*TJ{}, nil))
	e.emit(opCase("constant-bad", "Constant", []Attr{{Name: "foo", Type: "i", I: 1}}, []*TJ{}, nil))
	e.emit(opCase("constant-bad", "Constant", nil, []*TJ{}, nil))
	e.emit(opCase("constant-bad", "Constant", []Attr{{Name: "value_int", Type: "i", I: 1}, {Name: "value_float", Type: "f", F: 1}}, []*TJ{}, nil))
	e.emit(opCase("constant-empty", "Constant", []Attr{{Name: "value_ints", Type: "ints"}}, []*TJ{}, nil))
	e.emit(opCase("constant-empty", "Constant", []Attr{{Name: "value_floats", Type: "floats"}}, []*TJ{}, nil))
	e.emit(opCase("constant-empty", "Constant", []Attr{{Name: "value", Type: "i"}}, []*TJ{}, nil))
}


// namesDifferInCaseGraph: Constant nodes, inputs and intermediate tensors whose names are equal after trimming /
// lower-casing (k, K, " k"; x, X; y, Y): a name is an exact byte string.
func namesDifferInCaseGraph() *GraphJ {
	return &GraphJ{Inputs: []VInfoJ{{Name: "x", Dt: "f32", Dims: []any{2}}, {Name: "X", Dt: "f32", Dims: []any{2}}},
		Inits: []InitJ{{Name: "w", T: vals("f32", []int{2}, 10, 20)}, {Name: "W", T: vals("f32", []int{2}, 100, 200)}},
		Nodes: []NodeJ{
			{Op: "Constant", Attrs: []Attr{{Name: "value_float", Type: "f", F: 2}}, Outs: []string{"k"}},
			{Op: "Constant", Attrs: []Attr{{Name: "value_ints", Type: "ints", Ints: []int64{2, 3}}}, Outs: []string{"K"}},
			{Op: "Constant", Attrs: []Attr{{Name: "value_floats", Type: "floats", Fs: []float64{7, 8}}}, Outs: []string{" k"}},
			{Op: "Add", Ins: []string{"x", "w"}, Outs: []string{"y"}},
			{Op: "Add", Ins: []string{"X", "W"}, Outs: []string{"Y"}},
			{Op: "Mul", Ins: []string{"y", " k"}, Outs: []string{"z"}},
			{Op: "Cast", Attrs: []Attr{{Name: "to", Type: "i", I: 11}}, Ins: []string{"k"}, Outs: []string{"kd"}},
			{Op: "Sub", Ins: []string{"Y", "y"}, Outs: []string{"d"}},
		}, Outputs: []string{"k", "K", " k", "y", "Y", "z", "kd", "d"}}
}
