package main

import (
	"fmt"
	"sort"

	"github.com/advancedclimatesystems/gonnx"
)

func init() { gens["C13"] = genC13 }

// SupJ is one supplied tensor of a Run call.
type SupJ struct {
	Name  string `json:"name"`
	Shape []int  `json:"shape"`
}

var validateCounter = 0

func validateCase(stream string, g *GraphJ, sup []SupJ) *Case {
	c := &Case{Kind: "validate", Stream: stream, Graph: g, P: map[string]any{"supplied": sup}}
	c.Impl = guard(func() *Result {
		m, err := loadModel(g)
		if err != nil {
			r := errResult(err)
			r.Extra = "load"
			return r
		}
		ins := gonnx.Tensors{}
		snaps := map[string]snap{}
		for _, s := range sup {
			t := mkTensor(seqT("f32", s.Shape, func(i int) float64 { return float64(i) }))
			ins[s.Name] = t
			snaps[s.Name] = snapshot(t)
		}
		// introspection: what the model reports as enforced shapes
		readShapes := func() map[string]any {
			intro := map[string]any{}
			for name, sh := range m.InputShapes() {
				var ds []any
				for _, d := range sh {
					if d.IsDynamic {
						ds = append(ds, nil)
					} else {
						ds = append(ds, d.Size)
					}
				}
				intro[name] = ds
			}
			return intro
		}
		intro := readShapes()
		// a caller may do what it likes with the values it got (fill in a batch size, reuse the slices):
		// neither what is reported next nor what Run enforces may depend on that
		scr := m.InputShapes()
		for name, sh := range scr {
			for i := range sh {
				sh[i].IsDynamic = !sh[i].IsDynamic
				sh[i].Size += 5
			}
			if len(sh) > 0 {
				scr[name] = sh[:len(sh)-1]
			}
		}
		for _, ns := range [][]string{m.InputNames(), m.OutputNames()} {
			for i := range ns {
				ns[i] = "scribble"
			}
		}
		intro2 := readShapes()
		names := m.InputNames()
		dimsz := map[string]any{}
		for _, n := range names {
			var l []any
			for i := 0; i < 6; i++ {
				v, err := m.InputDimSize(n, i)
				if err != nil {
					break
				}
				l = append(l, v)
			}
			dimsz[n] = l
		}
		// one case in three: the model has already completed a Run with an input set that satisfies the
		// signature (what Run enforces must not depend on earlier Runs)
		// ... and every third case: the FIRST Run of the model was one that must be refused (one of the inputs
		// has a rank too many; which one rotates): whatever a refused Run leaves behind, the next Run enforces
		// the whole signature
		validateCounter++
		if validateCounter%3 != 0 {
			warm := gonnx.Tensors{}
			for k, v := range g.Inputs {
				sh := []int{}
				for _, d := range v.Dims {
					if n, ok := d.(int); ok && n > 0 {
						sh = append(sh, n)
					} else {
						sh = append(sh, 2)
					}
				}
				if validateCounter%3 == 2 && len(g.Inputs) > 0 && k == (validateCounter/3)%len(g.Inputs) {
					sh = append(sh, 1)
				}
				warm[v.Name] = mkTensor(seqT("f32", sh, func(i int) float64 { return 1 }))
			}
			func() {
				defer func() { recover() }()
				m.Run(warm)
			}()
		}
		outs, err := m.Run(ins)
		var r *Result
		if err != nil {
			r = errResult(err)
			if outs != nil {
				r.Extra = "outputs-with-error"
			}
		} else {
			r = &Result{Status: "ok"}
		}
		i := 0
		keys := make([]string, 0, len(snaps))
		for k := range snaps {
			keys = append(keys, k)
		}
		sort.Strings(keys)
		for _, k := range keys {
			r.Mut = append(r.Mut, diffSnap(i, snaps[k], snapshot(ins[k]))...)
			i++
		}
		r.Extra = map[string]any{"shapes": intro, "shapes_again": intro2, "names": names, "dimsize": dimsz, "n_outs": len(outs)}
		return r
	})
	return c
}

func genC13(e *emitter, tier string) {
	// dimension declarations: fixed 1..3, symbolic, unspecified
	decl := []any{1, 2, 3, "N", nil}
	maxRank := 3
	nrand := 1500
	if tier == "thorough" {
		maxRank = 4
		nrand = 40000
	}
	// single-input signatures: bounded-exhaustive over declared dims x supplied shapes around them
	var sigs [][]any
	var rec func(cur []any, r int)
	rec = func(cur []any, r int) {
		if len(cur) == r {
			sigs = append(sigs, append([]any{}, cur...))
			return
		}
		for _, d := range decl {
			rec(append(cur, d), r)
		}
	}
	for r := 1; r <= maxRank; r++ {
		rec(nil, r)
	}
	for si, sig := range sigs {
		if tier != "thorough" && len(sig) == 3 && si%3 != 0 {
			continue
		}
		if len(sig) == 4 && si%7 != 0 {
			continue
		}
		g := &GraphJ{Inputs: []VInfoJ{{Name: "x", Dt: "f32", Dims: sig}}}
		// supplied: every rank 0..5; for the matching rank every per-axis size declared-1..declared+1
		for r := 0; r <= 5; r++ {
			if r != len(sig) {
				sh := make([]int, r)
				for i := range sh {
					sh[i] = 2
				}
				e.emit(validateCase("single", g, []SupJ{{"x", sh}}))
				continue
			}
			var shapes [][]int
			var rs func(cur []int)
			rs = func(cur []int) {
				if len(cur) == r {
					shapes = append(shapes, append([]int{}, cur...))
					return
				}
				base := 2
				if v, ok := sig[len(cur)].(int); ok {
					base = v
				}
				for _, d := range []int{base - 1, base, base + 1} {
					if d < 1 {
						continue
					}
					rs(append(cur, d))
				}
			}
			rs(nil)
			for _, sh := range shapes {
				e.emit(validateCase("single", g, []SupJ{{"x", sh}}))
			}
		}
		e.emit(validateCase("single", g, nil))                               // missing
		e.emit(validateCase("single", g, []SupJ{{"y", []int{2}}}))           // wrong name only
	}
	// the extents of a satisfying input set REDISTRIBUTED among the inputs (same extents in the same order, cut
	// at other places: ranks differ per input, the flattened list of extents does not); each three times, so that one
	// comes after a completed Run with the satisfying set and one after a refused first Run
	for _, pr := range []struct {
		a, b     []any
		supplied [][2][]int
	}{
		{[]any{2, 3}, []any{4}, [][2][]int{{{2}, {3, 4}}, {{2, 3, 4}, {}}, {{}, {2, 3, 4}}, {{2, 3}, {4}}, {{2, 3}, {2, 2}}}},
		{[]any{2, "N"}, []any{2}, [][2][]int{{{2}, {2, 2}}, {{2, 2, 2}, {}}, {{2, 2}, {2}}, {{2, 5}, {2}}}},
		{[]any{3}, []any{1, 2}, [][2][]int{{{3, 1}, {2}}, {{3, 1, 2}, {}}, {{}, {3, 1, 2}}, {{3}, {1, 2}}}},
		{[]any{1, 1}, []any{1}, [][2][]int{{{1}, {1, 1}}, {{1, 1, 1}, {}}, {{1, 1}, {1}}}},
	} {
		g := &GraphJ{Inputs: []VInfoJ{{Name: "a", Dt: "f32", Dims: pr.a}, {Name: "b", Dt: "f32", Dims: pr.b}}}
		for _, sp := range pr.supplied {
			for rep := 0; rep < 3; rep++ {
				e.emit(validateCase("extents-redistributed", g, []SupJ{{"a", sp[0]}, {"b", sp[1]}}))
			}
		}
	}
	// an input without usable shape information (no type, a non-tensor type, no shape, no dimensions) is
	// not checked - and must not stop the inputs declared after it from being checked
	for _, how := range []string{"", "tensor", "shape", "dims"} {
		for pos := 0; pos < 3; pos++ {
			g := &GraphJ{}
			for i := 0; i < 3; i++ {
				vi := VInfoJ{Name: fmt.Sprintf("in%d", i), Dt: "f32", Dims: []any{2, "N"}}
				if i == pos {
					vi.NoShape, vi.How = true, how
				}
				g.Inputs = append(g.Inputs, vi)
			}
			for _, bad := range []int{-1, 0, 1, 2} {
				for _, kind := range []string{"rank", "dim", "missing"} {
					var sup []SupJ
					for i := 0; i < 3; i++ {
						sh := []int{2, 3}
						if i == bad {
							switch kind {
							case "rank":
								sh = []int{2, 3, 1}
							case "dim":
								sh = []int{3, 3}
							case "missing":
								continue
							}
						}
						sup = append(sup, SupJ{fmt.Sprintf("in%d", i), sh})
					}
					e.emit(validateCase("unshaped-neighbour", g, sup))
				}
			}
		}
	}
	// extra tensors whose names coincide with tensors the model computes (intermediate and output names),
	// with a declared input a node rewrites, and with fresh names: extras never decide acceptance
	{
		g := &GraphJ{Inputs: []VInfoJ{{Name: "x", Dt: "f32", Dims: []any{"N", 2}}},
			Nodes:   []NodeJ{{Op: "Relu", Ins: []string{"x"}, Outs: []string{"hidden"}}, {Op: "Abs", Ins: []string{"hidden"}, Outs: []string{"y"}}},
			Outputs: []string{"y"}}
		for _, extra := range []string{"hidden", "y", "fresh", "", "x2"} {
			for _, xs := range [][]int{{3, 2}, {3, 3}, {2}} {
				e.emit(validateCase("extra-named-like-computed", g, []SupJ{{"x", xs}, {extra, []int{3, 2}}}))
			}
		}
	}
	// multi-input signatures, initializer shadowing, extra and permuted names (random, structured)
	for k := 0; k < nrand; k++ {
		n := 1 + e.rng.Intn(3)
		g := &GraphJ{}
		var sup []SupJ
		for i := 0; i < n; i++ {
			name := fmt.Sprintf("in%d", i)
			r := 1 + e.rng.Intn(4)
			dims := make([]any, r)
			shape := make([]int, r)
			for j := range dims {
				dims[j] = decl[e.rng.Intn(len(decl))]
				if v, ok := dims[j].(int); ok {
					shape[j] = v
				} else {
					shape[j] = 1 + e.rng.Intn(4)
				}
			}
			vi := VInfoJ{Name: name, Dt: "f32", Dims: dims}
			if e.rng.Intn(8) == 0 {
				vi.NoShape = true
				vi.How = []string{"", "tensor", "shape", "dims"}[e.rng.Intn(4)]
			}
			g.Inputs = append(g.Inputs, vi)
			shadow := e.rng.Intn(4) == 0
			if shadow {
				g.Inits = append(g.Inits, InitJ{Name: name, T: seqT("f32", shape, func(i int) float64 { return float64(i) })})
			}
			// perturbations of the supplied tensor
			switch e.rng.Intn(8) {
			case 0: // missing
				continue
			case 1: // wrong rank
				if e.rng.Intn(2) == 0 {
					shape = append(shape, 1)
				} else {
					shape = shape[1:]
				}
			case 2: // one axis off
				j := e.rng.Intn(len(shape))
				shape[j] += 1
			case 3:
				j := e.rng.Intn(len(shape))
				if shape[j] > 1 {
					shape[j]--
				}
			}
			if shadow && e.rng.Intn(2) == 0 {
				continue // do not supply a shadowed input
			}
			sup = append(sup, SupJ{name, shape})
		}
		if e.rng.Intn(5) == 0 {
			sup = append(sup, SupJ{"extra", []int{2, 2}})
		}
		e.rng.Shuffle(len(sup), func(i, j int) { sup[i], sup[j] = sup[j], sup[i] })
		e.emit(validateCase("multi", g, sup))
	}
}
