package main

import "math"

func init() {
	gens["C05"] = genC05
	exampleCases["Conv"] = &Case{Op: "Conv", Attrs: []Attr{{Name: "strides", Type: "ints", Ints: []int64{2, 1}}, {Name: "pads", Type: "ints", Ints: []int64{1, 0, 1, 0}}},
		Inputs: []*TJ{smallT("f32", []int{1, 1, 4, 3}, 1), smallT("f32", []int{2, 1, 2, 2}, 2), smallT("f32", []int{2}, 3)}}
}

func genC05(e *emitter, tier string) {
	n := 400
	if tier == "thorough" {
		n = 20000
	}
	modes := []string{"NOTSET", "NOTSET", "NOTSET", "SAME_UPPER", "SAME_LOWER", "VALID"}
	for i := 0; i < n; i++ {
		ns := 1 + e.rng.Intn(2)
		N, C, M := 1+e.rng.Intn(3), 1+e.rng.Intn(3), 1+e.rng.Intn(3)
		in := make([]int, ns)
		ks := make([]int, ns)
		st := make([]int64, ns)
		dl := make([]int64, ns)
		pads := make([]int64, 2*ns)
		for j := 0; j < ns; j++ {
			in[j] = 1 + e.rng.Intn(6)
			ks[j] = 1 + e.rng.Intn(3)
			st[j] = int64(1 + e.rng.Intn(3))
			dl[j] = int64(1 + e.rng.Intn(3))
			if e.rng.Intn(2) == 0 {
				dl[j] = 1
			}
			pads[j] = int64(e.rng.Intn(4))
			pads[j+ns] = int64(e.rng.Intn(4))
			if e.rng.Intn(3) == 0 {
				pads[j], pads[j+ns] = 0, 0
			}
		}
		mode := modes[e.rng.Intn(len(modes))]
		// mostly valid geometries: make the dilated kernel fit the padded input (NOTSET / VALID)
		if e.rng.Intn(8) != 0 {
			for j := 0; j < ns; j++ {
				dk := (ks[j]-1)*int(dl[j]) + 1
				extra := int(pads[j] + pads[j+ns])
				if mode != "NOTSET" {
					extra = 0
				}
				for in[j]+extra < dk {
					in[j]++
				}
			}
		}
		var attrs []Attr
		if mode != "NOTSET" || e.rng.Intn(4) == 0 {
			attrs = append(attrs, Attr{Name: "auto_pad", Type: "s", S: mode})
		}
		if mode == "NOTSET" && (pads[0] != 0 || e.rng.Intn(2) == 0) {
			attrs = append(attrs, Attr{Name: "pads", Type: "ints", Ints: pads})
		}
		if e.rng.Intn(3) != 0 {
			attrs = append(attrs, Attr{Name: "strides", Type: "ints", Ints: st})
		}
		if e.rng.Intn(3) != 0 {
			attrs = append(attrs, Attr{Name: "dilations", Type: "ints", Ints: dl})
		}
		if e.rng.Intn(3) == 0 {
			attrs = append(attrs, Attr{Name: "kernel_shape", Type: "ints", Ints: ints64(ks)})
		}
		if e.rng.Intn(5) == 0 {
			attrs = append(attrs, Attr{Name: "group", Type: "i", I: 1})
		}
		dt := "f32"
		if e.rng.Intn(3) == 0 {
			dt = "f64"
		}
		x := smallT(dt, append([]int{N, C}, in...), i)
		w := smallT(dt, append([]int{M, C}, ks...), i+1)
		ins := []*TJ{x, w}
		switch e.rng.Intn(3) {
		case 0:
			ins = append(ins, seqT(dt, []int{M}, func(k int) float64 { return float64(10 * (k + 1)) }))
		case 1:
			ins = append(ins, nil)
		}
		e.emit(opCase("geometry", "Conv", attrs, ins, nil))
	}
	// fixed corner cases: non-square images with unit kernels, W > H, kernel extent 1, group, rank 5, rank 2
	e.emit(opCase("corner", "Conv", nil, []*TJ{seqT("f32", []int{1, 1, 2, 4}, func(i int) float64 { return float64(i + 1) }), vals("f32", []int{1, 1, 1, 1}, 1)}, nil))
	e.emit(opCase("corner", "Conv", nil, []*TJ{seqT("f32", []int{1, 1, 2, 5}, func(i int) float64 { return float64(i + 1) }), vals("f32", []int{1, 1, 2, 2}, 1, 1, 1, 1)}, nil))
	e.emit(opCase("corner", "Conv", nil, []*TJ{seqT("f32", []int{1, 2, 3, 3}, func(i int) float64 { return float64(i + 1) }), vals("f32", []int{1, 2, 1, 1}, 1, 2)}, nil))
	e.emit(opCase("corner", "Conv", []Attr{{Name: "auto_pad", Type: "s", S: "SAME_UPPER"}, {Name: "strides", Type: "ints", Ints: []int64{2, 2}}},
		[]*TJ{seqT("f32", []int{3, 1, 5, 5}, func(i int) float64 { return float64(i%5 + 1) }), vals("f32", []int{1, 1, 2, 2}, 1, 1, 1, 1)}, nil))
	e.emit(opCase("corner", "Conv", []Attr{{Name: "auto_pad", Type: "s", S: "VALID"}}, []*TJ{iota1("f32", 1, 1, 4, 4), smallT("f32", []int{1, 1, 3, 3}, 2)}, nil))
	e.emit(opCase("refuse", "Conv", []Attr{{Name: "group", Type: "i", I: 2}}, []*TJ{iota1("f32", 1, 2, 4, 4), smallT("f32", []int{2, 1, 3, 3}, 2)}, nil))
	e.emit(opCase("refuse", "Conv", nil, []*TJ{iota1("f32", 1, 1, 3, 3, 3), smallT("f32", []int{1, 1, 2, 2, 2}, 2)}, nil))
	e.emit(opCase("refuse", "Conv", nil, []*TJ{iota1("f32", 2, 2), smallT("f32", []int{1, 2}, 2)}, nil))
	e.emit(opCase("refuse", "Conv", []Attr{{Name: "foo", Type: "i", I: 2}}, []*TJ{iota1("f32", 1, 1, 4), smallT("f32", []int{1, 1, 2}, 2)}, nil))
	e.emit(opCase("refuse", "Conv", nil, []*TJ{iota1("i32", 1, 1, 4), smallT("i32", []int{1, 1, 2}, 2)}, nil))
	// float operands carried bit for bit: infinities and NaN under non-zero and under zero weights (first,
	// middle and last tap of a window), sums that overflow float32, fractional data; judged against the direct
	// convolution in float64 with the dot-product bound of Theorems/C04b
	{
		inf, nan := math.Inf(1), math.NaN()
		imgs := [][]float64{
			{1, inf, 2, 3, 4, 5, 6, 7, 8, 9, 10, 11},
			{1, 2, 3, 4, 5, -inf, 6, 7, 8, 9, 10, inf},
			{nan, 2, 3, 4, 5, 6, 7, 8, 9, 10, 11, 12},
			{3e38, 3e38, 1, 1, -3e38, -3e38, 2, 2, 3e38, -3e38, 1, 0},
			{0.1, 0.2, 0.3, 0.4, 0.5, 0.6, 0.7, 0.8, 0.9, 1.1, 1.2, 1.3},
			{1e-40, 2e-40, 1e30, -1e30, 3, 1e-3, 7, 1e20, -1e20, 5, 6, 1},
		}
		kernels := [][]float64{{1, 1, 1, 1}, {1, -1, 0.5, 2}, {0, 1, 1, 0}, {0.3, 0.7, -0.2, 1.9}}
		for _, dt := range []string{"f32", "f64"} {
			for ii, img := range imgs {
				for ki, k := range kernels {
					x := fT(dt, []int{1, 1, 3, 4}, img)
					w := fT(dt, []int{1, 1, 2, 2}, k)
					e.emit(opCase("special", "Conv", nil, []*TJ{x, w}, nil))
					if (ii+ki)%2 == 0 {
						e.emit(opCase("special", "Conv", []Attr{{Name: "pads", Type: "ints", Ints: []int64{1, 0, 0, 1}}, {Name: "strides", Type: "ints", Ints: []int64{1, 2}}},
							[]*TJ{x, w, fT(dt, []int{1}, []float64{0.5})}, nil))
						// two channels, two filters, 1-D
						e.emit(opCase("special", "Conv", []Attr{{Name: "dilations", Type: "ints", Ints: []int64{2}}}, []*TJ{fT(dt, []int{1, 2, 6}, img), fT(dt, []int{2, 2, 2}, append(append([]float64{}, k...), k[2], k[3], k[0], k[1]))}, nil))
					}
				}
			}
		}
	}
}
