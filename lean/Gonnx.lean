import Gonnx.Model
