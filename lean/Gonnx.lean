import Gonnx.Model
import Gonnx.Theorems.C03
import Gonnx.Theorems.C07
import Gonnx.Theorems.C09
import Gonnx.Theorems.C12
import Gonnx.Theorems.C13
import Gonnx.Theorems.C14
import Gonnx.Theorems.C15
