import Gonnx.Model
import Gonnx.Theorems.C15
