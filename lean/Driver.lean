import Gonnx.Spec.Arity
import Gonnx.Spec.Types
import DriverLib
import Gonnx.Generated.Registry
open Lean Gonnx Drv

/-- answer of the model for one case -/
def handle (j : Json) : Json :=
  let kind := getStr j "kind"
  let op := getStr j "op"
  match kind with
  | "gate" | "gate-run" =>
    let dts : List (Option DType) := (getArr j "dts").toList.map fun v =>
      match v with
      | .str s => some (dtOfString s)
      | _ => none
    -- the arity ONNX prescribes (Spec/Arity.lean), for the judge: independent of what the code declares
    let ar : List (String × Json) := match Spec.arityOf op with
      | some (mn, mx) => [("arity", Json.arr #[toJson mn, toJson mx])]
      | none => []
    let ar := ar ++ (match Spec.typesOf op with
      | some cons => [("types", Json.arr (cons.map fun row => Json.arr (row.map fun d => Json.str (dtToString d)).toArray).toArray)]
      | none => [])
    match gate Generated.registry op dts with
    | .ok r => Json.mkObj ([("model", Json.mkObj [("status", "ok"),
        ("pattern", Json.arr (r.map optDtJson).toArray)])] ++ ar)
    | .error e => Json.mkObj ([("model", errJson e)] ++ ar)
  | "lookup" =>
    match lookup Generated.registry op with
    | .ok d => Json.mkObj [("model", Json.mkObj [("status", "ok"), ("str", d.str)])]
    | .error e => Json.mkObj [("model", errJson e)]
  | "graph" => runGraph j
  | "load" => Json.mkObj [("model", runLoad j)]
  | "decode" => Json.mkObj [("model", runDecode j)]
  | "validate" =>
    let a := runValidate j
    Json.mkObj [("model", a.model.json)]
  | "bcast" =>
    match (getArr j "inputs").toList.mapM parseTensor with
    | some [some A, some B] =>
      let a := runBcast op A B
      Json.mkObj [("model", a.model.json), ("spec", a.spec.json),
        ("guard", Json.arr (a.guard.map Json.str).toArray), ("tags", Json.arr (a.tags.map Json.str).toArray)]
    | _ => Json.mkObj [("model", Json.mkObj [("status", "inexact")])]
  | "op" =>
    match (getArr j "inputs").toList.mapM parseTensor with
    | none => Json.mkObj [("model", Json.mkObj [("status", "inexact")])]
    | some ins =>
      let nOut := (getArr j "outputs").size
      let a := runOp op (getObj j "attrs") ins (if nOut == 0 then 1 else nOut)
      Json.mkObj [("model", a.model.json), ("spec", a.spec.json),
        ("guard", Json.arr (a.guard.map Json.str).toArray), ("tags", Json.arr (a.tags.map Json.str).toArray)]
  | _ => Json.mkObj [("model", Json.mkObj [("status", "unmodelled")])]

partial def loop (hin : IO.FS.Stream) (hout : IO.FS.Stream) : IO Unit := do
  let line ← hin.getLine
  if line.isEmpty then return ()
  match Json.parse line with
  | .error e => hout.putStrLn (Json.compress (Json.mkObj [("parse_error", e)]))
  | .ok j =>
    let r := handle j
    let r := r.setObjVal! "id" (getStr j "id")
    hout.putStrLn (Json.compress r)
  loop hin hout

def main : IO Unit := do
  let hin ← IO.getStdin
  let hout ← IO.getStdout
  loop hin hout
