import Gonnx.Gate
/-
Models of the gorgonia.org/tensor primitives gonnx calls. These are ASSUMPTIONS about
third-party code, validated by the primitive- and operator-level correspondence streams,
not verified.
-/
namespace Gonnx
variable {α β : Type}

/-- gorgonia's `Number` typeclass: element types the arithmetic kernels accept -/
def DType.isNumber : DType → Bool
  | .u8 | .u16 | .u32 | .u64 | .i8 | .i16 | .i32 | .i64 | .f32 | .f64 | .c64 | .c128 => true
  | _ => false

/-- gorgonia's `Ord` typeclass: element types `Gt/Gte/Lt/Lte` accept (no complex, no bool) -/
def DType.isOrd : DType → Bool
  | .u8 | .u16 | .u32 | .u64 | .i8 | .i16 | .i32 | .i64 | .f32 | .f64 | .str => true
  | _ => false

def DType.isFloat : DType → Bool
  | .f32 | .f64 => true
  | _ => false

/-- `Reshape` to a shape with the same number of elements (in place in Go; here a new value). -/
def Tensor.reshape (t : Tensor α) (s : List Nat) : Res (Tensor α) :=
  if prod s = prod t.shape then .ok { t with shape := s } else .error .shape

/-- `tensor.Repeat(t, axis, n)` (np.repeat along one axis) -/
def repeatAxis [Inhabited α] (t : Tensor α) (axis n : Nat) : Tensor α :=
  ofFn (t.shape.modify axis (· * n)) (fun idx => t.get (idx.modify axis (· / n)))

/-- elementwise map (`Apply`, unary kernels) -/
def Tensor.map (f : α → β) (t : Tensor α) : Tensor β := ⟨t.shape, t.data.map f⟩

/-- elementwise binary kernel: gorgonia requires equal shapes -/
def zipSame (f : α → α → β) (A B : Tensor α) : Res (Tensor β) :=
  if A.shape = B.shape then .ok ⟨A.shape, List.zipWith f A.data B.data⟩ else .error .gorgonia

/-- fallible elementwise binary kernel (integer division by zero is an error in gorgonia) -/
def zipSameM (f : α → α → Option β) (A B : Tensor α) : Res (Tensor β) :=
  if A.shape = B.shape then
    match (List.zipWith f A.data B.data).mapM id with
    | some d => .ok ⟨A.shape, d⟩
    | none => .error .gorgonia
  else .error .gorgonia

end Gonnx

namespace Gonnx
variable {α β : Type}

/-- `ops.Slicer` / `tensor.Slice`: start, end, step as the caller gave them -/
structure Sl where
  start : Int
  stop : Int
  step : Int
deriving Repr, DecidableEq

/-- `NewSlicer(k)`: the single position k -/
def Sl.one (k : Int) : Sl := ⟨k, k + 1, 1⟩

/-- what `AP.S` derives for one axis: first position, number of positions, distance between
positions (in units of the axis), and whether the axis is dropped from the result -/
structure AxisSel where
  start : Nat
  ext : Nat
  step : Nat
  drop : Bool
deriving Repr, DecidableEq

/-- `SliceDetails` + `CheckSlice` + the extent arithmetic of `AP.S` for axis number `i` -/
def axisSel (i : Nat) (size : Nat) : Option Sl → Res (AxisSel × Int × Int)
  | none => .ok (⟨0, size, 1, false⟩, 0, size)
  | some s =>
    if s.start > s.stop ∨ s.start < 0 ∨ (s.step = 0 ∧ s.stop - s.start > 1) ∨ s.start ≥ size then .error .gorgonia
    else if s.start ≥ (if s.stop > size then (size : Int) else s.stop) then .error .unmodelled   -- empty selection: gorgonia's behaviour (panics / stale data) is not modelled
    else
      let e : Int := if s.stop > size then size else s.stop
      let ext : Int :=
        if s.step > 0 then
          let q := Int.tdiv (e - s.start) s.step
          let q := if Int.tmod (e - s.start) s.step > 0 ∧ i > 0 then q + 1 else q
          if q ≤ 0 then 1 else q
        else e - s.start
      let stp : Int := if s.step > 0 then s.step else 1
      .ok (⟨s.start.toNat, ext.toNat, stp.toNat, ext = 1⟩, s.start, e)

def axisSels : Nat → List Nat → List (Option Sl) → Res (List (AxisSel × Int × Int))
  | _, [], _ => .ok []
  | i, size :: rest, sls =>
    match axisSel i size (sls.headD none) with
    | .error e => .error e
    | .ok a => match axisSels (i+1) rest sls.tail with
      | .error e => .error e
      | .ok r => .ok (a :: r)

/-- row-major strides -/
def strides : List Nat → List Nat
  | [] => []
  | _ :: s => prod s :: strides s

/-- position in the source of index `idx` of the sliced result -/
def sliceIndex : List AxisSel → List Nat → List Nat
  | [], _ => []
  | a :: as, idx =>
    if a.drop then a.start :: sliceIndex as idx
    else (a.start + idx.headD 0 * a.step) :: sliceIndex as idx.tail

/-- `t.Slice(slices...)` followed by `Materialize()` -/
def gSlice [Inhabited α] (t : Tensor α) (slices : List (Option Sl)) : Res (Tensor α) :=
  if slices.length > t.shape.length then .error .gorgonia
  else match axisSels 0 t.shape slices with
    | .error e => .error e
    | .ok sels =>
      let st := strides t.shape
      let ndStart : Int := (List.zipWith (fun (a : AxisSel × Int × Int) (s : Nat) => a.2.1 * s) sels st).foldl (· + ·) 0
      let ndEnd : Int := (List.zipWith (fun ((a, sz) : (AxisSel × Int × Int) × Nat) (s : Nat) => ((sz : Int) - a.2.2) * s)
        (sels.zip t.shape) st).foldl (fun acc x => acc - x) (prod t.shape : Int)
      let as := sels.map (·.1)
      if ndEnd - ndStart = 1 then
        .ok ⟨[], [t.data.getD ndStart.toNat default]⟩
      else
        let shape' := (as.filter (!·.drop)).map (·.ext)
        .ok (ofFn shape' fun idx => t.get (sliceIndex as idx))

/-- the permutation itself -/
def permute [Inhabited α] (t : Tensor α) (p : List Nat) : Tensor α :=
  let r := t.shape.length
  ofFn (p.map fun a => dim t.shape a) fun idx =>
    t.get ((List.range r).map fun j => idx.getD (p.findIdx (· = j)) 0)

/-- `tensor.Transpose(t, perm...)`. A pattern of the wrong length is an error. For a genuine
permutation of the axes the result is the permuted tensor (the no-op shortcuts `AP.T` takes for
all-ones shapes, the identity and row/column vectors agree with it). For a pattern of the right
length that is *not* a permutation gorgonia's answer depends on which shortcut fires (no-op, a
swapped vector, a scalar, an error or an index panic): not modelled. -/
def gTranspose [Inhabited α] (t : Tensor α) (perm : List Int) : Res (Tensor α) :=
  let r := t.shape.length
  if perm.length ≠ r then .error .gorgonia
  else if (List.range r).all (fun (j : Nat) => perm.contains (j : Int)) then .ok (permute t (perm.map Int.toNat))
  else .error .unmodelled

/-- `tensor.Concat(axis, t0, ts...)` on tensors of one element type -/
def gConcat [Inhabited α] (axis : Int) (ts : List (Tensor α)) : Res (Tensor α) :=
  match ts with
  | [] => .error .gorgonia
  | t0 :: _ =>
    let r := t0.shape.length
    if !(ts.all fun t => t.shape.length = r) then .error .gorgonia
    else if axis = -1 then .error .panic          -- `AllAxes` (-1) is accepted by the shape check and then used as an index
    else if axis < 0 ∨ axis ≥ r then .error .gorgonia
    else
      let ax := axis.toNat
      if !(ts.all fun t => t.shape.length = r ∧ (List.range r).all fun j => j = ax ∨ dim t.shape j = dim t0.shape j)
      then .error .gorgonia
      else
        let exts := ts.map fun t => dim t.shape ax
        let total := exts.foldl (· + ·) 0
        -- piece k covers positions [offs k, offs k + ext k) along the axis
        let locate (p : Nat) : Nat × Nat :=
          let rec go (k : Nat) (p : Nat) (es : List Nat) : Nat × Nat :=
            match es with
            | [] => (k, p)
            | e :: rest => if p < e then (k, p) else go (k+1) (p - e) rest
          go 0 p exts
        .ok (ofFn (t0.shape.set ax total) fun idx =>
          let (k, q) := locate (idx.getD ax 0)
          match ts[k]? with
          | some t => t.get (idx.set ax q)
          | none => default)

end Gonnx
