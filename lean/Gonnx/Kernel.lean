import Gonnx.Gate
/-
Models of the gorgonia.org/tensor primitives gonnx calls. These are ASSUMPTIONS about
third-party code, validated by the primitive- and operator-level correspondence streams,
not verified.
-/
namespace Gonnx
variable {α β : Type}

/-- gorgonia's `Number` typeclass: element types the arithmetic kernels accept -/
def DType.isNumber : DType → Bool
  | .u8 | .u16 | .u32 | .u64 | .i8 | .i16 | .i32 | .i64 | .f32 | .f64 | .c64 | .c128 => true
  | _ => false

/-- gorgonia's `Ord` typeclass: element types `Gt/Gte/Lt/Lte` accept (no complex, no bool) -/
def DType.isOrd : DType → Bool
  | .u8 | .u16 | .u32 | .u64 | .i8 | .i16 | .i32 | .i64 | .f32 | .f64 | .str => true
  | _ => false

def DType.isFloat : DType → Bool
  | .f32 | .f64 => true
  | _ => false

/-- `Reshape` to a shape with the same number of elements (in place in Go; here a new value). -/
def Tensor.reshape (t : Tensor α) (s : List Nat) : Res (Tensor α) :=
  if prod s = prod t.shape then .ok { t with shape := s } else .error .shape

/-- `tensor.Repeat(t, axis, n)` (np.repeat along one axis) -/
def repeatAxis [Inhabited α] (t : Tensor α) (axis n : Nat) : Tensor α :=
  ofFn (t.shape.modify axis (· * n)) (fun idx => t.get (idx.modify axis (· / n)))

/-- elementwise map (`Apply`, unary kernels) -/
def Tensor.map (f : α → β) (t : Tensor α) : Tensor β := ⟨t.shape, t.data.map f⟩

/-- elementwise binary kernel: gorgonia requires equal shapes -/
def zipSame (f : α → α → β) (A B : Tensor α) : Res (Tensor β) :=
  if A.shape = B.shape then .ok ⟨A.shape, List.zipWith f A.data B.data⟩ else .error .gorgonia

/-- fallible elementwise binary kernel (integer division by zero is an error in gorgonia) -/
def zipSameM (f : α → α → Option β) (A B : Tensor α) : Res (Tensor β) :=
  if A.shape = B.shape then
    match (List.zipWith f A.data B.data).mapM id with
    | some d => .ok ⟨A.shape, d⟩
    | none => .error .gorgonia
  else .error .gorgonia

end Gonnx
