import Gonnx.Kernel
/-
Model of ops/multidir_broadcast.go and ops/unidir_broadcast.go.
-/
namespace Gonnx
variable {α : Type}

/-- `AddExtraDimsToTensor`: clone, then reshape with `k` leading ones. -/
def addExtraDims (t : Tensor α) (k : Nat) : Tensor α :=
  { t with shape := List.replicate k 1 ++ t.shape }

/-- `ReshapeTensorsForMultidirBroadcast` -/
def reshapeForMultidir (A B : Tensor α) : Tensor α × Tensor α :=
  if A.rank > B.rank then (A, addExtraDims B (A.rank - B.rank))
  else if B.rank > A.rank then (addExtraDims A (B.rank - A.rank), B)
  else (A, B)

/-- `repeatTensorsForMutltidirBroadcast`: `for axis := nDims-1; axis >= 0; axis--`, the extents
being read from the shapes captured *before* the loop (`sA`, `sB`). `k` is `axis+1`. -/
def repeatMulti [Inhabited α] (sA sB : List Nat) : Nat → Tensor α → Tensor α → Res (Tensor α × Tensor α)
  | 0, A, B => .ok (A, B)
  | k+1, A, B =>
    let a := dim sA k
    let b := dim sB k
    if a = b then repeatMulti sA sB k A B
    else if a = 1 then repeatMulti sA sB k (repeatAxis A k b) B
    else if b = 1 then repeatMulti sA sB k A (repeatAxis B k a)
    else .error .broadcast

/-- `MultidirectionalBroadcast` -/
def multidirBroadcast [Inhabited α] (A B : Tensor α) : Res (Tensor α × Tensor α) :=
  let (A', B') := reshapeForMultidir A B
  repeatMulti A'.shape B'.shape A'.rank A' B'

/-- `repeatTensorsForUnidirBroadcast` -/
def repeatUni [Inhabited α] (sA sB : List Nat) : Nat → Tensor α → Res (Tensor α)
  | 0, B => .ok B
  | k+1, B =>
    let a := dim sA k
    let b := dim sB k
    if a = b then repeatUni sA sB k B
    else if b ≠ 1 then .error .broadcast
    else repeatUni sA sB k (repeatAxis B k a)

/-- `UnidirectionalBroadcast`: B is broadcast to A; A is returned as is. -/
def unidirBroadcast [Inhabited α] (A B : Tensor α) : Res (Tensor α × Tensor α) :=
  if A.rank < B.rank then .error .broadcast
  else
    let B' := if A.rank > B.rank then addExtraDims B (A.rank - B.rank) else B
    match repeatUni A.shape B'.shape A.rank B' with
    | .ok nb => .ok (A, nb)
    | .error e => .error e

end Gonnx
