/-
Core of the gonnx model: shapes, row-major indexing, dense tensors.
Core-only (no Mathlib) so that the driver links as a `lean_exe`.
-/
namespace Gonnx

/-- number of elements of a shape -/
def prod : List Nat → Nat
  | [] => 1
  | n :: s => n * prod s

/-- all multi-indices of a shape in row-major order -/
def allIdx : List Nat → List (List Nat)
  | [] => [[]]
  | n :: s => (List.range n).flatMap (fun i => (allIdx s).map (i :: ·))

/-- row-major flat offset -/
def ravel : List Nat → List Nat → Nat
  | _ :: s, i :: is => i * prod s + ravel s is
  | _, _ => 0

/-- `InRange idx shape`: same length and pointwise `<` -/
def InRange : List Nat → List Nat → Prop
  | [], [] => True
  | i :: is, n :: ns => i < n ∧ InRange is ns
  | _, _ => False

instance decInRange : (idx s : List Nat) → Decidable (InRange idx s)
  | [], [] => isTrue trivial
  | i :: is, n :: ns =>
    have := decInRange is ns
    inferInstanceAs (Decidable (i < n ∧ InRange is ns))
  | [], _ :: _ => isFalse (fun h => h)
  | _ :: _, [] => isFalse (fun h => h)

/-- shape lookup with default 0 (one normal form for all proofs) -/
def dim (s : List Nat) (j : Nat) : Nat := s.getD j 0

@[simp] theorem prod_nil : prod [] = 1 := rfl
@[simp] theorem prod_cons (n : Nat) (s : List Nat) : prod (n :: s) = n * prod s := rfl

theorem prod_append (a b : List Nat) : prod (a ++ b) = prod a * prod b := by
  induction a with
  | nil => simp
  | cons n a ih => simp [ih, Nat.mul_assoc]

theorem allIdx_length (s : List Nat) : (allIdx s).length = prod s := by
  induction s with
  | nil => rfl
  | cons n s ih =>
    simp only [allIdx, prod]
    induction n with
    | zero => simp
    | succ k ihk =>
      rw [List.range_succ, List.flatMap_append, List.length_append, ihk]
      simp [ih, Nat.succ_mul]

theorem ravel_lt (s idx : List Nat) (h : InRange idx s) : ravel s idx < prod s := by
  induction s generalizing idx with
  | nil => cases idx <;> simp_all [InRange, ravel, prod]
  | cons n s ih =>
    cases idx with
    | nil => simp [InRange] at h
    | cons i is =>
      simp only [InRange] at h
      simp only [ravel, prod]
      have := ih is h.2
      calc i * prod s + ravel s is < i * prod s + prod s := by omega
        _ = (i+1) * prod s := by rw [Nat.succ_mul]
        _ ≤ n * prod s := Nat.mul_le_mul_right _ h.1

theorem flatMap_range_getElem? {β : Type} (n : Nat) (f : Nat → List β) (m : Nat)
    (hm : ∀ i, (f i).length = m) (i j : Nat) (hi : i < n) (hj : j < m) :
    ((List.range n).flatMap f)[i * m + j]? = (f i)[j]? := by
  induction n with
  | zero => omega
  | succ k ih =>
    rw [List.range_succ, List.flatMap_append]
    have hlen : ((List.range k).flatMap f).length = k * m := by
      clear ih hi
      induction k with
      | zero => simp
      | succ k ihk =>
        rw [List.range_succ, List.flatMap_append, List.length_append, ihk]; simp [hm, Nat.succ_mul]
    by_cases hik : i < k
    · have : i * m + j < k * m := by
        calc i * m + j < i * m + m := by omega
          _ = (i+1) * m := by rw [Nat.succ_mul]
          _ ≤ k * m := Nat.mul_le_mul_right _ hik
      rw [List.getElem?_append_left (by omega)]
      exact ih hik
    · have hik' : i = k := by omega
      subst hik'
      rw [List.getElem?_append_right (by omega)]
      simp [hlen]

theorem allIdx_ravel (s idx : List Nat) (h : InRange idx s) :
    (allIdx s)[ravel s idx]? = some idx := by
  induction s generalizing idx with
  | nil => cases idx <;> simp_all [InRange, ravel, allIdx]
  | cons n s ih =>
    cases idx with
    | nil => simp [InRange] at h
    | cons i is =>
      simp only [InRange] at h
      simp only [ravel, allIdx]
      rw [flatMap_range_getElem? n _ (prod s) (by intro i; simp [allIdx_length]) i _ h.1
        (ravel_lt s is h.2)]
      simp [ih is h.2]

theorem InRange_length {idx s : List Nat} (h : InRange idx s) : idx.length = s.length := by
  induction idx generalizing s with
  | nil => cases s <;> simp_all [InRange]
  | cons i is ih =>
    cases s with
    | nil => simp [InRange] at h
    | cons n ns => simp only [InRange] at h; simp [ih h.2]

/-- pointwise characterisation of `InRange` -/
theorem InRange_iff (idx s : List Nat) :
    InRange idx s ↔ idx.length = s.length ∧ ∀ j, j < s.length → idx.getD j 0 < dim s j := by
  induction idx generalizing s with
  | nil =>
    cases s with
    | nil => simp [InRange]
    | cons n ns => simp [InRange]
  | cons i is ih =>
    cases s with
    | nil => simp [InRange]
    | cons n ns =>
      simp only [InRange, ih, List.length_cons, dim]
      constructor
      · rintro ⟨h0, hl, hp⟩
        refine ⟨by omega, ?_⟩
        intro j hj
        cases j with
        | zero => simpa using h0
        | succ j => simpa [dim] using hp j (by omega)
      · rintro ⟨hl, hp⟩
        refine ⟨by simpa using hp 0 (by omega), by omega, ?_⟩
        intro j hj
        simpa [dim] using hp (j+1) (by omega)

theorem mem_allIdx {s idx : List Nat} : idx ∈ allIdx s ↔ InRange idx s := by
  induction s generalizing idx with
  | nil => cases idx <;> simp [allIdx, InRange]
  | cons n s ih =>
    cases idx with
    | nil => simp [allIdx, InRange]
    | cons i is => simp [allIdx, InRange, ih]

/-- Dense row-major tensor. A scalar has `shape = []`. -/
structure Tensor (α : Type) where
  shape : List Nat
  data : List α
deriving Repr, BEq, DecidableEq

namespace Tensor
variable {α : Type}

def WF (t : Tensor α) : Prop := t.data.length = prod t.shape

def get [Inhabited α] (t : Tensor α) (idx : List Nat) : α :=
  t.data.getD (ravel t.shape idx) default

def rank (t : Tensor α) : Nat := t.shape.length

def size (t : Tensor α) : Nat := prod t.shape

end Tensor

/-- tensor defined by its value at every index -/
def ofFn {α : Type} (s : List Nat) (f : List Nat → α) : Tensor α := ⟨s, (allIdx s).map f⟩

@[simp] theorem ofFn_shape {α : Type} (s : List Nat) (f : List Nat → α) : (ofFn s f).shape = s := rfl

theorem ofFn_WF {α : Type} (s : List Nat) (f : List Nat → α) : (ofFn s f).WF := by
  simp [Tensor.WF, ofFn, allIdx_length]

theorem get_ofFn {α : Type} [Inhabited α] (s : List Nat) (f : List Nat → α) (idx : List Nat)
    (h : InRange idx s) : (ofFn s f).get idx = f idx := by
  simp [Tensor.get, ofFn, List.getD, allIdx_ravel s idx h]

end Gonnx
