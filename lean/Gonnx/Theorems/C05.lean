import Gonnx.Ops.Conv
import Gonnx.Spec.Conv
import Gonnx.Proofs.Binary
import Gonnx.Proofs.Conv
/-
C05 — Conv equals direct convolution for every geometry, not only square ones.
Model: Gonnx/Ops/Conv.lean (mirrors ops/opset13/conv.go after the three `fix:` commits).
Spec: Gonnx/Spec/Conv.lean. The arithmetic is a parameter; the only laws used are those needed to
discard the zeros of the padding and of the dilated kernel.
-/
namespace Gonnx.C05
open Gonnx
variable {α : Type} [Inhabited α]

abbrev Pos := Proofs.Pos
abbrev Equiv {β : Type} [Inhabited β] := @Proofs.Equiv β _

-- `ZeroLaws` (the laws about zero that are used) and `dkernel` (the dilated kernel extents) are
-- defined, in this namespace, in Gonnx/Proofs/Conv.lean

-- concrete instance shared by the non-vacuity examples below: N = 2, C = 2, a 3×4 image, M = 2 kernels of 2×2, a bias
private def nv_A : Arith Int := ⟨0, (· + ·), (· * ·), (· - ·)⟩
private def nv_x : Tensor Int := ⟨[2, 2, 3, 4], (List.range 48).map (fun (n : Nat) => (n : Int) - 20)⟩
private def nv_w : Tensor Int := ⟨[2, 2, 2, 2], [1, 2, 3, 4, 5, 6, 7, 8, -1, 0, 1, 0, 2, -2, 3, -3]⟩
private def nv_bias : Tensor Int := ⟨[2], [100, 200]⟩

-- `hs` is part of the fixed statement; truncating and natural division agree also for `s = 0`
set_option linter.unusedVariables false in
/-- **Output shape** of every explicit-padding geometry is the ONNX one:
`⌊(in + p_b + p_e − ((k−1)·d+1)) / s⌋ + 1` per spatial axis -/
theorem outdim_eq_spec (inD k d pb pe s : Nat) (hs : 0 < s) (hk : 0 < k) (hd : 0 < d)
    (hfit : (k - 1) * d + 1 ≤ inD + pb + pe) :
    convOutDim inD (k + (k - 1) * (d - 1)) pb pe s = (((inD + pb + pe - ((k - 1) * d + 1)) / s + 1 : Nat) : Int) :=
  Proofs.Conv.outdim_eq_spec inD k d pb pe s hk hd hfit

-- non-vacuity: input 7, kernel 3, dilation 2, pads 1 / 0, stride 2
example : convOutDim 7 (3 + (3 - 1) * (2 - 1)) ((1 : Nat) : Int) ((0 : Nat) : Int) 2 = (((7 + 1 + 0 - ((3 - 1) * 2 + 1)) / 2 + 1 : Nat) : Int) :=
  outdim_eq_spec 7 3 2 1 0 2 (by decide) (by decide) (by decide) (by decide)

-- `hd`, `hl`, `hpos` are part of the fixed statement; the index bookkeeping holds without them
set_option linter.unusedVariables false in
/-- the dilated kernel holds the original taps at multiples of the dilation and zeros elsewhere -/
theorem dilatedKernel_get (zero : α) (w : Tensor α) (dil : List Nat) (hd : ∀ d ∈ dil, 0 < d)
    (hl : dil.length + 2 = w.shape.length) (hpos : Pos w.shape) (idx : List Nat)
    (hidx : InRange idx (dilatedKernel zero w dil).shape) :
    (dilatedKernel zero w dil).get idx =
      if ((idx.drop 2).zip dil).all (fun p => p.1 % p.2 = 0) then
        w.get (idx.take 2 ++ ((idx.drop 2).zip dil).map (fun p => p.1 / p.2))
      else zero :=
  Proofs.Conv.dilatedKernel_get zero w dil idx hidx

-- non-vacuity: the 2×2×2×2 kernel dilated by (2, 1), read at an in-range index
example : (dilatedKernel 0 nv_w [2, 1]).get [1, 0, 2, 1] =
      if (([1, 0, 2, 1].drop 2).zip [2, 1]).all (fun p => p.1 % p.2 = 0) then
        nv_w.get ([1, 0, 2, 1].take 2 ++ (([1, 0, 2, 1].drop 2).zip [2, 1]).map (fun p => p.1 / p.2))
      else 0 :=
  dilatedKernel_get 0 nv_w [2, 1] (by decide) (by decide) (by simp [Proofs.Pos, nv_w]) [1, 0, 2, 1] (by decide)

-- `hl`, `hl'` are part of the fixed statement; the index bookkeeping holds without them
set_option linter.unusedVariables false in
/-- zero padding: inside the original extent the input value, outside zero -/
theorem padInput_get (zero : α) (x : Tensor α) (pb pe : List Nat)
    (hl : pb.length + 2 = x.shape.length) (hl' : pe.length = pb.length) (idx : List Nat)
    (hidx : InRange idx (padInput zero x pb pe).shape) :
    (padInput zero x pb pe).get idx =
      if ((idx.drop 2).zip ((x.shape.drop 2).zip pb)).all (fun p => p.2.2 ≤ p.1 ∧ p.1 < p.2.2 + p.2.1) then
        x.get (idx.take 2 ++ ((idx.drop 2).zip pb).map (fun p => p.1 - p.2))
      else zero :=
  Proofs.Conv.padInput_get zero x pb pe idx hidx

-- non-vacuity: the 2×2×3×4 input padded by (1, 0) before and (0, 2) after, read at an in-range index
example : (padInput 0 nv_x [1, 0] [0, 2]).get [1, 1, 3, 2] =
      if (([1, 1, 3, 2].drop 2).zip ((nv_x.shape.drop 2).zip [1, 0])).all (fun p => p.2.2 ≤ p.1 ∧ p.1 < p.2.2 + p.2.1) then
        nv_x.get ([1, 1, 3, 2].take 2 ++ (([1, 1, 3, 2].drop 2).zip [1, 0]).map (fun p => p.1 - p.2))
      else 0 :=
  padInput_get 0 nv_x [1, 0] [0, 2] (by decide) (by decide) [1, 1, 3, 2] (by decide)

/-- FALSE as first written (kept verbatim): auto_pad SAME_UPPER / SAME_LOWER give the ONNX pads whenever
the needed padding is not negative. It fails when an input extent is 0: Go computes
`(⌈0/s⌉ − 1)·s = −s` where the natural-number spec has `0`. -/
def autopad_eq_spec_statement : Prop :=
  ∀ (mode : String) (_hm : mode = "SAME_UPPER" ∨ mode = "SAME_LOWER")
    (inDims strides dk : List Nat) (_hl : strides.length = inDims.length) (_hl' : dk.length = inDims.length)
    (_hs : ∀ s ∈ strides, 0 < s)
    (_hneed : ∀ i, i < inDims.length → dim inDims i ≤ ((dim inDims i + dim strides i - 1) / dim strides i - 1) * dim strides i + dim dk i),
    autoPads mode inDims strides dk = (Spec.convPads mode [] inDims strides dk).map (fun (p : Nat) => (p : Int))

/-- witness: mode SAME_UPPER, input extent 0, stride 1, kernel extent 1: the model gives pads `[0, 0]`,
the spec `[0, 1]` -/
theorem autopad_eq_spec_counterexample : ¬ autopad_eq_spec_statement := by
  intro h
  have := h "SAME_UPPER" (Or.inl rfl) [0] [1] [1] rfl rfl (by simp)
    (by intro i hi; have : i = 0 := by simpa using hi
        subst this; decide)
  revert this
  decide

/-- auto_pad SAME_UPPER / SAME_LOWER give the ONNX pads whenever the needed padding is not negative
and every input extent is positive (`hInPos`) -/
theorem autopad_eq_spec_partial (mode : String) (hm : mode = "SAME_UPPER" ∨ mode = "SAME_LOWER")
    (inDims strides dk : List Nat) (hl : strides.length = inDims.length) (hl' : dk.length = inDims.length)
    (hs : ∀ s ∈ strides, 0 < s)
    (hneed : ∀ i, i < inDims.length → dim inDims i ≤ ((dim inDims i + dim strides i - 1) / dim strides i - 1) * dim strides i + dim dk i)
    (hInPos : ∀ d ∈ inDims, 0 < d) :
    autoPads mode inDims strides dk = (Spec.convPads mode [] inDims strides dk).map (fun (p : Nat) => (p : Int)) :=
  Proofs.Conv.autopad_eq_spec_partial mode hm inDims strides dk hl hl' hs hneed hInPos

-- non-vacuity: two spatial axes, extents 5 and 4, strides 2 and 1, dilated kernel extents 3 and 2
example : autoPads "SAME_LOWER" [5, 4] [2, 1] [3, 2] = (Spec.convPads "SAME_LOWER" [] [5, 4] [2, 1] [3, 2]).map (fun (p : Nat) => (p : Int)) :=
  autopad_eq_spec_partial "SAME_LOWER" (Or.inr rfl) [5, 4] [2, 1] [3, 2] (by decide) (by decide) (by decide) (by decide) (by decide)

-- `hWx`, `hWw` are part of the fixed statement; both sides read the inputs through `Tensor.get` only
set_option linter.unusedVariables false in
/-- **Conv = direct convolution** (partial), 1-D and 2-D, any N, C, M, any (non-square) spatial and
kernel extents, strides, dilations and explicit asymmetric pads, with or without bias — under the
guards the code forces: every dilated kernel extent ≥ 2 (gorgonia drops extent-1 slice axes) and the
kernel fits the padded input. -/
theorem conv_explicit_partial (A : Arith α) (hA : ZeroLaws A) (x w : Tensor α) (bias : Option (Tensor α))
    (dil strides pads : List Nat)
    (hWx : x.WF) (hWw : w.WF) (hWb : ∀ b, bias = some b → b.WF)
    (hpx : Pos x.shape) (hpw : Pos w.shape)
    (hrank : x.shape.length = 3 ∨ x.shape.length = 4)
    (hdl : dil.length = x.shape.length - 2) (hsl : strides.length = x.shape.length - 2)
    (hpl : pads.length = 2 * (x.shape.length - 2))
    (hdp : ∀ d ∈ dil, 0 < d) (hsp : ∀ s ∈ strides, 0 < s)
    (hk2 : ∀ k ∈ dkernel w dil, 2 ≤ k)
    (s : Tensor α) (hs : Spec.conv A "NOTSET" dil strides pads x w bias = some s) :
    ∃ m, convOp A { autoPad := "NOTSET", dilations := dil, strides := strides, pads := pads.map (fun (p : Nat) => (p : Int)) } x w bias = .ok m ∧
      Equiv m s :=
  Proofs.Conv.conv_explicit_partial A hA x w bias dil strides pads hWb hpx hpw hrank hdl hsl hpl hdp hsp hk2 s hs

-- non-vacuity: N = 2, C = 2, M = 2, 3×4 image, 2×2 kernel, dilations (2, 1), strides (1, 2), pads 1 1 0 0, bias;
-- the dilated kernel extents are 3 and 2, the kernel fits: every hypothesis is discharged
example : ∃ m, convOp nv_A { autoPad := "NOTSET", dilations := [2, 1], strides := [1, 2], pads := [1, 1, 0, 0].map (fun (p : Nat) => (p : Int)) } nv_x nv_w (some nv_bias) = .ok m ∧
      Equiv m ⟨[2, 2, 2, 2], [4, -38, -36, -76, 212, 182, 216, 203, 292, 490, 444, 788, 140, 206, 96, 203]⟩ :=
  conv_explicit_partial nv_A ⟨Int.add_zero, Int.zero_mul, Int.mul_zero⟩ nv_x nv_w (some nv_bias) [2, 1] [1, 2] [1, 1, 0, 0]
    rfl rfl (by intro b h; cases h; rfl) (by simp [Proofs.Pos, nv_x]) (by simp [Proofs.Pos, nv_w])
    (by decide) (by decide) (by decide) (by decide) (by decide) (by decide) (by decide) _ (by decide)

/-- the unguarded clause is false: a kernel of extent 1 with more than one channel is refused (known finding) -/
theorem conv_counterexample_kernel_extent_1 :
    convOp (⟨0, (· + ·), (· * ·), (· - ·)⟩ : Arith Int) {} ⟨[1, 2, 2, 2], [1, 2, 3, 4, 5, 6, 7, 8]⟩ ⟨[1, 2, 1, 1], [1, 1]⟩ none = .error .broadcast ∧
    (Spec.conv (⟨0, (· + ·), (· * ·), (· - ·)⟩ : Arith Int) "NOTSET" [] [] [] ⟨[1, 2, 2, 2], [1, 2, 3, 4, 5, 6, 7, 8]⟩ ⟨[1, 2, 1, 1], [1, 1]⟩ none).map (·.data) = some [6, 8, 10, 12] := by decide

/-- auto_pad = VALID is computed as SAME_UPPER (known finding, pinned by the unedited suite) -/
theorem conv_counterexample_valid :
    (convOp (⟨0, (· + ·), (· * ·), (· - ·)⟩ : Arith Int) { autoPad := "VALID" } ⟨[1, 1, 1, 3], [1, 2, 3]⟩ ⟨[1, 1, 1, 2], [1, 1]⟩ none).toOption.map (·.shape) ≠
    (Spec.conv (⟨0, (· + ·), (· * ·), (· - ·)⟩ : Arith Int) "VALID" [] [] [] ⟨[1, 1, 1, 3], [1, 2, 3]⟩ ⟨[1, 1, 1, 2], [1, 1]⟩ none).map (·.shape) := by decide

/-- ranks other than 3 and 4 are refused with an input error -/
theorem conv_refuses_rank (A : Arith α) (at0 : ConvAttrs) (x w : Tensor α) (bias : Option (Tensor α))
    (h : 4 < x.shape.length) : convOp A at0 x w bias = .error .inputInvalid :=
  Proofs.Conv.conv_refuses_rank A at0 x w bias h

-- non-vacuity: a rank-5 input
example : convOp nv_A {} ⟨[1, 1, 2, 2, 2], [1, 2, 3, 4, 5, 6, 7, 8]⟩ nv_w none = .error .inputInvalid :=
  conv_refuses_rank nv_A {} ⟨[1, 1, 2, 2, 2], [1, 2, 3, 4, 5, 6, 7, 8]⟩ nv_w none (by decide)

-- non-vacuity: a 2-D geometry with W > H, stride 2 on the width, asymmetric pads
example : (Spec.conv (⟨0, (· + ·), (· * ·), (· - ·)⟩ : Arith Int) "NOTSET" [1, 1] [1, 2] [0, 1, 0, 0]
    ⟨[1, 1, 2, 4], [1, 2, 3, 4, 5, 6, 7, 8]⟩ ⟨[1, 1, 2, 2], [1, 1, 1, 1]⟩ none).map (fun t => (t.shape, t.data)) = some ([1, 1, 1, 2], [6, 18]) := by decide

end Gonnx.C05
