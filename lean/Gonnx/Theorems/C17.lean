import Gonnx.Graph.Concurrent
import Gonnx.Proofs.Concurrent
/-
C17 — a loaded Model can be run from many goroutines at once.
Model: Gonnx/Graph/Concurrent.lean. PARTIAL: the Go memory model, gorgonia internals (sync.Pool
borrows, lazily initialised engine state) and protobuf lazy fields are not modelled; the premise
(`Disciplined`: a Run writes only objects it allocated itself) is C02's `HeaderPure` + `frame`,
validated operator by operator by the correspondence, and the race-detector runs search the real code.
-/
namespace Gonnx.C17
open Gonnx.Conc
variable {V : Type}

/-- **No data race in any interleaving**: under the discipline no two instructions of different
threads conflict — whatever the schedule. -/
theorem no_conflict (progs : List (List (Instr V))) (priv : Nat → Obj → Bool) (hd : Disciplined progs priv)
    (k l : Nat) (p q : List (Instr V)) (hk : progs[k]? = some p) (hl : progs[l]? = some q)
    (i j : Instr V) (hi : i ∈ p) (hj : j ∈ q) : ¬ Conflict k i l j :=
  Proofs.Concurrent.no_conflict progs priv hd k l p q hk hl i j hi hj

-- `hlen` is part of the fixed signature although the proof does not need it
set_option linter.unusedVariables false in
/-- **Each thread gets what it gets alone**: for every schedule (any interleaving of 2, 3, …, n
threads, complete or not), the registers of thread `k` and the objects it may read are, after the
part of its program that has run, exactly what running that part alone from the initial store gives. -/
theorem interleave_result (progs : List (List (Instr V))) (priv : Nat → Obj → Bool) (hd : Disciplined progs priv)
    (sched : Schedule) (rs0 : List (Regs V)) (σ0 : St V) (hlen : rs0.length = progs.length)
    (k : Nat) (p : List (Instr V)) (hk : progs[k]? = some p) (r0 : Regs V) (hr : rs0[k]? = some r0) :
    let fin := runSched sched progs rs0 σ0
    ∃ done rest, p = done ++ rest ∧ fin.1[k]? = some rest ∧
      fin.2.1[k]? = some (solo done r0 σ0).1 ∧
      ∀ o, (∀ l, l ≠ k → priv l o = false) → fin.2.2 o = (solo done r0 σ0).2 o :=
  Proofs.Concurrent.interleave_result progs priv hd sched rs0 σ0 k p hk r0 hr

-- `hlen` is part of the fixed signature although the proof does not need it
set_option linter.unusedVariables false in
/-- in particular, when the schedule completes every thread, thread `k`'s final registers (its
results) are those of running it alone -/
theorem complete_result (progs : List (List (Instr V))) (priv : Nat → Obj → Bool) (hd : Disciplined progs priv)
    (sched : Schedule) (rs0 : List (Regs V)) (σ0 : St V) (hlen : rs0.length = progs.length)
    (hc : Complete sched progs rs0 σ0)
    (k : Nat) (p : List (Instr V)) (hk : progs[k]? = some p) (r0 : Regs V) (hr : rs0[k]? = some r0) :
    (runSched sched progs rs0 σ0).2.1[k]? = some (solo p r0 σ0).1 :=
  Proofs.Concurrent.complete_result progs priv hd sched rs0 σ0 hc k p hk r0 hr

/-- shared objects (private to nobody) are never changed by anybody: loading further models or
running concurrently does not disturb what other threads read -/
theorem shared_unchanged (progs : List (List (Instr V))) (priv : Nat → Obj → Bool) (hd : Disciplined progs priv)
    (sched : Schedule) (rs0 : List (Regs V)) (σ0 : St V) (o : Obj) (ho : ∀ k, priv k o = false) :
    (runSched sched progs rs0 σ0).2.2 o = σ0 o :=
  Proofs.Concurrent.shared_unchanged progs priv hd sched rs0 σ0 o ho

/-- without the discipline (an operator that writes a shared weight: Conv's bias, the recurrent
initial state, ArgMax's input shape before the fix: commits) the result of a thread depends on the
schedule -/
theorem undisciplined_counterexample :
    let w : Instr Nat := .store 0 (fun _ => 7)          -- thread 0 writes the shared object 0
    let r : Instr Nat := .load 0                         -- thread 1 reads it
    let σ0 : St Nat := fun _ => 5
    (runSched [0, 1] [[w], [r]] [[], []] σ0).2.1 = [[], [7]] ∧
    (runSched [1, 0] [[w], [r]] [[], []] σ0).2.1 = [[], [5]] := by
  simp [runSched, stepI]

end Gonnx.C17
