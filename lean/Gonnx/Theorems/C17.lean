import Gonnx.Graph.Concurrent
import Gonnx.Proofs.Concurrent
/-
C17 — a loaded Model can be run from many goroutines at once.
Model: Gonnx/Graph/Concurrent.lean. PARTIAL: the Go memory model, gorgonia internals (sync.Pool
borrows, lazily initialised engine state) and protobuf lazy fields are not modelled; the premise
(`Disciplined`: a Run writes only objects it allocated itself) is C02's `HeaderPure` + `frame`,
validated operator by operator by the correspondence, and the race-detector runs search the real code.
-/
namespace Gonnx.C17
open Gonnx.Conc
variable {V : Type}

-- concrete instance shared by the non-vacuity examples below: three threads over the shared objects 0 and 1
-- (weights) and one private object each (10 + k); every thread reads shared objects, writes its private
-- object (thread 2 twice) and reads it back. `nv_disc` proves the discipline for these programs.
private def nv_sum : Regs Nat → Nat := fun r => r.foldl (· + ·) 0
private def nv_p0 : List (Instr Nat) := [.load 0, .load 1, .store 10 nv_sum, .load 10]
private def nv_p1 : List (Instr Nat) := [.load 1, .store 11 (fun r => 2 * nv_sum r), .load 11, .load 0]
private def nv_p2 : List (Instr Nat) := [.load 0, .store 12 (fun r => nv_sum r + 1), .store 12 (fun r => nv_sum r + 2), .load 12]
private def nv_progs : List (List (Instr Nat)) := [nv_p0, nv_p1, nv_p2]
private def nv_priv : Nat → Obj → Bool := fun (k o : Nat) => decide (o = 10 + k)
private def nv_σ : St Nat := fun o => 100 + o

private theorem nv_disc : Disciplined nv_progs nv_priv where
  writes_private := by
    intro k p h
    match k, h with
    | 0, h => cases h; decide
    | 1, h => cases h; decide
    | 2, h => cases h; decide
    | k + 3, h => simp [nv_progs] at h
  disjoint := by
    intro k l o hkl h
    have h' : @Eq Nat o (10 + k) := of_decide_eq_true h
    exact decide_eq_false (by omega)
  reads_ok := by
    intro k p h
    match k, h with
    | 0, h =>
      cases h
      intro o ho l hl
      have : @Eq Nat o 0 ∨ @Eq Nat o 1 ∨ @Eq Nat o 10 := by simpa [reads, nv_p0] using ho
      exact decide_eq_false (by omega)
    | 1, h =>
      cases h
      intro o ho l hl
      have : @Eq Nat o 1 ∨ @Eq Nat o 11 ∨ @Eq Nat o 0 := by simpa [reads, nv_p1] using ho
      exact decide_eq_false (by omega)
    | 2, h =>
      cases h
      intro o ho l hl
      have : @Eq Nat o 0 ∨ @Eq Nat o 12 := by simpa [reads, nv_p2] using ho
      exact decide_eq_false (by omega)
    | k + 3, h => simp [nv_progs] at h

/-- **No data race in any interleaving**: under the discipline no two instructions of different
threads conflict — whatever the schedule. -/
theorem no_conflict (progs : List (List (Instr V))) (priv : Nat → Obj → Bool) (hd : Disciplined progs priv)
    (k l : Nat) (p q : List (Instr V)) (hk : progs[k]? = some p) (hl : progs[l]? = some q)
    (i j : Instr V) (hi : i ∈ p) (hj : j ∈ q) : ¬ Conflict k i l j :=
  Proofs.Concurrent.no_conflict progs priv hd k l p q hk hl i j hi hj

-- non-vacuity: thread 0's write of its private object against thread 1's read of the shared object 0
example : ¬ Conflict 0 (.store 10 nv_sum : Instr Nat) 1 (.load 0) :=
  no_conflict nv_progs nv_priv nv_disc 0 1 nv_p0 nv_p1 rfl rfl _ _ (by simp [nv_p0]) (by simp [nv_p1])

-- `hlen` is part of the fixed signature although the proof does not need it
set_option linter.unusedVariables false in
/-- **Each thread gets what it gets alone**: for every schedule (any interleaving of 2, 3, …, n
threads, complete or not), the registers of thread `k` and the objects it may read are, after the
part of its program that has run, exactly what running that part alone from the initial store gives. -/
theorem interleave_result (progs : List (List (Instr V))) (priv : Nat → Obj → Bool) (hd : Disciplined progs priv)
    (sched : Schedule) (rs0 : List (Regs V)) (σ0 : St V) (hlen : rs0.length = progs.length)
    (k : Nat) (p : List (Instr V)) (hk : progs[k]? = some p) (r0 : Regs V) (hr : rs0[k]? = some r0) :
    let fin := runSched sched progs rs0 σ0
    ∃ done rest, p = done ++ rest ∧ fin.1[k]? = some rest ∧
      fin.2.1[k]? = some (solo done r0 σ0).1 ∧
      ∀ o, (∀ l, l ≠ k → priv l o = false) → fin.2.2 o = (solo done r0 σ0).2 o :=
  Proofs.Concurrent.interleave_result progs priv hd sched rs0 σ0 k p hk r0 hr

-- non-vacuity: an incomplete interleaving of the three threads, seen from thread 1
example :
    let fin := runSched [0, 1, 2, 1, 0, 2, 0, 1] nv_progs [[], [], []] nv_σ
    ∃ done rest, nv_p1 = done ++ rest ∧ fin.1[1]? = some rest ∧
      fin.2.1[1]? = some (solo done [] nv_σ).1 ∧
      ∀ o, (∀ l, l ≠ 1 → nv_priv l o = false) → fin.2.2 o = (solo done [] nv_σ).2 o :=
  interleave_result nv_progs nv_priv nv_disc [0, 1, 2, 1, 0, 2, 0, 1] [[], [], []] nv_σ rfl 1 nv_p1 rfl [] rfl

-- `hlen` is part of the fixed signature although the proof does not need it
set_option linter.unusedVariables false in
/-- in particular, when the schedule completes every thread, thread `k`'s final registers (its
results) are those of running it alone -/
theorem complete_result (progs : List (List (Instr V))) (priv : Nat → Obj → Bool) (hd : Disciplined progs priv)
    (sched : Schedule) (rs0 : List (Regs V)) (σ0 : St V) (hlen : rs0.length = progs.length)
    (hc : Complete sched progs rs0 σ0)
    (k : Nat) (p : List (Instr V)) (hk : progs[k]? = some p) (r0 : Regs V) (hr : rs0[k]? = some r0) :
    (runSched sched progs rs0 σ0).2.1[k]? = some (solo p r0 σ0).1 :=
  Proofs.Concurrent.complete_result progs priv hd sched rs0 σ0 hc k p hk r0 hr

-- non-vacuity: a complete interleaving (`Complete` holds by computation); thread 1 gets what it gets alone
example : (runSched [0, 1, 2, 1, 0, 2, 0, 1, 2, 2, 1, 0] nv_progs [[], [], []] nv_σ).2.1[1]? = some (solo nv_p1 [] nv_σ).1 :=
  complete_result nv_progs nv_priv nv_disc [0, 1, 2, 1, 0, 2, 0, 1, 2, 2, 1, 0] [[], [], []] nv_σ rfl rfl 1 nv_p1 rfl [] rfl
example : (solo nv_p1 [] nv_σ).1 = [101, 202, 100] := by decide

/-- shared objects (private to nobody) are never changed by anybody: loading further models or
running concurrently does not disturb what other threads read -/
theorem shared_unchanged (progs : List (List (Instr V))) (priv : Nat → Obj → Bool) (hd : Disciplined progs priv)
    (sched : Schedule) (rs0 : List (Regs V)) (σ0 : St V) (o : Obj) (ho : ∀ k, priv k o = false) :
    (runSched sched progs rs0 σ0).2.2 o = σ0 o :=
  Proofs.Concurrent.shared_unchanged progs priv hd sched rs0 σ0 o ho

-- non-vacuity: the shared object 1 is private to nobody
example : (runSched [0, 1, 2, 1, 0, 2, 0, 1] nv_progs [[], [], []] nv_σ).2.2 1 = nv_σ 1 :=
  shared_unchanged nv_progs nv_priv nv_disc [0, 1, 2, 1, 0, 2, 0, 1] [[], [], []] nv_σ 1
    (fun k => decide_eq_false (by omega))

/-- without the discipline (an operator that writes a shared weight: Conv's bias, the recurrent
initial state, ArgMax's input shape before the fix: commits) the result of a thread depends on the
schedule -/
theorem undisciplined_counterexample :
    let w : Instr Nat := .store 0 (fun _ => 7)          -- thread 0 writes the shared object 0
    let r : Instr Nat := .load 0                         -- thread 1 reads it
    let σ0 : St Nat := fun _ => 5
    (runSched [0, 1] [[w], [r]] [[], []] σ0).2.1 = [[], [7]] ∧
    (runSched [1, 0] [[w], [r]] [[], []] σ0).2.1 = [[], [5]] := by
  simp [runSched, stepI]

end Gonnx.C17
