import Gonnx.Theorems.C16b
import Gonnx.Proofs.Batch3
/-
C16, third part — an elementwise operator whose TWO operands carry the batch (a sample and its context,
an image and its mask): each sample of the result is the operator applied to that sample of either operand,
whatever extents of 1 are stretched INSIDE the sample ((N,1,C) against (N,T,C), (N,1,H,W) against (N,C,H,W)).
Proof: Gonnx/Proofs/Batch3.lean.
-/
namespace Gonnx.C16
open Gonnx Gonnx.Proofs
variable {α β : Type} [Inhabited α] [Inhabited β]

theorem binary_both_batched_pointwise (f : α → α → β) :
    ∀ X Z Y, Good X → Good Z → X.shape.length = Z.shape.length → 0 < X.shape.length →
      dim X.shape 0 = dim Z.shape 0 → applyBinary f .multi X Z = .ok Y →
      Good Y ∧ 0 < Y.shape.length ∧ dim Y.shape 0 = dim X.shape 0 ∧
      ∀ n, n < dim X.shape 0 →
        applyBinary f .multi (takeBatch 0 n X) (takeBatch 0 n Z) = .ok (takeBatch 0 n Y) :=
  Proofs.Batch3.binary_both_batched_pointwise f

-- non-vacuity: x (2,2,2) plus a per-sample context z (2,1,2); sample 1 alone
private def nv3_X : Tensor Int := ⟨[2, 2, 2], [1, 2, 3, 4, 5, 6, 7, 8]⟩
private def nv3_Z : Tensor Int := ⟨[2, 1, 2], [10, 20, 30, 40]⟩
private def nv3_Y : Tensor Int := ⟨[2, 2, 2], [11, 22, 13, 24, 35, 46, 37, 48]⟩
example : applyBinary (fun a b : Int => a + b) .multi (takeBatch 0 1 nv3_X) (takeBatch 0 1 nv3_Z) = .ok (takeBatch 0 1 nv3_Y) :=
  (binary_both_batched_pointwise (fun a b : Int => a + b) nv3_X nv3_Z nv3_Y (And.intro rfl (by decide)) (And.intro rfl (by decide))
    rfl (by decide) (by decide) (by decide)).2.2.2 1 (by decide)

end Gonnx.C16
