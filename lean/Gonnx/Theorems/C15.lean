import Gonnx.Gate
import Gonnx.Generated.Registry
import Gonnx.Spec.Arity
import Gonnx.Spec.Types
import Gonnx.Spec.Defaults
/-
C15 — every operator's input gate enforces arity and element types before computing.

The gate model (`Gonnx/Gate.lean`) mirrors ops/validate_inputs.go; the descriptor table
`Generated.registry` is regenerated from the running code on every run, so the `decide`
obligations below are re-proved against what the code says now.
-/
namespace Gonnx.C15
open Gonnx

/-- the constraint list covers every position the gate may look at -/
def WFdesc (d : OpDesc) : Prop := d.max ≤ d.constraints.length

instance (d : OpDesc) : Decidable (WFdesc d) := inferInstanceAs (Decidable (_ ≤ _))

/-- element type `t` is allowed at position `i` (an absent input is always allowed) -/
def typeOk (cons : List (List DType)) (i : Nat) : Option DType → Bool
  | none => true
  | some t => (cons.getD i []).contains t

/-- all entries of `ins`, sitting at positions `i, i+1, …`, are allowed -/
def allOkFrom (cons : List (List DType)) : Nat → List (Option DType) → Bool
  | _, [] => true
  | i, t :: rest => typeOk cons i t && allOkFrom cons (i+1) rest

/-- the decision rule of the property, as a function -/
def gateRule (d : OpDesc) (ins : List (Option DType)) : Res (List (Option DType)) :=
  if ins.length < d.min ∨ d.max < ins.length then .error .inputCount
  else if allOkFrom d.constraints 0 ins then .ok (ins ++ List.replicate (d.max - ins.length) none)
  else .error .inputType

-- concrete instance shared by the non-vacuity examples below: the GRU descriptor (3 required and 3
-- optional inputs, as in the registry) and a call that leaves one optional input empty and omits the last
private def nv_gru : OpDesc :=
  { name := "GRU", str := "gru operator", min := 3, max := 6,
    constraints := [[.f32, .f64], [.f32, .f64], [.f32, .f64], [.f32, .f64], [.i32], [.f32, .f64]] }
private def nv_ins : List (Option DType) := [some .f32, some .f64, some .f32, none, some .i32]

theorem checkTypesFrom_spec (cons : List (List DType)) (i : Nat) (ins : List (Option DType))
    (h : i + ins.length ≤ cons.length) :
    checkTypesFrom cons i ins = if allOkFrom cons i ins then .ok () else .error .inputType := by
  induction ins generalizing i with
  | nil => simp [checkTypesFrom, allOkFrom]
  | cons t rest ih =>
    simp only [List.length_cons] at h
    cases t with
    | none =>
      simp only [checkTypesFrom, allOkFrom, typeOk, Bool.true_and]
      exact ih (i+1) (by omega)
    | some t =>
      have hi : i < cons.length := by omega
      have hget : cons.getD i [] = cons[i] := by simp [List.getD, List.getElem?_eq_getElem hi]
      simp only [checkTypesFrom, allOkFrom, typeOk, hget, List.getElem?_eq_getElem hi]
      by_cases hc : cons[i].contains t = true
      · simp only [hc, if_true, Bool.true_and]
        exact ih (i+1) (by omega)
      · simp [hc]

-- non-vacuity: five entries checked against six constraint lists
example : checkTypesFrom nv_gru.constraints 0 nv_ins =
    if allOkFrom nv_gru.constraints 0 nv_ins then .ok () else .error .inputType :=
  checkTypesFrom_spec nv_gru.constraints 0 nv_ins (by decide)

theorem allOkFrom_replicate_none (cons : List (List DType)) (i k : Nat) :
    allOkFrom cons i (List.replicate k none) = true := by
  induction k generalizing i with
  | zero => simp [allOkFrom]
  | succ k ih => simp [List.replicate_succ, allOkFrom, typeOk, ih]

theorem allOkFrom_append_none (cons : List (List DType)) (i : Nat) (ins : List (Option DType)) (k : Nat) :
    allOkFrom cons i (ins ++ List.replicate k none) = allOkFrom cons i ins := by
  induction ins generalizing i with
  | nil => simp [allOkFrom, allOkFrom_replicate_none]
  | cons t rest ih => simp [allOkFrom, ih]

/-- **Gate theorem.** For a well-formed descriptor the gate is exactly the decision rule:
wrong count ⇒ input-count error; a disallowed element type ⇒ input-type error; otherwise the
supplied list, unchanged and in order, padded with absent entries up to the maximum. -/
theorem gate_spec (d : OpDesc) (h : WFdesc d) (ins : List (Option DType)) :
    validateInputs d ins = gateRule d ins := by
  unfold WFdesc at h
  unfold validateInputs gateRule checkNInputs
  by_cases hmm : d.min = d.max
  · by_cases hn : ins.length = d.max
    · have h2 : ¬ (ins.length < d.min ∨ d.max < ins.length) := by omega
      simp only [hmm, hn, if_true, ne_eq, not_true_eq_false, if_false, h2, padInputs, checkInputTypes,
        Nat.sub_self, List.replicate_zero, List.append_nil, Nat.lt_irrefl, or_self]
      rw [checkTypesFrom_spec _ _ _ (by omega)]
      by_cases hok : allOkFrom d.constraints 0 ins = true <;> simp [hok]
    · have h2 : (ins.length < d.min ∨ d.max < ins.length) := by omega
      simp only [hmm, if_true, ne_eq, hn, not_false_eq_true, h2]
      have : ins.length < d.max ∨ d.max < ins.length := by omega
      simp [this]
  · by_cases hn : ins.length < d.min ∨ ins.length > d.max
    · have h2 : (ins.length < d.min ∨ d.max < ins.length) := by omega
      simp [hmm, hn, h2]
    · have h2 : ¬ (ins.length < d.min ∨ d.max < ins.length) := by omega
      simp only [hmm, hn, h2, if_false, padInputs, checkInputTypes]
      rw [checkTypesFrom_spec _ _ _ (by simp; omega), allOkFrom_append_none]
      by_cases hok : allOkFrom d.constraints 0 ins = true <;> simp [hok]

-- non-vacuity: the GRU descriptor is well-formed; the call is accepted and padded to six entries
example : validateInputs nv_gru nv_ins = gateRule nv_gru nv_ins :=
  gate_spec nv_gru (by decide) nv_ins
example : gateRule nv_gru nv_ins = .ok [some .f32, some .f64, some .f32, none, some .i32, none] := by decide

/-- the gate of a well-formed descriptor never panics -/
theorem gate_no_panic (d : OpDesc) (h : WFdesc d) (ins : List (Option DType)) :
    validateInputs d ins ≠ .error .panic := by
  rw [gate_spec d h]; unfold gateRule
  split
  · simp
  · split <;> simp

-- non-vacuity
example : validateInputs nv_gru nv_ins ≠ .error .panic :=
  gate_no_panic nv_gru (by decide) nv_ins

/-- every error of the gate is an input error -/
theorem gate_error_is_input_error (d : OpDesc) (h : WFdesc d) (ins : List (Option DType)) (e : Err)
    (he : validateInputs d ins = .error e) : e = .inputCount ∨ e = .inputType := by
  rw [gate_spec d h] at he; unfold gateRule at he
  split at he
  · left; cases he; rfl
  · split at he
    · cases he
    · right; cases he; rfl

-- non-vacuity: two inputs where three are required; int64 where int32 is required
example : Err.inputCount = .inputCount ∨ Err.inputCount = .inputType :=
  gate_error_is_input_error nv_gru (by decide) [some .f32, some .f32] .inputCount (by decide)
example : Err.inputType = .inputCount ∨ Err.inputType = .inputType :=
  gate_error_is_input_error nv_gru (by decide) [some .f32, some .f32, some .f32, none, some .i64] .inputType (by decide)

/-- accepted ⇒ the supplied entries are passed through in order and the rest is absent -/
theorem gate_passthrough (d : OpDesc) (h : WFdesc d) (ins out : List (Option DType))
    (hok : validateInputs d ins = .ok out) :
    out = ins ++ List.replicate (d.max - ins.length) none ∧ d.min ≤ ins.length ∧ ins.length ≤ d.max := by
  rw [gate_spec d h] at hok; unfold gateRule at hok
  split at hok
  · cases hok
  · rename_i hc
    split at hok
    · cases hok; exact ⟨rfl, by omega, by omega⟩
    · cases hok

-- non-vacuity: the accepted call
example : [some .f32, some .f64, some .f32, none, some .i32, none] = nv_ins ++ List.replicate (nv_gru.max - nv_ins.length) none ∧
    nv_gru.min ≤ nv_ins.length ∧ nv_ins.length ≤ nv_gru.max :=
  gate_passthrough nv_gru (by decide) nv_ins _ (by decide)

/-- Concat rebuilds its descriptor from the call; it is well-formed for every input count -/
theorem concat_wf (n : Nat) : WFdesc (concatDesc n) := by
  simp [WFdesc, concatDesc]

/-- **Obligation over the regenerated table:** every registered operator's descriptor is well-formed
(Concat's registered row is the not-yet-validated one; its real descriptor is `concatDesc`). -/
theorem registry_wf : ∀ d ∈ Generated.registry, d.name ≠ "Concat" → WFdesc d := by
  decide

-- non-vacuity of the bounded quantifiers of the registry obligations (`registry_wf`, `registry_arity_onnx`,
-- `registry_types_pinned`, `arity_table_registered`): the tables they range over are not empty
example : 2 ≤ (Generated.registry.filter (fun d => d.name ≠ "Concat")).length ∧ 2 ≤ Spec.onnxArity.length := by decide

/-- the reflected Concat descriptors for input counts 0…8 are the modelled ones -/
theorem concat_rows_eq : Generated.concatRows = (List.range 9).map concatDesc := by
  decide

/-- **Obligation over the regenerated table:** every registered operator declares exactly the ONNX
opset-13 arity (minimum = required inputs, maximum = all inputs of the schema) written down in
`Spec/Arity.lean` - so "shorter than the operator's minimum / longer than its maximum" in
`gate_registry` means shorter / longer than ONNX allows, and a required input can never reach Apply absent -/
theorem registry_arity_onnx :
    ∀ d ∈ Generated.registry, d.name ≠ "Concat" → Spec.arityOf d.name = some (d.min, d.max) := by
  decide

/-- **Obligation over the regenerated table:** every registered operator admits, at every input position,
exactly the element types written down in `Spec/Types.lean` -/
theorem registry_types_pinned :
    ∀ d ∈ Generated.registry, d.name ≠ "Concat" → Spec.typesOf d.name = some d.constraints := by
  decide

/-- **Obligation over the regenerated table:** the attribute state of a freshly looked-up operator (the
defaults a node without attributes runs with) is the one written down in `Spec/Defaults.lean` -/
theorem registry_defaults_pinned : Generated.defaults = Spec.defaultState := by
  decide

/-- every operator of the table is registered -/
theorem arity_table_registered : ∀ e ∈ Spec.onnxArity, e.1 ∈ Generated.registry.map (·.name) := by
  decide

/-- registered names are pairwise distinct, so `lookup` finds *the* operator of that name -/
theorem registry_names_nodup : (Generated.registry.map (·.name)).Nodup := by
  decide

/-- any name outside the opset yields the unsupported-operator error (and nothing else) -/
theorem lookup_unknown (reg : List OpDesc) (name : String) (h : name ∉ reg.map (·.name)) :
    lookup reg name = .error .unsupportedOp ∧ ∀ ins, gate reg name ins = .error .unsupportedOp := by
  have hf : reg.find? (·.name = name) = none := by
    rw [List.find?_eq_none]
    intro d hd hn
    apply h
    simp only [List.mem_map]
    exact ⟨d, hd, by simpa using hn⟩
  simp [lookup, gate, hf]

-- non-vacuity: "Gelu" is not in the running registry
example : lookup Generated.registry "Gelu" = .error .unsupportedOp ∧ ∀ ins, gate Generated.registry "Gelu" ins = .error .unsupportedOp :=
  lookup_unknown Generated.registry "Gelu" (by decide)

/-- every name of the opset resolves, to the descriptor carrying that name -/
theorem lookup_known (reg : List OpDesc) (name : String) (h : name ∈ reg.map (·.name)) :
    ∃ d, lookup reg name = .ok d ∧ d.name = name ∧ d ∈ reg := by
  simp only [List.mem_map] at h
  obtain ⟨d, hd, hn⟩ := h
  cases hf : reg.find? (·.name = name) with
  | none =>
    rw [List.find?_eq_none] at hf
    exact absurd (by simpa using hn) (hf d hd)
  | some d' =>
    refine ⟨d', by simp [lookup, hf], ?_, List.mem_of_find?_eq_some hf⟩
    simpa using List.find?_some hf

-- non-vacuity: "GRU" is
example : ∃ d, lookup Generated.registry "GRU" = .ok d ∧ d.name = "GRU" ∧ d ∈ Generated.registry :=
  lookup_known Generated.registry "GRU" (by decide)

/-- **C15 for the running registry**: for every registered operator and every input list the gate
is the decision rule, never a panic. (PRelu adds its slope/x type equality after the generic gate.) -/
theorem gate_registry (name : String) (ins : List (Option DType))
    (hc : name ≠ "Concat") (hp : name ≠ "PRelu") (d : OpDesc) (hd : lookup Generated.registry name = .ok d) :
    gate Generated.registry name ins = gateRule d ins := by
  unfold lookup at hd
  cases hf : Generated.registry.find? (·.name = name) with
  | none => simp [hf] at hd
  | some d' =>
    simp only [hf, Except.ok.injEq] at hd; subst hd
    have hmem := List.mem_of_find?_eq_some hf
    have hname : d'.name = name := by simpa using List.find?_some hf
    simp only [gate, hf, hc, hp, if_false]
    exact gate_spec d' (registry_wf d' hmem (by rw [hname]; exact hc)) ins

-- non-vacuity: GRU in the running registry, with the call that uses the optional inputs
example : gate Generated.registry "GRU" nv_ins = gateRule nv_gru nv_ins :=
  gate_registry "GRU" nv_ins (by decide) (by decide) nv_gru (by decide)

theorem gate_concat (ins : List (Option DType)) :
    gate Generated.registry "Concat" ins = gateRule (concatDesc ins.length) ins := by
  have hs : (Generated.registry.find? (·.name = "Concat")).isSome = true := by decide
  obtain ⟨d, hd⟩ := Option.isSome_iff_exists.mp hs
  simp only [gate, hd, if_true]
  exact gate_spec _ (concat_wf _) ins

/-- PRelu: a list accepted by the generic gate with both (required) tensors present is accepted
iff slope and x have the same element type; otherwise an invalid-tensor error — never a panic. -/
theorem prelu_no_panic (d : OpDesc) (h : WFdesc d) (hmin : d.min = 2) (hmax : d.max = 2)
    (x s : DType) : preluValidate d [some x, some s] ≠ .error .panic := by
  unfold preluValidate
  rw [gate_spec d h]; unfold gateRule
  simp only [List.length_cons, List.length_nil, hmin, hmax]
  by_cases hok : allOkFrom d.constraints 0 [some x, some s] = true
  · by_cases hxs : x = s
    · subst hxs; simp [hok]
    · simp [hok, hxs]
  · simp [hok]

-- non-vacuity: the PRelu descriptor (two required inputs), float32 x with an int32 slope
example : preluValidate { name := "PRelu", min := 2, max := 2, constraints := [[.i32, .f32], [.i32, .f32]] } [some .f32, some .i32] ≠ .error .panic :=
  prelu_no_panic _ (by decide) rfl rfl .f32 .i32

-- non-vacuity: the hypotheses are met by a real row, and the rule computes on a concrete list
example : WFdesc Generated.row3 ∧
    validateInputs Generated.row3 [some .f32, some .f32] = .ok [some .f32, some .f32] ∧
    validateInputs Generated.row3 [some .f32] = .error .inputCount ∧
    validateInputs Generated.row3 [some .f32, some .bool] = .error .inputType := by decide

end Gonnx.C15
