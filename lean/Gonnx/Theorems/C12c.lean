import Gonnx.Graph.NewModel
import Gonnx.Theorems.C12
/-
C12c — the initializer LIST: `Params` succeeds exactly when every initializer decodes, delivers the
per-initializer decodings in order, and otherwise reports the error of the FIRST initializer that does not
decode - wherever it stands in the list and whatever follows it. Lifted to `NewModel`.
-/
namespace Gonnx.C12
open Gonnx

/-- `Params` succeeds iff every initializer decodes, and then holds exactly the decodings, in order. -/
theorem decodeParams_ok_iff (l : List TensorProtoM) (ds : List Decoded) :
    decodeParams l = .ok ds ↔ l.map decode = ds.map .ok := by
  induction l generalizing ds with
  | nil =>
    cases ds <;> simp [decodeParams]
  | cons tp rest ih =>
    unfold decodeParams
    cases h : decode tp with
    | error e =>
      cases ds <;> simp [h]
    | ok d =>
      cases h2 : decodeParams rest with
      | error e =>
        cases ds with
        | nil => simp [h]
        | cons d' ds' =>
          simp only [List.map_cons, h, List.cons.injEq, reduceCtorEq, false_iff, not_and]
          intro _ hc
          have := (ih ds').2 hc
          rw [h2] at this
          cases this
      | ok ds0 =>
        cases ds with
        | nil => simp [h]
        | cons d' ds' =>
          have ih' := ih ds'
          rw [h2] at ih'
          simp only [List.map_cons, h, List.cons.injEq, Except.ok.injEq]
          constructor
          · rintro ⟨rfl, rfl⟩
            exact ⟨rfl, ih'.1 rfl⟩
          · rintro ⟨hd, hr⟩
            refine ⟨hd, ?_⟩
            have := ih'.2 hr
            cases this
            rfl

/-- One initializer that does not decode - at ANY position, whatever stands before and behind it - makes
`Params` fail: it is never skipped, defaulted or left to the outcome of a later initializer. -/
theorem decodeParams_error_of_mem (l : List TensorProtoM) (tp : TensorProtoM) (e : Err)
    (hm : tp ∈ l) (hd : decode tp = .error e) : ∃ e', decodeParams l = .error e' := by
  cases h : decodeParams l with
  | error e' => exact ⟨e', rfl⟩
  | ok ds =>
    exfalso
    have hmap := (decodeParams_ok_iff l ds).1 h
    have : decode tp ∈ l.map decode := List.mem_map_of_mem hm
    rw [hmap, hd] at this
    simp at this

/-- … and the error reported is the one of the FIRST initializer that does not decode. -/
theorem decodeParams_first_error (pre : List TensorProtoM) (tp : TensorProtoM) (post : List TensorProtoM) (e : Err)
    (hpre : ∀ q ∈ pre, ∃ d, decode q = .ok d) (hd : decode tp = .error e) :
    decodeParams (pre ++ tp :: post) = .error e := by
  induction pre with
  | nil => simp [decodeParams, hd]
  | cons q qs ih =>
    obtain ⟨d, hq⟩ := hpre q (by simp)
    have := ih (fun q' hq' => hpre q' (by simp [hq']))
    simp [decodeParams, hq, this]

/-- Lifted to loading: a model whose graph holds an initializer that does not decode is refused, whatever
its opset imports and its other initializers are. -/
theorem newModel_error_of_bad_initializer (supported : List Int) (mp : ModelProtoM) (tp : TensorProtoM) (e : Err)
    (hg : mp.hasGraph = true) (hm : tp ∈ mp.initializers) (hd : decode tp = .error e) :
    ∃ e', newModel supported mp = .error e' := by
  obtain ⟨e', he⟩ := decodeParams_error_of_mem mp.initializers tp e hm hd
  exact ⟨e', by simp [newModel, hg, he]⟩

-- non-vacuity: three initializers, the middle one with 3 floats for dims [2]; the last one is well-formed
private def nv_good1 : TensorProtoM := { dataType := 1, dims := [2], floatData := [1065353216, 0] }
private def nv_bad : TensorProtoM := { dataType := 1, dims := [2], floatData := [1, 2, 3] }
private def nv_good2 : TensorProtoM := { dataType := 7, dims := [1], int64Data := [4] }
example : decode nv_bad = .error .shape := by decide
example : decode nv_good2 = .ok ⟨.i64, [1], [4]⟩ := by decide
example : ∃ e', newModel [13] { initializers := [nv_good1, nv_bad, nv_good2], opsetVersions := [13] } = .error e' :=
  newModel_error_of_bad_initializer [13] _ nv_bad .shape rfl (by simp) (by decide)
example : decodeParams [nv_good1, nv_good2] = .ok [⟨.f32, [2], [1065353216, 0]⟩, ⟨.i64, [1], [4]⟩] := by decide

end Gonnx.C12

