import Gonnx.Ops.Reduce
import Mathlib.Analysis.SpecialFunctions.Log.Basic
/-
C09 (Softmax / LogSoftmax over the reals). `Gonnx.softmaxLaneG` / `logSoftmaxLaneG` are gorgonia's lane
kernels, generic in the scalar operations; the driver runs them on IEEE doubles (`Drv.floatLane`).
Here they are instantiated with ℝ: for EVERY anchor the running maximum is started from (the lane's own
first element, or - gorgonia's last-axis kernel - the first element of the whole tensor) the kernel
computes the ONNX value exp(x_i) / Σ_j exp(x_j): over the reals the shift cancels. The float oracle of
the check (`softmax_props` in checklib/judge.py: every slice sums to 1, all values in [0, 1], order
preserved; LogSoftmax ≤ 0 and exp of it sums to 1) is what these theorems prove of the real value.
What is NOT proved: anything about rounding, overflow or underflow of the float kernel (the recorded
finding "first element far from the lane maximum" lives exactly there).
-/
namespace Gonnx.C09b
open Gonnx

/-- the scalar operations over ℝ -/
noncomputable def realLane : LaneArith ℝ :=
  { exp := Real.exp, log := Real.log, add := (· + ·), sub := (· - ·), mul := (· * ·), div := (· / ·),
    zero := 0, one := 1, gt := fun a b => decide (a > b) }

/-- ONNX Softmax of one lane -/
noncomputable def softmaxSpec (l : List ℝ) : List ℝ := l.map fun x => Real.exp x / (l.map Real.exp).sum

/-- ONNX LogSoftmax of one lane -/
noncomputable def logSoftmaxSpec (l : List ℝ) : List ℝ := l.map fun x => x - Real.log (l.map Real.exp).sum

private theorem foldl_add_acc (l : List ℝ) (a : ℝ) :
    l.foldl (fun x y => x + y) a = a + l.sum := by
  induction l generalizing a with
  | nil => simp
  | cons h t ih => simp [List.foldl_cons, ih, add_assoc]

private theorem foldl_add_zero (l : List ℝ) : l.foldl (fun x y => x + y) 0 = l.sum := by
  rw [foldl_add_acc]; simp

private theorem sum_map_div_const (f : ℝ → ℝ) (c : ℝ) (l : List ℝ) :
    (l.map fun x => f x / c).sum = (l.map f).sum / c := by
  induction l with
  | nil => simp
  | cons h t ih => simp [add_div, ih]

private theorem sum_exp_shift (m : ℝ) (l : List ℝ) :
    (l.map fun x => Real.exp (x - m)).sum = (l.map Real.exp).sum / Real.exp m := by
  rw [← sum_map_div_const]
  simp only [Real.exp_sub]

private theorem sum_exp_nonneg (l : List ℝ) : 0 ≤ (l.map Real.exp).sum := by
  apply List.sum_nonneg
  intro y hy
  rcases List.mem_map.1 hy with ⟨x, _, rfl⟩
  exact (Real.exp_pos x).le

private theorem sum_exp_pos (l : List ℝ) (hl : l ≠ []) : 0 < (l.map Real.exp).sum := by
  cases l with
  | nil => exact absurd rfl hl
  | cons h t =>
    simp only [List.map_cons, List.sum_cons]
    have := sum_exp_nonneg t
    have := Real.exp_pos h
    linarith

private theorem exp_le_sum_exp (l : List ℝ) (x : ℝ) (hx : x ∈ l) :
    Real.exp x ≤ (l.map Real.exp).sum := by
  induction l with
  | nil => cases hx
  | cons h t ih =>
    simp only [List.map_cons, List.sum_cons]
    rcases List.mem_cons.1 hx with rfl | hx
    · have := sum_exp_nonneg t; linarith
    · have := ih hx; have := Real.exp_pos h; linarith

/-- **the kernel computes Softmax whatever the anchor** -/
theorem softmaxLane_eq_spec (anchor : ℝ) (l : List ℝ) : softmaxLaneG realLane anchor l = softmaxSpec l := by
  simp only [softmaxLaneG, realLane, softmaxSpec]
  generalize List.foldl _ anchor l.tail = m
  rw [List.map_map, foldl_add_zero, sum_exp_shift]
  apply List.map_congr_left
  intro x hx
  have hl : l ≠ [] := List.ne_nil_of_mem hx
  have hS := sum_exp_pos l hl
  have hm := Real.exp_pos m
  simp only [Function.comp, Real.exp_sub]
  field_simp

/-- **the kernel computes LogSoftmax whatever the anchor** (non-empty lane) -/
theorem logSoftmaxLane_eq_spec (anchor : ℝ) (l : List ℝ) (hl : l ≠ []) :
    logSoftmaxLaneG realLane anchor l = logSoftmaxSpec l := by
  simp only [logSoftmaxLaneG, realLane, logSoftmaxSpec]
  generalize List.foldl _ anchor l.tail = m
  rw [foldl_add_zero, sum_exp_shift]
  have hS := sum_exp_pos l hl
  have hm := Real.exp_pos m
  rw [Real.log_div hS.ne' hm.ne', Real.log_exp]
  apply List.map_congr_left
  intro x _
  ring

/-- every slice sums to 1 -/
theorem softmaxSpec_sum (l : List ℝ) (hl : l ≠ []) : (softmaxSpec l).sum = 1 := by
  simp only [softmaxSpec]
  rw [sum_map_div_const]
  exact div_self (sum_exp_pos l hl).ne'

/-- all values lie in (0, 1] -/
theorem softmaxSpec_range (l : List ℝ) : ∀ y ∈ softmaxSpec l, 0 < y ∧ y ≤ 1 := by
  intro y hy
  simp only [softmaxSpec] at hy
  rcases List.mem_map.1 hy with ⟨x, hx, rfl⟩
  have hS := sum_exp_pos l (List.ne_nil_of_mem hx)
  exact ⟨div_pos (Real.exp_pos x) hS, (div_le_one hS).2 (exp_le_sum_exp l x hx)⟩

/-- Softmax preserves the order of the lane (so ArgMax ∘ Softmax = ArgMax) -/
theorem softmaxSpec_mono (l : List ℝ) (i j : Nat) (hi : i < l.length) (hj : j < l.length) (h : l[i] ≤ l[j]) :
    (softmaxSpec l).getD i 0 ≤ (softmaxSpec l).getD j 0 := by
  have hi' : i < (softmaxSpec l).length := by simpa [softmaxSpec] using hi
  have hj' : j < (softmaxSpec l).length := by simpa [softmaxSpec] using hj
  rw [List.getD_eq_getElem?_getD, List.getD_eq_getElem?_getD, List.getElem?_eq_getElem hi',
    List.getElem?_eq_getElem hj']
  simp only [Option.getD_some, softmaxSpec, List.getElem_map]
  exact div_le_div_of_nonneg_right (Real.exp_le_exp.2 h) (sum_exp_nonneg l)

/-- shifting the whole lane does not change Softmax -/
theorem softmaxSpec_shift (c : ℝ) (l : List ℝ) : softmaxSpec (l.map (· - c)) = softmaxSpec l := by
  simp only [softmaxSpec, List.map_map]
  have hsum : (l.map (Real.exp ∘ fun x => x - c)).sum = (l.map Real.exp).sum / Real.exp c :=
    sum_exp_shift c l
  rw [hsum]
  apply List.map_congr_left
  intro x hx
  have hS := sum_exp_pos l (List.ne_nil_of_mem hx)
  have hc := Real.exp_pos c
  simp only [Function.comp, Real.exp_sub]
  field_simp

/-- LogSoftmax = log ∘ Softmax -/
theorem logSoftmaxSpec_eq_log_softmax (l : List ℝ) (hl : l ≠ []) : logSoftmaxSpec l = (softmaxSpec l).map Real.log := by
  simp only [logSoftmaxSpec, softmaxSpec, List.map_map]
  have hS := sum_exp_pos l hl
  apply List.map_congr_left
  intro x _
  simp only [Function.comp]
  rw [Real.log_div (Real.exp_pos x).ne' hS.ne', Real.log_exp]

/-- LogSoftmax is never positive -/
theorem logSoftmaxSpec_nonpos (l : List ℝ) : ∀ y ∈ logSoftmaxSpec l, y ≤ 0 := by
  intro y hy
  simp only [logSoftmaxSpec] at hy
  rcases List.mem_map.1 hy with ⟨x, hx, rfl⟩
  have hS := sum_exp_pos l (List.ne_nil_of_mem hx)
  have := (Real.le_log_iff_exp_le hS).2 (exp_le_sum_exp l x hx)
  linarith

/-- exp of LogSoftmax sums to 1 -/
theorem logSoftmaxSpec_exp_sum (l : List ℝ) (hl : l ≠ []) : ((logSoftmaxSpec l).map Real.exp).sum = 1 := by
  simp only [logSoftmaxSpec, List.map_map]
  have hS := sum_exp_pos l hl
  have hsum : (l.map (Real.exp ∘ fun x => x - Real.log (l.map Real.exp).sum)).sum
      = (l.map Real.exp).sum / Real.exp (Real.log (l.map Real.exp).sum) :=
    sum_exp_shift _ l
  rw [hsum, Real.exp_log hS]
  exact div_self hS.ne'

-- non-vacuity: a two-element lane
example : (softmaxSpec [0, 0]).sum = 1 := softmaxSpec_sum [0, 0] (by simp)
example : softmaxLaneG realLane 5 [1, 2, 3] = softmaxSpec [1, 2, 3] := softmaxLane_eq_spec 5 [1, 2, 3]

end Gonnx.C09b
