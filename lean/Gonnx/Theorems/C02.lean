import Gonnx.Proofs.Effects
/-
C02 — Run is history-independent and never modifies caller tensors or weights.
Model: Gonnx/Graph/Effects.lean (Run over a store of objects with identity, operators described by
their effects). The definitions `semV`, `runV`, `Valid`, `valuesOf`, `storeBefore` (namespace
`Gonnx.C02`) and all helper lemmas live in Gonnx/Proofs/Effects.lean.
The premise `HeaderPure sem` (no operator writes to an input object) is what the
operator-level correspondence checks on every generated input of every operator (input snapshots
before / after `Apply` against the model's effect list), and what the `fix:` commits 6629728,
62a7a01, 2255909, 2bd0954 established for Conv, RNN/GRU, LSTM and ArgMax.
-/
namespace Gonnx.C02
open Gonnx Gonnx.Proofs.Effects
variable {V : Type}

-- concrete instance shared by the non-vacuity examples below: two nodes (the second returns its first
-- input as `y` — an aliased result — and a fresh `z`), a write-free semantics, a store of three objects
private def nv_sem : Nat → List (Option Nat) → Res (OpEff Nat) := fun i vals =>
  let s := (vals.map (·.getD 0)).foldl (· + ·) 0
  if i = 0 then .ok { outs := [.fresh s], writes := [] } else .ok { outs := [.alias 0, .fresh (s + 1)], writes := [] }
private theorem nv_pure : HeaderPure nv_sem := by
  intro i vals eff h
  unfold nv_sem at h
  split at h <;> (cases h; rfl)
private def nv_nodes : List GNode := [⟨["x", "w"], ["a"]⟩, ⟨["a", "x"], ["y", "z"]⟩]
private def nv_σ : Store Nat := ⟨[5, 7, 9]⟩

/-- **Frame.** If no operator writes to its inputs, a Run — successful or failed — leaves every
object that existed before it exactly as it was: the caller's tensors can be passed again, the
weights are untouched. -/
theorem frame (sem : Nat → List (Option V) → Res (OpEff V)) (hp : HeaderPure sem)
    (nodes : List GNode) (outputs : List String) (σ : Store V) (params ins : List (String × ObjId))
    (id : ObjId) (hid : id < σ.objs.length) :
    (runS sem nodes outputs σ params ins).1.get id = σ.get id :=
  runS_frame sem hp nodes outputs σ params ins id hid

-- non-vacuity: `HeaderPure nv_sem` holds, object 1 (the caller's `x`) exists
example : (runS nv_sem nv_nodes ["z", "y"] nv_σ [("w", 0)] [("x", 1)]).1.get 1 = nv_σ.get 1 :=
  frame nv_sem nv_pure nv_nodes ["z", "y"] nv_σ [("w", 0)] [("x", 1)] 1 (by decide)

/-- the store only grows -/
theorem store_grows (sem : Nat → List (Option V) → Res (OpEff V))
    (nodes : List GNode) (outputs : List String) (σ : Store V) (params ins : List (String × ObjId)) :
    σ.objs.length ≤ (runS sem nodes outputs σ params ins).1.objs.length :=
  runS_grows sem nodes outputs σ params ins

/-- **A Run is a function of values.** Under `HeaderPure`, the values a Run returns are those of the
purely functional Run applied to the *values* of the parameters and of the caller's tensors: object
identity, aliasing and whatever else is in the store play no role. -/
theorem run_on_values (sem : Nat → List (Option V) → Res (OpEff V)) (hp : HeaderPure sem)
    (nodes : List GNode) (outputs : List String) (σ : Store V) (params ins : List (String × ObjId))
    (hvp : Valid σ params) (hvi : Valid σ ins) :
    let r := runS sem nodes outputs σ params ins
    r.2.map (valuesOf r.1) = runV sem nodes outputs (valuesOf σ params) (valuesOf σ ins) :=
  runS_values sem hp nodes outputs σ params ins hvp hvi

-- non-vacuity: the two-node Run on valid ids; it succeeds with `z = 20`, `y = 12`
example :
    let r := runS nv_sem nv_nodes ["z", "y"] nv_σ [("w", 0)] [("x", 1)]
    r.2.map (valuesOf r.1) = runV nv_sem nv_nodes ["z", "y"] (valuesOf nv_σ [("w", 0)]) (valuesOf nv_σ [("x", 1)]) :=
  run_on_values nv_sem nv_pure nv_nodes ["z", "y"] nv_σ [("w", 0)] [("x", 1)] (by unfold Valid; decide) (by unfold Valid; decide)
example : runV nv_sem nv_nodes ["z", "y"] (valuesOf nv_σ [("w", 0)]) (valuesOf nv_σ [("x", 1)]) = .ok [("z", 20), ("y", 12)] := by decide

/-- **History independence.** After any sequence of earlier Runs on the same Model (same or different
inputs, re-used input objects, outputs of one Run fed to the next, Runs that failed), the parameters
still have their initial values, and therefore call `k` returns what the functional Run returns on
the initial parameter values and the values of its own inputs — i.e. what a freshly loaded Model
returns for the same inputs. -/
theorem history_independent (sem : Nat → List (Option V) → Res (OpEff V)) (hp : HeaderPure sem)
    (nodes : List GNode) (outputs : List String) (σ0 : Store V) (params : List (String × ObjId))
    (calls : List (List (String × ObjId))) (hvp : Valid σ0 params) (k : Nat) (hk : k < calls.length)
    (hvk : Valid (storeBefore sem nodes outputs params σ0 calls k) calls[k]) :
    let σk := storeBefore sem nodes outputs params σ0 calls k
    valuesOf σk params = valuesOf σ0 params ∧
    (let r := runS sem nodes outputs σk params calls[k]
     r.2.map (valuesOf r.1) = runV sem nodes outputs (valuesOf σ0 params) (valuesOf σk calls[k])) :=
  history sem hp nodes outputs σ0 params calls hvp k calls[k] hvk

-- non-vacuity: a history of two calls; the second is fed object 4, the `z` the first one returned
example :
    let σk := storeBefore nv_sem nv_nodes ["z", "y"] [("w", 0)] nv_σ [[("x", 1)], [("x", 4)]] 1
    valuesOf σk [("w", 0)] = valuesOf nv_σ [("w", 0)] ∧
    (let r := runS nv_sem nv_nodes ["z", "y"] σk [("w", 0)] [("x", 4)]
     r.2.map (valuesOf r.1) = runV nv_sem nv_nodes ["z", "y"] (valuesOf nv_σ [("w", 0)]) (valuesOf σk [("x", 4)])) :=
  history_independent nv_sem nv_pure nv_nodes ["z", "y"] nv_σ [("w", 0)] [[("x", 1)], [("x", 4)]]
    (by unfold Valid; decide) 1 (by decide) (by unfold Valid; decide)
example : (storeBefore nv_sem nv_nodes ["z", "y"] [("w", 0)] nv_σ [[("x", 1)], [("x", 4)]] 1).objs = [5, 7, 9, 12, 20] := by decide

/-- what goes wrong without the premise: an operator that reshapes its input in place (Conv's bias
before the fix) makes the second Run see another parameter value -/
theorem impure_counterexample :
    let sem : Nat → List (Option Nat) → Res (OpEff Nat) := fun _ vals =>
      .ok { outs := [.fresh ((vals.getD 0 none).getD 0)], writes := [(0, (vals.getD 0 none).getD 0 + 1)] }
    let nodes := [({ ins := ["w"], outs := ["y"] } : GNode)]
    let σ0 : Store Nat := ⟨[5]⟩
    let r1 := runS sem nodes ["y"] σ0 [("w", 0)] []
    let r2 := runS sem nodes ["y"] r1.1 [("w", 0)] []
    r1.2.map (valuesOf r1.1) = .ok [("y", 5)] ∧ r2.2.map (valuesOf r2.1) = .ok [("y", 6)] := by
  decide

end Gonnx.C02
