import Gonnx.Ops.Shape
import Gonnx.Spec.Shape
import Gonnx.Proofs.Shape
/-
C07 — Reshape, Flatten, Squeeze, Unsqueeze, Shape keep element order and give the ONNX shape.
Model: Gonnx/Ops/Shape.lean (mirrors ops/opset13/{reshape,flatten,squeeze,unsqueeze,shape}.go).
Spec:  Gonnx/Spec/Shape.lean.
All four reshaping operators return `{ t with shape := … }`: the flat row-major data list is the
input's, so "exactly the input's elements in the same order" is the `data` component of each theorem.
Proofs: Gonnx/Proofs/Shape.lean (which also holds the definitions `Pos`, `vec`, `withShape` of this
namespace, unchanged).
-/
namespace Gonnx.C07
open Gonnx
variable {α : Type}

-- concrete tensors shared by the non-vacuity examples below
private def nv_t : Tensor Nat := ⟨[2, 3, 4], List.range 24⟩
private def nv_u : Tensor Nat := ⟨[1, 3, 1, 2], [5, 6, 7, 8, 9, 10]⟩

/-- **Reshape**: for every input shape (extents ≥ 1) and every non-empty request, the operator returns
the input's data under exactly the ONNX shape (0 copies, a single -1 inferred), and fails (error or
panic, never a tensor) exactly when ONNX declares the request invalid. -/
theorem reshape_eq_spec (t : Tensor α) (req : List Int) (hpos : Pos t.shape) (hne : req ≠ []) :
    (reshapeOp t (vec req)).toOption = (Spec.reshapeShape t.shape req).map (withShape t) :=
  Proofs.Shape.reshape_eq_spec t req hpos hne

-- non-vacuity: 2×3×4 reshaped by `[0, -1]` (both sides are `some` of the 2×12 tensor)
example : (reshapeOp nv_t (vec [0, -1])).toOption = (Spec.reshapeShape nv_t.shape [0, -1]).map (withShape nv_t) :=
  reshape_eq_spec nv_t [0, -1] (by unfold Pos; decide) (by decide)
example : (reshapeOp nv_t (vec [0, -1])).toOption = some ⟨[2, 12], List.range 24⟩ := by decide

/-- requests whose entries are all ≥ -1 never panic: invalid ones get an error -/
theorem reshape_no_panic (t : Tensor α) (req : List Int) (hpos : Pos t.shape) (hne : req ≠ [])
    (hge : ∀ d ∈ req, -1 ≤ d) : reshapeOp t (vec req) ≠ .error .panic :=
  Proofs.Shape.reshape_no_panic t req hpos hne hge

-- non-vacuity: an invalid request (24 is not a multiple of 5) with entries ≥ -1
example : reshapeOp nv_t (vec [5, -1]) ≠ .error .panic :=
  reshape_no_panic nv_t [5, -1] (by unfold Pos; decide) (by decide) (by decide)

/-- **Flatten**: every axis in [-rank, rank] gives (∏ shape[:axis], ∏ shape[axis:]) with the same data;
every other axis does not give a tensor. -/
theorem flatten_eq_spec (t : Tensor α) (axis : Int) :
    (flattenOp t axis).toOption = (Spec.flattenShape t.shape axis).map (withShape t) :=
  Proofs.Shape.flatten_eq_spec t axis

/-- the full-strength clause "an out-of-range axis yields an error" … -/
def flatten_refuses_statement : Prop :=
  ∀ (t : Tensor Nat) (axis : Int), Spec.flattenShape t.shape axis = none → ∃ e, flattenOp t axis = .error e ∧ e ≠ .panic

/-- … is false for the code as it is: it panics (known finding flatten.axis_out_of_range) -/
theorem flatten_refuses_counterexample : ¬ flatten_refuses_statement := by
  intro h
  obtain ⟨e, he, hne⟩ := h ⟨[2], [1, 2]⟩ 5 (by decide)
  have hp : flattenOp (⟨[2], [1, 2]⟩ : Tensor Nat) 5 = .error .panic := by decide
  rw [hp] at he
  cases he
  exact hne rfl

/-- **Squeeze without axes** removes exactly the extent-1 dimensions -/
theorem squeeze_all (t : Tensor α) :
    squeezeOp t none = .ok (withShape t (t.shape.filter (· ≠ 1))) :=
  Proofs.Shape.squeeze_all t

/-- The original `squeeze_partial` (axes in range and pairwise distinct after normalisation ⇒ the
operator agrees with ONNX, including the error for an axis whose extent is not 1), verbatim,
specialised to `Tensor Nat`. It carried no hypothesis on the extents … -/
def squeeze_partial_statement : Prop :=
  ∀ (t : Tensor Nat) (axes : List Int), axes ≠ [] →
    (Spec.normAxes t.shape.length axes).isSome →
    (squeezeOp t (some (vec axes))).toOption = (Spec.squeezeShape t.shape (some axes)).map (withShape t)

/-- … and is false: with a zero extent elsewhere the element count stays 0, so gorgonia's count check
passes and an axis of extent ≠ 1 is removed instead of refused
(shape [2, 0], axes [0]: the operator returns shape [0], ONNX declares the request invalid). -/
theorem squeeze_partial_counterexample : ¬ squeeze_partial_statement := by
  intro h
  have := h ⟨[2, 0], []⟩ [0] (by decide) (by decide)
  revert this
  decide

/-- **Squeeze with axes** (partial): when all extents are ≥ 1 (`hpos`, the extra hypothesis) and the
axes are in range and pairwise distinct after normalisation, the operator agrees with ONNX — including
the error for an axis whose extent is not 1 -/
theorem squeeze_partial_partial (t : Tensor α) (axes : List Int) (hne : axes ≠ []) (hpos : Pos t.shape)
    (hvalid : (Spec.normAxes t.shape.length axes).isSome) :
    (squeezeOp t (some (vec axes))).toOption = (Spec.squeezeShape t.shape (some axes)).map (withShape t) :=
  Proofs.Shape.squeeze_pos t axes hne hpos hvalid

-- non-vacuity: 1×3×1×2 squeezed at the (negative, unsorted) axes -2 and 0
example : (squeezeOp nv_u (some (vec [-2, 0]))).toOption = (Spec.squeezeShape nv_u.shape (some [-2, 0])).map (withShape nv_u) :=
  squeeze_partial_partial nv_u [-2, 0] (by decide) (by unfold Pos; decide) (by decide)
example : (squeezeOp nv_u (some (vec [-2, 0]))).toOption = some ⟨[3, 2], [5, 6, 7, 8, 9, 10]⟩ := by decide

def squeeze_statement : Prop :=
  ∀ (t : Tensor Nat) (axes : List Int), axes ≠ [] →
    (squeezeOp t (some (vec axes))).toOption = (Spec.squeezeShape t.shape (some axes)).map (withShape t)

/-- the unguarded statement is false: out-of-range and duplicate axes are ignored instead of refused
(known findings squeeze.axis_out_of_range, squeeze.duplicate_axes) -/
theorem squeeze_counterexample_out_of_range :
    squeezeOp (⟨[1, 3, 1], [7, 8, 9]⟩ : Tensor Nat) (some (vec [5])) = .ok ⟨[1, 3, 1], [7, 8, 9]⟩ ∧
    Spec.squeezeShape [1, 3, 1] (some [5]) = none := by decide

theorem squeeze_counterexample_duplicate :
    squeezeOp (⟨[1, 2], [7, 8]⟩ : Tensor Nat) (some (vec [0, -2])) = .ok ⟨[2], [7, 8]⟩ ∧
    Spec.squeezeShape [1, 2] (some [0, -2]) = none := by decide

theorem squeeze_counterexample : ¬ squeeze_statement := by
  intro h
  have := h ⟨[1, 3, 1], [7, 8, 9]⟩ [5] (by decide)
  revert this
  decide

/-- **Unsqueeze**: any non-empty list of axes valid for the output rank (negative, unsorted) inserts
ones exactly there and keeps the original extents in order; duplicates / out-of-range axes give an
error. -/
theorem unsqueeze_eq_spec (t : Tensor α) (axes : List Int) (hne : axes ≠ []) :
    (unsqueezeOp t (vec axes)).toOption = (Spec.unsqueezeShape t.shape axes).map (withShape t) :=
  Proofs.Shape.unsqueeze_eq_spec t axes hne

-- non-vacuity: 2×3×4 unsqueezed at -1 and 0
example : (unsqueezeOp nv_t (vec [-1, 0])).toOption = (Spec.unsqueezeShape nv_t.shape [-1, 0]).map (withShape nv_t) :=
  unsqueeze_eq_spec nv_t [-1, 0] (by decide)
example : (unsqueezeOp nv_t (vec [-1, 0])).toOption = some ⟨[1, 2, 3, 4, 1], List.range 24⟩ := by decide

theorem unsqueeze_no_panic (t : Tensor α) (axes : List Int) (hne : axes ≠ []) :
    unsqueezeOp t (vec axes) ≠ .error .panic :=
  Proofs.Shape.unsqueeze_no_panic t axes hne

-- non-vacuity: duplicate axes
example : unsqueezeOp nv_t (vec [1, 1]) ≠ .error .panic :=
  unsqueeze_no_panic nv_t [1, 1] (by decide)

/-- **Shape** returns the dimensions as a 1-D int64 tensor -/
theorem shape_op (t : Tensor α) :
    shapeOp t = .ok ⟨[t.shape.length], t.shape.map (fun (d : Nat) => (d : Int))⟩ := rfl

/-- element order: every tensor any of the four operators returns carries the input's data list -/
theorem data_preserved (t t' : Tensor α) :
    (∀ s, reshapeOp t s = .ok t' → t'.data = t.data) ∧ (∀ a, flattenOp t a = .ok t' → t'.data = t.data) ∧
    (∀ a, squeezeOp t a = .ok t' → t'.data = t.data) ∧ (∀ a, unsqueezeOp t a = .ok t' → t'.data = t.data) :=
  ⟨fun _ h => Proofs.Shape.reshapeOp_data h, fun _ h => Proofs.Shape.flattenOp_data h,
   fun _ h => Proofs.Shape.squeezeOp_data h, fun _ h => Proofs.Shape.unsqueezeOp_data h⟩

-- non-vacuity of the four inner implications: each operator does return a tensor on some request
example : (⟨[6, 4], List.range 24⟩ : Tensor Nat).data = nv_t.data ∧ (⟨[2, 12], List.range 24⟩ : Tensor Nat).data = nv_t.data ∧
    (⟨[3, 2], [5, 6, 7, 8, 9, 10]⟩ : Tensor Nat).data = nv_u.data ∧ (⟨[2, 1, 3, 4], List.range 24⟩ : Tensor Nat).data = nv_t.data :=
  ⟨(data_preserved nv_t ⟨[6, 4], List.range 24⟩).1 (vec [6, -1]) (by decide),
   (data_preserved nv_t ⟨[2, 12], List.range 24⟩).2.1 1 (by decide),
   (data_preserved nv_u ⟨[3, 2], [5, 6, 7, 8, 9, 10]⟩).2.2.1 none (by decide),
   (data_preserved nv_t ⟨[2, 1, 3, 4], List.range 24⟩).2.2.2 (vec [1]) (by decide)⟩

-- non-vacuity
example : Spec.reshapeShape [2, 3, 4] [0, -1] = some [2, 12] ∧ Spec.unsqueezeShape [3, 4] [-1, 0] = some [1, 3, 4, 1] ∧
    Spec.squeezeShape [1, 3, 1] (some [-1]) = some [1, 3] ∧ Spec.flattenShape [2, 3, 4] (-1) = some [6, 4] := by decide

end Gonnx.C07
