import Gonnx.Ops.Conv
import Gonnx.Spec.Conv
import Gonnx.Proofs.Conv
import Gonnx.Proofs.Conv2
import Gonnx.Theorems.C05
/-
C05, second part — Conv with an auto_pad mode equals the direct convolution with the ONNX pads of that mode.
-/
namespace Gonnx.C05
open Gonnx Gonnx.Proofs
variable {α : Type} [Inhabited α]

-- `hWx`, `hWw` are part of the fixed statement; both sides read the inputs through `Tensor.get` only
set_option linter.unusedVariables false in
/-- **Conv with auto_pad SAME_UPPER / SAME_LOWER = direct convolution with the ONNX pads** (partial):
1-D and 2-D, any N, C, M, spatial / kernel extents, strides and dilations, with or without bias — under
the guards of `conv_explicit_partial` (dilated kernel extents ≥ 2) and of `autopad_eq_spec_partial`
(the padding needed is not negative: kernel not smaller than the stride remainder). -/
theorem conv_autopad_partial (A : Arith α) (hA : ZeroLaws A) (x w : Tensor α) (bias : Option (Tensor α))
    (mode : String) (hm : mode = "SAME_UPPER" ∨ mode = "SAME_LOWER")
    (dil strides : List Nat)
    (hWx : x.WF) (hWw : w.WF) (hWb : ∀ b, bias = some b → b.WF)
    (hpx : Pos x.shape) (hpw : Pos w.shape)
    (hrank : x.shape.length = 3 ∨ x.shape.length = 4)
    (hdl : dil.length = x.shape.length - 2) (hsl : strides.length = x.shape.length - 2)
    (hdp : ∀ d ∈ dil, 0 < d) (hsp : ∀ s ∈ strides, 0 < s)
    (hk2 : ∀ k ∈ dkernel w dil, 2 ≤ k)
    (hneed : ∀ i, i < x.shape.length - 2 →
      dim (x.shape.drop 2) i ≤ ((dim (x.shape.drop 2) i + dim strides i - 1) / dim strides i - 1) * dim strides i + dim (dkernel w dil) i)
    (s : Tensor α) (hs : Spec.conv A mode dil strides [] x w bias = some s) :
    ∃ m, convOp A { autoPad := mode, dilations := dil, strides := strides, pads := [] } x w bias = .ok m ∧
      Equiv m s :=
  Proofs.Conv2.conv_autopad_partial A hA x w bias mode hm dil strides hWb hpx hpw hrank hdl hsl hdp hsp hk2 hneed s hs

-- non-vacuity, 2-D: N = 2, C = 2, M = 2, a 3×4 image, a 2×2 kernel, strides (1, 2), SAME_LOWER (ONNX pads
-- 1 0 0 0, output 3×2), with a bias: every hypothesis is discharged (a 1-D instance follows below)
private def nv_A : Arith Int := ⟨0, (· + ·), (· * ·), (· - ·)⟩
private def nv_x : Tensor Int := ⟨[2, 2, 3, 4], (List.range 48).map (fun (n : Nat) => (n : Int) - 20)⟩
private def nv_w : Tensor Int := ⟨[2, 2, 2, 2], [1, 2, 3, 4, 5, 6, 7, 8, -1, 0, 1, 0, 2, -2, 3, -3]⟩
private def nv_bias : Tensor Int := ⟨[2], [100, 200]⟩
example :
    ∃ m, convOp nv_A { autoPad := "SAME_LOWER", dilations := [1, 1], strides := [1, 2], pads := [] } nv_x nv_w (some nv_bias) = .ok m ∧
      Equiv m ⟨[2, 2, 3, 2], [-148, -104, -200, -128, -56, 16, 177, 179, 199, 199, 199, 199,
                               380, 424, 664, 736, 808, 880, 201, 203, 199, 199, 199, 199]⟩ :=
  conv_autopad_partial nv_A ⟨Int.add_zero, Int.zero_mul, Int.mul_zero⟩ nv_x nv_w (some nv_bias) "SAME_LOWER" (Or.inr rfl) [1, 1] [1, 2]
    rfl rfl (by intro b h; cases h; rfl) (by simp [Proofs.Pos, nv_x]) (by simp [Proofs.Pos, nv_w])
    (by decide) (by decide) (by decide) (by decide) (by decide) (by decide) (by decide) _ (by decide)

/-- auto_pad VALID is computed as SAME_UPPER (known finding conv.auto_pad_valid): whenever SAME_UPPER
needs any padding the result differs from the ONNX value — witness -/
theorem conv_autopad_valid_counterexample :
    let A : Arith Int := ⟨0, (· + ·), (· * ·), (· - ·)⟩
    let x : Tensor Int := ⟨[1, 1, 3], [1, 2, 3]⟩
    let w : Tensor Int := ⟨[1, 1, 2], [1, 1]⟩
    (convOp A { autoPad := "VALID", dilations := [], strides := [], pads := [] } x w none).toOption.map (·.shape) = some [1, 1, 3] ∧
    (Spec.conv A "VALID" [] [] [] x w none).map (·.shape) = some [1, 1, 2] := by
  decide

/-- non-vacuity of `conv_autopad_partial`: a 1×1×5 input, 1×1×3 kernel, stride 2, SAME_UPPER (ONNX pads
`[1, 1]`, output extent `⌈5/2⌉ = 3`) meets every hypothesis; the theorem yields the model's result -/
example :
    ∃ m, convOp (⟨0, (· + ·), (· * ·), (· - ·)⟩ : Arith Int)
        { autoPad := "SAME_UPPER", dilations := [1], strides := [2], pads := [] }
        ⟨[1, 1, 5], [1, 2, 3, 4, 5]⟩ ⟨[1, 1, 3], [1, 1, 1]⟩ none = .ok m ∧
      Equiv m ⟨[1, 1, 3], [3, 9, 9]⟩ :=
  conv_autopad_partial (⟨0, (· + ·), (· * ·), (· - ·)⟩ : Arith Int)
    ⟨fun a => Int.add_zero a, fun a => Int.zero_mul a, fun a => Int.mul_zero a⟩
    ⟨[1, 1, 5], [1, 2, 3, 4, 5]⟩ ⟨[1, 1, 3], [1, 1, 1]⟩ none "SAME_UPPER" (Or.inl rfl) [1] [2]
    (by unfold Tensor.WF; decide) (by unfold Tensor.WF; decide) (by intro b hb; cases hb)
    (by show ∀ n ∈ [1, 1, 5], 0 < n; decide) (by show ∀ n ∈ [1, 1, 3], 0 < n; decide) (by decide) (by decide) (by decide)
    (by decide) (by decide) (by decide)
    (by intro i hi; have : i = 0 := by simpa using hi
        subst this; decide)
    ⟨[1, 1, 3], [3, 9, 9]⟩ (by decide)

-- the same request evaluated on both sides
example :
    convOp (⟨0, (· + ·), (· * ·), (· - ·)⟩ : Arith Int)
        { autoPad := "SAME_UPPER", dilations := [1], strides := [2], pads := [] }
        ⟨[1, 1, 5], [1, 2, 3, 4, 5]⟩ ⟨[1, 1, 3], [1, 1, 1]⟩ none = .ok ⟨[1, 1, 3], [3, 9, 9]⟩ ∧
    Spec.conv (⟨0, (· + ·), (· * ·), (· - ·)⟩ : Arith Int) "SAME_UPPER" [1] [2] []
        ⟨[1, 1, 5], [1, 2, 3, 4, 5]⟩ ⟨[1, 1, 3], [1, 1, 1]⟩ none = some ⟨[1, 1, 3], [3, 9, 9]⟩ := by decide

end Gonnx.C05
