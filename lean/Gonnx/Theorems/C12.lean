import Gonnx.Graph.Decode
import Gonnx.Spec.Decode
import Gonnx.Proofs.Decode
/-
C12 — weights decode to their declared shape, type and exact values, or are refused.
Model: Gonnx/Graph/Decode.lean (onnx/graph_proto.go, after the two `fix:` commits).
-/
namespace Gonnx.C12
open Gonnx Gonnx.Spec Gonnx.Proofs.Decode

-- `bytesLE`, `encodeLE`, `supported`, `NoTyped` are defined (unchanged, in this namespace) in
-- Gonnx/Proofs/Decode.lean, next to the helper lemmas.

/-- **Round trip of the raw readers**, every width: reading the little-endian encoding of any list of
in-range bit patterns returns exactly that list. -/
theorem readLE_encodeLE (w : Nat) (hw : 0 < w) (xs : List Nat) (h : ∀ x ∈ xs, x < 2 ^ (8 * w)) :
    readLE w (encodeLE w xs) = xs := by
  have := readChunks_encodeLE w hw xs h ((encodeLE w xs).length + 1) []
    (by rw [encodeLE_length]; have := Nat.le_mul_of_pos_right xs.length hw; omega)
  simpa [readLE] using this

-- non-vacuity: three 16-bit patterns
example : readLE 2 (encodeLE 2 [513, 65535, 7]) = [513, 65535, 7] :=
  readLE_encodeLE 2 (by decide) [513, 65535, 7] (by decide)

/-- a payload that is not a whole number of elements decodes to nothing (and is then refused by the
count check unless the declared shape is empty) -/
theorem readLE_partial (w : Nat) (hw : 0 < w) (data : List Nat) (h : data.length % w ≠ 0) :
    readLE w data = [] := readChunks_partial w hw _ data [] (Nat.le_refl _) h

-- non-vacuity: six bytes read as 4-byte elements
example : readLE 4 [1, 2, 3, 4, 5, 6] = [] := readLE_partial 4 (by decide) [1, 2, 3, 4, 5, 6] (by decide)

theorem readLE_length (w : Nat) (hw : 0 < w) (data : List Nat) (h : data.length % w = 0) :
    (readLE w data).length = data.length / w := by
  simpa [readLE] using readChunks_length w hw _ data [] (Nat.le_refl _) h

-- non-vacuity: eight bytes read as 4-byte elements
example : (readLE 4 [1, 2, 3, 4, 5, 6, 7, 8]).length = [1, 2, 3, 4, 5, 6, 7, 8].length / 4 :=
  readLE_length 4 (by decide) [1, 2, 3, 4, 5, 6, 7, 8] (by decide)

/-- the decoder never panics -/
theorem decode_no_panic (tp : TensorProtoM) : decode tp ≠ .error .panic := by
  cases hc : dtypeOfCode tp.dataType with
  | some dt => rw [decode_of_code tp dt hc]; exact body_no_panic tp dt
  | none =>
    rw [decode_of_none tp hc]
    cases fallbackDType tp with
    | none => simp
    | some dt => exact body_no_panic tp dt

/-- **Soundness**: whatever is loaded has exactly the declared dims, as many elements as the dims say,
and — for the 11 supported codes — the declared element type and the declared values. -/
theorem decode_sound (tp : TensorProtoM) (d : Decoded) (h : decode tp = .ok d) :
    (∀ x ∈ tp.dims, 0 ≤ x) ∧ d.shape = tp.dims.map Int.toNat ∧ d.bits.length = prod d.shape ∧
    (∀ dt, dtypeOfCode tp.dataType = some dt → d.dt = dt ∧ d.bits = valuesFor tp dt) := by
  obtain ⟨dt0, hb, hdt⟩ := decode_ok_body tp d h
  obtain ⟨h1, rfl, h3⟩ := body_sound tp dt0 d hb
  exact ⟨h1, rfl, h3, fun dt hc => by rw [hdt dt hc]; exact ⟨rfl, rfl⟩⟩

-- non-vacuity: a 2×3 FLOAT tensor given in `float_data` (1.0, +0, a NaN, −Inf, a denormal, −0 as bit patterns)
private def nv_tp : TensorProtoM := { dataType := 1, dims := [2, 3], floatData := [1065353216, 0, 2143289344, 4286578688, 1, 2147483648] }
example : (∀ x ∈ nv_tp.dims, 0 ≤ x) ∧ (⟨.f32, [2, 3], nv_tp.floatData⟩ : Decoded).shape = nv_tp.dims.map Int.toNat ∧
    (⟨.f32, [2, 3], nv_tp.floatData⟩ : Decoded).bits.length = prod (⟨.f32, [2, 3], nv_tp.floatData⟩ : Decoded).shape ∧
    (∀ dt, dtypeOfCode nv_tp.dataType = some dt → (⟨.f32, [2, 3], nv_tp.floatData⟩ : Decoded).dt = dt ∧
      (⟨.f32, [2, 3], nv_tp.floatData⟩ : Decoded).bits = valuesFor nv_tp dt) :=
  decode_sound nv_tp ⟨.f32, [2, 3], nv_tp.floatData⟩ (by decide)

/-- a payload whose element count does not match the declared shape is an error -/
theorem decode_count_mismatch (tp : TensorProtoM) (dt : DType) (hc : dtypeOfCode tp.dataType = some dt)
    (h : (valuesFor tp dt).length ≠ prod (tp.dims.map Int.toNat)) : ∃ e, decode tp = .error e ∧ e ≠ .panic := by
  rw [decode_of_code tp dt hc, body_error_of_count tp dt h]
  exact ⟨_, rfl, by decide⟩

-- non-vacuity: six values for a declared 2×2 shape
example : ∃ e, decode { nv_tp with dims := [2, 2] } = .error e ∧ e ≠ .panic :=
  decode_count_mismatch { nv_tp with dims := [2, 2] } .f32 rfl (by decide)

theorem decode_negative_dim (tp : TensorProtoM) (x : Int) (hx : x ∈ tp.dims) (hneg : x < 0) :
    ∃ e, decode tp = .error e ∧ e ≠ .panic := by
  cases hc : dtypeOfCode tp.dataType with
  | some dt => rw [decode_of_code tp dt hc, body_error_of_neg tp dt x hx hneg]; exact ⟨_, rfl, by decide⟩
  | none =>
    rw [decode_of_none tp hc]
    cases fallbackDType tp with
    | none => exact ⟨_, rfl, by decide⟩
    | some dt => exact ⟨_, body_error_of_neg tp dt x hx hneg, by decide⟩

-- non-vacuity: dims [-2, -3]
example : ∃ e, decode { nv_tp with dims := [-2, -3] } = .error e ∧ e ≠ .panic :=
  decode_negative_dim { nv_tp with dims := [-2, -3] } (-3) (by decide) (by decide)

/-- **Raw encoding, exact**: for every supported non-bool element type, any non-negative dims and any
element bit patterns of the right width, the little-endian raw payload decodes to exactly them. -/
theorem decode_raw_exact (tp : TensorProtoM) (code : Int) (dt : DType) (hs : (code, dt) ∈ supported)
    (hb : dt ≠ .bool) (hc : tp.dataType = code) (hn : NoTyped tp) (hd : ∀ x ∈ tp.dims, 0 ≤ x)
    (xs : List Nat) (hx : ∀ x ∈ xs, x < 2 ^ (8 * width dt))
    (hlen : xs.length = prod (tp.dims.map Int.toNat)) (hraw : tp.rawData = encodeLE (width dt) xs) :
    decode tp = .ok ⟨dt, tp.dims.map Int.toNat, xs⟩ := by
  have hw := width_pos_of_supported code dt hs
  have hv : valuesFor tp dt = xs := by
    rw [valuesFor_raw tp code dt hs hb hn, hraw, readLE_encodeLE (width dt) hw xs hx]
  rw [decode_of_code tp dt (hc ▸ code_of_supported code dt hs), body_ok tp dt hd (by rw [hv, hlen]), hv]

-- non-vacuity: a 2×3 INT16 tensor given as 12 raw bytes
private def nv_raw : TensorProtoM := { dataType := 5, dims := [2, 3], rawData := encodeLE 2 [1, 65535, 32768, 513, 0, 7] }
example : decode nv_raw = .ok ⟨.i16, nv_raw.dims.map Int.toNat, [1, 65535, 32768, 513, 0, 7]⟩ :=
  decode_raw_exact nv_raw 5 .i16 (by simp [supported]) (by decide) rfl ⟨rfl, rfl, rfl, rfl, rfl⟩ (by decide)
    [1, 65535, 32768, 513, 0, 7] (by decide) (by decide) rfl

/-- the clause "**raw encoding, wrong length** (short by a byte or an element, long, empty): refused", as
first stated -/
def raw_length_mismatch_statement : Prop :=
  ∀ (tp : TensorProtoM) (code : Int) (dt : DType), (code, dt) ∈ supported → tp.dataType = code → NoTyped tp →
    tp.rawData.length ≠ prod (tp.dims.map Int.toNat) * width dt →
    ∃ e, decode tp = .error e ∧ e ≠ .panic

/-- … is FALSE for the code as it is: a trailing partial element makes the reader return nothing, and
"nothing" is exactly what an empty declared shape asks for. FLOAT, dims `[0]`, one raw byte loads. -/
theorem decode_raw_length_mismatch_counterexample : ¬ raw_length_mismatch_statement := by
  intro h
  obtain ⟨e, he, _⟩ := h { dataType := 1, dims := [0], rawData := [1] } 1 .f32 (by simp [supported]) rfl
    ⟨rfl, rfl, rfl, rfl, rfl⟩ (by decide)
  have : decode { dataType := 1, dims := [0], rawData := [1] } = .ok ⟨.f32, [0], []⟩ := by decide
  rw [this] at he
  cases he

/-- **Raw encoding, wrong length**: refused, provided the payload is a whole number of elements or the
declared shape is not empty (`hpartial` is the only addition to the statement above). -/
theorem decode_raw_length_mismatch_partial (tp : TensorProtoM) (code : Int) (dt : DType)
    (hs : (code, dt) ∈ supported) (hc : tp.dataType = code) (hn : NoTyped tp)
    (hlen : tp.rawData.length ≠ prod (tp.dims.map Int.toNat) * width dt)
    (hpartial : tp.rawData.length % width dt = 0 ∨ prod (tp.dims.map Int.toNat) ≠ 0) :
    ∃ e, decode tp = .error e ∧ e ≠ .panic :=
  decode_count_mismatch tp dt (hc ▸ code_of_supported code dt hs)
    (valuesFor_length_ne tp code dt hs hn _ hlen hpartial)

-- non-vacuity: 12 raw bytes for a declared 2×2 INT16 shape (whole elements, too many) …
example : ∃ e, decode { nv_raw with dims := [2, 2] } = .error e ∧ e ≠ .panic :=
  decode_raw_length_mismatch_partial { nv_raw with dims := [2, 2] } 5 .i16 (by simp [supported]) rfl ⟨rfl, rfl, rfl, rfl, rfl⟩ (by decide) (by decide)
-- … and 3 raw bytes (a trailing partial element) for the non-empty 2×3 shape
example : ∃ e, decode { nv_raw with rawData := [1, 2, 3] } = .error e ∧ e ≠ .panic :=
  decode_raw_length_mismatch_partial { nv_raw with rawData := [1, 2, 3] } 5 .i16 (by simp [supported]) rfl ⟨rfl, rfl, rfl, rfl, rfl⟩ (by decide) (by decide)

/-- an unsupported code with only raw data is refused with the invalid-type error -/
theorem decode_unsupported_raw_only (tp : TensorProtoM) (hc : dtypeOfCode tp.dataType = none) (hn : NoTyped tp) :
    decode tp = .error .invalidType := by
  rw [decode_of_none tp hc, fallback_none_of_noTyped tp hn]

-- non-vacuity: FLOAT16 (code 10) with raw data only
example : decode { nv_raw with dataType := 10 } = .error .invalidType :=
  decode_unsupported_raw_only { nv_raw with dataType := 10 } rfl ⟨rfl, rfl, rfl, rfl, rfl⟩

/-- the full-strength clause "an element type the library cannot represent is reported as an error" -/
def unsupported_refused_statement : Prop :=
  ∀ tp : TensorProtoM, dtypeOfCode tp.dataType = none → ∃ e, decode tp = .error e

/-- … is FALSE for the code as it is (known finding decode.unsupported_element_type.wrong):
FLOAT16 with a populated float_data field loads as float32. -/
theorem unsupported_refused_counterexample : ¬ unsupported_refused_statement := by
  intro h
  obtain ⟨e, he⟩ := h { dataType := 10, dims := [1], floatData := [0] } (by decide)
  have : decode { dataType := 10, dims := [1], floatData := [0] } = .ok ⟨.f32, [1], [0]⟩ := by decide
  rw [this] at he
  cases he

-- non-vacuity
example : readLE 2 (encodeLE 2 [513, 65535]) = [513, 65535] ∧ encodeLE 2 [513] = [1, 2] := by decide

end Gonnx.C12
