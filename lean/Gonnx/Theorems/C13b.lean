import Gonnx.Theorems.C13
/-
C13b — rejection, stated outright, and independence of the iteration order. `Model.validateShapes` ranges
over a Go map (random order) and stops at the first offending input; whichever input is met first, the
outcome (accept / refuse) is the same: it is a function of the SET of declared inputs.
-/
namespace Gonnx.C13
open Gonnx

/-- **Wrong rank is refused**: a required input supplied with another rank than declared makes Run fail,
whatever the other inputs are and wherever this input stands among the declarations. -/
theorem wrong_rank_rejected (decls : List InputDecl) (params : List String) (ins : List (String × List Nat))
    (e : String × List DimDecl) (he : e ∈ inputShapes decls) (hp : e.1 ∉ params)
    (shape : List Nat) (hl : ins.lookup e.1 = some shape) (hr : shape.length ≠ e.2.length) :
    validateShapes decls params ins = .error .model := by
  cases hv : validateShapes decls params ins with
  | ok u =>
    cases u
    obtain ⟨s, hs, hsat⟩ := (validate_ok_iff _ _ _).mp hv e he hp
    rw [hl] at hs
    cases hs
    exact absurd hsat.1 hr
  | error err => rw [validate_error _ _ _ _ hv]

/-- **A wrong fixed dimension is refused**: position `i` is declared with the fixed size `d.size`
(not dynamic) and the supplied tensor has another extent there. -/
theorem wrong_fixed_dim_rejected (decls : List InputDecl) (params : List String) (ins : List (String × List Nat))
    (e : String × List DimDecl) (he : e ∈ inputShapes decls) (hp : e.1 ∉ params)
    (shape : List Nat) (hl : ins.lookup e.1 = some shape)
    (i : Nat) (hi : i < e.2.length) (hi' : i < shape.length)
    (hfix : e.2[i].isDynamic = false) (hne : e.2[i].size ≠ (shape[i] : Int)) :
    validateShapes decls params ins = .error .model := by
  cases hv : validateShapes decls params ins with
  | ok u =>
    cases u
    obtain ⟨s, hs, hsat⟩ := (validate_ok_iff _ _ _).mp hv e he hp
    rw [hl] at hs
    cases hs
    exact absurd (hsat.2 i hi hi' hfix) hne
  | error err => rw [validate_error _ _ _ _ hv]

/-- **Order independence**: the declarations in any other order (the Go map is ranged over in random
order, and the loop returns at the first offending input) give the same outcome. -/
theorem validate_order_independent (decls decls' : List InputDecl) (params : List String)
    (ins : List (String × List Nat)) (h : decls.Perm decls') :
    validateShapes decls params ins = validateShapes decls' params ins := by
  have hp : (inputShapes decls).Perm (inputShapes decls') := by
    unfold inputShapes; exact h.filterMap _
  have : ∀ a b : Res Unit, (a = .ok () ↔ b = .ok ()) → (∀ e, a = .error e → e = .model) → (∀ e, b = .error e → e = .model) → a = b := by
    intro a b hab ha hb
    cases a with
    | ok u => cases u; exact (hab.1 rfl).symm
    | error ea =>
      cases b with
      | ok u => cases u; exact absurd (hab.2 rfl) (by simp)
      | error eb => rw [ha ea rfl, hb eb rfl]
  apply this
  · rw [validate_ok_iff, validate_ok_iff]
    constructor
    · intro hx e he; exact hx e (hp.mem_iff.mpr he)
    · intro hx e he; exact hx e (hp.mem_iff.mp he)
  · intro e he; exact validate_error _ _ _ _ he
  · intro e he; exact validate_error _ _ _ _ he

theorem lookup_perm {β : Type} (k : String) (l l' : List (String × β)) (h : l.Perm l') (hnd : (l.map (·.1)).Nodup) :
    l.lookup k = l'.lookup k := by
  induction h with
  | nil => rfl
  | cons x _ ih =>
    obtain ⟨xk, xv⟩ := x
    simp only [List.map_cons, List.nodup_cons] at hnd
    simp only [List.lookup_cons]
    rw [ih hnd.2]
  | swap x y l =>
    obtain ⟨xk, xv⟩ := x
    obtain ⟨yk, yv⟩ := y
    simp only [List.map_cons, List.nodup_cons, List.mem_cons, not_or] at hnd
    simp only [List.lookup_cons]
    by_cases h1 : k == yk <;> by_cases h2 : k == xk <;> simp [h1, h2]
    have e1 : k = yk := by simpa using h1
    have e2 : k = xk := by simpa using h2
    exact absurd (e1.symm.trans e2) hnd.1.1
  | trans h1 _ ih1 ih2 =>
    rw [ih1 hnd, ih2 ((h1.map _).nodup_iff.mp hnd)]

/-- … and so does the supplied set in any other order, when no name is supplied twice (a Go map has no
duplicate keys). -/
theorem validate_supplied_order_independent (decls : List InputDecl) (params : List String)
    (ins ins' : List (String × List Nat)) (h : ins.Perm ins') (hnd : (ins.map (·.1)).Nodup) :
    validateShapes decls params ins = validateShapes decls params ins' := by
  have hl : ∀ k, ins.lookup k = ins'.lookup k := fun k => lookup_perm k ins ins' h hnd
  have : validateOne params ins = validateOne params ins' := by
    funext e; unfold validateOne; rw [hl]
  unfold validateShapes
  rw [this]

-- non-vacuity: two required inputs; the SECOND declared one has a rank too many / a wrong fixed extent
private def nv2 : List InputDecl := [⟨"a", some [DimDecl.ofValue 2, DimDecl.ofValue 0]⟩, ⟨"b", some [DimDecl.ofValue 4]⟩]
example : validateShapes nv2 [] [("a", [2, 5]), ("b", [4, 1])] = .error .model :=
  wrong_rank_rejected nv2 [] _ ("b", [DimDecl.ofValue 4]) (by decide) (by decide) [4, 1] (by decide) (by decide)
example : validateShapes nv2 [] [("a", [2, 5]), ("b", [3])] = .error .model :=
  wrong_fixed_dim_rejected nv2 [] _ ("b", [DimDecl.ofValue 4]) (by decide) (by decide) [3] (by decide) 0 (by decide) (by decide) (by decide) (by decide)
example : validateShapes nv2 [] [("a", [2, 5]), ("b", [3])] = validateShapes nv2.reverse [] [("a", [2, 5]), ("b", [3])] :=
  validate_order_independent nv2 nv2.reverse [] _ (List.reverse_perm nv2).symm

end Gonnx.C13
