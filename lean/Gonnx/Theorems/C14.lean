import Gonnx.Broadcast
import Gonnx.Spec.Broadcast
import Gonnx.Proofs.Broadcast
/-
C14 — the broadcast helpers implement ONNX multi- and unidirectional broadcasting.
Model: Gonnx/Broadcast.lean (mirrors ops/multidir_broadcast.go, ops/unidir_broadcast.go).
Spec:  Gonnx/Spec/Broadcast.lean (Compatible, bshape, pin).
Helper lemmas live in Gonnx/Proofs/Broadcast.lean; this file only states and concludes the
property theorems.
-/
namespace Gonnx.C14
open Gonnx Gonnx.Spec
variable {α : Type} [Inhabited α]

/-- all extents are ≥ 1 (the property quantifies over such shapes) -/
abbrev Pos := Proofs.Pos

-- concrete tensors shared by the non-vacuity examples below: a 2×1 column and a 1×3 row (each stretched
-- along one axis) with their broadcast images, a 2×3 matrix and a row of 3
private def nv_A : Tensor Int := ⟨[2, 1], [1, 2]⟩
private def nv_B : Tensor Int := ⟨[1, 3], [10, 20, 30]⟩
private def nv_A' : Tensor Int := ⟨[2, 3], [1, 1, 1, 2, 2, 2]⟩
private def nv_B' : Tensor Int := ⟨[2, 3], [10, 20, 30, 10, 20, 30]⟩
private def nv_M : Tensor Int := ⟨[2, 3], [1, 2, 3, 4, 5, 6]⟩
private def nv_v : Tensor Int := ⟨[3], [10, 20, 30]⟩

/-- Two shapes broadcast iff, aligned at their last axes, every pair of extents is equal or
contains a 1; otherwise an error (never a panic, never a tensor). -/
theorem multidir_ok_iff (A B : Tensor α) :
    (multidirBroadcast A B).isOk = Compatible A.shape B.shape :=
  Proofs.multidir_ok_iff A B

theorem multidir_error (A B : Tensor α) (h : Compatible A.shape B.shape = false) :
    multidirBroadcast A B = .error .broadcast :=
  Proofs.multidir_error A B h

-- non-vacuity: 2×3 against 2×2
example : multidirBroadcast nv_M (⟨[2, 2], [1, 2, 3, 4]⟩ : Tensor Int) = .error .broadcast :=
  multidir_error nv_M ⟨[2, 2], [1, 2, 3, 4]⟩ (by decide)

/-- both results have the elementwise-maximum shape -/
theorem multidir_shape (A B A' B' : Tensor α) (hA : Pos A.shape) (hB : Pos B.shape)
    (h : multidirBroadcast A B = .ok (A', B')) :
    A'.shape = bshape A.shape B.shape ∧ B'.shape = bshape A.shape B.shape :=
  Proofs.multidir_shape A B A' B' hA hB h

-- non-vacuity: the column and the row broadcast to 2×3
example : nv_A'.shape = bshape nv_A.shape nv_B.shape ∧ nv_B'.shape = bshape nv_A.shape nv_B.shape :=
  multidir_shape nv_A nv_B nv_A' nv_B' (by simp [Proofs.Pos, nv_A]) (by simp [Proofs.Pos, nv_B]) (by decide)

/-- the element at every index equals the source element at that index with stretched axes
pinned to 0 -/
theorem multidir_get (A B A' B' : Tensor α) (hA : Pos A.shape) (hB : Pos B.shape)
    (h : multidirBroadcast A B = .ok (A', B')) (idx : List Nat)
    (hidx : InRange idx (bshape A.shape B.shape)) :
    A'.get idx = A.get (pin A.shape idx) ∧ B'.get idx = B.get (pin B.shape idx) :=
  Proofs.multidir_get A B A' B' hA hB h idx hidx

-- non-vacuity: the same pair, read at [1, 2]
example : nv_A'.get [1, 2] = nv_A.get (pin nv_A.shape [1, 2]) ∧ nv_B'.get [1, 2] = nv_B.get (pin nv_B.shape [1, 2]) :=
  multidir_get nv_A nv_B nv_A' nv_B' (by simp [Proofs.Pos, nv_A]) (by simp [Proofs.Pos, nv_B]) (by decide) [1, 2] (by decide)

/-- results are dense: data length = number of elements of the shape -/
theorem multidir_WF (A B A' B' : Tensor α) (hA : A.WF) (hB : B.WF)
    (h : multidirBroadcast A B = .ok (A', B')) : A'.WF ∧ B'.WF :=
  Proofs.multidir_WF A B A' B' hA hB h

-- non-vacuity
example : nv_A'.WF ∧ nv_B'.WF := multidir_WF nv_A nv_B nv_A' nv_B' rfl rfl (by decide)

/-- Unidirectional broadcasting additionally requires the result shape to be the first operand's -/
theorem unidir_ok_iff (A B : Tensor α) (hA : Pos A.shape) (hB : Pos B.shape) :
    (unidirBroadcast A B).isOk = (Compatible A.shape B.shape && (bshape A.shape B.shape == A.shape)) :=
  Proofs.unidir_ok_iff A B hA hB

-- non-vacuity: a row of 3 against a 2×3 matrix
example : (unidirBroadcast nv_M nv_v).isOk = (Compatible nv_M.shape nv_v.shape && (bshape nv_M.shape nv_v.shape == nv_M.shape)) :=
  unidir_ok_iff nv_M nv_v (by simp [Proofs.Pos, nv_M]) (by simp [Proofs.Pos, nv_v])

/-- … and leaves the first operand as is -/
theorem unidir_fst (A B A' B' : Tensor α) (h : unidirBroadcast A B = .ok (A', B')) : A' = A :=
  Proofs.unidir_fst A B A' B' h

-- non-vacuity: the hypothesis `h` holds for the row against the matrix
example : nv_M = nv_M := unidir_fst nv_M nv_v nv_M nv_B' (by decide)

theorem unidir_get (A B A' B' : Tensor α) (hA : Pos A.shape) (hB : Pos B.shape)
    (h : unidirBroadcast A B = .ok (A', B')) :
    B'.shape = A.shape ∧ ∀ idx, InRange idx A.shape → B'.get idx = B.get (pin B.shape idx) :=
  Proofs.unidir_get A B A' B' hA hB h

-- non-vacuity
example : nv_B'.shape = nv_M.shape ∧ ∀ idx, InRange idx nv_M.shape → nv_B'.get idx = nv_v.get (pin nv_v.shape idx) :=
  unidir_get nv_M nv_v nv_M nv_B' (by simp [Proofs.Pos, nv_M]) (by simp [Proofs.Pos, nv_v]) (by decide)

/-- every failure of the helpers is the broadcast error — in particular never a panic -/
theorem unidir_error (A B : Tensor α) (e : Err) (h : unidirBroadcast A B = .error e) : e = .broadcast :=
  Proofs.unidir_error A B e h

-- non-vacuity: the matrix cannot be broadcast to the row
example : Err.broadcast = .broadcast := unidir_error nv_v nv_M .broadcast (by decide)

-- non-vacuity: a concrete compatible pair with a stretched axis on each side
example : Compatible [2, 1, 3] [4, 1] = true ∧ bshape [2, 1, 3] [4, 1] = [2, 4, 3] ∧
    pin [4, 1] [1, 3, 2] = [3, 0] ∧ Pos [2, 1, 3] := by
  refine ⟨by decide, by decide, by decide, ?_⟩
  intro n hn; simp at hn; omega

end Gonnx.C14
