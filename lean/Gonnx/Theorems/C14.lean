import Gonnx.Broadcast
import Gonnx.Spec.Broadcast
import Gonnx.Proofs.Broadcast
/-
C14 — the broadcast helpers implement ONNX multi- and unidirectional broadcasting.
Model: Gonnx/Broadcast.lean (mirrors ops/multidir_broadcast.go, ops/unidir_broadcast.go).
Spec:  Gonnx/Spec/Broadcast.lean (Compatible, bshape, pin).
Helper lemmas live in Gonnx/Proofs/Broadcast.lean; this file only states and concludes the
property theorems.
-/
namespace Gonnx.C14
open Gonnx Gonnx.Spec
variable {α : Type} [Inhabited α]

/-- all extents are ≥ 1 (the property quantifies over such shapes) -/
abbrev Pos := Proofs.Pos

/-- Two shapes broadcast iff, aligned at their last axes, every pair of extents is equal or
contains a 1; otherwise an error (never a panic, never a tensor). -/
theorem multidir_ok_iff (A B : Tensor α) :
    (multidirBroadcast A B).isOk = Compatible A.shape B.shape :=
  Proofs.multidir_ok_iff A B

theorem multidir_error (A B : Tensor α) (h : Compatible A.shape B.shape = false) :
    multidirBroadcast A B = .error .broadcast :=
  Proofs.multidir_error A B h

/-- both results have the elementwise-maximum shape -/
theorem multidir_shape (A B A' B' : Tensor α) (hA : Pos A.shape) (hB : Pos B.shape)
    (h : multidirBroadcast A B = .ok (A', B')) :
    A'.shape = bshape A.shape B.shape ∧ B'.shape = bshape A.shape B.shape :=
  Proofs.multidir_shape A B A' B' hA hB h

/-- the element at every index equals the source element at that index with stretched axes
pinned to 0 -/
theorem multidir_get (A B A' B' : Tensor α) (hA : Pos A.shape) (hB : Pos B.shape)
    (h : multidirBroadcast A B = .ok (A', B')) (idx : List Nat)
    (hidx : InRange idx (bshape A.shape B.shape)) :
    A'.get idx = A.get (pin A.shape idx) ∧ B'.get idx = B.get (pin B.shape idx) :=
  Proofs.multidir_get A B A' B' hA hB h idx hidx

/-- results are dense: data length = number of elements of the shape -/
theorem multidir_WF (A B A' B' : Tensor α) (hA : A.WF) (hB : B.WF)
    (h : multidirBroadcast A B = .ok (A', B')) : A'.WF ∧ B'.WF :=
  Proofs.multidir_WF A B A' B' hA hB h

/-- Unidirectional broadcasting additionally requires the result shape to be the first operand's -/
theorem unidir_ok_iff (A B : Tensor α) (hA : Pos A.shape) (hB : Pos B.shape) :
    (unidirBroadcast A B).isOk = (Compatible A.shape B.shape && (bshape A.shape B.shape == A.shape)) :=
  Proofs.unidir_ok_iff A B hA hB

/-- … and leaves the first operand as is -/
theorem unidir_fst (A B A' B' : Tensor α) (h : unidirBroadcast A B = .ok (A', B')) : A' = A :=
  Proofs.unidir_fst A B A' B' h

theorem unidir_get (A B A' B' : Tensor α) (hA : Pos A.shape) (hB : Pos B.shape)
    (h : unidirBroadcast A B = .ok (A', B')) :
    B'.shape = A.shape ∧ ∀ idx, InRange idx A.shape → B'.get idx = B.get (pin B.shape idx) :=
  Proofs.unidir_get A B A' B' hA hB h

/-- every failure of the helpers is the broadcast error — in particular never a panic -/
theorem unidir_error (A B : Tensor α) (e : Err) (h : unidirBroadcast A B = .error e) : e = .broadcast :=
  Proofs.unidir_error A B e h

-- non-vacuity: a concrete compatible pair with a stretched axis on each side
example : Compatible [2, 1, 3] [4, 1] = true ∧ bshape [2, 1, 3] [4, 1] = [2, 4, 3] ∧
    pin [4, 1] [1, 3, 2] = [3, 0] ∧ Pos [2, 1, 3] := by
  refine ⟨by decide, by decide, by decide, ?_⟩
  intro n hn; simp at hn; omega

end Gonnx.C14
