import Gonnx.Ops.Recurrent
import Gonnx.Spec.Recurrent
import Gonnx.Proofs.Binary
import Gonnx.Proofs.Recurrent
/-
C06 — RNN, GRU, LSTM implement the ONNX recurrences, consistently under splitting.
Model: Gonnx/Ops/Recurrent.lean (ops/opset13/{rnn,gru,lstm}.go after the fix: commits, through the
gorgonia slice / Gemm models). Spec: Gonnx/Spec/Recurrent.lean (index-level ONNX equations).
Arithmetic and activation functions are parameters; the only law used is `x · 1 = x` (Gemm's
alpha = beta = 1). PARTIAL: accuracy of exp/tanh and float reassociation are outside the model.
-/
namespace Gonnx.C06
open Gonnx
variable {α : Type} [Inhabited α]

abbrev Pos := Proofs.Pos
abbrev Equiv {β : Type} [Inhabited β] := @Proofs.Equiv β _

set_option linter.unusedSectionVars false in
/-- **Splitting at the level of the time loop**: running the steps over `xs ++ ys` is running them
over `xs` and then, from the state reached, over `ys`; the per-step outputs concatenate. -/
theorem runSteps_append {σ : Type} (step : σ → Tensor α → Res (σ × Tensor α)) (s : σ) (xs ys : List (Tensor α)) :
    runSteps step s (xs ++ ys) =
      match runSteps step s xs with
      | .error e => .error e
      | .ok (s1, h1) =>
        match runSteps step s1 ys with
        | .error e => .error e
        | .ok (s2, h2) => .ok (s2, h1 ++ h2) :=
  Proofs.Recurrent.runSteps_append step s xs ys

set_option linter.unusedSectionVars false in
/-- the same for the specification's iteration -/
theorem iterate_append {σ : Type} (step : Nat → σ → σ) (hid : σ → Tensor α) (n m t : Nat) (s : σ) :
    Spec.iterate step hid (n + m) t s =
      let r1 := Spec.iterate step hid n t s
      let r2 := Spec.iterate step hid m (t + n) r1.2
      (r1.1 ++ r2.1, r2.2) :=
  Proofs.Recurrent.iterate_append step hid n m t s

-- concrete instance shared by the non-vacuity examples below: seq = 2, batch = 2, input = 3, hidden = 2 over
-- `Int`, a bounded "squashing" activation `g`, a second activation `f`, packed weights filled with a pattern
private def nv_A : Arith Int := ⟨0, (· + ·), (· * ·), (· - ·)⟩
private def nv_f : Int → Int := fun v => v % 3
private def nv_g : Int → Int := fun v => if v > 4 then 4 else if v < -4 then -4 else v
private def nv_act : String → Option (Int → Int) := fun n => if n = "f" then some nv_f else if n = "g" then some nv_g else none
private def nv_seqT (shape : List Nat) (k : Int) : Tensor Int := ⟨shape, (List.range (prod shape)).map fun (n : Nat) => ((n : Int) * k) % 5 - 2⟩
private def nv_d : Spec.RecDims := ⟨2, 2, 3, 2⟩
private def nv_X : Tensor Int := ⟨[2, 2, 3], [1, -1, 2, 0, 1, 1, 2, 1, -2, 1, 0, 1]⟩
private def nv_H0 : Tensor Int := ⟨[1, 2, 2], [1, 0, -1, 2]⟩
private def nv_C0 : Tensor Int := ⟨[1, 2, 2], [0, 1, 1, -1]⟩

/-- an activation name outside the table is refused with the activation error (never ignored) -/
theorem rnn_unknown_activation (A : Arith α) (one : α) (getAct : String → Option (α → α)) (name : String)
    (hn : getAct name = none) (hidden : Nat) (X W R : Tensor α) (B H0 : Option (Tensor α))
    (y : Tensor α × Tensor α) :
    rnnOp A one getAct { hiddenSize := hidden, activations := [name] } X W R B none H0 ≠ .ok y := by
  intro h
  unfold rnnOp at h
  simp only [bind, Except.bind, throw, throwThe, MonadExceptOf.throw, Option.isSome_none,
    Bool.false_eq_true, if_false, List.getElem?_cons_zero, hn] at h
  repeat (split at h <;> try cases h)

-- non-vacuity: the activation table does not know "h"
example (y : Tensor Int × Tensor Int) :
    rnnOp nv_A 1 nv_act { hiddenSize := 2, activations := ["h"] } nv_X (nv_seqT [1, 2, 3] 3) (nv_seqT [1, 2, 2] 2) none none (some nv_H0) ≠ .ok y :=
  rnn_unknown_activation nv_A 1 nv_act "h" (by decide) 2 nv_X (nv_seqT [1, 2, 3] 3) (nv_seqT [1, 2, 2] 2) none (some nv_H0) y

/-- sequence_lens is refused -/
theorem seq_lens_refused (A : Arith α) (one : α) (getAct : String → Option (α → α)) (at0 : RecAttrs)
    (X W R sl : Tensor α) (B H0 C0 P : Option (Tensor α)) :
    rnnOp A one getAct at0 X W R B (some sl) H0 = .error .inputUnsupported ∧
    gruOp A one getAct at0 X W R B (some sl) H0 = .error .inputUnsupported ∧
    lstmOp A one getAct at0 X W R B (some sl) H0 C0 P = .error .inputUnsupported :=
  ⟨rfl, rfl, rfl⟩

-- `hn`, `hW` are part of the fixed statement; the block is read through `Tensor.get` only
set_option linter.unusedVariables false in
/-- `ExtractMatrices`: for `hidden ≥ 2` block `i` of a packed rank-3 weight tensor `(1, n·hidden, c)`
with `c ≥ 1` is the `(hidden, c)` matrix `M[0, i·hidden + j, k]` -/
theorem extractMatrices_get (M : Tensor α) (n hidden c : Nat) (hh : 2 ≤ hidden) (hc : 1 ≤ c) (hn : 1 ≤ n)
    (hs : M.shape = [1, n * hidden, c]) (hW : M.WF) (ms : List (Tensor α))
    (h : extractMatrices M n 3 hidden = .ok ms) (i : Nat) (hi : i < n) :
    ∃ m, ms[i]? = some m ∧ m.shape = [hidden, c] ∧ m.WF ∧
      ∀ j k, j < hidden → k < c → m.get [j, k] = M.get [0, i * hidden + j, k] :=
  Proofs.Recurrent.extractMatrices_get M n hidden c hh hc hs ms h i hi

-- non-vacuity: a packed (1, 3·2, 3) weight tensor (the GRU's W), block 1
example : ∃ m, [(⟨[2, 3], [-2, 1, -1, 2, 0, -2]⟩ : Tensor Int), ⟨[2, 3], [1, -1, 2, 0, -2, 1]⟩, ⟨[2, 3], [-1, 2, 0, -2, 1, -1]⟩][1]? = some m ∧
      m.shape = [2, 3] ∧ m.WF ∧ ∀ j k, j < 2 → k < 3 → m.get [j, k] = (nv_seqT [1, 6, 3] 3).get [0, 1 * 2 + j, k] :=
  extractMatrices_get (nv_seqT [1, 6, 3] 3) 3 2 3 (by decide) (by decide) (by decide) rfl rfl _ (by decide) 1 (by decide)

-- `hWX`, `hWW`, `hWR`, `hWB` are part of the fixed statement; these inputs are read through `Tensor.get` only
set_option linter.unusedVariables false in
/-- **RNN = ONNX recurrence** (partial): forward direction, any seq ≥ 1 and batch ≥ 1, with or
without bias and initial state — under the guards the code forces, `hidden_size ≥ 2` and
`input_size ≥ 2` (gorgonia drops extent-1 slice axes: known findings rec.hidden_size_1 /
rec.input_size_1). -/
theorem rnn_partial (A : Arith α) (one : α) (hone : ∀ v, A.mul v one = v)
    (getAct : String → Option (α → α)) (name : String) (f : α → α) (hact : getAct name = some f)
    (d : Spec.RecDims) (X W R : Tensor α) (B H0 : Option (Tensor α))
    (hh : 2 ≤ d.hidden) (hi : 2 ≤ d.input) (hb : 1 ≤ d.batch) (hsq : 1 ≤ d.seq)
    (hWX : X.WF) (hWW : W.WF) (hWR : R.WF) (hWB : ∀ b, B = some b → b.WF) (hWH : ∀ h, H0 = some h → h.WF)
    (s : Tensor α × Tensor α) (hs : Spec.rnn A f d X W R B H0 = some s) :
    ∃ y yh, rnnOp A one getAct { hiddenSize := d.hidden, activations := [name] } X W R B none H0 = .ok (y, yh) ∧
      Equiv y s.1 ∧ Equiv yh s.2 :=
  Proofs.Recurrent.rnn_partial A one hone getAct name f hact d X W R B H0 hh hi hb hsq hWH s hs

-- non-vacuity: seq 2, batch 2, input 3, hidden 2, with bias and initial state; `nv_rnnS` is the ONNX value
private def nv_rnnS : Tensor Int × Tensor Int := (⟨[2, 1, 2, 2], [-4, 0, 0, -4, 4, 0, -4, 4]⟩, ⟨[1, 2, 2], [4, 0, -4, 4]⟩)
example : ∃ y yh, rnnOp nv_A 1 nv_act { hiddenSize := nv_d.hidden, activations := ["g"] } nv_X (nv_seqT [1, 2, 3] 3) (nv_seqT [1, 2, 2] 2) (some (nv_seqT [1, 4] 1)) none (some nv_H0) = .ok (y, yh) ∧
      Equiv y nv_rnnS.1 ∧ Equiv yh nv_rnnS.2 :=
  rnn_partial nv_A 1 Int.mul_one nv_act "g" nv_g rfl nv_d nv_X (nv_seqT [1, 2, 3] 3) (nv_seqT [1, 2, 2] 2) (some (nv_seqT [1, 4] 1)) (some nv_H0)
    (by decide) (by decide) (by decide) (by decide) rfl rfl rfl (by intro b h; cases h; rfl) (by intro b h; cases h; rfl)
    nv_rnnS (by decide)

set_option linter.unusedVariables false in
/-- **GRU = ONNX recurrence** (partial, same guards), both values of linear_before_reset -/
theorem gru_partial (A : Arith α) (one : α) (hone : ∀ v, A.mul v one = v)
    (getAct : String → Option (α → α)) (n1 n2 : String) (f g : α → α) (h1 : getAct n1 = some f) (h2 : getAct n2 = some g)
    (lbr : Bool) (d : Spec.RecDims) (X W R : Tensor α) (B H0 : Option (Tensor α))
    (hh : 2 ≤ d.hidden) (hi : 2 ≤ d.input) (hb : 1 ≤ d.batch) (hsq : 1 ≤ d.seq)
    (hWX : X.WF) (hWW : W.WF) (hWR : R.WF) (hWB : ∀ b, B = some b → b.WF) (hWH : ∀ h, H0 = some h → h.WF)
    (s : Tensor α × Tensor α) (hs : Spec.gru A one f g lbr d X W R B H0 = some s) :
    ∃ y yh, gruOp A one getAct { hiddenSize := d.hidden, activations := [n1, n2], linearBeforeReset := lbr } X W R B none H0 = .ok (y, yh) ∧
      Equiv y s.1 ∧ Equiv yh s.2 :=
  Proofs.Recurrent.gru_partial A one hone getAct n1 n2 f g h1 h2 lbr d X W R B H0 hh hi hb hsq hWH s hs

-- non-vacuity: the same dimensions, both values of linear_before_reset; `nv_gruS lbr` is the ONNX value
private def nv_gruS (lbr : Bool) : Tensor Int × Tensor Int :=
  if lbr then (⟨[2, 1, 2, 2], [6, 4, -6, 6, 16, -4, 4, 8]⟩, ⟨[1, 2, 2], [16, -4, 4, 8]⟩)
  else (⟨[2, 1, 2, 2], [6, 4, -4, 7, 16, -4, -11, 12]⟩, ⟨[1, 2, 2], [16, -4, -11, 12]⟩)
example (lbr : Bool) : ∃ y yh, gruOp nv_A 1 nv_act { hiddenSize := nv_d.hidden, activations := ["f", "g"], linearBeforeReset := lbr } nv_X
        (nv_seqT [1, 6, 3] 3) (nv_seqT [1, 6, 2] 2) (some (nv_seqT [1, 12] 1)) none (some nv_H0) = .ok (y, yh) ∧
      Equiv y (nv_gruS lbr).1 ∧ Equiv yh (nv_gruS lbr).2 :=
  gru_partial nv_A 1 Int.mul_one nv_act "f" "g" nv_f nv_g rfl rfl lbr nv_d nv_X (nv_seqT [1, 6, 3] 3) (nv_seqT [1, 6, 2] 2) (some (nv_seqT [1, 12] 1)) (some nv_H0)
    (by decide) (by decide) (by decide) (by decide) rfl rfl rfl (by intro b h; cases h; rfl) (by intro b h; cases h; rfl)
    (nv_gruS lbr) (by cases lbr <;> decide)

set_option linter.unusedVariables false in
/-- **LSTM = ONNX recurrence** (partial, same guards), every subset of bias / initial hidden state /
initial cell state / peepholes -/
theorem lstm_partial (A : Arith α) (one : α) (hone : ∀ v, A.mul v one = v)
    (getAct : String → Option (α → α)) (n1 n2 n3 : String) (f g h : α → α)
    (h1 : getAct n1 = some f) (h2 : getAct n2 = some g) (h3 : getAct n3 = some h)
    (d : Spec.RecDims) (X W R : Tensor α) (B H0 C0 P : Option (Tensor α))
    (hh : 2 ≤ d.hidden) (hi : 2 ≤ d.input) (hb : 1 ≤ d.batch) (hsq : 1 ≤ d.seq)
    (hWX : X.WF) (hWW : W.WF) (hWR : R.WF) (hWB : ∀ b, B = some b → b.WF) (hWH : ∀ t, H0 = some t → t.WF)
    (hWC : ∀ t, C0 = some t → t.WF) (hWP : ∀ t, P = some t → t.WF)
    (s : Tensor α × Tensor α × Tensor α) (hs : Spec.lstm A f g h d X W R B H0 C0 P = some s) :
    ∃ y yh yc, lstmOp A one getAct { hiddenSize := d.hidden, activations := [n1, n2, n3] } X W R B none H0 C0 P = .ok (y, yh, yc) ∧
      Equiv y s.1 ∧ Equiv yh s.2.1 ∧ Equiv yc s.2.2 :=
  Proofs.Recurrent.lstm_partial A one hone getAct n1 n2 n3 f g h h1 h2 h3 d X W R B H0 C0 P hh hi hb hsq
    hWH hWC s hs

-- non-vacuity: the same dimensions with bias, initial hidden and cell state and peepholes; `nv_lstmS` is the ONNX value
private def nv_lstmS : Tensor Int × Tensor Int × Tensor Int :=
  (⟨[2, 1, 2, 2], [0, 2, -4, 0, 8, 0, -8, -4]⟩, ⟨[1, 2, 2], [8, 0, -8, -4]⟩, ⟨[1, 2, 2], [8, -8, -16, -19]⟩)
example : ∃ y yh yc, lstmOp nv_A 1 nv_act { hiddenSize := nv_d.hidden, activations := ["f", "g", "g"] } nv_X
        (nv_seqT [1, 8, 3] 3) (nv_seqT [1, 8, 2] 2) (some (nv_seqT [1, 16] 1)) none (some nv_H0) (some nv_C0) (some (nv_seqT [1, 6] 4)) = .ok (y, yh, yc) ∧
      Equiv y nv_lstmS.1 ∧ Equiv yh nv_lstmS.2.1 ∧ Equiv yc nv_lstmS.2.2 :=
  lstm_partial nv_A 1 Int.mul_one nv_act "f" "g" "g" nv_f nv_g nv_g rfl rfl rfl nv_d nv_X
    (nv_seqT [1, 8, 3] 3) (nv_seqT [1, 8, 2] 2) (some (nv_seqT [1, 16] 1)) (some nv_H0) (some nv_C0) (some (nv_seqT [1, 6] 4))
    (by decide) (by decide) (by decide) (by decide) rfl rfl rfl (by intro b h; cases h; rfl) (by intro b h; cases h; rfl)
    (by intro b h; cases h; rfl) (by intro b h; cases h; rfl) nv_lstmS (by decide)

/-- hidden_size = 1 is refused although ONNX defines the result (known finding) -/
theorem rnn_counterexample_hidden_1 :
    let A : Arith Int := ⟨0, (· + ·), (· * ·), (· - ·)⟩
    let act : String → Option (Int → Int) := fun _ => some fun v => if v > 0 then v else 0
    (∃ e, rnnOp A 1 act { hiddenSize := 1, activations := ["relu"] } ⟨[1, 1, 2], [1, 2]⟩ ⟨[1, 1, 2], [1, 1]⟩ ⟨[1, 1, 1], [1]⟩ none none none = .error e) ∧
    (Spec.rnn A (fun v => if v > 0 then v else 0) ⟨1, 1, 2, 1⟩ ⟨[1, 1, 2], [1, 2]⟩ ⟨[1, 1, 2], [1, 1]⟩ ⟨[1, 1, 1], [1]⟩ none none).isSome = true := by
  intro A act
  exact ⟨⟨.gorgonia, by decide⟩, by decide⟩

end Gonnx.C06
