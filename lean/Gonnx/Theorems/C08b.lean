import Gonnx.Ops.Index
import Gonnx.Spec.Index
import Gonnx.Proofs.Index
import Gonnx.Proofs.Index2
/-
C08, second part — Slice on SEVERAL axes at once (any subset of the axes, in any order, negative
spellings of the AXES allowed), and Slice with the default axes / steps.

Negative spellings of starts / ends are NOT covered: `constructSlices` hands `starts[i]`, `ends[i]`
to gorgonia as they are, and gorgonia refuses a negative start and an end below the start
(`slice_multi_counterexample`, `slice_guard_*`).  The statement first drafted (guards without the
sign clauses and without the clause on an empty `axes`) is kept as `slice_multi_statement` and refuted.
-/
namespace Gonnx.C08
open Gonnx Gonnx.Proofs
variable {α : Type} [Inhabited α]

/-! ### the statement as first drafted, and its refutation -/

/-- the guards as first drafted: a positive step, a result extent ≥ 2 on every sliced axis, and on
axis 0 a step dividing the clamped extent -/
def SliceGuardsDraft (t : Tensor α) (starts ends axes steps : List Int) (s : Tensor α) : Prop :=
  ∀ i, i < axes.length →
    let a := (if axes.getD i 0 < 0 then axes.getD i 0 + (t.shape.length : Int) else axes.getD i 0).toNat
    1 ≤ steps.getD i 1 ∧ 2 ≤ dim s.shape a ∧
    (a = 0 → ∃ st e n, Spec.sliceAxis (dim t.shape 0) (starts.getD i 0) (ends.getD i 0) (steps.getD i 1) = some (st, e, n) ∧
      ((if (if ends.getD i 0 < 0 then ends.getD i 0 + (dim t.shape 0 : Int) else ends.getD i 0) > (dim t.shape 0 : Int) then (dim t.shape 0 : Int)
        else (if ends.getD i 0 < 0 then ends.getD i 0 + (dim t.shape 0 : Int) else ends.getD i 0)) - st) % steps.getD i 1 = 0)

/-- the drafted clause "with `SliceGuardsDraft` the operator returns the ONNX slice" -/
def slice_multi_statement : Prop :=
  ∀ (α : Type) [Inhabited α] (t : Tensor α) (starts ends axes steps : List Int),
    t.WF → Pos t.shape →
    ∀ s : Tensor α, Spec.slice t starts ends axes steps = some s →
      SliceGuardsDraft t starts ends axes steps s →
      ∃ m, sliceOp t starts ends (some axes) (some steps) = .ok m ∧ Equiv m s

/-- it is false: a negative start (here `-3` on an axis of extent 4, i.e. position 1) is defined by
ONNX and refused by gorgonia -/
theorem slice_multi_counterexample : ¬ slice_multi_statement := by
  intro h
  obtain ⟨m, hm, _⟩ := h Nat ⟨[4], [0, 1, 2, 3]⟩ [-3] [4] [0] [1]
    (by unfold Tensor.WF; decide) (by unfold Proofs.Pos; decide)
    ⟨[3], [1, 2, 3]⟩ (by decide)
    (by
      intro i hi
      have : i = 0 := by simpa using hi
      subst this
      exact ⟨by decide, by decide, fun _ => ⟨1, 1, 3, by decide, by decide⟩⟩)
  have : sliceOp (⟨[4], [0, 1, 2, 3]⟩ : Tensor Nat) [-3] [4] (some [0]) (some [1]) = .error .gorgonia := by
    decide
  rw [this] at hm
  cases hm

/-- the drafted clause is also false without any negative number: with an empty `axes` a tensor with
one element is collapsed to a scalar -/
theorem slice_multi_counterexample_empty_axes :
    SliceGuardsDraft (⟨[1, 1], [7]⟩ : Tensor Nat) [] [] [] [] ⟨[1, 1], [7]⟩ ∧
    Spec.slice (⟨[1, 1], [7]⟩ : Tensor Nat) [] [] [] [] = some ⟨[1, 1], [7]⟩ ∧
    sliceOp (⟨[1, 1], [7]⟩ : Tensor Nat) [] [] (some []) (some []) = .ok ⟨[], [7]⟩ :=
  ⟨fun i hi => absurd hi (by simp), by decide, by decide⟩

/-- the drafted clause for the default axes and steps -/
def slice_defaults_statement : Prop :=
  ∀ (α : Type) [Inhabited α] (t : Tensor α) (starts ends : List Int),
    t.WF → Pos t.shape →
    ∀ s : Tensor α,
      Spec.slice t starts ends ((List.range starts.length).map fun (i : Nat) => (i : Int))
        (List.replicate starts.length 1) = some s →
      SliceGuardsDraft t starts ends ((List.range starts.length).map fun (i : Nat) => (i : Int))
        (List.replicate starts.length 1) s →
      ∃ m, sliceOp t starts ends none none = .ok m ∧ Equiv m s

theorem slice_defaults_counterexample : ¬ slice_defaults_statement := by
  intro h
  obtain ⟨m, hm, _⟩ := h Nat ⟨[4], [0, 1, 2, 3]⟩ [-3] [4]
    (by unfold Tensor.WF; decide) (by unfold Proofs.Pos; decide)
    ⟨[3], [1, 2, 3]⟩ (by decide)
    (by
      intro i hi
      have : i = 0 := by simpa using hi
      subst this
      exact ⟨by decide, by decide, fun _ => ⟨1, 1, 3, by decide, by decide⟩⟩)
  have : sliceOp (⟨[4], [0, 1, 2, 3]⟩ : Tensor Nat) [-3] [4] none none = .error .gorgonia := by
    decide
  rw [this] at hm
  cases hm

/-! ### the corrected guards -/

/-- The guards the code forces on a Slice request whose ONNX result is `s`.  On the grid (ranks 1–3,
extents 1–4, every subset / order / spelling of the axes, starts and ends from below `-extent` to
beyond `extent`, steps `-2 … 3`) they hold exactly when the operator returns `s`.

* `axes = [] → t.shape = [] ∨ 2 ≤ prod t.shape` — gorgonia collapses a selection of exactly one
  element to a scalar.  With a sliced axis of extent ≥ 2 that cannot happen, whatever the unsliced
  extents are; with no sliced axis it happens for an input with one element and rank ≥ 1: shape
  `[1]`, no axes: ONNX `[1]`, operator `[]` (`slice_guard_empty_axes`).
* for every position `i` of `axes`, naming axis `a`:
  * `1 ≤ steps[i]` — a negative step is handed to gorgonia, which refuses `start > end`: shape `[4]`,
    start 3, end 0, step -1: ONNX `[3, 2, 1]`, operator error (`slice_guard_step`).
  * `0 ≤ starts[i]` — a negative start is not offset by the extent: shape `[4]`, start -3, end 4:
    ONNX `[1, 2, 3]`, operator error (`slice_guard_start`).
  * `0 ≤ ends[i]` — neither is a negative end: shape `[4]`, start 0, end -1: ONNX `[0, 1, 2]`,
    operator error (`slice_guard_end`).
  * `2 ≤ dim s.shape a` — gorgonia drops a sliced axis of extent 1 (`slice_counterexample_extent1`);
    an empty result is not modelled.  (Together with the two sign clauses this forces
    `starts[i] < min(ends[i], dim t.shape a)`.)
  * on axis 0 the step divides `min(ends[i], dim t.shape 0) - starts[i]` — otherwise gorgonia rounds
    the extent down instead of up (`slice_counterexample_axis0_step`). -/
def SliceGuards (t : Tensor α) (starts ends axes steps : List Int) (s : Tensor α) : Prop :=
  (axes = [] → t.shape = [] ∨ 2 ≤ prod t.shape) ∧
  ∀ i, i < axes.length →
    let a := (if axes.getD i 0 < 0 then axes.getD i 0 + (t.shape.length : Int) else axes.getD i 0).toNat
    1 ≤ steps.getD i 1 ∧ 0 ≤ starts.getD i 0 ∧ 0 ≤ ends.getD i 0 ∧ 2 ≤ dim s.shape a ∧
    (a = 0 → ((if ends.getD i 0 > (dim t.shape 0 : Int) then (dim t.shape 0 : Int) else ends.getD i 0)
      - starts.getD i 0) % steps.getD i 1 = 0)

-- `hW` is part of the fixed statement; the result is tabulated (`ofFn`), hence dense, whatever the input
set_option linter.unusedVariables false in
/-- **Slice on several axes** (partial): whenever ONNX defines the slice (`Spec.slice … = some s`) and
the guards above hold on every sliced axis, the operator returns it. -/
theorem slice_multi_partial (t : Tensor α) (starts ends axes steps : List Int)
    (hW : t.WF) (hpos : Pos t.shape)
    (s : Tensor α) (hs : Spec.slice t starts ends axes steps = some s)
    (hg : SliceGuards t starts ends axes steps s) :
    ∃ m, sliceOp t starts ends (some axes) (some steps) = .ok m ∧ Equiv m s :=
  Proofs.Index2.slice_multi t starts ends axes steps hpos s hs hg.1 hg.2

-- non-vacuity: a 3×4 tensor, axes [-1, 0]: columns 1, 3 of rows 1, 2 — every hypothesis is discharged
private def nv_m : Tensor Nat := ⟨[3, 4], List.range 12⟩
example : ∃ m, sliceOp nv_m [1, 1] [9, 3] (some [-1, 0]) (some [2, 1]) = .ok m ∧ Equiv m ⟨[2, 2], [5, 7, 9, 11]⟩ :=
  slice_multi_partial nv_m [1, 1] [9, 3] [-1, 0] [2, 1] rfl (by simp [Proofs.Pos, nv_m]) _ (by decide) (by unfold SliceGuards; decide)

set_option linter.unusedVariables false in
/-- default axes (`0 … len(starts)-1`) and default steps (all 1) -/
theorem slice_defaults_partial (t : Tensor α) (starts ends : List Int)
    (hW : t.WF) (hpos : Pos t.shape)
    (s : Tensor α)
    (hs : Spec.slice t starts ends ((List.range starts.length).map fun (i : Nat) => (i : Int)) (List.replicate starts.length 1) = some s)
    (hg : SliceGuards t starts ends ((List.range starts.length).map fun (i : Nat) => (i : Int)) (List.replicate starts.length 1) s) :
    ∃ m, sliceOp t starts ends none none = .ok m ∧ Equiv m s :=
  Proofs.Index2.slice_multi t starts ends _ _ hpos s hs hg.1 hg.2

-- non-vacuity: default axes and steps on the same tensor: rows 1..2, columns 1..3
example : ∃ m, sliceOp nv_m [1, 1] [3, 4] none none = .ok m ∧ Equiv m ⟨[2, 3], [5, 6, 7, 9, 10, 11]⟩ :=
  slice_defaults_partial nv_m [1, 1] [3, 4] rfl (by simp [Proofs.Pos, nv_m]) _ (by decide) (by unfold SliceGuards; decide)

/-! ### every clause of the guards is needed -/

theorem slice_guard_empty_axes :
    (sliceOp (⟨[1], [7]⟩ : Tensor Nat) [] [] (some []) (some [])).toOption.map (·.shape) = some [] ∧
    (Spec.slice (⟨[1], [7]⟩ : Tensor Nat) [] [] [] []).map (·.shape) = some [1] := by decide

theorem slice_guard_step :
    sliceOp (⟨[4], [0, 1, 2, 3]⟩ : Tensor Nat) [3] [0] (some [0]) (some [-1]) = .error .gorgonia ∧
    (Spec.slice (⟨[4], [0, 1, 2, 3]⟩ : Tensor Nat) [3] [0] [0] [-1]).map (·.data) = some [3, 2, 1] := by decide

theorem slice_guard_start :
    sliceOp (⟨[4], [0, 1, 2, 3]⟩ : Tensor Nat) [-3] [4] (some [0]) (some [1]) = .error .gorgonia ∧
    (Spec.slice (⟨[4], [0, 1, 2, 3]⟩ : Tensor Nat) [-3] [4] [0] [1]).map (·.data) = some [1, 2, 3] := by decide

theorem slice_guard_end :
    sliceOp (⟨[4], [0, 1, 2, 3]⟩ : Tensor Nat) [0] [-1] (some [0]) (some [1]) = .error .gorgonia ∧
    (Spec.slice (⟨[4], [0, 1, 2, 3]⟩ : Tensor Nat) [0] [-1] [0] [1]).map (·.data) = some [0, 1, 2] := by decide

/-- unsliced axes of extent 1 and a sliced axis next to them do no harm: no scalar collapse -/
theorem slice_unsliced_extent1 :
    sliceOp (⟨[1, 4, 1], [0, 1, 2, 3]⟩ : Tensor Nat) [1] [9] (some [-2]) (some [2]) = .ok ⟨[1, 2, 1], [1, 3]⟩ ∧
    Spec.slice (⟨[1, 4, 1], [0, 1, 2, 3]⟩ : Tensor Nat) [1] [9] [-2] [2] = some ⟨[1, 2, 1], [1, 3]⟩ := by decide

/-- duplicate axes are refused by ONNX (`hs` excludes them); the operator keeps the last one -/
theorem slice_duplicate_axes :
    Spec.slice (⟨[4], [0, 1, 2, 3]⟩ : Tensor Nat) [0, 1] [2, 4] [0, -1] [1, 1] = none ∧
    (sliceOp (⟨[4], [0, 1, 2, 3]⟩ : Tensor Nat) [0, 1] [2, 4] (some [0, -1]) (some [1, 1])).toOption.map (·.data)
      = some [1, 2, 3] := by decide

/-! ### non-vacuity -/

-- a 3×4 tensor, axes [-1, 0]: columns 1, 3 of rows 1, 2
example :
    Spec.slice (⟨[3, 4], List.range 12⟩ : Tensor Nat) [1, 1] [9, 3] [-1, 0] [2, 1] = some ⟨[2, 2], [5, 7, 9, 11]⟩ ∧
    SliceGuards (⟨[3, 4], List.range 12⟩ : Tensor Nat) [1, 1] [9, 3] [-1, 0] [2, 1] ⟨[2, 2], [5, 7, 9, 11]⟩ ∧
    sliceOp (⟨[3, 4], List.range 12⟩ : Tensor Nat) [1, 1] [9, 3] (some [-1, 0]) (some [2, 1]) = .ok ⟨[2, 2], [5, 7, 9, 11]⟩ := by
  unfold SliceGuards
  decide

-- a 4×3 tensor, axes [0, 1], step 2 on axis 0 (it divides the extent): rows 0, 2, columns 0, 1
example :
    Spec.slice (⟨[4, 3], List.range 12⟩ : Tensor Nat) [0, 0] [4, 2] [0, 1] [2, 1] = some ⟨[2, 2], [0, 1, 6, 7]⟩ ∧
    SliceGuards (⟨[4, 3], List.range 12⟩ : Tensor Nat) [0, 0] [4, 2] [0, 1] [2, 1] ⟨[2, 2], [0, 1, 6, 7]⟩ ∧
    sliceOp (⟨[4, 3], List.range 12⟩ : Tensor Nat) [0, 0] [4, 2] (some [0, 1]) (some [2, 1]) = .ok ⟨[2, 2], [0, 1, 6, 7]⟩ := by
  unfold SliceGuards
  decide

-- default axes and steps on the same tensor: rows 1..2, columns 1..3
example :
    Spec.slice (⟨[3, 4], List.range 12⟩ : Tensor Nat) [1, 1] [3, 4] [0, 1] [1, 1] = some ⟨[2, 3], [5, 6, 7, 9, 10, 11]⟩ ∧
    SliceGuards (⟨[3, 4], List.range 12⟩ : Tensor Nat) [1, 1] [3, 4]
      ((List.range 2).map fun (i : Nat) => (i : Int)) (List.replicate 2 1) ⟨[2, 3], [5, 6, 7, 9, 10, 11]⟩ ∧
    sliceOp (⟨[3, 4], List.range 12⟩ : Tensor Nat) [1, 1] [3, 4] none none = .ok ⟨[2, 3], [5, 6, 7, 9, 10, 11]⟩ := by
  unfold SliceGuards
  decide

end Gonnx.C08
