import Gonnx.Ops.MatMul
import Mathlib.Algebra.BigOperators.Group.Finset.Basic
import Mathlib.Algebra.Order.BigOperators.Ring.Finset
import Mathlib.Data.Real.Basic
import Mathlib.Tactic.Ring
import Mathlib.Tactic.Linarith
import Mathlib.Tactic.Positivity
import Mathlib.Tactic.GCongr
import Mathlib.Tactic.Push
/-
C04, the clause "values within the rounding error bound of the dot-product length". Every entry of
MatMul / Gemm / LinearRegressor is `Gonnx.sumRange A k (fun l => A.mul (a l) (b l))` - one fixed-order
dot product (`Ops/MatMul.lean`). Here `A` is instantiated with ROUNDED real arithmetic: any rounding
function `rnd` with relative error at most `u` (IEEE round-to-nearest without overflow / underflow:
u = 2^-24 for float32, 2^-53 for float64). The theorem is the classical forward error bound: the computed
dot product differs from the exact one by at most ((1+u)^(n+1) - 1) * Σ |x_k * y_k|  (≈ (n+1) u Σ|x_k y_k|).
It is what the tolerance of the float streams of C04 / C05 / C06 / C16 stands on. Not proved: that Go's
float operations satisfy `Rounding` (IEEE-754, trusted), the summation order inside gonum's blocked
kernels (any order obeys the same bound; the model's order is the one proved).
-/
namespace Gonnx.C04b
open Gonnx Finset

/-- a rounding function with relative error at most `u` -/
structure Rounding (rnd : ℝ → ℝ) (u : ℝ) : Prop where
  u_nonneg : 0 ≤ u
  err : ∀ x, |rnd x - x| ≤ u * |x|

/-- real arithmetic with every result rounded -/
noncomputable def roundedArith (rnd : ℝ → ℝ) : Arith ℝ :=
  { zero := 0, add := fun a b => rnd (a + b), mul := fun a b => rnd (a * b), sub := fun a b => rnd (a - b) }


private theorem sumRange_succ {α : Type} (A : Arith α) (n : Nat) (f : Nat → α) :
    sumRange A (n + 1) f = A.add (sumRange A n f) (f n) := by
  simp [sumRange, List.range_succ, List.foldl_append]

private theorem sumRange_zero {α : Type} (A : Arith α) (f : Nat → α) :
    sumRange A 0 f = A.zero := by
  simp [sumRange]

private theorem real_step {u P T Q E D R Z : ℝ} (hu : 0 ≤ u) (hP : 1 + u ≤ P) (hQ : 0 ≤ Q)
    (hR : R ≤ u * Z) (hZ : Z ≤ E + T + D + Q) (hD : D ≤ u * Q) (hE : E ≤ (P - 1) * T) :
    R + E + D ≤ (P * (1 + u) - 1) * (T + Q) := by
  have hu1 : 0 ≤ 1 + u := by linarith
  have h1 : u * Z ≤ u * (E + T + D + Q) := mul_le_mul_of_nonneg_left hZ hu
  have h2 : (1 + u) * E ≤ (1 + u) * ((P - 1) * T) := mul_le_mul_of_nonneg_left hE hu1
  have h3 : (1 + u) * D ≤ (1 + u) * (u * Q) := mul_le_mul_of_nonneg_left hD hu1
  have h4 : ((1 + u) * (1 + u)) * Q ≤ (P * (1 + u)) * Q :=
    mul_le_mul_of_nonneg_right (mul_le_mul_of_nonneg_right hP hu1) hQ
  nlinarith [h1, h2, h3, h4]

private theorem pow_mul_one_sub_le (u : ℝ) (hu : 0 ≤ u) (m : Nat) :
    (1 + u) ^ m * (1 - (m : ℝ) * u) ≤ 1 := by
  induction m with
  | zero => simp
  | succ m ih =>
    have hp : 0 ≤ (1 + u) ^ m := by positivity
    have hm : 0 ≤ (m : ℝ) := Nat.cast_nonneg m
    have key : (1 + u) * (1 - ((m : ℝ) + 1) * u) ≤ 1 - (m : ℝ) * u := by
      nlinarith [mul_nonneg (mul_nonneg hm hu) hu, mul_nonneg hu hu]
    have := mul_le_mul_of_nonneg_left key hp
    rw [pow_succ]
    push_cast
    nlinarith [this]

private theorem pow_sub_one_le_linear (u : ℝ) (hu : 0 ≤ u) (m : Nat) (hm : (m : ℝ) * u ≤ 1 / 2) :
    (1 + u) ^ m - 1 ≤ 2 * (m : ℝ) * u := by
  have h := pow_mul_one_sub_le u hu m
  have ht : 0 ≤ (m : ℝ) * u := mul_nonneg (Nat.cast_nonneg m) hu
  have hpos : 0 < 1 - (m : ℝ) * u := by linarith
  have h2 : (1 + u) ^ m * (1 - (m : ℝ) * u) ≤ (1 + 2 * ((m : ℝ) * u)) * (1 - (m : ℝ) * u) := by
    nlinarith [mul_nonneg ht (by linarith : (0 : ℝ) ≤ 1 - 2 * ((m : ℝ) * u))]
  have := le_of_mul_le_mul_right h2 hpos
  linarith

/-- **forward error of the fixed-order dot product** -/
theorem dot_error (rnd : ℝ → ℝ) (u : ℝ) (h : Rounding rnd u) (n : Nat) (x y : Nat → ℝ) :
    |sumRange (roundedArith rnd) n (fun k => (roundedArith rnd).mul (x k) (y k)) - ∑ k ∈ range n, x k * y k|
      ≤ ((1 + u) ^ (n + 1) - 1) * ∑ k ∈ range n, |x k * y k| := by
  have hu := h.u_nonneg
  induction n with
  | zero => simp [sumRange_zero, roundedArith]
  | succ n ih =>
    rw [sumRange_succ, Finset.sum_range_succ, Finset.sum_range_succ]
    set s := sumRange (roundedArith rnd) n (fun k => (roundedArith rnd).mul (x k) (y k)) with hs
    set S := ∑ k ∈ range n, x k * y k with hS
    set T := ∑ k ∈ range n, |x k * y k| with hT
    have hST : |S| ≤ T := Finset.abs_sum_le_sum_abs _ _
    show |rnd (s + rnd (x n * y n)) - (S + x n * y n)| ≤ _
    set q := x n * y n with hq
    set p := rnd q with hp
    have hR := h.err (s + p)
    have hD : |p - q| ≤ u * |q| := h.err q
    have hZ : |s + p| ≤ |s - S| + T + |p - q| + |q| := by
      have e : s + p = (s - S) + S + (p - q) + q := by ring
      calc |s + p| = |(s - S) + S + (p - q) + q| := by rw [← e]
        _ ≤ |(s - S) + S + (p - q)| + |q| := abs_add_le _ _
        _ ≤ |(s - S) + S| + |p - q| + |q| := by gcongr; exact abs_add_le _ _
        _ ≤ |s - S| + |S| + |p - q| + |q| := by gcongr; exact abs_add_le _ _
        _ ≤ |s - S| + T + |p - q| + |q| := by gcongr
    have hP : 1 + u ≤ (1 + u) ^ (n + 1) := by
      have h1 : (1 : ℝ) ≤ 1 + u := by linarith
      calc 1 + u = (1 + u) ^ 1 := (pow_one _).symm
        _ ≤ (1 + u) ^ (n + 1) := pow_le_pow_right₀ h1 (by omega)
    have hgoal : |rnd (s + p) - (S + q)| ≤ |rnd (s + p) - (s + p)| + |s - S| + |p - q| := by
      have e : rnd (s + p) - (S + q) = (rnd (s + p) - (s + p)) + (s - S) + (p - q) := by ring
      calc |rnd (s + p) - (S + q)| = |(rnd (s + p) - (s + p)) + (s - S) + (p - q)| := by rw [← e]
        _ ≤ |(rnd (s + p) - (s + p)) + (s - S)| + |p - q| := abs_add_le _ _
        _ ≤ |rnd (s + p) - (s + p)| + |s - S| + |p - q| := by gcongr; exact abs_add_le _ _
    have := real_step hu hP (abs_nonneg q) hR hZ hD ih
    rw [pow_succ (1 + u) (n + 1)]
    exact hgoal.trans this

/-- exact arithmetic (`rnd = id`, `u = 0`) computes the exact dot product -/
theorem dot_exact (n : Nat) (x y : Nat → ℝ) :
    sumRange (roundedArith id) n (fun k => (roundedArith id).mul (x k) (y k)) = ∑ k ∈ range n, x k * y k := by
  induction n with
  | zero => simp [sumRange_zero, roundedArith]
  | succ n ih =>
    rw [sumRange_succ, Finset.sum_range_succ, ih]
    simp [roundedArith]

/-- first-order reading of the bound: for (n+1)·u ≤ 1/2 it is at most 2 (n+1) u Σ|x_k y_k| -/
theorem dot_error_linear (rnd : ℝ → ℝ) (u : ℝ) (h : Rounding rnd u) (n : Nat) (x y : Nat → ℝ)
    (hu : ((n : ℝ) + 1) * u ≤ 1 / 2) :
    |sumRange (roundedArith rnd) n (fun k => (roundedArith rnd).mul (x k) (y k)) - ∑ k ∈ range n, x k * y k|
      ≤ 2 * ((n : ℝ) + 1) * u * ∑ k ∈ range n, |x k * y k| := by
  have hT : 0 ≤ ∑ k ∈ range n, |x k * y k| := Finset.sum_nonneg (fun _ _ => abs_nonneg _)
  have hlin := pow_sub_one_le_linear u h.u_nonneg (n + 1) (by push_cast; exact hu)
  push_cast at hlin
  exact (dot_error rnd u h n x y).trans (mul_le_mul_of_nonneg_right hlin hT)

-- non-vacuity: the identity is a rounding with u = 0, and then the bound says the result is exact
example : Rounding id 0 := ⟨le_refl 0, fun x => by simp⟩
example (x y : Nat → ℝ) :
    |sumRange (roundedArith id) 3 (fun k => (roundedArith id).mul (x k) (y k)) - ∑ k ∈ range 3, x k * y k| ≤ 0 := by
  have := dot_error id 0 ⟨le_refl 0, fun x => by simp⟩ 3 x y
  simpa using this

end Gonnx.C04b
