import Gonnx.Ops.Reduce
import Gonnx.Spec.Reduce
import Gonnx.Proofs.Binary
import Gonnx.Proofs.Reduce
/-
C09 — ArgMax, ReduceMax/Min, Softmax, LogSoftmax act on exactly the requested axes.
Model: Gonnx/Ops/Reduce.lean. Spec: Gonnx/Spec/Reduce.lean.
The order on elements is a parameter: `le` total and transitive (NaN-free data), `lt a b = !le b a`.
-/
namespace Gonnx.C09
open Gonnx
variable {α : Type} [Inhabited α]

abbrev Pos := Proofs.Pos
abbrev Equiv {β : Type} [Inhabited β] := @Proofs.Equiv β _

-- `TotalLe le` (a total preorder given by a Boolean `le`) is defined in Gonnx/Proofs/Reduce.lean,
-- still in namespace `Gonnx.C09`.

-- concrete instance shared by the non-vacuity examples below: `≤` on `Int` (`TotalLe` by
-- `Proofs.Reduce.totalLe_int`, antisymmetric by `Proofs.Reduce.antisymm_int`), tensors with ties
private def nv_le : Int → Int → Bool := fun a b => decide (a ≤ b)
private def nv_t : Tensor Int := ⟨[2, 3], [1, 5, 5, 7, 2, 7]⟩
private def nv_u : Tensor Int := ⟨[2, 3, 2], [1, 5, 5, 7, 2, 7, -3, 0, 9, 4, 4, 8]⟩
private def nv_lane : Int → List Int → List Int := fun anchor lane => lane.map (· - anchor)

-- `hW` is part of the fixed statement; the proof does not need it
set_option linter.unusedVariables false in
/-- **ArgMax** (partial): for every valid axis spelling and keepdims, except the rank-1/keepdims=0 corner,
the operator returns the int64 tensor of first-occurrence indices of the maximum along exactly that
axis, the axis kept with extent 1 iff keepdims. -/
theorem argmax_partial (le : α → α → Bool) (hle : TotalLe le) (t : Tensor α) (axis : Int) (keep : Bool)
    (hW : t.WF) (hpos : Pos t.shape) (ax : Nat) (hax : Spec.normAxis t.shape.length axis = some ax)
    (hcorner : ¬ (keep = false ∧ t.shape.length = 1))
    (s : Tensor Int) (hs : Spec.argmax le t axis keep = some s) :
    ∃ m mu, argmaxOp (fun a b => !le b a) t axis keep = .ok (m, mu) ∧ Equiv m s :=
  Proofs.Reduce.argmax_partial le hle t axis keep hpos ax hax hcorner s hs

-- non-vacuity: 2×3, axis -1, no keepdims (ties: first occurrence) …
example : ∃ m mu, argmaxOp (fun a b => !nv_le b a) nv_t (-1) false = .ok (m, mu) ∧ Equiv m ⟨[2], [1, 0]⟩ :=
  argmax_partial nv_le Proofs.Reduce.totalLe_int nv_t (-1) false rfl (by simp [Proofs.Pos, nv_t]) 1 (by decide) (by decide) _ (by decide)
-- … and 2×3×2, axis -2, keepdims
example : ∃ m mu, argmaxOp (fun a b => !nv_le b a) nv_u (-2) true = .ok (m, mu) ∧ Equiv m ⟨[2, 1, 2], [1, 1, 1, 2]⟩ :=
  argmax_partial nv_le Proofs.Reduce.totalLe_int nv_u (-2) true rfl (by simp [Proofs.Pos, nv_u]) 1 (by decide) (by decide) _ (by decide)

-- `hn` is part of the fixed statement; the proof does not need it
set_option linter.unusedVariables false in
/-- the rank-1 / keepdims=0 corner is refused with an error although ONNX defines a scalar (known finding) -/
theorem argmax_rank1_nokeep (lt : α → α → Bool) (t : Tensor α) (n : Nat) (h : t.shape = [n]) (hn : 0 < n) :
    argmaxOp lt t 0 false = .error .other :=
  Proofs.Reduce.argmax_rank1_nokeep lt t n h

-- non-vacuity: a vector of 3
example : argmaxOp (fun a b : Int => decide (a < b)) ⟨[3], [1, 5, 2]⟩ 0 false = .error .other :=
  argmax_rank1_nokeep _ ⟨[3], [1, 5, 2]⟩ 3 rfl (by decide)

/-- effect: ArgMax never writes to its input, with or without keepdims (since the `fix:` commit that
clones the shape; before it, keepdims overwrote the input's own shape — fixed finding, see C02) -/
theorem argmax_pure (lt : α → α → Bool) (t : Tensor α) (axis : Int) (keep : Bool) (m : Tensor Int) (mu : Option (List Nat))
    (h : argmaxOp lt t axis keep = .ok (m, mu)) : mu = none :=
  Proofs.Reduce.argmax_pure lt t axis keep m mu h

-- non-vacuity: the hypothesis `h` holds for the 2×3×2 tensor, axis -2, keepdims
example : (none : Option (List Nat)) = none :=
  argmax_pure (fun a b => !nv_le b a) nv_u (-2) true ⟨[2, 1, 2], [1, 1, 1, 2]⟩ none (by decide)

/-- without keepdims nothing is written to the input -/
theorem argmax_nokeep_pure (lt : α → α → Bool) (t : Tensor α) (axis : Int) (m : Tensor Int) (mu : Option (List Nat))
    (h : argmaxOp lt t axis false = .ok (m, mu)) : mu = none :=
  Proofs.Reduce.argmax_nokeep_pure lt t axis m mu h

-- non-vacuity: the hypothesis `h` holds for the 2×3×2 tensor, axis 0
example : (none : Option (List Nat)) = none :=
  argmax_nokeep_pure (fun a b => !nv_le b a) nv_u 0 ⟨[3, 2], [0, 0, 1, 0, 1, 1]⟩ none (by decide)

/-- The originally stated **ReduceMax / ReduceMin** theorem `reduce_partial` (generic element type, `le`
only a total preorder), verbatim, specialised to the element type `Nat × Nat` to make it closed.
It is FALSE: see `reduce_partial_counterexample`. The true variant is `reduce_partial'`. -/
def reduce_partial_statement : Prop :=
  ∀ (le : Nat × Nat → Nat × Nat → Bool) (_hle : TotalLe le) (t : Tensor (Nat × Nat)) (axes : List Int) (keep : Bool)
    (_hW : t.WF) (_hpos : Pos t.shape)
    (nax : List Nat) (_hax : axes.mapM (Spec.normAxis t.shape.length) = some nax) (_hnd : nax.Nodup)
    (_hguard : ¬ (axes = [] ∧ keep = true ∧ prod t.shape ≠ 1))
    (s : Tensor (Nat × Nat)) (_hs : Spec.reduce (fun a b => if le a b then b else a) t axes keep = some s),
    ∃ m, reduceOp (fun a b => !le a b) t axes keep = .ok m ∧ Equiv m s

/-- counterexample: pairs compared on the first component only, `t = [(1,0), (1,1)]`, axis 0: the model
keeps the first maximum `(1,0)` (in its own enumeration order) while the spec's left fold with `pick`
keeps the last one `(1,1)`; a total preorder does not make tied maxima equal. -/
theorem reduce_partial_counterexample : ¬ reduce_partial_statement := by
  intro h
  obtain ⟨m, hm, _, _, _, hget⟩ := h Proofs.Reduce.leFst Proofs.Reduce.leFst_total Proofs.Reduce.tiePair [0] false
    Proofs.Reduce.tiePair_WF Proofs.Reduce.tiePair_pos [0] (by decide) (by decide) (by decide) _
    Proofs.Reduce.tiePair_spec
  rw [Proofs.Reduce.tiePair_model] at hm
  cases hm
  exact absurd (hget [] trivial) (by decide)

-- `hW`, `hpos` are kept from the original statement; the proof does not need them
set_option linter.unusedVariables false in
/-- **ReduceMax / ReduceMin** (partial): exactly the requested axes (positive or negative spelling, any
order, pairwise distinct) are reduced, each kept with extent 1 iff keepdims; `better a b` says "a
replaces b", `pick` is the corresponding binary max/min. The guard excludes "no axes with keepdims".
Extra hypotheses w.r.t. the original statement: `hantisymm` (`le` is a linear order, so that tied
maxima are equal and the enumeration order does not matter) and `hinner` (the model's guard for
gorgonia's defective inner-axis reduction does not fire: `innerAxesOnly rank nax` — rank ≥ 4, every
listed axis ≥ 2 and at least one of them not the last axis, i.e. the smallest listed axis is an inner
one — is false; see `reduce_rank4_inner_unmodelled`).
`hinner` is phrased over the normalised listed axes `nax`: when no axes are given (`nax = []`) it holds
vacuously, and rightly so, since the model then reduces all axes `0, 1, …` starting with axis 0, for
which the guard is false. -/
theorem reduce_partial' (le : α → α → Bool) (hle : TotalLe le)
    (hantisymm : ∀ a b, le a b = true → le b a = true → a = b)
    (t : Tensor α) (axes : List Int) (keep : Bool)
    (hW : t.WF) (hpos : Pos t.shape)
    (nax : List Nat) (hax : axes.mapM (Spec.normAxis t.shape.length) = some nax) (hnd : nax.Nodup)
    (hguard : ¬ (axes = [] ∧ keep = true ∧ prod t.shape ≠ 1))
    (hinner : innerAxesOnly t.shape.length nax = false)
    (s : Tensor α) (hs : Spec.reduce (fun a b => if le a b then b else a) t axes keep = some s) :
    ∃ m, reduceOp (fun a b => !le a b) t axes keep = .ok m ∧ Equiv m s :=
  Proofs.Reduce.reduce_partial' le hle hantisymm t axes keep nax hax hnd hguard hinner s hs

-- non-vacuity: ReduceMax of a 2×3×2 tensor over the axes [-1, 0] (negative spelling, unsorted), keepdims …
example : ∃ m, reduceOp (fun a b => !nv_le a b) nv_u [-1, 0] true = .ok m ∧ Equiv m ⟨[1, 3, 1], [5, 9, 8]⟩ :=
  reduce_partial' nv_le Proofs.Reduce.totalLe_int Proofs.Reduce.antisymm_int nv_u [-1, 0] true rfl (by simp [Proofs.Pos, nv_u])
    [2, 0] (by decide) (by decide) (by decide) (by decide) _ (by decide)
-- … and of a rank-4 tensor over its last axis (`hinner` is not trivially true there: rank ≥ 4, axis ≥ 2)
example : ∃ m, reduceOp (fun a b => !nv_le a b) (⟨[1, 2, 3, 2], nv_u.data⟩ : Tensor Int) [3] false = .ok m ∧ Equiv m ⟨[1, 2, 3], [5, 7, 7, 0, 9, 8]⟩ :=
  reduce_partial' nv_le Proofs.Reduce.totalLe_int Proofs.Reduce.antisymm_int ⟨[1, 2, 3, 2], nv_u.data⟩ [3] false rfl (by simp [Proofs.Pos])
    [3] (by decide) (by decide) (by decide) (by decide) _ (by decide)

/-- The guard of the model, documented: reducing an inner axis (neither one of the first two nor the
last) of a tensor of rank ≥ 4 FIRST is not modelled; instance rank 4, `axes = [2]`, any `keepdims`.
This is the known finding `reduce.rank4_inner_axis_first` of the real code: gorgonia's Max/Min on an
inner axis of a rank-4 tensor returns values of another lane or panics, so no claim about the result
is made for such inputs (they are excluded from `reduce_partial'` by `hinner`). -/
theorem reduce_rank4_inner_unmodelled (better : α → α → Bool) (t : Tensor α) (keep : Bool)
    (h : t.shape.length = 4) : reduceOp better t [2] keep = .error .unmodelled :=
  Proofs.Reduce.reduce_rank4_inner_unmodelled better t keep h

-- non-vacuity: a 1×2×3×2 tensor
example : reduceOp (fun a b => !nv_le a b) (⟨[1, 2, 3, 2], nv_u.data⟩ : Tensor Int) [2] true = .error .unmodelled :=
  reduce_rank4_inner_unmodelled _ ⟨[1, 2, 3, 2], nv_u.data⟩ true rfl

/-- "all axes when none are given" with keepdims is an error unless the input has one element (known finding) -/
theorem reduce_no_axes_keepdims (better : α → α → Bool) (t : Tensor α) (h : prod t.shape ≠ 1) :
    reduceOp better t [] true = .error .shape :=
  Proofs.Reduce.reduce_no_axes_keepdims better t h

-- non-vacuity: 12 elements
example : reduceOp (fun a b => !nv_le a b) nv_u [] true = .error .shape :=
  reduce_no_axes_keepdims _ nv_u (by decide)

/-- **Softmax / LogSoftmax** normalise along the requested axis only: the output has the input's shape
and the element at `idx` is entry `idx[axis]` of the lane function applied to the lane through `idx`
(the elements that differ from `idx` only at `axis`) — plus, on the last axis, gorgonia's anchor. -/
theorem softmax_lane (f : α → List α → List α) (t : Tensor α) (axis : Int) (ax : Nat)
    (hax : Spec.normAxis t.shape.length axis = some ax) :
    ∃ out, softmaxOp f t axis = .ok out ∧ out.shape = t.shape ∧ out.WF ∧
      ∀ idx, InRange idx t.shape →
        out.get idx =
          (f (if ax + 1 = t.shape.length then t.data.headD default
              else t.get (idx.set ax 0))
             ((List.range (dim t.shape ax)).map fun k => t.get (idx.set ax k))).getD (idx.getD ax 0) default :=
  Proofs.Reduce.softmax_lane f t axis ax hax

-- non-vacuity: a 2×3 tensor, axis -2 (an inner axis: the anchor is the lane's first element), lane function "subtract the anchor"
example : ∃ out, softmaxOp nv_lane nv_t (-2) = .ok out ∧ out.shape = nv_t.shape ∧ out.WF ∧
      ∀ idx, InRange idx nv_t.shape →
        out.get idx =
          (nv_lane (if 0 + 1 = nv_t.shape.length then nv_t.data.headD default else nv_t.get (idx.set 0 0))
             ((List.range (dim nv_t.shape 0)).map fun k => nv_t.get (idx.set 0 k))).getD (idx.getD 0 0) default :=
  softmax_lane nv_lane nv_t (-2) 0 (by decide)

/-- an axis outside [-rank, rank) is refused with the axis error -/
theorem softmax_axis_error (f : α → List α → List α) (t : Tensor α) (axis : Int)
    (h : Spec.normAxis t.shape.length axis = none) : softmaxOp f t axis = .error .axis :=
  Proofs.Reduce.softmax_axis_error f t axis h

-- non-vacuity: axis 2 for a rank-2 tensor
example : softmaxOp nv_lane nv_t 2 = .error .axis :=
  softmax_axis_error nv_lane nv_t 2 (by decide)

-- non-vacuity
example : TotalLe (fun a b : Int => decide (a ≤ b)) ∧
    (∀ a b : Int, decide (a ≤ b) = true → decide (b ≤ a) = true → a = b) :=
  ⟨Proofs.Reduce.totalLe_int, Proofs.Reduce.antisymm_int⟩
example : (Spec.argmax (fun (a b : Int) => decide (a ≤ b)) ⟨[2, 3], [1, 5, 5, 7, 2, 7]⟩ (-1) false).map (·.data) = some [1, 0] ∧
    (Spec.reduce (fun (a b : Int) => if a ≤ b then b else a) ⟨[2, 3], [1, 5, 5, 7, 2, 7]⟩ [0] true) = some ⟨[1, 3], [7, 5, 7]⟩ := by decide

end Gonnx.C09
