import Gonnx.Proofs.Binary
import Gonnx.Generated.Registry
/-
C03 — elementwise binary arithmetic, comparison and logic follow ONNX broadcasting.
Model: Gonnx/Ops/Binary.lean (ops/binary_op.go). Spec: Gonnx/Spec/Binary.lean.
The scalar kernel `f` is a parameter: the theorems hold for every scalar operation, in particular
for the IEEE-754 / two's-complement operations Go executes (which are not modelled).
-/
namespace Gonnx.C03
open Gonnx Gonnx.Spec
variable {α β : Type} [Inhabited α] [Inhabited β]

abbrev Pos := Proofs.Pos
abbrev Equiv {β : Type} [Inhabited β] := @Proofs.Equiv β _

-- concrete tensors shared by the non-vacuity examples below
private def nv_A : Tensor Int := ⟨[2, 3], [1, 2, 3, 4, 5, 6]⟩
private def nv_B : Tensor Int := ⟨[3], [10, 20, 30]⟩
private def nv_C : Tensor Int := ⟨[2, 2], [1, 2, 3, 4]⟩
private def nv_P : Tensor Bool := ⟨[2, 1], [true, false]⟩
private def nv_Q : Tensor Bool := ⟨[1, 3], [true, false, true]⟩

/-- an error is reported iff the shapes are not broadcast-compatible (Add Sub Mul Div, comparisons) -/
theorem binary_ok_iff (f : α → α → β) (A B : Tensor α) :
    (applyBinary f .multi A B).isOk = Compatible A.shape B.shape := Proofs.binary_ok_iff f A B

theorem binary_error (f : α → α → β) (A B : Tensor α) (h : Compatible A.shape B.shape = false) :
    applyBinary f .multi A B = .error .broadcast := Proofs.binary_error f A B h

-- non-vacuity: 2×3 against 2×2
example : applyBinary (fun a b : Int => a + b) .multi nv_A nv_C = .error .broadcast :=
  binary_error _ nv_A nv_C (by decide)

/-- the output has the broadcast shape and each element is the scalar operation applied to the
correspondingly broadcast input elements -/
theorem binary_eq_spec (f : α → α → β) (A B : Tensor α) (hA : Pos A.shape) (hB : Pos B.shape)
    (hAW : A.WF) (hBW : B.WF) (t : Tensor β) (h : applyBinary f .multi A B = .ok t) :
    ∃ s, Spec.binary f A B = some s ∧ Equiv t s := Proofs.binary_eq_spec f A B hA hB hAW hBW t h

-- non-vacuity: 2×3 plus a row of 3 (B is stretched along axis 0)
example : ∃ s, Spec.binary (fun a b : Int => a + b) nv_A nv_B = some s ∧ Equiv ⟨[2, 3], [11, 22, 33, 14, 25, 36]⟩ s :=
  binary_eq_spec _ nv_A nv_B (by simp [Proofs.Pos, nv_A]) (by simp [Proofs.Pos, nv_B]) rfl rfl _ (by decide)

theorem boolean_ok_iff (f : α → α → α) (A B : Tensor α) :
    (applyBooleanOp f A B).isOk = Compatible A.shape B.shape := Proofs.boolean_ok_iff f A B

theorem boolean_eq_spec (f : α → α → α) (A B : Tensor α) (hA : Pos A.shape) (hB : Pos B.shape)
    (hAW : A.WF) (hBW : B.WF) (t : Tensor α) (h : applyBooleanOp f A B = .ok t) :
    ∃ s, Spec.binary f A B = some s ∧ Equiv t s := Proofs.boolean_eq_spec f A B hA hB hAW hBW t h

-- non-vacuity: a 2×1 column and a 1×3 row, both stretched
example : ∃ s, Spec.binary (fun a b : Bool => a && b) nv_P nv_Q = some s ∧ Equiv ⟨[2, 3], [true, false, true, false, false, false]⟩ s :=
  boolean_eq_spec _ nv_P nv_Q (by simp [Proofs.Pos, nv_P]) (by simp [Proofs.Pos, nv_Q]) rfl rfl _ (by decide)

theorem binaryM_eq_spec (f : α → α → Option β) (g : α → α → β) (A B : Tensor α) (hA : Pos A.shape) (hB : Pos B.shape)
    (hAW : A.WF) (hBW : B.WF) (hfg : ∀ a b, f a b = some (g a b)) (t : Tensor β)
    (h : applyBinaryM f A B = .ok t) :
    ∃ s, Spec.binary g A B = some s ∧ Equiv t s := Proofs.binaryM_eq_spec f g A B hA hB hAW hBW hfg t h

-- non-vacuity: a fallible kernel that never fails
example : ∃ s, Spec.binary (fun a b : Int => a - b) nv_A nv_B = some s ∧ Equiv ⟨[2, 3], [-9, -18, -27, -6, -15, -24]⟩ s :=
  binaryM_eq_spec (fun a b : Int => some (a - b)) (fun a b => a - b) nv_A nv_B (by simp [Proofs.Pos, nv_A]) (by simp [Proofs.Pos, nv_B]) rfl rfl
    (fun _ _ => rfl) _ (by decide)

theorem binaryM_ok_of_total (f : α → α → Option β) (g : α → α → β) (A B : Tensor α)
    (hfg : ∀ a b, f a b = some (g a b)) :
    (applyBinaryM f A B).isOk = Compatible A.shape B.shape := Proofs.binaryM_ok_of_total f g A B hfg

-- non-vacuity
example : (applyBinaryM (fun a b : Int => some (a - b)) nv_A nv_B).isOk = Compatible nv_A.shape nv_B.shape :=
  binaryM_ok_of_total (fun a b : Int => some (a - b)) (fun a b => a - b) nv_A nv_B (fun _ _ => rfl)

theorem binaryM_error_incompatible (f : α → α → Option β) (A B : Tensor α)
    (h : Compatible A.shape B.shape = false) : applyBinaryM f A B = .error .broadcast :=
  Proofs.binaryM_error_incompatible f A B h

-- non-vacuity: integer division, 2×3 against 2×2
example : applyBinaryM (fun a b : Int => if b = 0 then none else some (a / b)) nv_A nv_C = .error .broadcast :=
  binaryM_error_incompatible _ nv_A nv_C (by decide)

/-- **Obligation over the regenerated registry:** float32, float64, int32 and int64 pass the gate of
the arithmetic and comparison operators at both positions, bool that of the logic operators — they
are computed rather than refused. -/
theorem core_types_accepted :
    (∀ n ∈ ["Add", "Sub", "Mul", "Div", "Equal", "Greater", "GreaterOrEqual", "Less", "LessOrEqual"],
      ∀ d ∈ [DType.f32, DType.f64, DType.i32, DType.i64],
        gate Generated.registry n [some d, some d] = .ok [some d, some d]) ∧
    (∀ n ∈ ["And", "Or", "Xor"], gate Generated.registry n [some .bool, some .bool] = .ok [some .bool, some .bool]) := by
  decide

end Gonnx.C03
