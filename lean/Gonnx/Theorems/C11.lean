import Gonnx.Ops.Const
import Gonnx.Proofs.Binary
import Gonnx.Ops.IntWrap
/-
C11 — Constant, ConstantOfShape and Cast yield the specified values and element type.
Model: Gonnx/Ops/Const.lean. The elementwise conversion `conv : DType → DType → α → β` is a parameter;
for the integer types its two's-complement semantics is modelled (`wrapInt`) and exactness on
representable values is proved.
-/
namespace Gonnx.C11
open Gonnx
variable {α β : Type}

-- concrete instance shared by the non-vacuity examples below: an elementwise conversion that wraps to
-- 8 bits for the target uint8, a 2×3 tensor with values inside and outside that range
private def nv_conv : DType → DType → Int → Int := fun _ tgt v => if tgt = .u8 then v % 256 else v
private def nv_t : Tensor Int := ⟨[2, 3], [1, -2, 300, 4, 255, 256]⟩

/-- **Cast**: for each of the ten numeric target codes and every numeric source type the result has
the target type, the input's shape, and every element is the conversion of the input element -/
theorem cast_ok (conv : DType → DType → α → β) (src : DType) (to : Int) (t : Tensor α) (tgt : DType)
    (hs : castSource src = true) (ht : castTarget to = some tgt)
    (hsc : ¬ (t.shape = [] ∧ scalarToSliceMissing src = true)) :
    castOp conv src to t = .ok (tgt, t.map (conv src tgt)) := by
  unfold castOp
  rw [if_neg hsc]
  simp [hs, ht]

-- non-vacuity: int32 → uint8 (code 2) on the 2×3 tensor
example : castOp nv_conv .i32 2 nv_t = .ok (.u8, nv_t.map (nv_conv .i32 .u8)) :=
  cast_ok nv_conv .i32 2 nv_t .u8 rfl rfl (by decide)
example : nv_t.map (nv_conv .i32 .u8) = ⟨[2, 3], [1, 254, 44, 4, 255, 0]⟩ := by decide

theorem cast_shape_get [Inhabited α] [Inhabited β] (conv : DType → DType → α → β) (src : DType) (to : Int) (t : Tensor α)
    (tgt : DType) (out : Tensor β) (h : castOp conv src to t = .ok (tgt, out)) (hW : t.WF) :
    out.shape = t.shape ∧ castTarget to = some tgt ∧
    ∀ idx, InRange idx t.shape → out.get idx = conv src tgt (t.get idx) := by
  unfold castOp at h
  split at h
  · cases h
  · split at h
    · cases h
    · split at h
      · cases h
      · next tgt' ht =>
        injection h with h
        injection h with h1 h2
        subst h1 h2
        refine ⟨rfl, ht, ?_⟩
        intro idx hidx
        have hlt := ravel_lt _ _ hidx
        rw [← hW] at hlt
        simp [Tensor.get, Tensor.map, List.getD, List.getElem?_map, List.getElem?_eq_getElem hlt]

-- non-vacuity: the same request, read back
example : (⟨[2, 3], [1, 254, 44, 4, 255, 0]⟩ : Tensor Int).shape = nv_t.shape ∧ castTarget 2 = some .u8 ∧
    ∀ idx, InRange idx nv_t.shape → (⟨[2, 3], [1, 254, 44, 4, 255, 0]⟩ : Tensor Int).get idx = nv_conv .i32 .u8 (nv_t.get idx) :=
  cast_shape_get nv_conv .i32 2 nv_t .u8 ⟨[2, 3], [1, 254, 44, 4, 255, 0]⟩ (by decide) rfl

/-- unsupported targets (bool, string, float16, bfloat16, complex, undefined, unknown codes) and
non-numeric sources are refused with the conversion error -/
theorem cast_refuses_target (conv : DType → DType → α → β) (src : DType) (to : Int) (t : Tensor α)
    (ht : castTarget to = none) (hsc : ¬ (t.shape = [] ∧ scalarToSliceMissing src = true)) :
    castOp conv src to t = .error .conversion := by
  unfold castOp
  rw [if_neg hsc]
  split
  · rfl
  · simp [ht]

-- non-vacuity: target code 9 (bool)
example : castOp nv_conv .i32 9 nv_t = .error .conversion :=
  cast_refuses_target nv_conv .i32 9 nv_t rfl (by decide)

/-- the ten target codes are exactly the ONNX codes of the ten numeric element types -/
theorem cast_targets : [1, 2, 3, 4, 5, 6, 7, 11, 12, 13].map castTarget =
    [some DType.f32, some .u8, some .i8, some .u16, some .i16, some .i32, some .i64, some .f64, some .u32, some .u64] ∧
    [0, 8, 9, 10, 14, 15, 16, 17].map castTarget = List.replicate 8 none := by
  decide

/-- a scalar of an unsigned type panics (known finding cast.scalar_unsigned_source) -/
theorem cast_scalar_unsigned_panics (conv : DType → DType → α → β) (to : Int) (t : Tensor α) (h : t.shape = []) :
    castOp conv .u32 to t = .error .panic := by
  unfold castOp
  rw [if_pos ⟨h, rfl⟩]

-- non-vacuity: the statement is about scalar tensors, so the instance is one
example : castOp nv_conv .u32 1 ⟨[], [5]⟩ = .error .panic :=
  cast_scalar_unsigned_panics nv_conv 1 ⟨[], [5]⟩ rfl

/-- two's-complement / unsigned wrap of an integer to a `bits`-wide type -/
def wrapInt (bits : Nat) (signed : Bool) (v : Int) : Int :=
  let m : Int := 2 ^ bits
  let r := v % m
  if signed && r ≥ m / 2 then r - m else r

/-- **exact when representable**: converting a value that lies in the target's range does not change it -/
theorem wrapInt_representable (bits : Nat) (hb : 0 < bits) (signed : Bool) (v : Int)
    (h : if signed then -(2 ^ (bits - 1) : Int) ≤ v ∧ v < 2 ^ (bits - 1) else 0 ≤ v ∧ v < 2 ^ bits) :
    wrapInt bits signed v = v := by
  obtain ⟨n, rfl⟩ : ∃ n, bits = n + 1 := ⟨bits - 1, by omega⟩
  have hp : (0 : Int) < 2 ^ n := Int.pow_pos (by decide)
  have hm : (2 : Int) ^ (n + 1) = 2 * 2 ^ n := by rw [Int.pow_succ]; omega
  simp only [Nat.add_sub_cancel] at h
  unfold wrapInt
  simp only [hm]
  generalize (2 : Int) ^ n = p at hp hm h
  have hhalf : 2 * p / 2 = p := by omega
  rw [hhalf]
  cases signed with
  | false =>
    simp only [Bool.false_eq_true, if_false] at h
    rw [hm] at h
    simp [Int.emod_eq_of_lt h.1 h.2]
  | true =>
    simp only [if_true] at h
    by_cases hv : 0 ≤ v
    · have : v % (2 * p) = v := Int.emod_eq_of_lt hv (by omega)
      rw [this]
      simp
      omega
    · have : v % (2 * p) = v + 2 * p := by
        rw [← Int.add_emod_right v (2 * p)]
        exact Int.emod_eq_of_lt (by omega) (by omega)
      rw [this]
      simp
      omega

-- non-vacuity: −100 in int8, 40000 in uint16
example : wrapInt 8 true (-100) = -100 := wrapInt_representable 8 (by decide) true (-100) (by decide)
example : wrapInt 16 false 40000 = 40000 := wrapInt_representable 16 (by decide) false 40000 (by decide)

/-- **ConstantOfShape**: every requested extent ≥ 1 ⇒ a tensor of exactly the requested shape whose
elements all equal the value; a zero or negative extent ⇒ error -/
theorem constantOfShape_ok (zeroPlus : α → α) (value : α) (shape : List Int) (h : ∀ d ∈ shape, 1 ≤ d) :
    ∃ t, constantOfShapeOp zeroPlus value shape = .ok t ∧ t.shape = shape.map Int.toNat ∧ t.WF ∧
      ∀ x ∈ t.data, x = zeroPlus value := by
  have hany : shape.any (· ≤ 0) = false := by
    rw [List.any_eq_false]
    intro d hd
    have := h d hd
    simp; omega
  refine ⟨⟨shape.map Int.toNat, List.replicate (prod (shape.map Int.toNat)) (zeroPlus value)⟩, ?_, rfl, ?_, ?_⟩
  · unfold constantOfShapeOp
    simp [hany]
  · simp [Tensor.WF]
  · intro x hx
    exact (List.mem_replicate.1 hx).2

-- non-vacuity: shape 2×3, value 7
example : ∃ t, constantOfShapeOp (fun v : Int => 0 + v) 7 [2, 3] = .ok t ∧ t.shape = [2, 3].map Int.toNat ∧ t.WF ∧
      ∀ x ∈ t.data, x = (fun v : Int => 0 + v) 7 :=
  constantOfShape_ok (fun v : Int => 0 + v) 7 [2, 3] (by decide)

theorem constantOfShape_refuses (zeroPlus : α → α) (value : α) (shape : List Int) (d : Int) (hd : d ∈ shape) (h0 : d ≤ 0) :
    constantOfShapeOp zeroPlus value shape = .error .invalidTensor := by
  have hany : shape.any (· ≤ 0) = true := by
    rw [List.any_eq_true]
    exact ⟨d, hd, by simpa using h0⟩
  unfold constantOfShapeOp
  simp only [hany, if_true]

-- non-vacuity: a zero extent in the middle
example : constantOfShapeOp (fun v : Int => 0 + v) 7 [2, 0, 3] = .error .invalidTensor :=
  constantOfShape_refuses _ 7 [2, 0, 3] 0 (by decide) (by decide)

/-- the conversion model of this file is the reduction the driver applies (`Gonnx.wrapBits`, whose
homomorphism / range / uniqueness theorems are in `Theorems/C03b.lean`) -/
theorem wrapInt_eq_wrapBits : @wrapInt = @Gonnx.wrapBits := rfl

end Gonnx.C11
