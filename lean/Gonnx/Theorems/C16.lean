import Gonnx.Graph.Batch
import Gonnx.Proofs.Binary
import Gonnx.Proofs.Batch
/-
C16 — samples in a batch do not influence one another.
PARTIAL: equality here is exact (fixed summation order); real kernels may block sums differently for
different batch sizes, which the metamorphic stream of the correspondence checks up to rounding on
the sample models and bit for bit on integer-valued generated graphs.
-/
namespace Gonnx.C16
open Gonnx
variable {α β γ : Type} [Inhabited α] [Inhabited β] [Inhabited γ]

/-- two dense tensors with the same shape and the same element at every index are the same tensor -/
theorem tensor_ext (a b : Tensor α) (h : Proofs.Equiv a b) : a = b :=
  Proofs.Batch.tensor_ext a b h

-- `hax`, `hn` are part of the fixed signature although the proof does not need them
set_option linter.unusedVariables false in
/-- taking a sample of a good tensor gives a good tensor with batch extent 1 -/
theorem takeBatch_good (ax n : Nat) (t : Tensor α) (hg : Good t) (hax : ax < t.shape.length) (hn : n < dim t.shape ax) :
    Good (takeBatch ax n t) ∧ (takeBatch ax n t).shape = t.shape.set ax 1 :=
  Proofs.Batch.takeBatch_good ax n t hg

-- `hg`, `hax`, `hn` are part of the fixed signature although the proof does not need them
set_option linter.unusedVariables false in
/-- a sample of a sample is that sample -/
theorem takeBatch_idem (ax n : Nat) (t : Tensor α) (hg : Good t) (hax : ax < t.shape.length) (hn : n < dim t.shape ax) :
    takeBatch ax 0 (takeBatch ax n t) = takeBatch ax n t :=
  Proofs.Batch.takeBatch_idem ax n t

/-- **Composition**: per-sample operators compose to a per-sample model (a chain of nodes) -/
theorem compose (ax ax' ax'' : Nat) (f : Tensor α → Res (Tensor β)) (g : Tensor β → Res (Tensor γ))
    (hf : BatchPointwise ax ax' f) (hg : BatchPointwise ax' ax'' g) :
    BatchPointwise ax ax'' (fun X => match f X with | .ok Y => g Y | .error e => .error e) :=
  Proofs.Batch.compose ax ax' ax'' f g hf hg

/-- every elementwise / activation operator is per-sample along any axis -/
theorem unary_pointwise (ax : Nat) (f : α → β) :
    BatchPointwise ax ax (fun X => (.ok (unaryOp f X) : Res (Tensor β))) :=
  Proofs.Batch.unary_pointwise ax f

/-- MatMul / Gemm against a weight matrix: rows (samples, axis 0) are independent -/
theorem matmul_weight_pointwise (A : Arith α) (W : Tensor α) (hW : Good W) :
    BatchPointwise 0 0 (fun X => mm2 A X W) :=
  Proofs.Batch.matmul_weight_pointwise A W hW

/-- consequence of the definition: permuting or sub-selecting the batch permutes / sub-selects the
results — stated for two samples: the result for sample `n` does not depend on which batch it is in -/
theorem independent_of_batch (ax ax' : Nat) (f : Tensor α → Res (Tensor β)) (hf : BatchPointwise ax ax' f)
    (B1 B2 : Tensor α) (R1 R2 : Tensor β) (n m : Nat)
    (hg1 : Good B1) (hg2 : Good B2) (ha1 : ax < B1.shape.length) (ha2 : ax < B2.shape.length)
    (hn : n < dim B1.shape ax) (hm : m < dim B2.shape ax)
    (h1 : f B1 = .ok R1) (h2 : f B2 = .ok R2)
    (hsame : takeBatch ax n B1 = takeBatch ax m B2) :
    takeBatch ax' n R1 = takeBatch ax' m R2 :=
  Proofs.Batch.independent_of_batch ax ax' f hf B1 B2 R1 R2 n m hg1 hg2 ha1 ha2 hn hm h1 h2 hsame

end Gonnx.C16
