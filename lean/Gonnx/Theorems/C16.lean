import Gonnx.Graph.Batch
import Gonnx.Proofs.Binary
import Gonnx.Proofs.Batch
/-
C16 — samples in a batch do not influence one another.
PARTIAL: equality here is exact (fixed summation order); real kernels may block sums differently for
different batch sizes, which the metamorphic stream of the correspondence checks up to rounding on
the sample models and bit for bit on integer-valued generated graphs.
-/
namespace Gonnx.C16
open Gonnx
variable {α β γ : Type} [Inhabited α] [Inhabited β] [Inhabited γ]

-- concrete instance shared by the non-vacuity examples below: two batches (2 and 3 samples of 3 features)
-- that share a sample (row 1 of `nv_X` is row 0 of `nv_X2`), and a 3×2 weight
private def nv_A : Arith Int := ⟨0, (· + ·), (· * ·), (· - ·)⟩
private def nv_X : Tensor Int := ⟨[2, 3], [1, 2, 3, 4, 5, 6]⟩
private def nv_X2 : Tensor Int := ⟨[3, 3], [4, 5, 6, 0, 0, 0, 7, 8, 9]⟩
private def nv_W : Tensor Int := ⟨[3, 2], [1, 0, 0, 1, 1, 1]⟩
private theorem nv_goodX : Good nv_X := And.intro rfl (by decide)
private theorem nv_goodX2 : Good nv_X2 := And.intro rfl (by decide)
private theorem nv_goodW : Good nv_W := And.intro rfl (by decide)

/-- two dense tensors with the same shape and the same element at every index are the same tensor -/
theorem tensor_ext (a b : Tensor α) (h : Proofs.Equiv a b) : a = b :=
  Proofs.Batch.tensor_ext a b h

-- non-vacuity: a literal 2×3 tensor and the same tensor given by its index formula
example : nv_X = ofFn [2, 3] (fun idx => ((idx.getD 0 0 * 3 + idx.getD 1 0 + 1 : Nat) : Int)) :=
  tensor_ext _ _ ⟨rfl, rfl, ofFn_WF _ _, fun idx h =>
    (by decide : ∀ idx ∈ allIdx [2, 3], nv_X.get idx = (ofFn [2, 3] (fun idx => ((idx.getD 0 0 * 3 + idx.getD 1 0 + 1 : Nat) : Int))).get idx)
      idx (mem_allIdx.2 h)⟩

-- `hax`, `hn` are part of the fixed signature although the proof does not need them
set_option linter.unusedVariables false in
/-- taking a sample of a good tensor gives a good tensor with batch extent 1 -/
theorem takeBatch_good (ax n : Nat) (t : Tensor α) (hg : Good t) (hax : ax < t.shape.length) (hn : n < dim t.shape ax) :
    Good (takeBatch ax n t) ∧ (takeBatch ax n t).shape = t.shape.set ax 1 :=
  Proofs.Batch.takeBatch_good ax n t hg

-- non-vacuity: sample 1 of the batch of two
example : Good (takeBatch 0 1 nv_X) ∧ (takeBatch 0 1 nv_X).shape = nv_X.shape.set 0 1 :=
  takeBatch_good 0 1 nv_X nv_goodX (by decide) (by decide)

-- `hg`, `hax`, `hn` are part of the fixed signature although the proof does not need them
set_option linter.unusedVariables false in
/-- a sample of a sample is that sample -/
theorem takeBatch_idem (ax n : Nat) (t : Tensor α) (hg : Good t) (hax : ax < t.shape.length) (hn : n < dim t.shape ax) :
    takeBatch ax 0 (takeBatch ax n t) = takeBatch ax n t :=
  Proofs.Batch.takeBatch_idem ax n t

-- non-vacuity: position 2 along axis 1
example : takeBatch 1 0 (takeBatch 1 2 nv_X) = takeBatch 1 2 nv_X :=
  takeBatch_idem 1 2 nv_X nv_goodX (by decide) (by decide)

/-- **Composition**: per-sample operators compose to a per-sample model (a chain of nodes) -/
theorem compose (ax ax' ax'' : Nat) (f : Tensor α → Res (Tensor β)) (g : Tensor β → Res (Tensor γ))
    (hf : BatchPointwise ax ax' f) (hg : BatchPointwise ax' ax'' g) :
    BatchPointwise ax ax'' (fun X => match f X with | .ok Y => g Y | .error e => .error e) :=
  Proofs.Batch.compose ax ax' ax'' f g hf hg

-- non-vacuity: "double every element" followed by MatMul against the 3×2 weight; both premises are proved facts
example : BatchPointwise 0 0 (fun X => match (.ok (unaryOp (fun v : Int => 2 * v) X) : Res (Tensor Int)) with
      | .ok Y => mm2 nv_A Y nv_W | .error e => .error e) :=
  compose 0 0 0 _ _ (Proofs.Batch.unary_pointwise 0 (fun v : Int => 2 * v)) (Proofs.Batch.matmul_weight_pointwise nv_A nv_W nv_goodW)

/-- every elementwise / activation operator is per-sample along any axis -/
theorem unary_pointwise (ax : Nat) (f : α → β) :
    BatchPointwise ax ax (fun X => (.ok (unaryOp f X) : Res (Tensor β))) :=
  Proofs.Batch.unary_pointwise ax f

/-- MatMul / Gemm against a weight matrix: rows (samples, axis 0) are independent -/
theorem matmul_weight_pointwise (A : Arith α) (W : Tensor α) (hW : Good W) :
    BatchPointwise 0 0 (fun X => mm2 A X W) :=
  Proofs.Batch.matmul_weight_pointwise A W hW

-- non-vacuity: the 3×2 weight is dense with positive extents
example : BatchPointwise 0 0 (fun X => mm2 nv_A X nv_W) := matmul_weight_pointwise nv_A nv_W nv_goodW

/-- consequence of the definition: permuting or sub-selecting the batch permutes / sub-selects the
results — stated for two samples: the result for sample `n` does not depend on which batch it is in -/
theorem independent_of_batch (ax ax' : Nat) (f : Tensor α → Res (Tensor β)) (hf : BatchPointwise ax ax' f)
    (B1 B2 : Tensor α) (R1 R2 : Tensor β) (n m : Nat)
    (hg1 : Good B1) (hg2 : Good B2) (ha1 : ax < B1.shape.length) (ha2 : ax < B2.shape.length)
    (hn : n < dim B1.shape ax) (hm : m < dim B2.shape ax)
    (h1 : f B1 = .ok R1) (h2 : f B2 = .ok R2)
    (hsame : takeBatch ax n B1 = takeBatch ax m B2) :
    takeBatch ax' n R1 = takeBatch ax' m R2 :=
  Proofs.Batch.independent_of_batch ax ax' f hf B1 B2 R1 R2 n m hg1 hg2 ha1 ha2 hn hm h1 h2 hsame

-- non-vacuity: MatMul against the weight on a batch of 2 and on a batch of 3 that share a sample; all nine
-- hypotheses (including `BatchPointwise` of the operator and success on both batches) hold
example : takeBatch 0 1 (⟨[2, 2], [4, 5, 10, 11]⟩ : Tensor Int) = takeBatch 0 0 (⟨[3, 2], [10, 11, 0, 0, 16, 17]⟩ : Tensor Int) :=
  independent_of_batch 0 0 (fun X => mm2 nv_A X nv_W) (matmul_weight_pointwise nv_A nv_W nv_goodW)
    nv_X nv_X2 ⟨[2, 2], [4, 5, 10, 11]⟩ ⟨[3, 2], [10, 11, 0, 0, 16, 17]⟩ 1 0 nv_goodX nv_goodX2
    (by decide) (by decide) (by decide) (by decide) (by decide) (by decide) (by decide)

end Gonnx.C16
