import Gonnx.Ops.IntWrap
/-
C11 (Cast to a float type). `Gonnx.roundSig p v` (in `Ops/IntWrap.lean`, run by the driver as
`Gonnx.convTo`) is the value of converting the exact integer `v` to a binary float with a `p`-bit
significand - 24 for float32, 53 for float64 - as Go / IEEE-754 do it: round to nearest, ties to even.
For every 64-bit integer that value is again an integer and far below the overflow threshold, so the
Cast model stays in exact integers. Proved here: exact when representable, sign symmetry, nearest
(error at most half a unit in the last place), the result is a multiple of that unit, ties go to even.
-/
namespace Gonnx

/-- bit length -/
private def bitLen (a : Nat) : Nat := if a = 0 then 0 else Nat.log2 a + 1

/-- rounded quotient -/
private def rq (a s : Nat) : Nat :=
  if a % 2 ^ s > 2 ^ (s - 1) ∨ (a % 2 ^ s = 2 ^ (s - 1) ∧ a / 2 ^ s % 2 = 1) then a / 2 ^ s + 1 else a / 2 ^ s

private theorem roundSig_unfold (p : Nat) (v : Int) :
    roundSig p v = if bitLen v.natAbs ≤ p then v else
      if v < 0 then -((rq v.natAbs (bitLen v.natAbs - p) * 2 ^ (bitLen v.natAbs - p) : Nat) : Int)
      else ((rq v.natAbs (bitLen v.natAbs - p) * 2 ^ (bitLen v.natAbs - p) : Nat) : Int) := rfl

private theorem dropBits_unfold (p : Nat) (v : Int) : dropBits p v = bitLen v.natAbs - p := rfl

private theorem bitLen_le_iff (a p : Nat) : bitLen a ≤ p ↔ a < 2 ^ p := by
  unfold bitLen
  by_cases h : a = 0
  · subst h; simp [Nat.two_pow_pos]
  · simp only [h, if_false]
    exact (Nat.log2_lt h)

/-- the arithmetic core: with `P = 2^s = 2*H`, `a = m + r`, the rounded multiple is within `P/2` -/
private theorem rq_spec (a s : Nat) (hs : 0 < s) :
    ∃ m r H : Nat, 2 ^ s = 2 * H ∧ 2 ^ (s - 1) = H ∧ a = m + r ∧ r < 2 * H ∧ a % 2 ^ s = r ∧
      a / 2 ^ s * 2 ^ s = m ∧
      ((rq a s = a / 2 ^ s + 1 ∧ rq a s * 2 ^ s = m + 2 * H ∧ (r > H ∨ (r = H ∧ a / 2 ^ s % 2 = 1))) ∨
       (rq a s = a / 2 ^ s ∧ rq a s * 2 ^ s = m ∧ ¬ (r > H ∨ (r = H ∧ a / 2 ^ s % 2 = 1)))) := by
  have hP : 2 ^ s = 2 * 2 ^ (s - 1) := by
    obtain ⟨k, rfl⟩ : ∃ k, s = k + 1 := ⟨s - 1, by omega⟩
    simp [Nat.pow_succ, Nat.mul_comm]
  refine ⟨a / 2 ^ s * 2 ^ s, a % 2 ^ s, 2 ^ (s - 1), hP, rfl, ?_, ?_, rfl, rfl, ?_⟩
  · have := Nat.div_add_mod a (2 ^ s); rw [Nat.mul_comm] at this; omega
  · rw [← hP]; exact Nat.mod_lt _ (Nat.two_pow_pos s)
  · unfold rq
    split
    · next h => exact Or.inl ⟨rfl, by rw [Nat.add_mul, Nat.one_mul, ← hP], h⟩
    · next h => exact Or.inr ⟨rfl, rfl, h⟩

/-- **exact when representable**: an integer of at most `p` bits is kept -/
theorem roundSig_small (p : Nat) (v : Int) (h : v.natAbs < 2 ^ p) : roundSig p v = v := by
  rw [roundSig_unfold, if_pos ((bitLen_le_iff _ _).2 h)]

/-- conversion commutes with negation (sign-magnitude rounding) -/
theorem roundSig_neg (p : Nat) (v : Int) : roundSig p (-v) = -roundSig p v := by
  rw [roundSig_unfold, roundSig_unfold, Int.natAbs_neg]
  by_cases hb : bitLen v.natAbs ≤ p
  · simp [hb]
  · have hv : v ≠ 0 := by
      intro h; subst h; apply hb; simp [bitLen]
    simp only [hb, if_false]
    by_cases hn : v < 0
    · have : ¬ (-v < 0) := by omega
      rw [if_pos hn, if_neg this, Int.neg_neg]
    · have : -v < 0 := by omega
      rw [if_neg hn, if_pos this]

/-- **nearest**: the result differs from `v` by at most half a unit in the last place … -/
theorem roundSig_error (p : Nat) (v : Int) : (roundSig p v - v).natAbs * 2 ≤ 2 ^ dropBits p v := by
  rw [roundSig_unfold, dropBits_unfold]
  by_cases hb : bitLen v.natAbs ≤ p
  · simp [hb]
  · simp only [hb, if_false]
    obtain ⟨m, r, H, hP, -, ha, hr, -, -, hq⟩ := rq_spec v.natAbs (bitLen v.natAbs - p) (by omega)
    by_cases hn : v < 0
    · simp only [hn, if_true]
      rcases hq with ⟨-, hq, hc⟩ | ⟨-, hq, hc⟩ <;> rw [hq, hP] <;> omega
    · simp only [hn, if_false]
      rcases hq with ⟨-, hq, hc⟩ | ⟨-, hq, hc⟩ <;> rw [hq, hP] <;> omega

/-- … and is a multiple of that unit (so it has at most `p` significant bits, or is the next power of two) -/
theorem roundSig_dvd (p : Nat) (v : Int) : ((2 : Int) ^ dropBits p v) ∣ roundSig p v := by
  rw [roundSig_unfold, dropBits_unfold]
  by_cases hb : bitLen v.natAbs ≤ p
  · have : bitLen v.natAbs - p = 0 := by omega
    simp [hb, this]
  · simp only [hb, if_false]
    have hd : ((2 : Int) ^ (bitLen v.natAbs - p)) ∣
        ((rq v.natAbs (bitLen v.natAbs - p) * 2 ^ (bitLen v.natAbs - p) : Nat) : Int) := by
      rw [Int.natCast_mul, Int.natCast_pow]
      exact Int.dvd_mul_left _ _
    by_cases hn : v < 0
    · simp only [hn, if_true]; exact Int.dvd_neg.2 hd
    · simp only [hn, if_false]; exact hd

/-- **ties to even**: exactly half-way between two multiples of the unit, the even multiple is taken -/
theorem roundSig_tie_even (p : Nat) (v : Int) (hd : 0 < dropBits p v)
    (ht : v.natAbs % 2 ^ dropBits p v = 2 ^ (dropBits p v - 1)) :
    (roundSig p v / (2 : Int) ^ dropBits p v) % 2 = 0 := by
  rw [dropBits_unfold] at hd ht
  rw [roundSig_unfold, dropBits_unfold]
  have hb : ¬ bitLen v.natAbs ≤ p := by omega
  simp only [hb, if_false]
  obtain ⟨m, r, H, -, hH, -, -, hr, -, hq⟩ := rq_spec v.natAbs (bitLen v.natAbs - p) hd
  have hrH : r = H := by omega
  have he : rq v.natAbs (bitLen v.natAbs - p) % 2 = 0 := by
    rcases hq with ⟨hq, -, hc⟩ | ⟨hq, -, hc⟩ <;> rw [hq] <;> omega
  have hpos : (2 : Int) ^ (bitLen v.natAbs - p) ≠ 0 := Int.pow_ne_zero (by decide)
  have hcast : ((rq v.natAbs (bitLen v.natAbs - p) * 2 ^ (bitLen v.natAbs - p) : Nat) : Int)
      = (rq v.natAbs (bitLen v.natAbs - p) : Int) * (2 : Int) ^ (bitLen v.natAbs - p) := by
    rw [Int.natCast_mul, Int.natCast_pow]; rfl
  rw [hcast]
  by_cases hn : v < 0
  · simp only [hn, if_true]
    rw [← Int.neg_mul, Int.mul_ediv_cancel _ hpos]
    omega
  · simp only [hn, if_false]
    rw [Int.mul_ediv_cancel _ hpos]
    omega

-- sanity (these must keep evaluating to true)
example : roundSig 24 16777217 = 16777216 := by decide
example : roundSig 24 16777219 = 16777220 := by decide
example : roundSig 24 (-16777219) = -16777220 := by decide
example : roundSig 53 (2 ^ 53 + 1) = 2 ^ 53 := by decide
example : roundSig 24 (2 ^ 63 - 1) = 2 ^ 63 := by decide
example : roundSig 24 5 = 5 := roundSig_small 24 5 (by decide)

end Gonnx
