import Gonnx.Graph.NewModel
import Gonnx.Generated.Registry
import Gonnx.Theorems.C12
/-
C18 — loading never crashes; unsupported opsets/operators are refused with an error.
The model starts after `proto.Unmarshal` (trusted: returns a message or an error). The
unknown-operator clause at Run is `C01.run_node_error` + `C15.lookup_unknown`.
-/
namespace Gonnx.C18
open Gonnx

theorem decodeParams_no_panic (l : List TensorProtoM) : decodeParams l ≠ .error .panic := by
  induction l with
  | nil => simp [decodeParams]
  | cons tp rest ih =>
    unfold decodeParams
    cases h : decode tp with
    | error e =>
      simp only
      intro hc
      cases hc
      exact C12.decode_no_panic tp h
    | ok d =>
      simp only
      cases h2 : decodeParams rest with
      | error e => simp only; intro hc; cases hc; exact ih h2
      | ok ds => simp

/-- **Loading is total**: for every ModelProto — absent graph, no imports, any initializers with any
dims / data types / payloads — `NewModel` returns a model or an error, never a panic. -/
theorem newModel_total (supported : List Int) (mp : ModelProtoM) : newModel supported mp ≠ .error .panic := by
  unfold newModel
  cases h : decodeParams (if mp.hasGraph then mp.initializers else []) with
  | error e => simp only; intro hc; cases hc; exact decodeParams_no_panic _ h
  | ok ps => simp only; split <;> simp

/-- **Opset rule**: when the initializers decode, the model loads iff its highest imported opset
version is one the library implements, and otherwise the error is the unsupported-opset error. -/
theorem opset_rule (supported : List Int) (mp : ModelProtoM) (ps : List Decoded)
    (hd : decodeParams (if mp.hasGraph then mp.initializers else []) = .ok ps) :
    (opsetOf mp.opsetVersions ∈ supported → newModel supported mp = .ok (ps, opsetOf mp.opsetVersions)) ∧
    (opsetOf mp.opsetVersions ∉ supported → newModel supported mp = .error .unsupportedOpset) := by
  unfold newModel
  simp only [hd]
  constructor
  · intro h; simp [List.contains_iff_mem, h]
  · intro h; simp [List.contains_iff_mem, h]

-- non-vacuity: a model with two initializers (a 2×3 FLOAT in `float_data`, an INT64 vector in `int64_data`)
-- that decode, importing the opsets 11, 13 and 9; both inner implications are used
private def nv_mp : ModelProtoM :=
  { initializers := [{ dataType := 1, dims := [2, 3], floatData := [1065353216, 0, 2143289344, 4286578688, 1, 2147483648] },
                     { dataType := 7, dims := [2], int64Data := [-1, 5] }],
    opsetVersions := [11, 13, 9] }
private def nv_ps : List Decoded :=
  [⟨.f32, [2, 3], [1065353216, 0, 2143289344, 4286578688, 1, 2147483648]⟩, ⟨.i64, [2], [18446744073709551615, 5]⟩]
example : (opsetOf nv_mp.opsetVersions ∈ [13] → newModel [13] nv_mp = .ok (nv_ps, opsetOf nv_mp.opsetVersions)) ∧
    (opsetOf nv_mp.opsetVersions ∉ [13] → newModel [13] nv_mp = .error .unsupportedOpset) :=
  opset_rule [13] nv_mp nv_ps (by decide)
example : newModel [13] nv_mp = .ok (nv_ps, 13) := (opset_rule [13] nv_mp nv_ps (by decide)).1 (by decide)
example : newModel [12, 14] nv_mp = .error .unsupportedOpset := (opset_rule [12, 14] nv_mp nv_ps (by decide)).2 (by decide)

theorem foldl_max_ge (vs : List Int) (a : Int) : a ≤ vs.foldl (fun acc v => if v > acc then v else acc) a := by
  induction vs generalizing a with
  | nil => simp
  | cons v rest ih =>
    simp only [List.foldl_cons]
    by_cases h : v > a
    · simp only [h, if_true]; exact Int.le_trans (Int.le_of_lt h) (ih v)
    · simp only [h, if_false]; exact ih a

theorem foldl_max_mem_ge (vs : List Int) (a : Int) : ∀ v ∈ vs, v ≤ vs.foldl (fun acc v => if v > acc then v else acc) a := by
  induction vs generalizing a with
  | nil => intro v h; cases h
  | cons w rest ih =>
    intro v hv
    simp only [List.foldl_cons]
    rcases List.mem_cons.mp hv with rfl | hv
    · by_cases h : v > a
      · simp only [h, if_true]; exact foldl_max_ge rest v
      · simp only [h, if_false]
        exact Int.le_trans (Int.not_lt.mp h) (foldl_max_ge rest a)
    · exact ih _ v hv

/-- every imported version is ≤ the version the model is judged by, which is itself an imported
version or 0 -/
theorem opsetOf_is_max (vs : List Int) : (∀ v ∈ vs, v ≤ opsetOf vs) ∧ 0 ≤ opsetOf vs :=
  ⟨foldl_max_mem_ge vs 0, foldl_max_ge vs 0⟩

/-- **Obligation over the regenerated table**: exactly opset 13 resolves in the running code -/
theorem only_13_supported : Generated.supportedOpsets = [13] := by decide

/-- hence a model whose highest imported opset is not 13 is refused at load (when its weights decode) -/
theorem not_13_refused (mp : ModelProtoM) (ps : List Decoded)
    (hd : decodeParams (if mp.hasGraph then mp.initializers else []) = .ok ps)
    (h : opsetOf mp.opsetVersions ≠ 13) :
    newModel Generated.supportedOpsets mp = .error .unsupportedOpset := by
  apply (opset_rule Generated.supportedOpsets mp ps hd).2
  rw [only_13_supported]
  simpa using h

-- non-vacuity: the same initializers, highest imported opset 14
example : newModel Generated.supportedOpsets { nv_mp with opsetVersions := [11, 14] } = .error .unsupportedOpset :=
  not_13_refused { nv_mp with opsetVersions := [11, 14] } nv_ps (by decide) (by decide)

-- non-vacuity
example : newModel [13] { opsetVersions := [11, 13, 9] } = .ok ([], 13) ∧
    newModel [13] { opsetVersions := [14, 13] } = .error .unsupportedOpset ∧
    newModel [13] { opsetVersions := [] } = .error .unsupportedOpset ∧
    newModel [13] { hasGraph := false, opsetVersions := [13] } = .ok ([], 13) := by decide

end Gonnx.C18
