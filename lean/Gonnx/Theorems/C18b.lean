import Gonnx.Theorems.C18
/-
C18b — the version a model is judged by is a function of the SET of imported versions: the highest one
(0 when there is none), whatever the order of the `opset_import` entries, however often a version or a
domain is repeated, whichever entry comes last.
-/
namespace Gonnx.C18
open Gonnx

theorem foldl_max_mem_or (vs : List Int) (a : Int) :
    vs.foldl (fun acc v => if v > acc then v else acc) a = a ∨
    vs.foldl (fun acc v => if v > acc then v else acc) a ∈ vs := by
  induction vs generalizing a with
  | nil => simp
  | cons w rest ih =>
    simp only [List.foldl_cons]
    by_cases h : w > a
    · simp only [h, if_true]
      rcases ih w with h1 | h1
      · right; rw [h1]; simp
      · right; exact List.mem_cons_of_mem _ h1
    · simp only [h, if_false]
      rcases ih a with h1 | h1
      · left; exact h1
      · right; exact List.mem_cons_of_mem _ h1

/-- the version is 0 or one of the imported versions -/
theorem opsetOf_mem_or_zero (vs : List Int) : opsetOf vs = 0 ∨ opsetOf vs ∈ vs := foldl_max_mem_or vs 0

/-- **characterisation**: `m` is the version the model is judged by iff it bounds every imported version
and 0 from above and is 0 or an imported version -/
theorem opsetOf_eq_iff (vs : List Int) (m : Int) :
    opsetOf vs = m ↔ ((∀ v ∈ vs, v ≤ m) ∧ 0 ≤ m ∧ (m = 0 ∨ m ∈ vs)) := by
  constructor
  · rintro rfl
    exact ⟨(opsetOf_is_max vs).1, (opsetOf_is_max vs).2, opsetOf_mem_or_zero vs⟩
  · rintro ⟨hub, h0, hm⟩
    have h1 : opsetOf vs ≤ m := by
      rcases opsetOf_mem_or_zero vs with h | h
      · rw [h]; exact h0
      · exact hub _ h
    have h2 : m ≤ opsetOf vs := by
      rcases hm with h | h
      · rw [h]; exact (opsetOf_is_max vs).2
      · exact (opsetOf_is_max vs).1 _ h
    exact Int.le_antisymm h1 h2

/-- **order and repetition do not matter**: two import lists with the same set of versions are judged by
the same version (permutations, duplicated entries, a repeated domain whose entries disagree) -/
theorem opsetOf_congr (vs ws : List Int) (h : ∀ v, v ∈ vs ↔ v ∈ ws) : opsetOf vs = opsetOf ws := by
  rw [opsetOf_eq_iff]
  refine ⟨fun v hv => (opsetOf_is_max ws).1 v ((h v).1 hv), (opsetOf_is_max ws).2, ?_⟩
  rcases opsetOf_mem_or_zero ws with h0 | hm
  · left; exact h0
  · right; exact (h _).2 hm

theorem opsetOf_perm (vs ws : List Int) (h : vs.Perm ws) : opsetOf vs = opsetOf ws :=
  opsetOf_congr vs ws (fun _ => h.mem_iff)

/-- an unsupported version anywhere among the imports that is the highest one makes the load fail, whatever
follows it (in particular a later entry with the implemented version for the same domain) -/
theorem higher_import_refused (mp : ModelProtoM) (ps : List Decoded) (v : Int)
    (hd : decodeParams (if mp.hasGraph then mp.initializers else []) = .ok ps)
    (hv : v ∈ mp.opsetVersions) (h13 : 13 < v) :
    newModel Generated.supportedOpsets mp = .error .unsupportedOpset := by
  apply not_13_refused mp ps hd
  have := (opsetOf_is_max mp.opsetVersions).1 v hv
  omega

-- non-vacuity: ("", 14) before ("", 13); ("ai.onnx", 15), ("", 13); three entries
example : opsetOf [14, 13] = opsetOf [13, 14] := opsetOf_perm _ _ (List.Perm.swap 13 14 [])
example : opsetOf [21, 13, 13] = opsetOf [13, 21] := opsetOf_congr _ _ (by intro v; simp; omega)
example : newModel Generated.supportedOpsets { opsetVersions := [15, 13] } = .error .unsupportedOpset :=
  higher_import_refused { opsetVersions := [15, 13] } [] 15 (by decide) (by decide) (by decide)

end Gonnx.C18
