import Gonnx.Ops.IntWrap
/-
C03 / C04 / C11 - fixed-width integer arithmetic. Go evaluates `a + b`, `a - b`, `a * b` and sums of
products on int8 … uint64 by keeping the low bits after EVERY operation; the models of the operators
compute on exact integers and reduce once (`wrapTo`). These theorems show, for every width and both
signednesses, that the two agree (`wrapBits` is a ring homomorphism onto the residues), that the result
lies in the element type's range and is the only value in that range congruent to the exact result.
-/
namespace Gonnx.C03b
open Gonnx

private theorem pow_pos' (bits : Nat) : (0 : Int) < (2 : Int) ^ bits := Int.pow_pos (by decide)

theorem wrapBits_emod (bits : Nat) (s : Bool) (v : Int) :
    wrapBits bits s v % (2 : Int) ^ bits = v % (2 : Int) ^ bits := by
  unfold wrapBits
  simp only
  split
  · rw [Int.sub_emod_right, Int.emod_emod_of_dvd _ (Int.dvd_refl _)]
  · exact Int.emod_emod_of_dvd _ (Int.dvd_refl _)

theorem wrapBits_of_emod_eq (bits : Nat) (s : Bool) (a b : Int)
    (h : a % (2 : Int) ^ bits = b % (2 : Int) ^ bits) : wrapBits bits s a = wrapBits bits s b := by
  unfold wrapBits; simp only [h]

theorem wrapBits_idem (bits : Nat) (s : Bool) (v : Int) :
    wrapBits bits s (wrapBits bits s v) = wrapBits bits s v :=
  wrapBits_of_emod_eq _ _ _ _ (wrapBits_emod _ _ _)

theorem wrapBits_add (bits : Nat) (s : Bool) (a b : Int) :
    wrapBits bits s (wrapBits bits s a + wrapBits bits s b) = wrapBits bits s (a + b) := by
  apply wrapBits_of_emod_eq
  rw [Int.add_emod, wrapBits_emod, wrapBits_emod, ← Int.add_emod]

theorem wrapBits_sub (bits : Nat) (s : Bool) (a b : Int) :
    wrapBits bits s (wrapBits bits s a - wrapBits bits s b) = wrapBits bits s (a - b) := by
  apply wrapBits_of_emod_eq
  rw [Int.sub_emod, wrapBits_emod, wrapBits_emod, ← Int.sub_emod]

theorem wrapBits_mul (bits : Nat) (s : Bool) (a b : Int) :
    wrapBits bits s (wrapBits bits s a * wrapBits bits s b) = wrapBits bits s (a * b) := by
  apply wrapBits_of_emod_eq
  rw [Int.mul_emod, wrapBits_emod, wrapBits_emod, ← Int.mul_emod]

theorem wrapBits_range_unsigned (bits : Nat) (v : Int) :
    0 ≤ wrapBits bits false v ∧ wrapBits bits false v < (2 : Int) ^ bits := by
  unfold wrapBits
  simp only [Bool.false_and, Bool.false_eq_true, if_false]
  exact ⟨Int.emod_nonneg _ (Int.ne_of_gt (pow_pos' bits)), Int.emod_lt_of_pos _ (pow_pos' bits)⟩

theorem wrapBits_range_signed (bits : Nat) (hb : 0 < bits) (v : Int) :
    -((2 : Int) ^ (bits - 1)) ≤ wrapBits bits true v ∧ wrapBits bits true v < (2 : Int) ^ (bits - 1) := by
  have hm : (2 : Int) ^ bits = 2 * (2 : Int) ^ (bits - 1) := by
    conv => lhs; rw [show bits = (bits - 1) + 1 by omega]
    rw [Int.pow_succ]; omega
  have h0 := Int.emod_nonneg v (Int.ne_of_gt (pow_pos' bits))
  have h1 := Int.emod_lt_of_pos v (pow_pos' bits)
  have hp := pow_pos' (bits - 1)
  unfold wrapBits
  simp only [Bool.true_and, decide_eq_true_eq]
  rw [hm] at *
  have hh : 2 * (2 : Int) ^ (bits - 1) / 2 = (2 : Int) ^ (bits - 1) := by omega
  rw [hh]
  split <;> omega

/-- a value inside the range is kept -/
theorem wrapBits_unique (bits : Nat) (hb : 0 < bits) (s : Bool) (v w : Int)
    (hr : if s then -((2 : Int) ^ (bits - 1)) ≤ w ∧ w < (2 : Int) ^ (bits - 1) else 0 ≤ w ∧ w < (2 : Int) ^ bits)
    (hc : w % (2 : Int) ^ bits = v % (2 : Int) ^ bits) : wrapBits bits s v = w := by
  have hm : (2 : Int) ^ bits = 2 * (2 : Int) ^ (bits - 1) := by
    conv => lhs; rw [show bits = (bits - 1) + 1 by omega]
    rw [Int.pow_succ]; omega
  have hp := pow_pos' (bits - 1)
  unfold wrapBits
  simp only
  rw [← hc]
  cases s
  · simp only [Bool.false_and, Bool.false_eq_true, if_false]
    simp only [Bool.false_eq_true, if_false] at hr
    exact Int.emod_eq_of_lt hr.1 hr.2
  · simp only [Bool.true_and, decide_eq_true_eq, if_true] at hr ⊢
    rw [hm] at *
    have hh : 2 * (2 : Int) ^ (bits - 1) / 2 = (2 : Int) ^ (bits - 1) := by omega
    rw [hh]
    generalize (2 : Int) ^ (bits - 1) = p at *
    by_cases hw : 0 ≤ w
    · have : w % (2 * p) = w := Int.emod_eq_of_lt hw (by omega)
      rw [this]; split <;> omega
    · have : w % (2 * p) = w + 2 * p := by
        have := Int.emod_eq_of_lt (a := w + 2 * p) (b := 2 * p) (by omega) (by omega)
        rw [Int.add_emod_right] at this; exact this
      rw [this]; split <;> omega

/-- Go evaluates a sum of products step by step, wrapping after every operation; the exact sum wrapped
once is the same value -/
theorem wrapBits_dot (bits : Nat) (s : Bool) (xs : List (Int × Int)) (acc : Int) :
    xs.foldl (fun a p => wrapBits bits s (a + wrapBits bits s (p.1 * p.2))) (wrapBits bits s acc)
      = wrapBits bits s (xs.foldl (fun a p => a + p.1 * p.2) acc) := by
  induction xs generalizing acc with
  | nil => rfl
  | cons p ps ih =>
    simp only [List.foldl_cons]
    have : wrapBits bits s (wrapBits bits s acc + wrapBits bits s (p.1 * p.2)) = wrapBits bits s (acc + p.1 * p.2) :=
      wrapBits_add bits s acc (p.1 * p.2)
    rw [this]
    exact ih _


-- non-vacuity / sanity: int8 127 + 1, uint8 200 * 2, int32 overflow in a dot product
example : wrapBits 8 true (127 + 1) = -128 := by decide
example : wrapBits 8 false (200 * 2) = 144 := by decide
example : wrapBits 8 true (wrapBits 8 true 100 + wrapBits 8 true 100) = wrapBits 8 true 200 := wrapBits_add 8 true 100 100
example : [(100, 100), (50, 3)].foldl (fun a (p : Int × Int) => wrapBits 8 true (a + wrapBits 8 true (p.1 * p.2))) (wrapBits 8 true 0)
    = wrapBits 8 true (100 * 100 + 50 * 3) := by
  have := wrapBits_dot 8 true [(100, 100), (50, 3)] 0
  simpa using this
example : wrapBits 16 true 40000 = -25536 := wrapBits_unique 16 (by decide) true 40000 (-25536) (by decide) (by decide)

/-- the per-type reduction used by the driver: in range values are kept -/
theorem wrapTo_float (v : Int) : wrapTo .f32 v = v ∧ wrapTo .f64 v = v ∧ wrapTo .bool v = v := ⟨rfl, rfl, rfl⟩

end Gonnx.C03b
