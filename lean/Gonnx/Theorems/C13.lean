import Gonnx.Graph.Validate
/-
C13 — Run accepts exactly the input sets that satisfy the declared signature.
-/
namespace Gonnx.C13
open Gonnx

/-- a supplied shape satisfies a declaration: same rank, every fixed dimension equal -/
def Satisfies (decl : List DimDecl) (shape : List Nat) : Prop :=
  shape.length = decl.length ∧
  ∀ i (h : i < decl.length) (h' : i < shape.length), decl[i].isDynamic = false → decl[i].size = (shape[i] : Int)

theorem dimsMatch_iff (decl : List DimDecl) (shape : List Nat) (hl : shape.length = decl.length) :
    dimsMatch decl shape = true ↔
      ∀ i (h : i < decl.length) (h' : i < shape.length), decl[i].isDynamic = false → decl[i].size = (shape[i] : Int) := by
  induction decl generalizing shape with
  | nil =>
    cases shape with
    | nil => simp [dimsMatch]
    | cons n ns => simp at hl
  | cons d ds ih =>
    cases shape with
    | nil => simp at hl
    | cons n ns =>
      simp only [List.length_cons, Nat.add_right_cancel_iff] at hl
      simp only [dimsMatch, Bool.and_eq_true, Bool.or_eq_true, ih ns hl, List.length_cons]
      constructor
      · rintro ⟨h0, hr⟩ i h h' hd
        cases i with
        | zero =>
          simp only [List.getElem_cons_zero] at hd ⊢
          rcases h0 with h0 | h0
          · simp [hd] at h0
          · simpa using h0
        | succ i =>
          simp only [List.getElem_cons_succ] at hd ⊢
          exact hr i (by omega) (by omega) hd
      · intro hall
        refine ⟨?_, ?_⟩
        · have := hall 0 (by omega) (by omega)
          simp only [List.getElem_cons_zero] at this
          cases hd : d.isDynamic with
          | true => simp
          | false => right; simpa using this hd
        · intro i h h' hd
          have := hall (i+1) (by omega) (by omega)
          simp only [List.getElem_cons_succ] at this
          exact this hd

-- non-vacuity: a declaration (2, dynamic) against the shape 2×7
example : dimsMatch [DimDecl.ofValue 2, DimDecl.ofValue 0] [2, 7] = true ↔
      ∀ i (h : i < [DimDecl.ofValue 2, DimDecl.ofValue 0].length) (h' : i < [2, 7].length),
        [DimDecl.ofValue 2, DimDecl.ofValue 0][i].isDynamic = false → [DimDecl.ofValue 2, DimDecl.ofValue 0][i].size = (([2, 7][i] : Nat) : Int) :=
  dimsMatch_iff [DimDecl.ofValue 2, DimDecl.ofValue 0] [2, 7] rfl

/-- **Acceptance rule.** `validateShapes` succeeds iff every declared input that carries a shape
and is not an initializer is supplied with a tensor of the declared rank whose fixed dimensions
match — whatever the symbolic / unspecified ones are, and whatever else is supplied. -/
theorem validate_ok_iff (decls : List InputDecl) (params : List String) (ins : List (String × List Nat)) :
    validateShapes decls params ins = .ok () ↔
      ∀ e ∈ inputShapes decls, e.1 ∉ params →
        ∃ shape, ins.lookup e.1 = some shape ∧ Satisfies e.2 shape := by
  unfold validateShapes
  constructor
  · intro h e he hp
    split at h
    · rename_i hall
      have := List.all_eq_true.mp hall e he
      unfold validateOne at this
      have hp' : params.contains e.1 = false := by simpa using hp
      simp only [hp', Bool.false_eq_true, if_false] at this
      cases hl : ins.lookup e.1 with
      | none => simp [hl] at this
      | some shape =>
        simp only [hl, Bool.and_eq_true, beq_iff_eq] at this
        exact ⟨shape, rfl, this.1, (dimsMatch_iff _ _ this.1).mp this.2⟩
    · cases h
  · intro h
    have : (inputShapes decls).all (validateOne params ins) = true := by
      apply List.all_eq_true.mpr
      intro e he
      unfold validateOne
      by_cases hp : params.contains e.1 = true
      · rw [if_pos hp]
      · have hp' : e.1 ∉ params := by simpa using hp
        obtain ⟨shape, hl, hs⟩ := h e he hp'
        rw [if_neg hp, hl]
        simp [hs.1, (dimsMatch_iff _ _ hs.1).mpr hs.2]
    simp [this]

/-- the only failure is the model error (never a panic); a failing validation means no operator runs:
`Run` returns before building the tensor environment (see `run_validates_first` in C01). -/
theorem validate_error (decls : List InputDecl) (params : List String) (ins : List (String × List Nat)) (e : Err)
    (h : validateShapes decls params ins = .error e) : e = .model := by
  unfold validateShapes at h; split at h
  · cases h
  · cases h; rfl

-- non-vacuity: three declared inputs (one without a shape), `w` an initializer, `x` supplied with a wrong fixed dimension
private def nv_decls : List InputDecl :=
  [⟨"x", some [DimDecl.ofValue 2, DimDecl.ofValue 0]⟩, ⟨"w", some [DimDecl.ofValue 3]⟩, ⟨"u", none⟩]
example : Err.model = .model :=
  validate_error nv_decls ["w"] [("x", [3, 7])] .model (by decide)

/-- an input that is also an initializer is never required -/
theorem shadowed_not_required (decls : List InputDecl) (params : List String) (ins : List (String × List Nat))
    (h : ∀ e ∈ inputShapes decls, e.1 ∈ params) : validateShapes decls params ins = .ok () := by
  rw [validate_ok_iff]; intro e he hp; exact absurd (h e he) hp

-- non-vacuity: both shaped inputs are initializers; only an undeclared tensor is supplied
example : validateShapes nv_decls ["w", "x"] [("y", [1])] = .ok () :=
  shadowed_not_required nv_decls ["w", "x"] [("y", [1])] (by decide)

/-- a missing required input is rejected -/
theorem missing_rejected (decls : List InputDecl) (params : List String) (ins : List (String × List Nat))
    (e : String × List DimDecl) (he : e ∈ inputShapes decls) (hp : e.1 ∉ params) (hm : ins.lookup e.1 = none) :
    validateShapes decls params ins = .error .model := by
  cases hv : validateShapes decls params ins with
  | ok u =>
    cases u
    obtain ⟨s, hs, _⟩ := (validate_ok_iff _ _ _).mp hv e he hp
    simp [hm] at hs
  | error err => rw [validate_error _ _ _ _ hv]

-- non-vacuity: `x` is declared with a shape, is not an initializer and is not supplied
example : validateShapes nv_decls ["w"] [("y", [1]), ("u", [4])] = .error .model :=
  missing_rejected nv_decls ["w"] [("y", [1]), ("u", [4])] ("x", [DimDecl.ofValue 2, DimDecl.ofValue 0]) (by decide) (by decide) (by decide)

-- non-vacuity
example : validateShapes [⟨"x", some [DimDecl.ofValue 2, DimDecl.ofValue 0]⟩, ⟨"w", some [DimDecl.ofValue 3]⟩] ["w"]
    [("x", [2, 7])] = .ok () ∧
  validateShapes [⟨"x", some [DimDecl.ofValue 2, DimDecl.ofValue 0]⟩] [] [("x", [3, 7])] = .error .model := by decide

end Gonnx.C13
