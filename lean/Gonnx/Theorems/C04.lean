import Gonnx.Ops.MatMul
import Gonnx.Spec.MatMul
import Gonnx.Proofs.Binary
import Gonnx.Proofs.MatMul
/-
C04 — MatMul, Gemm, LinearRegressor and Scaler compute their algebraic definitions.
Model: Gonnx/Ops/MatMul.lean. Spec: Gonnx/Spec/MatMul.lean. The arithmetic `A : Arith α` is a
parameter and every sum is a left fold in index order on both sides: no algebraic law is used, so
the theorems hold for floating-point arithmetic with this summation order (gonum's blocked
summation order is NOT modelled: rounding differences are outside these theorems).
-/
namespace Gonnx.C04
open Gonnx
variable {α : Type} [Inhabited α]

abbrev Pos := Proofs.Pos
abbrev Equiv {β : Type} [Inhabited β] := @Proofs.Equiv β _

-- concrete arithmetic and tensors shared by the non-vacuity examples below
private def nv_A : Arith Int := ⟨0, (· + ·), (· * ·), (· - ·)⟩
private def nv_a : Tensor Int := ⟨[2, 2, 3], [1, 2, 3, 4, 5, 6, 7, 8, 9, 10, 11, 12]⟩
private def nv_b : Tensor Int := ⟨[3, 2], [1, 0, 0, 1, 1, 1]⟩
private def nv_m : Tensor Int := ⟨[2, 3], [1, 2, 3, 4, 5, 6]⟩
private def nv_c : Tensor Int := ⟨[2], [100, 200]⟩

/-- the odometer of `batchedMatMul` visits every batch index exactly once, in row-major order, and
stops: the loop terminates after ∏ shape iterations -/
theorem odometer_enumerates (shape : List Nat) (hpos : Pos shape) : odometer shape = allIdx shape :=
  Proofs.MatMul.odometer_enumerates shape hpos

-- non-vacuity: a 2×3 batch index space
example : odometer [2, 3] = allIdx [2, 3] := odometer_enumerates [2, 3] (by simp [Proofs.Pos])

/-- the guard the code forces on the vector / batched path: no operand matrix with a single element -/
def NoOneByOne (a b : Tensor α) : Prop :=
  (a.shape.length = 2 ∧ b.shape.length = 2) ∨
  (let sa := if a.shape.length = 1 then [1, dim a.shape 0] else a.shape
   let sb := if b.shape.length = 1 then [dim b.shape 0, 1] else b.shape
   dim sa (sa.length - 2) * dim sa (sa.length - 1) ≠ 1 ∧ dim sb (sb.length - 2) * dim sb (sb.length - 1) ≠ 1)

/-- **MatMul = numpy.matmul** (partial: `NoOneByOne`) for every rank combination ≥ 1 -/
theorem matmul_partial (A : Arith α) (a b : Tensor α) (hWa : a.WF) (hWb : b.WF)
    (hpa : Pos a.shape) (hpb : Pos b.shape) (hg : NoOneByOne a b)
    (s : Tensor α) (hs : Spec.matmul A a b = some s) :
    ∃ m, matmulOp A a b = .ok m ∧ Equiv m s := Proofs.MatMul.matmul_partial A a b hWa hWb hpa hpb hg s hs

-- non-vacuity: a batch of two 2×3 matrices times a 3×2 matrix (batched path, B broadcast over the batch) …
example : ∃ m, matmulOp nv_A nv_a nv_b = .ok m ∧ Equiv m ⟨[2, 2, 2], [4, 5, 10, 11, 16, 17, 22, 23]⟩ :=
  matmul_partial nv_A nv_a nv_b rfl rfl (by simp [Proofs.Pos, nv_a]) (by simp [Proofs.Pos, nv_b])
    (by unfold NoOneByOne; decide) _ (by decide)
-- … and a 2×3 matrix times a vector of 3 (promotion path)
example : ∃ m, matmulOp nv_A nv_m ⟨[3], [1, 1, 1]⟩ = .ok m ∧ Equiv m ⟨[2], [6, 15]⟩ :=
  matmul_partial nv_A nv_m ⟨[3], [1, 1, 1]⟩ rfl rfl (by simp [Proofs.Pos, nv_m]) (by simp [Proofs.Pos])
    (by unfold NoOneByOne; decide) _ (by decide)

-- `ha`, `hb` are part of the fixed statement; a rank-0 operand is refused as well (`.unmodelled`)
set_option linter.unusedVariables false in
/-- a shape-invalid request never yields a tensor -/
theorem matmul_refuses (A : Arith α) (a b : Tensor α) (hpa : Pos a.shape) (hpb : Pos b.shape)
    (ha : a.shape ≠ []) (hb : b.shape ≠ []) (hs : Spec.matmul A a b = none) :
    ∀ m, matmulOp A a b ≠ .ok m := Proofs.MatMul.matmul_refuses A a b hpa hpb hs

-- non-vacuity: 2×3 times a batch of 2×3 (inner extents 3 and 2)
example : ∀ m, matmulOp nv_A nv_m nv_a ≠ .ok m :=
  matmul_refuses nv_A nv_m nv_a (by simp [Proofs.Pos, nv_m]) (by simp [Proofs.Pos, nv_a]) (by decide) (by decide) (by decide)

/-- the unguarded statement is false: a 1-element operand on the batched path is refused (known
finding matmul.batched_1x1) -/
theorem matmul_counterexample :
    matmulOp (⟨0, (· + ·), (· * ·), (· - ·)⟩ : Arith Int) ⟨[1], [3]⟩ ⟨[1], [4]⟩ = .error .gorgonia ∧
    Spec.matmul (⟨0, (· + ·), (· * ·), (· - ·)⟩ : Arith Int) ⟨[1], [3]⟩ ⟨[1], [4]⟩ = some ⟨[], [12]⟩ := by decide

/-- **Gemm** = alpha·op(A)·op(B) + beta·C for every transA/transB/alpha/beta and every C
unidirectionally broadcastable to the result (or absent) -/
theorem gemm_eq_spec (A : Arith α) (alpha beta : α) (tA tB : Bool) (a b : Tensor α) (c : Option (Tensor α))
    (hWa : a.WF) (hWb : b.WF) (hWc : ∀ t, c = some t → t.WF)
    (hpa : Pos a.shape) (hpb : Pos b.shape) (hpc : ∀ t, c = some t → Pos t.shape)
    (s : Tensor α) (hs : Spec.gemm A alpha beta tA tB a b c = some s) :
    ∃ m, gemmOp A alpha beta tA tB a b c = .ok m ∧ Equiv m s :=
  Proofs.MatMul.gemm_eq_spec A alpha beta tA tB a b c hWa hWb hWc hpa hpb hpc s hs

-- non-vacuity: 2×3 · 3×2 with a bias row of 2 broadcast over the rows, alpha = 2, beta = 3 …
example : ∃ m, gemmOp nv_A 2 3 false false nv_m nv_b (some nv_c) = .ok m ∧ Equiv m ⟨[2, 2], [308, 610, 320, 622]⟩ :=
  gemm_eq_spec nv_A 2 3 false false nv_m nv_b (some nv_c) rfl rfl (by intro t h; cases h; rfl)
    (by simp [Proofs.Pos, nv_m]) (by simp [Proofs.Pos, nv_b]) (by intro t h; cases h; simp [Proofs.Pos, nv_c]) _ (by decide)
-- … and with both operands transposed
example : ∃ m, gemmOp nv_A 2 3 true true nv_b nv_m (some nv_c) = .ok m ∧ Equiv m ⟨[2, 2], [308, 620, 310, 622]⟩ :=
  gemm_eq_spec nv_A 2 3 true true nv_b nv_m (some nv_c) rfl rfl (by intro t h; cases h; rfl)
    (by simp [Proofs.Pos, nv_b]) (by simp [Proofs.Pos, nv_m]) (by intro t h; cases h; simp [Proofs.Pos, nv_c]) _ (by decide)

theorem gemm_refuses (A : Arith α) (alpha beta : α) (tA tB : Bool) (a b : Tensor α) (c : Option (Tensor α))
    (hpa : Pos a.shape) (hpb : Pos b.shape) (hpc : ∀ t, c = some t → Pos t.shape)
    (hs : Spec.gemm A alpha beta tA tB a b c = none) :
    ∀ m, gemmOp A alpha beta tA tB a b c ≠ .ok m :=
  Proofs.MatMul.gemm_refuses A alpha beta tA tB a b c hpa hpb hpc hs

-- non-vacuity: a 2×3 C cannot be broadcast to the 2×2 product
example : ∀ m, gemmOp nv_A 2 3 false false nv_m nv_b (some nv_m) ≠ .ok m :=
  gemm_refuses nv_A 2 3 false false nv_m nv_b (some nv_m)
    (by simp [Proofs.Pos, nv_m]) (by simp [Proofs.Pos, nv_b]) (by intro t h; cases h; simp [Proofs.Pos, nv_m]) (by decide)

/-- **LinearRegressor**: `Y[n,t] = Σ_f X[n,f]·coef[t·F+f] + intercepts[t]` -/
theorem linreg_eq_spec (A : Arith α) (coef icpt : List α) (targets : Nat) (x : Tensor α)
    (hW : x.WF) (hp : Pos x.shape) (s : Tensor α) (hs : Spec.linreg A coef icpt targets x = some s) :
    ∃ m, linregOp A coef icpt targets x = .ok m ∧ Equiv m s :=
  Proofs.MatMul.linreg_eq_spec A coef icpt targets x hW hp s hs

-- non-vacuity: 2 samples, 3 features, 2 targets
example : ∃ m, linregOp nv_A [1, 0, 0, 1, 1, 1] [10, 20] 2 nv_m = .ok m ∧ Equiv m ⟨[2, 2], [11, 26, 14, 35]⟩ :=
  linreg_eq_spec nv_A [1, 0, 0, 1, 1, 1] [10, 20] 2 nv_m rfl (by simp [Proofs.Pos, nv_m]) _ (by decide)

/-- **Scaler**: `(X - offset) * scale` per feature -/
theorem scaler_eq_spec (A : Arith α) (off sc : List α) (x : Tensor α)
    (hW : x.WF) (hp : Pos x.shape) (s : Tensor α) (hs : Spec.scaler A off sc x = some s) :
    ∃ m, scalerOp A off sc x = .ok m ∧ Equiv m s := Proofs.MatMul.scaler_eq_spec A off sc x hW hp s hs

-- non-vacuity: per-feature offsets, a single scale
example : ∃ m, scalerOp nv_A [1, 2, 3] [10] nv_m = .ok m ∧ Equiv m ⟨[2, 3], [0, 0, 0, 30, 30, 30]⟩ :=
  scaler_eq_spec nv_A [1, 2, 3] [10] nv_m rfl (by simp [Proofs.Pos, nv_m]) _ (by decide)

-- non-vacuity
example : (Spec.matmul (⟨0, (· + ·), (· * ·), (· - ·)⟩ : Arith Int) ⟨[2, 1, 2], [1, 2, 3, 4]⟩ ⟨[2], [5, 6]⟩).map (fun t => (t.shape, t.data)) = some ([2, 1], [17, 39]) ∧
    odometer [2, 3] = allIdx [2, 3] := by decide

end Gonnx.C04
