import Gonnx.Ops.MatMul
import Gonnx.Spec.MatMul
import Gonnx.Proofs.Binary
import Gonnx.Proofs.MatMul
/-
C04 — MatMul, Gemm, LinearRegressor and Scaler compute their algebraic definitions.
Model: Gonnx/Ops/MatMul.lean. Spec: Gonnx/Spec/MatMul.lean. The arithmetic `A : Arith α` is a
parameter and every sum is a left fold in index order on both sides: no algebraic law is used, so
the theorems hold for floating-point arithmetic with this summation order (gonum's blocked
summation order is NOT modelled: rounding differences are outside these theorems).
-/
namespace Gonnx.C04
open Gonnx
variable {α : Type} [Inhabited α]

abbrev Pos := Proofs.Pos
abbrev Equiv {β : Type} [Inhabited β] := @Proofs.Equiv β _

/-- the odometer of `batchedMatMul` visits every batch index exactly once, in row-major order, and
stops: the loop terminates after ∏ shape iterations -/
theorem odometer_enumerates (shape : List Nat) (hpos : Pos shape) : odometer shape = allIdx shape :=
  Proofs.MatMul.odometer_enumerates shape hpos

/-- the guard the code forces on the vector / batched path: no operand matrix with a single element -/
def NoOneByOne (a b : Tensor α) : Prop :=
  (a.shape.length = 2 ∧ b.shape.length = 2) ∨
  (let sa := if a.shape.length = 1 then [1, dim a.shape 0] else a.shape
   let sb := if b.shape.length = 1 then [dim b.shape 0, 1] else b.shape
   dim sa (sa.length - 2) * dim sa (sa.length - 1) ≠ 1 ∧ dim sb (sb.length - 2) * dim sb (sb.length - 1) ≠ 1)

/-- **MatMul = numpy.matmul** (partial: `NoOneByOne`) for every rank combination ≥ 1 -/
theorem matmul_partial (A : Arith α) (a b : Tensor α) (hWa : a.WF) (hWb : b.WF)
    (hpa : Pos a.shape) (hpb : Pos b.shape) (hg : NoOneByOne a b)
    (s : Tensor α) (hs : Spec.matmul A a b = some s) :
    ∃ m, matmulOp A a b = .ok m ∧ Equiv m s := Proofs.MatMul.matmul_partial A a b hWa hWb hpa hpb hg s hs

-- `ha`, `hb` are part of the fixed statement; a rank-0 operand is refused as well (`.unmodelled`)
set_option linter.unusedVariables false in
/-- a shape-invalid request never yields a tensor -/
theorem matmul_refuses (A : Arith α) (a b : Tensor α) (hpa : Pos a.shape) (hpb : Pos b.shape)
    (ha : a.shape ≠ []) (hb : b.shape ≠ []) (hs : Spec.matmul A a b = none) :
    ∀ m, matmulOp A a b ≠ .ok m := Proofs.MatMul.matmul_refuses A a b hpa hpb hs

/-- the unguarded statement is false: a 1-element operand on the batched path is refused (known
finding matmul.batched_1x1) -/
theorem matmul_counterexample :
    matmulOp (⟨0, (· + ·), (· * ·), (· - ·)⟩ : Arith Int) ⟨[1], [3]⟩ ⟨[1], [4]⟩ = .error .gorgonia ∧
    Spec.matmul (⟨0, (· + ·), (· * ·), (· - ·)⟩ : Arith Int) ⟨[1], [3]⟩ ⟨[1], [4]⟩ = some ⟨[], [12]⟩ := by decide

/-- **Gemm** = alpha·op(A)·op(B) + beta·C for every transA/transB/alpha/beta and every C
unidirectionally broadcastable to the result (or absent) -/
theorem gemm_eq_spec (A : Arith α) (alpha beta : α) (tA tB : Bool) (a b : Tensor α) (c : Option (Tensor α))
    (hWa : a.WF) (hWb : b.WF) (hWc : ∀ t, c = some t → t.WF)
    (hpa : Pos a.shape) (hpb : Pos b.shape) (hpc : ∀ t, c = some t → Pos t.shape)
    (s : Tensor α) (hs : Spec.gemm A alpha beta tA tB a b c = some s) :
    ∃ m, gemmOp A alpha beta tA tB a b c = .ok m ∧ Equiv m s :=
  Proofs.MatMul.gemm_eq_spec A alpha beta tA tB a b c hWa hWb hWc hpa hpb hpc s hs

theorem gemm_refuses (A : Arith α) (alpha beta : α) (tA tB : Bool) (a b : Tensor α) (c : Option (Tensor α))
    (hpa : Pos a.shape) (hpb : Pos b.shape) (hpc : ∀ t, c = some t → Pos t.shape)
    (hs : Spec.gemm A alpha beta tA tB a b c = none) :
    ∀ m, gemmOp A alpha beta tA tB a b c ≠ .ok m :=
  Proofs.MatMul.gemm_refuses A alpha beta tA tB a b c hpa hpb hpc hs

/-- **LinearRegressor**: `Y[n,t] = Σ_f X[n,f]·coef[t·F+f] + intercepts[t]` -/
theorem linreg_eq_spec (A : Arith α) (coef icpt : List α) (targets : Nat) (x : Tensor α)
    (hW : x.WF) (hp : Pos x.shape) (s : Tensor α) (hs : Spec.linreg A coef icpt targets x = some s) :
    ∃ m, linregOp A coef icpt targets x = .ok m ∧ Equiv m s :=
  Proofs.MatMul.linreg_eq_spec A coef icpt targets x hW hp s hs

/-- **Scaler**: `(X - offset) * scale` per feature -/
theorem scaler_eq_spec (A : Arith α) (off sc : List α) (x : Tensor α)
    (hW : x.WF) (hp : Pos x.shape) (s : Tensor α) (hs : Spec.scaler A off sc x = some s) :
    ∃ m, scalerOp A off sc x = .ok m ∧ Equiv m s := Proofs.MatMul.scaler_eq_spec A off sc x hW hp s hs

-- non-vacuity
example : (Spec.matmul (⟨0, (· + ·), (· * ·), (· - ·)⟩ : Arith Int) ⟨[2, 1, 2], [1, 2, 3, 4]⟩ ⟨[2], [5, 6]⟩).map (fun t => (t.shape, t.data)) = some ([2, 1], [17, 39]) ∧
    odometer [2, 3] = allIdx [2, 3] := by decide

end Gonnx.C04
