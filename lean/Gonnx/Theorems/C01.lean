import Gonnx.Graph.Run
import Gonnx.Spec.Run
import Gonnx.Proofs.Run
/-
C01 — Run computes the dataflow composition of the graph, returning every output.
Model: Gonnx/Graph/Run.lean (model.go after the fix: commits). Spec: Gonnx/Spec/Run.lean.
Everything is generic in the value type `V` and in the operator semantics
`sem : node index → gathered inputs → results`: node `i` is a function of its own inputs only
(two nodes of one operator type cannot influence each other in the model; the tie of that fact to
the code is the registry-freshness probe of C15 and the same-type stream of the correspondence).
`available`, `WF`, `FirstBindingWins`, `UniqueNames` (namespace `Gonnx.C01`) and all helper lemmas live
in Gonnx/Proofs/Run.lean.
-/
namespace Gonnx.C01
open Gonnx Gonnx.Proofs.Run
variable {V : Type}

/-- The statement of `run_refines_value` as first written (verbatim, at `V := Nat`). It is FALSE:
`WF` does not say that the caller's tensors (or the initializers) bind each name once. `run` builds
its environment so that the last binding of a name wins, `Spec.value` takes the first. -/
def run_refines_value_statement : Prop :=
  ∀ (shapeOf : Nat → List Nat) (sem : Nat → List (Option Nat) → Res (List (Option Nat)))
    (g : Graph Nat) (ins : List (String × Nat)) (_hwf : WF g ins)
    (outs : List (String × Nat)) (_h : run shapeOf sem g ins = .ok outs),
    ∀ o v, (o, v) ∈ outs → Spec.value sem g ins (g.nodes.length + 1) o = .ok (some v)

/-- witness: no nodes, output `x`, the caller supplies `x` twice: `run` returns `x = 2`, the
specification says `x = 1`. (The same happens with `inits := [("w", 1), ("w", 2)]`, see below.) -/
theorem run_refines_value_counterexample : ¬ run_refines_value_statement := by
  intro hst
  have hwf : WF ({ nodes := [], decls := [], outputs := ["x"], inits := [] } : Graph Nat) [("x", 1), ("x", 2)] :=
    ⟨fun i h => absurd h (Nat.not_lt_zero i), List.nodup_nil, fun o ho => absurd ho List.not_mem_nil⟩
  have := hst (fun _ => []) (fun _ _ => .ok []) _ _ hwf [("x", 2)] (by decide) "x" 2 (by simp)
  revert this
  decide

-- the same defect through a duplicated initializer
example :
    let g : Graph Nat := { nodes := [], decls := [], outputs := ["w"], inits := [("w", 1), ("w", 2)] }
    let sem : Nat → List (Option Nat) → Res (List (Option Nat)) := fun _ _ => .ok []
    run (fun _ => []) sem g [] = .ok [("w", 2)] ∧ Spec.value sem g [] 1 "w" = .ok (some 1) := by
  decide

-- concrete instance shared by the non-vacuity examples below: a two-node graph with fan-out (node 1
-- reads `a` twice), an initializer `x` that the caller overrides, and a toy semantics (sum of the inputs)
private def nv_g : Graph Nat :=
  { nodes := [⟨["x", "w"], ["a"]⟩, ⟨["a", "a"], ["b"]⟩], decls := [], outputs := ["b", "a"], inits := [("w", 10), ("x", 5)] }
private def nv_sem : Nat → List (Option Nat) → Res (List (Option Nat)) :=
  fun _ l => .ok [some ((l.map (·.getD 0)).foldl (· + ·) 0)]
-- the same nodes with a declared 2×3 input `x` that is not an initializer
private def nv_gd : Graph Nat :=
  { nv_g with decls := [⟨"x", some [⟨false, 2⟩, ⟨false, 3⟩]⟩], inits := [("w", 10)] }

/-- **Run refines the dataflow value.** On a well-formed graph whose caller tensors and initializers
bind every name consistently (`hnames : FirstBindingWins g ins` — the one hypothesis added to the
original statement; it holds when names are unique, as in a Go map), whenever Run succeeds every
returned tensor is the demand-driven value of its name: inputs (the caller's tensor before the
initializer of the same name), initializers, or the k-th result of the node that lists the name at
output position k — whatever the names are. -/
theorem run_refines_value_partial (shapeOf : V → List Nat) (sem : Nat → List (Option V) → Res (List (Option V)))
    (g : Graph V) (ins : List (String × V)) (hwf : WF g ins) (hnames : FirstBindingWins g ins)
    (outs : List (String × V)) (h : run shapeOf sem g ins = .ok outs) :
    ∀ o v, (o, v) ∈ outs → Spec.value sem g ins (g.nodes.length + 1) o = .ok (some v) :=
  run_refines shapeOf sem g ins hwf hnames outs h

-- non-vacuity: the theorem applied to the two-node graph; every hypothesis is discharged
example : ∀ o v, (o, v) ∈ [("b", 22), ("a", 11)] → Spec.value nv_sem nv_g [("x", 1)] (nv_g.nodes.length + 1) o = .ok (some v) :=
  run_refines_value_partial (fun _ => []) nv_sem nv_g [("x", 1)] ⟨by decide, by decide, by decide⟩
    (FirstBindingWins.of_unique ⟨by decide, by decide⟩) [("b", 22), ("a", 11)] (by decide)

/-- the same with the plainer hypothesis: no name twice among the caller's tensors, none twice among
the initializers (a name may still be both a caller tensor and an initializer) -/
theorem run_refines_value_of_unique (shapeOf : V → List Nat) (sem : Nat → List (Option V) → Res (List (Option V)))
    (g : Graph V) (ins : List (String × V)) (hwf : WF g ins) (huniq : UniqueNames g ins)
    (outs : List (String × V)) (h : run shapeOf sem g ins = .ok outs) :
    ∀ o v, (o, v) ∈ outs → Spec.value sem g ins (g.nodes.length + 1) o = .ok (some v) :=
  run_refines shapeOf sem g ins hwf (FirstBindingWins.of_unique huniq) outs h

-- non-vacuity
example : ∀ o v, (o, v) ∈ [("b", 22), ("a", 11)] → Spec.value nv_sem nv_g [("x", 1)] (nv_g.nodes.length + 1) o = .ok (some v) :=
  run_refines_value_of_unique (fun _ => []) nv_sem nv_g [("x", 1)] ⟨by decide, by decide, by decide⟩
    ⟨by decide, by decide⟩ [("b", 22), ("a", 11)] (by decide)

/-- more fuel never changes a value: the fuel `g.nodes.length + 1` above is a lower bound -/
theorem value_fuel_mono (sem : Nat → List (Option V) → Res (List (Option V))) (g : Graph V)
    (ins : List (String × V)) (f f' : Nat) (hle : f ≤ f') (name : String) (w : Option V)
    (h : Spec.value sem g ins f name = .ok w) : Spec.value sem g ins f' name = .ok w :=
  value_mono sem g ins f name w h f' hle

-- non-vacuity: fuel 3 suffices for `b` in the two-node graph, so does fuel 7
example : Spec.value nv_sem nv_g [("x", 1)] 7 "b" = .ok (some 22) :=
  value_fuel_mono nv_sem nv_g [("x", 1)] 3 7 (by decide) "b" (some 22) (by decide)

/-- **Every declared output is present** (and non-nil: the result carries values, not options), in
the declared order — or Run reports an error. -/
theorem run_outputs_total (shapeOf : V → List Nat) (sem : Nat → List (Option V) → Res (List (Option V)))
    (g : Graph V) (ins : List (String × V)) (outs : List (String × V))
    (h : run shapeOf sem g ins = .ok outs) : outs.map (·.1) = g.outputs := by
  obtain ⟨env, _, hc⟩ := run_ok h
  exact collect_names env g.outputs outs hc

-- non-vacuity: a successful Run of the two-node graph
example : ([("b", 22), ("a", 11)] : List (String × Nat)).map (·.1) = nv_g.outputs :=
  run_outputs_total (fun _ => []) nv_sem nv_g [("x", 1)] _ (by decide)

/-- a declared output that nothing provides makes Run fail -/
theorem run_missing_output (shapeOf : V → List Nat) (sem : Nat → List (Option V) → Res (List (Option V)))
    (g : Graph V) (ins : List (String × V)) (o : String) (ho : o ∈ g.outputs)
    (hno : o ∉ available g ins g.nodes.length) : ∃ e, run shapeOf sem g ins = .error e :=
  run_missing shapeOf sem g ins o ho hno

-- non-vacuity: the two-node graph with a declared output `c` that no node, input or initializer provides
example : ∃ e, run (fun _ => []) nv_sem { nv_g with outputs := ["b", "c"] } [("x", 1)] = .error e :=
  run_missing_output (fun _ => []) nv_sem { nv_g with outputs := ["b", "c"] } [("x", 1)] "c" (by decide) (by decide)

/-- **Validation comes first** (C13): when the supplied tensors do not satisfy the signature Run fails
with that error whatever the operators are — no operator is applied, so no tensor is touched. -/
theorem run_validates_first (shapeOf : V → List Nat) (sem sem' : Nat → List (Option V) → Res (List (Option V)))
    (g : Graph V) (ins : List (String × V)) (e : Err)
    (hv : validateShapes g.decls (g.inits.map (·.1)) (ins.map fun (n, v) => (n, shapeOf v)) = .error e) :
    run shapeOf sem g ins = .error e ∧ run shapeOf sem' g ins = .error e :=
  ⟨run_error_of_validate shapeOf sem g ins e hv, run_error_of_validate shapeOf sem' g ins e hv⟩

-- non-vacuity: `x` is declared 2×3 and a rank-1 tensor is supplied
example :
    run (fun _ => [2]) nv_sem nv_gd [("x", 1)] = .error .model ∧
    run (fun _ => [2]) (fun _ _ => .error .panic) nv_gd [("x", 1)] = .error .model :=
  run_validates_first (fun _ => [2]) nv_sem (fun _ _ => .error .panic) nv_gd [("x", 1)] .model (by decide)

/-- **A failing node fails the Run** with that node's error (C18: an operator type outside the opset
yields the unsupported-operator error — the node is neither skipped nor substituted): if the nodes
before it succeed and the node itself fails with `e`, the whole node loop fails with `e`. -/
theorem run_node_error (sem : Nat → List (Option V) → Res (List (Option V)))
    (pre rest : List GNode) (n : GNode) (start : Nat) (env env1 : Env V) (insn : List (Option V)) (e : Err)
    (hpre : runNodes sem start pre env = .ok env1)
    (hg : gatherInputs env1 n.ins = .ok insn)
    (hfail : sem (start + pre.length) insn = .error e) :
    runNodes sem start (pre ++ n :: rest) env = .error e :=
  runNodes_node_error sem n rest insn e pre start env env1 hpre hg hfail

-- non-vacuity: three nodes, the middle one (index 1) is of an unsupported type
example :
    runNodes (fun i l => if i = 1 then .error .unsupportedOp else nv_sem i l) 0
      ([⟨["x", "w"], ["a"]⟩] ++ (⟨["a", "a"], ["b"]⟩ : GNode) :: [⟨["b"], ["c"]⟩])
      [("x", some 1), ("w", some 10)] = .error .unsupportedOp :=
  run_node_error (fun i l => if i = 1 then .error .unsupportedOp else nv_sem i l)
    [⟨["x", "w"], ["a"]⟩] [⟨["b"], ["c"]⟩] ⟨["a", "a"], ["b"]⟩ 0
    [("x", some 1), ("w", some 10)] [("a", some 11), ("x", some 1), ("w", some 10)] [some 11, some 11] .unsupportedOp
    (by decide) (by decide) (by decide)

/-- results are bound to the output names by position: the environment after a node maps its k-th
output name to the k-th result -/
theorem bind_positional (env : Env V) (names : List String) (outs : List (Option V)) (env' : Env V)
    (hn : names.Nodup) (h : bindOutputs env names outs = .ok env') (k : Nat) (hk : k < names.length) :
    env'.find (names[k]) = some (outs.getD k none) :=
  bind_find_mem env names outs env' hn h k hk

-- non-vacuity: two output names, the second result absent
example : Env.find ([("q", none), ("p", some 7), ("x", some 1)] : Env Nat) (["p", "q"][1]) = some ([some 7, none].getD 1 none) :=
  bind_positional [("x", some 1)] ["p", "q"] [some 7, none] _ (by decide) (by decide) 1 (by decide)

/-- an empty input name is 'optional input absent', and gathering does not depend on later bindings -/
theorem gather_empty (env : Env V) (rest : List String) :
    gatherInputs env ("" :: rest) = (gatherInputs env rest).map (none :: ·) := by
  simp [gatherInputs]

-- non-vacuity: a two-node graph with fan-out, evaluated with a toy semantics
example :
    let g : Graph Nat := { nodes := [⟨["x", "w"], ["a"]⟩, ⟨["a", "a"], ["b"]⟩], decls := [], outputs := ["b", "a"], inits := [("w", 10)] }
    let sem : Nat → List (Option Nat) → Res (List (Option Nat)) := fun _ l => .ok [some ((l.map (·.getD 0)).foldl (· + ·) 0)]
    run (fun _ => []) sem g [("x", 1)] = .ok [("b", 22), ("a", 11)] ∧ Spec.value sem g [("x", 1)] 3 "b" = .ok (some 22) := by
  decide

-- non-vacuity of `run_refines_value_partial`: its premises hold together on that graph
example :
    let g : Graph Nat := { nodes := [⟨["x", "w"], ["a"]⟩, ⟨["a", "a"], ["b"]⟩], decls := [], outputs := ["b", "a"], inits := [("w", 10), ("x", 5)] }
    let sem : Nat → List (Option Nat) → Res (List (Option Nat)) := fun _ l => .ok [some ((l.map (·.getD 0)).foldl (· + ·) 0)]
    WF g [("x", 1)] ∧ UniqueNames g [("x", 1)] ∧ FirstBindingWins g [("x", 1)] ∧
      run (fun _ => []) sem g [("x", 1)] = .ok [("b", 22), ("a", 11)] := by
  intro g sem
  have hu : UniqueNames g [("x", 1)] := ⟨by decide, by decide⟩
  exact ⟨⟨by decide, by decide, by decide⟩, hu, FirstBindingWins.of_unique hu, by decide⟩

end Gonnx.C01
