import Gonnx.Ops.Index
import Gonnx.Spec.Index
import Gonnx.Proofs.Binary
import Gonnx.Proofs.Index
/-
C08 — Transpose, Concat, Slice, Gather, Expand select exactly the ONNX-indexed data.
Model: Gonnx/Ops/Index.lean + gorgonia kernel models in Gonnx/Kernel.lean. Spec: Gonnx/Spec/Index.lean.
`Equiv s t`: same shape, both dense, equal at every in-range index.
-/
namespace Gonnx.C08
open Gonnx
variable {α : Type} [Inhabited α]

abbrev Pos := Proofs.Pos
abbrev Equiv {β : Type} [Inhabited β] := @Proofs.Equiv β _

-- `vec` (a 1-D int64 tensor) is defined, unchanged, in Gonnx/Proofs/Index.lean (namespace Gonnx.C08)

-- concrete tensors shared by the non-vacuity examples below
private def nv_t : Tensor Nat := ⟨[2, 3, 2], List.range 12⟩
private def nv_m : Tensor Nat := ⟨[3, 4], List.range 12⟩
private def nv_a : Tensor Nat := ⟨[2, 3], [1, 2, 3, 4, 5, 6]⟩
private def nv_b : Tensor Nat := ⟨[2, 2], [7, 8, 9, 10]⟩

/-- **Transpose**: for every permutation the operator returns the ONNX result -/
theorem transpose_eq_spec (t : Tensor α) (perm : List Int) (hp : Spec.isPerm t.shape.length perm = true) :
    ∃ s, Spec.transpose t perm = some s ∧ transposeOp t perm = .ok s :=
  Proofs.Index.transpose_eq_spec t perm hp

-- non-vacuity: a 2×3×2 tensor, the cyclic permutation (2, 0, 1)
example : ∃ s, Spec.transpose nv_t [2, 0, 1] = some s ∧ transposeOp nv_t [2, 0, 1] = .ok s :=
  transpose_eq_spec nv_t [2, 0, 1] (by decide)
example : transposeOp nv_t [2, 0, 1] = .ok ⟨[2, 2, 3], [0, 2, 4, 6, 8, 10, 1, 3, 5, 7, 9, 11]⟩ := by decide

/-- a pattern of the wrong length is refused -/
theorem transpose_wrong_length (t : Tensor α) (perm : List Int) (h : perm.length ≠ t.shape.length) :
    transposeOp t perm = .error .gorgonia ∧ Spec.transpose t perm = none :=
  Proofs.Index.transpose_wrong_length t perm h

-- non-vacuity: a pattern of length 2 for a rank-3 tensor
example : transposeOp nv_t [1, 0] = .error .gorgonia ∧ Spec.transpose nv_t [1, 0] = none :=
  transpose_wrong_length nv_t [1, 0] (by decide)

/-- **Gather**: along any axis, index tensors of any rank, negative indices: the ONNX formula;
out-of-range axis or index: the axis error -/
theorem gather_eq_spec (data : Tensor α) (indices : Tensor Int) (axis : Int) :
    (gatherOp data indices axis).toOption = Spec.gather data indices axis :=
  Proofs.Index.gather_eq_spec data indices axis

theorem gather_error (data : Tensor α) (indices : Tensor Int) (axis : Int)
    (h : Spec.gather data indices axis = none) : gatherOp data indices axis = .error .axis :=
  Proofs.Index.gather_error data indices axis h

-- non-vacuity: index 3 on an axis of extent 3
example : gatherOp nv_t ⟨[2], [0, 3]⟩ 1 = .error .axis :=
  gather_error nv_t ⟨[2], [0, 3]⟩ 1 (by decide)

-- `hW` is part of the fixed statement; the result is tabulated (`ofFn`), hence dense, whatever the input
set_option linter.unusedVariables false in
/-- **Concat** of two or more inputs along any valid (possibly negative) axis -/
theorem concat_eq_spec (axis : Int) (ts : List (Tensor α)) (hn : 2 ≤ ts.length)
    (hW : ∀ t ∈ ts, t.WF) (s : Tensor α) (hs : Spec.concat axis ts = some s) :
    ∃ m, concatOp axis ts = .ok m ∧ Equiv m s :=
  Proofs.Index.concat_eq_spec axis ts hn s hs

-- non-vacuity: 2×3 and 2×2 along axis -1
example : ∃ m, concatOp (-1) [nv_a, nv_b] = .ok m ∧ Equiv m ⟨[2, 5], [1, 2, 3, 7, 8, 4, 5, 6, 9, 10]⟩ :=
  concat_eq_spec (-1) [nv_a, nv_b] (by decide) (by intro t ht; simp at ht; rcases ht with rfl | rfl <;> rfl) _ (by decide)

/-- an invalid request with two or more inputs never yields a tensor -/
theorem concat_refuses (axis : Int) (ts : List (Tensor α)) (hn : 2 ≤ ts.length)
    (hs : Spec.concat axis ts = none) : ∀ m, concatOp axis ts ≠ .ok m :=
  Proofs.Index.concat_refuses axis ts hn hs

-- non-vacuity: 2×3 and 2×2 along axis 0 (they differ off the axis)
example : ∀ m, concatOp 0 [nv_a, nv_b] ≠ .ok m :=
  concat_refuses 0 [nv_a, nv_b] (by decide) (by decide)

/-- a single input is returned as is (for a valid axis this is the ONNX result) -/
theorem concat_single (axis : Int) (t : Tensor α) : concatOp axis [t] = .ok t := rfl

/-- **Expand** (partial): a compatible target with at least as many axes as the input gives the
two-way broadcast -/
theorem expand_partial (t : Tensor α) (target : List Nat) (hpos : Pos t.shape) (htpos : Pos target)
    (hW : t.WF) (hlen : t.shape.length ≤ target.length) (s : Tensor α)
    (hs : Spec.expand t target = some s) :
    ∃ m, expandOp t (target.map fun (d : Nat) => (d : Int)) = .ok m ∧ Equiv m s :=
  Proofs.Index.expand_partial t target hpos htpos hW hlen s hs

-- non-vacuity: a 2×1 column expanded to 3×2×2 (one axis added, one stretched)
example : ∃ m, expandOp (⟨[2, 1], [5, 6]⟩ : Tensor Nat) ([3, 2, 2].map fun (d : Nat) => (d : Int)) = .ok m ∧
      Equiv m ⟨[3, 2, 2], [5, 5, 6, 6, 5, 5, 6, 6, 5, 5, 6, 6]⟩ :=
  expand_partial ⟨[2, 1], [5, 6]⟩ [3, 2, 2] (by simp [Proofs.Pos]) (by simp [Proofs.Pos]) rfl (by decide) _ (by decide)

/-- the clause "an incompatible target is refused" is false: it is computed (known finding) -/
theorem expand_counterexample_incompatible :
    (expandOp (⟨[3], [1, 2, 3]⟩ : Tensor Nat) [2]).toOption.map (·.shape) = some [6] ∧
    Spec.expand (⟨[3], [1, 2, 3]⟩ : Tensor Nat) [2] = none := by decide

/-- a shorter target is compared left-aligned (known finding) -/
theorem expand_counterexample_shorter :
    (expandOp (⟨[3, 4], List.range 12⟩ : Tensor Nat) [4]).toOption.map (·.shape) = some [12, 4] ∧
    (Spec.expand (⟨[3, 4], List.range 12⟩ : Tensor Nat) [4]).map (·.shape) = some [3, 4] := by decide

-- `hW` is part of the fixed statement; the result is tabulated (`ofFn`), hence dense, whatever the input
set_option linter.unusedVariables false in
/-- **Slice on one axis** (partial): non-negative start below min(end, dim), step ≥ 1, and — the
guards the code forces — a result extent ≥ 2 on the sliced axis and, on axis 0, a step that divides
the (clamped) extent: then the operator returns the ONNX slice. -/
theorem slice_one_axis_partial (t : Tensor α) (ax : Nat) (start stop step : Int)
    (hW : t.WF) (hpos : Pos t.shape) (hax : ax < t.shape.length)
    (hs0 : 0 ≤ start) (hsd : start < dim t.shape ax) (hse : start < stop) (hst : 1 ≤ step)
    (s : Tensor α) (hs : Spec.slice t [start] [stop] [(ax : Int)] [step] = some s)
    (hext : 2 ≤ dim s.shape ax)
    (hax0 : ax = 0 → ((if stop > dim t.shape 0 then (dim t.shape 0 : Int) else stop) - start) % step = 0) :
    ∃ m, sliceOp t [start] [stop] (some [(ax : Int)]) (some [step]) = .ok m ∧ Equiv m s :=
  Proofs.Index.slice_one_axis t ax start stop step hpos hax hs0 hsd hse hst s hs hext hax0

-- non-vacuity: a 3×4 tensor, axis 1, 1:9:2 (end clamped) …
example : ∃ m, sliceOp nv_m [1] [9] (some [((1 : Nat) : Int)]) (some [2]) = .ok m ∧ Equiv m ⟨[3, 2], [1, 3, 5, 7, 9, 11]⟩ :=
  slice_one_axis_partial nv_m 1 1 9 2 rfl (by simp [Proofs.Pos, nv_m]) (by decide) (by decide) (by decide) (by decide) (by decide)
    _ (by decide) (by decide) (by decide)
-- … and a 4×3 tensor, axis 0, 0:9:2 (the step divides the clamped extent: `hax0` is not vacuous here)
example : ∃ m, sliceOp (⟨[4, 3], List.range 12⟩ : Tensor Nat) [0] [9] (some [((0 : Nat) : Int)]) (some [2]) = .ok m ∧ Equiv m ⟨[2, 3], [0, 1, 2, 6, 7, 8]⟩ :=
  slice_one_axis_partial ⟨[4, 3], List.range 12⟩ 0 0 9 2 rfl (by simp [Proofs.Pos]) (by decide) (by decide) (by decide) (by decide) (by decide)
    _ (by decide) (by decide) (by decide)

/-- the unguarded clause "every sliced axis is kept even when its extent becomes 1" is false -/
theorem slice_counterexample_extent1 :
    (sliceOp (⟨[3, 4], List.range 12⟩ : Tensor Nat) [0] [1] (some [0]) (some [1])).toOption.map (·.shape) = some [4] ∧
    (Spec.slice (⟨[3, 4], List.range 12⟩ : Tensor Nat) [0] [1] [0] [1]).map (·.shape) = some [1, 4] := by decide

/-- on axis 0 a step that does not divide the extent loses the last position -/
theorem slice_counterexample_axis0_step :
    (sliceOp (⟨[5], [0, 1, 2, 3, 4]⟩ : Tensor Nat) [0] [5] (some [0]) (some [2])).toOption.map (·.data) = some [0, 2] ∧
    (Spec.slice (⟨[5], [0, 1, 2, 3, 4]⟩ : Tensor Nat) [0] [5] [0] [2]).map (·.data) = some [0, 2, 4] := by decide

/-- an axis outside [-rank, rank) panics instead of being refused with an error -/
theorem slice_counterexample_axis_panics :
    sliceOp (⟨[3], [0, 1, 2]⟩ : Tensor Nat) [0] [1] (some [1]) (some [1]) = .error .panic := by decide

-- non-vacuity
example : (Spec.slice (⟨[2, 5], List.range 10⟩ : Tensor Nat) [1] [9] [1] [2]).map (·.data) = some [1, 3, 6, 8] ∧
    (Spec.gather (⟨[3], [7, 8, 9]⟩ : Tensor Nat) ⟨[2], [-1, 0]⟩ 0).map (·.data) = some [9, 7] ∧
    (Spec.transpose (⟨[2, 3], List.range 6⟩ : Tensor Nat) [1, 0]).map (·.data) = some [0, 3, 1, 4, 2, 5] := by decide

end Gonnx.C08
