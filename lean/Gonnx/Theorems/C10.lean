import Gonnx.Ops.Unary
import Gonnx.Proofs.Binary
import Gonnx.Proofs.Unary
/-
C10 — unary math and activation operators apply the named function per element.
Model: Gonnx/Ops/Unary.lean. Every unary operator is `unaryOp f = Tensor.map f`; the scalar function
`f` is a parameter (Go's math / chewxy/math32 functions are not modelled: their accuracy is TESTED by
the correspondence stream, not proved). The special-value algebra of ReLU as it is coded
(`X * (X > 0)`) is proved over an abstract IEEE class domain.
-/
namespace Gonnx.C10
open Gonnx
variable {α β : Type}

abbrev Pos := Proofs.Pos
abbrev Equiv {β : Type} [Inhabited β] := @Proofs.Equiv β _

-- concrete tensors shared by the non-vacuity examples below
private def nv_x : Tensor Int := ⟨[2, 3], [1, -2, 3, -4, 5, -6]⟩
private def nv_s : Tensor Int := ⟨[3], [10, 20, 30]⟩

/-- shape (hence rank and element count) is preserved, and density -/
theorem unary_shape (f : α → β) (t : Tensor α) : (unaryOp f t).shape = t.shape ∧ ((t.WF) → (unaryOp f t).WF) :=
  ⟨rfl, Proofs.Unary.map_WF f t⟩

-- non-vacuity of the inner implication: a dense 2×3 input
example : (unaryOp (fun v : Int => v * v) nv_x).WF := (unary_shape (fun v : Int => v * v) nv_x).2 rfl

/-- each element is mapped independently through `f`: the element at every in-range index of the
result is `f` of the input element at that index -/
theorem unary_get [Inhabited α] [Inhabited β] (f : α → β) (t : Tensor α) (hW : t.WF) (idx : List Nat)
    (h : InRange idx t.shape) : (unaryOp f t).get idx = f (t.get idx) :=
  Proofs.Unary.map_get f t hW idx h

-- non-vacuity: squaring a 2×3 tensor, read at [1, 2]
example : (unaryOp (fun v : Int => v * v) nv_x).get [1, 2] = (fun v : Int => v * v) (nv_x.get [1, 2]) :=
  unary_get _ nv_x rfl [1, 2] (by decide)

/-- ONNX PRelu: slope unidirectionally broadcast to x; `y = x < 0 ? slope·x : x` -/
def preluSpec [Inhabited α] (lt0 : α → Bool) (mul : α → α → α) (x slope : Tensor α) : Option (Tensor α) :=
  if Spec.Compatible x.shape slope.shape && Spec.bshape x.shape slope.shape == x.shape then
    some (ofFn x.shape fun idx => let v := x.get idx; if lt0 v then mul (slope.get (Spec.pin slope.shape idx)) v else v)
  else none

/-- **PRelu** equals the ONNX definition whenever the slope is unidirectionally broadcastable, and is
refused with the broadcast error otherwise -/
theorem prelu_eq_spec [Inhabited α] (lt0 : α → Bool) (mul : α → α → α) (x slope : Tensor α)
    (hx : x.WF) (hs : slope.WF) (hpx : Pos x.shape) (hps : Pos slope.shape)
    (s : Tensor α) (hsp : preluSpec lt0 mul x slope = some s) :
    ∃ m, preluOp lt0 mul x slope = .ok m ∧ Equiv m s := by
  unfold preluSpec at hsp
  split at hsp
  · next hc =>
    cases hsp
    rw [← Proofs.unidir_ok_iff x slope hpx hps] at hc
    obtain ⟨m, h1, h2, h3, h4⟩ := Proofs.Unary.prelu_ok lt0 mul x slope hx hs hpx hps hc
    refine ⟨m, h1, h2, h3, ofFn_WF _ _, ?_⟩
    intro idx hidx
    rw [h2] at hidx
    rw [h4 idx hidx, get_ofFn _ _ _ hidx]
    rfl
  · cases hsp

-- non-vacuity: a 2×3 input, a slope row of 3 broadcast over the rows
example : ∃ m, preluOp (fun v : Int => decide (v < 0)) (· * ·) nv_x nv_s = .ok m ∧ Equiv m ⟨[2, 3], [1, -40, 3, -40, 5, -180]⟩ :=
  prelu_eq_spec _ _ nv_x nv_s rfl rfl (by simp [Proofs.Pos, nv_x]) (by simp [Proofs.Pos, nv_s]) _ (by decide)

theorem prelu_refuses [Inhabited α] (lt0 : α → Bool) (mul : α → α → α) (x slope : Tensor α)
    (hpx : Pos x.shape) (hps : Pos slope.shape) (hsp : preluSpec lt0 mul x slope = none) :
    preluOp lt0 mul x slope = .error .broadcast := by
  apply Proofs.Unary.prelu_err
  rw [Proofs.unidir_ok_iff x slope hpx hps]
  unfold preluSpec at hsp
  split at hsp
  · cases hsp
  · next hc => simpa using hc

-- non-vacuity: a slope of 2 against rows of 3
example : preluOp (fun v : Int => decide (v < 0)) (· * ·) nv_x ⟨[2], [1, 2]⟩ = .error .broadcast :=
  prelu_refuses _ _ nv_x ⟨[2], [1, 2]⟩ (by simp [Proofs.Pos, nv_x]) (by simp [Proofs.Pos]) (by decide)

/-! ### ReLU as coded, on IEEE-754 value classes -/

/-- IEEE-754 value classes -/
inductive FClass | nan | negInf | neg | negZero | posZero | pos | posInf
deriving DecidableEq, Repr

/-- class of `x > 0` converted to the element type (1 or 0) -/
def gtZeroClass : FClass → FClass
  | .pos | .posInf => .pos        -- 1
  | _ => .posZero                 -- 0  (NaN > 0 is false)

/-- class of a product with a factor that is exactly 1 (`.pos`) or exactly +0 (`.posZero`) -/
def mulByIndicator : FClass → FClass → FClass
  | x, .pos => x                               -- x * 1 = x
  | .nan, _ => .nan
  | .negInf, _ => .nan                         -- -Inf * 0 = NaN
  | .posInf, _ => .nan                         -- +Inf * 0 = NaN (not reached: indicator is 1 there)
  | .neg, _ => .negZero                        -- negative * +0 = -0
  | .negZero, _ => .negZero
  | .posZero, _ => .posZero
  | .pos, _ => .posZero

/-- `ops.ReLU`: `X * (X > 0)` -/
def reluImplClass (x : FClass) : FClass := mulByIndicator x (gtZeroClass x)

/-- `max(x, 0)` with NaN propagated, up to the sign of zero -/
def reluSpecClass : FClass → FClass
  | .nan => .nan
  | .pos => .pos
  | .posInf => .posInf
  | _ => .posZero

def sameUpToZeroSign (a b : FClass) : Prop :=
  a = b ∨ (a = .negZero ∧ b = .posZero) ∨ (a = .posZero ∧ b = .negZero)

/-- ReLU as coded is `max(x, 0)` (up to the sign of zero) on every class except −Inf -/
theorem relu_impl_eq_spec (x : FClass) (h : x ≠ .negInf) : sameUpToZeroSign (reluImplClass x) (reluSpecClass x) := by
  cases x <;> simp_all [sameUpToZeroSign, reluImplClass, reluSpecClass, mulByIndicator, gtZeroClass]

-- non-vacuity: the class of negative finite numbers
example : sameUpToZeroSign (reluImplClass .neg) (reluSpecClass .neg) := relu_impl_eq_spec .neg (by decide)

/-- … and on −Inf it is NaN instead of 0 (known finding relu.neg_inf) -/
theorem relu_impl_neg_inf : reluImplClass .negInf = .nan ∧ reluSpecClass .negInf = .posZero :=
  ⟨rfl, rfl⟩

end Gonnx.C10
