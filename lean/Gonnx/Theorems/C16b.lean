import Gonnx.Graph.Batch
import Gonnx.Proofs.Batch2
import Gonnx.Proofs.Batch2Conv
import Gonnx.Proofs.Batch2Rec
/-
C16, second part — the operators with weights act per sample: Gemm / LinearRegressor / Scaler and
elementwise operators against a weight (batch = axis 0), Flatten, Conv (batch = axis 0 of X and Y),
RNN / GRU / LSTM (batch = axis 1 of X and of the states, axis 2 of Y, axis 1 of Y_h / Y_c).
Equality is exact (fixed summation order), see the remark in C16.lean.
Proofs: Gonnx/Proofs/Batch2.lean (elementwise / Gemm / LinearRegressor / Scaler / Flatten),
Gonnx/Proofs/Batch2Conv.lean, Gonnx/Proofs/Batch2Rec.lean.
-/
namespace Gonnx.C16
open Gonnx Gonnx.Proofs Gonnx.C05
variable {α β : Type} [Inhabited α] [Inhabited β]

/-- a bias / second operand that does not carry the batch: rank below the data's, or leading extent 1 -/
def BatchFree (w : Tensor α) (rank : Nat) : Prop :=
  w.shape.length < rank ∨ (w.shape.length = rank ∧ dim w.shape 0 = 1)

-- `hW2` is part of the fixed statement; a weight of another rank makes `mm2` fail, so the clause is vacuous there
set_option linter.unusedVariables false in
/-- Gemm against a weight `W` (either orientation) with a bias that does not carry the batch -/
theorem gemm_weight_pointwise (A : Arith α) (alpha beta : α) (tB : Bool) (W : Tensor α) (c : Option (Tensor α))
    (hW : Good W) (hW2 : W.shape.length = 2) (hc : ∀ t, c = some t → Good t ∧ BatchFree t 2) :
    BatchPointwise 0 0 (fun X => gemmOp A alpha beta false tB X W c) :=
  Proofs.Batch2.gemm_weight_pointwise A alpha beta tB W c hW hc

-- concrete instance shared by the non-vacuity examples below: a batch of 2 samples of 3 features, a 3×2
-- weight, a (1, 2) bias, a row of 3, a 2×3×2 batch
private def nv_A : Arith Int := ⟨0, (· + ·), (· * ·), (· - ·)⟩
private def nv_X : Tensor Int := ⟨[2, 3], [1, 2, 3, 4, 5, 6]⟩
private def nv_W : Tensor Int := ⟨[3, 2], [1, 0, 0, 1, 1, 1]⟩
private def nv_c : Tensor Int := ⟨[1, 2], [10, 20]⟩
private def nv_r : Tensor Int := ⟨[3], [10, 20, 30]⟩
private def nv_T : Tensor Int := ⟨[2, 3, 2], [1, 2, 3, 4, 5, 6, 7, 8, 9, 10, 11, 12]⟩
private theorem nv_goodX : Good nv_X := And.intro rfl (by decide)
private theorem nv_goodW : Good nv_W := And.intro rfl (by decide)
private theorem nv_goodr : Good nv_r := And.intro rfl (by decide)
private theorem nv_goodT : Good nv_T := And.intro rfl (by decide)
-- non-vacuity: Gemm (alpha 2, beta 3) against the 3×2 weight with the (1, 2) bias …
example : BatchPointwise 0 0 (fun X => gemmOp nv_A 2 3 false false X nv_W (some nv_c)) :=
  gemm_weight_pointwise nv_A 2 3 false nv_W (some nv_c) nv_goodW rfl
    (by intro t h; cases h; exact ⟨And.intro rfl (by decide), Or.inr ⟨rfl, rfl⟩⟩)
-- … and the resulting `BatchPointwise` is not vacuous either: the operator succeeds on the batch of two
example : gemmOp nv_A 2 3 false false (takeBatch 0 1 nv_X) nv_W (some nv_c) = .ok (takeBatch 0 1 ⟨[2, 2], [38, 70, 50, 82]⟩) :=
  (gemm_weight_pointwise nv_A 2 3 false nv_W (some nv_c) nv_goodW rfl
    (by intro t h; cases h; exact ⟨And.intro rfl (by decide), Or.inr ⟨rfl, rfl⟩⟩)
    nv_X ⟨[2, 2], [38, 70, 50, 82]⟩ nv_goodX (by decide) (by decide)).2.2.2 1 (by decide)

/-- LinearRegressor and Scaler (attribute weights) -/
theorem linreg_pointwise (A : Arith α) (coef icpt : List α) (targets : Nat) :
    BatchPointwise 0 0 (fun X => linregOp A coef icpt targets X) :=
  Proofs.Batch2.linreg_pointwise A coef icpt targets

-- non-vacuity of the inner implications: 2 samples, 3 features, 2 targets; sample 1 alone
example : linregOp nv_A [1, 0, 0, 1, 1, 1] [10, 20] 2 (takeBatch 0 1 nv_X) = .ok (takeBatch 0 1 ⟨[2, 2], [11, 26, 14, 35]⟩) :=
  (linreg_pointwise nv_A [1, 0, 0, 1, 1, 1] [10, 20] 2 nv_X ⟨[2, 2], [11, 26, 14, 35]⟩ nv_goodX (by decide) (by decide)).2.2.2 1 (by decide)

theorem scaler_pointwise (A : Arith α) (offset scale : List α) :
    ∀ X Y, Good X → X.shape.length = 2 → scalerOp A offset scale X = .ok Y →
      Good Y ∧ 0 < Y.shape.length ∧ dim Y.shape 0 = dim X.shape 0 ∧
      ∀ n, n < dim X.shape 0 → scalerOp A offset scale (takeBatch 0 n X) = .ok (takeBatch 0 n Y) :=
  Proofs.Batch2.scaler_pointwise A offset scale

-- non-vacuity of the inner implications: per-feature offsets, a single scale; sample 1 alone
example : scalerOp nv_A [1, 2, 3] [10] (takeBatch 0 1 nv_X) = .ok (takeBatch 0 1 ⟨[2, 3], [0, 0, 0, 30, 30, 30]⟩) :=
  (scaler_pointwise nv_A [1, 2, 3] [10] nv_X ⟨[2, 3], [0, 0, 0, 30, 30, 30]⟩ nv_goodX rfl (by decide)).2.2.2 1 (by decide)

/-- an elementwise binary operator against a weight that does not carry the batch (bias add, scaling,
comparison with a threshold …), weight on the right or on the left -/
theorem binary_weight_pointwise (f : α → α → β) (W : Tensor α) (hW : Good W) :
    ∀ X Y, Good X → BatchFree W X.shape.length → applyBinary f .multi X W = .ok Y →
      Good Y ∧ 0 < Y.shape.length ∧ dim Y.shape 0 = dim X.shape 0 ∧
      ∀ n, n < dim X.shape 0 → applyBinary f .multi (takeBatch 0 n X) W = .ok (takeBatch 0 n Y) :=
  Proofs.Batch2.binary_weight_pointwise f W hW

-- non-vacuity: subtracting a row of 3 (rank below the data's) from the batch of two; sample 1 alone
example : applyBinary (fun a b : Int => a - b) .multi (takeBatch 0 1 nv_X) nv_r = .ok (takeBatch 0 1 ⟨[2, 3], [-9, -18, -27, -6, -15, -24]⟩) :=
  (binary_weight_pointwise (fun a b : Int => a - b) nv_r nv_goodr nv_X ⟨[2, 3], [-9, -18, -27, -6, -15, -24]⟩ nv_goodX
    (Or.inl (by decide)) (by decide)).2.2.2 1 (by decide)

theorem binary_weight_left_pointwise (f : α → α → β) (W : Tensor α) (hW : Good W) :
    ∀ X Y, Good X → BatchFree W X.shape.length → applyBinary f .multi W X = .ok Y →
      Good Y ∧ 0 < Y.shape.length ∧ dim Y.shape 0 = dim X.shape 0 ∧
      ∀ n, n < dim X.shape 0 → applyBinary f .multi W (takeBatch 0 n X) = .ok (takeBatch 0 n Y) :=
  Proofs.Batch2.binary_weight_left_pointwise f W hW

-- non-vacuity: the weight on the left
example : applyBinary (fun a b : Int => a - b) .multi nv_r (takeBatch 0 1 nv_X) = .ok (takeBatch 0 1 ⟨[2, 3], [9, 18, 27, 6, 15, 24]⟩) :=
  (binary_weight_left_pointwise (fun a b : Int => a - b) nv_r nv_goodr nv_X ⟨[2, 3], [9, 18, 27, 6, 15, 24]⟩ nv_goodX
    (Or.inl (by decide)) (by decide)).2.2.2 1 (by decide)

/-- FALSE as first written (kept verbatim): "Flatten with axis ≥ 1 keeps the batch axis". For
axis ≥ 2 the leading extent of the result is the product of the first `axis` extents of the input,
not the batch extent, so axis 0 of the result is no longer the batch axis. -/
def flatten_pointwise_statement (α : Type) [Inhabited α] : Prop :=
  ∀ (axis : Int) (_hax : 1 ≤ axis), BatchPointwise (α := α) (β := α) 0 0 (fun X => flattenOp X axis)

/-- witness (for every element type): axis 2, a batch of one sample of shape (1, 2): the result has
shape (2, 1), its leading extent 2 is not the batch extent 1 -/
theorem flatten_pointwise_counterexample : ¬ flatten_pointwise_statement α := by
  intro h
  have h2 := h 2 (by decide) ⟨[1, 2], [default, default]⟩ ⟨[2, 1], [default, default]⟩
    ⟨rfl, by simp⟩ (by simp) rfl
  exact absurd h2.2.2.1 (by simp [dim])

/-- Flatten keeps the batch axis exactly when the flattening starts right after it: `hax1 : axis ≤ 1`
(with `1 ≤ axis`: axis = 1, the ONNX default) excludes every axis ≥ 2 — for each of those some input
(e.g. shape (1, 2, 1, …, 1)) violates the clause. -/
theorem flatten_pointwise_partial (axis : Int) (hax : 1 ≤ axis) (hax1 : axis ≤ 1) :
    BatchPointwise (α := α) (β := α) 0 0 (fun X => flattenOp X axis) := by
  have e : axis = 1 := by omega
  subst e
  exact Proofs.Batch2.flatten1_pointwise

-- non-vacuity: axis = 1 is the one axis the hypotheses allow (by design, see the docstring); a 2×3×2 batch
example : BatchPointwise (α := Int) (β := Int) 0 0 (fun X => flattenOp X 1) := flatten_pointwise_partial 1 (by decide) (by decide)
example : flattenOp (takeBatch 0 1 nv_T) 1 = .ok (takeBatch 0 1 ⟨[2, 6], [1, 2, 3, 4, 5, 6, 7, 8, 9, 10, 11, 12]⟩) :=
  (flatten_pointwise_partial (α := Int) 1 (by decide) (by decide) nv_T ⟨[2, 6], [1, 2, 3, 4, 5, 6, 7, 8, 9, 10, 11, 12]⟩ nv_goodT
    (by decide) (by decide)).2.2.2 1 (by decide)

-- `hWx`, `hWw` are part of the fixed statement; both sides read these inputs through `Tensor.get` only
set_option linter.unusedVariables false in
/-- **Conv** (explicit pads; the guards of C05.conv_explicit_partial): the result for sample `n` of
a batch is what the sample gets when it is convolved alone -/
theorem conv_batch_partial (A : Arith α) (hA : ZeroLaws A) (x w : Tensor α) (bias : Option (Tensor α))
    (dil strides pads : List Nat)
    (hWx : x.WF) (hWw : w.WF) (hWb : ∀ b, bias = some b → b.WF)
    (hpx : Pos x.shape) (hpw : Pos w.shape)
    (hrank : x.shape.length = 3 ∨ x.shape.length = 4)
    (hdl : dil.length = x.shape.length - 2) (hsl : strides.length = x.shape.length - 2)
    (hpl : pads.length = 2 * (x.shape.length - 2))
    (hdp : ∀ d ∈ dil, 0 < d) (hsp : ∀ s ∈ strides, 0 < s)
    (hk2 : ∀ k ∈ dkernel w dil, 2 ≤ k)
    (s : Tensor α) (hs : Spec.conv A "NOTSET" dil strides pads x w bias = some s)
    (n : Nat) (hn : n < dim x.shape 0) :
    let at0 : ConvAttrs := { autoPad := "NOTSET", dilations := dil, strides := strides, pads := pads.map (fun (p : Nat) => (p : Int)) }
    ∃ m mn, convOp A at0 x w bias = .ok m ∧ convOp A at0 (takeBatch 0 n x) w bias = .ok mn ∧
      Equiv mn (takeBatch 0 n m) :=
  Proofs.Batch2.conv_batch_partial A hA x w bias dil strides pads hWb hpx hpw hrank hdl hsl hpl hdp hsp hk2 s hs n hn

-- non-vacuity: the instance of `C05.conv_explicit_partial` (N = 2, C = 2, M = 2, 3×4 image, 2×2 kernel,
-- dilations (2, 1), strides (1, 2), pads 1 1 0 0, bias), sample 1
private def nv_cx : Tensor Int := ⟨[2, 2, 3, 4], (List.range 48).map (fun (n : Nat) => (n : Int) - 20)⟩
private def nv_cw : Tensor Int := ⟨[2, 2, 2, 2], [1, 2, 3, 4, 5, 6, 7, 8, -1, 0, 1, 0, 2, -2, 3, -3]⟩
private def nv_cb : Tensor Int := ⟨[2], [100, 200]⟩
example :
    ∃ m mn, convOp nv_A { autoPad := "NOTSET", dilations := [2, 1], strides := [1, 2], pads := [1, 1, 0, 0].map (fun (p : Nat) => (p : Int)) } nv_cx nv_cw (some nv_cb) = .ok m ∧
      convOp nv_A { autoPad := "NOTSET", dilations := [2, 1], strides := [1, 2], pads := [1, 1, 0, 0].map (fun (p : Nat) => (p : Int)) } (takeBatch 0 1 nv_cx) nv_cw (some nv_cb) = .ok mn ∧
      Equiv mn (takeBatch 0 1 m) :=
  conv_batch_partial nv_A ⟨Int.add_zero, Int.zero_mul, Int.mul_zero⟩ nv_cx nv_cw (some nv_cb) [2, 1] [1, 2] [1, 1, 0, 0]
    rfl rfl (by intro b h; cases h; rfl) (by simp [Proofs.Pos, nv_cx]) (by simp [Proofs.Pos, nv_cw])
    (by decide) (by decide) (by decide) (by decide) (by decide) (by decide) (by decide)
    ⟨[2, 2, 2, 2], [4, -38, -36, -76, 212, 182, 216, 203, 292, 490, 444, 788, 140, 206, 96, 203]⟩ (by decide) 1 (by decide)

-- `hWX`, `hWW`, `hWR`, `hWB` (and `hWP` below) are part of the fixed statements; these inputs are read through `Tensor.get` only
set_option linter.unusedVariables false in
/-- **RNN**: sample `n` (axis 1 of X and H0) evaluated alone gives slice `n` of Y (axis 2) and Y_h (axis 1) -/
theorem rnn_batch_partial (A : Arith α) (one : α) (hone : ∀ v, A.mul v one = v)
    (getAct : String → Option (α → α)) (name : String) (f : α → α) (hact : getAct name = some f)
    (d : Spec.RecDims) (X W R : Tensor α) (B H0 : Option (Tensor α))
    (hh : 2 ≤ d.hidden) (hi : 2 ≤ d.input) (hb : 1 ≤ d.batch) (hsq : 1 ≤ d.seq)
    (hWX : X.WF) (hWW : W.WF) (hWR : R.WF) (hWB : ∀ b, B = some b → b.WF) (hWH : ∀ h, H0 = some h → h.WF)
    (s : Tensor α × Tensor α) (hs : Spec.rnn A f d X W R B H0 = some s)
    (n : Nat) (hn : n < d.batch) :
    let at0 : RecAttrs := { hiddenSize := d.hidden, activations := [name] }
    ∃ y yh y1 yh1, rnnOp A one getAct at0 X W R B none H0 = .ok (y, yh) ∧
      rnnOp A one getAct at0 (takeBatch 1 n X) W R B none (H0.map (takeBatch 1 n)) = .ok (y1, yh1) ∧
      Equiv y1 (takeBatch 2 n y) ∧ Equiv yh1 (takeBatch 1 n yh) :=
  Proofs.Batch2.rnn_batch_partial A one hone getAct name f hact d X W R B H0 hh hi hb hsq hWH s hs n hn

-- non-vacuity: the instance of `C06.rnn_partial` (seq 2, batch 2, input 3, hidden 2, bias, initial state), sample 1
private def nv_f : Int → Int := fun v => v % 3
private def nv_g : Int → Int := fun v => if v > 4 then 4 else if v < -4 then -4 else v
private def nv_act : String → Option (Int → Int) := fun n => if n = "f" then some nv_f else if n = "g" then some nv_g else none
private def nv_seqT (shape : List Nat) (k : Int) : Tensor Int := ⟨shape, (List.range (prod shape)).map fun (n : Nat) => ((n : Int) * k) % 5 - 2⟩
private def nv_d : Spec.RecDims := ⟨2, 2, 3, 2⟩
private def nv_RX : Tensor Int := ⟨[2, 2, 3], [1, -1, 2, 0, 1, 1, 2, 1, -2, 1, 0, 1]⟩
private def nv_H0 : Tensor Int := ⟨[1, 2, 2], [1, 0, -1, 2]⟩
private def nv_C0 : Tensor Int := ⟨[1, 2, 2], [0, 1, 1, -1]⟩
private def nv_rnnS : Tensor Int × Tensor Int := (⟨[2, 1, 2, 2], [-4, 0, 0, -4, 4, 0, -4, 4]⟩, ⟨[1, 2, 2], [4, 0, -4, 4]⟩)
example : ∃ y yh y1 yh1, rnnOp nv_A 1 nv_act { hiddenSize := nv_d.hidden, activations := ["g"] } nv_RX (nv_seqT [1, 2, 3] 3) (nv_seqT [1, 2, 2] 2) (some (nv_seqT [1, 4] 1)) none (some nv_H0) = .ok (y, yh) ∧
      rnnOp nv_A 1 nv_act { hiddenSize := nv_d.hidden, activations := ["g"] } (takeBatch 1 1 nv_RX) (nv_seqT [1, 2, 3] 3) (nv_seqT [1, 2, 2] 2) (some (nv_seqT [1, 4] 1)) none ((some nv_H0).map (takeBatch 1 1)) = .ok (y1, yh1) ∧
      Equiv y1 (takeBatch 2 1 y) ∧ Equiv yh1 (takeBatch 1 1 yh) :=
  rnn_batch_partial nv_A 1 Int.mul_one nv_act "g" nv_g rfl nv_d nv_RX (nv_seqT [1, 2, 3] 3) (nv_seqT [1, 2, 2] 2) (some (nv_seqT [1, 4] 1)) (some nv_H0)
    (by decide) (by decide) (by decide) (by decide) rfl rfl rfl (by intro b h; cases h; rfl) (by intro b h; cases h; rfl)
    nv_rnnS (by decide) 1 (by decide)

set_option linter.unusedVariables false in
/-- **GRU**, both values of linear_before_reset -/
theorem gru_batch_partial (A : Arith α) (one : α) (hone : ∀ v, A.mul v one = v)
    (getAct : String → Option (α → α)) (n1 n2 : String) (f g : α → α) (h1 : getAct n1 = some f) (h2 : getAct n2 = some g)
    (lbr : Bool) (d : Spec.RecDims) (X W R : Tensor α) (B H0 : Option (Tensor α))
    (hh : 2 ≤ d.hidden) (hi : 2 ≤ d.input) (hb : 1 ≤ d.batch) (hsq : 1 ≤ d.seq)
    (hWX : X.WF) (hWW : W.WF) (hWR : R.WF) (hWB : ∀ b, B = some b → b.WF) (hWH : ∀ h, H0 = some h → h.WF)
    (s : Tensor α × Tensor α) (hs : Spec.gru A one f g lbr d X W R B H0 = some s)
    (n : Nat) (hn : n < d.batch) :
    let at0 : RecAttrs := { hiddenSize := d.hidden, activations := [n1, n2], linearBeforeReset := lbr }
    ∃ y yh y1 yh1, gruOp A one getAct at0 X W R B none H0 = .ok (y, yh) ∧
      gruOp A one getAct at0 (takeBatch 1 n X) W R B none (H0.map (takeBatch 1 n)) = .ok (y1, yh1) ∧
      Equiv y1 (takeBatch 2 n y) ∧ Equiv yh1 (takeBatch 1 n yh) :=
  Proofs.Batch2.gru_batch_partial A one hone getAct n1 n2 f g h1 h2 lbr d X W R B H0 hh hi hb hsq hWH s hs n hn

-- non-vacuity: the instance of `C06.gru_partial`, both values of linear_before_reset, sample 1
private def nv_gruS (lbr : Bool) : Tensor Int × Tensor Int :=
  if lbr then (⟨[2, 1, 2, 2], [6, 4, -6, 6, 16, -4, 4, 8]⟩, ⟨[1, 2, 2], [16, -4, 4, 8]⟩)
  else (⟨[2, 1, 2, 2], [6, 4, -4, 7, 16, -4, -11, 12]⟩, ⟨[1, 2, 2], [16, -4, -11, 12]⟩)
example (lbr : Bool) : ∃ y yh y1 yh1, gruOp nv_A 1 nv_act { hiddenSize := nv_d.hidden, activations := ["f", "g"], linearBeforeReset := lbr } nv_RX (nv_seqT [1, 6, 3] 3) (nv_seqT [1, 6, 2] 2) (some (nv_seqT [1, 12] 1)) none (some nv_H0) = .ok (y, yh) ∧
      gruOp nv_A 1 nv_act { hiddenSize := nv_d.hidden, activations := ["f", "g"], linearBeforeReset := lbr } (takeBatch 1 1 nv_RX) (nv_seqT [1, 6, 3] 3) (nv_seqT [1, 6, 2] 2) (some (nv_seqT [1, 12] 1)) none ((some nv_H0).map (takeBatch 1 1)) = .ok (y1, yh1) ∧
      Equiv y1 (takeBatch 2 1 y) ∧ Equiv yh1 (takeBatch 1 1 yh) :=
  gru_batch_partial nv_A 1 Int.mul_one nv_act "f" "g" nv_f nv_g rfl rfl lbr nv_d nv_RX (nv_seqT [1, 6, 3] 3) (nv_seqT [1, 6, 2] 2) (some (nv_seqT [1, 12] 1)) (some nv_H0)
    (by decide) (by decide) (by decide) (by decide) rfl rfl rfl (by intro b h; cases h; rfl) (by intro b h; cases h; rfl)
    (nv_gruS lbr) (by cases lbr <;> decide) 1 (by decide)

set_option linter.unusedVariables false in
/-- **LSTM** (with or without initial states and peepholes) -/
theorem lstm_batch_partial (A : Arith α) (one : α) (hone : ∀ v, A.mul v one = v)
    (getAct : String → Option (α → α)) (n1 n2 n3 : String) (f g h : α → α)
    (h1 : getAct n1 = some f) (h2 : getAct n2 = some g) (h3 : getAct n3 = some h)
    (d : Spec.RecDims) (X W R : Tensor α) (B H0 C0 P : Option (Tensor α))
    (hh : 2 ≤ d.hidden) (hi : 2 ≤ d.input) (hb : 1 ≤ d.batch) (hsq : 1 ≤ d.seq)
    (hWX : X.WF) (hWW : W.WF) (hWR : R.WF) (hWB : ∀ b, B = some b → b.WF) (hWH : ∀ t, H0 = some t → t.WF)
    (hWC : ∀ t, C0 = some t → t.WF) (hWP : ∀ t, P = some t → t.WF)
    (s : Tensor α × Tensor α × Tensor α) (hs : Spec.lstm A f g h d X W R B H0 C0 P = some s)
    (n : Nat) (hn : n < d.batch) :
    let at0 : RecAttrs := { hiddenSize := d.hidden, activations := [n1, n2, n3] }
    ∃ y yh yc y1 yh1 yc1, lstmOp A one getAct at0 X W R B none H0 C0 P = .ok (y, yh, yc) ∧
      lstmOp A one getAct at0 (takeBatch 1 n X) W R B none (H0.map (takeBatch 1 n)) (C0.map (takeBatch 1 n)) P = .ok (y1, yh1, yc1) ∧
      Equiv y1 (takeBatch 2 n y) ∧ Equiv yh1 (takeBatch 1 n yh) ∧ Equiv yc1 (takeBatch 1 n yc) :=
  Proofs.Batch2.lstm_batch_partial A one hone getAct n1 n2 n3 f g h h1 h2 h3 d X W R B H0 C0 P hh hi hb hsq
    hWH hWC s hs n hn

-- non-vacuity: the instance of `C06.lstm_partial` (bias, both initial states, peepholes), sample 1
private def nv_lstmS : Tensor Int × Tensor Int × Tensor Int :=
  (⟨[2, 1, 2, 2], [0, 2, -4, 0, 8, 0, -8, -4]⟩, ⟨[1, 2, 2], [8, 0, -8, -4]⟩, ⟨[1, 2, 2], [8, -8, -16, -19]⟩)
example : ∃ y yh yc y1 yh1 yc1, lstmOp nv_A 1 nv_act { hiddenSize := nv_d.hidden, activations := ["f", "g", "g"] } nv_RX
        (nv_seqT [1, 8, 3] 3) (nv_seqT [1, 8, 2] 2) (some (nv_seqT [1, 16] 1)) none (some nv_H0) (some nv_C0) (some (nv_seqT [1, 6] 4)) = .ok (y, yh, yc) ∧
      lstmOp nv_A 1 nv_act { hiddenSize := nv_d.hidden, activations := ["f", "g", "g"] } (takeBatch 1 1 nv_RX)
        (nv_seqT [1, 8, 3] 3) (nv_seqT [1, 8, 2] 2) (some (nv_seqT [1, 16] 1)) none ((some nv_H0).map (takeBatch 1 1)) ((some nv_C0).map (takeBatch 1 1)) (some (nv_seqT [1, 6] 4)) = .ok (y1, yh1, yc1) ∧
      Equiv y1 (takeBatch 2 1 y) ∧ Equiv yh1 (takeBatch 1 1 yh) ∧ Equiv yc1 (takeBatch 1 1 yc) :=
  lstm_batch_partial nv_A 1 Int.mul_one nv_act "f" "g" "g" nv_f nv_g nv_g rfl rfl rfl nv_d nv_RX
    (nv_seqT [1, 8, 3] 3) (nv_seqT [1, 8, 2] 2) (some (nv_seqT [1, 16] 1)) (some nv_H0) (some nv_C0) (some (nv_seqT [1, 6] 4))
    (by decide) (by decide) (by decide) (by decide) rfl rfl rfl (by intro b h; cases h; rfl) (by intro b h; cases h; rfl)
    (by intro b h; cases h; rfl) (by intro b h; cases h; rfl) nv_lstmS (by decide) 1 (by decide)

-- non-vacuity: a Gemm with a (1, n) bias on a batch of two, sample 1 alone is row 1 of the batch result;
-- the hypotheses of the RNN clause are satisfiable (batch of two, hidden = input = 2)
example :
    let A : Arith Int := ⟨0, (· + ·), (· * ·), (· - ·)⟩
    let X : Tensor Int := ⟨[2, 2], [1, 2, 3, 4]⟩
    let W : Tensor Int := ⟨[2, 2], [1, 0, 2, 1]⟩
    let c : Tensor Int := ⟨[1, 2], [10, 20]⟩
    gemmOp A 1 1 false true X W (some c) = .ok ⟨[2, 2], [11, 24, 13, 30]⟩ ∧
    gemmOp A 1 1 false true (takeBatch 0 1 X) W (some c) = .ok ⟨[1, 2], [13, 30]⟩ ∧
    takeBatch 0 1 (⟨[2, 2], [11, 24, 13, 30]⟩ : Tensor Int) = ⟨[1, 2], [13, 30]⟩ ∧
    (Spec.rnn A (fun v => v) ⟨1, 2, 2, 2⟩ ⟨[1, 2, 2], [1, 2, 3, 4]⟩ ⟨[1, 2, 2], [1, 0, 0, 1]⟩ ⟨[1, 2, 2], [0, 1, 1, 0]⟩
      none none).isSome = true := by decide

end Gonnx.C16
