import Gonnx.Ops.MatMul
import Gonnx.Spec.Broadcast
/-
numpy.matmul, ONNX Gemm, ONNX-ML LinearRegressor and Scaler as index formulas.
-/
namespace Gonnx.Spec
open Gonnx
variable {α : Type}

/-- numpy.matmul: vectors are promoted (and the added axis removed), batch axes broadcast,
`out[b, i, j] = Σ_k A[pin b, i, k] * B[pin b, k, j]` -/
def matmul [Inhabited α] (A : Arith α) (a b : Tensor α) : Option (Tensor α) :=
  let ra := a.shape.length
  let rb := b.shape.length
  if ra = 0 ∨ rb = 0 then none
  else
    let sa := if ra = 1 then [1, dim a.shape 0] else a.shape
    let sb := if rb = 1 then [dim b.shape 0, 1] else b.shape
    let ba := sa.take (sa.length - 2)
    let bb := sb.take (sb.length - 2)
    let m := dim sa (sa.length - 2)
    let k := dim sa (sa.length - 1)
    let k' := dim sb (sb.length - 2)
    let n := dim sb (sb.length - 1)
    if k ≠ k' ∨ !Compatible ba bb then none
    else
      let bs := bshape ba bb
      let full := bs ++ [m, n]
      let outShape := bs ++ (if ra = 1 then [] else [m]) ++ (if rb = 1 then [] else [n])
      some (ofFn outShape fun idx =>
        let bi := idx.take bs.length
        let rest := idx.drop bs.length
        let i := if ra = 1 then 0 else rest.getD 0 0
        let j := if rb = 1 then 0 else rest.getD (if ra = 1 then 0 else 1) 0
        let _ := full
        sumRange A k fun l =>
          A.mul ((⟨sa, a.data⟩ : Tensor α).get (pin ba bi ++ [i, l])) ((⟨sb, b.data⟩ : Tensor α).get (pin bb bi ++ [l, j])))

/-- ONNX Gemm on matrices -/
def gemm [Inhabited α] (A : Arith α) (alpha beta : α) (transA transB : Bool)
    (a b : Tensor α) (c : Option (Tensor α)) : Option (Tensor α) :=
  match a.shape, b.shape with
  | [a0, a1], [b0, b1] =>
    let (m, k) := if transA then (a1, a0) else (a0, a1)
    let (k', n) := if transB then (b1, b0) else (b0, b1)
    let cOk := match c with
      | none => true
      | some c => Compatible [m, n] c.shape && bshape [m, n] c.shape == [m, n]
    if k ≠ k' ∨ !cOk then none
    else some (ofFn [m, n] fun idx =>
      let i := idx.getD 0 0
      let j := idx.getD 1 0
      let p := sumRange A k fun l =>
        A.mul (a.get (if transA then [l, i] else [i, l])) (b.get (if transB then [j, l] else [l, j]))
      let p := A.mul p alpha
      match c with
      | none => p
      | some c => A.add p (A.mul (c.get (pin c.shape idx)) beta))
  | _, _ => none

/-- ONNX-ML LinearRegressor: `Y[n, t] = Σ_f X[n, f] * coef[t * F + f] + intercepts[t]` -/
def linreg [Inhabited α] (A : Arith α) (coef intercepts : List α) (targets : Nat) (x : Tensor α) : Option (Tensor α) :=
  match x.shape with
  | [n, f] =>
    if targets = 0 ∨ coef.length ≠ targets * f ∨ intercepts.length ≠ targets then none
    else some (ofFn [n, targets] fun idx =>
      let i := idx.getD 0 0
      let t := idx.getD 1 0
      A.add (sumRange A f fun l => A.mul (x.get [i, l]) (coef.getD (t * f + l) default)) (intercepts.getD t default))
  | _ => none

/-- ONNX-ML Scaler: `Y = (X - offset) * scale`, offset and scale per feature (last axis) or a single value -/
def scaler [Inhabited α] (A : Arith α) (offset scale : List α) (x : Tensor α) : Option (Tensor α) :=
  let c := dim x.shape (x.shape.length - 1)
  if x.shape = [] ∨ !(offset.length = c ∨ offset.length = 1) ∨ !(scale.length = c ∨ scale.length = 1) then none
  else some (ofFn x.shape fun idx =>
    let j := idx.getD (x.shape.length - 1) 0
    A.mul (A.sub (x.get idx) (offset.getD (if offset.length = 1 then 0 else j) default))
          (scale.getD (if scale.length = 1 then 0 else j) default))

end Gonnx.Spec
