import Gonnx.Ops.Conv
/-
ONNX Conv (group 1): direct convolution. Written from the operator documentation.
-/
namespace Gonnx.Spec
open Gonnx
variable {α : Type}

/-- ONNX pads for an auto_pad mode: SAME_* make the output ⌈in / stride⌉ (extra padding at the end
for SAME_UPPER, at the beginning for SAME_LOWER); VALID uses no padding -/
def convPads (mode : String) (explicit : List Nat) (inDims strides dkernel : List Nat) : List Nat :=
  let ns := inDims.length
  if mode = "NOTSET" then (if explicit.isEmpty then List.replicate (2 * ns) 0 else explicit)
  else if mode = "VALID" then List.replicate (2 * ns) 0
  else
    let per := (List.range ns).map fun i =>
      let d := dim inDims i; let s := dim strides i; let k := dim dkernel i
      let out := (d + s - 1) / s
      let total := (out - 1) * s + k - d          -- natural subtraction: max(·, 0)
      let small := total / 2
      if mode = "SAME_UPPER" then (small, total - small) else (total - small, small)
    per.map (·.1) ++ per.map (·.2)

/-- `out[n,m,o⃗] = Σ_c Σ_κ⃗ W[m,c,κ⃗] · X̃[n,c, o⃗·s⃗ + κ⃗·d⃗ − p⃗_begin] (+ B[m])`, X̃ zero outside the input;
`outDim = ⌊(in + p_b + p_e − ((k−1)·d+1)) / s⌋ + 1`. `none` when the kernel does not fit. -/
def conv [Inhabited α] (A : Arith α) (mode : String) (dil strides : List Nat) (pads : List Nat)
    (x w : Tensor α) (bias : Option (Tensor α)) : Option (Tensor α) :=
  let ns := x.shape.length - 2
  if (x.shape.length ≠ 3 ∧ x.shape.length ≠ 4) ∨ w.shape.length ≠ x.shape.length ∨ dim w.shape 1 ≠ dim x.shape 1 then none
  else
    let dil := if dil.isEmpty then List.replicate ns 1 else dil
    let strides := if strides.isEmpty then List.replicate ns 1 else strides
    let inDims := x.shape.drop 2
    let k := w.shape.drop 2
    let dk := List.zipWith (fun k d => (k - 1) * d + 1) k dil
    let p := convPads mode pads inDims strides dk
    let pb := p.take ns
    let pe := p.drop ns
    if (List.range ns).any (fun i => dim inDims i + dim pb i + dim pe i < dim dk i) then none
    else match bias with
      | some b => if b.shape ≠ [dim w.shape 0] then none else
          some (go A dil strides pb inDims k x w (some b) ns pe dk)
      | none => some (go A dil strides pb inDims k x w none ns pe dk)
where
  go [Inhabited α] (A : Arith α) (dil strides pb inDims k : List Nat) (x w : Tensor α) (bias : Option (Tensor α))
      (ns : Nat) (pe dk : List Nat) : Tensor α :=
    let outSp := (List.range ns).map fun i => (dim inDims i + dim pb i + dim pe i - dim dk i) / dim strides i + 1
    let C := dim x.shape 1
    ofFn ([dim x.shape 0, dim w.shape 0] ++ outSp) fun idx =>
      let n := idx.getD 0 0
      let m := idx.getD 1 0
      let o := idx.drop 2
      let taps := allIdx (C :: k)
      let acc := taps.foldl (fun acc tap =>
        let c := tap.getD 0 0
        let kap := tap.drop 1
        -- position in the (unpadded) input; negative or too large = in the zero padding
        let pos : List Int := (List.range ns).map fun i =>
          ((o.getD i 0 * dim strides i + kap.getD i 0 * dim dil i : Nat) : Int) - (dim pb i : Int)
        let inside := (List.range ns).all fun i => 0 ≤ pos.getD i 0 ∧ pos.getD i 0 < (dim inDims i : Int)
        let xv := if inside then x.get ([n, c] ++ pos.map Int.toNat) else A.zero
        A.add acc (A.mul xv (w.get ([m, c] ++ kap)))) A.zero
      match bias with
      | some b => A.add acc (b.get [m])
      | none => acc

end Gonnx.Spec
