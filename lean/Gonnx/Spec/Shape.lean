import Gonnx.Core
/-
ONNX Reshape / Flatten / Squeeze / Unsqueeze / Shape: the prescribed output shape, or `none` when
ONNX declares the request invalid. Written from the operator documentation.
-/
namespace Gonnx.Spec

/-- Reshape target: 0 copies the input dimension, exactly one -1 is inferred, counts must match -/
def reshapeShape (cur : List Nat) (req : List Int) : Option (List Nat) :=
  if req.any (· < -1) then none
  else if (req.filter (· = -1)).length > 1 then none
  else if (req.zipIdx.any fun (d, i) => d = 0 ∧ i ≥ cur.length) then none
  else
    let copied : List Int := req.zipIdx.map fun (d, i) => if d = 0 then (cur.getD i 0 : Int) else d
    let known := prod ((copied.filter (· ≠ -1)).map Int.toNat)
    let total := prod cur
    if copied.contains (-1) then
      if known = 0 ∨ total % known ≠ 0 then none
      else some (copied.map fun d => if d = -1 then total / known else d.toNat)
    else if known = total then some (copied.map Int.toNat) else none

/-- Flatten: axis ∈ [-r, r]; result (∏ shape[:axis], ∏ shape[axis:]) -/
def flattenShape (cur : List Nat) (axis : Int) : Option (List Nat) :=
  let r : Int := cur.length
  if axis < -r ∨ axis > r then none
  else
    let a := (if axis < 0 then axis + r else axis).toNat
    some [prod (cur.take a), prod (cur.drop a)]

def normAxes (r : Int) (axes : List Int) : Option (List Nat) :=
  if axes.all (fun a => -r ≤ a ∧ a < r) then
    let n := axes.map fun a => (if a < 0 then a + r else a).toNat
    if n.eraseDups.length = n.length then some n else none
  else none

/-- Squeeze: listed axes must be in range, distinct and of extent 1; no axes = all extent-1 axes -/
def squeezeShape (cur : List Nat) (axes : Option (List Int)) : Option (List Nat) :=
  match axes with
  | none => some (cur.filter (· ≠ 1))
  | some ax =>
    match normAxes cur.length ax with
    | none => none
    | some n =>
      if n.all (fun a => cur.getD a 0 = 1) then
        some ((cur.zipIdx.filter fun (_, i) => !n.contains i).map (·.1))
      else none

/-- Unsqueeze: axes in [-R, R) for the output rank R, distinct; ones exactly there -/
def unsqueezeShape (cur : List Nat) (axes : List Int) : Option (List Nat) :=
  let R := cur.length + axes.length
  match normAxes R axes with
  | none => none
  | some n =>
    let rec go (i : Nat) (fuel : Nat) (rest : List Nat) : List Nat :=
      match fuel with
      | 0 => []
      | f+1 => if n.contains i then 1 :: go (i+1) f rest
        else match rest with
          | [] => []
          | d :: ds => d :: go (i+1) f ds
    some (go 0 R cur)

end Gonnx.Spec
