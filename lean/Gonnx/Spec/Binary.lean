import Gonnx.Spec.Broadcast
/-
ONNX elementwise binary operators with multidirectional broadcasting.
-/
namespace Gonnx.Spec
variable {α β : Type}

/-- the ONNX result: broadcast shape, `f` applied to the correspondingly broadcast elements;
`none` when the shapes are not broadcast-compatible -/
def binary [Inhabited α] (f : α → α → β) (A B : Tensor α) : Option (Tensor β) :=
  if Compatible A.shape B.shape then
    some (ofFn (bshape A.shape B.shape) fun idx => f (A.get (pin A.shape idx)) (B.get (pin B.shape idx)))
  else none

end Gonnx.Spec
