/-
The attribute state every operator has when it comes out of the registry (before Init reads the node's
attributes), i.e. what a node WITHOUT attributes runs with - written down once from the ONNX opset-13
defaults and gonnx's documentation at the pinned commit (ArgMax axis 0 / keepdims 1 / select_last_index 0,
Flatten axis 1, Gather axis 0, Gemm alpha = beta = 1 and no transposition, Softmax / LogSoftmax axis -1,
ReduceMax / ReduceMin keepdims 1 and all axes, RNN tanh, GRU sigmoid + tanh and linear_before_reset 0,
LSTM sigmoid + tanh + tanh and input_forget 0, direction forward, Conv auto_pad NOTSET with dilations /
strides / pads / kernel_shape / group filled in by Apply, LinearRegressor post_transform NONE and one
target, Transpose perm empty = reversed axes). NOT regenerated: `C15.registry_defaults_pinned` proves the
regenerated table equal to it on every run; values are rendered as strings by the reflection.
-/
namespace Gonnx.Spec

def defaultState : List (String × List (String × String)) := [
  ("Abs", []),
  ("Acos", []),
  ("Acosh", []),
  ("Add", []),
  ("And", []),
  ("ArgMax", [("axis", "0"), ("keepDims", "true"), ("selectLastIndex", "false")]),
  ("Asin", []),
  ("Asinh", []),
  ("Atan", []),
  ("Atanh", []),
  ("Cast", [("to", "0")]),
  ("Concat", [("axis", "0"), ("maxInputs", "0"), ("inputTypeConstraints", "[]")]),
  ("Constant", []),
  ("ConstantOfShape", []),
  ("Conv", [("autoPad", "NOTSET"), ("dilations", "[]"), ("group", "0"), ("kernelShape", "[]"), ("pads", "[]"), ("strides", "[]")]),
  ("Cos", []),
  ("Cosh", []),
  ("Div", []),
  ("Equal", []),
  ("Expand", []),
  ("Flatten", [("axis", "1")]),
  ("GRU", [("activationAlpha", "[]"), ("activationBeta", "[]"), ("activations", "[sigmoid,tanh]"), ("direction", "forward"), ("hiddenSize", "0"), ("linearBeforeReset", "false")]),
  ("Gather", [("axis", "0")]),
  ("Gemm", [("alpha", "1"), ("beta", "1"), ("transA", "false"), ("transB", "false")]),
  ("Greater", []),
  ("GreaterOrEqual", []),
  ("LSTM", [("activationAlpha", "[]"), ("activationBeta", "[]"), ("activations", "[sigmoid,tanh,tanh]"), ("direction", "forward"), ("hiddenSize", "0"), ("inputForget", "false"), ("outputs", "[Y,Y_h,Y_c]")]),
  ("Less", []),
  ("LessOrEqual", []),
  ("LinearRegressor", [("postTransform", "NONE"), ("targets", "1")]),
  ("LogSoftmax", [("axis", "-1")]),
  ("MatMul", []),
  ("Mul", []),
  ("Not", []),
  ("Or", []),
  ("PRelu", []),
  ("RNN", [("activationAlpha", "[]"), ("activationBeta", "[]"), ("activations", "[tanh]"), ("direction", "forward"), ("hiddenSize", "0")]),
  ("ReduceMax", [("axes", "[]"), ("keepDims", "true")]),
  ("ReduceMin", [("axes", "[]"), ("keepDims", "true")]),
  ("Relu", []),
  ("Reshape", []),
  ("Scaler", []),
  ("Shape", []),
  ("Sigmoid", []),
  ("Sin", []),
  ("Sinh", []),
  ("Slice", []),
  ("Softmax", [("axis", "-1")]),
  ("Squeeze", []),
  ("Sub", []),
  ("Tan", []),
  ("Tanh", []),
  ("Transpose", [("perm", "[]")]),
  ("Unsqueeze", []),
  ("Xor", [])
]

end Gonnx.Spec
