import Gonnx.Gate
/-
Element types each operator admits at each input position: the operator documentation of gonnx at the
pinned commit (ONNX opset-13 type constraints restricted to the element types the implementation
handles), written down once - NOT regenerated. The regenerated registry is proved equal to this table
on every run (`C15.registry_types_pinned`), and the gate is judged against THIS table, so that a
change of an operator's declared types (an element type silently admitted or dropped) is a broken
obligation with a concrete gate input as the witness. `Concat` is variadic (`concatDesc`).
-/
namespace Gonnx.Spec

def typeTable : List (String × List (List DType)) := [
  ("Abs", [[DType.u8, DType.u16, DType.u32, DType.u64, DType.i8, DType.i16, DType.i32, DType.i64, DType.f32, DType.f64]]),
  ("Acos", [[DType.f32, DType.f64]]),
  ("Acosh", [[DType.f32, DType.f64]]),
  ("Add", [[DType.u32, DType.u64, DType.i32, DType.i64, DType.f32, DType.f64], [DType.u32, DType.u64, DType.i32, DType.i64, DType.f32, DType.f64]]),
  ("And", [[DType.bool], [DType.bool]]),
  ("ArgMax", [[DType.u32, DType.u64, DType.i32, DType.i64, DType.f32, DType.f64]]),
  ("Asin", [[DType.f32, DType.f64]]),
  ("Asinh", [[DType.f32, DType.f64]]),
  ("Atan", [[DType.f32, DType.f64]]),
  ("Atanh", [[DType.f32, DType.f64]]),
  ("Cast", [[DType.i16, DType.u16, DType.i32, DType.u32, DType.i64, DType.u64, DType.f32, DType.f64]]),
  ("Constant", []),
  ("ConstantOfShape", [[DType.i64]]),
  ("Conv", [[DType.f32, DType.f64], [DType.f32, DType.f64], [DType.f32, DType.f64]]),
  ("Cos", [[DType.f32, DType.f64]]),
  ("Cosh", [[DType.f32, DType.f64]]),
  ("Div", [[DType.u32, DType.u64, DType.i32, DType.i64, DType.f32, DType.f64], [DType.u32, DType.u64, DType.i32, DType.i64, DType.f32, DType.f64]]),
  ("Equal", [[DType.u8, DType.u16, DType.u32, DType.u64, DType.i8, DType.i16, DType.i32, DType.i64, DType.f32, DType.f64, DType.c64, DType.c128, DType.str, DType.bool], [DType.u8, DType.u16, DType.u32, DType.u64, DType.i8, DType.i16, DType.i32, DType.i64, DType.f32, DType.f64, DType.c64, DType.c128, DType.str, DType.bool]]),
  ("Expand", [[DType.u8, DType.u16, DType.u32, DType.u64, DType.i8, DType.i16, DType.i32, DType.i64, DType.f32, DType.f64, DType.c64, DType.c128, DType.str, DType.bool], [DType.i64]]),
  ("Flatten", [[DType.u8, DType.u16, DType.u32, DType.u64, DType.i8, DType.i16, DType.i32, DType.i64, DType.f32, DType.f64, DType.c64, DType.c128, DType.str, DType.bool]]),
  ("GRU", [[DType.f32, DType.f64], [DType.f32, DType.f64], [DType.f32, DType.f64], [DType.f32, DType.f64], [DType.i32], [DType.f32, DType.f64]]),
  ("Gather", [[DType.u8, DType.u16, DType.u32, DType.u64, DType.i8, DType.i16, DType.i32, DType.i64, DType.f32, DType.f64, DType.c64, DType.c128, DType.str, DType.bool], [DType.i32, DType.i64]]),
  ("Gemm", [[DType.u32, DType.u64, DType.i32, DType.i64, DType.f32, DType.f64], [DType.u32, DType.u64, DType.i32, DType.i64, DType.f32, DType.f64], [DType.u32, DType.u64, DType.i32, DType.i64, DType.f32, DType.f64]]),
  ("Greater", [[DType.u8, DType.u16, DType.u32, DType.u64, DType.i8, DType.i16, DType.i32, DType.i64, DType.f32, DType.f64, DType.c64, DType.c128, DType.str, DType.bool], [DType.u8, DType.u16, DType.u32, DType.u64, DType.i8, DType.i16, DType.i32, DType.i64, DType.f32, DType.f64, DType.c64, DType.c128, DType.str, DType.bool]]),
  ("GreaterOrEqual", [[DType.u8, DType.u16, DType.u32, DType.u64, DType.i8, DType.i16, DType.i32, DType.i64, DType.f32, DType.f64, DType.c64, DType.c128, DType.str, DType.bool], [DType.u8, DType.u16, DType.u32, DType.u64, DType.i8, DType.i16, DType.i32, DType.i64, DType.f32, DType.f64, DType.c64, DType.c128, DType.str, DType.bool]]),
  ("LSTM", [[DType.f32, DType.f64], [DType.f32, DType.f64], [DType.f32, DType.f64], [DType.f32, DType.f64], [DType.i32], [DType.f32, DType.f64], [DType.f32, DType.f64], [DType.f32, DType.f64]]),
  ("Less", [[DType.u8, DType.u16, DType.u32, DType.u64, DType.i8, DType.i16, DType.i32, DType.i64, DType.f32, DType.f64, DType.c64, DType.c128, DType.str, DType.bool], [DType.u8, DType.u16, DType.u32, DType.u64, DType.i8, DType.i16, DType.i32, DType.i64, DType.f32, DType.f64, DType.c64, DType.c128, DType.str, DType.bool]]),
  ("LessOrEqual", [[DType.u8, DType.u16, DType.u32, DType.u64, DType.i8, DType.i16, DType.i32, DType.i64, DType.f32, DType.f64, DType.c64, DType.c128, DType.str, DType.bool], [DType.u8, DType.u16, DType.u32, DType.u64, DType.i8, DType.i16, DType.i32, DType.i64, DType.f32, DType.f64, DType.c64, DType.c128, DType.str, DType.bool]]),
  ("LinearRegressor", [[DType.i32, DType.i64, DType.f32, DType.f64]]),
  ("LogSoftmax", [[DType.f32, DType.f64]]),
  ("MatMul", [[DType.u32, DType.u64, DType.i32, DType.i64, DType.f32, DType.f64], [DType.u32, DType.u64, DType.i32, DType.i64, DType.f32, DType.f64]]),
  ("Mul", [[DType.u32, DType.u64, DType.i32, DType.i64, DType.f32, DType.f64], [DType.u32, DType.u64, DType.i32, DType.i64, DType.f32, DType.f64]]),
  ("Not", [[DType.bool]]),
  ("Or", [[DType.bool], [DType.bool]]),
  ("PRelu", [[DType.u32, DType.u64, DType.i32, DType.i64, DType.f32, DType.f64], [DType.u32, DType.u64, DType.i32, DType.i64, DType.f32, DType.f64]]),
  ("RNN", [[DType.f32, DType.f64], [DType.f32, DType.f64], [DType.f32, DType.f64], [DType.f32, DType.f64], [DType.i32], [DType.f32, DType.f64]]),
  ("ReduceMax", [[DType.u8, DType.i8, DType.u32, DType.u64, DType.i32, DType.i64, DType.f32, DType.f64]]),
  ("ReduceMin", [[DType.u8, DType.i8, DType.u32, DType.u64, DType.i32, DType.i64, DType.f32, DType.f64]]),
  ("Relu", [[DType.f32, DType.f64]]),
  ("Reshape", [[DType.u8, DType.u16, DType.u32, DType.u64, DType.i8, DType.i16, DType.i32, DType.i64, DType.f32, DType.f64, DType.c64, DType.c128, DType.str, DType.bool], [DType.i64]]),
  ("Scaler", [[DType.i32, DType.i64, DType.f32, DType.f64]]),
  ("Shape", [[DType.u8, DType.u16, DType.u32, DType.u64, DType.i8, DType.i16, DType.i32, DType.i64, DType.f32, DType.f64, DType.c64, DType.c128, DType.str, DType.bool]]),
  ("Sigmoid", [[DType.f32, DType.f64]]),
  ("Sin", [[DType.f32, DType.f64]]),
  ("Sinh", [[DType.f32, DType.f64]]),
  ("Slice", [[DType.u8, DType.u16, DType.u32, DType.u64, DType.i8, DType.i16, DType.i32, DType.i64, DType.f32, DType.f64, DType.c64, DType.c128, DType.str, DType.bool], [DType.i32, DType.i64], [DType.i32, DType.i64], [DType.i32, DType.i64], [DType.i32, DType.i64]]),
  ("Softmax", [[DType.f32, DType.f64]]),
  ("Squeeze", [[DType.u8, DType.u16, DType.u32, DType.u64, DType.i8, DType.i16, DType.i32, DType.i64, DType.f32, DType.f64, DType.c64, DType.c128, DType.str, DType.bool], [DType.i64]]),
  ("Sub", [[DType.u32, DType.u64, DType.i32, DType.i64, DType.f32, DType.f64], [DType.u32, DType.u64, DType.i32, DType.i64, DType.f32, DType.f64]]),
  ("Tan", [[DType.f32, DType.f64]]),
  ("Tanh", [[DType.f32, DType.f64]]),
  ("Transpose", [[DType.u8, DType.u16, DType.u32, DType.u64, DType.i8, DType.i16, DType.i32, DType.i64, DType.f32, DType.f64, DType.c64, DType.c128, DType.str, DType.bool]]),
  ("Unsqueeze", [[DType.u8, DType.u16, DType.u32, DType.u64, DType.i8, DType.i16, DType.i32, DType.i64, DType.f32, DType.f64, DType.c64, DType.c128, DType.str, DType.bool], [DType.i64]]),
  ("Xor", [[DType.bool], [DType.bool]])]

def typesOf (name : String) : Option (List (List DType)) := (typeTable.find? (·.1 = name)).map (·.2)

end Gonnx.Spec
