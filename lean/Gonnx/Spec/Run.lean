import Gonnx.Graph.Run
/-
C01 specification: the value of a name in a graph, by demand — no environment, no execution order.
-/
namespace Gonnx.Spec
open Gonnx

/-- the value named `name`: a caller input, else an initializer, else output `k` of the (last) node
that lists it, whose inputs are evaluated recursively ("" = absent). `fuel` bounds the depth. -/
def value {V : Type} (sem : Nat → List (Option V) → Res (List (Option V))) (g : Graph V) (ins : List (String × V)) :
    Nat → String → Res (Option V)
  | 0, _ => .error .model
  | fuel+1, name =>
    match List.lookup name ins with
    | some v => .ok (some v)
    | none =>
      match List.lookup name g.inits with
      | some v => .ok (some v)
      | none =>
        -- the node producing `name`
        match (g.nodes.zipIdx.filter fun (n, _) => n.outs.contains name).getLast? with
        | none => .error .model
        | some (n, i) =>
          let args := n.ins.mapM fun a => if a = "" then (.ok none : Res (Option V)) else value sem g ins fuel a
          match args with
          | .error e => .error e
          | .ok vs =>
            match sem i vs with
            | .error e => .error e
            | .ok outs =>
              if outs.length ≠ n.outs.length then .error .model
              else .ok ((outs.getD (n.outs.idxOf name) none))

end Gonnx.Spec
