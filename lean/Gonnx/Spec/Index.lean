import Gonnx.Spec.Broadcast
/-
ONNX Transpose / Concat / Slice / Gather / Expand as index formulas, from the operator docs.
-/
namespace Gonnx.Spec
variable {α : Type}

def isPerm (r : Nat) (perm : List Int) : Bool :=
  perm.length = r ∧ (List.range r).all fun j => perm.contains (j : Int)

/-- Transpose: `out.shape[i] = in.shape[perm[i]]`, `out[idx] = in[j ↦ idx[perm⁻¹ j]]` -/
def transpose [Inhabited α] (t : Tensor α) (perm : List Int) : Option (Tensor α) :=
  let r := t.shape.length
  if isPerm r perm then
    some (ofFn (perm.map fun p => dim t.shape p.toNat) fun idx =>
      t.get ((List.range r).map fun (j : Nat) => idx.getD (perm.findIdx (fun p => p = (j : Int))) 0))
  else none

/-- Concat along `axis ∈ [-r, r)`: all inputs agree off the axis -/
def concat [Inhabited α] (axis : Int) (ts : List (Tensor α)) : Option (Tensor α) :=
  match ts with
  | [] => none
  | t0 :: _ =>
    let r : Int := t0.shape.length
    if axis < -r ∨ axis ≥ r then none
    else
      let ax := (if axis < 0 then axis + r else axis).toNat
      if ts.all fun t => t.shape.length = t0.shape.length ∧
          (List.range t0.shape.length).all fun j => j = ax ∨ dim t.shape j = dim t0.shape j then
        let total := (ts.map fun t => dim t.shape ax).foldl (· + ·) 0
        some (ofFn (t0.shape.set ax total) fun idx =>
          -- find the input holding position p of the axis
          let rec find (p : Nat) (l : List (Tensor α)) : α :=
            match l with
            | [] => default
            | t :: rest => if p < dim t.shape ax then t.get (idx.set ax p) else find (p - dim t.shape ax) rest
          find (idx.getD ax 0) ts)
      else none

/-- ONNX Slice-13 for one axis: effective (start, step, extent) after negative offsetting and clamping -/
def sliceAxis (d : Nat) (start stop step : Int) : Option (Int × Int × Nat) :=
  if step = 0 then none
  else
    let d' : Int := d
    let s := if start < 0 then start + d' else start
    let e := if stop < 0 then stop + d' else stop
    if step > 0 then
      let s := if s < 0 then 0 else if s > d' then d' else s
      let e := if e < 0 then 0 else if e > d' then d' else e
      let n := if e > s then (e - s + step - 1) / step else 0
      some (s, step, n.toNat)
    else
      let s := if s < 0 then 0 else if s > d' - 1 then d' - 1 else s
      let e := if e < -1 then -1 else if e > d' - 1 then d' - 1 else e
      let n := if s > e then (s - e + (-step) - 1) / (-step) else 0
      some (s, step, n.toNat)

/-- ONNX Slice: every sliced axis is kept, with extent ⌈(end-start)/step⌉ -/
def slice [Inhabited α] (t : Tensor α) (starts ends axes steps : List Int) : Option (Tensor α) :=
  let r : Int := t.shape.length
  if starts.length ≠ ends.length ∨ axes.length ≠ starts.length ∨ steps.length ≠ starts.length then none
  else if !(axes.all fun a => -r ≤ a ∧ a < r) then none
  else
    let nax := axes.map fun a => (if a < 0 then a + r else a).toNat
    if nax.eraseDups.length ≠ nax.length then none
    else
      let sel (j : Nat) : Option (Int × Int × Nat) :=
        match nax.findIdx? (· = j) with
        | none => some (0, 1, dim t.shape j)
        | some i => sliceAxis (dim t.shape j) (starts.getD i 0) (ends.getD i 0) (steps.getD i 1)
      match (List.range t.shape.length).mapM sel with
      | none => none
      | some sels =>
        some (ofFn (sels.map (·.2.2)) fun idx =>
          t.get (List.zipWith (fun (s : Int × Int × Nat) (i : Nat) => (s.1 + (i : Int) * s.2.1).toNat) sels idx))

/-- Gather: `out[i⃗ ++ j⃗ ++ k⃗] = data[i⃗ ++ [idx[j⃗]] ++ k⃗]`, negative indices count from the end -/
def gather [Inhabited α] (data : Tensor α) (indices : Tensor Int) (axis : Int) : Option (Tensor α) :=
  let r : Int := data.shape.length
  if axis < -r ∨ axis ≥ r then none
  else
    let ax := (if axis < 0 then axis + r else axis).toNat
    let n : Int := dim data.shape ax
    if indices.data.all fun k => -n ≤ k ∧ k < n then
      let q := indices.shape.length
      some (ofFn (data.shape.take ax ++ indices.shape ++ data.shape.drop (ax + 1)) fun idx =>
        let k := indices.get ((idx.drop ax).take q)
        data.get (idx.take ax ++ [(if k < 0 then k + n else k).toNat] ++ idx.drop (ax + q)))
    else none

/-- Expand: two-way broadcast of the input against the target shape -/
def expand [Inhabited α] (t : Tensor α) (target : List Nat) : Option (Tensor α) :=
  if Compatible t.shape target then
    some (ofFn (bshape t.shape target) fun idx => t.get (pin t.shape idx))
  else none

end Gonnx.Spec
