import Gonnx.Core
/-
ONNX ArgMax / ReduceMax / ReduceMin / Softmax / LogSoftmax.
-/
namespace Gonnx.Spec
variable {α : Type}

def normAxis (r : Nat) (a : Int) : Option Nat :=
  if -(r : Int) ≤ a ∧ a < r then some (if a < 0 then a + r else a).toNat else none

/-- ArgMax along one axis: index of the first maximal element; the axis is kept with extent 1 iff keepdims -/
def argmax [Inhabited α] (le : α → α → Bool) (t : Tensor α) (axis : Int) (keepdims : Bool) : Option (Tensor Int) :=
  match normAxis t.shape.length axis with
  | none => none
  | some ax =>
    let n := dim t.shape ax
    let outShape := if keepdims then t.shape.set ax 1 else t.shape.eraseIdx ax
    some (ofFn outShape fun idx =>
      let elt (k : Nat) : α := t.get (if keepdims then idx.set ax k else idx.take ax ++ [k] ++ idx.drop ax)
      -- the first k such that every element is ≤ at k
      (((List.range n).find? fun k => (List.range n).all fun j => le (elt j) (elt k)).getD 0 : Nat))

/-- Reduce over exactly the listed axes (all axes when none are given) with the binary `pick` -/
def reduce [Inhabited α] (pick : α → α → α) (t : Tensor α) (axes : List Int) (keepdims : Bool) : Option (Tensor α) :=
  let r := t.shape.length
  match axes.mapM (normAxis r) with
  | none => none
  | some ax =>
    let ax := if ax.isEmpty then List.range r else ax.eraseDups
    let outShape :=
      if keepdims then (t.shape.zipIdx.map fun (d, j) => if ax.contains j then 1 else d)
      else (t.shape.zipIdx.filter fun (_, j) => !ax.contains j).map (·.1)
    some (ofFn outShape fun idx =>
      -- all source indices that agree with idx on the kept axes
      let srcs := (allIdx t.shape).filter fun s =>
        let keptOfS := if keepdims then (s.zipIdx.map fun (v, j) => if ax.contains j then 0 else v)
                       else (s.zipIdx.filter fun (_, j) => !ax.contains j).map (·.1)
        keptOfS == idx
      match srcs with
      | [] => default
      | s0 :: rest => rest.foldl (fun acc s => pick acc (t.get s)) (t.get s0))

end Gonnx.Spec
