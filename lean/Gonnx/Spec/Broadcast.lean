import Gonnx.Core
/-
ONNX / numpy broadcasting, written from docs/Broadcasting.md of ONNX — not from the code.
-/
namespace Gonnx.Spec

/-- left-pad a shape with ones to rank `r` -/
def padShape (r : Nat) (s : List Nat) : List Nat := List.replicate (r - s.length) 1 ++ s

/-- two extents are compatible iff equal or one of them is 1 -/
def dimCompat (a b : Nat) : Bool := a == b || a == 1 || b == 1

/-- aligned at their last axes, every pair of extents is equal or contains a 1
(missing axes count as 1) -/
def Compatible (s1 s2 : List Nat) : Bool :=
  let r := max s1.length s2.length
  (List.zipWith dimCompat (padShape r s1) (padShape r s2)).all id

/-- the broadcast shape: elementwise maximum of the padded shapes -/
def bshape (s1 s2 : List Nat) : List Nat :=
  let r := max s1.length s2.length
  List.zipWith max (padShape r s1) (padShape r s2)

/-- source index for broadcast index `idx`: drop the leading axes the source does not have and pin
every stretched (extent-1) axis to 0 -/
def pin (s : List Nat) (idx : List Nat) : List Nat :=
  List.zipWith (fun n i => if n = 1 then 0 else i) s (idx.drop (idx.length - s.length))

end Gonnx.Spec
