import Gonnx.Graph.Decode
/-
What an ONNX TensorProto declares (from onnx.proto: data_type, dims, and either the typed field for
that type or little-endian raw_data), independent of the reader loops.
-/
namespace Gonnx.Spec
open Gonnx

/-- byte width of the 11 supported element types -/
def width : DType → Nat
  | .f32 | .i32 | .u32 => 4
  | .f64 | .i64 | .u64 => 8
  | .i16 | .u16 => 2
  | .i8 | .u8 | .bool => 1
  | _ => 0

/-- group a byte string into little-endian elements of width `w` (none unless the length is a multiple) -/
def groupLE (w : Nat) : Nat → List Nat → Option (List Nat)
  | 0, _ => some []
  | n+1, data =>
    if data.length < w then none
    else match groupLE w n (data.drop w) with
      | none => none
      | some rest => some (leValue (data.take w) :: rest)

/-- declared element bit patterns of a raw payload holding exactly `n` elements of type `dt` -/
def declaredRaw (dt : DType) (n : Nat) (raw : List Nat) : Option (List Nat) :=
  if raw.length ≠ n * width dt then none
  else if dt = .bool then some (raw.map fun b => if b > 0 then 1 else 0)
  else groupLE (width dt) n raw

end Gonnx.Spec
