import Gonnx.Ops.MatMul
/-
ONNX RNN / GRU / LSTM (forward direction, opset 13): the recurrence equations on indices.
Weights `W : (1, G·hidden, input)`, `R : (1, G·hidden, hidden)`, bias `B : (1, 2·G·hidden)` (`Wb | Rb`),
gate order RNN: i; GRU: z r h; LSTM: i o f c; peepholes `P : (1, 3·hidden)` in order i o f.
Outputs `Y : (seq, 1, batch, hidden)`, `Y_h, Y_c : (1, batch, hidden)`.
-/
namespace Gonnx.Spec
open Gonnx
variable {α : Type}

/-- `Σ_i x[i] · M[0, row, i]` over `n` entries -/
def dotRow [Inhabited α] (A : Arith α) (x : Nat → α) (M : Tensor α) (row n : Nat) : α :=
  sumRange A n fun i => A.mul (x i) (M.get [0, row, i])

/-- affine part of gate `g` (block index) at (batch b, unit j): `(X_t·W_gᵀ + Wb_g) + (H·R_gᵀ + Rb_g)` -/
def gatePre [Inhabited α] (A : Arith α) (G hidden input : Nat) (W R : Tensor α) (B : Option (Tensor α))
    (x : Nat → α) (hprev : Nat → α) (g j : Nat) : α :=
  let wb := match B with | some b => b.get [0, g * hidden + j] | none => A.zero
  let rb := match B with | some b => b.get [0, (G + g) * hidden + j] | none => A.zero
  A.add (A.add (dotRow A x W (g * hidden + j) input) wb) (A.add (dotRow A hprev R (g * hidden + j) hidden) rb)

structure RecDims where
  seq : Nat
  batch : Nat
  input : Nat
  hidden : Nat

/-- the shapes ONNX prescribes for the inputs -/
def recShapesOk (G : Nat) (d : RecDims) (X W R : Tensor α) (B H0 : Option (Tensor α)) : Bool :=
  X.shape == [d.seq, d.batch, d.input] && W.shape == [1, G * d.hidden, d.input] && R.shape == [1, G * d.hidden, d.hidden] &&
  (match B with | some b => b.shape == [1, 2 * G * d.hidden] | none => true) &&
  (match H0 with | some h => h.shape == [1, d.batch, d.hidden] | none => true)

/-- iterate a step function over the time steps, collecting the hidden state after each -/
def iterate {σ : Type} (step : Nat → σ → σ) (hid : σ → Tensor α) : Nat → Nat → σ → List (Tensor α) × σ
  | 0, _, s => ([], s)
  | n+1, t, s =>
    let s' := step t s
    let (rest, sf) := iterate step hid n (t+1) s'
    (hid s' :: rest, sf)

def stackSpec [Inhabited α] (hs : List (Tensor α)) (d : RecDims) : Tensor α :=
  ofFn [d.seq, 1, d.batch, d.hidden] fun idx =>
    (hs.getD (idx.getD 0 0) ⟨[], []⟩).get [idx.getD 2 0, idx.getD 3 0]

/-- RNN: `H_t = f(X_t·Wᵀ + Wb + H_{t-1}·Rᵀ + Rb)` -/
def rnn [Inhabited α] (A : Arith α) (f : α → α) (d : RecDims) (X W R : Tensor α) (B H0 : Option (Tensor α)) :
    Option (Tensor α × Tensor α) :=
  if !recShapesOk 1 d X W R B H0 ∨ d.seq = 0 then none
  else
    let h0 : Tensor α := match H0 with
      | some h => ofFn [d.batch, d.hidden] fun idx => h.get (0 :: idx)
      | none => ofFn [d.batch, d.hidden] fun _ => A.zero
    let step (t : Nat) (H : Tensor α) : Tensor α :=
      ofFn [d.batch, d.hidden] fun idx =>
        let b := idx.getD 0 0; let j := idx.getD 1 0
        f (gatePre A 1 d.hidden d.input W R B (fun i => X.get [t, b, i]) (fun k => H.get [b, k]) 0 j)
    let (hs, hf) := iterate step id d.seq 0 h0
    some (stackSpec hs d, ofFn [1, d.batch, d.hidden] fun idx => hf.get (idx.drop 1))

/-- GRU: `z = f(·)`, `r = f(·)`, `h̃ = g(X·W_hᵀ + Wb_h + (r⊙H)·R_hᵀ + Rb_h)` or, with
linear_before_reset, `g(X·W_hᵀ + Wb_h + r⊙(H·R_hᵀ + Rb_h))`; `H_t = (1 − z)⊙h̃ + z⊙H_{t-1}` -/
def gru [Inhabited α] (A : Arith α) (one : α) (f g : α → α) (lbr : Bool) (d : RecDims)
    (X W R : Tensor α) (B H0 : Option (Tensor α)) : Option (Tensor α × Tensor α) :=
  if !recShapesOk 3 d X W R B H0 ∨ d.seq = 0 then none
  else
    let h0 : Tensor α := match H0 with
      | some h => ofFn [d.batch, d.hidden] fun idx => h.get (0 :: idx)
      | none => ofFn [d.batch, d.hidden] fun _ => A.zero
    let step (t : Nat) (H : Tensor α) : Tensor α :=
      let x (b : Nat) := fun i => X.get [t, b, i]
      let hp (b : Nat) := fun k => H.get [b, k]
      let z (b j : Nat) := f (gatePre A 3 d.hidden d.input W R B (x b) (hp b) 0 j)
      let r (b j : Nat) := f (gatePre A 3 d.hidden d.input W R B (x b) (hp b) 1 j)
      let wb (j : Nat) := match B with | some bb => bb.get [0, 2 * d.hidden + j] | none => A.zero
      let rb (j : Nat) := match B with | some bb => bb.get [0, 5 * d.hidden + j] | none => A.zero
      let ht (b j : Nat) :=
        if !lbr then
          g (A.add (A.add (dotRow A (x b) W (2 * d.hidden + j) d.input) (wb j))
                   (A.add (dotRow A (fun k => A.mul (r b k) (H.get [b, k])) R (2 * d.hidden + j) d.hidden) (rb j)))
        else
          g (A.add (A.mul (A.add (dotRow A (hp b) R (2 * d.hidden + j) d.hidden) (rb j)) (r b j))
                   (A.add (dotRow A (x b) W (2 * d.hidden + j) d.input) (wb j)))
      ofFn [d.batch, d.hidden] fun idx =>
        let b := idx.getD 0 0; let j := idx.getD 1 0
        A.add (A.mul (A.sub one (z b j)) (ht b j)) (A.mul (z b j) (H.get [b, j]))
    let (hs, hf) := iterate step id d.seq 0 h0
    some (stackSpec hs d, ofFn [1, d.batch, d.hidden] fun idx => hf.get (idx.drop 1))

/-- LSTM: `i = f(· + P_i⊙C)`, `f = f(· + P_f⊙C)`, `c̃ = g(·)`, `C_t = f⊙C + i⊙c̃`, `o = f(· + P_o⊙C_t)`,
`H_t = o⊙h(C_t)` -/
def lstm [Inhabited α] (A : Arith α) (f g h : α → α) (d : RecDims)
    (X W R : Tensor α) (B H0 C0 P : Option (Tensor α)) : Option (Tensor α × Tensor α × Tensor α) :=
  let cOk : Bool := match C0 with | some c => c.shape == [1, d.batch, d.hidden] | none => true
  let pOk : Bool := match P with | some p => p.shape == [1, 3 * d.hidden] | none => true
  if !recShapesOk 4 d X W R B H0 ∨ d.seq = 0 ∨ !cOk ∨ !pOk then none
  else
    let init (o : Option (Tensor α)) : Tensor α := match o with
      | some t => ofFn [d.batch, d.hidden] fun idx => t.get (0 :: idx)
      | none => ofFn [d.batch, d.hidden] fun _ => A.zero
    let peep (k j : Nat) (c : α) (v : α) : α := match P with
      | some p => A.add v (A.mul (p.get [0, k * d.hidden + j]) c)
      | none => v
    let step (t : Nat) (st : Tensor α × Tensor α) : Tensor α × Tensor α :=
      let (H, C) := st
      let x (b : Nat) := fun i => X.get [t, b, i]
      let hp (b : Nat) := fun k => H.get [b, k]
      let pre (b gi j : Nat) := gatePre A 4 d.hidden d.input W R B (x b) (hp b) gi j
      let it (b j : Nat) := f (peep 0 j (C.get [b, j]) (pre b 0 j))
      let ft (b j : Nat) := f (peep 2 j (C.get [b, j]) (pre b 2 j))
      let ct (b j : Nat) := g (pre b 3 j)
      let C' : Tensor α := ofFn [d.batch, d.hidden] fun idx =>
        let b := idx.getD 0 0; let j := idx.getD 1 0
        A.add (A.mul (ft b j) (C.get [b, j])) (A.mul (it b j) (ct b j))
      let H' : Tensor α := ofFn [d.batch, d.hidden] fun idx =>
        let b := idx.getD 0 0; let j := idx.getD 1 0
        A.mul (f (peep 1 j (C'.get [b, j]) (pre b 1 j))) (h (C'.get [b, j]))
      (H', C')
    let (hs, sf) := iterate step (·.1) d.seq 0 (init H0, init C0)
    some (stackSpec hs d, ofFn [1, d.batch, d.hidden] (fun idx => sf.1.get (idx.drop 1)),
          ofFn [1, d.batch, d.hidden] (fun idx => sf.2.get (idx.drop 1)))

end Gonnx.Spec
