import Gonnx.Gate
/-
ONNX opset-13 input arities (minimum = required inputs, maximum = all inputs of the operator
signature) of the operators gonnx implements - written down from the ONNX operator schemas
(ai.onnx v13; ai.onnx.ml v1 for LinearRegressor / Scaler), NOT from the code. `Concat` is variadic
(at least one input) and is treated by `concatDesc`.
-/
namespace Gonnx.Spec

def onnxArity : List (String × Nat × Nat) := [
  ("Abs", 1, 1), ("Acos", 1, 1), ("Acosh", 1, 1), ("Add", 2, 2), ("And", 2, 2), ("ArgMax", 1, 1),
  ("Asin", 1, 1), ("Asinh", 1, 1), ("Atan", 1, 1), ("Atanh", 1, 1), ("Cast", 1, 1),
  ("Constant", 0, 0), ("ConstantOfShape", 1, 1),
  ("Conv", 2, 3),                     -- X, W, [B]
  ("Cos", 1, 1), ("Cosh", 1, 1), ("Div", 2, 2), ("Equal", 2, 2), ("Expand", 2, 2), ("Flatten", 1, 1),
  ("GRU", 3, 6),                      -- X, W, R, [B, sequence_lens, initial_h]
  ("Gather", 2, 2),
  ("Gemm", 2, 3),                     -- A, B, [C]
  ("Greater", 2, 2), ("GreaterOrEqual", 2, 2),
  ("LSTM", 3, 8),                     -- X, W, R, [B, sequence_lens, initial_h, initial_c, P]
  ("Less", 2, 2), ("LessOrEqual", 2, 2), ("LinearRegressor", 1, 1), ("LogSoftmax", 1, 1),
  ("MatMul", 2, 2), ("Mul", 2, 2), ("Not", 1, 1), ("Or", 2, 2), ("PRelu", 2, 2),
  ("RNN", 3, 6),                      -- X, W, R, [B, sequence_lens, initial_h]
  ("ReduceMax", 1, 1), ("ReduceMin", 1, 1),   -- opset 13: axes is still an attribute
  ("Relu", 1, 1), ("Reshape", 2, 2), ("Scaler", 1, 1), ("Shape", 1, 1), ("Sigmoid", 1, 1),
  ("Sin", 1, 1), ("Sinh", 1, 1),
  ("Slice", 3, 5),                    -- data, starts, ends, [axes, steps]
  ("Softmax", 1, 1),
  ("Squeeze", 1, 2),                  -- data, [axes]
  ("Sub", 2, 2), ("Tan", 1, 1), ("Tanh", 1, 1), ("Transpose", 1, 1),
  ("Unsqueeze", 2, 2),                -- data, axes
  ("Xor", 2, 2)]

def arityOf (name : String) : Option (Nat × Nat) := (onnxArity.find? (·.1 = name)).map (·.2)

end Gonnx.Spec
