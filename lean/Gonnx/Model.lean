import Gonnx.Core
import Gonnx.Gate
import Gonnx.Generated.Registry
import Gonnx.Kernel
import Gonnx.Broadcast
import Gonnx.Ops.Binary
import Gonnx.Spec.Broadcast
import Gonnx.Spec.Binary
