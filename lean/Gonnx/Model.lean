import Gonnx.Core
import Gonnx.Gate
import Gonnx.Generated.Registry
