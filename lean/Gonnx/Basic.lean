def hello := "world"
