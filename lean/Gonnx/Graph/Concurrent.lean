import Gonnx.Core
/-
Event-level model for C17: threads (goroutines performing Runs) as instruction lists over a shared
store of objects; an execution is any interleaving of the threads' instructions (sequential
consistency per instruction; no synchronisation between threads at all, so *any* conflicting pair of
accesses from different threads is a data race).
-/
namespace Gonnx.Conc

abbrev Obj := Nat
abbrev Regs (V : Type) := List V

/-- one step of a thread: read an object into the thread's registers, or write / initialise an
object with a value computed from the registers -/
inductive Instr (V : Type) where
  | load (o : Obj)
  | store (o : Obj) (f : Regs V → V)

/-- the global store -/
abbrev St (V : Type) := Obj → V

/-- execute one instruction of a thread on (registers, store) -/
def stepI {V : Type} (i : Instr V) (r : Regs V) (σ : St V) : Regs V × St V :=
  match i with
  | .load o => (r ++ [σ o], σ)
  | .store o f => (r, fun x => if x = o then f r else σ x)

/-- a thread run alone -/
def solo {V : Type} : List (Instr V) → Regs V → St V → Regs V × St V
  | [], r, σ => (r, σ)
  | i :: is, r, σ => let (r', σ') := stepI i r σ; solo is r' σ'

/-- a schedule: which thread takes the next step -/
abbrev Schedule := List Nat

/-- run `progs` under a schedule: thread `k` executes its next instruction (a schedule entry for a
finished or non-existent thread is skipped) -/
def runSched {V : Type} : Schedule → List (List (Instr V)) → List (Regs V) → St V → List (List (Instr V)) × List (Regs V) × St V
  | [], ps, rs, σ => (ps, rs, σ)
  | k :: sched, ps, rs, σ =>
    match ps[k]?, rs[k]? with
    | some (i :: rest), some r =>
      let (r', σ') := stepI i r σ
      runSched sched (ps.set k rest) (rs.set k r') σ'
    | _, _ => runSched sched ps rs σ

/-- objects an instruction list writes / reads -/
def writes {V : Type} (p : List (Instr V)) : List Obj := p.filterMap fun i => match i with | .store o _ => some o | .load _ => none
def reads {V : Type} (p : List (Instr V)) : List Obj := p.filterMap fun i => match i with | .load o => some o | .store _ _ => none

/-- the discipline a Run obeys when every operator is write-free (C02): a thread writes only objects
of its own private set (its freshly allocated tensors) and reads only its own or never-written
(shared: weights, protobuf-backed attribute data) objects; private sets are pairwise disjoint -/
structure Disciplined {V : Type} (progs : List (List (Instr V))) (priv : Nat → Obj → Bool) : Prop where
  writes_private : ∀ k p, progs[k]? = some p → ∀ o ∈ writes p, priv k o = true
  disjoint : ∀ k l o, k ≠ l → priv k o = true → priv l o = false
  reads_ok : ∀ k p, progs[k]? = some p → ∀ o ∈ reads p, ∀ l, l ≠ k → priv l o = false

/-- two accesses conflict: different threads, same object, at least one write -/
def Conflict {V : Type} (k : Nat) (i : Instr V) (l : Nat) (j : Instr V) : Prop :=
  k ≠ l ∧ match i, j with
    | .store o _, .store o' _ => o = o'
    | .store o _, .load o' => o = o'
    | .load o, .store o' _ => o = o'
    | .load _, .load _ => False

/-- the schedule runs every thread to completion -/
def Complete {V : Type} (sched : Schedule) (progs : List (List (Instr V))) (rs : List (Regs V)) (σ : St V) : Prop :=
  (runSched sched progs rs σ).1 = progs.map fun _ => []

end Gonnx.Conc
