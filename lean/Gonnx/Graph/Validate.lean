import Gonnx.Gate
/-
Model of `Model.validateShapes` (model.go) and `getShapesFromValueProto` (onnx/graph_proto.go).
-/
namespace Gonnx

/-- `onnx.Dim`: `dim_value = 0` (also: a symbolic or absent dimension) means dynamic -/
structure DimDecl where
  isDynamic : Bool
  size : Int
deriving Repr, DecidableEq

/-- what a `ValueInfoProto` of a graph input says: a name and, if it carries tensor type, shape
and a non-empty dimension list, its declared dimensions -/
structure InputDecl where
  name : String
  shape : Option (List DimDecl)
deriving Repr, DecidableEq

/-- a dimension as it comes out of `getShapesFromValueProto`: the value, dynamic iff 0 -/
def DimDecl.ofValue (v : Int) : DimDecl := ⟨v == 0, v⟩

/-- `getShapesFromValueProto`: inputs without type / tensor type / shape / dims are skipped
(`dims == nil` also skips a declared rank-0 shape) -/
def inputShapes (decls : List InputDecl) : List (String × List DimDecl) :=
  decls.filterMap fun d => match d.shape with
    | none => none
    | some [] => none
    | some s => some (d.name, s)

/-- the per-dimension loop of `validateShapes` -/
def dimsMatch : List DimDecl → List Nat → Bool
  | [], [] => true
  | d :: ds, n :: ns => (d.isDynamic || d.size == (n : Int)) && dimsMatch ds ns
  | _, _ => false

/-- one iteration of the `for name, shapeExpected := range m.InputShapes()` loop -/
def validateOne (params : List String) (ins : List (String × List Nat)) (e : String × List DimDecl) : Bool :=
  if params.contains e.1 then true
  else match ins.lookup e.1 with
    | none => false
    | some received => received.length == e.2.length && dimsMatch e.2 received

/-- `validateShapes`: Go iterates the map in random order; which error is reported is not modelled,
only whether one is. -/
def validateShapes (decls : List InputDecl) (params : List String) (ins : List (String × List Nat)) : Res Unit :=
  if (inputShapes decls).all (validateOne params ins) then .ok () else .error .model

end Gonnx
