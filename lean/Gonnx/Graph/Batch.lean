import Gonnx.Ops.MatMul
import Gonnx.Ops.Unary
/-
C16: selecting one sample of a batch, and what it means for an operator to act per sample.
-/
namespace Gonnx
variable {α β γ : Type}

/-- sample `n` of a batch along axis `ax` (the axis is kept, with extent 1) -/
def takeBatch [Inhabited α] (ax n : Nat) (t : Tensor α) : Tensor α :=
  ofFn (t.shape.set ax 1) fun idx => t.get (idx.set ax n)

/-- dense, with positive extents -/
def Good (t : Tensor α) : Prop := t.WF ∧ ∀ d ∈ t.shape, 0 < d

/-- `f` acts per sample: whenever it succeeds on a batch (batch axis `ax` of the input, `ax'` of the
output), it succeeds on every single sample, and the result for that sample is the corresponding
slice of the batch result — so no sample's output depends on the other samples, on their order or on
the batch size. -/
def BatchPointwise [Inhabited α] [Inhabited β] (ax ax' : Nat) (f : Tensor α → Res (Tensor β)) : Prop :=
  ∀ X Y, Good X → ax < X.shape.length → f X = .ok Y →
    Good Y ∧ ax' < Y.shape.length ∧ dim Y.shape ax' = dim X.shape ax ∧
    ∀ n, n < dim X.shape ax → f (takeBatch ax n X) = .ok (takeBatch ax' n Y)

end Gonnx
