import Gonnx.Kernel
/-
Model of `TensorFromProto` and its readers (onnx/graph_proto.go). Element values are carried as
unsigned bit patterns of the element width, never as floats, so NaN payloads are preserved.
-/
namespace Gonnx

/-- the fields of an `onnx.TensorProto` the decoder reads; floats as bit patterns, bytes as `Nat < 256` -/
structure TensorProtoM where
  dataType : Int
  dims : List Int
  floatData : List Nat := []      -- 32-bit patterns
  int32Data : List Int := []      -- int32 values
  int64Data : List Int := []      -- int64 values
  doubleData : List Nat := []     -- 64-bit patterns
  uint64Data : List Nat := []
  rawData : List Nat := []
deriving Repr, DecidableEq

structure Decoded where
  dt : DType
  shape : List Nat
  bits : List Nat
deriving Repr, DecidableEq

/-- little-endian value of a byte list -/
def leValue : List Nat → Nat
  | [] => 0
  | b :: bs => b + 256 * leValue bs

/-- the `Read*ArrayFromBytes` loop: `buffer.Read(element)` with an `elemW`-byte buffer, stop when the
number of bytes read differs from `cmpW` or on error. A trailing partial chunk leaves `err == nil`, so
`if err != io.EOF { return nil, err }` returns `(nil, nil)`: **everything read so far is dropped**.
(`elemW` and `cmpW` are separate because one reader of the pinned tree used 4 and 8.) -/
def readChunks (elemW cmpW : Nat) : Nat → List Nat → List Nat → List Nat
  | 0, _, acc => acc.reverse
  | fuel+1, data, acc =>
    if data.isEmpty then acc.reverse                       -- (0, io.EOF): return values
    else
      let chunk := data.take elemW
      if chunk.length ≠ cmpW then []                       -- short read, err == nil: (nil, nil)
      else readChunks elemW cmpW fuel (data.drop elemW) (leValue chunk :: acc)

def readLE (w : Nat) (data : List Nat) : List Nat := readChunks w w (data.length + 1) data []

/-- two's complement bit pattern of an integer at a byte width -/
def toBits (w : Nat) (v : Int) : Nat := (v % (2 ^ (8 * w) : Int)).toNat

/-- typed field if populated, else the raw bytes (`get*Data`) -/
def valuesFor (tp : TensorProtoM) : DType → List Nat
  | .f32 => if tp.floatData.length > 0 then tp.floatData else readLE 4 tp.rawData
  | .f64 => if tp.doubleData.length > 0 then tp.doubleData else readLE 8 tp.rawData
  | .i8 => if tp.int32Data.length > 0 then tp.int32Data.map (toBits 1) else readLE 1 tp.rawData
  | .u8 => if tp.int32Data.length > 0 then tp.int32Data.map (toBits 1) else readLE 1 tp.rawData
  | .i16 => if tp.int32Data.length > 0 then tp.int32Data.map (toBits 2) else readLE 2 tp.rawData
  | .u16 => if tp.int32Data.length > 0 then tp.int32Data.map (toBits 2) else readLE 2 tp.rawData
  | .i32 => if tp.int32Data.length > 0 then tp.int32Data.map (toBits 4) else readLE 4 tp.rawData
  | .u32 => if tp.uint64Data.length > 0 then tp.uint64Data.map (· % 2 ^ 32) else readLE 4 tp.rawData
  | .i64 => if tp.int64Data.length > 0 then tp.int64Data.map (toBits 8) else readLE 8 tp.rawData
  | .u64 => if tp.uint64Data.length > 0 then tp.uint64Data else readLE 8 tp.rawData
  | .bool => if tp.int32Data.length > 0 then tp.int32Data.map (fun v => if v = 1 then 1 else 0)
             else tp.rawData.map (fun b => if b > 0 then 1 else 0)
  | _ => []

/-- ONNX `data_type` codes the library decodes to an element type of its own -/
def dtypeOfCode : Int → Option DType
  | 1 => some .f32 | 2 => some .u8 | 3 => some .i8 | 4 => some .u16 | 5 => some .i16
  | 6 => some .i32 | 7 => some .i64 | 9 => some .bool | 11 => some .f64 | 12 => some .u32
  | 13 => some .u64 | _ => none

/-- the `default:` branch: UNDEFINED or an unsupported code picks the first populated typed field -/
def fallbackDType (tp : TensorProtoM) : Option DType :=
  if tp.floatData.length > 0 then some .f32
  else if tp.int32Data.length > 0 then some .i32
  else if tp.int64Data.length > 0 then some .i64
  else if tp.doubleData.length > 0 then some .f64
  else if tp.uint64Data.length > 0 then some .u64
  else none

/-- `TensorFromProto` -/
def decode (tp : TensorProtoM) : Res Decoded :=
  let dt? := match dtypeOfCode tp.dataType with
    | some d => some d
    | none => fallbackDType tp
  match dt? with
  | none => .error .invalidType
  | some dt =>
    let values := valuesFor tp dt
    if tp.dims.any (· < 0) then .error .shape
    else
      let shape := tp.dims.map Int.toNat
      if values.length ≠ prod shape then .error .shape
      else .ok ⟨dt, shape, values⟩

end Gonnx
