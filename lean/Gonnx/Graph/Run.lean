import Gonnx.Graph.Validate
/-
Model of `Model.Run` / `applyOp` / `getInputTensorsForNode` / `setOutputTensorsOfNode` (model.go),
after the `fix:` commits (caller inputs override same-named initializers; a declared output without
a tensor is an error). Generic in the value type `V` and in the operator semantics `sem`.
-/
namespace Gonnx

/-- a node as `Run` sees it: input names ("" = optional input absent) and output names -/
structure GNode where
  ins : List String
  outs : List String
deriving Repr, DecidableEq

structure Graph (V : Type) where
  nodes : List GNode
  decls : List InputDecl            -- graph inputs (value infos)
  outputs : List String
  inits : List (String × V)         -- initializers, in file order

/-- tensor environment: later bindings shadow earlier ones (Go map assignment) -/
abbrev Env (V : Type) := List (String × Option V)

def Env.find {V : Type} (env : Env V) (name : String) : Option (Option V) := List.lookup name env

/-- `getInputTensorsForNode` -/
def gatherInputs {V : Type} (env : Env V) : List String → Res (List (Option V))
  | [] => .ok []
  | n :: rest =>
    if n = "" then (gatherInputs env rest).map (none :: ·)
    else match env.find n with
      | none => .error .model
      | some v => (gatherInputs env rest).map (v :: ·)

/-- `setOutputTensorsOfNode`: results are bound to the output names by position -/
def bindOutputs {V : Type} (env : Env V) (names : List String) (outs : List (Option V)) : Res (Env V) :=
  if names.length ≠ outs.length then .error .model
  else .ok ((names.zip outs).reverse ++ env)

/-- the node loop. `sem i ins` is operator `i` of the graph applied to its gathered inputs
(GetOperator + Init + ValidateInputs + Apply). -/
def runNodes {V : Type} (sem : Nat → List (Option V) → Res (List (Option V))) :
    Nat → List GNode → Env V → Res (Env V)
  | _, [], env => .ok env
  | i, n :: rest, env =>
    match gatherInputs env n.ins with
    | .error e => .error e
    | .ok ins =>
      match sem i ins with
      | .error e => .error e
      | .ok outs =>
        match bindOutputs env n.outs outs with
        | .error e => .error e
        | .ok env' => runNodes sem (i+1) rest env'

/-- every declared output must have a (non-nil) tensor -/
def collectOutputs {V : Type} (env : Env V) : List String → Res (List (String × V))
  | [] => .ok []
  | o :: rest =>
    match env.find o with
    | some (some v) => (collectOutputs env rest).map ((o, v) :: ·)
    | _ => .error .model

/-- `Model.Run` -/
def run {V : Type} (shapeOf : V → List Nat) (sem : Nat → List (Option V) → Res (List (Option V)))
    (g : Graph V) (ins : List (String × V)) : Res (List (String × V)) :=
  match validateShapes g.decls (g.inits.map (·.1)) (ins.map fun (n, v) => (n, shapeOf v)) with
  | .error e => .error e
  | .ok () =>
    -- parameters first, then the caller's tensors (which therefore win)
    let env0 : Env V := (ins.map fun (n, v) => (n, some v)).reverse ++ (g.inits.map fun (n, v) => (n, some v)).reverse
    match runNodes sem 0 g.nodes env0 with
    | .error e => .error e
    | .ok env => collectOutputs env g.outputs

end Gonnx
