import Gonnx.Graph.Decode
/-
Model of `NewModel` (model.go), `GraphProto.Params` (onnx/graph_proto.go) and
`ResolveOperatorGetter` (opset.go), over an abstract ModelProto: everything `proto.Unmarshal` can
hand over (absent graph, no opset imports, any initializers).
-/
namespace Gonnx

structure ModelProtoM where
  hasGraph : Bool := true
  initializers : List TensorProtoM := []
  opsetVersions : List Int := []          -- versions of all opset imports, any domain
deriving Repr

/-- `Params`: every initializer is decoded; the first failure is returned -/
def decodeParams : List TensorProtoM → Res (List Decoded)
  | [] => .ok []
  | tp :: rest =>
    match decode tp with
    | .error e => .error e
    | .ok d => match decodeParams rest with
      | .error e => .error e
      | .ok ds => .ok (d :: ds)

/-- the opset the model asks for: the highest imported version (0 when there is no import) -/
def opsetOf (versions : List Int) : Int := versions.foldl (fun acc v => if v > acc then v else acc) 0

/-- `NewModel`: parameters first, then the opset lookup -/
def newModel (supported : List Int) (mp : ModelProtoM) : Res (List Decoded × Int) :=
  match decodeParams (if mp.hasGraph then mp.initializers else []) with
  | .error e => .error e
  | .ok ps =>
    let v := opsetOf mp.opsetVersions
    if supported.contains v then .ok (ps, v) else .error .unsupportedOpset

end Gonnx
