import Gonnx.Graph.Run
/-
Effect layer for C02 / C17: `Run` over a store of objects with identity. An operator application
returns, besides values, *which objects it wrote* and which results are the very object of an input
(Concat with one input, Expand with nothing to do, …). Data is never written through an input
anywhere in gonnx (every `WithReuse` / `SetAt` target is freshly allocated), so in-place header
mutations (`Reshape` on an input, writing through `Shape()`) and aliasing are the whole effect
vocabulary; after the `fix:` commits every operator is write-free (`HeaderPure`).
-/
namespace Gonnx

abbrev ObjId := Nat

/-- a result of an operator: a fresh object, or the object passed as input `k` -/
inductive OutRef (V : Type) where
  | fresh (v : V)
  | alias (k : Nat)
  | nil                       -- a nil tensor in the result list

/-- what one operator application does -/
structure OpEff (V : Type) where
  outs : List (OutRef V)
  writes : List (Nat × V)     -- (input position, new value of that input's object)

/-- the store: object `i` has value `objs[i]`; allocation appends -/
structure Store (V : Type) where
  objs : List V

def Store.get {V : Type} (σ : Store V) (i : ObjId) : Option V := σ.objs[i]?

def Store.alloc {V : Type} (σ : Store V) (v : V) : Store V × ObjId := (⟨σ.objs ++ [v]⟩, σ.objs.length)

def Store.write {V : Type} (σ : Store V) (i : ObjId) (v : V) : Store V := ⟨σ.objs.set i v⟩

/-- environment of a Run over object identities -/
abbrev EnvS := List (String × Option ObjId)

def gatherIds (env : EnvS) : List String → Res (List (Option ObjId))
  | [] => .ok []
  | n :: rest =>
    if n = "" then (gatherIds env rest).map (none :: ·)
    else match List.lookup n env with
      | none => .error .model
      | some v => (gatherIds env rest).map (v :: ·)

/-- apply the effects of one operator application to the store and produce the result objects -/
def applyEff {V : Type} (σ : Store V) (inIds : List (Option ObjId)) (eff : OpEff V) : Store V × List (Option ObjId) :=
  let σ1 := eff.writes.foldl (fun s (w : Nat × V) => match inIds.getD w.1 none with
    | some id => s.write id w.2
    | none => s) σ
  eff.outs.foldl (fun (acc : Store V × List (Option ObjId)) o =>
    match o with
    | .fresh v => let (s', id) := acc.1.alloc v; (s', acc.2 ++ [some id])
    | .alias k => (acc.1, acc.2 ++ [inIds.getD k none])
    | .nil => (acc.1, acc.2 ++ [none])) (σ1, [])

/-- the node loop over the store. `sem i vals` sees the current values of the input objects. -/
def runNodesS {V : Type} (sem : Nat → List (Option V) → Res (OpEff V)) :
    Nat → List GNode → Store V → EnvS → Store V × Res EnvS
  | _, [], σ, env => (σ, .ok env)
  | i, n :: rest, σ, env =>
    match gatherIds env n.ins with
    | .error e => (σ, .error e)
    | .ok ids =>
      let vals := ids.map fun o => o.bind σ.get
      match sem i vals with
      | .error e => (σ, .error e)
      | .ok eff =>
        let (σ', outIds) := applyEff σ ids eff
        if n.outs.length ≠ outIds.length then (σ', .error .model)
        else runNodesS sem (i+1) rest σ' ((n.outs.zip outIds).reverse ++ env)

/-- one Run on a Model whose parameters live in the store at `params`, with caller tensors `ins`
(object ids): returns the new store and the declared outputs as object ids -/
def runS {V : Type} (sem : Nat → List (Option V) → Res (OpEff V)) (nodes : List GNode) (outputs : List String)
    (σ : Store V) (params ins : List (String × ObjId)) : Store V × Res (List (String × ObjId)) :=
  let env0 : EnvS := (ins.map fun (n, i) => (n, some i)).reverse ++ (params.map fun (n, i) => (n, some i)).reverse
  match runNodesS sem 0 nodes σ env0 with
  | (σ', .error e) => (σ', .error e)
  | (σ', .ok env) =>
    let outs := outputs.mapM fun o => match List.lookup o env with
      | some (some id) => some (o, id)
      | _ => none
    match outs with
    | some l => (σ', .ok l)
    | none => (σ', .error .model)

/-- an operator semantics that never writes to its inputs -/
def HeaderPure {V : Type} (sem : Nat → List (Option V) → Res (OpEff V)) : Prop :=
  ∀ i vals eff, sem i vals = .ok eff → eff.writes = []

/-- values of a list of named objects -/
def derefAll {V : Type} (σ : Store V) (l : List (String × ObjId)) : List (String × Option V) :=
  l.map fun (n, i) => (n, σ.get i)

/-- a history: a list of calls, each naming its input objects; run them one after the other on the
same store (the Model's parameters stay at the same object ids) -/
def runSeqS {V : Type} (sem : Nat → List (Option V) → Res (OpEff V)) (nodes : List GNode) (outputs : List String)
    (params : List (String × ObjId)) : Store V → List (List (String × ObjId)) → Store V × List (Res (List (String × Option V)))
  | σ, [] => (σ, [])
  | σ, call :: rest =>
    let (σ', r) := runS sem nodes outputs σ params call
    let here : Res (List (String × Option V)) := r.map (derefAll σ')
    let (σ'', rs) := runSeqS sem nodes outputs params σ' rest
    (σ'', here :: rs)

end Gonnx
