import Gonnx.Core
/-
Model of ops/validate_inputs.go (`ValidateInputs`, `checkNInputs`, `padInputs`,
`checkInputTypes`), of the Concat and PRelu overrides, and of the registry lookup.
Everything is at the level of element types: the gate never looks at values.
-/
namespace Gonnx

/-- `ops.AllTypes` plus `other` for anything else gorgonia may carry. -/
inductive DType
  | u8 | u16 | u32 | u64 | i8 | i16 | i32 | i64 | f32 | f64 | c64 | c128 | str | bool | other
deriving Repr, BEq, DecidableEq, Inhabited

def DType.all : List DType :=
  [.u8, .u16, .u32, .u64, .i8, .i16, .i32, .i64, .f32, .f64, .c64, .c128, .str, .bool]

/-- Error identities the properties talk about. Messages are never modelled. -/
inductive Err
  | inputCount | inputType | inputUnsupported | inputInvalid | attr | broadcast
  | shape | axis | cast | conversion | activation | invalidTensor | model
  | unsupportedOp | unsupportedOpset | invalidType | gorgonia | other
  | panic   -- a Go panic is an explicit outcome of the model
  | unmodelled   -- a corner of third-party behaviour the model deliberately does not describe
deriving Repr, BEq, DecidableEq, Inhabited

abbrev Res := Except Err

instance instDecEqExcept {ε α : Type} [DecidableEq ε] [DecidableEq α] : DecidableEq (Except ε α)
  | .ok a, .ok b => if h : a = b then isTrue (by rw [h]) else isFalse (by intro h'; cases h'; exact h rfl)
  | .error a, .error b => if h : a = b then isTrue (by rw [h]) else isFalse (by intro h'; cases h'; exact h rfl)
  | .ok _, .error _ => isFalse (by intro h; cases h)
  | .error _, .ok _ => isFalse (by intro h; cases h)

def Res.isOk {α : Type} : Res α → Bool
  | .ok _ => true
  | .error _ => false

/-- What the gate reads from an operator. -/
structure OpDesc where
  name : String
  str : String := ""
  min : Nat
  max : Nat
  constraints : List (List DType)
deriving Repr, DecidableEq

/-- `checkNInputs`: returns the pad length. -/
def checkNInputs (d : OpDesc) (n : Nat) : Res Nat :=
  if d.min = d.max then
    if n ≠ d.min then .error .inputCount else .ok d.min
  else
    if n < d.min ∨ n > d.max then .error .inputCount else .ok d.max

/-- `padInputs`: append `nil` until the list has `len` entries (never truncates). -/
def padInputs {τ : Type} (ins : List (Option τ)) (len : Nat) : List (Option τ) :=
  ins ++ List.replicate (len - ins.length) none

/-- `checkInputTypes`, position by position. `typeConstraints[i]` on a list that is too
short is a Go index-out-of-range panic; it is only reached for a non-nil input. -/
def checkTypesFrom (cons : List (List DType)) : Nat → List (Option DType) → Res Unit
  | _, [] => .ok ()
  | i, none :: rest => checkTypesFrom cons (i+1) rest
  | i, some t :: rest =>
    match cons[i]? with
    | none => .error .panic
    | some allowed => if allowed.contains t then checkTypesFrom cons (i+1) rest else .error .inputType

def checkInputTypes (d : OpDesc) (ins : List (Option DType)) : Res Unit :=
  checkTypesFrom d.constraints 0 ins

/-- `ops.ValidateInputs`. -/
def validateInputs (d : OpDesc) (ins : List (Option DType)) : Res (List (Option DType)) :=
  match checkNInputs d ins.length with
  | .error e => .error e
  | .ok padLength =>
    match checkInputTypes d (padInputs ins padLength) with
    | .error e => .error e
    | .ok () => .ok (padInputs ins padLength)

/-- `Concat.ValidateInputs`: the descriptor is rebuilt from the call. -/
def concatDesc (n : Nat) : OpDesc :=
  { name := "Concat", str := "concat operator", min := 1, max := n,
    constraints := List.replicate n DType.all }

/-- `PRelu.ValidateInputs`: the generic gate, then slope and x must share the element type.
A nil tensor at one of the two (required) positions is a nil dereference in Go. -/
def preluValidate (d : OpDesc) (ins : List (Option DType)) : Res (List (Option DType)) :=
  match validateInputs d ins with
  | .error e => .error e
  | .ok r =>
    match r[0]?, r[1]? with
    | some (some x), some (some s) => if x = s then .ok r else .error .invalidTensor
    | _, _ => .error .panic

/-- The gate of operator `name` as the registry `reg` defines it. -/
def gate (reg : List OpDesc) (name : String) (ins : List (Option DType)) :
    Res (List (Option DType)) :=
  match reg.find? (·.name = name) with
  | none => .error .unsupportedOp
  | some d =>
    if name = "Concat" then validateInputs (concatDesc ins.length) ins
    else if name = "PRelu" then preluValidate d ins
    else validateInputs d ins

/-- registry lookup (`GetOperator`) -/
def lookup (reg : List OpDesc) (name : String) : Res OpDesc :=
  match reg.find? (·.name = name) with
  | none => .error .unsupportedOp
  | some d => .ok d

end Gonnx
