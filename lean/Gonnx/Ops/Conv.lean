import Gonnx.Ops.MatMul
/-
Model of ops/opset13/conv.go (after the `fix:` commits for the width loop bound, the auto_pad
input dimension and the in-place reshape of the bias).
Spatial quantities are lists over the spatial axes (1 entry for 1-D, 2 for 2-D convolution).
-/
namespace Gonnx
variable {α : Type}

/-- the attribute state of the operator after `Init` -/
structure ConvAttrs where
  autoPad : String := "NOTSET"
  dilations : List Nat := []
  kernelShape : List Nat := []
  pads : List Int := []
  strides : List Nat := []
deriving Repr, DecidableEq

/-- `getDilatedKernel`: extent `k + (k-1)(d-1)`; the old taps land on multiples of the dilation,
every other cell of the zeroed tensor stays zero -/
def dilatedKernel [Inhabited α] (zero : α) (w : Tensor α) (dil : List Nat) : Tensor α :=
  let newShape := w.shape.take 2 ++ List.zipWith (fun k d => k + (k - 1) * (d - 1)) (w.shape.drop 2) dil
  ofFn newShape fun idx =>
    let sp := idx.drop 2
    if (List.zipWith (fun i d => i % d) sp dil).all (· = 0) then
      w.get (idx.take 2 ++ List.zipWith (fun i d => i / d) sp dil)
    else zero

/-- `setPaddingWithAutoPad` for any mode other than NOTSET (VALID is not distinguished from
SAME_UPPER): begin/end pads per spatial axis, from the input extent, the stride and the (dilated)
kernel extent. Go's `/` truncates toward zero. -/
def autoPads (mode : String) (inDims strides kernel : List Nat) : List Int :=
  let per := List.zipWith (fun (ds : Nat × Nat) (k : Nat) =>
    let d : Int := ds.1
    let s : Int := ds.2
    let target := Int.tdiv (d + s - 1) s
    let need := (target - 1) * s + (k : Int) - d
    let head := if mode = "SAME_LOWER" then Int.tdiv (need + 1) 2 else Int.tdiv need 2
    (head, need - head)) (inDims.zip strides) kernel
  per.map (·.1) ++ per.map (·.2)

/-- `getOutputShape` for one spatial axis: `((in - k + pb + pe) / s) + 1` with Go's truncating division -/
def convOutDim (inD k : Nat) (pb pe : Int) (s : Nat) : Int :=
  Int.tdiv ((inD : Int) - k + pb + pe) s + 1

/-- `padInput`: zeros before / after each spatial axis -/
def padInput [Inhabited α] (zero : α) (x : Tensor α) (pb pe : List Nat) : Tensor α :=
  let newShape := x.shape.take 2 ++ List.zipWith (fun (d : Nat) (p : Nat × Nat) => p.1 + d + p.2) (x.shape.drop 2) (pb.zip pe)
  ofFn newShape fun idx =>
    let sp := idx.drop 2
    let inside := (List.zipWith (fun (i : Nat) (dp : Nat × Nat) => decide (dp.2 ≤ i ∧ i < dp.2 + dp.1)) sp ((x.shape.drop 2).zip pb)).all id
    if inside then x.get (idx.take 2 ++ List.zipWith (fun i p => i - p) sp pb) else zero

/-- one output cell: `getSubImage` (batch position, all channels, a window of the dilated kernel's
extent per spatial axis — through gorgonia's slicing, which drops sliced axes of extent 1),
`UnidirectionalBroadcast` against the kernel of output channel `m`, elementwise product, sum -/
def convCell [Inhabited α] (A : Arith α) (px kern : Tensor α) (b m : Nat) (starts : List Nat) : Res α :=
  let kshape := kern.shape.drop 2
  let sl : List (Option Sl) :=
    [some ⟨b, b + 1, 1⟩, none] ++ List.zipWith (fun (st k : Nat) => some (⟨st, st + k, 1⟩ : Sl)) starts kshape
  match gSlice px sl, gSlice kern [some ⟨m, m + 1, 1⟩] with
  | .ok sub, .ok sk =>
    (match unidirBroadcast sub sk with
    | .ok (a, k') =>
      (match zipSame A.mul a k' with
      | .ok p => .ok (p.data.foldl A.add A.zero)
      | .error e => .error e)
    | .error e => .error e)
  | .error e, _ => .error e
  | _, .error e => .error e

/-- `Conv.Apply` -/
def convOp [Inhabited α] (A : Arith α) (at0 : ConvAttrs) (x w : Tensor α) (bias : Option (Tensor α)) : Res (Tensor α) :=
  let ns := x.shape.length - 2
  if x.shape.length ≠ 3 ∧ x.shape.length ≠ 4 then
    if x.shape.length < 2 then .error .panic else .error .inputInvalid
  else
    let dil := if at0.dilations.isEmpty then List.replicate ns 1 else at0.dilations
    let strides := if at0.strides.isEmpty then List.replicate ns 1 else at0.strides
    let pads0 : List Int := if at0.pads.isEmpty then List.replicate (2 * ns) 0 else at0.pads
    if dil.length ≠ ns ∨ strides.length ≠ ns ∨ pads0.length ≠ 2 * ns ∨ w.shape.length ≠ x.shape.length ∨ strides.any (· = 0) ∨ dil.any (· = 0)
    then .error .unmodelled      -- attribute lists of the wrong length / zero strides: index panics or division by zero, not modelled
    else
      let kern := dilatedKernel A.zero w dil
      let kshape := kern.shape.drop 2
      let inDims := x.shape.drop 2
      let pads : List Int := if at0.autoPad ≠ "NOTSET" then autoPads at0.autoPad inDims strides kshape else pads0
      if pads.any (· < 0) then .error .panic               -- negative padding (auto_pad with kernel < stride): `tensor.NewDense` panics on a negative dimension
      else
        let pb := (pads.take ns).map Int.toNat
        let pe := (pads.drop ns).map Int.toNat
        let outSp := (List.range ns).map fun i => convOutDim (dim inDims i) (dim kshape i) (pb.getD i 0) (pe.getD i 0) (dim strides i)
        if outSp.any (· < 0) then .error .panic             -- kernel larger than the padded input: negative output dimension
        else if outSp.any (· = 0) then .error .unmodelled
        else
          let outSp := outSp.map Int.toNat
          let px := padInput A.zero x pb pe
          let outShape := [dim x.shape 0, dim w.shape 0] ++ outSp
          -- every visited cell has the same shapes, so the first cell decides whether the loops fail
          match convCell A px kern 0 0 (List.replicate ns 0) with
          | .error e => .error e
          | .ok _ =>
            let out := ofFn outShape fun idx =>
              let o := idx.drop 2
              -- loop bounds: `for h := 0; h < paddedDim; h += stride` with output index h / stride
              let reached := (List.range ns).all fun i => o.getD i 0 * dim strides i < dim px.shape (2 + i)
              if reached then
                match convCell A px kern (idx.getD 0 0) (idx.getD 1 0) (List.zipWith (· * ·) o strides) with
                | .ok v => v
                | .error _ => A.zero
              else A.zero
            match bias with
            | none => .ok out
            | some bvec =>
              -- `addBias`: the (cloned) bias is reshaped to (1, M, 1[, 1]) and unidirectionally broadcast
              if bvec.shape.length = 0 then .error .panic
              else
                let bshape := [1, dim bvec.shape 0] ++ List.replicate ns 1
                if prod bshape ≠ prod bvec.shape then .error .shape
                else match unidirBroadcast out { bvec with shape := bshape } with
                  | .error e => .error e
                  | .ok (o', b') => zipSame A.add o' b'

end Gonnx
