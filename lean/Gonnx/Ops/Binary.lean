import Gonnx.Broadcast
/-
Model of ops/binary_op.go: `ApplyBinaryOperation` and the boolean coordinate-iterator path.
-/
namespace Gonnx
variable {α β : Type}

inductive BroadcastType | none | uni | multi
deriving Repr, DecidableEq

/-- `ApplyBinaryOperation` with a total scalar kernel -/
def applyBinary [Inhabited α] (f : α → α → β) (bt : BroadcastType) (A B : Tensor α) : Res (Tensor β) :=
  match bt with
  | .none => zipSame f A B
  | .uni => match unidirBroadcast A B with
    | .error e => .error e
    | .ok (A', B') => zipSame f A' B'
  | .multi => match multidirBroadcast A B with
    | .error e => .error e
    | .ok (A', B') => zipSame f A' B'

/-- `ApplyBinaryOperation` with a fallible scalar kernel (integer ÷ 0) -/
def applyBinaryM [Inhabited α] (f : α → α → Option β) (A B : Tensor α) : Res (Tensor β) :=
  match multidirBroadcast A B with
  | .error e => .error e
  | .ok (A', B') => zipSameM f A' B'

/-- `applyBooleanBinaryOperator`: broadcast (again), allocate a zeroed output of A's shape and fill
it cell by cell through the coordinate iterator. Closed form of the loop: every coordinate of the
output is visited exactly once. -/
def applyBoolean [Inhabited α] (f : α → α → α) (A B : Tensor α) : Res (Tensor α) :=
  match multidirBroadcast A B with
  | .error e => .error e
  | .ok (A', B') => .ok (ofFn A'.shape fun idx => f (A'.get idx) (B'.get idx))

/-- And/Or/Xor as called by the operators: `ApplyBinaryOperation` broadcasts, then the kernel
broadcasts once more (a no-op on equal shapes). -/
def applyBooleanOp [Inhabited α] (f : α → α → α) (A B : Tensor α) : Res (Tensor α) :=
  match multidirBroadcast A B with
  | .error e => .error e
  | .ok (A', B') => applyBoolean f A' B'

end Gonnx
