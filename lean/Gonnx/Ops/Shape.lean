import Gonnx.Kernel
/-
Models of ops/opset13/{reshape,flatten,squeeze,unsqueeze,shape}.go and the helpers of ops/utils.go
they use. Shapes requested by the caller are `Int`s (they may be negative or zero).
-/
namespace Gonnx
variable {α : Type}

def iprod : List Int → Int
  | [] => 1
  | d :: s => d * iprod s

/-- gorgonia `Reshape(dims...)` on a clone: the (signed) product of the requested dimensions is
compared with the element count first (error); then a negative dimension panics in `setShape`;
otherwise only the header changes — the data list is untouched. -/
def gReshape (t : Tensor α) (s : List Int) : Res (Tensor α) :=
  if iprod s ≠ (prod t.shape : Int) then .error .shape
  else if s.any (· < 0) then .error .panic
  else .ok { t with shape := s.map Int.toNat }

/-- first loop of `processShape`: a 0 entry copies the input dimension at the same position -/
def copyZeros (cur : List Nat) : Nat → List Int → Res (List Int)
  | _, [] => .ok []
  | i, d :: rest =>
    if d = 0 then
      match cur[i]? with
      | none => .error .shape
      | some c => match copyZeros cur (i+1) rest with
        | .ok r => .ok ((c : Int) :: r)
        | .error e => .error e
    else match copyZeros cur (i+1) rest with
      | .ok r => .ok (d :: r)
      | .error e => .error e

/-- Go's truncating integer division; dividing by zero panics -/
def goDiv (a b : Int) : Res Int := if b = 0 then .error .panic else .ok (Int.tdiv a b)

/-- `remainingSize /= newShape[j]` for every j ≠ i; another -1 is an error -/
def divideOthers (i : Nat) : Nat → List Int → Int → Res Int
  | _, [], acc => .ok acc
  | j, d :: rest, acc =>
    if j = i then divideOthers i (j+1) rest acc
    else if d = -1 then .error .shape
    else match goDiv acc d with
      | .error e => .error e
      | .ok q => divideOthers i (j+1) rest q

/-- second loop of `processShape`: the first -1 is inferred, then `break` -/
def inferMinusOne (total : Nat) (s : List Int) : Res (List Int) :=
  match s.findIdx? (· = -1) with
  | none => .ok s
  | some i => match divideOthers i 0 s (total : Int) with
    | .error e => .error e
    | .ok r => .ok (s.set i r)

def processShape (newShape : List Int) (cur : List Nat) : Res (List Int) :=
  match copyZeros cur 0 newShape with
  | .error e => .error e
  | .ok s => inferMinusOne (prod cur) s

/-- `Reshape.Apply`. `shapeT` is the second input (an int64 tensor): `Data().([]int64)` panics when
it is a scalar tensor. -/
def reshapeOp (t : Tensor α) (shapeT : Tensor Int) : Res (Tensor α) :=
  if shapeT.shape = [] ∨ prod shapeT.shape = 0 then .error .panic   -- `Data()` of a scalar is not a slice; of an empty tensor it panics
  else match processShape shapeT.data t.shape with
    | .error e => .error e
    | .ok s => gReshape t s

/-- `Flatten.Apply`; `inputShape[:axis]` panics when the (normalised) axis is outside [0, rank] -/
def flattenOp (t : Tensor α) (axis : Int) : Res (Tensor α) :=
  let rank : Int := t.shape.length
  let a := if axis < 0 then rank + axis else axis
  if a = 0 then gReshape t [1, (prod t.shape : Int)]
  else if a < 0 ∨ a > rank then .error .panic
  else gReshape t [(prod (t.shape.take a.toNat) : Int), (prod (t.shape.drop a.toNat) : Int)]

/-- `getNewShape`: keep the dimensions whose position is not listed -/
def squeezeShape (cur : List Nat) (dims : List Int) : List Nat :=
  (cur.zipIdx.filter fun (_, i) => !dims.contains (i : Int)).map (·.1)

/-- `Squeeze.Apply`. `axes = none`: all extent-1 dimensions. A scalar axes tensor makes
`AnyToIntSlice` fail with the cast error. Axes are only offset when negative: they are neither
range-checked nor checked for duplicates. -/
def squeezeOp (t : Tensor α) (axes : Option (Tensor Int)) : Res (Tensor α) :=
  let n : Int := t.shape.length
  match axes with
  | none =>
    let dims := (t.shape.zipIdx.filter fun (d, _) => d = 1).map fun (_, i) => (i : Int)
    gReshape t ((squeezeShape t.shape dims).map (fun (d : Nat) => (d : Int)))
  | some a =>
    if prod a.shape = 0 then .error .panic          -- gorgonia's `Data()` panics on an empty tensor
    else if a.shape = [] then .error .cast
    else
      let dims := a.data.map fun v => if v < 0 then n + v else v
      gReshape t ((squeezeShape t.shape dims).map (fun (d : Nat) => (d : Int)))

/-- `insertOnes` (single pass over the output positions); `original[originalIdx]` panics when the
sorted indices run past the end — unreachable after the range and duplicate checks -/
def insertOnes (orig : List Nat) (sortedAxes : List Nat) : Nat → Nat → List Nat
  | 0, _ => []
  | fuel+1, i =>
    match sortedAxes with
    | a :: rest => if a = i then 1 :: insertOnes orig rest fuel (i+1)
      else match orig with
        | [] => []
        | o :: os => o :: insertOnes os sortedAxes fuel (i+1)
    | [] => match orig with
      | [] => []
      | o :: os => o :: insertOnes os [] fuel (i+1)

def hasDuplicatesSorted : List Int → Bool
  | a :: b :: rest => a == b || hasDuplicatesSorted (b :: rest)
  | _ => false

def insertSorted (x : Int) : List Int → List Int
  | [] => [x]
  | y :: ys => if x ≤ y then x :: y :: ys else y :: insertSorted x ys

def sortInts (l : List Int) : List Int := l.foldr insertSorted []

/-- `Unsqueeze.Apply` -/
def unsqueezeOp (t : Tensor α) (axesT : Tensor Int) : Res (Tensor α) :=
  if prod axesT.shape = 0 then .error .panic
  else if axesT.shape = [] then .error .cast
  else
    let axes := axesT.data
    let outRank : Int := t.shape.length + axes.length
    if !(axes.all fun a => -outRank ≤ a ∧ a ≤ outRank - 1) then .error .axis
    else
      let axes := sortInts (axes.map fun a => if a < 0 then a + outRank else a)
      if hasDuplicatesSorted axes then .error .inputInvalid
      else
        let s := insertOnes t.shape (axes.map Int.toNat) outRank.toNat 0
        gReshape t (s.map (fun (d : Nat) => (d : Int)))

/-- `Shape.Apply`: the dimensions as a 1-D int64 tensor (an empty one for a scalar input). -/
def shapeOp (t : Tensor α) : Res (Tensor Int) :=
  .ok ⟨[t.shape.length], t.shape.map (fun (d : Nat) => (d : Int))⟩

end Gonnx
