import Gonnx.Broadcast
/-
Models of ops/opset13/{transpose,concat,slice,gather,expand}.go.
-/
namespace Gonnx
variable {α : Type}

/-- `Transpose.Apply` -/
def transposeOp [Inhabited α] (t : Tensor α) (perm : List Int) : Res (Tensor α) := gTranspose t perm

/-- `Concat.Apply`: a single input is returned as is; a negative axis is offset by the rank of the
first input -/
def concatOp [Inhabited α] (axis : Int) (ts : List (Tensor α)) : Res (Tensor α) :=
  match ts with
  | [t] => .ok t
  | [] => .error .panic
  | t0 :: _ => gConcat (if axis < 0 then (t0.shape.length : Int) + axis else axis) ts

/-- `constructSlices`: `slices[ax] = NewSlicer(starts[i], ends[i], steps[i])`; an index outside any
of the four lists or outside `[0, rank)` is a Go index-out-of-range panic -/
def constructSlices (rank : Nat) (starts ends steps axes : List Int) : Res (List (Option Sl)) :=
  let rec go (i : Nat) (axs : List Int) (acc : List (Option Sl)) : Res (List (Option Sl)) :=
    match axs with
    | [] => .ok acc
    | ax :: rest =>
      let a := if ax < 0 then (rank : Int) + ax else ax
      match starts[i]?, ends[i]?, steps[i]? with
      | some s, some e, some st =>
        if a < 0 ∨ a ≥ rank then .error .panic
        else go (i+1) rest (acc.set a.toNat (some ⟨s, e, st⟩))
      | _, _, _ => .error .panic
  go 0 axes (List.replicate rank none)

/-- `Slice.Apply` -/
def sliceOp [Inhabited α] (t : Tensor α) (starts ends : List Int) (axes steps : Option (List Int)) : Res (Tensor α) :=
  let axes := axes.getD ((List.range starts.length).map fun (i : Nat) => (i : Int))
  let steps := steps.getD (List.replicate starts.length 1)
  match constructSlices t.shape.length starts ends steps axes with
  | .error e => .error e
  | .ok sl => gSlice t sl

/-- `Gather.Apply`, closed form of the loop over the index tensor: the cell block selected by index
coordinate `j⃗` is copied from position `idx[j⃗]` (negative indices offset) of the gathered axis -/
def gatherOp [Inhabited α] (data : Tensor α) (indices : Tensor Int) (axis : Int) : Res (Tensor α) :=
  let r : Int := data.shape.length
  if axis < -r ∨ axis > r - 1 then .error .axis
  else
    let ax := (if axis < 0 then axis + r else axis).toNat
    let n : Int := dim data.shape ax
    if !(indices.data.all fun k => -n ≤ k ∧ k ≤ n - 1) then .error .axis
    else
      let q := indices.shape.length
      let os := data.shape.take ax ++ indices.shape ++ data.shape.drop (ax + 1)
      .ok (ofFn os fun idx =>
        let k := indices.get ((idx.drop ax).take q)
        let k := if k < 0 then k + n else k
        data.get (idx.take ax ++ [k.toNat] ++ idx.drop (ax + q)))

/-- the repeat loop of `Expand.Apply`: `for axis := len(shape)-1; axis >= 0; axis--`, comparing the
*current* extent with the requested one and calling `tensor.Repeat(input, axis, shape[axis])` when
they differ — whatever the current extent is -/
def expandLoop [Inhabited α] (target : List Int) : Nat → Tensor α → Tensor α
  | 0, t => t
  | k+1, t =>
    let want := target.getD k 0
    if (dim t.shape k : Int) ≠ want then expandLoop target k (repeatAxis t k want.toNat)
    else expandLoop target k t

/-- `Expand.Apply` -/
def expandOp [Inhabited α] (t : Tensor α) (target : List Int) : Res (Tensor α) :=
  let t' := if target.length > t.shape.length then addExtraDims t (target.length - t.shape.length) else t
  .ok (expandLoop target target.length t')

end Gonnx
