import Gonnx.Gate
/-
Fixed-width integer results. The operator models compute on exact (unbounded) integers; Go's int8 …
uint64 arithmetic and conversions keep the low `bits` bits of every intermediate result. `wrapBits`
is that reduction; `Gonnx/Theorems/C03b.lean` proves that reducing once at the end gives the value of
reducing after every single + - * (so the exact model followed by one `wrapTo` is Go's answer).
-/
namespace Gonnx

/-- two's-complement (signed) / modular (unsigned) reduction of an exact integer to `bits` bits -/
def wrapBits (bits : Nat) (signed : Bool) (v : Int) : Int :=
  let m : Int := (2 : Int) ^ bits
  let r := v % m
  if signed && r ≥ m / 2 then r - m else r

/-- reduction to an element type; floats, bool and strings are left alone -/
def wrapTo (dt : DType) (v : Int) : Int :=
  match dt with
  | .i8 => wrapBits 8 true v | .i16 => wrapBits 16 true v | .i32 => wrapBits 32 true v | .i64 => wrapBits 64 true v
  | .u8 => wrapBits 8 false v | .u16 => wrapBits 16 false v | .u32 => wrapBits 32 false v | .u64 => wrapBits 64 false v
  | _ => v

/-- round an exact integer to `p` significant bits, ties to even: the value of Go's (IEEE) conversion of
an integer to a binary float with a `p`-bit significand (24: float32, 53: float64), which for every
64-bit integer is again an integer and far below the overflow threshold -/
def roundSig (p : Nat) (v : Int) : Int :=
  let a := v.natAbs
  let bl := if a = 0 then 0 else Nat.log2 a + 1
  if bl ≤ p then v else
    let sh := bl - p
    let q := a / 2 ^ sh
    let r := a % 2 ^ sh
    let half := 2 ^ (sh - 1)
    let q' := if r > half ∨ (r = half ∧ q % 2 = 1) then q + 1 else q
    let res : Int := ((q' * 2 ^ sh : Nat) : Int)
    if v < 0 then -res else res

/-- the number of bits dropped by `roundSig p v` -/
def dropBits (p : Nat) (v : Int) : Nat := (if v.natAbs = 0 then 0 else Nat.log2 v.natAbs + 1) - p

/-- conversion of an exact integer to an element type: integers wrap, floats round to their significand -/
def convTo (dt : DType) (v : Int) : Int :=
  match dt with
  | .f32 => roundSig 24 v
  | .f64 => roundSig 53 v
  | _ => wrapTo dt v

end Gonnx
