import Gonnx.Broadcast
/-
Models of the unary operators (Abs, Relu, Sigmoid, Tanh, the trigonometric family, Not: all are
`map` of a scalar function) and of PRelu (ops/opset13/prelu.go).
-/
namespace Gonnx
variable {α β : Type}

/-- every unary operator: apply the scalar function to each element; shape (and order) untouched -/
def unaryOp (f : α → β) (t : Tensor α) : Tensor β := t.map f

/-- `ops.ReLU`: `X * (X > 0)` with the comparison result in the element type -/
def reluScalar (mul : α → α → α) (gtZero : α → α) (x : α) : α := mul x (gtZero x)

/-- `ops.Sigmoid`: `1 / (1 + exp(-x))` built from the four tensor kernels -/
def sigmoidScalar (neg exp : α → α) (add div : α → α → α) (one : α) (x : α) : α :=
  div one (add one (exp (neg x)))

/-- `PRelu.Apply`: the slope is unidirectionally broadcast to the input, then
`y[i] = if x[i] < 0 then slope[i] * x[i] else x[i]` over the flat data -/
def preluOp [Inhabited α] (lt0 : α → Bool) (mul : α → α → α) (x slope : Tensor α) : Res (Tensor α) :=
  match unidirBroadcast x slope with
  | .error e => .error e
  | .ok (x', s') => .ok ⟨x'.shape, List.zipWith (fun v s => if lt0 v then mul s v else v) x'.data s'.data⟩

end Gonnx
