import Gonnx.Graph.Decode
/-
Models of ops/opset13/{cast,constant_of_shape,constant}.go and ops/convert.go.
-/
namespace Gonnx
variable {α β : Type}

/-- ONNX `to` codes `convertBacking` accepts -/
def castTarget : Int → Option DType
  | 1 => some .f32 | 11 => some .f64 | 3 => some .i8 | 5 => some .i16 | 6 => some .i32 | 7 => some .i64
  | 2 => some .u8 | 4 => some .u16 | 12 => some .u32 | 13 => some .u64 | _ => none

/-- element types `ConvertTensorDtype` can read -/
def castSource : DType → Bool
  | .f32 | .f64 | .i8 | .i16 | .i32 | .i64 | .u8 | .u16 | .u32 | .u64 => true
  | _ => false

/-- `IfScalarToSlice` has no case for the unsigned integer types -/
def scalarToSliceMissing : DType → Bool
  | .u8 | .u16 | .u32 | .u64 => true
  | _ => false

/-- `ConvertTensorDtype`: elementwise Go conversion `R(x)`, shape preserved. For a scalar tensor
`Data()` is not a slice; `IfScalarToSlice` wraps it except for the unsigned types, for which the
type assertion `backing.([]uintN)` panics. -/
def castOp (conv : DType → DType → α → β) (src : DType) (to : Int) (t : Tensor α) : Res (DType × Tensor β) :=
  if t.shape = [] ∧ scalarToSliceMissing src then .error .panic
  else if !castSource src then .error .conversion
  else match castTarget to with
    | none => .error .conversion
    | some tgt => .ok (tgt, t.map (conv src tgt))

/-- `ConstantOfShape.Apply`: every requested extent must be ≥ 1; the result is a zero tensor of the
value's type to which the value is added -/
def constantOfShapeOp (zeroPlus : α → α) (value : α) (shape : List Int) : Res (Tensor α) :=
  if shape.any (· ≤ 0) then .error .invalidTensor
  else
    let s := shape.map Int.toNat
    .ok ⟨s, List.replicate (prod s) (zeroPlus value)⟩

end Gonnx
