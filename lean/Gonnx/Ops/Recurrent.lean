import Gonnx.Ops.MatMul
/-
Models of ops/recurrent_utils.go and ops/opset13/{rnn,gru,lstm}.go (forward direction), after the
`fix:` commits (initial states cloned before the in-place reshape; LSTM results returned by
position; `input_forget = 1` refused).
The activation functions are parameters (`String → Option (α → α)`), the arithmetic is `Arith α`.
-/
namespace Gonnx
variable {α : Type}

/-- `ExtractMatrices(M, n, nDims, hidden)`: block `i` is `M[0, i*hidden:(i+1)*hidden, …]` through
gorgonia's slicing (which drops the direction axis and, when `hidden = 1`, the block axis too) -/
def extractMatrices [Inhabited α] (M : Tensor α) (n nDims hidden : Nat) : Res (List (Tensor α)) :=
  (List.range n).mapM fun i =>
    gSlice M ([some ⟨0, 1, 1⟩, some ⟨(i * hidden : Nat), ((i + 1) * hidden : Nat), 1⟩] ++ List.replicate (nDims - 2) none)

/-- `Gemm{transB: true, alpha: 1, beta: 1}.Apply([x, w, b])` as used by all three operators -/
def gemmT [Inhabited α] (A : Arith α) (one : α) (x w b : Tensor α) : Res (Tensor α) :=
  gemmOp A one one false true x w (some b)

/-- `X.Slice(NewSlicer(t, t+1), nil, nil)` -/
def timeSlice [Inhabited α] (X : Tensor α) (t : Nat) : Res (Tensor α) :=
  gSlice X [some ⟨(t : Nat), (t + 1 : Nat), 1⟩, none, none]

/-- a tensor of zeros (`ops.ZeroTensor`) -/
def zeroTensor (zero : α) (s : List Nat) : Tensor α := ⟨s, List.replicate (prod s) zero⟩

/-- drop the direction axis of an initial state: `Reshape(Shape()[1:]...)` on a clone -/
def dropDir (t : Tensor α) : Res (Tensor α) :=
  match t.shape with
  | [] => .error .panic
  | _ :: rest => if prod rest = prod t.shape then .ok { t with shape := rest } else .error .shape

/-- the per-step loop shared by the three operators: thread the state through the time steps,
collect the hidden outputs -/
def runSteps {σ : Type} (step : σ → Tensor α → Res (σ × Tensor α)) : σ → List (Tensor α) → Res (σ × List (Tensor α))
  | s, [] => .ok (s, [])
  | s, x :: xs =>
    match step s x with
    | .error e => .error e
    | .ok (s', h) =>
      match runSteps step s' xs with
      | .error e => .error e
      | .ok (s'', hs) => .ok (s'', h :: hs)

/-- `Y`: the per-step outputs concatenated along axis 0 and reshaped to (seq, 1, batch, hidden) -/
def stackY [Inhabited α] (outs : List (Tensor α)) (seq batch hidden : Nat) : Res (Tensor α) :=
  let y : Res (Tensor α) := match outs with
    | [o] => .ok o
    | _ => gConcat 0 outs
  match y with
  | .error e => .error e
  | .ok y => if prod [seq, 1, batch, hidden] = prod y.shape then .ok { y with shape := [seq, 1, batch, hidden] } else .error .shape

def finalState (h : Tensor α) (batch hidden : Nat) : Res (Tensor α) :=
  if prod [1, batch, hidden] = prod h.shape then .ok { h with shape := [1, batch, hidden] } else .error .shape

def zipT [Inhabited α] (f : α → α → α) (a b : Tensor α) : Res (Tensor α) := zipSame f a b

/-- all time slices of X -/
def timeSlices [Inhabited α] (X : Tensor α) : Res (List (Tensor α)) :=
  (List.range (dim X.shape 0)).mapM (timeSlice X)

/-- what the operators read from their node -/
structure RecAttrs where
  hiddenSize : Nat
  activations : List String
  linearBeforeReset : Bool := false
deriving Repr

/-- `RNN.Apply`: `H_t = f(X_t·Wᵀ + Wb + H_{t-1}·Rᵀ + Rb)` -/
def rnnOp [Inhabited α] (A : Arith α) (one : α) (getAct : String → Option (α → α)) (at0 : RecAttrs)
    (X W R : Tensor α) (B seqLens H0 : Option (Tensor α)) : Res (Tensor α × Tensor α) := do
  if seqLens.isSome then throw .inputUnsupported
  let seq := dim X.shape 0
  let batch := dim X.shape 1
  let h := at0.hiddenSize
  let Wi ← (extractMatrices W 1 3 h).map (·.headD ⟨[], []⟩)
  let Ri ← (extractMatrices R 1 3 h).map (·.headD ⟨[], []⟩)
  let Bt := B.getD (zeroTensor A.zero [1, 2 * h])
  let bs ← extractMatrices Bt 2 2 h
  let Wb := bs.getD 0 ⟨[], []⟩
  let Rb := bs.getD 1 ⟨[], []⟩
  let H ← dropDir (H0.getD (zeroTensor A.zero [1, batch, h]))
  let f ← match at0.activations[0]? with
    | none => throw .panic
    | some n => match getAct n with
      | none => throw .activation
      | some f => pure f
  let xs ← timeSlices X
  if xs.isEmpty then throw .panic        -- `outputs[0]` on an empty sequence
  let step (H : Tensor α) (Xt : Tensor α) : Res (Tensor α × Tensor α) := do
    let a ← gemmT A one Xt Wi Wb
    let b ← gemmT A one H Ri Rb
    let s ← zipT A.add a b
    let H' := s.map f
    pure (H', H')
  let (Hn, outs) ← runSteps step H xs
  let Y ← stackY outs seq batch h
  let Yh ← finalState Hn batch h
  pure (Y, Yh)

/-- `GRU.Apply`: gates z, r, h; `linear_before_reset` both ways; `H_t = (1 - z)⊙h̃ + z⊙H_{t-1}` -/
def gruOp [Inhabited α] (A : Arith α) (one : α) (getAct : String → Option (α → α)) (at0 : RecAttrs)
    (X W R : Tensor α) (B seqLens H0 : Option (Tensor α)) : Res (Tensor α × Tensor α) := do
  if seqLens.isSome then throw .inputUnsupported
  let seq := dim X.shape 0
  let batch := dim X.shape 1
  let h := at0.hiddenSize
  let ws ← extractMatrices W 3 3 h
  let rs ← extractMatrices R 3 3 h
  let e : Tensor α := ⟨[], []⟩
  let Bt := B.getD (zeroTensor A.zero [1, 6 * h])
  let bs ← extractMatrices Bt 6 2 h
  let H ← dropDir (H0.getD (zeroTensor A.zero [1, batch, h]))
  let f ← match at0.activations[0]? with
    | none => throw .panic
    | some n => match getAct n with | none => throw .activation | some f => pure f
  let g ← match at0.activations[1]? with
    | none => throw .panic
    | some n => match getAct n with | none => throw .activation | some f => pure f
  let xs ← timeSlices X
  if xs.isEmpty then throw .panic
  let gate (Xt Hh Wx Rx Wbx Rbx : Tensor α) (act : α → α) : Res (Tensor α) := do
    let a ← gemmT A one Xt Wx Wbx
    let b ← gemmT A one Hh Rx Rbx
    let s ← zipT A.add a b
    pure (s.map act)
  let step (H : Tensor α) (Xt : Tensor α) : Res (Tensor α × Tensor α) := do
    let z ← gate Xt H (ws.getD 0 e) (rs.getD 0 e) (bs.getD 0 e) (bs.getD 3 e) f
    let r ← gate Xt H (ws.getD 1 e) (rs.getD 1 e) (bs.getD 1 e) (bs.getD 4 e) f
    let ht ←
      if !at0.linearBeforeReset then do
        let rh ← zipT A.mul r H
        gate Xt rh (ws.getD 2 e) (rs.getD 2 e) (bs.getD 2 e) (bs.getD 5 e) g
      else do
        let a ← gemmT A one Xt (ws.getD 2 e) (bs.getD 2 e)
        let b ← gemmT A one H (rs.getD 2 e) (bs.getD 5 e)
        let t1 ← zipT A.mul b r
        let t2 ← zipT A.add t1 a
        pure (t2.map g)
    let omz ← zipT A.sub (z.map fun _ => one) z
    let t2 ← zipT A.mul omz ht
    let t3 ← zipT A.mul z H
    let H' ← zipT A.add t2 t3
    pure (H', H')
  let (Hn, outs) ← runSteps step H xs
  let Y ← stackY outs seq batch h
  let Yh ← finalState Hn batch h
  pure (Y, Yh)

/-- `LSTM.Apply`: gate order i, o, f, c; peepholes i, o, f (the output gate sees the new cell state) -/
def lstmOp [Inhabited α] (A : Arith α) (one : α) (getAct : String → Option (α → α)) (at0 : RecAttrs)
    (X W R : Tensor α) (B seqLens H0 C0 P : Option (Tensor α)) : Res (Tensor α × Tensor α × Tensor α) := do
  if seqLens.isSome then throw .inputUnsupported
  let seq := dim X.shape 0
  let batch := dim X.shape 1
  let h := at0.hiddenSize
  let ws ← extractMatrices W 4 3 h
  let rs ← extractMatrices R 4 3 h
  let e : Tensor α := ⟨[], []⟩
  let Bt := B.getD (zeroTensor A.zero [1, 8 * h])
  let bs ← extractMatrices Bt 8 2 h
  let H0' := H0.getD (zeroTensor A.zero [1, batch, h])
  let C0' := C0.getD (zeroTensor A.zero [1, batch, h])
  let ps ← match P with
    | none => pure none
    | some p => (extractMatrices p 3 2 h).map some
  let H ← dropDir H0'
  let C ← dropDir C0'
  let f ← match at0.activations[0]? with
    | none => throw .panic
    | some n => match getAct n with | none => throw .activation | some f => pure f
  let g ← match at0.activations[1]? with
    | none => throw .panic
    | some n => match getAct n with | none => throw .activation | some f => pure f
  let hAct ← match at0.activations[2]? with
    | none => throw .panic
    | some n => match getAct n with | none => throw .activation | some f => pure f
  let xs ← timeSlices X
  if xs.isEmpty then throw .panic
  let gate (Xt Hh Wx Wbx Rx Rbx : Tensor α) (peep : Option (Tensor α × Tensor α)) (act : α → α) : Res (Tensor α) := do
    let a ← gemmT A one Xt Wx Wbx
    let b ← gemmT A one Hh Rx Rbx
    let s ← zipT A.add a b
    let s ← match peep with
      | none => pure s
      | some (p, c) => do
        let (c', p') ← unidirBroadcast c p
        let pa ← zipT A.mul p' c'
        zipT A.add s pa
    pure (s.map act)
  let step (st : Tensor α × Tensor α) (Xt : Tensor α) : Res ((Tensor α × Tensor α) × Tensor α) := do
    let (H, C) := st
    let pk (i : Nat) (c : Tensor α) : Option (Tensor α × Tensor α) := ps.map fun l => (l.getD i e, c)
    let it ← gate Xt H (ws.getD 0 e) (bs.getD 0 e) (rs.getD 0 e) (bs.getD 4 e) (pk 0 C) f
    let ft ← gate Xt H (ws.getD 2 e) (bs.getD 2 e) (rs.getD 2 e) (bs.getD 6 e) (pk 2 C) f
    let ct ← gate Xt H (ws.getD 3 e) (bs.getD 3 e) (rs.getD 3 e) (bs.getD 7 e) none g
    let cf ← zipT A.mul ft C
    let ci ← zipT A.mul it ct
    let C' ← zipT A.add cf ci
    let ot ← gate Xt H (ws.getD 1 e) (bs.getD 1 e) (rs.getD 1 e) (bs.getD 5 e) (pk 1 C') f
    let H' ← zipT A.mul ot (C'.map hAct)
    pure ((H', C'), H')
  let ((Hn, Cn), outs) ← runSteps step (H, C) xs
  let Y ← stackY outs seq batch h
  let Yh ← finalState Hn batch h
  let Yc ← finalState Cn batch h
  pure (Y, Yh, Yc)

end Gonnx
