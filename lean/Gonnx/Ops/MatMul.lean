import Gonnx.Ops.Binary
/-
Models of ops/opset13/{matmul,gemm,linear_regressor,scaler}.go.
Sums are `foldl (· + ·) zero` over `List.range k` in index order (no algebraic law is used).
-/
namespace Gonnx
variable {α : Type}

/-- arithmetic the matrix operators need (a parameter: floats, integers, …) -/
structure Arith (α : Type) where
  zero : α
  add : α → α → α
  mul : α → α → α
  sub : α → α → α

/-- fixed-order dot product `Σ_{k<n} f k` -/
def sumRange (A : Arith α) (n : Nat) (f : Nat → α) : α :=
  (List.range n).foldl (fun acc k => A.add acc (f k)) A.zero

/-- `tensor.MatMul` on two matrices: inner dimensions must agree -/
def mm2 [Inhabited α] (A : Arith α) (a b : Tensor α) : Res (Tensor α) :=
  match a.shape, b.shape with
  | [m, k], [k', n] =>
    if k = k' then .ok (ofFn [m, n] fun idx =>
      sumRange A k fun l => A.mul (a.get [idx.getD 0 0, l]) (b.get [l, idx.getD 1 0]))
    else .error .gorgonia
  | _, _ => .error .gorgonia

/-- `broadcastTensors`: the repeat loop of multidirectional broadcasting restricted to the batch axes
(`for axis := len(shapeA) - 3; axis >= 0; axis--`) -/
def broadcastBatch [Inhabited α] (a b : Tensor α) : Res (Tensor α × Tensor α) :=
  let (a', b') := reshapeForMultidir a b
  repeatMulti a'.shape b'.shape (a'.rank - 2) a' b'

/-- `batchedMatMul`, closed form of the odometer loop over the batch index space: every batch index
is visited exactly once (`incrementSlices`), the two matrices at that index are multiplied into the
output slice. gorgonia collapses a slice that selects a single element to a scalar, which
`tensor.MatMul` refuses ("requires both operands to be matrices"): on this path a 1×1 operand
matrix is an error (a 1×1 product is fine). -/
def batchedMatMul [Inhabited α] (A : Arith α) (a b : Tensor α) : Res (Tensor α) :=
  let r := a.shape.length
  let outer := a.shape.take (r - 2)
  let m := dim a.shape (r - 2)
  let k := dim a.shape (r - 1)
  let k' := dim b.shape (r - 2)
  let n := dim b.shape (r - 1)
  if b.shape.take (r - 2) ≠ outer then .error .gorgonia          -- slices of B would not line up (cannot happen after broadcastBatch)
  else if m * k = 1 ∨ k' * n = 1 then .error .gorgonia
  else if k ≠ k' then .error .gorgonia
  else .ok (ofFn (outer ++ [m, n]) fun idx =>
    let bi := idx.take (r - 2)
    let i := idx.getD (r - 2) 0
    let j := idx.getD (r - 1) 0
    sumRange A k fun l => A.mul (a.get (bi ++ [i, l])) (b.get (bi ++ [l, j])))

/-- `MatMul.Apply` (numpy.matmul): rank-2 × rank-2 directly; a rank-1 A is promoted to (1,k), a
rank-1 B to (k,1) and the added axis is removed from the result; batch axes are broadcast. -/
def matmulOp [Inhabited α] (A : Arith α) (a b : Tensor α) : Res (Tensor α) :=
  if a.shape.length = 2 ∧ b.shape.length = 2 then mm2 A a b
  else if a.shape.length = 0 ∨ b.shape.length = 0 then .error .unmodelled
  else
    let pre := a.shape.length = 1
    let app := b.shape.length = 1
    let a1 : Tensor α := if pre then { a with shape := [1, dim a.shape 0] } else a
    let b1 : Tensor α := if app then { b with shape := [dim b.shape 0, 1] } else b
    match broadcastBatch a1 b1 with
    | .error e => .error e
    | .ok (a2, b2) =>
      match batchedMatMul A a2 b2 with
      | .error e => .error e
      | .ok out =>
        let out1 : Tensor α := if pre then { out with shape := out.shape.eraseIdx (out.shape.length - 2) } else out
        let out2 : Tensor α := if app then { out1 with shape := out1.shape.dropLast } else out1
        .ok out2

/-- 2-D transpose (`tensor.Transpose(a)` without axes reverses them) -/
def transpose2 [Inhabited α] (a : Tensor α) : Tensor α :=
  ofFn a.shape.reverse fun idx => a.get idx.reverse

/-- `Gemm.Apply`: `alpha * op(A) op(B) + beta * C`, C unidirectionally broadcast to the product -/
def gemmOp [Inhabited α] (A : Arith α) (alpha beta : α) (transA transB : Bool)
    (a b : Tensor α) (c : Option (Tensor α)) : Res (Tensor α) :=
  let a' := if transA then transpose2 a else a
  let b' := if transB then transpose2 b else b
  match mm2 A a' b' with
  | .error e => .error e
  | .ok x =>
    let x := x.map fun v => A.mul v alpha
    match c with
    | none => .ok x
    | some c =>
      let y := c.map fun v => A.mul v beta
      match unidirBroadcast x y with
      | .error e => .error e
      | .ok (x', y') => zipSame A.add x' y'

/-- `LinearRegressor`: `Init` reshapes the coefficient list to (targets, n/targets) and transposes it;
`Apply` is `X · coefᵀ + intercepts` (intercepts unidirectionally broadcast) -/
def linregOp [Inhabited α] (A : Arith α) (coef intercepts : List α) (targets : Nat) (x : Tensor α) : Res (Tensor α) :=
  if targets = 0 then .error .panic                       -- integer division by zero in Init
  else
    let nf := coef.length / targets
    if targets * nf ≠ coef.length then .error .shape
    else
      let w : Tensor α := transpose2 ⟨[targets, nf], coef⟩
      match mm2 A x w with
      | .error e => .error e
      | .ok r =>
        match unidirBroadcast r ⟨[intercepts.length], intercepts⟩ with
        | .error e => .error e
        | .ok (r', i') => zipSame A.add r' i'

/-- `Scaler`: `(X - offset) * scale`, both unidirectionally broadcast to X -/
def scalerOp [Inhabited α] (A : Arith α) (offset scale : List α) (x : Tensor α) : Res (Tensor α) :=
  match unidirBroadcast x ⟨[offset.length], offset⟩ with
  | .error e => .error e
  | .ok (x1, o) =>
    match zipSame A.sub x1 o with
    | .error e => .error e
    | .ok x2 =>
      match unidirBroadcast x2 ⟨[scale.length], scale⟩ with
      | .error e => .error e
      | .ok (x3, s) => zipSame A.mul x3 s

end Gonnx

namespace Gonnx

/-- `incrementSlices`, literally: walk the digits from the last to the first; a digit at its maximum
is reset to 0 (at position 0: stop, nothing left), otherwise it is incremented and the walk ends.
`none` = "increment did not succeed" (the loop of `batchedMatMul` breaks). -/
def incrementSlices (shape : List Nat) (cur : List Nat) : Option (List Nat) :=
  let rec go (i : Nat) (fuel : Nat) (cur : List Nat) : Option (List Nat) :=
    match fuel with
    | 0 => none
    | f+1 =>
      let start := cur.getD i 0
      if dim shape i = start + 1 then
        if i = 0 then none else go (i - 1) f (cur.set i 0)
      else some (cur.set i (start + 1))
  if shape.length = 0 then none else go (shape.length - 1) shape.length cur

/-- the batch indices the loop of `batchedMatMul` visits, in order, starting from all zeros -/
def odometer (shape : List Nat) : List (List Nat) :=
  let rec run (fuel : Nat) (cur : List Nat) : List (List Nat) :=
    match fuel with
    | 0 => []
    | f+1 => cur :: (match incrementSlices shape cur with
      | none => []
      | some nxt => run f nxt)
  run (prod shape + 1) (List.replicate shape.length 0)

end Gonnx
