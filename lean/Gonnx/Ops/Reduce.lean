import Gonnx.Kernel
/-
Models of ops/opset13/{argmax,reduce_max,reduce_min,softmax,logsoftmax}.go and of the gorgonia
reductions they call.
-/
namespace Gonnx
variable {α : Type}

/-- positions `0 … n-1` of one lane: index `idx` (without the reduced axis) with `k` inserted at `axis` -/
def laneIdx (axis : Nat) (idx : List Nat) (k : Nat) : List Nat := idx.take axis ++ [k] ++ idx.drop axis

/-- first position of a maximal element of a non-empty list under `lt` (strict "less than") -/
def argmaxList (lt : α → α → Bool) : List α → Nat
  | [] => 0
  | x :: xs =>
    let rec go (best : α) (bi : Nat) (i : Nat) : List α → Nat
      | [] => bi
      | y :: ys => if lt best y then go y i (i+1) ys else go best bi (i+1) ys
    go x 0 1 xs

/-- `tensor.Argmax(t, axis)`: first occurrence on ties; the axis is removed (a rank-1 input gives a
scalar); an axis ≥ rank is an error -/
def gArgmax [Inhabited α] (lt : α → α → Bool) (t : Tensor α) (axis : Int) : Res (Tensor Int) :=
  if axis < 0 then .error .unmodelled
  else if axis ≥ t.shape.length then .error .gorgonia
  else
    let ax := axis.toNat
    let n := dim t.shape ax
    .ok (ofFn (t.shape.eraseIdx ax) fun idx =>
      (argmaxList lt ((List.range n).map fun k => t.get (laneIdx ax idx k)) : Nat))

/-- `ArgMax.Apply` (after the `fix:` commit that clones the input's shape before writing `1` into it).
Without keepdims a rank-1 input gives a scalar whose `Data()` is not a slice: type-assert error.
Returns the result and the new shape of the input if it was modified (never, since the fix). -/
def argmaxOp [Inhabited α] (lt : α → α → Bool) (t : Tensor α) (axis : Int) (keepDims : Bool) :
    Res (Tensor Int × Option (List Nat)) :=
  let a := if axis < 0 then (t.shape.length : Int) + axis else axis
  match gArgmax lt t a with
  | .error e => .error e
  | .ok r =>
    if keepDims then
      let newShape := t.shape.set a.toNat 1
      .ok ({ r with shape := newShape }, none)
    else if r.shape = [] then .error .other
    else .ok (r, none)

/-- extremum of a non-empty list under `better a b` = "a replaces b" -/
def extremum (better : α → α → Bool) : List α → Option α
  | [] => none
  | x :: xs => some (xs.foldl (fun b y => if better y b then y else b) x)

/-- all indices of the reduced axes: the cartesian product of their extents, as (axis, position) lists -/
def reducePositions (shape : List Nat) (axes : List Nat) : List (List (Nat × Nat)) :=
  axes.foldr (fun a acc => (List.range (dim shape a)).flatMap fun k => acc.map fun l => (a, k) :: l) [[]]

/-- rebuild a full index from an index over the kept axes and positions for the reduced ones -/
def fullIdx (rank : Nat) (axes : List Nat) (kept : List Nat) (pos : List (Nat × Nat)) : List Nat :=
  let rec go (j : Nat) (fuel : Nat) (kept : List Nat) : List Nat :=
    match fuel with
    | 0 => []
    | f+1 =>
      if axes.contains j then ((pos.lookup j).getD 0) :: go (j+1) f kept
      else kept.headD 0 :: go (j+1) f kept.tail
  go 0 rank kept

/-- every listed axis is ≥ 2 and at least one is not the last axis, on a tensor of rank ≥ 4 -/
def innerAxesOnly (r : Nat) (ax : List Nat) : Bool :=
  decide (r ≥ 4) && ax.all (fun a => decide (2 ≤ a)) && ax.any (fun a => decide (a + 1 < r))

/-- `t.Max(axes...)` / `t.Min(axes...)`: no axes = all axes (scalar result); the reduced axes are
removed; an axis ≥ rank (error or index panic depending on the rank) and a repeated axis are not modelled -/
def gReduce [Inhabited α] (better : α → α → Bool) (t : Tensor α) (axes : List Int) : Res (Tensor α) :=
  let r := t.shape.length
  if axes.any (· < 0) then .error .unmodelled
  else if axes.any (· ≥ r) then .error .unmodelled     -- gorgonia: an error for matrices, an index panic for vectors
  else
    let ax := if axes.isEmpty then List.range r else axes.map Int.toNat
    if ax.eraseDups.length ≠ ax.length then .error .unmodelled
    -- gorgonia sorts the axes and reduces them one after the other; when the smallest listed axis is an
    -- inner one (neither one of the first two nor the last) of a tensor of rank ≥ 4, gorgonia v0.9.24
    -- returns values of another lane or panics: not modelled
    else if innerAxesOnly r ax then .error .unmodelled
    else
      let keptShape := (t.shape.zipIdx.filter fun (_, j) => !ax.contains j).map (·.1)
      .ok (ofFn keptShape fun idx =>
        (extremum better ((reducePositions t.shape ax).map fun pos => t.get (fullIdx r ax idx pos))).getD default)

/-- `ReduceMax.Apply` / `ReduceMin.Apply` (a fresh header is built around the input's data, so the
caller's tensor is not touched) -/
def reduceOp [Inhabited α] (better : α → α → Bool) (t : Tensor α) (axes : List Int) (keepDims : Bool) : Res (Tensor α) :=
  let r : Int := t.shape.length
  let ax := axes.map fun a => if a < 0 then r + a else a
  match gReduce better t ax with
  | .error e => .error e
  | .ok out =>
    if keepDims then
      let newShape := ax.foldl (fun s a => s.set a.toNat 1) t.shape
      if prod newShape = prod out.shape then .ok { out with shape := newShape } else .error .shape
    else .ok out

/-- the scalar operations gorgonia's softmax lane kernels use; instantiated with `Float` by the driver
(`DriverLib/ReduceOps.lean`) and with `ℝ` by `Theorems/C09b.lean` -/
structure LaneArith (α : Type) where
  exp : α → α
  log : α → α
  add : α → α → α
  sub : α → α → α
  mul : α → α → α
  div : α → α → α
  zero : α
  one : α
  gt : α → α → Bool

/-- gorgonia's Softmax lane kernel: running maximum started from `anchor` and compared with the lane's
elements 1…n-1; exponentials of the shifted values; scaling by the reciprocal of their sum -/
def softmaxLaneG (A : LaneArith α) (anchor : α) (l : List α) : List α :=
  let m := l.tail.foldl (fun a b => if A.gt b a then b else a) anchor
  let e := l.map fun x => A.exp (A.sub x m)
  let s := A.div A.one (e.foldl A.add A.zero)
  e.map fun x => A.mul x s

/-- gorgonia's LogSoftmax lane kernel -/
def logSoftmaxLaneG (A : LaneArith α) (anchor : α) (l : List α) : List α :=
  let m := l.tail.foldl (fun a b => if A.gt b a then b else a) anchor
  let s := (l.map fun x => A.exp (A.sub x m)).foldl A.add A.zero
  l.map fun x => A.sub (A.sub x m) (A.log s)

/-- `tensor.SoftMax(t, axis)` / `LogSoftMax`: a lane function applied along `axis`. The lane function
receives, besides the lane, the value gorgonia starts its running maximum from: for an inner axis
that is the lane's first element, but for the **last** axis it is `xArr[0]`, the first element of the
whole tensor (and the lane's own first element is never compared) — transcribed from
`softMaxLastDimF64`. Over the reals the shift cancels; in floating point a lane far below or above
that anchor underflows or overflows to NaN. -/
def gLanes [Inhabited α] (f : α → List α → List α) (t : Tensor α) (axis : Nat) : Tensor α :=
  let n := dim t.shape axis
  let last := axis + 1 = t.shape.length
  ofFn t.shape fun idx =>
    let lane := (List.range n).map fun k => t.get (idx.set axis k)
    let anchor := if last then t.data.headD default else lane.headD default
    (f anchor lane).getD (idx.getD axis 0) default

/-- `Softmax.Apply` / `LogSoftmax.Apply` -/
def softmaxOp [Inhabited α] (f : α → List α → List α) (t : Tensor α) (axis : Int) : Res (Tensor α) :=
  let n : Int := t.shape.length
  if axis < -n ∨ axis ≥ n then .error .axis
  else .ok (gLanes f t (if axis < 0 then axis + n else axis).toNat)

end Gonnx
