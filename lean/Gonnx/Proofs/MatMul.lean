import Gonnx.Ops.MatMul
import Gonnx.Spec.MatMul
import Gonnx.Proofs.Binary
/-
Helper lemmas for C04: MatMul, Gemm, LinearRegressor, Scaler and the batch odometer.
-/
namespace Gonnx.Proofs.MatMul
open Gonnx Gonnx.Spec Gonnx.Proofs
variable {α : Type} [Inhabited α]

/-! ### elementwise kernels -/

omit [Inhabited α] in
theorem map_WF (f : α → α) (t : Tensor α) (h : t.WF) : (t.map f).WF := by
  simpa [Tensor.WF, Tensor.map] using h

theorem map_get (f : α → α) (t : Tensor α) (h : t.WF) (idx : List Nat) (hi : InRange idx t.shape) :
    (t.map f).get idx = f (t.get idx) := by
  have hlt := ravel_lt _ _ hi
  rw [← h] at hlt
  simp [Tensor.get, Tensor.map, List.getD, List.getElem?_map, List.getElem?_eq_getElem hlt]

theorem zipSame_ok (f : α → α → α) (X Y : Tensor α) (hs : Y.shape = X.shape) (hX : X.WF) (hY : Y.WF) :
    ∃ Z, zipSame f X Y = .ok Z ∧ Z.shape = X.shape ∧ Z.WF ∧
      ∀ idx, InRange idx X.shape → Z.get idx = f (X.get idx) (Y.get idx) := by
  unfold Tensor.WF at hX hY
  refine ⟨⟨X.shape, List.zipWith f X.data Y.data⟩, ?_, rfl, ?_, ?_⟩
  · unfold zipSame; rw [if_pos hs.symm]
  · simp only [Tensor.WF, List.length_zipWith, hX, hY, hs, Nat.min_self]
  · intro idx hidx
    have hlt := ravel_lt _ _ hidx
    simp only [Tensor.get]
    rw [getD_zipWith f _ _ _ (by rw [hX]; exact hlt) (by rw [hY, hs]; exact hlt) default default default, hs]

theorem unidir_WF (A B A' B' : Tensor α) (hB : B.WF) (h : unidirBroadcast A B = .ok (A', B')) : B'.WF := by
  by_cases hlt : A.shape.length < B.shape.length
  · rw [unidir_lt A B hlt] at h; cases h
  · rw [unidir_eq A B hlt] at h
    split at h
    · next nb he =>
      cases h
      rw [repeatUni_ok _ _ _ _ _ he]
      exact repA_WF _ _ _ _ (WF_pad B _ hB)
    · cases h

/-- a successful unidirectional broadcast: the first operand is untouched, the second is dense, has
the shape of the first and reads the pinned source element -/
theorem unidir_of_isOk (X B : Tensor α) (hX : Pos X.shape) (hB : Pos B.shape) (hBW : B.WF)
    (h : (unidirBroadcast X B).isOk = true) :
    ∃ B', unidirBroadcast X B = .ok (X, B') ∧ B'.shape = X.shape ∧ B'.WF ∧
      ∀ idx, InRange idx X.shape → B'.get idx = B.get (pin B.shape idx) := by
  cases hr : unidirBroadcast X B with
  | error e => rw [hr] at h; simp [Res.isOk] at h
  | ok v =>
    obtain ⟨X', B'⟩ := v
    have hX' := unidir_fst X B X' B' hr
    subst hX'
    obtain ⟨g1, g2⟩ := unidir_get X' B X' B' hX hB hr
    exact ⟨B', rfl, g1, unidir_WF X' B X' B' hBW hr, g2⟩

/-- broadcast the second operand to the first, then apply the kernel -/
def uniZip (f : α → α → α) (X B : Tensor α) : Res (Tensor α) :=
  match unidirBroadcast X B with
  | .error e => .error e
  | .ok (x', y') => zipSame f x' y'

theorem uniZip_ok (f : α → α → α) (X B : Tensor α) (hX : Pos X.shape) (hB : Pos B.shape)
    (hXW : X.WF) (hBW : B.WF) (h : (unidirBroadcast X B).isOk = true) :
    ∃ Z, uniZip f X B = .ok Z ∧ Z.shape = X.shape ∧ Z.WF ∧
      ∀ idx, InRange idx X.shape → Z.get idx = f (X.get idx) (B.get (pin B.shape idx)) := by
  obtain ⟨B', h1, h2, h3, h4⟩ := unidir_of_isOk X B hX hB hBW h
  obtain ⟨Z, z1, z2, z3, z4⟩ := zipSame_ok f X B' h2 hXW h3
  refine ⟨Z, ?_, z2, z3, ?_⟩
  · unfold uniZip; rw [h1]; exact z1
  · intro idx hidx; rw [z4 idx hidx, h4 idx hidx]

theorem uniZip_err (f : α → α → α) (X B : Tensor α) (h : (unidirBroadcast X B).isOk = false) :
    ∀ m, uniZip f X B ≠ .ok m := by
  intro m
  unfold uniZip
  cases hr : unidirBroadcast X B with
  | error e => simp
  | ok v => rw [hr] at h; simp [Res.isOk] at h

/-! ### vectors broadcast along the last axis -/

theorem drop_pred_length (idx : List Nat) (h : idx ≠ []) :
    idx.drop (idx.length - 1) = [dim idx (idx.length - 1)] := by
  have hl : 0 < idx.length := List.length_pos_iff.2 h
  apply ext_dim
  · simp; omega
  · intro j hj
    have : j = 0 := by simp at hj; omega
    subst this
    rw [dim_drop]; simp [dim]

theorem pin_vec (n : Nat) (idx : List Nat) (h : idx ≠ []) :
    pin [n] idx = [if n = 1 then 0 else dim idx (idx.length - 1)] := by
  unfold pin
  simp only [List.length_cons, List.length_nil, Nat.zero_add]
  rw [drop_pred_length idx h]
  rfl

theorem vec_get (v : List α) (i : Nat) : (⟨[v.length], v⟩ : Tensor α).get [i] = v.getD i default := by
  simp [Tensor.get, ravel]

omit [Inhabited α] in
theorem vec_WF (v : List α) : (⟨[v.length], v⟩ : Tensor α).WF := by simp [Tensor.WF]

theorem vec_isOk (X : Tensor α) (v : List α) (hne : X.shape ≠ [])
    (hv : v.length = dim X.shape (X.shape.length - 1) ∨ v.length = 1) :
    (unidirBroadcast X ⟨[v.length], v⟩).isOk = true := by
  have hl : 0 < X.shape.length := List.length_pos_iff.2 hne
  rw [unidir_isOk X _ (by simp; omega)]
  intro j hj
  rw [dim_padShape]
  simp only [List.length_cons, List.length_nil, Nat.zero_add]
  by_cases hjl : j < X.shape.length - 1
  · right; simp [hjl]
  · have : j = X.shape.length - 1 := by omega
    subst this
    simp only [Nat.lt_irrefl, if_false, Nat.sub_self, dim_cons_zero]
    rcases hv with hv | hv
    · left; exact hv.symm
    · right; exact hv

theorem vec_pin_get (v : List α) (idx : List Nat) (h : idx ≠ []) :
    (⟨[v.length], v⟩ : Tensor α).get (pin [v.length] idx) =
      v.getD (if v.length = 1 then 0 else idx.getD (idx.length - 1) 0) default := by
  rw [pin_vec _ _ h, vec_get]; rfl

omit [Inhabited α] in
theorem vec_Pos (X : Tensor α) (v : List α) (hX : Pos X.shape) (hne : X.shape ≠ [])
    (hv : v.length = dim X.shape (X.shape.length - 1) ∨ v.length = 1) : Pos [v.length] := by
  have hl : 0 < X.shape.length := List.length_pos_iff.2 hne
  intro n hn
  simp only [List.mem_singleton] at hn
  subst hn
  rcases hv with hv | hv
  · rw [hv]; exact Pos_dim hX (by omega)
  · omega

/-- the kernel applied to `X` and a per-feature (or single-value) vector -/
theorem uniZip_vec (f : α → α → α) (X : Tensor α) (v : List α) (hX : Pos X.shape) (hXW : X.WF)
    (hne : X.shape ≠ []) (hv : v.length = dim X.shape (X.shape.length - 1) ∨ v.length = 1) :
    ∃ Z, uniZip f X ⟨[v.length], v⟩ = .ok Z ∧ Z.shape = X.shape ∧ Z.WF ∧
      ∀ idx, InRange idx X.shape → Z.get idx =
        f (X.get idx) (v.getD (if v.length = 1 then 0 else idx.getD (X.shape.length - 1) 0) default) := by
  obtain ⟨Z, z1, z2, z3, z4⟩ := uniZip_ok f X ⟨[v.length], v⟩ hX (vec_Pos X v hX hne hv) hXW (vec_WF v)
    (vec_isOk X v hne hv)
  refine ⟨Z, z1, z2, z3, ?_⟩
  intro idx hidx
  have hlen := InRange_length hidx
  have hne' : idx ≠ [] := by
    intro h0; rw [h0] at hlen; exact hne (List.length_eq_zero_iff.1 hlen.symm)
  rw [z4 idx hidx, vec_pin_get v idx hne', hlen]

/-! ### Scaler -/

theorem scaler_eq_spec (A : Arith α) (off sc : List α) (x : Tensor α)
    (hW : x.WF) (hp : Pos x.shape) (s : Tensor α) (hs : Spec.scaler A off sc x = some s) :
    ∃ m, scalerOp A off sc x = .ok m ∧ Equiv m s := by
  unfold Spec.scaler at hs
  simp only [] at hs
  split at hs
  · cases hs
  · next hc =>
    simp only [not_or, Bool.not_eq_true', Bool.not_eq_false, decide_eq_true_eq] at hc
    obtain ⟨hne, ho, hsc⟩ := hc
    cases hs
    obtain ⟨x2, a1, a2, a3, a4⟩ := uniZip_vec A.sub x off hp hW hne ho
    obtain ⟨x4, b1, b2, b3, b4⟩ := uniZip_vec A.mul x2 sc (by rw [a2]; exact hp) a3 (by rw [a2]; exact hne)
      (by rw [a2]; exact hsc)
    refine ⟨x4, ?_, ?_⟩
    · have e : scalerOp A off sc x =
          match uniZip A.sub x ⟨[off.length], off⟩ with
          | .error e => .error e
          | .ok x2 => uniZip A.mul x2 ⟨[sc.length], sc⟩ := by
        unfold scalerOp uniZip
        cases unidirBroadcast x ⟨[off.length], off⟩ with
        | error e => rfl
        | ok v => rfl
      rw [e, a1]; exact b1
    · refine ⟨by rw [b2, a2]; rfl, b3, ofFn_WF _ _, ?_⟩
      intro idx hidx
      rw [b2, a2] at hidx
      rw [get_ofFn _ _ _ hidx, b4 idx (by rw [a2]; exact hidx), a4 idx hidx, a2]


/-! ### matrix product, transpose -/

omit [Inhabited α] in
theorem sumRange_congr (A : Arith α) (n : Nat) (f g : Nat → α) (h : ∀ l, l < n → f l = g l) :
    sumRange A n f = sumRange A n g := by
  unfold sumRange
  induction n with
  | zero => rfl
  | succ n ih =>
    simp only [List.range_succ, List.foldl_append, List.foldl_cons, List.foldl_nil]
    rw [h n (by omega), ih (fun l hl => h l (by omega))]

theorem mm2_ok (A : Arith α) (a b : Tensor α) (m k n : Nat) (ha : a.shape = [m, k]) (hb : b.shape = [k, n]) :
    mm2 A a b = .ok (ofFn [m, n] fun idx =>
      sumRange A k fun l => A.mul (a.get [idx.getD 0 0, l]) (b.get [l, idx.getD 1 0])) := by
  unfold mm2
  rw [ha, hb]
  simp

theorem mm2_inv (A : Arith α) (a b x : Tensor α) (h : mm2 A a b = .ok x) :
    ∃ m k n, a.shape = [m, k] ∧ b.shape = [k, n] := by
  unfold mm2 at h
  split at h
  · next m k k' n ha hb =>
    split at h
    · next hk => subst hk; exact ⟨m, k, n, ha, hb⟩
    · cases h
  · cases h

theorem transpose2_get2 (a : Tensor α) (p q i j : Nat) (ha : a.shape = [p, q]) (hi : i < q) (hj : j < p) :
    (transpose2 a).get [i, j] = a.get [j, i] := by
  unfold transpose2
  rw [get_ofFn _ _ _ (by simp [ha, InRange, hi, hj])]
  simp

omit [Inhabited α] in
theorem InRange2 (i j m n : Nat) : InRange [i, j] [m, n] ↔ i < m ∧ j < n := by simp [InRange]

theorem InRange2_inv (idx : List Nat) (m n : Nat) (h : InRange idx [m, n]) :
    idx = [idx.getD 0 0, idx.getD 1 0] ∧ idx.getD 0 0 < m ∧ idx.getD 1 0 < n := by
  match idx, h with
  | [i, j], h => simpa [InRange] using h

omit [Inhabited α] in
theorem length_two (l : List Nat) (h : l.length = 2) : ∃ x y, l = [x, y] := by
  match l, h with
  | [x, y], _ => exact ⟨x, y, rfl⟩

theorem Pos2 (m n : Nat) : Pos [m, n] ↔ 0 < m ∧ 0 < n := by simp [Pos]

/-! ### LinearRegressor -/

-- `hW` is part of the fixed statement; both sides read `x` at the same in-range positions
set_option linter.unusedVariables false in
theorem linreg_eq_spec (A : Arith α) (coef icpt : List α) (targets : Nat) (x : Tensor α)
    (hW : x.WF) (hp : Pos x.shape) (s : Tensor α) (hs : Spec.linreg A coef icpt targets x = some s) :
    ∃ m, linregOp A coef icpt targets x = .ok m ∧ Equiv m s := by
  unfold Spec.linreg at hs
  split at hs
  · next n f hx =>
    split at hs
    · cases hs
    · next hc =>
      simp only [not_or, Decidable.not_not] at hc
      obtain ⟨ht, hcl, hil⟩ := hc
      cases hs
      have htpos : 0 < targets := by omega
      have hnf : coef.length / targets = f := by rw [hcl, Nat.mul_div_cancel_left _ htpos]
      have hxp := hp; rw [hx, Pos2] at hxp
      -- the product
      have hw : (transpose2 (⟨[targets, f], coef⟩ : Tensor α)).shape = [f, targets] := rfl
      have hmm := mm2_ok A x (transpose2 ⟨[targets, f], coef⟩) n f targets hx hw
      obtain ⟨Z, z1, z2, z3, z4⟩ := uniZip_vec A.add (ofFn [n, targets] fun idx =>
          sumRange A f fun l => A.mul (x.get [idx.getD 0 0, l])
            ((transpose2 (⟨[targets, f], coef⟩ : Tensor α)).get [l, idx.getD 1 0])) icpt
        (by simp only [ofFn_shape, Pos2]; exact ⟨hxp.1, htpos⟩) (ofFn_WF _ _) (by simp)
        (by left; simp [hil, dim])
      refine ⟨Z, ?_, ?_⟩
      · unfold linregOp
        rw [if_neg ht]
        simp only [hnf]
        rw [if_neg (by simp [hcl]), hmm]
        exact z1
      · simp only [ofFn_shape] at z2 z4
        refine ⟨z2, z3, ofFn_WF _ _, ?_⟩
        intro idx hidx
        rw [z2] at hidx
        obtain ⟨e, h0, h1⟩ := InRange2_inv idx n targets hidx
        rw [z4 idx hidx, get_ofFn _ _ _ hidx, get_ofFn _ _ _ hidx]
        have hne : icpt.length ≠ 1 ∨ idx.getD 1 0 = 0 := by
          by_cases h : icpt.length = 1
          · right; omega
          · left; exact h
        have e1 : (if icpt.length = 1 then 0 else idx.getD ([n, targets].length - 1) 0) = idx.getD 1 0 := by
          rcases hne with h | h
          · rw [if_neg h]; rfl
          · split
            · exact h.symm
            · rfl
        rw [e1]
        congr 1
        apply sumRange_congr
        intro l hl
        rw [transpose2_get2 _ targets f l _ rfl hl h1]
        simp [Tensor.get, ravel]
  · cases hs


/-! ### Gemm -/

/-- the source index of a unidirectionally broadcast operand is in range -/
theorem pin_InRange (s1 s2 idx : List Nat) (hle : s2.length ≤ s1.length)
    (h : ∀ j, j < s1.length → (dim s1 j = dim (padShape s1.length s2) j ∨ dim (padShape s1.length s2) j = 1))
    (hidx : InRange idx s1) : InRange (pin s2 idx) s2 := by
  have hlen := InRange_length hidx
  rw [InRange_dim] at hidx ⊢
  refine ⟨length_pin _ _ (by omega), ?_⟩
  intro j hj
  have hj2 : j < (idx.drop (idx.length - s2.length)).length := by simp; omega
  rw [pin, dim_zipWith _ _ _ _ hj hj2, dim_drop]
  by_cases h1 : dim s2 j = 1
  · simp [h1]
  · rw [if_neg h1]
    have hj' : idx.length - s2.length + j < s1.length := by omega
    have hp := h _ hj'
    have hi := hidx.2 _ hj'
    rw [dim_padShape, if_neg (by omega)] at hp
    have e : idx.length - s2.length + j - (s1.length - s2.length) = j := by omega
    rw [e] at hp
    omega

def gemmTail (A : Arith α) (alpha beta : α) (x : Tensor α) (c : Option (Tensor α)) : Res (Tensor α) :=
  match c with
  | none => .ok (x.map fun v => A.mul v alpha)
  | some c => uniZip A.add (x.map fun v => A.mul v alpha) (c.map fun v => A.mul v beta)

theorem gemmOp_eq (A : Arith α) (alpha beta : α) (tA tB : Bool) (a b : Tensor α) (c : Option (Tensor α)) :
    gemmOp A alpha beta tA tB a b c =
      match mm2 A (if tA then transpose2 a else a) (if tB then transpose2 b else b) with
      | .error e => .error e
      | .ok x => gemmTail A alpha beta x c := by
  unfold gemmOp gemmTail uniZip
  rfl

def cOk (m n : Nat) (c : Option (Tensor α)) : Bool :=
  match c with
  | none => true
  | some c => Compatible [m, n] c.shape && bshape [m, n] c.shape == [m, n]

def addC (A : Arith α) (beta : α) (c : Option (Tensor α)) (p : α) (idx : List Nat) : α :=
  match c with
  | none => p
  | some c => A.add p (A.mul (c.get (pin c.shape idx)) beta)

theorem gemmTail_ok (A : Arith α) (alpha beta : α) (x : Tensor α) (c : Option (Tensor α)) (m n : Nat)
    (hx : x.shape = [m, n]) (hxW : x.WF) (hm : 0 < m) (hn : 0 < n)
    (hWc : ∀ t, c = some t → t.WF) (hpc : ∀ t, c = some t → Pos t.shape) (hc : cOk m n c = true) :
    ∃ r, gemmTail A alpha beta x c = .ok r ∧ r.shape = [m, n] ∧ r.WF ∧
      ∀ idx, InRange idx [m, n] → r.get idx = addC A beta c (A.mul (x.get idx) alpha) idx := by
  cases c with
  | none =>
    refine ⟨_, rfl, hx, map_WF _ _ hxW, ?_⟩
    intro idx hidx
    exact map_get _ _ hxW idx (by rw [hx]; exact hidx)
  | some c =>
    have hxp : Pos (x.map fun v => A.mul v alpha).shape := by
      show Pos x.shape
      rw [hx, Pos2]; exact ⟨hm, hn⟩
    have hcp : Pos (c.map fun v => A.mul v beta).shape := hpc c rfl
    have hok : (unidirBroadcast (x.map fun v => A.mul v alpha) (c.map fun v => A.mul v beta)).isOk = true := by
      rw [unidir_ok_iff _ _ hxp hcp]
      show (Compatible x.shape c.shape && bshape x.shape c.shape == x.shape) = true
      rw [hx]; exact hc
    have hlt : ¬ x.shape.length < c.shape.length := by
      intro hlt
      rw [unidir_lt _ _ (by exact hlt)] at hok
      simp [Res.isOk] at hok
    have hdim := (unidir_isOk _ _ (by exact hlt)).1 hok
    obtain ⟨Z, z1, z2, z3, z4⟩ := uniZip_ok A.add _ _ hxp hcp (map_WF _ _ hxW) (map_WF _ _ (hWc c rfl)) hok
    refine ⟨Z, z1, by rw [z2]; exact hx, z3, ?_⟩
    intro idx hidx
    have hidx' : InRange idx x.shape := by rw [hx]; exact hidx
    rw [z4 idx hidx', map_get _ _ hxW idx hidx']
    have hpin : InRange (pin c.shape idx) c.shape :=
      pin_InRange x.shape c.shape idx (by omega) hdim hidx'
    show A.add _ ((c.map fun v => A.mul v beta).get (pin c.shape idx)) = _
    rw [map_get _ _ (hWc c rfl) _ hpin]
    rfl

theorem gemmTail_err (A : Arith α) (alpha beta : α) (x : Tensor α) (c : Option (Tensor α)) (m n : Nat)
    (hx : x.shape = [m, n]) (hm : 0 < m) (hn : 0 < n)
    (hpc : ∀ t, c = some t → Pos t.shape) (hc : cOk m n c = false) :
    ∀ r, gemmTail A alpha beta x c ≠ .ok r := by
  cases c with
  | none => simp [cOk] at hc
  | some c =>
    have hxp : Pos (x.map fun v => A.mul v alpha).shape := by
      show Pos x.shape
      rw [hx, Pos2]; exact ⟨hm, hn⟩
    have hcp : Pos (c.map fun v => A.mul v beta).shape := hpc c rfl
    apply uniZip_err
    rw [unidir_ok_iff _ _ hxp hcp]
    show (Compatible x.shape c.shape && bshape x.shape c.shape == x.shape) = false
    rw [hx]; exact hc

def gemmVal (A : Arith α) (alpha beta : α) (tA tB : Bool) (a b : Tensor α) (c : Option (Tensor α)) (k : Nat) :
    List Nat → α := fun idx =>
  let i := idx.getD 0 0
  let j := idx.getD 1 0
  let p := sumRange A k fun l =>
    A.mul (a.get (if tA then [l, i] else [i, l])) (b.get (if tB then [j, l] else [l, j]))
  let p := A.mul p alpha
  match c with
  | none => p
  | some c => A.add p (A.mul (c.get (pin c.shape idx)) beta)

theorem gemm_spec_eq (A : Arith α) (alpha beta : α) (tA tB : Bool) (a b : Tensor α) (c : Option (Tensor α))
    (a0 a1 b0 b1 : Nat) (ha : a.shape = [a0, a1]) (hb : b.shape = [b0, b1]) :
    Spec.gemm A alpha beta tA tB a b c =
      if (if tA then a0 else a1) ≠ (if tB then b1 else b0) ∨
          !cOk (if tA then a1 else a0) (if tB then b0 else b1) c then none
      else some (ofFn [if tA then a1 else a0, if tB then b0 else b1]
        (gemmVal A alpha beta tA tB a b c (if tA then a0 else a1))) := by
  unfold Spec.gemm
  rw [ha, hb]
  cases tA <;> cases tB <;> rfl

theorem opT_shape (t : Bool) (a : Tensor α) (a0 a1 : Nat) (ha : a.shape = [a0, a1]) :
    (if t then transpose2 a else a).shape = [if t then a1 else a0, if t then a0 else a1] := by
  cases t
  · simpa using ha
  · simp [transpose2, ha]

theorem opT_get (t : Bool) (a : Tensor α) (a0 a1 : Nat) (ha : a.shape = [a0, a1]) (i l : Nat)
    (hi : i < if t then a1 else a0) (hl : l < if t then a0 else a1) :
    (if t then transpose2 a else a).get [i, l] = a.get (if t then [l, i] else [i, l]) := by
  cases t
  · simp
  · simp only [if_true] at hi hl ⊢
    exact transpose2_get2 a a0 a1 i l ha hi hl

theorem opT_rank (t : Bool) (a : Tensor α) : (if t then transpose2 a else a).shape.length = a.shape.length := by
  cases t <;> simp [transpose2]

-- `hWa`, `hWb` are part of the fixed statement; both sides read `a`, `b` at the same in-range positions
set_option linter.unusedVariables false in
theorem gemm_eq_spec (A : Arith α) (alpha beta : α) (tA tB : Bool) (a b : Tensor α) (c : Option (Tensor α))
    (hWa : a.WF) (hWb : b.WF) (hWc : ∀ t, c = some t → t.WF)
    (hpa : Pos a.shape) (hpb : Pos b.shape) (hpc : ∀ t, c = some t → Pos t.shape)
    (s : Tensor α) (hs : Spec.gemm A alpha beta tA tB a b c = some s) :
    ∃ m, gemmOp A alpha beta tA tB a b c = .ok m ∧ Equiv m s := by
  have hs0 := hs
  unfold Spec.gemm at hs0
  split at hs0
  · next a0 a1 b0 b1 ha hb =>
    clear hs0
    rw [gemm_spec_eq A alpha beta tA tB a b c a0 a1 b0 b1 ha hb] at hs
    by_cases hc : ((if tA then a0 else a1) ≠ (if tB then b1 else b0) ∨
          (!cOk (if tA then a1 else a0) (if tB then b0 else b1) c) = true)
    · rw [if_pos hc] at hs; cases hs
    · rw [if_neg hc] at hs
      simp only [not_or, Decidable.not_not, Bool.not_eq_false, Bool.not_eq_eq_eq_not,
        Bool.not_true] at hc
      obtain ⟨hk, hcok⟩ := hc
      cases hs
      have hpa' := hpa; rw [ha, Pos2] at hpa'
      have hpb' := hpb; rw [hb, Pos2] at hpb'
      have hm : 0 < (if tA then a1 else a0) := by split <;> omega
      have hn : 0 < (if tB then b0 else b1) := by split <;> omega
      have sa := opT_shape tA a a0 a1 ha
      have sb := opT_shape tB b b0 b1 hb
      rw [← hk] at sb
      have hmm := mm2_ok A _ _ _ _ _ sa sb
      obtain ⟨r, r1, r2, r3, r4⟩ := gemmTail_ok A alpha beta _ c _ _ (ofFn_shape _ _) (ofFn_WF _ _) hm hn
        hWc hpc (by simpa using hcok)
      refine ⟨r, ?_, r2, r3, ofFn_WF _ _, ?_⟩
      · rw [gemmOp_eq, hmm]; exact r1
      · intro idx hidx
        rw [r2] at hidx
        obtain ⟨e, h0, h1⟩ := InRange2_inv idx _ _ hidx
        have hsum : (ofFn [if tA then a1 else a0, if tB then b0 else b1] fun idx =>
            sumRange A (if tA then a0 else a1) fun l =>
              A.mul ((if tA then transpose2 a else a).get [idx.getD 0 0, l])
                ((if tB then transpose2 b else b).get [l, idx.getD 1 0])).get idx =
            sumRange A (if tA then a0 else a1) fun l =>
              A.mul (a.get (if tA then [l, idx.getD 0 0] else [idx.getD 0 0, l]))
                (b.get (if tB then [idx.getD 1 0, l] else [l, idx.getD 1 0])) := by
          rw [get_ofFn _ _ _ hidx]
          apply sumRange_congr
          intro l hl
          rw [opT_get tA a a0 a1 ha _ _ h0 hl, opT_get tB b b0 b1 hb _ _ (by rw [← hk]; exact hl) h1]
        rw [r4 idx hidx, hsum, get_ofFn _ _ _ hidx]
        unfold gemmVal addC
        cases c <;> rfl
  · cases hs0


theorem gemm_refuses (A : Arith α) (alpha beta : α) (tA tB : Bool) (a b : Tensor α) (c : Option (Tensor α))
    (hpa : Pos a.shape) (hpb : Pos b.shape) (hpc : ∀ t, c = some t → Pos t.shape)
    (hs : Spec.gemm A alpha beta tA tB a b c = none) :
    ∀ m, gemmOp A alpha beta tA tB a b c ≠ .ok m := by
  intro r hr
  rw [gemmOp_eq] at hr
  cases hmm : mm2 A (if tA then transpose2 a else a) (if tB then transpose2 b else b) with
  | error e => rw [hmm] at hr; cases hr
  | ok x =>
    rw [hmm] at hr
    simp only [] at hr
    obtain ⟨m, k, n, sa', sb'⟩ := mm2_inv A _ _ x hmm
    have la : a.shape.length = 2 := by rw [← opT_rank tA a, sa']; rfl
    have lb : b.shape.length = 2 := by rw [← opT_rank tB b, sb']; rfl
    obtain ⟨a0, a1, ha⟩ := length_two _ la
    obtain ⟨b0, b1, hb⟩ := length_two _ lb
    have ea := opT_shape tA a a0 a1 ha
    have eb := opT_shape tB b b0 b1 hb
    rw [sa'] at ea
    rw [sb'] at eb
    simp only [List.cons.injEq, and_true] at ea eb
    obtain ⟨em, ek⟩ := ea
    obtain ⟨ek', en⟩ := eb
    rw [gemm_spec_eq A alpha beta tA tB a b c a0 a1 b0 b1 ha hb, ← em, ← ek, ← ek', ← en] at hs
    rw [mm2_ok A _ _ m k n sa' sb'] at hmm
    cases hmm
    have hpa' := hpa; rw [ha, Pos2] at hpa'
    have hpb' := hpb; rw [hb, Pos2] at hpb'
    have hm : 0 < m := by rw [em]; split <;> omega
    have hn : 0 < n := by rw [en]; split <;> omega
    by_cases hc : cOk m n c = true
    · simp [hc] at hs
    · exact gemmTail_err A alpha beta _ c m n (ofFn_shape _ _) hm hn hpc (by simpa using hc) r hr


/-! ### the batch odometer -/

/-- row-major successor of a multi-index (`none` after the last one) -/
def succIdx : List Nat → List Nat → Option (List Nat)
  | n :: s, i :: is =>
    match succIdx s is with
    | some is' => some (i :: is')
    | none => if n = i + 1 then none else some ((i + 1) :: List.replicate s.length 0)
  | _, _ => none

theorem zeros_InRange (s : List Nat) (h : Pos s) : InRange (List.replicate s.length 0) s := by
  induction s with
  | nil => simp [InRange]
  | cons n s ih =>
    simp only [List.length_cons, List.replicate_succ, InRange]
    exact ⟨h n (by simp), ih (fun k hk => h k (by simp [hk]))⟩

theorem ravel_zeros (s : List Nat) : ravel s (List.replicate s.length 0) = 0 := by
  induction s with
  | nil => rfl
  | cons n s ih => simp [List.replicate_succ, ravel, ih]

theorem succIdx_spec (s cur : List Nat) (hp : Pos s) (h : InRange cur s) :
    (∀ nxt, succIdx s cur = some nxt → InRange nxt s ∧ ravel s nxt = ravel s cur + 1) ∧
    (succIdx s cur = none → ravel s cur + 1 = prod s) := by
  induction s generalizing cur with
  | nil =>
    cases cur with
    | nil => simp [succIdx, ravel]
    | cons i is => simp [InRange] at h
  | cons n s ih =>
    cases cur with
    | nil => simp [InRange] at h
    | cons i is =>
      simp only [InRange] at h
      have hps : Pos s := fun k hk => hp k (by simp [hk])
      obtain ⟨ih1, ih2⟩ := ih is hps h.2
      simp only [succIdx]
      cases hsu : succIdx s is with
      | some is' =>
        obtain ⟨r1, r2⟩ := ih1 is' hsu
        refine ⟨?_, by simp⟩
        intro nxt hn
        simp only [Option.some.injEq] at hn
        subst hn
        refine ⟨⟨h.1, r1⟩, ?_⟩
        simp only [ravel, r2]; omega
      | none =>
        have r := ih2 hsu
        by_cases hn : n = i + 1
        · simp only [if_pos hn]
          refine ⟨by simp, ?_⟩
          intro _
          simp only [ravel, prod_cons, hn, Nat.succ_mul]; omega
        · simp only [if_neg hn]
          refine ⟨?_, by simp⟩
          intro nxt hnx
          simp only [Option.some.injEq] at hnx
          subst hnx
          refine ⟨⟨by omega, zeros_InRange s hps⟩, ?_⟩
          simp only [ravel, ravel_zeros, Nat.succ_mul]; omega

theorem succIdx_snoc (s c : List Nat) (n d : Nat) (hl : c.length = s.length) :
    succIdx (s ++ [n]) (c ++ [d]) =
      if n = d + 1 then (succIdx s c).map (· ++ [0]) else some (c ++ [d + 1]) := by
  induction s generalizing c with
  | nil =>
    cases c with
    | nil => by_cases h : n = d + 1 <;> simp [succIdx, h]
    | cons x c => simp at hl
  | cons a s ih =>
    cases c with
    | nil => simp at hl
    | cons x c =>
      simp only [List.cons_append, succIdx]
      rw [ih c (by simpa using hl)]
      by_cases h : n = d + 1
      · simp only [if_pos h]
        cases succIdx s c with
        | some is' => simp
        | none =>
          by_cases ha : a = x + 1
          · simp [ha]
          · simp [ha, List.replicate_succ']
      · simp [h]

theorem take_succ_dim (l : List Nat) (i : Nat) (h : i < l.length) : l.take (i + 1) = l.take i ++ [dim l i] := by
  rw [List.take_add_one, dim_eq, List.getElem?_eq_getElem h]; rfl

theorem go_eq (shape : List Nat) (i fuel : Nat) (cur : List Nat) (hi : i < shape.length)
    (hl : cur.length = shape.length) (hf : i < fuel) :
    incrementSlices.go shape i fuel cur =
      (succIdx (shape.take (i + 1)) (cur.take (i + 1))).map (· ++ cur.drop (i + 1)) := by
  induction i generalizing fuel cur with
  | zero =>
    cases fuel with
    | zero => omega
    | succ f =>
      rw [take_succ_dim shape 0 hi, take_succ_dim cur 0 (by omega), succIdx_snoc _ _ _ _ (by simp)]
      simp only [incrementSlices.go]
      have hd : cur.getD 0 0 = dim cur 0 := rfl
      rw [hd]
      by_cases h : dim shape 0 = dim cur 0 + 1
      · simp [h, succIdx]
      · rw [if_neg h, if_neg h]
        simp [List.set_eq_take_append_cons_drop, show 0 < cur.length by omega]
  | succ i ih =>
    cases fuel with
    | zero => omega
    | succ f =>
      rw [take_succ_dim shape (i + 1) hi, take_succ_dim cur (i + 1) (by omega),
        succIdx_snoc _ _ _ _ (by simp; omega)]
      simp only [incrementSlices.go]
      have hd : cur.getD (i + 1) 0 = dim cur (i + 1) := rfl
      rw [hd]
      by_cases h : dim shape (i + 1) = dim cur (i + 1) + 1
      · rw [if_pos h, if_pos h, if_neg (by omega)]
        simp only [Nat.add_sub_cancel]
        rw [ih f (cur.set (i + 1) 0) (by omega) (by simpa using hl) (by omega),
          List.take_set_of_le (Nat.le_refl _), List.drop_set, if_neg (by omega), Nat.sub_self]
        have e : (List.drop (i + 1) cur).set 0 0 = 0 :: List.drop (i + 1 + 1) cur := by
          rw [List.drop_eq_getElem_cons (show i + 1 < cur.length by omega)]; rfl
        rw [e]
        simp [Option.map_map, Function.comp_def]
      · rw [if_neg h, if_neg h]
        simp [List.set_eq_take_append_cons_drop, show i + 1 < cur.length by omega]

theorem incrementSlices_eq (shape cur : List Nat) (hl : cur.length = shape.length) :
    incrementSlices shape cur = succIdx shape cur := by
  unfold incrementSlices
  by_cases h : shape.length = 0
  · rw [if_pos h]
    have h1 := List.length_eq_zero_iff.1 h
    have h2 := List.length_eq_zero_iff.1 (hl.trans h)
    subst h1 h2
    simp [succIdx]
  · rw [if_neg h, go_eq shape _ _ cur (by omega) hl (by omega)]
    have e : shape.length - 1 + 1 = shape.length := by omega
    rw [e, List.take_length, ← hl, List.take_length, List.drop_length]
    simp

theorem run_eq (shape : List Nat) (hp : Pos shape) (fuel : Nat) (cur : List Nat) (h : InRange cur shape)
    (hf : prod shape ≤ fuel + ravel shape cur) :
    odometer.run shape fuel cur = (allIdx shape).drop (ravel shape cur) := by
  induction fuel generalizing cur with
  | zero => have := ravel_lt _ _ h; omega
  | succ f ih =>
    have hlt := ravel_lt _ _ h
    have hlt' : ravel shape cur < (allIdx shape).length := by rw [allIdx_length]; exact hlt
    have hcur : (allIdx shape)[ravel shape cur] = cur := by
      have := allIdx_ravel shape cur h
      rw [List.getElem?_eq_getElem hlt'] at this
      simpa using this
    obtain ⟨s1, s2⟩ := succIdx_spec shape cur hp h
    rw [List.drop_eq_getElem_cons hlt', hcur]
    simp only [odometer.run]
    rw [incrementSlices_eq shape cur (InRange_length h)]
    cases hsu : succIdx shape cur with
    | none =>
      have := s2 hsu
      simp only
      rw [List.drop_of_length_le (by rw [allIdx_length]; omega)]
    | some nxt =>
      obtain ⟨r1, r2⟩ := s1 nxt hsu
      simp only
      rw [ih nxt r1 (by omega), r2]

theorem odometer_enumerates (shape : List Nat) (hpos : Pos shape) : odometer shape = allIdx shape := by
  unfold odometer
  rw [run_eq shape hpos _ _ (zeros_InRange shape hpos) (by omega), ravel_zeros]
  rfl


/-! ### MatMul: the batch broadcast -/

theorem dim_take (l : List Nat) (n j : Nat) : dim (l.take n) j = if j < n then dim l j else 0 := by
  simp only [dim_eq, List.getElem?_take]; split <;> rfl

theorem padShape_tail (r : Nat) (ba t : List Nat) :
    padShape (r + t.length) (ba ++ t) = padShape r ba ++ t := by
  simp [padShape, Nat.add_sub_add_right]

/-- one operand of the batch broadcast: only the axes below `r` are stretched -/
theorem repA_batch (pA pB tA tB : List Nat) (da : List α) (r : Nat) (hA : pA.length = r) (hB : pB.length = r)
    (hpA : Pos pA) (hpB : Pos pB) (hc : ∀ j, j < r → dimCompat (dim pA j) (dim pB j) = true) :
    (repA (pA ++ tA) (pB ++ tB) r ⟨pA ++ tA, da⟩).shape = List.zipWith max pA pB ++ tA ∧
    ∀ idx, InRange idx (List.zipWith max pA pB ++ tA) →
      (repA (pA ++ tA) (pB ++ tB) r ⟨pA ++ tA, da⟩).get idx =
        (⟨pA ++ tA, da⟩ : Tensor α).get (pinLt r pA (idx.take r) ++ idx.drop r) := by
  obtain ⟨h1, h2, h3⟩ := repA_spec (pA ++ tA) (pB ++ tB) r (⟨pA ++ tA, da⟩ : Tensor α)
    (by simp; omega) (fun _ _ => rfl)
  have hshape : (repA (pA ++ tA) (pB ++ tB) r ⟨pA ++ tA, da⟩).shape = List.zipWith max pA pB ++ tA := by
    apply ext_dim
    · rw [h1]; simp [hA, hB]
    · intro j _
      rw [h2 j]
      simp only [dim_append, List.length_zipWith, hA, hB, Nat.min_self]
      by_cases hj : j < r
      · simp only [hj, if_true, true_and]
        rw [dim_zipWith _ _ _ _ (by omega) (by omega)]
        exact stretch_max _ _ (Pos_dim hpA (by omega)) (Pos_dim hpB (by omega)) ((dimCompat_iff _ _).1 (hc j hj))
      · simp [hj]
  refine ⟨hshape, ?_⟩
  intro idx hidx
  have hlen := InRange_length hidx
  simp only [List.length_append, List.length_zipWith, hA, hB, Nat.min_self] at hlen
  rw [← hshape] at hidx
  rw [(h3 idx hidx).2]
  congr 1
  apply ext_dim
  · simp [length_pinLt]; omega
  · intro j _
    have hmin : min r idx.length = r := by omega
    have L : dim (pinLt r (pA ++ tA) idx) j = if j < r ∧ dim (pA ++ tA) j = 1 then 0 else dim idx j :=
      dim_pinLt _ _ _ _
    have R : dim (pinLt r pA (idx.take r) ++ idx.drop r) j =
        if j < r then (if j < r ∧ dim pA j = 1 then 0 else dim idx j) else dim idx j := by
      rw [dim_append, length_pinLt, List.length_take, hmin, dim_pinLt, dim_take, dim_drop]
      by_cases hj : j < r
      · simp [hj]
      · simp only [hj, if_false]
        congr 1; omega
    rw [L, R, dim_append, hA]
    by_cases hj : j < r
    · simp [hj]
    · simp [hj]

theorem get_batch (ba t bi x : List Nat) (da : List α) (r : Nat) (hr : ba.length ≤ r) (hl : bi.length = r) :
    (⟨padShape r ba ++ t, da⟩ : Tensor α).get (pinLt r (padShape r ba) bi ++ x) =
      (⟨ba ++ t, da⟩ : Tensor α).get (pin ba bi ++ x) := by
  have hr' : r = (r - ba.length) + ba.length := by omega
  have := pinLt_pad ba bi (r - ba.length) (by omega)
  rw [← hr'] at this
  simp only [Tensor.get]
  rw [padShape, this, List.append_assoc, List.append_assoc, ravel_pad]

theorem broadcastBatch_eq (ba bb ta tb : List Nat) (da db : List α) (hta : ta.length = 2) (htb : tb.length = 2) :
    broadcastBatch (⟨ba ++ ta, da⟩ : Tensor α) ⟨bb ++ tb, db⟩ =
      repeatMulti (padShape (max ba.length bb.length) ba ++ ta) (padShape (max ba.length bb.length) bb ++ tb)
        (max ba.length bb.length)
        ⟨padShape (max ba.length bb.length) ba ++ ta, da⟩ ⟨padShape (max ba.length bb.length) bb ++ tb, db⟩ := by
  unfold broadcastBatch
  rw [reshape_eq]
  simp only [Tensor.rank, List.length_append, hta, htb]
  have e : max (ba.length + 2) (bb.length + 2) = max ba.length bb.length + 2 := by omega
  rw [e]
  have e1 := padShape_tail (max ba.length bb.length) ba ta
  have e2 := padShape_tail (max ba.length bb.length) bb tb
  rw [hta] at e1
  rw [htb] at e2
  rw [e1, e2]
  simp [length_padShape _ _ (Nat.le_max_left ba.length bb.length), hta]

theorem broadcastBatch_isOk (ba bb ta tb : List Nat) (da db : List α) (hta : ta.length = 2) (htb : tb.length = 2) :
    (broadcastBatch (⟨ba ++ ta, da⟩ : Tensor α) ⟨bb ++ tb, db⟩).isOk = Compatible ba bb := by
  rw [Bool.eq_iff_iff, broadcastBatch_eq _ _ _ _ _ _ hta htb, repeatMulti_isOk, compatible_iff]
  have hl1 := length_padShape (max ba.length bb.length) ba (Nat.le_max_left _ _)
  have hl2 := length_padShape (max ba.length bb.length) bb (Nat.le_max_right _ _)
  constructor
  · intro h j hj
    have := h j hj
    rwa [dim_append, dim_append, hl1, hl2, if_pos hj, if_pos hj] at this
  · intro h j hj
    rw [dim_append, dim_append, hl1, hl2, if_pos hj, if_pos hj]
    exact h j hj

theorem broadcastBatch_ok (ba bb ta tb : List Nat) (da db : List α) (hta : ta.length = 2) (htb : tb.length = 2)
    (hpa : Pos ba) (hpb : Pos bb) (hc : Compatible ba bb = true) :
    ∃ a2 b2, broadcastBatch (⟨ba ++ ta, da⟩ : Tensor α) ⟨bb ++ tb, db⟩ = .ok (a2, b2) ∧
      a2.shape = bshape ba bb ++ ta ∧ b2.shape = bshape ba bb ++ tb ∧
      (∀ bi x, bi.length = max ba.length bb.length → InRange (bi ++ x) (bshape ba bb ++ ta) →
        a2.get (bi ++ x) = (⟨ba ++ ta, da⟩ : Tensor α).get (pin ba bi ++ x)) ∧
      (∀ bi x, bi.length = max ba.length bb.length → InRange (bi ++ x) (bshape ba bb ++ tb) →
        b2.get (bi ++ x) = (⟨bb ++ tb, db⟩ : Tensor α).get (pin bb bi ++ x)) := by
  have hok := broadcastBatch_isOk ba bb ta tb da db hta htb
  rw [hc] at hok
  cases hr : broadcastBatch (⟨ba ++ ta, da⟩ : Tensor α) ⟨bb ++ tb, db⟩ with
  | error e => rw [hr] at hok; simp [Res.isOk] at hok
  | ok v =>
    obtain ⟨a2, b2⟩ := v
    rw [broadcastBatch_eq _ _ _ _ _ _ hta htb] at hr
    obtain ⟨e1, e2⟩ := repeatMulti_ok _ _ _ _ _ _ _ hr
    have hl1 := length_padShape (max ba.length bb.length) ba (Nat.le_max_left _ _)
    have hl2 := length_padShape (max ba.length bb.length) bb (Nat.le_max_right _ _)
    have hcc := (compatible_iff ba bb).1 hc
    have hcc' : ∀ j, j < max ba.length bb.length →
        dimCompat (dim (padShape (max ba.length bb.length) bb) j) (dim (padShape (max ba.length bb.length) ba) j) = true := by
      intro j hj; have := hcc j hj; rw [dimCompat_iff] at this ⊢; omega
    obtain ⟨sA, gA⟩ := repA_batch _ _ ta tb da _ hl1 hl2 (Pos_padShape _ _ hpa) (Pos_padShape _ _ hpb) hcc
    obtain ⟨sB, gB⟩ := repA_batch _ _ tb ta db _ hl2 hl1 (Pos_padShape _ _ hpb) (Pos_padShape _ _ hpa) hcc'
    rw [← e1] at sA gA
    rw [← e2] at sB gB
    rw [zipWith_max_comm] at sB gB
    refine ⟨a2, b2, rfl, sA, sB, ?_, ?_⟩
    · intro bi x hbi hin
      rw [gA _ hin, ← hbi, List.take_left, List.drop_left, hbi]
      exact get_batch ba ta bi x da _ (Nat.le_max_left _ _) hbi
    · intro bi x hbi hin
      rw [gB _ hin, ← hbi, List.take_left, List.drop_left, hbi]
      exact get_batch bb tb bi x db _ (Nat.le_max_right _ _) hbi


/-! ### MatMul: the batched product -/

theorem dim_snoc2_0 (bs : List Nat) (x y : Nat) : dim (bs ++ [x, y]) bs.length = x := by
  rw [dim_append]; simp [dim]

theorem dim_snoc2_1 (bs : List Nat) (x y : Nat) : dim (bs ++ [x, y]) (bs.length + 1) = y := by
  rw [dim_append, if_neg (by omega)]; simp [dim]

theorem batched_eq (A : Arith α) (a2 b2 : Tensor α) (bs : List Nat) (m k k' n : Nat)
    (ha : a2.shape = bs ++ [m, k]) (hb : b2.shape = bs ++ [k', n]) :
    batchedMatMul A a2 b2 =
      if m * k = 1 ∨ k' * n = 1 then .error .gorgonia
      else if k ≠ k' then .error .gorgonia
      else .ok (ofFn (bs ++ [m, n]) fun idx =>
        sumRange A k fun l =>
          A.mul (a2.get (idx.take bs.length ++ [idx.getD bs.length 0, l]))
            (b2.get (idx.take bs.length ++ [l, idx.getD (bs.length + 1) 0]))) := by
  unfold batchedMatMul
  have l2 : (bs ++ [m, k]).length - 2 = bs.length := by simp
  have l1 : (bs ++ [m, k]).length - 1 = bs.length + 1 := by simp
  simp only [ha, hb, l2, l1, dim_snoc2_0, dim_snoc2_1, List.take_left', ne_eq, not_true_eq_false, if_false]


/-! ### MatMul: removing the promoted axes -/

theorem InRange_append (x1 x2 s1 s2 : List Nat) (hl : x1.length = s1.length) :
    InRange (x1 ++ x2) (s1 ++ s2) ↔ InRange x1 s1 ∧ InRange x2 s2 := by
  induction x1 generalizing s1 with
  | nil =>
    cases s1 with
    | nil => simp [InRange]
    | cons n s1 => simp at hl
  | cons i x1 ih =>
    cases s1 with
    | nil => simp at hl
    | cons n s1 =>
      simp only [List.cons_append, InRange, ih s1 (by simpa using hl), and_assoc]

theorem InRange_split (idx s1 s2 : List Nat) (h : InRange idx (s1 ++ s2)) :
    InRange (idx.take s1.length) s1 ∧ InRange (idx.drop s1.length) s2 := by
  have hlen := InRange_length h
  rw [List.length_append] at hlen
  rw [← List.take_append_drop s1.length idx] at h
  exact (InRange_append _ _ _ _ (by rw [List.length_take]; omega)).1 h

theorem ravel_append (x1 x2 s1 s2 : List Nat) (hl : x1.length = s1.length) :
    ravel (s1 ++ s2) (x1 ++ x2) = ravel s1 x1 * prod s2 + ravel s2 x2 := by
  induction x1 generalizing s1 with
  | nil =>
    cases s1 with
    | nil => simp [ravel]
    | cons n s1 => simp at hl
  | cons i x1 ih =>
    cases s1 with
    | nil => simp at hl
    | cons n s1 =>
      simp only [List.cons_append, ravel, ih s1 (by simpa using hl), prod_append, Nat.add_mul, Nat.mul_assoc,
        Nat.add_assoc]

theorem tail_index (m n : Nat) (pre app : Prop) [Decidable pre] [Decidable app] (hm : pre → m = 1)
    (hn : app → n = 1) (rest : List Nat)
    (h : InRange rest ((if pre then [] else [m]) ++ (if app then [] else [n]))) :
    InRange [if pre then 0 else rest.getD 0 0, if app then 0 else rest.getD (if pre then 0 else 1) 0] [m, n] ∧
    ravel ((if pre then [] else [m]) ++ (if app then [] else [n])) rest =
      ravel [m, n] [if pre then 0 else rest.getD 0 0, if app then 0 else rest.getD (if pre then 0 else 1) 0] ∧
    prod ((if pre then [] else [m]) ++ (if app then [] else [n])) = prod [m, n] := by
  by_cases hp : pre <;> by_cases hq : app
  · have := hm hp; have := hn hq; subst m n
    simp only [hp, hq, if_true, List.append_nil] at h ⊢
    match rest, h with
    | [], _ => simp [InRange, ravel]
  · have := hm hp; subst m
    simp only [hp, hq, if_true, if_false, List.nil_append] at h ⊢
    match rest, h with
    | [j], h => simp only [InRange] at h; simp [InRange, ravel, h.1]
  · have := hn hq; subst n
    simp only [hp, hq, if_true, if_false, List.append_nil] at h ⊢
    match rest, h with
    | [i], h => simp only [InRange] at h; simp [InRange, ravel, h.1]
  · simp only [hp, hq, if_false, List.cons_append, List.nil_append] at h ⊢
    match rest, h with
    | [i, j], h => simp only [InRange] at h; simp [InRange, h.1, h.2.1]

theorem out_index (bs : List Nat) (m n : Nat) (pre app : Prop) [Decidable pre] [Decidable app] (hm : pre → m = 1)
    (hn : app → n = 1) (idx : List Nat)
    (h : InRange idx (bs ++ (if pre then [] else [m]) ++ (if app then [] else [n]))) :
    InRange (idx.take bs.length ++ [if pre then 0 else (idx.drop bs.length).getD 0 0,
      if app then 0 else (idx.drop bs.length).getD (if pre then 0 else 1) 0]) (bs ++ [m, n]) ∧
    ravel (bs ++ (if pre then [] else [m]) ++ (if app then [] else [n])) idx =
      ravel (bs ++ [m, n]) (idx.take bs.length ++ [if pre then 0 else (idx.drop bs.length).getD 0 0,
        if app then 0 else (idx.drop bs.length).getD (if pre then 0 else 1) 0]) ∧
    prod (bs ++ (if pre then [] else [m]) ++ (if app then [] else [n])) = prod (bs ++ [m, n]) := by
  rw [List.append_assoc] at h ⊢
  obtain ⟨h1, h2⟩ := InRange_split _ _ _ h
  have hl := InRange_length h1
  obtain ⟨t1, t2, t3⟩ := tail_index m n pre app hm hn _ h2
  refine ⟨(InRange_append _ _ _ _ hl).2 ⟨h1, t1⟩, ?_, ?_⟩
  · rw [ravel_append _ _ _ _ hl, ← t2, ← t3, ← ravel_append _ _ _ _ hl, List.take_append_drop]
  · rw [prod_append, t3, prod_append]

/-- the model's removal of the axes added for rank-1 operands -/
def squeeze (pre app : Prop) [Decidable pre] [Decidable app] (out : Tensor α) : Tensor α :=
  let out1 : Tensor α := if pre then { out with shape := out.shape.eraseIdx (out.shape.length - 2) } else out
  if app then { out1 with shape := out1.shape.dropLast } else out1

omit [Inhabited α] in
theorem squeeze_eq (pre app : Prop) [Decidable pre] [Decidable app] (out : Tensor α) (bs : List Nat) (m n : Nat)
    (ho : out.shape = bs ++ [m, n]) :
    squeeze pre app out = ⟨bs ++ (if pre then [] else [m]) ++ (if app then [] else [n]), out.data⟩ := by
  obtain ⟨os, od⟩ := out
  simp only at ho
  subst ho
  unfold squeeze
  have e1 : (bs ++ [m, n]).eraseIdx bs.length = bs ++ [n] := by
    rw [List.eraseIdx_append_of_length_le (by simp)]
    simp
  have e2 : (bs ++ [n]).dropLast = bs := by simp
  have e3 : (bs ++ [m, n]).dropLast = bs ++ [m] := by
    rw [show bs ++ [m, n] = (bs ++ [m]) ++ [n] by simp]; exact List.dropLast_concat
  by_cases hp : pre <;> by_cases hq : app <;> simp [hp, hq, e1, e2, e3]


theorem out_prod (bs : List Nat) (m n : Nat) (pre app : Prop) [Decidable pre] [Decidable app] (hm : pre → m = 1)
    (hn : app → n = 1) :
    prod (bs ++ (if pre then [] else [m]) ++ (if app then [] else [n])) = prod (bs ++ [m, n]) := by
  rw [List.append_assoc, prod_append, prod_append bs [m, n]]
  congr 1
  by_cases hp : pre <;> by_cases hq : app
  · have := hm hp; have := hn hq; subst m n; simp [hp, hq]
  · have := hm hp; subst m; simp [hp, hq]
  · have := hn hq; subst n; simp [hp, hq]
  · simp [hp, hq]

/-! ### MatMul: canonical forms of model and spec -/

theorem split_last2 (s : List Nat) (h : 2 ≤ s.length) :
    s = s.take (s.length - 2) ++ [dim s (s.length - 2), dim s (s.length - 1)] := by
  apply ext_dim
  · simp; omega
  · intro j hj
    rw [dim_append, dim_take, List.length_take]
    have hmin : min (s.length - 2) s.length = s.length - 2 := by omega
    rw [hmin]
    by_cases h1 : j < s.length - 2
    · simp [h1]
    · rw [if_neg h1]
      by_cases h2 : j = s.length - 2
      · rw [h2]; simp [dim]
      · have h3 : j = s.length - 1 := by omega
        have h4 : s.length - 1 - (s.length - 2) = 1 := by omega
        rw [h3, h4]; simp [dim]

theorem promoteA (s : List Nat) (h0 : s.length ≠ 0) :
    ∃ ba m k, (if s.length = 1 then [1, dim s 0] else s) = ba ++ [m, k] ∧ (s.length = 1 → m = 1) := by
  by_cases h1 : s.length = 1
  · exact ⟨[], 1, dim s 0, by simp [h1], fun _ => rfl⟩
  · refine ⟨s.take (s.length - 2), dim s (s.length - 2), dim s (s.length - 1), ?_, fun h => absurd h h1⟩
    rw [if_neg h1]; exact split_last2 s (by omega)

theorem promoteB (s : List Nat) (h0 : s.length ≠ 0) :
    ∃ bb k n, (if s.length = 1 then [dim s 0, 1] else s) = bb ++ [k, n] ∧ (s.length = 1 → n = 1) := by
  by_cases h1 : s.length = 1
  · exact ⟨[], dim s 0, 1, by simp [h1], fun _ => rfl⟩
  · refine ⟨s.take (s.length - 2), dim s (s.length - 2), dim s (s.length - 1), ?_, fun h => absurd h h1⟩
    rw [if_neg h1]; exact split_last2 s (by omega)

/-- the value numpy.matmul prescribes, with the promoted operand shapes split into batch and matrix axes -/
def specOut (A : Arith α) (pre app : Prop) [Decidable pre] [Decidable app] (ba bb : List Nat) (m k n : Nat)
    (a' b' : Tensor α) : Tensor α :=
  ofFn (bshape ba bb ++ (if pre then [] else [m]) ++ (if app then [] else [n])) fun idx =>
    sumRange A k fun l =>
      A.mul (a'.get (pin ba (idx.take (bshape ba bb).length) ++
          [if pre then 0 else (idx.drop (bshape ba bb).length).getD 0 0, l]))
        (b'.get (pin bb (idx.take (bshape ba bb).length) ++
          [l, if app then 0 else (idx.drop (bshape ba bb).length).getD (if pre then 0 else 1) 0]))

theorem spec_matmul_eq (A : Arith α) (a b : Tensor α) (ba bb : List Nat) (m k k' n : Nat)
    (h0 : ¬ (a.shape.length = 0 ∨ b.shape.length = 0))
    (hsa : (if a.shape.length = 1 then [1, dim a.shape 0] else a.shape) = ba ++ [m, k])
    (hsb : (if b.shape.length = 1 then [dim b.shape 0, 1] else b.shape) = bb ++ [k', n]) :
    Spec.matmul A a b =
      if k ≠ k' ∨ (!Compatible ba bb) = true then none
      else some (specOut A (a.shape.length = 1) (b.shape.length = 1) ba bb m k n
        ⟨ba ++ [m, k], a.data⟩ ⟨bb ++ [k', n], b.data⟩) := by
  unfold Spec.matmul specOut
  rw [if_neg h0]
  have l2 : ∀ (bs : List Nat) (x y : Nat), (bs ++ [x, y]).length - 2 = bs.length := by intros; simp
  have l1 : ∀ (bs : List Nat) (x y : Nat), (bs ++ [x, y]).length - 1 = bs.length + 1 := by intros; simp
  simp only [hsa, hsb, l2, l1, dim_snoc2_0, dim_snoc2_1, List.take_left']

theorem matmulOp_eq (A : Arith α) (a b : Tensor α) (h22 : ¬ (a.shape.length = 2 ∧ b.shape.length = 2))
    (h0 : ¬ (a.shape.length = 0 ∨ b.shape.length = 0)) :
    matmulOp A a b =
      match broadcastBatch (⟨if a.shape.length = 1 then [1, dim a.shape 0] else a.shape, a.data⟩ : Tensor α)
          ⟨if b.shape.length = 1 then [dim b.shape 0, 1] else b.shape, b.data⟩ with
      | .error e => .error e
      | .ok (a2, b2) =>
        match batchedMatMul A a2 b2 with
        | .error e => .error e
        | .ok out => .ok (squeeze (a.shape.length = 1) (b.shape.length = 1) out) := by
  unfold matmulOp
  rw [if_neg h22, if_neg h0]
  have ea : (if a.shape.length = 1 then { a with shape := [1, dim a.shape 0] } else a) =
      (⟨if a.shape.length = 1 then [1, dim a.shape 0] else a.shape, a.data⟩ : Tensor α) := by
    split <;> rfl
  have eb : (if b.shape.length = 1 then { b with shape := [dim b.shape 0, 1] } else b) =
      (⟨if b.shape.length = 1 then [dim b.shape 0, 1] else b.shape, b.data⟩ : Tensor α) := by
    split <;> rfl
  simp only [ea, eb]
  rfl


/-! ### MatMul: the theorems -/

omit [Inhabited α] in
theorem Pos_promoteA (s : List Nat) (h : Pos s) : Pos (if s.length = 1 then [1, dim s 0] else s) := by
  split
  · next h1 =>
    intro n hn
    simp only [List.mem_cons, List.not_mem_nil, or_false] at hn
    rcases hn with rfl | rfl
    · omega
    · exact Pos_dim h (by omega)
  · exact h

omit [Inhabited α] in
theorem Pos_promoteB (s : List Nat) (h : Pos s) : Pos (if s.length = 1 then [dim s 0, 1] else s) := by
  split
  · next h1 =>
    intro n hn
    simp only [List.mem_cons, List.not_mem_nil, or_false] at hn
    rcases hn with rfl | rfl
    · exact Pos_dim h (by omega)
    · omega
  · exact h

omit [Inhabited α] in
theorem Pos_left (l1 l2 : List Nat) (h : Pos (l1 ++ l2)) : Pos l1 :=
  fun n hn => h n (List.mem_append_left _ hn)

theorem getD_append_len0 (l : List Nat) (n x y : Nat) (h : l.length = n) : (l ++ [x, y]).getD n 0 = x := by
  subst h; simp

theorem getD_append_len1 (l : List Nat) (n x y : Nat) (h : l.length = n) : (l ++ [x, y]).getD (n + 1) 0 = y := by
  subst h
  rw [List.getD_eq_getElem?_getD, List.getElem?_append_right (by omega)]
  simp

/-- the general (vector / batched) path of MatMul -/
theorem matmul_general (A : Arith α) (a b : Tensor α) (ba bb : List Nat) (m k k' n : Nat)
    (h22 : ¬ (a.shape.length = 2 ∧ b.shape.length = 2))
    (h0 : ¬ (a.shape.length = 0 ∨ b.shape.length = 0))
    (hsa : (if a.shape.length = 1 then [1, dim a.shape 0] else a.shape) = ba ++ [m, k])
    (hsb : (if b.shape.length = 1 then [dim b.shape 0, 1] else b.shape) = bb ++ [k', n])
    (hm : a.shape.length = 1 → m = 1) (hn : b.shape.length = 1 → n = 1)
    (hpa : Pos ba) (hpb : Pos bb) (hc : Compatible ba bb = true) (hk : k = k')
    (h1 : m * k ≠ 1 ∧ k' * n ≠ 1) :
    ∃ r, matmulOp A a b = .ok r ∧
      Equiv r (specOut A (a.shape.length = 1) (b.shape.length = 1) ba bb m k n
        ⟨ba ++ [m, k], a.data⟩ ⟨bb ++ [k', n], b.data⟩) := by
  subst hk
  obtain ⟨a2, b2, hbb, sA, sB, gA, gB⟩ := broadcastBatch_ok ba bb [m, k] [k, n] a.data b.data rfl rfl hpa hpb hc
  have hbm := batched_eq A a2 b2 (bshape ba bb) m k k n sA sB
  rw [if_neg (by omega), if_neg (by simp)] at hbm
  obtain ⟨out, hbm, hos, hoW, hog⟩ : ∃ out, batchedMatMul A a2 b2 = .ok out ∧
      out.shape = bshape ba bb ++ [m, n] ∧ out.WF ∧
      ∀ fidx, InRange fidx (bshape ba bb ++ [m, n]) → out.get fidx =
        sumRange A k fun l =>
          A.mul (a2.get (fidx.take (bshape ba bb).length ++ [fidx.getD (bshape ba bb).length 0, l]))
            (b2.get (fidx.take (bshape ba bb).length ++ [l, fidx.getD ((bshape ba bb).length + 1) 0])) :=
    ⟨_, hbm, rfl, ofFn_WF _ _, fun fidx h => get_ofFn _ _ _ h⟩
  refine ⟨squeeze (a.shape.length = 1) (b.shape.length = 1) out, ?_, ?_⟩
  · rw [matmulOp_eq A a b h22 h0]
    simp only [hsa, hsb, hbb, hbm]
  · rw [squeeze_eq _ _ _ (bshape ba bb) m n hos]
    have hWF : (⟨bshape ba bb ++ (if a.shape.length = 1 then [] else [m]) ++
        (if b.shape.length = 1 then [] else [n]), out.data⟩ : Tensor α).WF := by
      unfold Tensor.WF at hoW ⊢
      rw [hoW, hos]
      exact (out_prod _ m n _ _ hm hn).symm
    refine ⟨rfl, hWF, ofFn_WF _ _, ?_⟩
    intro idx hidx
    simp only at hidx
    unfold specOut
    rw [get_ofFn _ _ _ hidx]
    obtain ⟨o1, o2, _⟩ := out_index (bshape ba bb) m n _ _ hm hn idx hidx
    have hget : ∀ (sh : List Nat) (fidx : List Nat), ravel sh idx = ravel out.shape fidx →
        (⟨sh, out.data⟩ : Tensor α).get idx = out.get fidx := by
      intro sh fidx hr
      simp only [Tensor.get, hr]
    rw [hget _ _ (by rw [o2, hos]), hog _ o1]
    have hidx' := hidx
    rw [List.append_assoc] at hidx'
    obtain ⟨i1, _⟩ := InRange_split _ _ _ hidx'
    have hl := InRange_length i1
    have hlb : (idx.take (bshape ba bb).length).length = max ba.length bb.length := by
      rw [hl, length_bshape]
    have i2 := ((InRange_append _ _ _ _ hl).1 o1).2
    rw [InRange2] at i2
    rw [List.take_left' hl]
    have g0 := fun x y : Nat => getD_append_len0 _ _ x y hl
    have g1 := fun x y : Nat => getD_append_len1 _ _ x y hl
    simp only [g0, g1]
    apply sumRange_congr
    intro l hl'
    rw [gA _ _ hlb ((InRange_append _ _ _ _ hl).2 ⟨i1, (InRange2 _ _ _ _).2 ⟨i2.1, hl'⟩⟩),
      gB _ _ hlb ((InRange_append _ _ _ _ hl).2 ⟨i1, (InRange2 _ _ _ _).2 ⟨hl', i2.2⟩⟩)]


theorem compatible_nil : Compatible [] [] = true := by decide

theorem bshape_nil : bshape [] [] = [] := by decide

/-- the rank-2 × rank-2 path -/
theorem matmul_22 (A : Arith α) (a b : Tensor α) (m k k' n : Nat) (ha : a.shape = [m, k]) (hb : b.shape = [k', n])
    (hk : k = k') :
    ∃ r, matmulOp A a b = .ok r ∧
      Equiv r (specOut A (a.shape.length = 1) (b.shape.length = 1) [] [] m k n
        ⟨[] ++ [m, k], a.data⟩ ⟨[] ++ [k', n], b.data⟩) := by
  subst hk
  obtain ⟨sa, da⟩ := a
  obtain ⟨sb, db⟩ := b
  simp only at ha hb
  subst ha hb
  have hmm : matmulOp A (⟨[m, k], da⟩ : Tensor α) ⟨[k, n], db⟩ = mm2 A ⟨[m, k], da⟩ ⟨[k, n], db⟩ := by
    unfold matmulOp
    rw [if_pos (by simp)]
  rw [mm2_ok A _ _ m k n rfl rfl] at hmm
  refine ⟨_, hmm, ?_⟩
  · unfold specOut
    simp only [bshape_nil, List.length_cons, List.length_nil, List.nil_append, List.take_zero, List.drop_zero,
      Nat.reduceEqDiff, if_false, List.cons_append]
    refine ⟨rfl, ofFn_WF _ _, ofFn_WF _ _, ?_⟩
    intro idx hidx
    simp only [ofFn_shape] at hidx
    rw [get_ofFn _ _ _ hidx, get_ofFn _ _ _ hidx]
    simp [pin]

-- `hWa`, `hWb` are part of the fixed statement; both sides read the operands at the same in-range positions
set_option linter.unusedVariables false in
theorem matmul_partial (A : Arith α) (a b : Tensor α) (hWa : a.WF) (hWb : b.WF)
    (hpa : Pos a.shape) (hpb : Pos b.shape)
    (hg : (a.shape.length = 2 ∧ b.shape.length = 2) ∨
      (let sa := if a.shape.length = 1 then [1, dim a.shape 0] else a.shape
       let sb := if b.shape.length = 1 then [dim b.shape 0, 1] else b.shape
       dim sa (sa.length - 2) * dim sa (sa.length - 1) ≠ 1 ∧ dim sb (sb.length - 2) * dim sb (sb.length - 1) ≠ 1))
    (s : Tensor α) (hs : Spec.matmul A a b = some s) :
    ∃ m, matmulOp A a b = .ok m ∧ Equiv m s := by
  have h0 : ¬ (a.shape.length = 0 ∨ b.shape.length = 0) := by
    intro h0
    unfold Spec.matmul at hs
    rw [if_pos h0] at hs
    cases hs
  by_cases h22 : a.shape.length = 2 ∧ b.shape.length = 2
  · obtain ⟨m, k, ha⟩ := length_two _ h22.1
    obtain ⟨k', n, hb⟩ := length_two _ h22.2
    rw [spec_matmul_eq A a b [] [] m k k' n h0 (by simp [ha]) (by simp [hb])] at hs
    by_cases hc : k ≠ k' ∨ (!Compatible [] []) = true
    · rw [if_pos hc] at hs; cases hs
    · rw [if_neg hc] at hs
      cases hs
      exact matmul_22 A a b m k k' n ha hb (by omega)
  · obtain ⟨ba, m, k, hsa, hm⟩ := promoteA a.shape (by omega)
    obtain ⟨bb, k', n, hsb, hn⟩ := promoteB b.shape (by omega)
    rw [spec_matmul_eq A a b ba bb m k k' n h0 hsa hsb] at hs
    by_cases hc : k ≠ k' ∨ (!Compatible ba bb) = true
    · rw [if_pos hc] at hs; cases hs
    · rw [if_neg hc] at hs
      cases hs
      simp only [not_or, Decidable.not_not, Bool.not_eq_eq_eq_not, Bool.not_true, Bool.not_eq_false] at hc
      have h1 : m * k ≠ 1 ∧ k' * n ≠ 1 := by
        rcases hg with hg | hg
        · exact absurd hg h22
        · have l2 : ∀ (bs : List Nat) (x y : Nat), (bs ++ [x, y]).length - 2 = bs.length := by intros; simp
          have l1 : ∀ (bs : List Nat) (x y : Nat), (bs ++ [x, y]).length - 1 = bs.length + 1 := by intros; simp
          simpa only [hsa, hsb, l2, l1, dim_snoc2_0, dim_snoc2_1] using hg
      have pA := Pos_promoteA a.shape hpa
      have pB := Pos_promoteB b.shape hpb
      rw [hsa] at pA
      rw [hsb] at pB
      exact matmul_general A a b ba bb m k k' n h22 h0 hsa hsb hm hn (Pos_left _ _ pA) (Pos_left _ _ pB)
        hc.2 hc.1 h1

theorem matmul_refuses (A : Arith α) (a b : Tensor α) (hpa : Pos a.shape) (hpb : Pos b.shape)
    (hs : Spec.matmul A a b = none) :
    ∀ m, matmulOp A a b ≠ .ok m := by
  intro r hr
  by_cases h0 : a.shape.length = 0 ∨ b.shape.length = 0
  · unfold matmulOp at hr
    rw [if_neg (by omega), if_pos h0] at hr
    cases hr
  by_cases h22 : a.shape.length = 2 ∧ b.shape.length = 2
  · obtain ⟨m, k, ha⟩ := length_two _ h22.1
    obtain ⟨k', n, hb⟩ := length_two _ h22.2
    rw [spec_matmul_eq A a b [] [] m k k' n h0 (by simp [ha]) (by simp [hb])] at hs
    by_cases hc : k ≠ k' ∨ (!Compatible [] []) = true
    · unfold matmulOp at hr
      rw [if_pos h22] at hr
      obtain ⟨m', k'', n', ea, eb⟩ := mm2_inv A a b r hr
      rw [ha] at ea
      rw [hb] at eb
      simp only [List.cons.injEq, and_true] at ea eb
      rcases hc with hc | hc
      · omega
      · simp [compatible_nil] at hc
    · rw [if_neg hc] at hs; cases hs
  · obtain ⟨ba, m, k, hsa, hm⟩ := promoteA a.shape (by omega)
    obtain ⟨bb, k', n, hsb, hn⟩ := promoteB b.shape (by omega)
    rw [spec_matmul_eq A a b ba bb m k k' n h0 hsa hsb] at hs
    rw [matmulOp_eq A a b h22 h0] at hr
    simp only [hsa, hsb] at hr
    by_cases hcc : Compatible ba bb = true
    · have hk : k ≠ k' := by
        intro hk
        rw [if_neg (by simp [hk, hcc])] at hs
        cases hs
      have pA := Pos_promoteA a.shape hpa
      have pB := Pos_promoteB b.shape hpb
      rw [hsa] at pA
      rw [hsb] at pB
      obtain ⟨a2, b2, hbb, sA, sB, _, _⟩ := broadcastBatch_ok ba bb [m, k] [k', n] a.data b.data rfl rfl
        (Pos_left _ _ pA) (Pos_left _ _ pB) hcc
      have hbm := batched_eq A a2 b2 (bshape ba bb) m k k' n sA sB
      have hbe : ∃ e, batchedMatMul A a2 b2 = .error e := by
        rw [hbm]
        by_cases h1 : m * k = 1 ∨ k' * n = 1
        · rw [if_pos h1]; exact ⟨_, rfl⟩
        · rw [if_neg h1, if_pos hk]; exact ⟨_, rfl⟩
      obtain ⟨e, hbe⟩ := hbe
      rw [hbb] at hr
      simp only [hbe] at hr
      cases hr
    · have hok := broadcastBatch_isOk ba bb [m, k] [k', n] a.data b.data rfl rfl
      cases hbb : broadcastBatch (⟨ba ++ [m, k], a.data⟩ : Tensor α) ⟨bb ++ [k', n], b.data⟩ with
      | error e => rw [hbb] at hr; cases hr
      | ok v =>
        rw [hbb] at hok
        simp only [Res.isOk] at hok
        exact hcc hok.symm

end Gonnx.Proofs.MatMul
