import Gonnx.Proofs.Batch2
/-
C16, second part: Conv acts per sample (batch = axis 0 of X and Y). Helper lemmas for
Theorems/C16b.lean: the specification `Spec.conv` of a sample is the slice of the specification of
the batch; the model inherits this through `conv_explicit_partial`.
-/
namespace Gonnx.Proofs.Batch2
open Gonnx Gonnx.Spec Gonnx.Proofs Gonnx.Proofs.Batch Gonnx.C05
variable {α : Type} [Inhabited α]

/-- `Spec.conv` looks at the input's shape only through its rank, channel extent and spatial
extents: on another input with the same ones it succeeds with the same geometry -/
theorem conv_spec_transfer (A : Arith α) (dil strides pads : List Nat) (x x' w : Tensor α)
    (bias : Option (Tensor α))
    (e1 : x'.shape.length = x.shape.length) (e2 : dim x'.shape 1 = dim x.shape 1)
    (e3 : x'.shape.drop 2 = x.shape.drop 2)
    (s : Tensor α) (hs : Spec.conv A "NOTSET" dil strides pads x w bias = some s) :
    ∃ dil' strides' pb k pe dk,
      s = Spec.conv.go A dil' strides' pb (x.shape.drop 2) k x w bias (x.shape.length - 2) pe dk ∧
      Spec.conv A "NOTSET" dil strides pads x' w bias =
        some (Spec.conv.go A dil' strides' pb (x.shape.drop 2) k x' w bias (x.shape.length - 2) pe dk) := by
  unfold Spec.conv at hs ⊢
  simp only [e1, e2, e3] at hs ⊢
  generalize (if dil.isEmpty = true then List.replicate (x.shape.length - 2) 1 else dil) = dil' at hs ⊢
  generalize (if strides.isEmpty = true then List.replicate (x.shape.length - 2) 1 else strides) = strides' at hs ⊢
  generalize (convPads "NOTSET" pads (List.drop 2 x.shape) strides'
    (List.zipWith (fun k d => (k - 1) * d + 1) (List.drop 2 w.shape) dil')) = pp at hs ⊢
  split at hs
  · cases hs
  next hc1 =>
  rw [if_neg hc1]
  split at hs
  · cases hs
  next hc2 =>
  rw [if_neg hc2]
  cases bias with
  | none =>
    simp only at hs ⊢
    cases hs
    exact ⟨_, _, _, _, _, _, rfl, rfl⟩
  | some b =>
    simp only at hs ⊢
    split at hs
    · cases hs
    next hc3 =>
    rw [if_neg hc3]
    cases hs
    exact ⟨_, _, _, _, _, _, rfl, rfl⟩

theorem inside_InRange (sp : List Nat) (pos : List Int) (hl : pos.length = sp.length)
    (h : ((List.range sp.length).all fun i => decide (0 ≤ pos.getD i 0 ∧ pos.getD i 0 < (dim sp i : Int))) = true) :
    InRange (pos.map Int.toNat) sp := by
  rw [InRange_dim]
  refine ⟨by simp [hl], ?_⟩
  intro j hj
  rw [List.all_eq_true] at h
  have := h j (List.mem_range.2 hj)
  simp only [decide_eq_true_eq] at this
  have hj' : j < pos.length := by omega
  have e : dim (pos.map Int.toNat) j = (pos.getD j 0).toNat := by
    simp [dim_eq, List.getD, List.getElem?_eq_getElem hj']
  rw [e]
  omega

/-- the accumulated sum of the spec for a sample is the one of the batch at the batch coordinate -/
theorem specAcc_sample (A : Arith α) (dil strides pb k : List Nat) (x w : Tensor α)
    (N C : Nat) (sp : List Nat) (hx : x.shape = N :: C :: sp) (n : Nat) (_hn : n < N)
    (i0 i1 : Nat) (o : List Nat) (h0 : i0 = 0) :
    Conv.specAcc A dil strides pb sp k (takeBatch 0 n x) w sp.length C (i0 :: i1 :: o) =
      Conv.specAcc A dil strides pb sp k x w sp.length C (n :: i1 :: o) := by
  subst h0
  unfold Conv.specAcc
  apply Conv.foldl_congr_mem
  intro acc tap htap
  simp only [List.drop_succ_cons, List.drop_zero, List.getD_cons_zero, List.getD_cons_succ]
  congr 2
  split
  · next hin =>
    have hpos := inside_InRange sp _ (by simp) hin
    have hc : tap.getD 0 0 < C := by
      have := mem_allIdx.1 htap
      cases tap with
      | nil => simp [InRange] at this
      | cons c kap => simp only [InRange] at this; simpa using this.1
    have hr : InRange ([0, tap.getD 0 0] ++ List.map Int.toNat
        ((List.range sp.length).map fun i =>
          ((o.getD i 0 * dim strides i + (tap.drop 1).getD i 0 * dim dil i : Nat) : Int) - (dim pb i : Int)))
        (x.shape.set 0 1) := by
      rw [hx]
      simp only [List.set_cons_zero, List.cons_append, List.nil_append, InRange]
      exact ⟨by omega, hc, hpos⟩
    rw [takeBatch_get 0 n x _ hr]
    rfl
  · rfl

theorem ofFn_sample (s : List Nat) (N n : Nat) (hn : n < N) (F F' : List Nat → α)
    (h : ∀ idx, InRange idx (1 :: s) → F' idx = F (idx.set 0 n)) :
    Equiv (ofFn (1 :: s) F') (takeBatch 0 n (ofFn (N :: s) F)) := by
  refine ⟨by simp [takeBatch], ofFn_WF _ _, ofFn_WF _ _, ?_⟩
  intro idx hidx
  have hidx1 : InRange idx (1 :: s) := hidx
  have hidx' : InRange idx ((ofFn (N :: s) F).shape.set 0 1) := hidx
  have hset : InRange (idx.set 0 n) (N :: s) := InRange_set _ _ 0 n hidx' (by simp [dim]; exact hn)
  rw [get_ofFn _ _ _ hidx1, takeBatch_get _ _ _ _ hidx', get_ofFn _ _ _ hset]
  exact h idx hidx1

theorem go_sample (A : Arith α) (dil strides pb k : List Nat) (x w : Tensor α) (bias : Option (Tensor α))
    (pe dk : List Nat) (N C : Nat) (sp : List Nat) (hx : x.shape = N :: C :: sp) (n : Nat) (hn : n < N) :
    Equiv (Spec.conv.go A dil strides pb sp k (takeBatch 0 n x) w bias sp.length pe dk)
      (takeBatch 0 n (Spec.conv.go A dil strides pb sp k x w bias sp.length pe dk)) := by
  rw [Conv.go_eq, Conv.go_eq]
  have hs0 : dim (takeBatch 0 n x).shape 0 = 1 := by simp [takeBatch, hx, dim]
  have hs1 : dim (takeBatch 0 n x).shape 1 = C := by simp [takeBatch, hx, dim]
  have hx0 : dim x.shape 0 = N := by simp [hx, dim]
  have hx1 : dim x.shape 1 = C := by simp [hx, dim]
  rw [hs0, hs1, hx0, hx1]
  apply ofFn_sample _ N n hn
  intro idx hidx
  match idx, hidx with
  | i0 :: i1 :: o, hidx =>
    have h0 : i0 = 0 := by
      simp only [InRange] at hidx
      omega
    simp only [List.set_cons_zero, List.getD_cons_zero, List.getD_cons_succ]
    rw [specAcc_sample A dil strides pb k x w N C sp hx n hn i0 i1 o h0]

/-- the specification of a sample is the slice of the specification of the batch -/
theorem conv_spec_sample (A : Arith α) (dil strides pads : List Nat) (x w : Tensor α)
    (bias : Option (Tensor α)) (hrank : x.shape.length = 3 ∨ x.shape.length = 4)
    (s : Tensor α) (hs : Spec.conv A "NOTSET" dil strides pads x w bias = some s)
    (n : Nat) (hn : n < dim x.shape 0) :
    ∃ s', Spec.conv A "NOTSET" dil strides pads (takeBatch 0 n x) w bias = some s' ∧
      Equiv s' (takeBatch 0 n s) := by
  obtain ⟨N, C, sp, hx, _⟩ := Conv.shape_split x.shape hrank
  have hsh : (takeBatch 0 n x).shape = 1 :: C :: sp := by simp [takeBatch, hx]
  obtain ⟨dil', strides', pb, k, pe, dk, e, h⟩ := conv_spec_transfer A dil strides pads x (takeBatch 0 n x) w bias
    (by rw [hsh, hx]; rfl) (by rw [hsh, hx]; rfl) (by rw [hsh, hx]; rfl) s hs
  have hd : x.shape.drop 2 = sp := by rw [hx]; rfl
  have hl : x.shape.length - 2 = sp.length := by rw [hx]; simp
  rw [hd, hl] at e h
  refine ⟨_, h, ?_⟩
  rw [e]
  exact go_sample A dil' strides' pb k x w bias pe dk N C sp hx n (by simpa [hx, dim] using hn)

/-- Conv: the result for sample `n` of a batch is what the sample gets when it is convolved alone -/
theorem conv_batch_partial (A : Arith α) (hA : ZeroLaws A) (x w : Tensor α) (bias : Option (Tensor α))
    (dil strides pads : List Nat)
    (hWb : ∀ b, bias = some b → b.WF)
    (hpx : Pos x.shape) (hpw : Pos w.shape)
    (hrank : x.shape.length = 3 ∨ x.shape.length = 4)
    (hdl : dil.length = x.shape.length - 2) (hsl : strides.length = x.shape.length - 2)
    (hpl : pads.length = 2 * (x.shape.length - 2))
    (hdp : ∀ d ∈ dil, 0 < d) (hsp : ∀ s ∈ strides, 0 < s)
    (hk2 : ∀ k ∈ dkernel w dil, 2 ≤ k)
    (s : Tensor α) (hs : Spec.conv A "NOTSET" dil strides pads x w bias = some s)
    (n : Nat) (hn : n < dim x.shape 0) :
    ∃ m mn,
      convOp A { autoPad := "NOTSET", dilations := dil, strides := strides, pads := pads.map (fun (p : Nat) => (p : Int)) } x w bias = .ok m ∧
      convOp A { autoPad := "NOTSET", dilations := dil, strides := strides, pads := pads.map (fun (p : Nat) => (p : Int)) } (takeBatch 0 n x) w bias = .ok mn ∧
      Equiv mn (takeBatch 0 n m) := by
  obtain ⟨m, hm, hms⟩ := Conv.conv_explicit_partial A hA x w bias dil strides pads hWb hpx hpw hrank hdl hsl hpl
    hdp hsp hk2 s hs
  obtain ⟨s', hs', hss'⟩ := conv_spec_sample A dil strides pads x w bias hrank s hs n hn
  have hlen : (takeBatch 0 n x).shape.length = x.shape.length := by simp [takeBatch]
  have hpx' : Pos (takeBatch 0 n x).shape := (Good_ofFn_set _ _ _ hpx).2
  obtain ⟨mn, hmn, hmns⟩ := Conv.conv_explicit_partial A hA (takeBatch 0 n x) w bias dil strides pads hWb hpx' hpw
    (by rw [hlen]; exact hrank) (by rw [hlen]; exact hdl) (by rw [hlen]; exact hsl) (by rw [hlen]; exact hpl)
    hdp hsp hk2 s' hs'
  refine ⟨m, mn, hm, hmn, ?_⟩
  have hnm : n < dim m.shape 0 := by
    rw [hms.1]
    obtain ⟨_, _, _, _, _, _, e, _⟩ := conv_spec_transfer A dil strides pads x x w bias rfl rfl rfl s hs
    rw [e, Conv.go_eq]
    simpa [dim] using hn
  exact equiv_trans hmns (equiv_trans hss' (equiv_symm (equiv_takeBatch 0 n hms hnm)))

end Gonnx.Proofs.Batch2
