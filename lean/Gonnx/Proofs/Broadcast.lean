import Gonnx.Broadcast
import Gonnx.Spec.Broadcast
/-
Helper lemmas for C14 (and C03, C04, C10 which reuse them).
Both repeat loops are reduced to a one-operand view (`repA`) whose loop invariant is `repA_spec`;
lists are compared pointwise through `dim l j = l.getD j 0`.
-/
namespace Gonnx.Proofs
open Gonnx Gonnx.Spec
variable {α : Type} [Inhabited α]

def Pos (s : List Nat) : Prop := ∀ n ∈ s, 0 < n

/-! ### list helpers, all through `dim l j = l.getD j 0` -/

theorem dim_eq (l : List Nat) (j : Nat) : dim l j = l[j]?.getD 0 := by
  simp [dim]

theorem dim_nil (j : Nat) : dim [] j = 0 := by simp [dim]
theorem dim_cons_zero (a : Nat) (l : List Nat) : dim (a :: l) 0 = a := by simp [dim]
theorem dim_cons_succ (a : Nat) (l : List Nat) (j : Nat) : dim (a :: l) (j+1) = dim l j := by simp [dim]

theorem dim_of_le (l : List Nat) (j : Nat) (h : l.length ≤ j) : dim l j = 0 := by
  simp [dim_eq, List.getElem?_eq_none h]

theorem ext_dim {l1 l2 : List Nat} (hl : l1.length = l2.length)
    (h : ∀ j, j < l1.length → dim l1 j = dim l2 j) : l1 = l2 := by
  induction l1 generalizing l2 with
  | nil => cases l2 with
    | nil => rfl
    | cons b l2 => simp at hl
  | cons a l1 ih =>
    cases l2 with
    | nil => simp at hl
    | cons b l2 =>
      have h0 := h 0 (by simp)
      simp only [dim_cons_zero] at h0
      subst h0
      congr 1
      apply ih (by simpa using hl)
      intro j hj
      have := h (j+1) (by simp; omega)
      simpa only [dim_cons_succ] using this

theorem dim_modify (l : List Nat) (k j : Nat) (f : Nat → Nat) :
    dim (l.modify k f) j = if j = k ∧ j < l.length then f (dim l j) else dim l j := by
  rw [dim_eq, dim_eq, List.getElem?_modify]
  by_cases hj : j < l.length
  · simp [hj, eq_comm]
  · simp [hj]

theorem dim_zipWith (f : Nat → Nat → Nat) (l1 l2 : List Nat) (j : Nat)
    (h1 : j < l1.length) (h2 : j < l2.length) :
    dim (List.zipWith f l1 l2) j = f (dim l1 j) (dim l2 j) := by
  simp [dim_eq, List.getElem?_zipWith, List.getElem?_eq_getElem h1, List.getElem?_eq_getElem h2]

theorem dim_append (l1 l2 : List Nat) (j : Nat) :
    dim (l1 ++ l2) j = if j < l1.length then dim l1 j else dim l2 (j - l1.length) := by
  simp only [dim_eq, List.getElem?_append]; split <;> rfl

theorem dim_replicate (n a j : Nat) : dim (List.replicate n a) j = if j < n then a else 0 := by
  simp only [dim_eq, List.getElem?_replicate]; split <;> rfl

theorem dim_drop (l : List Nat) (d j : Nat) : dim (l.drop d) j = dim l (d + j) := by
  simp only [dim_eq, List.getElem?_drop]

theorem all_zipWith_iff (f : Nat → Nat → Bool) (l1 l2 : List Nat) (hl : l1.length = l2.length) :
    (List.zipWith f l1 l2).all id = true ↔ ∀ j, j < l1.length → f (dim l1 j) (dim l2 j) = true := by
  induction l1 generalizing l2 with
  | nil => simp
  | cons a l1 ih =>
    cases l2 with
    | nil => simp at hl
    | cons b l2 =>
      simp only [List.zipWith_cons_cons, List.all_cons, id, Bool.and_eq_true,
        ih l2 (by simpa using hl), List.length_cons]
      constructor
      · rintro ⟨h0, hr⟩ j hj
        cases j with
        | zero => simpa [dim_cons_zero] using h0
        | succ j => simpa [dim_cons_succ] using hr j (by omega)
      · intro h
        refine ⟨by simpa [dim_cons_zero] using h 0 (by omega), ?_⟩
        intro j hj
        simpa [dim_cons_succ] using h (j+1) (by omega)

theorem Pos_dim {s : List Nat} (h : Pos s) {j : Nat} (hj : j < s.length) : 0 < dim s j := by
  have : dim s j = s[j] := by simp [dim_eq, List.getElem?_eq_getElem hj]
  rw [this]; exact h _ (List.getElem_mem hj)


/-! ### `InRange` through `dim` -/

theorem InRange_dim {idx s : List Nat} :
    InRange idx s ↔ idx.length = s.length ∧ ∀ j, j < s.length → dim idx j < dim s j :=
  InRange_iff idx s

/-! ### pinning the stretched axes below `k` -/

def pinLt (k : Nat) (s idx : List Nat) : List Nat :=
  idx.mapIdx (fun j i => if j < k ∧ dim s j = 1 then 0 else i)

theorem length_pinLt (k : Nat) (s idx : List Nat) : (pinLt k s idx).length = idx.length := by
  simp [pinLt]

theorem dim_pinLt (k : Nat) (s idx : List Nat) (j : Nat) :
    dim (pinLt k s idx) j = if j < k ∧ dim s j = 1 then 0 else dim idx j := by
  simp only [pinLt, dim_eq, List.getElem?_mapIdx]
  cases h : idx[j]? with
  | none => simp
  | some v => simp only [Option.map_some, Option.getD_some]

theorem pinLt_zero (s idx : List Nat) : pinLt 0 s idx = idx := by
  apply ext_dim (length_pinLt _ _ _)
  intro j _; simp [dim_pinLt]

/-! ### one-sided view of the repeat loops -/

/-- what the loops do to the operand whose original shape is `s` (the other one being `t`) -/
def repA (s t : List Nat) : Nat → Tensor α → Tensor α
  | 0, X => X
  | k+1, X =>
    if dim s k = 1 ∧ dim t k ≠ 1 then repA s t k (repeatAxis X k (dim t k)) else repA s t k X

theorem repeatAxis_shape (X : Tensor α) (k n : Nat) :
    (repeatAxis X k n).shape = X.shape.modify k (· * n) := rfl

theorem repeatAxis_get (X : Tensor α) (k n : Nat) (idx : List Nat)
    (h : InRange idx (X.shape.modify k (· * n))) :
    (repeatAxis X k n).get idx = X.get (idx.modify k (· / n)) := by
  unfold repeatAxis; rw [get_ofFn _ _ _ h]

theorem repA_WF (s t : List Nat) (k : Nat) (X : Tensor α) (h : X.WF) : (repA s t k X).WF := by
  induction k generalizing X with
  | zero => exact h
  | succ k ih =>
    unfold repA; split
    · exact ih _ (ofFn_WF _ _)
    · exact ih _ h

theorem repA_spec (s t : List Nat) (k : Nat) (X : Tensor α)
    (hk : k ≤ X.shape.length) (hX : ∀ j, j < k → dim X.shape j = dim s j) :
    (repA s t k X).shape.length = X.shape.length ∧
    (∀ j, dim (repA s t k X).shape j =
      if j < k ∧ dim s j = 1 ∧ dim t j ≠ 1 then dim t j else dim X.shape j) ∧
    (∀ idx, InRange idx (repA s t k X).shape →
      InRange (pinLt k s idx) X.shape ∧ (repA s t k X).get idx = X.get (pinLt k s idx)) := by
  induction k generalizing X with
  | zero =>
    refine ⟨rfl, ?_, ?_⟩
    · intro j; simp [repA]
    · intro idx h; rw [pinLt_zero]; exact ⟨h, rfl⟩
  | succ k ih =>
    by_cases hc : dim s k = 1 ∧ dim t k ≠ 1
    · -- the axis is stretched
      have hY : (repeatAxis X k (dim t k)).shape = X.shape.modify k (· * dim t k) := rfl
      have hYl : (repeatAxis X k (dim t k)).shape.length = X.shape.length := by
        rw [hY, List.length_modify]
      have hYd : ∀ j, dim (repeatAxis X k (dim t k)).shape j =
          if j = k then dim t k else dim X.shape j := by
        intro j; rw [hY, dim_modify]
        by_cases hjk : j = k
        · subst hjk
          have := hX j (by omega)
          simp [show j < X.shape.length by omega, this, hc.1]
        · simp [hjk]
      have ih' := ih (repeatAxis X k (dim t k)) (by omega)
        (by intro j hj; rw [hYd]; simp [show j ≠ k by omega]; exact hX j (by omega))
      have hr : repA s t (k+1) X = repA s t k (repeatAxis X k (dim t k)) := by
        rw [repA, if_pos hc]
      rw [hr]
      obtain ⟨h1, h2, h3⟩ := ih'
      refine ⟨by omega, ?_, ?_⟩
      · intro j; rw [h2, hYd]
        by_cases hjk : j = k
        · subst hjk; simp [hc]
        · by_cases hlt : j < k
          · simp [hjk, hlt, show j < k + 1 by omega]
          · simp [hjk, hlt, show ¬ j < k + 1 by omega]
      · intro idx hidx
        obtain ⟨hin, hget⟩ := h3 idx hidx
        -- idx[k] < dim t k
        have hidxk : dim idx k < dim t k := by
          have := (InRange_dim.1 hidx).2 k (by omega)
          rw [h2, hYd] at this; simpa using this
        have hpk : dim (pinLt k s idx) k = dim idx k := by rw [dim_pinLt]; simp
        have heq : (pinLt k s idx).modify k (· / dim t k) = pinLt (k+1) s idx := by
          apply ext_dim
          · simp [length_pinLt]
          · intro j hj
            rw [dim_modify, dim_pinLt, dim_pinLt]
            by_cases hjk : j = k
            · subst hjk
              have hj' : j < (pinLt j s idx).length := by simpa using hj
              simp [hc.1, hj', Nat.div_eq_of_lt hidxk]
            · by_cases hlt : j < k
              · simp [hjk, hlt, show j < k + 1 by omega]
              · simp [hjk, hlt, show ¬ j < k + 1 by omega]
        rw [hY] at hin
        rw [hget, repeatAxis_get _ _ _ _ hin, heq]
        refine ⟨?_, rfl⟩
        -- in range for X
        rw [InRange_dim] at hin ⊢
        obtain ⟨hl, hp⟩ := hin
        rw [List.length_modify] at hl hp
        rw [length_pinLt] at hl ⊢
        refine ⟨hl, ?_⟩
        intro j hj
        rw [dim_pinLt]
        by_cases hjk : j = k
        · subst hjk; simp [hc.1, hX j (by omega)]
        · have := hp j hj
          rw [dim_modify, dim_pinLt] at this
          by_cases hlt : j < k
          · simpa [hjk, hlt, show j < k + 1 by omega] using this
          · simpa [hjk, hlt, show ¬ j < k + 1 by omega] using this
    · -- untouched axis
      have ih' := ih X (by omega) (by intro j hj; exact hX j (by omega))
      have hr : repA s t (k+1) X = repA s t k X := by rw [repA, if_neg hc]
      rw [hr]
      obtain ⟨h1, h2, h3⟩ := ih'
      refine ⟨h1, ?_, ?_⟩
      · intro j; rw [h2]
        by_cases hjk : j = k
        · subst hjk
          have : ¬ (dim s j = 1 ∧ dim t j ≠ 1) := hc
          simp [this]
        · by_cases hlt : j < k
          · simp [hlt, show j < k + 1 by omega]
          · simp [hlt, show ¬ j < k + 1 by omega]
      · intro idx hidx
        obtain ⟨hin, hget⟩ := h3 idx hidx
        have heq : pinLt k s idx = pinLt (k+1) s idx := by
          apply ext_dim
          · simp [length_pinLt]
          · intro j hj
            rw [dim_pinLt, dim_pinLt]
            by_cases hjk : j = k
            · subst hjk
              by_cases hs1 : dim s j = 1
              · -- extent 1 on both sides: the index is 0 anyway
                have := (InRange_dim.1 hidx).2 j (by omega)
                rw [h2] at this
                simp at this
                rw [hX j (by omega), hs1] at this
                simp [hs1]; omega
              · simp [hs1]
            · by_cases hlt : j < k
              · simp [hlt, show j < k + 1 by omega]
              · simp [hlt, show ¬ j < k + 1 by omega]
        rw [← heq]; exact ⟨hin, hget⟩


/-! ### the loops in terms of `repA` -/

theorem dimCompat_iff (a b : Nat) : dimCompat a b = true ↔ a = b ∨ a = 1 ∨ b = 1 := by
  simp [dimCompat, or_assoc]

theorem repeatMulti_ok (sA sB : List Nat) (k : Nat) (A B A' B' : Tensor α)
    (h : repeatMulti sA sB k A B = .ok (A', B')) :
    A' = repA sA sB k A ∧ B' = repA sB sA k B := by
  induction k generalizing A B with
  | zero => simp only [repeatMulti, Except.ok.injEq, Prod.mk.injEq] at h; exact ⟨h.1.symm, h.2.symm⟩
  | succ k ih =>
    simp only [repeatMulti] at h
    by_cases hab : dim sA k = dim sB k
    · rw [if_pos hab] at h
      have := ih _ _ h
      rw [repA, repA, if_neg (by omega), if_neg (by omega)]; exact this
    · rw [if_neg hab] at h
      by_cases ha : dim sA k = 1
      · rw [if_pos ha] at h
        have := ih _ _ h
        rw [repA, repA, if_pos ⟨ha, by omega⟩, if_neg (by omega)]; exact this
      · rw [if_neg ha] at h
        by_cases hb : dim sB k = 1
        · rw [if_pos hb] at h
          have := ih _ _ h
          rw [repA, repA, if_neg (by omega), if_pos ⟨hb, by omega⟩]; exact this
        · rw [if_neg hb] at h; cases h

theorem repeatMulti_isOk (sA sB : List Nat) (k : Nat) (A B : Tensor α) :
    (repeatMulti sA sB k A B).isOk = true ↔ ∀ j, j < k → dimCompat (dim sA j) (dim sB j) = true := by
  induction k generalizing A B with
  | zero => simp [repeatMulti, Res.isOk]
  | succ k ih =>
    have hstep : (∀ j, j < k + 1 → dimCompat (dim sA j) (dim sB j) = true) ↔
        (dimCompat (dim sA k) (dim sB k) = true ∧ ∀ j, j < k → dimCompat (dim sA j) (dim sB j) = true) := by
      constructor
      · intro h; exact ⟨h k (by omega), fun j hj => h j (by omega)⟩
      · rintro ⟨h0, h⟩ j hj
        by_cases hjk : j = k
        · subst hjk; exact h0
        · exact h j (by omega)
    rw [hstep, dimCompat_iff]
    simp only [repeatMulti]
    by_cases hab : dim sA k = dim sB k
    · rw [if_pos hab, ih]; simp [hab]
    · rw [if_neg hab]
      by_cases ha : dim sA k = 1
      · rw [if_pos ha, ih]; simp [ha]
      · rw [if_neg ha]
        by_cases hb : dim sB k = 1
        · rw [if_pos hb, ih]; simp [hb]
        · rw [if_neg hb]; simp [Res.isOk, hab, ha, hb]

theorem repeatMulti_err (sA sB : List Nat) (k : Nat) (A B : Tensor α) (e : Err)
    (h : repeatMulti sA sB k A B = .error e) : e = .broadcast := by
  induction k generalizing A B with
  | zero => simp [repeatMulti] at h
  | succ k ih =>
    simp only [repeatMulti] at h
    split at h
    · exact ih _ _ h
    · split at h
      · exact ih _ _ h
      · split at h
        · exact ih _ _ h
        · cases h; rfl

theorem repeatUni_ok (sA sB : List Nat) (k : Nat) (B B' : Tensor α)
    (h : repeatUni sA sB k B = .ok B') : B' = repA sB sA k B := by
  induction k generalizing B with
  | zero => simp only [repeatUni, Except.ok.injEq] at h; exact h.symm
  | succ k ih =>
    simp only [repeatUni] at h
    by_cases hab : dim sA k = dim sB k
    · rw [if_pos hab] at h
      rw [repA, if_neg (by omega)]; exact ih _ h
    · rw [if_neg hab] at h
      by_cases hb : dim sB k = 1
      · rw [if_neg (by simpa using hb)] at h
        rw [repA, if_pos ⟨hb, by omega⟩]; exact ih _ h
      · rw [if_pos hb] at h; cases h

theorem repeatUni_isOk (sA sB : List Nat) (k : Nat) (B : Tensor α) :
    (repeatUni sA sB k B).isOk = true ↔ ∀ j, j < k → (dim sA j = dim sB j ∨ dim sB j = 1) := by
  induction k generalizing B with
  | zero => simp [repeatUni, Res.isOk]
  | succ k ih =>
    have hstep : (∀ j, j < k + 1 → (dim sA j = dim sB j ∨ dim sB j = 1)) ↔
        ((dim sA k = dim sB k ∨ dim sB k = 1) ∧ ∀ j, j < k → (dim sA j = dim sB j ∨ dim sB j = 1)) := by
      constructor
      · intro h; exact ⟨h k (by omega), fun j hj => h j (by omega)⟩
      · rintro ⟨h0, h⟩ j hj
        by_cases hjk : j = k
        · subst hjk; exact h0
        · exact h j (by omega)
    rw [hstep]
    simp only [repeatUni]
    by_cases hab : dim sA k = dim sB k
    · rw [if_pos hab, ih]; simp [hab]
    · rw [if_neg hab]
      by_cases hb : dim sB k = 1
      · rw [if_neg (by simpa using hb), ih]; simp [hb]
      · rw [if_pos hb]; simp [Res.isOk, hab, hb]

theorem repeatUni_err (sA sB : List Nat) (k : Nat) (B : Tensor α) (e : Err)
    (h : repeatUni sA sB k B = .error e) : e = .broadcast := by
  induction k generalizing B with
  | zero => simp [repeatUni] at h
  | succ k ih =>
    simp only [repeatUni] at h
    split at h
    · exact ih _ h
    · split at h
      · cases h; rfl
      · exact ih _ h


/-! ### padded shapes -/

theorem length_padShape (r : Nat) (s : List Nat) (h : s.length ≤ r) : (padShape r s).length = r := by
  simp [padShape]; omega

theorem dim_padShape (r : Nat) (s : List Nat) (j : Nat) :
    dim (padShape r s) j = if j < r - s.length then 1 else dim s (j - (r - s.length)) := by
  rw [padShape, dim_append, dim_replicate]; simp only [List.length_replicate]
  split <;> rfl

theorem Pos_padShape (r : Nat) (s : List Nat) (h : Pos s) : Pos (padShape r s) := by
  intro n hn
  simp only [padShape, List.mem_append, List.mem_replicate] at hn
  rcases hn with ⟨_, rfl⟩ | hn
  · omega
  · exact h n hn

theorem prod_replicate_one (d : Nat) : prod (List.replicate d 1) = 1 := by
  induction d with
  | zero => rfl
  | succ d ih => simp [List.replicate_succ, ih]

theorem prod_padShape (r : Nat) (s : List Nat) : prod (padShape r s) = prod s := by
  simp [padShape, prod_append, prod_replicate_one]

theorem ravel_pad (d : Nat) (s x : List Nat) :
    ravel (List.replicate d 1 ++ s) (List.replicate d 0 ++ x) = ravel s x := by
  induction d with
  | zero => simp
  | succ d ih => simp [List.replicate_succ, ravel, ih]

theorem length_pin (s idx : List Nat) (h : s.length ≤ idx.length) : (pin s idx).length = s.length := by
  simp [pin]; omega

theorem pinLt_pad (s idx : List Nat) (d : Nat) (hl : idx.length = d + s.length) :
    pinLt (d + s.length) (List.replicate d 1 ++ s) idx = List.replicate d 0 ++ pin s idx := by
  apply ext_dim
  · rw [length_pinLt, List.length_append, length_pin _ _ (by omega)]; simp [hl]
  · intro j hj
    rw [length_pinLt] at hj
    rw [dim_pinLt, dim_append, dim_append, dim_replicate, dim_replicate]
    simp only [List.length_replicate]
    by_cases hjd : j < d
    · simp [hjd, show j < d + s.length by omega]
    · have h1 : j - d < s.length := by omega
      have h2 : j - d < (idx.drop (idx.length - s.length)).length := by simp; omega
      rw [if_neg hjd, if_neg hjd, pin, dim_zipWith _ _ _ _ h1 h2, dim_drop]
      have : idx.length - s.length + (j - d) = j := by omega
      rw [this]
      simp [show j < d + s.length by omega]

theorem get_pad (s idx : List Nat) (data : List α) (r : Nat) (hr : s.length ≤ r)
    (hl : idx.length = r) :
    (⟨padShape r s, data⟩ : Tensor α).get (pinLt r (padShape r s) idx) =
      (⟨s, data⟩ : Tensor α).get (pin s idx) := by
  have hr' : r = (r - s.length) + s.length := by omega
  have := pinLt_pad s idx (r - s.length) (by omega)
  rw [← hr'] at this
  simp only [Tensor.get]
  rw [padShape, this, ravel_pad]

omit [Inhabited α] in
theorem reshape_eq (A B : Tensor α) :
    reshapeForMultidir A B =
      (⟨padShape (max A.shape.length B.shape.length) A.shape, A.data⟩,
       ⟨padShape (max A.shape.length B.shape.length) B.shape, B.data⟩) := by
  unfold reshapeForMultidir addExtraDims Tensor.rank padShape
  by_cases h1 : A.shape.length > B.shape.length
  · rw [if_pos h1, Nat.max_eq_left (Nat.le_of_lt h1)]; simp
  · rw [if_neg h1]
    by_cases h2 : B.shape.length > A.shape.length
    · rw [if_pos h2, Nat.max_eq_right (Nat.le_of_lt h2)]; simp
    · rw [if_neg h2]
      have : A.shape.length = B.shape.length := by omega
      simp [this]

theorem multidir_eq (A B : Tensor α) :
    multidirBroadcast A B =
      repeatMulti (padShape (max A.shape.length B.shape.length) A.shape)
        (padShape (max A.shape.length B.shape.length) B.shape) (max A.shape.length B.shape.length)
        ⟨padShape (max A.shape.length B.shape.length) A.shape, A.data⟩
        ⟨padShape (max A.shape.length B.shape.length) B.shape, B.data⟩ := by
  unfold multidirBroadcast
  rw [reshape_eq]
  simp only [Tensor.rank]
  rw [length_padShape _ _ (Nat.le_max_left _ _)]


/-! ### the complete loop on one operand -/

theorem stretch_max (a b : Nat) (ha : 0 < a) (hb : 0 < b) (hc : a = b ∨ a = 1 ∨ b = 1) :
    (if a = 1 ∧ b ≠ 1 then b else a) = max a b := by
  split <;> omega

theorem zipWith_max_comm (s t : List Nat) : List.zipWith max s t = List.zipWith max t s := by
  induction s generalizing t with
  | nil => simp
  | cons a s ih =>
    cases t with
    | nil => simp
    | cons b t => simp [ih t, Nat.max_comm]

theorem repA_full (s t : List Nat) (data : List α) (r : Nat) (hr : s.length = r) :
    (repA s t r ⟨s, data⟩).shape.length = r ∧
    (∀ j, j < r → dim (repA s t r ⟨s, data⟩).shape j =
      if dim s j = 1 ∧ dim t j ≠ 1 then dim t j else dim s j) ∧
    (∀ idx, InRange idx (repA s t r ⟨s, data⟩).shape →
      (repA s t r ⟨s, data⟩).get idx = (⟨s, data⟩ : Tensor α).get (pinLt r s idx)) := by
  subst hr
  obtain ⟨h1, h2, h3⟩ := repA_spec s t s.length (⟨s, data⟩ : Tensor α) (Nat.le_refl _) (fun _ _ => rfl)
  refine ⟨h1, ?_, fun idx h => (h3 idx h).2⟩
  intro j hj
  rw [h2]; simp [hj]

theorem repA_shape_max (s t : List Nat) (data : List α) (r : Nat) (hs' : s.length = r)
    (ht' : t.length = r) (hs : Pos s) (ht : Pos t)
    (hc : ∀ j, j < r → dimCompat (dim s j) (dim t j) = true) :
    (repA s t r ⟨s, data⟩).shape = List.zipWith max s t := by
  obtain ⟨h1, h2, _⟩ := repA_full s t data r hs'
  apply ext_dim
  · simp [h1, hs', ht']
  · intro j hj
    rw [h1] at hj
    rw [h2 j hj, dim_zipWith _ _ _ _ (by omega) (by omega)]
    exact stretch_max _ _ (Pos_dim hs (by omega)) (Pos_dim ht (by omega)) ((dimCompat_iff _ _).1 (hc j hj))

theorem compatible_iff (s1 s2 : List Nat) :
    Compatible s1 s2 = true ↔ ∀ j, j < max s1.length s2.length →
      dimCompat (dim (padShape (max s1.length s2.length) s1) j)
        (dim (padShape (max s1.length s2.length) s2) j) = true := by
  unfold Compatible
  have hl1 := length_padShape (max s1.length s2.length) s1 (Nat.le_max_left _ _)
  have hl2 := length_padShape (max s1.length s2.length) s2 (Nat.le_max_right _ _)
  simp only []
  rw [all_zipWith_iff _ _ _ (by rw [hl1, hl2]), hl1]

/-! ### the theorems -/

theorem multidir_ok_iff (A B : Tensor α) :
    (multidirBroadcast A B).isOk = Compatible A.shape B.shape := by
  rw [Bool.eq_iff_iff, multidir_eq, repeatMulti_isOk, compatible_iff]

theorem multidir_error (A B : Tensor α) (h : Compatible A.shape B.shape = false) :
    multidirBroadcast A B = .error .broadcast := by
  have hok := multidir_ok_iff A B
  rw [h] at hok
  rw [multidir_eq] at hok ⊢
  cases hr : repeatMulti (padShape (max A.shape.length B.shape.length) A.shape)
      (padShape (max A.shape.length B.shape.length) B.shape) (max A.shape.length B.shape.length)
      (⟨padShape (max A.shape.length B.shape.length) A.shape, A.data⟩ : Tensor α)
      ⟨padShape (max A.shape.length B.shape.length) B.shape, B.data⟩ with
  | error e => rw [repeatMulti_err _ _ _ _ _ _ hr]
  | ok v => rw [hr] at hok; simp [Res.isOk] at hok

theorem multidir_shape (A B A' B' : Tensor α) (hA : Pos A.shape) (hB : Pos B.shape)
    (h : multidirBroadcast A B = .ok (A', B')) :
    A'.shape = bshape A.shape B.shape ∧ B'.shape = bshape A.shape B.shape := by
  have hc : Compatible A.shape B.shape = true := by
    rw [← multidir_ok_iff, h]; rfl
  rw [compatible_iff] at hc
  rw [multidir_eq] at h
  have hl1 := length_padShape (max A.shape.length B.shape.length) A.shape (Nat.le_max_left _ _)
  have hl2 := length_padShape (max A.shape.length B.shape.length) B.shape (Nat.le_max_right _ _)
  obtain ⟨h1, h2⟩ := repeatMulti_ok _ _ _ _ _ _ _ h
  have e1 := repA_shape_max _ _ A.data _ hl1 hl2 (Pos_padShape _ _ hA) (Pos_padShape _ _ hB) hc
  have e2 := repA_shape_max _ _ B.data _ hl2 hl1 (Pos_padShape _ _ hB) (Pos_padShape _ _ hA)
    (by intro j hj; have := hc j hj; rw [dimCompat_iff] at this ⊢; omega)
  rw [zipWith_max_comm] at e2
  rw [h1, h2, e1, e2]
  exact ⟨rfl, rfl⟩


theorem length_bshape (s1 s2 : List Nat) : (bshape s1 s2).length = max s1.length s2.length := by
  unfold bshape
  simp only [List.length_zipWith]
  rw [length_padShape _ _ (Nat.le_max_left _ _), length_padShape _ _ (Nat.le_max_right _ _)]
  simp

theorem multidir_get (A B A' B' : Tensor α) (hA : Pos A.shape) (hB : Pos B.shape)
    (h : multidirBroadcast A B = .ok (A', B')) (idx : List Nat)
    (hidx : InRange idx (bshape A.shape B.shape)) :
    A'.get idx = A.get (pin A.shape idx) ∧ B'.get idx = B.get (pin B.shape idx) := by
  obtain ⟨sA, sB⟩ := multidir_shape A B A' B' hA hB h
  have hlen : idx.length = max A.shape.length B.shape.length := by
    rw [InRange_length hidx, length_bshape]
  rw [multidir_eq] at h
  have hl1 := length_padShape (max A.shape.length B.shape.length) A.shape (Nat.le_max_left _ _)
  have hl2 := length_padShape (max A.shape.length B.shape.length) B.shape (Nat.le_max_right _ _)
  obtain ⟨h1, h2⟩ := repeatMulti_ok _ _ _ _ _ _ _ h
  constructor
  · rw [← sA] at hidx
    subst h1
    rw [(repA_full _ _ A.data _ hl1).2.2 idx hidx, get_pad _ _ _ _ (Nat.le_max_left _ _) hlen]
  · rw [← sB] at hidx
    subst h2
    rw [(repA_full _ _ B.data _ hl2).2.2 idx hidx, get_pad _ _ _ _ (Nat.le_max_right _ _) hlen]

omit [Inhabited α] in
theorem WF_pad (A : Tensor α) (r : Nat) (h : A.WF) : (⟨padShape r A.shape, A.data⟩ : Tensor α).WF := by
  simp only [Tensor.WF, prod_padShape]; exact h

theorem multidir_WF (A B A' B' : Tensor α) (hA : A.WF) (hB : B.WF)
    (h : multidirBroadcast A B = .ok (A', B')) : A'.WF ∧ B'.WF := by
  rw [multidir_eq] at h
  obtain ⟨h1, h2⟩ := repeatMulti_ok _ _ _ _ _ _ _ h
  rw [h1, h2]
  exact ⟨repA_WF _ _ _ _ (WF_pad A _ hA), repA_WF _ _ _ _ (WF_pad B _ hB)⟩

/-! ### unidirectional -/

theorem padShape_self (s : List Nat) : padShape s.length s = s := by simp [padShape]

theorem unidir_lt (A B : Tensor α) (h : A.shape.length < B.shape.length) :
    unidirBroadcast A B = .error .broadcast := by
  unfold unidirBroadcast Tensor.rank; rw [if_pos h]

theorem unidir_eq (A B : Tensor α) (h : ¬ A.shape.length < B.shape.length) :
    unidirBroadcast A B =
      match repeatUni A.shape (padShape A.shape.length B.shape) A.shape.length
        (⟨padShape A.shape.length B.shape, B.data⟩ : Tensor α) with
      | .ok nb => .ok (A, nb)
      | .error e => .error e := by
  unfold unidirBroadcast Tensor.rank; rw [if_neg h]
  have : (if A.shape.length > B.shape.length then addExtraDims B (A.shape.length - B.shape.length) else B)
      = (⟨padShape A.shape.length B.shape, B.data⟩ : Tensor α) := by
    unfold addExtraDims padShape
    split
    · rfl
    · have : A.shape.length - B.shape.length = 0 := by omega
      simp [this]
  simp only [this]
  rfl

theorem unidir_fst (A B A' B' : Tensor α) (h : unidirBroadcast A B = .ok (A', B')) : A' = A := by
  by_cases hlt : A.shape.length < B.shape.length
  · rw [unidir_lt A B hlt] at h; cases h
  · rw [unidir_eq A B hlt] at h
    split at h
    · cases h; rfl
    · cases h

theorem unidir_error (A B : Tensor α) (e : Err) (h : unidirBroadcast A B = .error e) : e = .broadcast := by
  by_cases hlt : A.shape.length < B.shape.length
  · rw [unidir_lt A B hlt] at h; cases h; rfl
  · rw [unidir_eq A B hlt] at h
    split at h
    · cases h
    · next e' he => cases h; exact repeatUni_err _ _ _ _ _ he

theorem unidir_isOk (A B : Tensor α) (hlt : ¬ A.shape.length < B.shape.length) :
    (unidirBroadcast A B).isOk = true ↔ ∀ j, j < A.shape.length →
      (dim A.shape j = dim (padShape A.shape.length B.shape) j ∨
        dim (padShape A.shape.length B.shape) j = 1) := by
  rw [unidir_eq A B hlt, ← repeatUni_isOk _ _ _ (⟨padShape A.shape.length B.shape, B.data⟩ : Tensor α)]
  split
  · next nb he => rw [he]; simp [Res.isOk]
  · next e he => rw [he]; simp [Res.isOk]

theorem compatible_iff' (s1 s2 : List Nat) (h : s2.length ≤ s1.length) :
    Compatible s1 s2 = true ↔ ∀ j, j < s1.length →
      dimCompat (dim s1 j) (dim (padShape s1.length s2) j) = true := by
  rw [compatible_iff, Nat.max_eq_left h, padShape_self]

theorem bshape_eq_iff (s1 s2 : List Nat) (h : s2.length ≤ s1.length) :
    bshape s1 s2 = s1 ↔ ∀ j, j < s1.length →
      max (dim s1 j) (dim (padShape s1.length s2) j) = dim s1 j := by
  unfold bshape
  simp only []
  rw [Nat.max_eq_left h, padShape_self]
  have hl2 := length_padShape s1.length s2 h
  constructor
  · intro he j hj
    rw [← dim_zipWith max _ _ _ hj (by omega), he]
  · intro hp
    apply ext_dim
    · simp [hl2]
    · intro j hj
      simp only [List.length_zipWith, hl2, Nat.min_self] at hj
      rw [dim_zipWith _ _ _ _ hj (by omega), hp j hj]

theorem unidir_ok_iff (A B : Tensor α) (hA : Pos A.shape) (hB : Pos B.shape) :
    (unidirBroadcast A B).isOk = (Compatible A.shape B.shape && (bshape A.shape B.shape == A.shape)) := by
  by_cases hlt : A.shape.length < B.shape.length
  · rw [unidir_lt A B hlt]
    have : bshape A.shape B.shape ≠ A.shape := by
      intro he
      have := congrArg List.length he
      rw [length_bshape] at this; omega
    simp [Res.isOk, this]
  · have hle : B.shape.length ≤ A.shape.length := by omega
    rw [Bool.eq_iff_iff, unidir_isOk A B hlt, Bool.and_eq_true, beq_iff_eq,
      compatible_iff' _ _ hle, bshape_eq_iff _ _ hle]
    have hpB := Pos_padShape A.shape.length _ hB
    have hlB := length_padShape A.shape.length B.shape hle
    constructor
    · intro h
      refine ⟨?_, ?_⟩
      · intro j hj; rw [dimCompat_iff]; have := h j hj; omega
      · intro j hj
        have := h j hj
        have := Pos_dim hA hj
        have := Pos_dim hpB (j := j) (by omega)
        omega
    · rintro ⟨h1, h2⟩ j hj
      have := (dimCompat_iff _ _).1 (h1 j hj)
      have := h2 j hj
      have := Pos_dim hA hj
      have := Pos_dim hpB (j := j) (by omega)
      omega

-- `hA`, `hB` are part of the fixed statement but are not needed for this direction
set_option linter.unusedVariables false in
theorem unidir_get (A B A' B' : Tensor α) (hA : Pos A.shape) (hB : Pos B.shape)
    (h : unidirBroadcast A B = .ok (A', B')) :
    B'.shape = A.shape ∧ ∀ idx, InRange idx A.shape → B'.get idx = B.get (pin B.shape idx) := by
  by_cases hlt : A.shape.length < B.shape.length
  · rw [unidir_lt A B hlt] at h; cases h
  · have hle : B.shape.length ≤ A.shape.length := by omega
    have hok := (unidir_isOk A B hlt).1 (by rw [h]; rfl)
    rw [unidir_eq A B hlt] at h
    split at h
    · next nb he =>
      have hB' : B' = nb := by cases h; rfl
      subst hB'
      have hnb := repeatUni_ok _ _ _ _ _ he
      have hlB := length_padShape A.shape.length B.shape hle
      obtain ⟨f1, f2, f3⟩ := repA_full (padShape A.shape.length B.shape) A.shape B.data _ hlB
      rw [← hnb] at f1 f2 f3
      have hshape : B'.shape = A.shape := by
        apply ext_dim f1
        intro j hj
        rw [f1] at hj
        rw [f2 j hj]
        have := hok j hj
        split <;> omega
      refine ⟨hshape, ?_⟩
      intro idx hidx
      have hlen := InRange_length hidx
      rw [← hshape] at hidx
      rw [f3 idx hidx, get_pad _ _ _ _ hle hlen]
    · cases h

end Gonnx.Proofs
