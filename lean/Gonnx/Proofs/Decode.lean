import Gonnx.Graph.Decode
import Gonnx.Spec.Decode
/-
Helper lemmas for C12 (weight decoding). The definitions `bytesLE`, `encodeLE`, `supported`, `NoTyped`
live here (unchanged, still in namespace `Gonnx.C12`) so that both the helpers and the statements in
Gonnx/Theorems/C12.lean can refer to them.
-/
namespace Gonnx.C12
open Gonnx Gonnx.Spec

/-- little-endian bytes of a value at width `w` -/
def bytesLE : Nat → Nat → List Nat
  | 0, _ => []
  | w+1, v => (v % 256) :: bytesLE w (v / 256)

/-- raw encoding of a list of element bit patterns -/
def encodeLE (w : Nat) (xs : List Nat) : List Nat := xs.flatMap (bytesLE w)

/-- the supported element types and their ONNX codes -/
def supported : List (Int × DType) :=
  [(1, .f32), (2, .u8), (3, .i8), (4, .u16), (5, .i16), (6, .i32), (7, .i64), (9, .bool), (11, .f64),
   (12, .u32), (13, .u64)]

/-- no typed repeated field is populated -/
def NoTyped (tp : TensorProtoM) : Prop :=
  tp.floatData = [] ∧ tp.int32Data = [] ∧ tp.int64Data = [] ∧ tp.doubleData = [] ∧ tp.uint64Data = []

end Gonnx.C12

namespace Gonnx.Proofs.Decode
open Gonnx Gonnx.Spec Gonnx.C12

/-! ### bytes -/

theorem bytesLE_length (w x : Nat) : (bytesLE w x).length = w := by
  induction w generalizing x with
  | zero => rfl
  | succ w ih => simp [bytesLE, ih]

theorem leValue_bytesLE (w x : Nat) (h : x < 2 ^ (8 * w)) : leValue (bytesLE w x) = x := by
  induction w generalizing x with
  | zero =>
    have : x = 0 := by simpa using h
    simp [bytesLE, leValue, this]
  | succ w ih =>
    simp only [bytesLE, leValue]
    have hp : 2 ^ (8 * (w + 1)) = 2 ^ (8 * w) * 256 := by
      rw [Nat.mul_succ, Nat.pow_add]
    have hlt : x / 256 < 2 ^ (8 * w) := by
      rw [Nat.div_lt_iff_lt_mul (by decide)]
      omega
    rw [ih _ hlt]
    omega

theorem encodeLE_nil (w : Nat) : encodeLE w [] = [] := rfl

theorem encodeLE_cons (w x : Nat) (xs : List Nat) :
    encodeLE w (x :: xs) = bytesLE w x ++ encodeLE w xs := by
  simp [encodeLE]

theorem encodeLE_length (w : Nat) (xs : List Nat) : (encodeLE w xs).length = xs.length * w := by
  induction xs with
  | nil => simp [encodeLE_nil]
  | cons x xs ih => rw [encodeLE_cons, List.length_append, bytesLE_length, ih, List.length_cons,
      Nat.succ_mul, Nat.add_comm]

/-! ### the reader loop -/

theorem readChunks_succ (e c fuel : Nat) (data acc : List Nat) :
    readChunks e c (fuel + 1) data acc =
      if data.isEmpty then acc.reverse
      else if (data.take e).length ≠ c then []
      else readChunks e c fuel (data.drop e) (leValue (data.take e) :: acc) := rfl

theorem readChunks_encodeLE (w : Nat) (hw : 0 < w) (xs : List Nat)
    (h : ∀ x ∈ xs, x < 2 ^ (8 * w)) (fuel : Nat) (acc : List Nat) (hf : xs.length + 1 ≤ fuel) :
    readChunks w w fuel (encodeLE w xs) acc = acc.reverse ++ xs := by
  induction xs generalizing fuel acc with
  | nil =>
    cases fuel with
    | zero => omega
    | succ f => simp [readChunks_succ, encodeLE_nil]
  | cons x xs ih =>
    cases fuel with
    | zero => omega
    | succ f =>
      have hl := bytesLE_length w x
      have hne : (bytesLE w x ++ encodeLE w xs).isEmpty = false := by
        cases hb : bytesLE w x with
        | nil => rw [hb] at hl; simp at hl; omega
        | cons b bs => rfl
      have htake : (bytesLE w x ++ encodeLE w xs).take w = bytesLE w x := List.take_left' hl
      have hdrop : (bytesLE w x ++ encodeLE w xs).drop w = encodeLE w xs := List.drop_left' hl
      rw [encodeLE_cons, readChunks_succ, hne, htake, hdrop, hl]
      simp only [Bool.false_eq_true, if_false, ne_eq, not_true_eq_false]
      rw [ih (fun y hy => h y (List.mem_cons_of_mem _ hy)) f _ (by simp at hf; omega),
        leValue_bytesLE w x (h x (List.mem_cons_self ..))]
      simp

theorem readChunks_partial (w : Nat) (hw : 0 < w) (fuel : Nat) (data acc : List Nat)
    (hf : data.length + 1 ≤ fuel) (h : data.length % w ≠ 0) : readChunks w w fuel data acc = [] := by
  induction fuel generalizing data acc with
  | zero => omega
  | succ f ih =>
    rw [readChunks_succ]
    have hne : data.isEmpty = false := by
      cases data with
      | nil => simp at h
      | cons b bs => rfl
    rw [hne]
    simp only [Bool.false_eq_true, if_false]
    by_cases hc : (data.take w).length = w
    · rw [if_neg (by simpa using hc)]
      have hge : w ≤ data.length := by
        rw [List.length_take] at hc; omega
      apply ih
      · rw [List.length_drop]; omega
      · rw [List.length_drop, ← Nat.mod_eq_sub_mod hge]; exact h
    · rw [if_pos hc]

theorem readChunks_length (w : Nat) (hw : 0 < w) (fuel : Nat) (data acc : List Nat)
    (hf : data.length + 1 ≤ fuel) (h : data.length % w = 0) :
    (readChunks w w fuel data acc).length = acc.length + data.length / w := by
  induction fuel generalizing data acc with
  | zero => omega
  | succ f ih =>
    rw [readChunks_succ]
    cases data with
    | nil => simp
    | cons b bs =>
      have hge : w ≤ (b :: bs).length := by
        apply Nat.le_of_not_lt
        intro hlt
        rw [Nat.mod_eq_of_lt hlt] at h
        simp at h
      have hc : ((b :: bs).take w).length = w := by
        rw [List.length_take]; omega
      rw [if_neg (by simp), if_neg (by simpa using hc)]
      rw [ih]
      · rw [List.length_drop, List.length_cons]
        have hd : (b :: bs).length / w = ((b :: bs).length - w) / w + 1 := by
          rw [← Nat.add_div_right _ hw, Nat.sub_add_cancel hge]
        omega
      · rw [List.length_drop]; omega
      · rw [List.length_drop, ← Nat.mod_eq_sub_mod hge]; exact h

/-! ### the decoder -/

/-- what `decode` does once the element type is chosen -/
def body (tp : TensorProtoM) (dt : DType) : Res Decoded :=
  if tp.dims.any (· < 0) then .error .shape
  else if (valuesFor tp dt).length ≠ prod (tp.dims.map Int.toNat) then .error .shape
  else .ok ⟨dt, tp.dims.map Int.toNat, valuesFor tp dt⟩

theorem decode_of_code (tp : TensorProtoM) (dt : DType) (h : dtypeOfCode tp.dataType = some dt) :
    decode tp = body tp dt := by
  simp only [decode, h, body]

theorem decode_of_none (tp : TensorProtoM) (h : dtypeOfCode tp.dataType = none) :
    decode tp = match fallbackDType tp with
      | none => .error .invalidType
      | some dt => body tp dt := by
  simp only [decode, h, body]
  cases fallbackDType tp <;> rfl

theorem body_no_panic (tp : TensorProtoM) (dt : DType) : body tp dt ≠ .error .panic := by
  unfold body
  split
  · simp
  · split <;> simp

theorem body_sound (tp : TensorProtoM) (dt : DType) (d : Decoded) (h : body tp dt = .ok d) :
    (∀ x ∈ tp.dims, 0 ≤ x) ∧ d = ⟨dt, tp.dims.map Int.toNat, valuesFor tp dt⟩ ∧
      (valuesFor tp dt).length = prod (tp.dims.map Int.toNat) := by
  unfold body at h
  split at h
  · cases h
  · rename_i hneg
    split at h
    · cases h
    · rename_i hlen
      refine ⟨?_, ?_, ?_⟩
      · intro x hx
        have hall : ∀ x ∈ tp.dims, 0 ≤ x := by simpa using hneg
        exact hall x hx
      · cases h; rfl
      · simpa using hlen

/-- a successful decode went through `body` at one element type, which is the coded one if there is one -/
theorem decode_ok_body (tp : TensorProtoM) (d : Decoded) (h : decode tp = .ok d) :
    ∃ dt0, body tp dt0 = .ok d ∧ ∀ dt, dtypeOfCode tp.dataType = some dt → dt = dt0 := by
  cases hc : dtypeOfCode tp.dataType with
  | some dt0 =>
    rw [decode_of_code tp dt0 hc] at h
    exact ⟨dt0, h, fun dt hdt => by cases hdt; rfl⟩
  | none =>
    rw [decode_of_none tp hc] at h
    cases hf : fallbackDType tp with
    | none => rw [hf] at h; cases h
    | some dt0 =>
      rw [hf] at h
      exact ⟨dt0, h, fun dt hdt => by cases hdt⟩

theorem body_error_of_neg (tp : TensorProtoM) (dt : DType) (x : Int) (hx : x ∈ tp.dims) (hneg : x < 0) :
    body tp dt = .error .shape := by
  unfold body
  rw [if_pos]
  exact List.any_eq_true.mpr ⟨x, hx, by simpa using hneg⟩

theorem body_error_of_count (tp : TensorProtoM) (dt : DType)
    (h : (valuesFor tp dt).length ≠ prod (tp.dims.map Int.toNat)) : body tp dt = .error .shape := by
  unfold body
  rw [if_pos h]
  split <;> rfl

theorem body_ok (tp : TensorProtoM) (dt : DType) (hd : ∀ x ∈ tp.dims, 0 ≤ x)
    (h : (valuesFor tp dt).length = prod (tp.dims.map Int.toNat)) :
    body tp dt = .ok ⟨dt, tp.dims.map Int.toNat, valuesFor tp dt⟩ := by
  unfold body
  have : tp.dims.any (· < 0) = false := by
    apply List.any_eq_false.mpr
    intro x hx
    have := hd x hx
    simp; omega
  rw [this]
  simp [h]

theorem fallback_none_of_noTyped (tp : TensorProtoM) (hn : NoTyped tp) : fallbackDType tp = none := by
  obtain ⟨h1, h2, h3, h4, h5⟩ := hn
  simp [fallbackDType, h1, h2, h3, h4, h5]

theorem code_of_supported (code : Int) (dt : DType) (hs : (code, dt) ∈ supported) :
    dtypeOfCode code = some dt := by
  simp only [supported, List.mem_cons, Prod.mk.injEq, List.not_mem_nil, or_false] at hs
  rcases hs with ⟨rfl, rfl⟩ | ⟨rfl, rfl⟩ | ⟨rfl, rfl⟩ | ⟨rfl, rfl⟩ | ⟨rfl, rfl⟩ | ⟨rfl, rfl⟩ |
    ⟨rfl, rfl⟩ | ⟨rfl, rfl⟩ | ⟨rfl, rfl⟩ | ⟨rfl, rfl⟩ | ⟨rfl, rfl⟩ <;> rfl

theorem width_pos_of_supported (code : Int) (dt : DType) (hs : (code, dt) ∈ supported) :
    0 < width dt := by
  simp only [supported, List.mem_cons, Prod.mk.injEq, List.not_mem_nil, or_false] at hs
  rcases hs with ⟨rfl, rfl⟩ | ⟨rfl, rfl⟩ | ⟨rfl, rfl⟩ | ⟨rfl, rfl⟩ | ⟨rfl, rfl⟩ | ⟨rfl, rfl⟩ |
    ⟨rfl, rfl⟩ | ⟨rfl, rfl⟩ | ⟨rfl, rfl⟩ | ⟨rfl, rfl⟩ | ⟨rfl, rfl⟩ <;> decide

theorem valuesFor_raw (tp : TensorProtoM) (code : Int) (dt : DType) (hs : (code, dt) ∈ supported)
    (hb : dt ≠ .bool) (hn : NoTyped tp) : valuesFor tp dt = readLE (width dt) tp.rawData := by
  obtain ⟨h1, h2, h3, h4, h5⟩ := hn
  simp only [supported, List.mem_cons, Prod.mk.injEq, List.not_mem_nil, or_false] at hs
  rcases hs with ⟨rfl, rfl⟩ | ⟨rfl, rfl⟩ | ⟨rfl, rfl⟩ | ⟨rfl, rfl⟩ | ⟨rfl, rfl⟩ | ⟨rfl, rfl⟩ |
    ⟨rfl, rfl⟩ | ⟨rfl, rfl⟩ | ⟨rfl, rfl⟩ | ⟨rfl, rfl⟩ | ⟨rfl, rfl⟩ <;>
    first
      | exact absurd rfl hb
      | simp [valuesFor, width, h1, h2, h3, h4, h5]

theorem valuesFor_bool_length (tp : TensorProtoM) (hn : NoTyped tp) :
    (valuesFor tp .bool).length = tp.rawData.length := by
  obtain ⟨h1, h2, h3, h4, h5⟩ := hn
  simp [valuesFor, h2]

/-- length of what a raw-only payload decodes to, whenever the count can be wrong -/
theorem valuesFor_length_ne (tp : TensorProtoM) (code : Int) (dt : DType) (hs : (code, dt) ∈ supported)
    (hn : NoTyped tp) (n : Nat) (hlen : tp.rawData.length ≠ n * width dt)
    (hp : tp.rawData.length % width dt = 0 ∨ n ≠ 0) : (valuesFor tp dt).length ≠ n := by
  by_cases hb : dt = .bool
  · subst hb
    rw [valuesFor_bool_length tp hn]
    simpa [width] using hlen
  · have hw := width_pos_of_supported code dt hs
    rw [valuesFor_raw tp code dt hs hb hn]
    by_cases hm : tp.rawData.length % width dt = 0
    · have hl : (readLE (width dt) tp.rawData).length = tp.rawData.length / width dt := by
        have := readChunks_length (width dt) hw (tp.rawData.length + 1) tp.rawData []
          (Nat.le_refl _) hm
        simpa [readLE] using this
      rw [hl]
      intro he
      apply hlen
      rw [← he, Nat.div_mul_cancel (Nat.dvd_of_mod_eq_zero hm)]
    · have hl : readLE (width dt) tp.rawData = [] :=
        readChunks_partial (width dt) hw _ tp.rawData [] (Nat.le_refl _) hm
      rw [hl]
      rcases hp with hp | hp
      · exact absurd hp hm
      · simpa using Ne.symm hp

end Gonnx.Proofs.Decode
