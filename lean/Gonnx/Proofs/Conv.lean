import Gonnx.Ops.Conv
import Gonnx.Spec.Conv
import Gonnx.Proofs.Binary
import Gonnx.Proofs.Index
/-
Helper lemmas for C05: the Conv model equals direct convolution.
-/
namespace Gonnx.C05
open Gonnx
variable {α : Type} [Inhabited α]

/-- laws about zero (true of exact arithmetic and of IEEE arithmetic on finite values) -/
structure ZeroLaws (A : Arith α) : Prop where
  add_zero : ∀ a, A.add a A.zero = a
  zero_mul : ∀ a, A.mul A.zero a = A.zero
  mul_zero : ∀ a, A.mul a A.zero = A.zero

/-- dilated kernel extents -/
def dkernel (w : Tensor α) (dil : List Nat) : List Nat :=
  List.zipWith (fun k d => (k - 1) * d + 1) (w.shape.drop 2) dil

end Gonnx.C05

namespace Gonnx.Proofs.Conv
open Gonnx Gonnx.Proofs Gonnx.Proofs.Index Gonnx.C05 Gonnx.Spec

theorem dk_eq (k d : Nat) (hk : 0 < k) (hd : 0 < d) : k + (k - 1) * (d - 1) = (k - 1) * d + 1 := by
  obtain ⟨d', rfl⟩ : ∃ d', d = d' + 1 := ⟨d - 1, by omega⟩
  rw [Nat.add_sub_cancel, Nat.mul_succ]
  omega

theorem outdim_eq_spec (inD k d pb pe s : Nat) (hk : 0 < k) (hd : 0 < d)
    (hfit : (k - 1) * d + 1 ≤ inD + pb + pe) :
    convOutDim inD (k + (k - 1) * (d - 1)) pb pe s = (((inD + pb + pe - ((k - 1) * d + 1)) / s + 1 : Nat) : Int) := by
  rw [dk_eq k d hk hd]
  unfold convOutDim
  generalize (k - 1) * d + 1 = K at hfit
  have : (inD : Int) - (K : Int) + (pb : Int) + (pe : Int) = ((inD + pb + pe - K : Nat) : Int) := by omega
  rw [this, ← Int.ofNat_tdiv]
  simp

theorem all_zipWith {β γ δ : Type} (f : β → γ → δ) (p : δ → Bool) (l1 : List β) (l2 : List γ) :
    (List.zipWith f l1 l2).all p = (l1.zip l2).all (fun q => p (f q.1 q.2)) := by
  induction l1 generalizing l2 with
  | nil => simp
  | cons a l1 ih => cases l2 with
    | nil => simp
    | cons b l2 => simp [ih]

theorem zipWith_eq_map_zip {β γ δ : Type} (f : β → γ → δ) (l1 : List β) (l2 : List γ) :
    List.zipWith f l1 l2 = (l1.zip l2).map (fun q => f q.1 q.2) := by
  induction l1 generalizing l2 with
  | nil => simp
  | cons a l1 ih => cases l2 with
    | nil => simp
    | cons b l2 => simp [ih]


theorem zipWith_zip_eq_range {β : Type} (F : Nat × Nat → Nat → β) (a b c : List Nat)
    (hb : b.length = a.length) (hc : c.length = a.length) :
    List.zipWith F (a.zip b) c = (List.range a.length).map (fun i => F (dim a i, dim b i) (dim c i)) := by
  apply List.ext_getElem
  · simp [hb, hc]
  · intro i h1 h2
    simp only [List.length_zipWith, List.length_zip, hb, hc, Nat.min_self] at h1
    simp [dim, List.getD_eq_getElem?_getD, h1, hb, hc]

theorem autopad_cell (lower : Bool) (d s k : Nat) (hd : 0 < d) (hs : 0 < s)
    (hneed : d ≤ ((d + s - 1) / s - 1) * s + k) :
    (let need : Int := (Int.tdiv ((d : Int) + (s : Int) - 1) (s : Int) - 1) * (s : Int) + (k : Int) - (d : Int)
     let head := if lower then Int.tdiv (need + 1) 2 else Int.tdiv need 2
     (head, need - head)) =
    (let total := ((d + s - 1) / s - 1) * s + k - d
     let small := total / 2
     if lower then (((total - small : Nat) : Int), ((small : Nat) : Int)) else (((small : Nat) : Int), ((total - small : Nat) : Int))) := by
  have hT : 1 ≤ (d + s - 1) / s := Nat.div_pos (by omega) hs
  have h1 : (d : Int) + (s : Int) - 1 = ((d + s - 1 : Nat) : Int) := by omega
  rw [h1, ← Int.ofNat_tdiv]
  have h2 : (((d + s - 1) / s : Nat) : Int) - 1 = (((d + s - 1) / s - 1 : Nat) : Int) := by omega
  simp only []
  rw [h2, ← Int.natCast_mul]
  generalize ((d + s - 1) / s - 1) * s = U at hneed
  have h3 : (U : Int) + (k : Int) - (d : Int) = ((U + k - d : Nat) : Int) := by omega
  simp only [h3]
  generalize U + k - d = total
  have e1 : Int.tdiv ((total : Int) + 1) 2 = ((total - total / 2 : Nat) : Int) := by
    have : (total : Int) + 1 = ((total + 1 : Nat) : Int) := by omega
    rw [this, show (2 : Int) = ((2 : Nat) : Int) from rfl, ← Int.ofNat_tdiv]
    omega
  have e2 : Int.tdiv (total : Int) 2 = ((total / 2 : Nat) : Int) := by
    rw [show (2 : Int) = ((2 : Nat) : Int) from rfl, ← Int.ofNat_tdiv]
  cases lower
  · simp only [Bool.false_eq_true, if_false, e2]
    congr 1; omega
  · simp only [if_true, e1]
    congr 1; omega

theorem autopad_eq_spec_partial (mode : String) (hm : mode = "SAME_UPPER" ∨ mode = "SAME_LOWER")
    (inDims strides dk : List Nat) (hl : strides.length = inDims.length) (hl' : dk.length = inDims.length)
    (hs : ∀ s ∈ strides, 0 < s)
    (hneed : ∀ i, i < inDims.length → dim inDims i ≤ ((dim inDims i + dim strides i - 1) / dim strides i - 1) * dim strides i + dim dk i)
    (hInPos : ∀ d ∈ inDims, 0 < d) :
    autoPads mode inDims strides dk = (Spec.convPads mode [] inDims strides dk).map (fun (p : Nat) => (p : Int)) := by
  have hm1 : mode ≠ "NOTSET" := by rcases hm with h | h <;> subst h <;> decide
  have hm2 : mode ≠ "VALID" := by rcases hm with h | h <;> subst h <;> decide
  unfold autoPads Spec.convPads
  simp only [if_neg hm1, if_neg hm2]
  rw [zipWith_zip_eq_range _ _ _ _ hl hl']
  simp only [List.map_append, List.map_map]
  have key : ∀ i, i < inDims.length → _ := fun i hi =>
    autopad_cell (decide (mode = "SAME_LOWER")) (dim inDims i) (dim strides i) (dim dk i)
      (Pos_dim hInPos hi) (Pos_dim hs (by omega)) (hneed i hi)
  have hup : mode = "SAME_UPPER" ↔ ¬ mode = "SAME_LOWER" := by
    rcases hm with h | h <;> subst h <;> decide
  congr 1
  · apply List.map_congr_left
    intro i hi
    have := congrArg Prod.fst (key i (List.mem_range.1 hi))
    simp only [Function.comp, decide_eq_true_eq] at this ⊢
    rw [this]
    by_cases hlow : mode = "SAME_LOWER"
    · simp [hlow]
    · simp [hlow, hup]
  · apply List.map_congr_left
    intro i hi
    have := congrArg Prod.snd (key i (List.mem_range.1 hi))
    simp only [Function.comp, decide_eq_true_eq] at this ⊢
    rw [this]
    by_cases hlow : mode = "SAME_LOWER"
    · simp [hlow]
    · simp [hlow, hup]


variable {α : Type} [Inhabited α]

theorem dilatedKernel_get (zero : α) (w : Tensor α) (dil : List Nat) (idx : List Nat)
    (hidx : InRange idx (dilatedKernel zero w dil).shape) :
    (dilatedKernel zero w dil).get idx =
      if ((idx.drop 2).zip dil).all (fun p => p.1 % p.2 = 0) then
        w.get (idx.take 2 ++ ((idx.drop 2).zip dil).map (fun p => p.1 / p.2))
      else zero := by
  unfold dilatedKernel at hidx ⊢
  simp only [ofFn_shape] at hidx
  rw [get_ofFn _ _ _ hidx]
  simp only [zipWith_eq_map_zip, List.all_map]
  rfl

theorem padInput_get (zero : α) (x : Tensor α) (pb pe : List Nat) (idx : List Nat)
    (hidx : InRange idx (padInput zero x pb pe).shape) :
    (padInput zero x pb pe).get idx =
      if ((idx.drop 2).zip ((x.shape.drop 2).zip pb)).all (fun p => p.2.2 ≤ p.1 ∧ p.1 < p.2.2 + p.2.1) then
        x.get (idx.take 2 ++ ((idx.drop 2).zip pb).map (fun p => p.1 - p.2))
      else zero := by
  unfold padInput at hidx ⊢
  simp only [ofFn_shape] at hidx
  rw [get_ofFn _ _ _ hidx]
  simp only [zipWith_eq_map_zip, List.all_map]
  rfl

theorem conv_refuses_rank (A : Arith α) (at0 : ConvAttrs) (x w : Tensor α) (bias : Option (Tensor α))
    (h : 4 < x.shape.length) : convOp A at0 x w bias = .error .inputInvalid := by
  unfold convOp
  have h1 : x.shape.length ≠ 3 ∧ x.shape.length ≠ 4 := by omega
  have h2 : ¬ x.shape.length < 2 := by omega
  simp only [if_pos h1, if_neg h2]


/-! ### gorgonia slicing with window / whole-axis selections -/

/-- selection of the window `[st, st + k)` with step 1 -/
def winSel (st k : Nat) : AxisSel × Int × Int := (⟨st, k, 1, decide (k = 1)⟩, (st : Int), (st : Int) + (k : Int))

/-- selection of a whole axis -/
def noneSel (n : Nat) : AxisSel × Int × Int := (⟨0, n, 1, false⟩, 0, n)

theorem axisSel_win (i size st k : Nat) (hk : 1 ≤ k) (hfit : st + k ≤ size) :
    axisSel i size (some ⟨(st : Int), (st : Int) + (k : Int), 1⟩) = .ok (winSel st k) := by
  unfold axisSel winSel
  simp only
  rw [if_neg (by omega)]
  have he : (if (st : Int) + (k : Int) > (size : Int) then (size : Int) else (st : Int) + (k : Int)) = (st : Int) + (k : Int) := by
    rw [if_neg (by omega)]
  rw [he, if_neg (by omega)]
  have h1 : (st : Int) + (k : Int) - (st : Int) = (k : Int) := by omega
  simp only [h1, Int.tdiv_one, Int.tmod_one]
  have h3 : k ≠ 0 := by omega
  simp [h3]
  omega

theorem axisSel_none (i size : Nat) : axisSel i size none = .ok (noneSel size) := rfl

theorem axisSels_nones (i : Nat) (S : List Nat) : axisSels i S [] = .ok (S.map noneSel) := by
  induction S generalizing i with
  | nil => rfl
  | cons n S ih =>
    unfold axisSels
    simp only [List.headD_nil, List.tail_nil, axisSel_none, ih, List.map_cons]

theorem axisSels_wins (i : Nat) (P starts dk : List Nat) (hl1 : starts.length = P.length)
    (hl2 : dk.length = P.length) (hk : ∀ k ∈ dk, 1 ≤ k)
    (hfit : ∀ j, j < P.length → dim starts j + dim dk j ≤ dim P j) :
    axisSels i P (List.zipWith (fun (st k : Nat) => some (⟨st, st + k, 1⟩ : Sl)) starts dk) =
      .ok (List.zipWith winSel starts dk) := by
  induction P generalizing i starts dk with
  | nil =>
    have : starts = [] := List.eq_nil_of_length_eq_zero hl1
    subst this; rfl
  | cons n P ih =>
    cases starts with
    | nil => simp at hl1
    | cons st starts =>
      cases dk with
      | nil => simp at hl2
      | cons k dk =>
        unfold axisSels
        simp only [List.zipWith_cons_cons, List.headD_cons, List.tail_cons]
        have h0 := hfit 0 (by simp)
        simp only [dim_cons_zero] at h0
        rw [axisSel_win i n st k (hk k (by simp)) h0]
        simp only
        rw [ih (i+1) starts dk (by simpa using hl1) (by simpa using hl2)
          (fun k' hk' => hk k' (by simp [hk']))
          (fun j hj => by simpa [dim_cons_succ] using hfit (j+1) (by simp; omega))]

/-- `ndEnd - ndStart` of `gSlice` -/
def ndGap (sels : List (AxisSel × Int × Int)) (shape : List Nat) : Int :=
  (List.zipWith (fun ((a, sz) : (AxisSel × Int × Int) × Nat) (s : Nat) => ((sz : Int) - a.2.2) * s)
      (sels.zip shape) (strides shape)).foldl (fun acc x => acc - x) (prod shape : Int) -
    (List.zipWith (fun (a : AxisSel × Int × Int) (s : Nat) => a.2.1 * s) sels (strides shape)).foldl (· + ·) 0

theorem gSlice_of_sels (t : Tensor α) (sl : List (Option Sl)) (sels : List (AxisSel × Int × Int))
    (hlen : sl.length ≤ t.shape.length) (h : axisSels 0 t.shape sl = .ok sels)
    (hg : ndGap sels t.shape ≠ 1) :
    gSlice t sl = .ok (ofFn (((sels.map (·.1)).filter (!·.drop)).map (·.ext))
      fun idx => t.get (sliceIndex (sels.map (·.1)) idx)) := by
  unfold gSlice
  rw [if_neg (by omega), h]
  simp only
  unfold ndGap at hg
  rw [if_neg hg]

theorem ndGap_nil : ndGap [] [] = 1 := by simp [ndGap, strides]

theorem ndGap_cons (a : AxisSel × Int × Int) (sels : List (AxisSel × Int × Int)) (n : Nat) (s : List Nat) :
    ndGap (a :: sels) (n :: s) = (a.2.2 - a.2.1 - 1) * (prod s : Int) + ndGap sels s := by
  unfold ndGap
  simp only [strides, List.zip_cons_cons, List.zipWith_cons_cons, foldl_sub_eq, foldl_add_eq, List.sum_cons,
    prod_cons, Int.natCast_mul, Int.sub_mul, Int.one_mul]
  omega

theorem ndGap_ge_one (sels : List (AxisSel × Int × Int)) (shape : List Nat) (hl : sels.length = shape.length)
    (h : ∀ a ∈ sels, a.2.1 < a.2.2) : 1 ≤ ndGap sels shape := by
  induction sels generalizing shape with
  | nil => cases shape with
    | nil => rw [ndGap_nil]; omega
    | cons n s => simp at hl
  | cons a sels ih =>
    cases shape with
    | nil => simp at hl
    | cons n s =>
      rw [ndGap_cons]
      have := ih s (by simpa using hl) (fun b hb => h b (by simp [hb]))
      have h1 := h a (by simp)
      have : 0 ≤ (a.2.2 - a.2.1 - 1) * (prod s : Int) := Int.mul_nonneg (by omega) (by omega)
      omega

theorem ndGap_three (a0 a1 a2 : AxisSel × Int × Int) (rest : List (AxisSel × Int × Int)) (n0 n1 n2 : Nat)
    (srest : List Nat) (hl : rest.length = srest.length) (h0 : a0.2.1 < a0.2.2) (h1 : a1.2.1 < a1.2.2)
    (h2 : a2.2.1 + 2 ≤ a2.2.2) (hr : ∀ a ∈ rest, a.2.1 < a.2.2) (hp : 0 < prod srest) :
    ndGap (a0 :: a1 :: a2 :: rest) (n0 :: n1 :: n2 :: srest) ≠ 1 := by
  rw [ndGap_cons, ndGap_cons, ndGap_cons]
  have := ndGap_ge_one rest srest hl hr
  have e0 : 0 ≤ (a0.2.2 - a0.2.1 - 1) * (prod (n1 :: n2 :: srest) : Int) := Int.mul_nonneg (by omega) (by omega)
  have e1 : 0 ≤ (a1.2.2 - a1.2.1 - 1) * (prod (n2 :: srest) : Int) := Int.mul_nonneg (by omega) (by omega)
  have e2 : 1 * 1 ≤ (a2.2.2 - a2.2.1 - 1) * (prod srest : Int) := Int.mul_le_mul (by omega) (by omega) (by omega) (by omega)
  omega


theorem ofFn_congr {β : Type} (s : List Nat) (f g : List Nat → β)
    (h : ∀ idx, InRange idx s → f idx = g idx) : ofFn s f = ofFn s g := by
  unfold ofFn
  congr 1
  apply List.map_congr_left
  intro idx hidx
  exact h idx (mem_allIdx.1 hidx)

theorem sliceIndex_wins (starts dk κ : List Nat) (hl : dk.length = starts.length)
    (hκ : κ.length = starts.length) (hk : ∀ k ∈ dk, k ≠ 1) :
    sliceIndex ((List.zipWith winSel starts dk).map (·.1)) κ = List.zipWith (· + ·) starts κ := by
  induction starts generalizing dk κ with
  | nil => simp [sliceIndex]
  | cons st starts ih =>
    cases dk with
    | nil => simp at hl
    | cons k dk =>
      cases κ with
      | nil => simp at hκ
      | cons i κ =>
        have hk1 : k ≠ 1 := hk k (by simp)
        simp only [List.zipWith_cons_cons, List.map_cons, sliceIndex, winSel, hk1, decide_false,
          Bool.false_eq_true, if_false, List.headD_cons, List.tail_cons, Nat.mul_one]
        rw [← ih dk κ (by simpa using hl) (by simpa using hκ) (fun k' hk' => hk k' (by simp [hk']))]

theorem sliceIndex_nones (S idx : List Nat) (hl : idx.length = S.length) :
    sliceIndex ((S.map noneSel).map (·.1)) idx = idx := by
  induction S generalizing idx with
  | nil => cases idx with
    | nil => rfl
    | cons i idx => simp at hl
  | cons n S ih =>
    cases idx with
    | nil => simp at hl
    | cons i idx =>
      simp only [List.map_cons, sliceIndex, noneSel, Bool.false_eq_true, if_false, List.headD_cons,
        List.tail_cons, Nat.mul_one, Nat.zero_add]
      rw [ih idx (by simpa using hl)]

theorem shape_wins (starts dk : List Nat) (hl : dk.length = starts.length) (hk : ∀ k ∈ dk, k ≠ 1) :
    ((((List.zipWith winSel starts dk).map (·.1)).filter (!·.drop)).map (·.ext)) = dk := by
  induction starts generalizing dk with
  | nil => cases dk with
    | nil => rfl
    | cons k dk => simp at hl
  | cons st starts ih =>
    cases dk with
    | nil => simp at hl
    | cons k dk =>
      have hk1 : k ≠ 1 := hk k (by simp)
      have := ih dk (by simpa using hl) (fun k' hk' => hk k' (by simp [hk']))
      simp only [List.zipWith_cons_cons, List.map_cons, winSel, hk1, decide_false, Bool.not_false,
        List.filter_cons_of_pos, this]

theorem shape_nones (S : List Nat) :
    ((((S.map noneSel).map (·.1)).filter (!·.drop)).map (·.ext)) = S := by
  induction S with
  | nil => rfl
  | cons n S ih =>
    simp only [List.map_cons, noneSel, Bool.not_false, List.filter_cons_of_pos, ih]

theorem mem_zipWith_winSel {starts dk : List Nat} {a : AxisSel × Int × Int}
    (ha : a ∈ List.zipWith winSel starts dk) (hk : ∀ k ∈ dk, 1 ≤ k) : a.2.1 < a.2.2 := by
  induction starts generalizing dk with
  | nil => simp at ha
  | cons st starts ih =>
    cases dk with
    | nil => simp at ha
    | cons k dk =>
      simp only [List.zipWith_cons_cons, List.mem_cons] at ha
      rcases ha with rfl | ha
      · have := hk k (by simp); simp only [winSel]; omega
      · exact ih ha (fun k' hk' => hk k' (by simp [hk']))

/-- `getSubImage`: batch position `b`, all channels, a window of extents `dk` (all ≥ 2) at `starts` -/
theorem gSlice_subimage (px : Tensor α) (N C : Nat) (P starts dk : List Nat) (b : Nat)
    (hshape : px.shape = N :: C :: P) (hb : b < N) (hC : 0 < C) (hP : Pos P) (hne : P ≠ [])
    (hl1 : starts.length = P.length) (hl2 : dk.length = P.length) (hk : ∀ k ∈ dk, 2 ≤ k)
    (hfit : ∀ j, j < P.length → dim starts j + dim dk j ≤ dim P j) :
    gSlice px ([some ⟨b, b + 1, 1⟩, none] ++ List.zipWith (fun (st k : Nat) => some (⟨st, st + k, 1⟩ : Sl)) starts dk) =
      .ok (ofFn (C :: dk) fun idx => px.get (b :: idx.headD 0 :: List.zipWith (· + ·) starts idx.tail)) := by
  have hk1 : ∀ k ∈ dk, 1 ≤ k := fun k h => by have := hk k h; omega
  have hkn : ∀ k ∈ dk, k ≠ 1 := fun k h => by have := hk k h; omega
  have hsels : axisSels 0 px.shape ([some ⟨b, b + 1, 1⟩, none] ++
      List.zipWith (fun (st k : Nat) => some (⟨st, st + k, 1⟩ : Sl)) starts dk) =
      .ok (winSel b 1 :: noneSel C :: List.zipWith winSel starts dk) := by
    rw [hshape]
    unfold axisSels
    simp only [List.cons_append, List.nil_append, List.headD_cons, List.tail_cons]
    have := axisSel_win 0 N b 1 (by omega) (by omega)
    simp only [Int.natCast_one] at this
    rw [this]
    simp only
    unfold axisSels
    simp only [List.headD_cons, List.tail_cons, axisSel_none]
    rw [axisSels_wins _ P starts dk hl1 hl2 hk1 hfit]
  rw [gSlice_of_sels px _ _ (by simp [hshape, hl1, hl2]) hsels]
  · simp only [List.map_cons, List.filter_cons, winSel, noneSel, decide_true, Bool.not_true, Bool.false_eq_true,
      if_false, Bool.not_false, if_true]
    rw [shape_wins starts dk (by omega) hkn]
    refine congrArg _ (ofFn_congr _ _ _ ?_)
    intro idx hidx
    cases idx with
    | nil => simp [InRange] at hidx
    | cons c κ =>
      simp only [InRange] at hidx
      have hκ := InRange_length hidx.2
      simp only [sliceIndex, if_true, Bool.false_eq_true, if_false, List.headD_cons, List.tail_cons, Nat.mul_one,
        Nat.zero_add]
      rw [sliceIndex_wins starts dk κ (by omega) (by omega) hkn]
  · rw [hshape]
    cases P with
    | nil => exact absurd rfl hne
    | cons p P =>
      cases starts with
      | nil => simp at hl1
      | cons st starts =>
        cases dk with
        | nil => simp at hl2
        | cons k dk =>
          simp only [List.zipWith_cons_cons]
          apply ndGap_three
          · simp at hl1 hl2 ⊢; omega
          · simp only [winSel]; omega
          · simp only [noneSel]; omega
          · have := hk k (by simp); simp only [winSel]; omega
          · intro a ha
            exact mem_zipWith_winSel ha (fun k' hk' => hk1 k' (by simp [hk']))
          · exact prod_pos_of_Pos (fun n hn => hP n (by simp [hn]))


theorem sliceIndex_drop (a : AxisSel) (as : List AxisSel) (idx : List Nat) (h : a.drop = true) :
    sliceIndex (a :: as) idx = a.start :: sliceIndex as idx := by
  simp [sliceIndex, h]

/-- the kernel of output channel `m` -/
theorem gSlice_kernel (kern : Tensor α) (M C : Nat) (dk : List Nat) (m : Nat)
    (hshape : kern.shape = M :: C :: dk) (hm : m < M) (hC : 0 < C) (hne : dk ≠ [])
    (hk : ∀ k ∈ dk, 2 ≤ k) :
    gSlice kern [some ⟨m, m + 1, 1⟩] = .ok (ofFn (C :: dk) fun idx => kern.get (m :: idx)) := by
  have hsels : axisSels 0 kern.shape [some ⟨m, m + 1, 1⟩] =
      .ok (winSel m 1 :: (C :: dk).map noneSel) := by
    rw [hshape]
    unfold axisSels
    simp only [List.headD_cons, List.tail_cons]
    have := axisSel_win 0 M m 1 (by omega) (by omega)
    simp only [Int.natCast_one] at this
    rw [this]
    simp only [axisSels_nones]
  rw [gSlice_of_sels kern _ _ (by simp [hshape]) hsels]
  · have e1 := shape_nones (C :: dk)
    have e2 := fun idx h => sliceIndex_nones (C :: dk) idx h
    simp only [List.map_cons, List.filter_cons, winSel, decide_true, Bool.not_true, Bool.false_eq_true, if_false]
      at e1 e2 ⊢
    rw [e1]
    refine congrArg _ (ofFn_congr _ _ _ ?_)
    intro idx hidx
    have hlen := InRange_length hidx
    rw [sliceIndex_drop _ _ _ rfl, e2 idx hlen]
  · rw [hshape]
    cases dk with
    | nil => exact absurd rfl hne
    | cons k dk =>
      simp only [List.map_cons]
      apply ndGap_three
      · simp
      · simp only [winSel]; omega
      · simp only [noneSel]; omega
      · have := hk k (by simp); simp only [noneSel]; omega
      · intro a ha
        simp only [List.mem_map] at ha
        obtain ⟨n, hn, rfl⟩ := ha
        have := hk n (by simp [hn]); simp only [noneSel]; omega
      · exact prod_pos_of_Pos (fun n hn => by have := hk n (by simp [hn]); omega)

theorem repeatUni_same (s : List Nat) (k : Nat) (B : Tensor α) : repeatUni s s k B = .ok B := by
  induction k with
  | zero => rfl
  | succ k ih => simpa [repeatUni] using ih

theorem unidir_same (X Y : Tensor α) (h : X.shape = Y.shape) : unidirBroadcast X Y = .ok (X, Y) := by
  obtain ⟨sX, dX⟩ := X
  obtain ⟨sY, dY⟩ := Y
  simp only at h
  subst h
  rw [unidir_eq _ _ (by simp)]
  simp only [padShape_self]
  rw [repeatUni_same]

theorem unidir_ofFn (s : List Nat) (f g : List Nat → α) :
    unidirBroadcast (ofFn s f) (ofFn s g) = .ok (ofFn s f, ofFn s g) := unidir_same _ _ rfl

theorem zipWith_map_same {β γ δ ε : Type} (h : γ → δ → ε) (f : β → γ) (g : β → δ) (l : List β) :
    List.zipWith h (l.map f) (l.map g) = l.map (fun i => h (f i) (g i)) := by
  induction l with
  | nil => rfl
  | cons a l ih => simp [ih]

/-- one output cell, no scalar collapse: the fixed-order sum over the window -/
theorem convCell_eq (A : Arith α) (px kern : Tensor α) (N C M : Nat) (P dk starts : List Nat) (b m : Nat)
    (hpx : px.shape = N :: C :: P) (hkern : kern.shape = M :: C :: dk) (hb : b < N) (hm : m < M)
    (hC : 0 < C) (hP : Pos P) (hne : P ≠ [])
    (hl1 : starts.length = P.length) (hl2 : dk.length = P.length) (hk : ∀ k ∈ dk, 2 ≤ k)
    (hfit : ∀ j, j < P.length → dim starts j + dim dk j ≤ dim P j) :
    convCell A px kern b m starts = .ok ((allIdx (C :: dk)).foldl (fun acc idx =>
      A.add acc (A.mul (px.get (b :: idx.headD 0 :: List.zipWith (· + ·) starts idx.tail)) (kern.get (m :: idx)))) A.zero) := by
  unfold convCell
  simp only [hkern, List.drop_succ_cons, List.drop_zero]
  rw [gSlice_subimage px N C P starts dk b hpx hb hC hP hne hl1 hl2 hk hfit,
    gSlice_kernel kern M C dk m hkern hm hC (by intro h; subst h; cases P with
      | nil => exact hne rfl
      | cons p P => simp at hl2) hk]
  simp only
  rw [unidir_ofFn]
  simp only [zipSame, ofFn_shape, if_true]
  unfold ofFn
  simp only [zipWith_map_same, List.foldl_map]

/-! ### skipping the zeros of the dilated kernel -/

theorem filter_mul_range (d j : Nat) (hd : 0 < d) :
    (List.range (j * d + 1)).filter (fun i => i % d = 0) = (List.range (j + 1)).map (· * d) := by
  induction j with
  | zero => simp
  | succ j ih =>
    have e : (j + 1) * d + 1 = (j * d + 1) + (d - 1) + 1 := by rw [Nat.succ_mul]; omega
    rw [e, List.range_succ, List.range_add, List.filter_append, List.filter_append, ih]
    have h1 : List.filter (fun i => decide (i % d = 0)) (List.map (fun x => j * d + 1 + x) (List.range (d - 1))) = [] := by
      rw [List.filter_eq_nil_iff]
      intro a ha
      simp only [List.mem_map, List.mem_range] at ha
      obtain ⟨t, ht, rfl⟩ := ha
      have : (j * d + 1 + t) % d = 1 + t := by
        rw [Nat.add_assoc, Nat.add_comm, Nat.add_mul_mod_self_right, Nat.mod_eq_of_lt (by omega)]
      simp [this]
    have h2 : (j * d + 1 + (d - 1)) = (j + 1) * d := by rw [Nat.succ_mul]; omega
    rw [h1, h2]
    simp [List.range_succ]

theorem flatMap_ite_nil {β γ : Type} (p : β → Bool) (g : β → List γ) (l : List β) :
    l.flatMap (fun i => if p i then g i else []) = (l.filter p).flatMap g := by
  induction l with
  | nil => rfl
  | cons a l ih =>
    by_cases h : p a <;> simp [List.flatMap_cons, h, ih]

/-- all spatial positions are multiples of the dilation -/
def mulP (dil : List Nat) (idx : List Nat) : Bool := (idx.zip dil).all (fun p => p.1 % p.2 = 0)

/-- position of a tap in the dilated kernel -/
def scale (dil : List Nat) (idx : List Nat) : List Nat := List.zipWith (· * ·) idx dil

theorem filter_allIdx_scale (k dil : List Nat) (hl : dil.length = k.length) (hk : Pos k) (hd : Pos dil) :
    (allIdx (List.zipWith (fun k d => (k - 1) * d + 1) k dil)).filter (mulP dil) = (allIdx k).map (scale dil) := by
  induction k generalizing dil with
  | nil =>
    have : dil = [] := List.eq_nil_of_length_eq_zero hl
    subst this
    simp [allIdx, mulP, scale]
  | cons k1 ks ih =>
    cases dil with
    | nil => simp at hl
    | cons d1 ds =>
      have hk1 : 0 < k1 := hk k1 (by simp)
      have hd1 : 0 < d1 := hd d1 (by simp)
      have ih' := ih ds (by simpa using hl) (fun n hn => hk n (by simp [hn])) (fun n hn => hd n (by simp [hn]))
      simp only [List.zipWith_cons_cons, allIdx, List.filter_flatMap, List.filter_map, List.map_flatMap, List.map_map]
      have e1 : ∀ i, List.map (fun x => i :: x) (List.filter (mulP (d1 :: ds) ∘ fun x => i :: x)
          (allIdx (List.zipWith (fun k d => (k - 1) * d + 1) ks ds))) =
          if i % d1 = 0 then List.map (fun x => i :: x) ((allIdx ks).map (scale ds)) else [] := by
        intro i
        by_cases hi : i % d1 = 0
        · rw [if_pos hi, ← ih']
          congr 1
          apply List.filter_congr
          intro x _
          simp [mulP, hi]
        · rw [if_neg hi]
          rw [List.map_eq_nil_iff, List.filter_eq_nil_iff]
          intro x _
          simp [mulP, hi]
      simp only [e1]
      have := flatMap_ite_nil (fun i => decide (i % d1 = 0))
        (fun i => List.map (fun x => i :: x) ((allIdx ks).map (scale ds)))
        (List.range ((k1 - 1) * d1 + 1))
      simp only [decide_eq_true_eq] at this
      rw [this, filter_mul_range d1 (k1 - 1) hd1, show k1 - 1 + 1 = k1 by omega, List.flatMap_map]
      congr 1
      funext i
      simp [scale, Function.comp_def]

omit [Inhabited α] in
theorem foldl_filter_zero {ι : Type} (A : Arith α) (hz : ∀ a, A.add a A.zero = a) (F : ι → α) (p : ι → Bool)
    (l : List ι) (a : α) (h : ∀ i ∈ l, p i = false → F i = A.zero) :
    l.foldl (fun acc i => A.add acc (F i)) a = (l.filter p).foldl (fun acc i => A.add acc (F i)) a := by
  induction l generalizing a with
  | nil => rfl
  | cons i l ih =>
    have ih' := fun a => ih a (fun j hj => h j (by simp [hj]))
    by_cases hp : p i
    · simp only [List.foldl_cons, List.filter_cons, hp, if_true, ih']
    · have := h i (by simp) (by simpa using hp)
      simp only [List.foldl_cons, List.filter_cons, hp, this, hz, ih']
      simp

omit [Inhabited α] in
theorem foldl_congr_mem {ι : Type} (f g : α → ι → α) (l : List ι) (a : α)
    (h : ∀ acc, ∀ i ∈ l, f acc i = g acc i) : l.foldl f a = l.foldl g a := by
  induction l generalizing a with
  | nil => rfl
  | cons i l ih =>
    simp only [List.foldl_cons]
    rw [h a i (by simp), ih _ (fun acc j hj => h acc j (by simp [hj]))]


theorem mulP_cons_one (dil κ : List Nat) (c : Nat) : mulP (1 :: dil) (c :: κ) = mulP dil κ := by
  simp [mulP, Nat.mod_one]

theorem dkshape_eq (k dil : List Nat) (hk : Pos k) (hd : Pos dil) :
    List.zipWith (fun k d => k + (k - 1) * (d - 1)) k dil = List.zipWith (fun k d => (k - 1) * d + 1) k dil := by
  induction k generalizing dil with
  | nil => simp
  | cons a k ih =>
    cases dil with
    | nil => simp
    | cons d dil =>
      simp only [List.zipWith_cons_cons]
      rw [dk_eq a d (hk a (by simp)) (hd d (by simp)),
        ih dil (fun n hn => hk n (by simp [hn])) (fun n hn => hd n (by simp [hn]))]

theorem dilatedKernel_shape (zero : α) (w : Tensor α) (M C : Nat) (k dil : List Nat)
    (hw : w.shape = M :: C :: k) (hk : Pos k) (hd : Pos dil) :
    (dilatedKernel zero w dil).shape = M :: C :: List.zipWith (fun k d => (k - 1) * d + 1) k dil := by
  unfold dilatedKernel
  simp only [ofFn_shape, hw, List.take_succ_cons, List.take_zero, List.drop_succ_cons, List.drop_zero,
    List.cons_append, List.nil_append, dkshape_eq k dil hk hd]

theorem kern_get (zero : α) (w : Tensor α) (M C : Nat) (k dil : List Nat)
    (hw : w.shape = M :: C :: k) (hk : Pos k) (hd : Pos dil) (m c : Nat) (κ' : List Nat) (hm : m < M)
    (h : InRange (c :: κ') (C :: List.zipWith (fun k d => (k - 1) * d + 1) k dil)) :
    (dilatedKernel zero w dil).get (m :: c :: κ') =
      if mulP dil κ' then w.get (m :: c :: (κ'.zip dil).map (fun p => p.1 / p.2)) else zero := by
  rw [dilatedKernel_get zero w dil (m :: c :: κ')
    (by rw [dilatedKernel_shape zero w M C k dil hw hk hd]; exact ⟨hm, h⟩)]
  rfl

theorem unscale (dil κ : List Nat) (hl : κ.length ≤ dil.length) (hd : Pos dil) :
    ((scale dil κ).zip dil).map (fun p => p.1 / p.2) = κ := by
  induction κ generalizing dil with
  | nil => simp [scale]
  | cons a κ ih =>
    cases dil with
    | nil => simp at hl
    | cons d dil =>
      have hd0 : 0 < d := hd d (by simp)
      have := ih dil (by simpa using hl) (fun n hn => hd n (by simp [hn]))
      simp only [scale] at this ⊢
      simp only [List.zipWith_cons_cons, List.zip_cons_cons, List.map_cons, this,
        Nat.mul_div_cancel _ hd0]

/-- one output cell as the fixed-order sum over the taps of the undilated kernel -/
theorem convCell_taps (A : Arith α) (hz : ∀ a, A.add a A.zero = a) (hmz : ∀ a, A.mul a A.zero = A.zero)
    (px w : Tensor α) (N C M : Nat) (P k dil starts : List Nat) (b m : Nat)
    (hpx : px.shape = N :: C :: P) (hw : w.shape = M :: C :: k) (hb : b < N) (hm : m < M)
    (hC : 0 < C) (hP : Pos P) (hne : P ≠ []) (hkp : Pos k) (hdp : Pos dil)
    (hl1 : starts.length = P.length) (hl2 : k.length = P.length) (hl3 : dil.length = P.length)
    (hk2 : ∀ x ∈ List.zipWith (fun k d => (k - 1) * d + 1) k dil, 2 ≤ x)
    (hfit : ∀ j, j < P.length → dim starts j + dim (List.zipWith (fun k d => (k - 1) * d + 1) k dil) j ≤ dim P j) :
    convCell A px (dilatedKernel A.zero w dil) b m starts = .ok ((allIdx (C :: k)).foldl (fun acc tap =>
      A.add acc (A.mul (px.get (b :: tap.headD 0 :: List.zipWith (· + ·) starts (scale dil tap.tail)))
        (w.get (m :: tap)))) A.zero) := by
  have hks := dilatedKernel_shape A.zero w M C k dil hw hkp hdp
  rw [convCell_eq A px _ N C M P _ starts b m hpx hks hb hm hC hP hne hl1 (by simp [hl2, hl3]) hk2 hfit]
  congr 1
  -- drop the zero taps
  rw [foldl_filter_zero A hz _ (mulP (1 :: dil))]
  · have hC1 : C = (C - 1) * 1 + 1 := by omega
    have hsh : (C :: List.zipWith (fun k d => (k - 1) * d + 1) k dil) =
        List.zipWith (fun k d => (k - 1) * d + 1) (C :: k) (1 :: dil) := by
      simp only [List.zipWith_cons_cons]; rw [← hC1]
    have hfil := filter_allIdx_scale (C :: k) (1 :: dil) (by simp [hl2, hl3])
      (fun n hn => by rcases List.mem_cons.1 hn with rfl | h; exact hC; exact hkp n h)
      (fun n hn => by rcases List.mem_cons.1 hn with rfl | h; omega; exact hdp n h)
    rw [← hsh] at hfil
    -- on the kept positions the dilated kernel holds the tap
    rw [foldl_congr_mem _ (fun acc idx => A.add acc (A.mul
        (px.get (b :: idx.headD 0 :: List.zipWith (· + ·) starts idx.tail))
        (w.get (m :: idx.headD 0 :: (idx.tail.zip dil).map (fun p => p.1 / p.2)))))]
    · rw [hfil, List.foldl_map]
      apply foldl_congr_mem
      intro acc tap htap
      cases tap with
      | nil => simp [allIdx] at htap
      | cons c κ =>
        have hκ := InRange_length (mem_allIdx.1 htap)
        simp only [List.length_cons] at hκ
        simp only [scale, List.zipWith_cons_cons, List.headD_cons, List.tail_cons, Nat.mul_one]
        have := unscale dil κ (by omega) hdp
        simp only [scale] at this
        rw [this]
    · intro acc idx hidx
      rw [List.mem_filter] at hidx
      obtain ⟨hin, hmul⟩ := hidx
      cases idx with
      | nil => simp [allIdx] at hin
      | cons c κ' =>
        have hr := mem_allIdx.1 hin
        rw [kern_get A.zero w M C k dil hw hkp hdp m c κ' hm hr]
        have : mulP dil κ' = true := by rw [mulP_cons_one] at hmul; exact hmul
        simp only [this, if_true, List.headD_cons, List.tail_cons]
  · intro idx hin hmul
    cases idx with
    | nil => simp [allIdx] at hin
    | cons c κ' =>
      have hr := mem_allIdx.1 hin
      rw [kern_get A.zero w M C k dil hw hkp hdp m c κ' hm hr]
      have : mulP dil κ' = false := by rw [mulP_cons_one] at hmul; exact hmul
      simp only [this, Bool.false_eq_true, if_false, hmz]

/-! ### the padded input and the spec's tap -/

theorem window_fit (o T dk s : Nat) (hdk : dk ≤ T) (ho : o < (T - dk) / s + 1) : o * s + dk ≤ T := by
  have h1 : o * s ≤ ((T - dk) / s) * s := Nat.mul_le_mul_right _ (by omega)
  have h2 : ((T - dk) / s) * s ≤ T - dk := Nat.div_mul_le_self _ _
  omega

theorem zip_eq_range {β γ : Type} (l1 : List β) (l2 : List γ) (d1 : β) (d2 : γ) (h : l2.length = l1.length) :
    l1.zip l2 = (List.range l1.length).map (fun i => (l1.getD i d1, l2.getD i d2)) := by
  apply List.ext_getElem
  · simp [h]
  · intro i h1 h2
    simp only [List.length_zip, h, Nat.min_self] at h1
    simp [List.getD_eq_getElem?_getD, h1, h]

theorem getD_map_range {β : Type} (n : Nat) (F : Nat → β) (i : Nat) (d : β) (hi : i < n) :
    ((List.range n).map F).getD i d = F i := by
  simp [List.getD_eq_getElem?_getD, hi]

theorem all_range_congr (n : Nat) (f g : Nat → Bool) (h : ∀ i, i < n → f i = g i) :
    (List.range n).all f = (List.range n).all g := by
  rw [Bool.eq_iff_iff, List.all_eq_true, List.all_eq_true]
  constructor
  · intro hf i hi; rw [← h i (List.mem_range.1 hi)]; exact hf i hi
  · intro hg i hi; rw [h i (List.mem_range.1 hi)]; exact hg i hi

theorem padInput_shape (zero : α) (x : Tensor α) (N C : Nat) (inDims pb pe : List Nat)
    (hx : x.shape = N :: C :: inDims) :
    (padInput zero x pb pe).shape =
      N :: C :: List.zipWith (fun (d : Nat) (p : Nat × Nat) => p.1 + d + p.2) inDims (pb.zip pe) := by
  unfold padInput
  simp [hx]

theorem dim_padded (inDims pb pe : List Nat) (i : Nat) (hi : i < inDims.length) (hlb : pb.length = inDims.length)
    (hle : pe.length = inDims.length) :
    dim (List.zipWith (fun (d : Nat) (p : Nat × Nat) => p.1 + d + p.2) inDims (pb.zip pe)) i =
      dim pb i + dim inDims i + dim pe i := by
  simp [dim, List.getD_eq_getElem?_getD, hi, hlb, hle]

/-- the padded input at a window position, in the spec's (integer position) form -/
theorem px_get_spec (zero : α) (x : Tensor α) (N C : Nat) (inDims pb pe q : List Nat) (n c : Nat)
    (hx : x.shape = N :: C :: inDims) (hlb : pb.length = inDims.length) (hle : pe.length = inDims.length)
    (hlq : q.length = inDims.length) (hn : n < N) (hc : c < C)
    (hq : ∀ i, i < inDims.length → dim q i < dim pb i + dim inDims i + dim pe i)
    (F : Nat → Int) (hF : ∀ i, i < inDims.length → F i = (dim q i : Int) - (dim pb i : Int)) :
    (padInput zero x pb pe).get (n :: c :: q) =
      if ((List.range inDims.length).all fun i =>
          decide (0 ≤ ((List.range inDims.length).map F).getD i 0 ∧
            ((List.range inDims.length).map F).getD i 0 < (dim inDims i : Int))) = true
      then x.get ([n, c] ++ ((List.range inDims.length).map F).map Int.toNat) else zero := by
  have hr : InRange (n :: c :: q) (padInput zero x pb pe).shape := by
    rw [padInput_shape zero x N C inDims pb pe hx]
    refine ⟨hn, hc, ?_⟩
    rw [InRange_dim]
    refine ⟨by simp [hlq, hlb, hle], ?_⟩
    intro j hj
    simp only [List.length_zipWith, List.length_zip, hlb, hle, Nat.min_self] at hj
    rw [dim_padded inDims pb pe j hj hlb hle]
    exact hq j hj
  rw [padInput_get zero x pb pe _ hr]
  simp only [List.drop_succ_cons, List.drop_zero, List.take_succ_cons, List.take_zero, hx]
  have hz1 : inDims.zip pb = (List.range inDims.length).map (fun i => (dim inDims i, dim pb i)) :=
    zip_eq_range inDims pb 0 0 hlb
  have hz2 : q.zip (inDims.zip pb) = (List.range inDims.length).map (fun i => (dim q i, (dim inDims i, dim pb i))) := by
    rw [zip_eq_range q (inDims.zip pb) 0 (0, 0) (by simp [hlb, hlq]), hlq]
    apply List.map_congr_left
    intro i hi
    rw [hz1, getD_map_range _ _ _ _ (List.mem_range.1 hi)]
    rfl
  have hz3 : q.zip pb = (List.range inDims.length).map (fun i => (dim q i, dim pb i)) := by
    rw [zip_eq_range q pb 0 0 (by omega), hlq]; rfl
  rw [hz2, hz3]
  simp only [List.all_map, List.map_map]
  have hc1 : (List.range inDims.length).all ((fun (p : Nat × Nat × Nat) => decide (p.2.2 ≤ p.1 ∧ p.1 < p.2.2 + p.2.1)) ∘
        fun i => (dim q i, dim inDims i, dim pb i)) =
      (List.range inDims.length).all fun i =>
          decide (0 ≤ ((List.range inDims.length).map F).getD i 0 ∧
            ((List.range inDims.length).map F).getD i 0 < (dim inDims i : Int)) := by
    apply all_range_congr
    intro i hi
    rw [getD_map_range _ _ _ _ hi, hF i hi]
    simp only [Function.comp]
    rw [decide_eq_decide]
    omega
  rw [hc1]
  have hc2 : List.map ((fun (p : Nat × Nat) => p.1 - p.2) ∘ fun i => (dim q i, dim pb i)) (List.range inDims.length) =
      List.map (Int.toNat ∘ F) (List.range inDims.length) := by
    apply List.map_congr_left
    intro i hi
    simp only [Function.comp, hF i (List.mem_range.1 hi)]
    omega
  rw [hc2]


/-- the accumulated sum of the spec at one output index -/
def specAcc (A : Arith α) (dil strides pb inDims k : List Nat) (x w : Tensor α) (ns C : Nat) (idx : List Nat) : α :=
  (allIdx (C :: k)).foldl (fun acc tap =>
    A.add acc (A.mul
      (if ((List.range ns).all fun i =>
            decide (0 ≤ ((List.range ns).map fun i =>
                (((idx.drop 2).getD i 0 * dim strides i + (tap.drop 1).getD i 0 * dim dil i : Nat) : Int) - (dim pb i : Int)).getD i 0 ∧
              ((List.range ns).map fun i =>
                (((idx.drop 2).getD i 0 * dim strides i + (tap.drop 1).getD i 0 * dim dil i : Nat) : Int) - (dim pb i : Int)).getD i 0 <
                (dim inDims i : Int))) = true
        then x.get ([idx.getD 0 0, tap.getD 0 0] ++ ((List.range ns).map fun i =>
                (((idx.drop 2).getD i 0 * dim strides i + (tap.drop 1).getD i 0 * dim dil i : Nat) : Int) - (dim pb i : Int)).map Int.toNat)
        else A.zero)
      (w.get ([idx.getD 1 0, tap.getD 0 0] ++ tap.drop 1)))) A.zero

theorem go_eq (A : Arith α) (dil strides pb inDims k : List Nat) (x w : Tensor α) (bias : Option (Tensor α))
    (ns : Nat) (pe dk : List Nat) :
    Spec.conv.go A dil strides pb inDims k x w bias ns pe dk =
      ofFn ([dim x.shape 0, dim w.shape 0] ++
          (List.range ns).map fun i => (dim inDims i + dim pb i + dim pe i - dim dk i) / dim strides i + 1)
        fun idx => match bias with
          | some b => A.add (specAcc A dil strides pb inDims k x w ns (dim x.shape 1) idx) (b.get [idx.getD 1 0])
          | none => specAcc A dil strides pb inDims k x w ns (dim x.shape 1) idx := rfl


/-- one output cell of the model is the spec's accumulated sum -/
theorem cell_value (A : Arith α) (hA : ZeroLaws A) (x w : Tensor α)
    (N C M : Nat) (inDims k dil strides pb pe : List Nat)
    (hx : x.shape = N :: C :: inDims) (hw : w.shape = M :: C :: k)
    (hne : inDims ≠ [])
    (hlk : k.length = inDims.length) (hld : dil.length = inDims.length) (hls : strides.length = inDims.length)
    (hlb : pb.length = inDims.length) (hle : pe.length = inDims.length)
    (hC : 0 < C) (hpi : Pos inDims) (hpk : Pos k) (hpd : Pos dil)
    (hk2 : ∀ x ∈ List.zipWith (fun k d => (k - 1) * d + 1) k dil, 2 ≤ x)
    (hfit : ∀ i, i < inDims.length →
      dim (List.zipWith (fun k d => (k - 1) * d + 1) k dil) i ≤ dim inDims i + dim pb i + dim pe i)
    (idx : List Nat)
    (hidx : InRange idx (N :: M :: (List.range inDims.length).map fun i =>
      (dim inDims i + dim pb i + dim pe i - dim (List.zipWith (fun k d => (k - 1) * d + 1) k dil) i) / dim strides i + 1)) :
    (if ((List.range inDims.length).all fun i =>
          decide ((List.drop 2 idx).getD i 0 * dim strides i < dim (padInput A.zero x pb pe).shape (2 + i))) = true then
        match convCell A (padInput A.zero x pb pe) (dilatedKernel A.zero w dil) (idx.getD 0 0) (idx.getD 1 0)
            (List.zipWith (fun x1 x2 => x1 * x2) (List.drop 2 idx) strides) with
        | Except.ok v => v
        | Except.error _ => A.zero
      else A.zero) = specAcc A dil strides pb inDims k x w inDims.length C idx := by
  obtain ⟨n, m, o, rfl⟩ : ∃ n m o, idx = n :: m :: o := by
    cases idx with
    | nil => simp [InRange] at hidx
    | cons n idx => cases idx with
      | nil => simp [InRange] at hidx
      | cons m o => exact ⟨n, m, o, rfl⟩
  obtain ⟨hn, hm, ho⟩ := hidx
  rw [InRange_dim] at ho
  obtain ⟨hol, ho⟩ := ho
  simp only [List.length_map, List.length_range] at hol ho
  have hpxs := padInput_shape A.zero x N C inDims pb pe hx
  have hPlen : (List.zipWith (fun (d : Nat) (p : Nat × Nat) => p.1 + d + p.2) inDims (pb.zip pe)).length = inDims.length := by
    simp [hlb, hle]
  -- every output position is a valid window position
  have hwin : ∀ i, i < inDims.length → dim o i * dim strides i +
      dim (List.zipWith (fun k d => (k - 1) * d + 1) k dil) i ≤ dim pb i + dim inDims i + dim pe i := by
    intro i hi
    have h1 := ho i hi
    rw [dim_map_range _ _ _ hi] at h1
    have := window_fit _ _ _ _ (hfit i hi) h1
    omega
  have hdk1 : ∀ i, i < inDims.length → 2 ≤ dim (List.zipWith (fun k d => (k - 1) * d + 1) k dil) i := by
    intro i hi
    have hl : i < (List.zipWith (fun k d => (k - 1) * d + 1) k dil).length := by simp [hlk, hld, hi]
    have : dim (List.zipWith (fun k d => (k - 1) * d + 1) k dil) i = (List.zipWith (fun k d => (k - 1) * d + 1) k dil)[i] := by
      simp [dim_eq, List.getElem?_eq_getElem hl]
    rw [this]; exact hk2 _ (List.getElem_mem hl)
  have hreached : ((List.range inDims.length).all fun i =>
      decide ((List.drop 2 (n :: m :: o)).getD i 0 * dim strides i < dim (padInput A.zero x pb pe).shape (2 + i))) = true := by
    rw [List.all_eq_true]
    intro i hi
    have hi := List.mem_range.1 hi
    simp only [List.drop_succ_cons, List.drop_zero, decide_eq_true_eq, hpxs]
    rw [show 2 + i = (i + 1) + 1 by omega, dim_cons_succ, dim_cons_succ, dim_padded inDims pb pe i hi hlb hle]
    have := hwin i hi
    have := hdk1 i hi
    show dim o i * _ < _
    omega
  rw [if_pos hreached]
  simp only [List.getD_cons_zero, List.getD_cons_succ, List.drop_succ_cons, List.drop_zero]
  have hstarts : ∀ j, j < inDims.length → dim (List.zipWith (fun x1 x2 => x1 * x2) o strides) j = dim o j * dim strides j :=
    fun j hj => dim_zipWith _ _ _ _ (by omega) (by omega)
  rw [convCell_taps A hA.add_zero hA.mul_zero (padInput A.zero x pb pe) w N C M _ k dil _ n m hpxs hw hn hm hC
    (by
      intro p hp
      obtain ⟨j, hj, rfl⟩ := List.getElem_of_mem hp
      have hj' : j < inDims.length := by rw [hPlen] at hj; exact hj
      have h1 := dim_padded inDims pb pe j hj' hlb hle
      rw [dim_eq, List.getElem?_eq_getElem hj, Option.getD_some] at h1
      rw [h1]
      have := Pos_dim hpi hj'
      omega)
    (by intro h; have := congrArg List.length h; rw [hPlen] at this; simp at this; exact hne this)
    hpk hpd (by simp [hPlen, hol, hls]) (by rw [hPlen, hlk]) (by rw [hPlen, hld]) hk2
    (by
      intro j hj
      rw [hPlen] at hj
      rw [hstarts j hj, dim_padded inDims pb pe j hj hlb hle]
      exact hwin j hj)]
  simp only
  unfold specAcc
  apply foldl_congr_mem
  intro acc tap htap
  cases tap with
  | nil => simp [allIdx] at htap
  | cons c κ =>
    obtain ⟨hc, hκ⟩ := mem_allIdx.1 htap
    rw [InRange_dim] at hκ
    obtain ⟨hκl, hκ⟩ := hκ
    simp only [List.headD_cons, List.tail_cons, List.getD_cons_zero, List.getD_cons_succ, List.drop_succ_cons,
      List.drop_zero, List.cons_append, List.nil_append]
    congr 2
    have hq : ∀ i, i < inDims.length →
        dim (List.zipWith (fun x1 x2 => x1 + x2) (List.zipWith (fun x1 x2 => x1 * x2) o strides) (scale dil κ)) i =
          dim o i * dim strides i + dim κ i * dim dil i := by
      intro i hi
      rw [dim_zipWith _ _ _ _ (by simp; omega) (by simp [scale]; omega), hstarts i hi]
      unfold scale
      rw [dim_zipWith _ _ _ _ (by omega) (by omega)]
    have := px_get_spec A.zero x N C inDims pb pe
      (List.zipWith (fun x1 x2 => x1 + x2) (List.zipWith (fun x1 x2 => x1 * x2) o strides) (scale dil κ)) n c
      hx hlb hle (by simp [scale]; omega) hn hc
      (by
        intro i hi
        rw [hq i hi]
        have h1 := hwin i hi
        have h2 := hκ i (by omega)
        rw [dim_zipWith _ _ _ _ (by omega) (by omega)] at h1
        have h3 : dim κ i * dim dil i ≤ (dim k i - 1) * dim dil i := Nat.mul_le_mul_right _ (by omega)
        omega)
      (fun i => ((o.getD i 0 * dim strides i + κ.getD i 0 * dim dil i : Nat) : Int) - (dim pb i : Int))
      (by intro i hi; rw [hq i hi]; rfl)
    simp only [List.cons_append, List.nil_append] at this
    exact this

/-! ### the bias step -/

theorem unidir_WF (X Y X' Y' : Tensor α) (hY : Y.WF) (h : unidirBroadcast X Y = .ok (X', Y')) : Y'.WF := by
  by_cases hlt : X.shape.length < Y.shape.length
  · rw [unidir_lt X Y hlt] at h; cases h
  · rw [unidir_eq X Y hlt] at h
    split at h
    · next nb he =>
      have hB' : Y' = nb := by cases h; rfl
      subst hB'
      rw [repeatUni_ok _ _ _ _ _ he]
      exact repA_WF _ _ _ _ (WF_pad Y _ hY)
    · cases h

theorem ravel_ones (n : Nat) (o : List Nat) :
    ravel (List.replicate n 1) (List.zipWith (fun n i => if n = 1 then 0 else i) (List.replicate n 1) o) = 0 := by
  induction n generalizing o with
  | zero => simp [ravel]
  | succ n ih =>
    cases o with
    | nil => simp [ravel]
    | cons i o => simp [List.replicate_succ, ravel, ih]

theorem bias_pin (d : List α) (M ns n m : Nat) (o : List Nat) (hm : m < M) (ho : o.length = ns) :
    (⟨[1, M] ++ List.replicate ns 1, d⟩ : Tensor α).get (pin ([1, M] ++ List.replicate ns 1) (n :: m :: o)) =
      (⟨[M], d⟩ : Tensor α).get [m] := by
  unfold pin Tensor.get
  have : (n :: m :: o).length - ([1, M] ++ List.replicate ns 1).length = 0 := by simp [ho]
  rw [this]
  simp only [List.drop_zero, List.cons_append, List.nil_append, List.zipWith_cons_cons, ravel, ravel_ones,
    prod_replicate_one, if_true, prod_cons, prod_nil]
  congr 1
  by_cases hM : M = 1
  · subst hM; simp; omega
  · simp [hM]

theorem addBias_equiv (A : Arith α) (out : Tensor α) (N M : Nat) (osp : List Nat) (bvec : Tensor α)
    (hout : out.shape = N :: M :: osp) (hoW : out.WF) (hpos : Pos out.shape)
    (hbs : bvec.shape = [M]) (hbW : bvec.WF) :
    ∃ r, (match unidirBroadcast out ⟨[1, M] ++ List.replicate osp.length 1, bvec.data⟩ with
        | .error e => (.error e : Res (Tensor α))
        | .ok (o', b') => zipSame A.add o' b') = .ok r ∧ r.shape = out.shape ∧ r.WF ∧
      ∀ idx, InRange idx out.shape → r.get idx = A.add (out.get idx) (bvec.get [idx.getD 1 0]) := by
  have hMpos : 0 < M := hpos M (by rw [hout]; simp)
  have hlenB : ([1, M] ++ List.replicate osp.length 1).length = out.shape.length := by simp [hout]
  have hlt : ¬ out.shape.length < (⟨[1, M] ++ List.replicate osp.length 1, bvec.data⟩ : Tensor α).shape.length := by
    simp only [hlenB]; omega
  have hok : (unidirBroadcast out ⟨[1, M] ++ List.replicate osp.length 1, bvec.data⟩).isOk = true := by
    rw [unidir_isOk _ _ hlt]
    intro j hj
    simp only
    rw [← hlenB, padShape_self, hout]
    rw [hout] at hj
    match j with
    | 0 => right; rfl
    | 1 => left; rfl
    | j+2 =>
      right
      simp only [List.cons_append, List.nil_append, dim_cons_succ, dim_replicate]
      simp only [List.length_cons] at hj
      rw [if_pos (by omega)]
  have hposB : Pos (⟨[1, M] ++ List.replicate osp.length 1, bvec.data⟩ : Tensor α).shape := by
    intro n hn
    simp only [List.cons_append, List.nil_append, List.mem_cons, List.mem_replicate] at hn
    rcases hn with rfl | rfl | ⟨_, rfl⟩ <;> omega
  cases h : unidirBroadcast out ⟨[1, M] ++ List.replicate osp.length 1, bvec.data⟩ with
  | error e => rw [h] at hok; simp [Res.isOk] at hok
  | ok v =>
    obtain ⟨o', b'⟩ := v
    have ho' := unidir_fst _ _ _ _ h
    subst ho'
    obtain ⟨hbsh, hbget⟩ := unidir_get _ _ _ _ hpos hposB h
    have hbW' : b'.WF := unidir_WF _ _ _ _ (by
      simp only [Tensor.WF, List.cons_append, List.nil_append, prod_cons, prod_replicate_one]
      have := hbW; simp only [Tensor.WF, hbs, prod_cons, prod_nil] at this; omega) h
    simp only
    unfold zipSame
    rw [if_pos hbsh.symm]
    refine ⟨_, rfl, rfl, ?_, ?_⟩
    · unfold Tensor.WF at hoW hbW' ⊢
      simp only [List.length_zipWith, hoW, hbW', hbsh, Nat.min_self]
    · intro idx hidx
      have hlt' := ravel_lt _ _ hidx
      unfold Tensor.WF at hoW hbW'
      have e1 : (⟨o'.shape, List.zipWith A.add o'.data b'.data⟩ : Tensor α).get idx =
          A.add (o'.get idx) (b'.get idx) := by
        simp only [Tensor.get]
        rw [getD_zipWith A.add _ _ _ (by rw [hoW]; exact hlt') (by rw [hbW', hbsh]; exact hlt') default
          default default, hbsh]
      rw [e1, hbget idx hidx]
      congr 1
      rw [hout] at hidx
      obtain ⟨n, m, o, rfl⟩ : ∃ n m o, idx = n :: m :: o := by
        cases idx with
        | nil => simp [InRange] at hidx
        | cons n idx => cases idx with
          | nil => simp [InRange] at hidx
          | cons m o => exact ⟨n, m, o, rfl⟩
      obtain ⟨_, hm, ho⟩ := hidx
      simp only [List.getD_cons_succ, List.getD_cons_zero]
      rw [bias_pin bvec.data M osp.length n m o hm (InRange_length ho)]
      simp only [Tensor.get, hbs]

/-! ### the operator -/

theorem convOutDim_nat (inD K pb pe s : Nat) (hfit : K ≤ inD + pb + pe) :
    convOutDim inD K pb pe s = (((inD + pb + pe - K) / s + 1 : Nat) : Int) := by
  unfold convOutDim
  have : (inD : Int) - (K : Int) + (pb : Int) + (pe : Int) = ((inD + pb + pe - K : Nat) : Int) := by omega
  rw [this, ← Int.ofNat_tdiv]
  simp

theorem any_neg_cast (f : Nat → Nat) (l : List Nat) :
    ((l.map (fun i => ((f i + 1 : Nat) : Int))).any fun x => decide (x < 0)) = false := by
  rw [List.any_eq_false]; intro a ha
  simp only [List.mem_map] at ha
  obtain ⟨n, _, rfl⟩ := ha
  simp only [decide_eq_true_eq]; omega

theorem any_zero_cast (f : Nat → Nat) (l : List Nat) :
    ((l.map (fun i => ((f i + 1 : Nat) : Int))).any fun x => decide (x = 0)) = false := by
  rw [List.any_eq_false]; intro a ha
  simp only [List.mem_map] at ha
  obtain ⟨n, _, rfl⟩ := ha
  simp only [decide_eq_true_eq]; omega

theorem take_cast (l : List Nat) (n : Nat) :
    ((l.map (fun (p : Nat) => (p : Int))).take n).map Int.toNat = l.take n := by
  rw [← List.map_take, List.map_map]
  conv => rhs; rw [← List.map_id (l.take n)]
  apply List.map_congr_left
  intro a _; simp

theorem drop_cast (l : List Nat) (n : Nat) :
    ((l.map (fun (p : Nat) => (p : Int))).drop n).map Int.toNat = l.drop n := by
  rw [← List.map_drop, List.map_map]
  conv => rhs; rw [← List.map_id (l.drop n)]
  apply List.map_congr_left
  intro a _; simp

theorem conv_core (A : Arith α) (hA : ZeroLaws A) (x w : Tensor α) (bias : Option (Tensor α))
    (N C M : Nat) (inDims k dil strides pb pe : List Nat)
    (hx : x.shape = N :: C :: inDims) (hw : w.shape = M :: C :: k)
    (hns : inDims.length = 1 ∨ inDims.length = 2)
    (hlk : k.length = inDims.length) (hld : dil.length = inDims.length) (hls : strides.length = inDims.length)
    (hlb : pb.length = inDims.length) (hle : pe.length = inDims.length)
    (hN : 0 < N) (hC : 0 < C) (hM : 0 < M) (hpi : Pos inDims) (hpk : Pos k) (hpd : Pos dil) (hps : Pos strides)
    (hk2 : ∀ x ∈ List.zipWith (fun k d => (k - 1) * d + 1) k dil, 2 ≤ x)
    (hfit : ∀ i, i < inDims.length →
      dim (List.zipWith (fun k d => (k - 1) * d + 1) k dil) i ≤ dim inDims i + dim pb i + dim pe i)
    (hbias : ∀ b, bias = some b → b.shape = [M] ∧ b.WF) :
    ∃ m, convOp A { autoPad := "NOTSET", dilations := dil, strides := strides, pads := (pb ++ pe).map (fun (p : Nat) => (p : Int)) } x w bias = .ok m ∧
      Equiv m (Spec.conv.go A dil strides pb inDims k x w bias inDims.length pe
        (List.zipWith (fun k d => (k - 1) * d + 1) k dil)) := by
  have hdne : dil.isEmpty = false := by cases dil with
    | nil => simp at hld; omega
    | cons _ _ => rfl
  have hsne : strides.isEmpty = false := by cases strides with
    | nil => simp at hls; omega
    | cons _ _ => rfl
  have hpne : ((pb ++ pe).map (fun (p : Nat) => (p : Int))).isEmpty = false := by cases pb with
    | nil => simp at hlb; omega
    | cons _ _ => rfl
  have hks := dilatedKernel_shape A.zero w M C k dil hw hpk hpd
  have e2 : inDims.length + 1 + 1 - 2 = inDims.length := by omega
  have hpbt : (pb ++ pe).take inDims.length = pb := by rw [← hlb]; simp
  have hpet : (pb ++ pe).drop inDims.length = pe := by rw [← hlb]; simp
  have hs0 : (strides.any fun x => decide (x = 0)) = false := by
    rw [List.any_eq_false]; intro a ha; have := hps a ha; simp; omega
  have hd0 : (dil.any fun x => decide (x = 0)) = false := by
    rw [List.any_eq_false]; intro a ha; have := hpd a ha; simp; omega
  have hneg : ((List.map (fun (p : Nat) => (p : Int)) (pb ++ pe)).any fun x => decide (x < 0)) = false := by
    rw [List.any_eq_false]; intro a ha
    simp only [List.mem_map] at ha
    obtain ⟨n, _, rfl⟩ := ha
    simp
  unfold convOp
  simp only [hx, hw, hdne, hsne, hpne, hks, List.length_cons, List.drop_succ_cons, List.drop_zero,
    Bool.false_eq_true, if_false, ne_eq, not_true_eq_false, e2, take_cast, drop_cast, hpbt, hpet, hs0, hd0, hneg,
    hld, hls, hlk, List.length_map, List.length_append, hlb, hle]
  have h3 : ¬ (¬inDims.length + 1 + 1 = 3 ∧ ¬inDims.length + 1 + 1 = 4) := by omega
  have e3 : inDims.length + inDims.length = 2 * inDims.length := by omega
  have hosp : List.map (fun i => convOutDim (dim inDims i) (dim (List.zipWith (fun k d => (k - 1) * d + 1) k dil) i)
        ((pb.getD i 0 : Nat) : Int) ((pe.getD i 0 : Nat) : Int) (dim strides i)) (List.range inDims.length) =
      List.map (fun i => (((dim inDims i + dim pb i + dim pe i -
        dim (List.zipWith (fun k d => (k - 1) * d + 1) k dil) i) / dim strides i + 1 : Nat) : Int)) (List.range inDims.length) := by
    apply List.map_congr_left
    intro i hi
    exact convOutDim_nat _ _ _ _ _ (hfit i (List.mem_range.1 hi))
  have hneg2 : ((List.map (fun i => (((dim inDims i + dim pb i + dim pe i -
        dim (List.zipWith (fun k d => (k - 1) * d + 1) k dil) i) / dim strides i + 1 : Nat) : Int))
        (List.range inDims.length)).any fun x => decide (x < 0)) = false := by
    exact any_neg_cast _ _
  have hzero2 : ((List.map (fun i => (((dim inDims i + dim pb i + dim pe i -
        dim (List.zipWith (fun k d => (k - 1) * d + 1) k dil) i) / dim strides i + 1 : Nat) : Int))
        (List.range inDims.length)).any fun x => decide (x = 0)) = false := by
    exact any_zero_cast _ _
  have htonat : List.map Int.toNat (List.map (fun i => (((dim inDims i + dim pb i + dim pe i -
        dim (List.zipWith (fun k d => (k - 1) * d + 1) k dil) i) / dim strides i + 1 : Nat) : Int))
        (List.range inDims.length)) = List.map (fun i => (dim inDims i + dim pb i + dim pe i -
        dim (List.zipWith (fun k d => (k - 1) * d + 1) k dil) i) / dim strides i + 1) (List.range inDims.length) := by
    rw [List.map_map]; apply List.map_congr_left; intro i _; simp only [Function.comp, Int.toNat_natCast]
  simp only [if_neg h3, e3, not_true_eq_false, or_self, if_false, hosp, hneg2, hzero2, htonat, Bool.false_eq_true,
    dim_cons_zero]
  have hne : inDims ≠ [] := by intro h; rw [h] at hns; simp at hns
  have hpxs := padInput_shape A.zero x N C inDims pb pe hx
  have hPlen : (List.zipWith (fun (d : Nat) (p : Nat × Nat) => p.1 + d + p.2) inDims (pb.zip pe)).length = inDims.length := by
    simp [hlb, hle]
  have hPpos : Pos (List.zipWith (fun (d : Nat) (p : Nat × Nat) => p.1 + d + p.2) inDims (pb.zip pe)) := by
    intro p hp
    obtain ⟨j, hj, rfl⟩ := List.getElem_of_mem hp
    have hj' : j < inDims.length := by rw [hPlen] at hj; exact hj
    have h1 := dim_padded inDims pb pe j hj' hlb hle
    rw [dim_eq, List.getElem?_eq_getElem hj, Option.getD_some] at h1
    rw [h1]
    have := Pos_dim hpi hj'
    omega
  -- the first cell
  have hfirst := convCell_taps A hA.add_zero hA.mul_zero (padInput A.zero x pb pe) w N C M _ k dil
    (List.replicate inDims.length 0) 0 0 hpxs hw hN hM hC hPpos
    (by intro h; have := congrArg List.length h; rw [hPlen] at this; simp at this; exact hne this)
    hpk hpd (by simp [hPlen]) (by rw [hPlen, hlk]) (by rw [hPlen, hld]) hk2
    (by
      intro j hj
      rw [hPlen] at hj
      rw [dim_replicate, if_pos hj, dim_padded inDims pb pe j hj hlb hle]
      have := hfit j hj
      omega)
  rw [hfirst]
  simp only
  rw [go_eq]
  -- the output before the bias
  have hcell := cell_value A hA x w N C M inDims k dil strides pb pe hx hw hne hlk hld hls hlb hle hC hpi hpk hpd hk2 hfit
  cases bias with
  | none =>
    refine ⟨_, rfl, ?_⟩
    refine ⟨by simp only [ofFn_shape, hx, hw, dim_cons_zero], ofFn_WF _ _, ofFn_WF _ _, ?_⟩
    intro idx hidx
    simp only [ofFn_shape] at hidx
    rw [get_ofFn _ _ _ hidx, get_ofFn _ _ _ (by simp only [hx, hw, dim_cons_zero]; exact hidx)]
    simp only [hx, dim_cons_succ, dim_cons_zero]
    exact hcell idx hidx
  | some bvec =>
    obtain ⟨hbs, hbW⟩ := hbias bvec rfl
    have hb1 : ¬ bvec.shape.length = 0 := by rw [hbs]; simp
    have hb2 : prod ([1, dim bvec.shape 0] ++ List.replicate inDims.length 1) = prod bvec.shape := by
      rw [hbs]; simp [dim_cons_zero, prod_replicate_one]
    simp only [if_neg hb1, hb2, not_true_eq_false, if_false]
    rw [hbs, dim_cons_zero]
    obtain ⟨r, hr, hrs, hrW, hrg⟩ := addBias_equiv A (ofFn ([N, M] ++ List.map (fun i => (dim inDims i + dim pb i + dim pe i -
        dim (List.zipWith (fun k d => (k - 1) * d + 1) k dil) i) / dim strides i + 1) (List.range inDims.length))
      fun idx =>
        if ((List.range inDims.length).all fun i =>
            decide ((List.drop 2 idx).getD i 0 * dim strides i < dim (padInput A.zero x pb pe).shape (2 + i))) = true then
          match convCell A (padInput A.zero x pb pe) (dilatedKernel A.zero w dil) (idx.getD 0 0) (idx.getD 1 0)
              (List.zipWith (fun x1 x2 => x1 * x2) (List.drop 2 idx) strides) with
          | Except.ok v => v
          | Except.error _ => A.zero
        else A.zero) N M (List.map (fun i => (dim inDims i + dim pb i + dim pe i -
        dim (List.zipWith (fun k d => (k - 1) * d + 1) k dil) i) / dim strides i + 1) (List.range inDims.length))
      bvec rfl (ofFn_WF _ _)
      (by
        intro n hn
        simp only [ofFn_shape, List.cons_append, List.nil_append, List.mem_cons, List.mem_map, List.mem_range] at hn
        rcases hn with rfl | rfl | ⟨i, _, rfl⟩
        · exact hN
        · exact hM
        · exact Nat.succ_pos _)
      hbs hbW
    simp only [List.length_map, List.length_range] at hr
    refine ⟨r, hr, ?_⟩
    refine ⟨by rw [hrs]; simp only [ofFn_shape, hx, hw, dim_cons_zero], hrW, ofFn_WF _ _, ?_⟩
    intro idx hidx
    rw [hrs] at hidx
    rw [hrg idx hidx]
    simp only [ofFn_shape] at hidx
    rw [get_ofFn _ _ _ hidx, get_ofFn _ _ _ (by simp only [hx, hw, dim_cons_zero]; exact hidx)]
    simp only [hx, dim_cons_succ, dim_cons_zero]
    exact congrArg (fun t => A.add t (bvec.get [idx.getD 1 0])) (hcell idx hidx)

theorem shape_split (l : List Nat) (h : l.length = 3 ∨ l.length = 4) :
    ∃ a b t, l = a :: b :: t ∧ (t.length = 1 ∨ t.length = 2) := by
  match l, h with
  | a :: b :: t, h => exact ⟨a, b, t, rfl, by simp at h; omega⟩
  | [], h => simp at h
  | [_], h => simp at h

theorem conv_explicit_partial (A : Arith α) (hA : ZeroLaws A) (x w : Tensor α) (bias : Option (Tensor α))
    (dil strides pads : List Nat)
    (hWb : ∀ b, bias = some b → b.WF)
    (hpx : Pos x.shape) (hpw : Pos w.shape)
    (hrank : x.shape.length = 3 ∨ x.shape.length = 4)
    (hdl : dil.length = x.shape.length - 2) (hsl : strides.length = x.shape.length - 2)
    (hpl : pads.length = 2 * (x.shape.length - 2))
    (hdp : ∀ d ∈ dil, 0 < d) (hsp : ∀ s ∈ strides, 0 < s)
    (hk2 : ∀ k ∈ dkernel w dil, 2 ≤ k)
    (s : Tensor α) (hs : Spec.conv A "NOTSET" dil strides pads x w bias = some s) :
    ∃ m, convOp A { autoPad := "NOTSET", dilations := dil, strides := strides, pads := pads.map (fun (p : Nat) => (p : Int)) } x w bias = .ok m ∧
      Equiv m s := by
  obtain ⟨N, C, inDims, hx, hns⟩ := shape_split x.shape hrank
  have hnsl : x.shape.length - 2 = inDims.length := by rw [hx]; simp
  rw [hnsl] at hdl hsl hpl
  unfold Spec.conv at hs
  simp only [hnsl] at hs
  split at hs
  · cases hs
  · rename_i hc
    simp only [not_or, Decidable.not_not] at hc
    obtain ⟨_, hwl, hwc⟩ := hc
    obtain ⟨M, C', k, hw, _⟩ := shape_split w.shape (by rw [hwl]; exact hrank)
    have hC' : C' = C := by rw [hw, hx] at hwc; simpa [dim_cons_succ, dim_cons_zero] using hwc
    subst hC'
    have hlk : k.length = inDims.length := by rw [hw, hx] at hwl; simpa using hwl
    have hdne : dil.isEmpty = false := by cases dil with
      | nil => simp at hdl; omega
      | cons _ _ => rfl
    have hsne : strides.isEmpty = false := by cases strides with
      | nil => simp at hsl; omega
      | cons _ _ => rfl
    have hpne : pads.isEmpty = false := by cases pads with
      | nil => simp at hpl; omega
      | cons _ _ => rfl
    simp only [hdne, hsne, Bool.false_eq_true, if_false, Spec.convPads, if_true, hpne, hx, hw,
      List.drop_succ_cons, List.drop_zero] at hs
    split at hs
    · cases hs
    · rename_i hfitb
      have hfit : ∀ i, i < inDims.length → dim (List.zipWith (fun k d => (k - 1) * d + 1) k dil) i ≤
          dim inDims i + dim (pads.take inDims.length) i + dim (pads.drop inDims.length) i := by
        intro i hi
        rw [Bool.not_eq_true, List.any_eq_false] at hfitb
        have := hfitb i (List.mem_range.2 hi)
        simp only [decide_eq_true_eq] at this
        omega
      have hgoal : ∀ (hb : ∀ b, bias = some b → b.shape = [M] ∧ b.WF),
          ∃ m, convOp A { autoPad := "NOTSET", dilations := dil, strides := strides, pads := pads.map (fun (p : Nat) => (p : Int)) } x w bias = .ok m ∧
          Equiv m (Spec.conv.go A dil strides (pads.take inDims.length) inDims k x w bias inDims.length
            (pads.drop inDims.length) (List.zipWith (fun k d => (k - 1) * d + 1) k dil)) := by
        intro hb
        have := conv_core A hA x w bias N C' M inDims k dil strides (pads.take inDims.length)
          (pads.drop inDims.length) hx hw hns hlk hdl hsl (by simp; omega) (by simp; omega)
          (hpx N (by rw [hx]; simp)) (hpx C' (by rw [hx]; simp)) (hpw M (by rw [hw]; simp))
          (fun n hn => hpx n (by rw [hx]; simp [hn])) (fun n hn => hpw n (by rw [hw]; simp [hn]))
          hdp hsp (by simpa [dkernel, hw] using hk2) hfit hb
        rw [List.take_append_drop] at this
        exact this
      cases bias with
      | none =>
        simp only [Option.some.injEq] at hs
        subst hs
        exact hgoal (fun b hb => by cases hb)
      | some b =>
        simp only [dim_cons_zero] at hs
        split at hs
        · cases hs
        · rename_i hbs
          simp only [ne_eq, Decidable.not_not] at hbs
          simp only [Option.some.injEq] at hs
          subst hs
          exact hgoal (fun b' hb' => by cases hb'; exact ⟨hbs, hWb _ rfl⟩)

end Gonnx.Proofs.Conv
